import FluteModel.Lemmas.SchedGone
/-
  Round robin over consecutive calls, whatever the calls return: FDT packets and packets of higher-priority queues
  in between do not disturb the round-robin position of a queue.
-/
namespace Flute.Sched

/-- a due transfer: its packet, or - an FDT instance is pending - nothing happens to the slot -/
theorem runFile_due_keep {k : Nat} {f : FileDesc} {P : Prop} (fuel : Nat) (s : State) (prio : Nat) (c : Cur) (now : Nat)
    (ticks : List (Nat × Nat)) (h : Kept k f P s) (hk : c.key = k) (hg : gateBlocked f now = false)
    (hs : c.enc.stopped = false) (hlt : c.enc.sent < f.nPk) :
    (∃ i b, (runFile (fuel + 1) s prio (some c) now ticks).2.2 = Out.pkt prio k i b) ∨
    ((runFile (fuel + 1) s prio (some c) now ticks).2.2 = Out.none ∧
     (runFile (fuel + 1) s prio (some c) now ticks).1 = s ∧
     (runFile (fuel + 1) s prio (some c) now ticks).2.1 = some c ∧ s.fdtQueue ≠ []) := by
  by_cases hq : s.fdtQueue = []
  · left
    rcases runFile_due fuel s prio c now ticks h hk hg hs hlt with h1 | ⟨_, h2⟩
    · exact h1
    · exfalso
      -- with an empty FDT queue the packet is emitted: the state after a packet has the same FDT queue
      obtain ⟨f', h1, h2', h3, _⟩ := h.obj
      revert h2
      unfold runFile
      simp only [hq, List.isEmpty_nil, Bool.not_true, Bool.false_eq_true, if_false]
      rw [hk, h1]
      simp only [gateBlocked_congr h2' now, hg, Bool.false_eq_true, if_false]
      rw [encRead_eq]
      have hs' : ¬ c.enc.stopped = true := by rw [hs]; simp
      have hlt' : c.enc.sent < (if f'.nSym = 0 then 1 else f'.nSym) := by
        have : f.nPk = (if f.nSym = 0 then 1 else f.nSym) := rfl
        rw [h3, ← this]; exact hlt
      rw [if_neg hs', if_pos hlt']
      intro hne
      exact hne hq
  · right
    have hne : (!s.fdtQueue.isEmpty) = true := by
      cases hql : s.fdtQueue with
      | nil => exact absurd hql hq
      | cons a r => rfl
    unfold runFile
    simp only [openFailed_false, hne, if_true]
    exact ⟨trivial, trivial, trivial, hq⟩

/-- a queue that does not hold `k`: `k` is untouched whatever the queue returns -/
theorem readQueue_other_all {k : Nat} {f : FileDesc} {P : Prop} (ht : f.info.transferring = true) :
    ∀ steps (s : State) (q : QSess) now ticks, Kept k f P s →
    (∀ cur0 ∈ q.slots, ∀ c0, cur0 = some c0 → c0.key ≠ k) →
    Kept k f P (readQueue steps s q now ticks).1 := by
  intro steps
  induction steps with
  | zero => intro s q now ticks h _; exact h
  | succ n ih =>
    intro s q now ticks h hq
    unfold readQueue
    split
    · exact h
    · rename_i cur hcur
      have hmem : cur ∈ q.slots := List.mem_of_getElem? hcur
      have hr := runFile_other_all ht runFuel s q.prio cur now ticks h (hq cur hmem)
      generalize runFile runFuel s q.prio cur now ticks = r at hr
      obtain ⟨s', cur', out⟩ := r
      simp only [] at hr ⊢
      cases out with
      | none =>
        simp only []
        refine ih s' _ now ticks hr.1 ?_
        intro cur0 hcur0 c0 e
        rcases List.mem_or_eq_of_mem_set hcur0 with hm | hm
        · exact hq cur0 hm c0 e
        · subst hm; exact hr.2.1 c0 e
      | hang => exact hr.1
      | pkt a b c d => exact hr.1
      | fdt a b c => exact hr.1

/-- the queue of the due transfer returns `None` (an FDT instance is pending): the round-robin index is where it
    was, the due slot and its object are untouched -/
theorem readQueue_none_keep {k : Nat} {f : FileDesc} {P : Prop} (ht : f.info.transferring = true) (c : Cur) (j n : Nat)
    (hk : c.key = k) (now : Nat) (hg : gateBlocked f now = false) (hs : c.enc.stopped = false)
    (hlt : c.enc.sent < f.nPk) :
    ∀ steps (s : State) (q : QSess) ticks, Kept k f P s → q.slots.length = n → q.index < n →
    q.slots[j]? = some (some c) →
    (∀ i c0, i ≠ j → q.slots[i]? = some (some c0) → c0.key ≠ k) →
    (readQueue steps s q now ticks).2.2 = Out.none →
    (readQueue steps s q now ticks).2.1.index = (q.index + steps) % n ∧
    (readQueue steps s q now ticks).2.1.slots[j]? = some (some c) ∧
    Kept k f P (readQueue steps s q now ticks).1 := by
  intro steps
  induction steps with
  | zero =>
    intro s q ticks h hn hidx hjs _ _
    exact ⟨by show q.index = (q.index + 0) % n; rw [Nat.add_zero, Nat.mod_eq_of_lt hidx], hjs, h⟩
  | succ m ih =>
    intro s q ticks h hn hidx hjs hoth
    unfold readQueue
    split
    · rename_i hnone
      rw [List.getElem?_eq_none_iff] at hnone
      omega
    · rename_i cur hcur
      have hnext : (if q.index + 1 = q.slots.length then 0 else q.index + 1) = (q.index + 1) % n := by
        rw [hn]
        split
        · rename_i e; rw [e, Nat.mod_self]
        · rename_i e; rw [Nat.mod_eq_of_lt (by omega)]
      have hfin : ∀ x : Nat, x < n → (x + m) % n = x → True := fun _ _ _ => trivial
      by_cases hij : q.index = j
      · rw [hij, hjs] at hcur
        simp only [Option.some.injEq] at hcur
        subst hcur
        have e : runFuel = 3 + 1 := rfl
        have hr := runFile_due_keep 3 s q.prio c now ticks h hk hg hs hlt
        rw [e]
        generalize runFile (3 + 1) s q.prio (some c) now ticks = r at hr
        obtain ⟨s', cur', out⟩ := r
        simp only [] at hr ⊢
        rcases hr with ⟨i, b, hr⟩ | ⟨h1, h2, h3, _⟩
        · subst hr; intro e'; cases e'
        · subst h1; subst h2; subst h3
          simp only []
          intro hnone
          have := ih s' { q with slots := q.slots.set q.index (some c), index := (if q.index + 1 = q.slots.length then 0 else q.index + 1) }
            ticks h (by simp [hn]) (by rw [hnext]; exact Nat.mod_lt _ (by omega))
            (by show (q.slots.set q.index (some c))[j]? = _; rw [hij, List.getElem?_set_self (by omega)])
            (by
              intro i c0 hi hget
              have hget' : (q.slots.set q.index (some c))[i]? = some (some c0) := hget
              rw [hij, List.getElem?_set_ne (fun e => hi e.symm)] at hget'
              exact hoth i c0 hi hget') hnone
          refine ⟨?_, this.2⟩
          rw [this.1]
          show ((if q.index + 1 = q.slots.length then 0 else q.index + 1) + m) % n = (q.index + (m + 1)) % n
          rw [hnext, Nat.add_mod, Nat.mod_mod, ← Nat.add_mod, Nat.add_assoc, Nat.add_comm 1 m]
      · have hne : ∀ c0, cur = some c0 → c0.key ≠ k := by
          intro c0 e; subst e
          exact hoth q.index c0 hij hcur
        have hr := runFile_other ht runFuel s q.prio cur now ticks h hne
        generalize runFile runFuel s q.prio cur now ticks = r at hr
        obtain ⟨s', cur', out⟩ := r
        simp only [] at hr ⊢
        cases out with
        | none =>
          simp only []
          obtain ⟨hk', hcur'⟩ := hr.2 rfl
          intro hnone
          have := ih s' { q with slots := q.slots.set q.index cur', index := (if q.index + 1 = q.slots.length then 0 else q.index + 1) }
            ticks hk' (by simp [hn]) (by rw [hnext]; exact Nat.mod_lt _ (by omega))
            (by show (q.slots.set q.index cur')[j]? = _; rw [List.getElem?_set_ne hij]; exact hjs)
            (by
              intro i c0 hi hget
              have hget' : (q.slots.set q.index cur')[i]? = some (some c0) := hget
              by_cases hiq : q.index = i
              · subst hiq
                rw [List.getElem?_set_self (by omega)] at hget'
                simp only [Option.some.injEq] at hget'
                exact hcur' c0 hget'
              · rw [List.getElem?_set_ne hiq] at hget'
                exact hoth i c0 hi hget') hnone
          refine ⟨?_, this.2⟩
          rw [this.1]
          show ((if q.index + 1 = q.slots.length then 0 else q.index + 1) + m) % n = (q.index + (m + 1)) % n
          rw [hnext, Nat.add_mod, Nat.mod_mod, ← Nat.add_mod, Nat.add_assoc, Nat.add_comm 1 m]
        | hang => intro e'; cases e'
        | pkt a b c' d => intro e'; cases e'
        | fdt a b c' => intro e'; cases e'

/-- queues that do not hold `k`, all returning `None`: `k` is untouched -/
theorem readQueues_other_none {k : Nat} {f : FileDesc} {P : Prop} (ht : f.info.transferring = true) (now : Nat)
    (ticks : List (Nat × Nat)) : ∀ (qs : List QSess) (s : State), Kept k f P s →
    (∀ q0 ∈ qs, ∀ cur0 ∈ q0.slots, ∀ c0, cur0 = some c0 → c0.key ≠ k) →
    (readQueues s qs now ticks).2.2 = Out.none → Kept k f P (readQueues s qs now ticks).1 := by
  intro qs
  induction qs with
  | nil => intro s h _ _; exact h
  | cons q0 rest ih =>
    intro s h hqs
    unfold readQueues
    have hr := readQueue_other ht q0.slots.length s q0 now ticks h (hqs q0 List.mem_cons_self)
    generalize readQueue q0.slots.length s q0 now ticks = r at hr
    obtain ⟨s', q0', out⟩ := r
    simp only [] at hr ⊢
    cases out with
    | none =>
      simp only []
      have h2 := ih s' (hr.2 rfl) (fun q1 hq1 => hqs q1 (List.mem_cons_of_mem _ hq1))
      generalize readQueues s' rest now ticks = r2 at h2
      obtain ⟨s2, rest2, out2⟩ := r2
      simp only [] at h2 ⊢
      exact h2
    | hang => intro e; cases e
    | pkt a b c d => intro e; cases e
    | fdt a b c => intro e; cases e

/-- where the queue of the due transfer is after the loop over the queues, when the loop returns a packet of
    ANOTHER priority or nothing -/
def KeepPos (k : Nat) (f : FileDesc) (c : Cur) (j : Nat) (q : QSess) (npre : Nat) (P : Prop)
    (s' : State) (qs : List QSess) : Prop :=
  ∃ pre' q' post', qs = pre' ++ q' :: post' ∧ pre'.length = npre ∧ q'.prio = q.prio ∧
    q'.slots.length = q.slots.length ∧ q'.index = q.index ∧ q'.slots[j]? = some (some c) ∧ Kept k f P s'

theorem readQueues_keep {k : Nat} {f : FileDesc} {P : Prop} (ht : f.info.transferring = true) (c : Cur) (j : Nat)
    (hk : c.key = k) (now : Nat) (hg : gateBlocked f now = false) (hs : c.enc.stopped = false)
    (hlt : c.enc.sent < f.nPk) (q : QSess) (post : List QSess) (ticks : List (Nat × Nat))
    (hidx : q.index < q.slots.length) (hjs : q.slots[j]? = some (some c))
    (hoth : ∀ i c0, i ≠ j → q.slots[i]? = some (some c0) → c0.key ≠ k)
    (hpost : ∀ q0 ∈ post, ∀ cur0 ∈ q0.slots, ∀ c0, cur0 = some c0 → c0.key ≠ k) :
    ∀ (pre : List QSess) (s : State), Kept k f P s →
    (∀ q0 ∈ pre, q0.prio ≠ q.prio ∧ ∀ cur0 ∈ q0.slots, ∀ c0, cur0 = some c0 → c0.key ≠ k) →
    ((readQueues s (pre ++ q :: post) now ticks).2.2 = Out.none ∨
      ∃ p t i b, (readQueues s (pre ++ q :: post) now ticks).2.2 = Out.pkt p t i b ∧ p ≠ q.prio) →
    KeepPos k f c j q pre.length P (readQueues s (pre ++ q :: post) now ticks).1
      (readQueues s (pre ++ q :: post) now ticks).2.1 := by
  have hj : j < q.slots.length := by
    rcases Nat.lt_or_ge j q.slots.length with h | h
    · exact h
    · rw [List.getElem?_eq_none h] at hjs; cases hjs
  intro pre
  induction pre with
  | nil =>
    intro s h _
    simp only [List.nil_append]
    unfold readQueues
    have hd := readQueue_due ht c j q.slots.length hk now hg hs hlt hj q.slots.length s q ticks h rfl hidx hjs hoth
      (rrDist_lt _ _ _ hidx hj)
    have hkp := readQueue_none_keep ht c j q.slots.length hk now hg hs hlt q.slots.length s q ticks h rfl hidx hjs hoth
    have hsh := readQueue_shape q.slots.length s q now ticks
    generalize readQueue q.slots.length s q now ticks = r at hd hkp hsh
    obtain ⟨s', q', out⟩ := r
    simp only [] at hd hkp hsh ⊢
    cases out with
    | none =>
      simp only []
      obtain ⟨e1, e2, e3⟩ := hkp rfl
      have hpend := readQueues_pending post s' now ticks (hd.2 rfl)
      have hkeep := readQueues_other_none ht now ticks post s' e3 hpost
      generalize readQueues s' post now ticks = r2 at hpend hkeep
      obtain ⟨s2, rest2, out2⟩ := r2
      simp only [] at hpend hkeep ⊢
      intro _
      refine ⟨[], q', rest2, rfl, rfl, (Prod.mk.inj hsh).1, (Prod.mk.inj hsh).2, ?_, e2, hkeep hpend.1⟩
      rw [e1, Nat.add_mod_right, Nat.mod_eq_of_lt hidx]
    | hang => intro hh; rcases hh with e | ⟨_, _, _, _, e, _⟩ <;> cases e
    | fdt a b c' => intro hh; rcases hh with e | ⟨_, _, _, _, e, _⟩ <;> cases e
    | pkt a b c' d =>
      intro hh
      rcases hh with e | ⟨p, t, i, b', e, hne⟩
      · cases e
      · exfalso
        simp only [Out.pkt.injEq] at e
        exact hne (by rw [← e.1]; exact hd.1 a b c' d rfl)
  | cons q0 pre' ih =>
    intro s h hpre
    simp only [List.cons_append]
    unfold readQueues
    have hr := readQueue_other ht q0.slots.length s q0 now ticks h (hpre q0 List.mem_cons_self).2
    have hall := readQueue_other_all ht q0.slots.length s q0 now ticks h (hpre q0 List.mem_cons_self).2
    generalize readQueue q0.slots.length s q0 now ticks = r at hr hall
    obtain ⟨s', q0', out⟩ := r
    simp only [] at hr hall ⊢
    cases out with
    | none =>
      simp only []
      have h2 := ih s' (hr.2 rfl) (fun q1 hq1 => hpre q1 (List.mem_cons_of_mem _ hq1))
      generalize readQueues s' (pre' ++ q :: post) now ticks = r2 at h2
      obtain ⟨s2, rest2, out2⟩ := r2
      simp only [] at h2 ⊢
      intro hh
      obtain ⟨pre'', q', post', e1, e2, e3⟩ := h2 hh
      exact ⟨q0' :: pre'', q', post', by rw [e1]; rfl, by simp [e2], e3⟩
    | hang => intro hh; rcases hh with e | ⟨_, _, _, _, e, _⟩ <;> cases e
    | fdt a b c' => intro hh; rcases hh with e | ⟨_, _, _, _, e, _⟩ <;> cases e
    | pkt a b c' d =>
      intro _
      exact ⟨q0' :: pre', q, post, rfl, by simp, rfl, rfl, rfl, hjs, hall⟩

/-! the file sessions never return an FDT packet -/

theorem runFile_not_fdt : ∀ fuel (s : State) prio (cur : Option Cur) now ticks a b d,
    (runFile fuel s prio cur now ticks).2.2 ≠ Out.fdt a b d := by
  intro fuel
  induction fuel with
  | zero => intro s prio cur now ticks a b d e; cases e
  | succ n ih =>
    intro s prio cur now ticks a b d
    have key : ∀ (fr : Bool) (s1 : State) (cur1 : Option Cur),
        (if !s1.fdtQueue.isEmpty then (s1, cur1, Out.none) else
          match cur1 with
          | none => (s1, none, Out.none)
          | some c =>
            match getF s1.objs c.key with
            | none => (s1, cur1, Out.none)
            | some f =>
              if gateBlocked f now then (s1, cur1, Out.none) else
              match encRead f.nSym c.enc (canStop f && !s1.files.contains c.key) with
              | (none, _) =>

                if fr then (transferDoneFile s1 c.key now, none, Out.none)

                else runFile n (transferDoneFile s1 c.key now) prio none now ticks
              | (some (idx, b), e) => (pktStep s1 prio c.key now idx b, some { c with enc := e }, Out.pkt prio c.key idx b)).2.2
          ≠ Out.fdt a b d := by
      intro fr s1 cur1
      split
      · intro e; cases e
      · cases cur1 with
        | none => intro e; cases e
        | some c =>
          simp only []
          split
          · intro e; cases e
          · split
            · intro e; cases e
            · split
              · cases fr with
                | true => simp only [if_true]; intro e; cases e
                | false => simp only [Bool.false_eq_true, if_false]; exact ih _ _ _ _ _ a b d
              · intro e; cases e
    unfold runFile
    cases cur with
    | some c => exact key false s (some c)
    | none =>
      simp only []
      cases hg : getNextFile s prio now ticks with
      | mk s' r =>
        cases r with
        | none => exact key true s' none
        | some t =>
          simp only []
          cases ho : openFailed true s' (some (startCur s' t)) with
          | none => exact key true s' (some (startCur s' t))
          | some kf =>
            obtain ⟨k', f'⟩ := kf
            simp only []
            intro e; cases e

theorem readQueue_not_fdt : ∀ k (s : State) (q : QSess) now ticks a b d,
    (readQueue k s q now ticks).2.2 ≠ Out.fdt a b d := by
  intro k
  induction k with
  | zero => intro s q now ticks a b d e; cases e
  | succ n ih =>
    intro s q now ticks a b d
    unfold readQueue
    split
    · intro e; cases e
    · rename_i cur _
      have hr := runFile_not_fdt runFuel s q.prio cur now ticks
      generalize runFile runFuel s q.prio cur now ticks = r at hr
      obtain ⟨s', cur', out⟩ := r
      simp only [] at hr ⊢
      cases out with
      | none => simp only []; exact ih _ _ _ _ a b d
      | hang => intro e; cases e
      | pkt _ _ _ _ => intro e; cases e
      | fdt a' b' d' => exact absurd rfl (hr a' b' d')

theorem readQueues_not_fdt : ∀ (qs : List QSess) (s : State) now ticks a b d,
    (readQueues s qs now ticks).2.2 ≠ Out.fdt a b d := by
  intro qs
  induction qs with
  | nil => intro s now ticks a b d e; cases e
  | cons q0 rest ih =>
    intro s now ticks a b d
    unfold readQueues
    have hr := readQueue_not_fdt q0.slots.length s q0 now ticks
    generalize readQueue q0.slots.length s q0 now ticks = r at hr
    obtain ⟨s', q0', out⟩ := r
    simp only [] at hr ⊢
    cases out with
    | none =>
      simp only []
      have h2 := ih s' now ticks a b d
      generalize readQueues s' rest now ticks = r2 at h2
      obtain ⟨s2, rest2, out2⟩ := r2
      simp only [] at h2 ⊢
      exact h2
    | hang => intro e; cases e
    | pkt _ _ _ _ => intro e; cases e
    | fdt a' b' d' => exact absurd rfl (hr a' b' d')

/-- `read` returns an FDT packet or a packet of another priority: the queue of the due transfer is where it was -/
theorem read_keep (cfg : Cfg) (tbl : List Nat) (ops : List Op) (pre post : List QSess) (q : QSess) (j : Nat) (c : Cur)
    (f : FileDesc) (now : Nat) (ticks : List (Nat × Nat))
    (hsorted : (cfg.queues.map (fun x => x.1)).Pairwise (fun a b => a < b))
    (hsess : (run (init cfg tbl) ops).sessions = pre ++ q :: post)
    (hjs : q.slots[j]? = some (some c)) (hf : getF (run (init cfg tbl) ops).objs c.key = some f)
    (hg : gateBlocked f now = false) (hs : c.enc.stopped = false) (hlt : c.enc.sent < f.nPk) :
    ((∃ a b d, (read (run (init cfg tbl) ops) now ticks).2 = Out.fdt a b d) ∨
      ∃ p t i b, (read (run (init cfg tbl) ops) now ticks).2 = Out.pkt p t i b ∧ p ≠ q.prio) →
    KeepPos c.key f c j q pre.length (c.key ∈ (run (init cfg tbl) ops).files)
      (read (run (init cfg tbl) ops) now ticks).1 (read (run (init cfg tbl) ops) now ticks).1.sessions := by
  have hwq := run_inv Wf.closed Wf.closedOps ops (init cfg tbl) (by rw [heldOf_init]; exact Wf.init cfg tbl) rfl
  have hidx := run_idx cfg tbl ops
  have hne := prio_ne_of_sorted cfg tbl ops pre post q hsorted hsess
  generalize run (init cfg tbl) ops = s at *
  obtain ⟨hw, hquiet⟩ := hwq
  have hheld : heldOf s = held pre ++ (heldQ q ++ held post) := by
    unfold heldOf; rw [hsess]; simp [held]
  have hcq : (q.prio, c) ∈ heldQ q := by
    unfold heldQ heldSlots
    exact List.mem_flatMap.mpr ⟨some c, List.mem_of_getElem? hjs, by simp [optHeld]⟩
  have hcin : (q.prio, c) ∈ heldOf s := by rw [hheld]; exact List.mem_append_right _ (List.mem_append_left _ hcq)
  obtain ⟨f0, hf0, htr, _⟩ := hw.heldObj _ hcin
  rw [hf] at hf0; cases hf0
  have hnd := hw.heldNodup
  rw [hheld, List.map_append, List.nodup_append] at hnd
  obtain ⟨_, hnd2, hnd3⟩ := hnd
  have hpre : ∀ q0 ∈ pre, q0.prio ≠ q.prio ∧ ∀ cur0 ∈ q0.slots, ∀ c0, cur0 = some c0 → c0.key ≠ c.key := by
    intro q0 hq0
    refine ⟨hne q0 hq0, ?_⟩
    intro cur0 hcur0 c0 e
    subst e
    have h1 : c0.key ∈ (held pre).map (fun pc => pc.2.key) :=
      List.mem_map.mpr ⟨_, mem_held_of_slot hq0 hcur0, rfl⟩
    have h2 : c.key ∈ (heldQ q ++ held post).map (fun pc => pc.2.key) :=
      List.mem_map.mpr ⟨_, List.mem_append_left _ hcq, rfl⟩
    exact hnd3 _ h1 _ h2
  rw [List.map_append, List.nodup_append] at hnd2
  have hoth : ∀ i c0, i ≠ j → q.slots[i]? = some (some c0) → c0.key ≠ c.key := by
    intro i c0 hij hi
    exact heldSlots_distinct q.prio q.slots i j c0 c hnd2.1 hi hjs hij
  have hpost : ∀ q0 ∈ post, ∀ cur0 ∈ q0.slots, ∀ c0, cur0 = some c0 → c0.key ≠ c.key := by
    intro q0 hq0 cur0 hcur0 c0 e
    subst e
    have h1 : c.key ∈ (heldQ q).map (fun pc => pc.2.key) := List.mem_map.mpr ⟨_, hcq, rfl⟩
    have h2 : c0.key ∈ (held post).map (fun pc => pc.2.key) :=
      List.mem_map.mpr ⟨_, mem_held_of_slot hq0 hcur0, rfl⟩
    exact fun e => hnd2.2.2 _ h1 _ h2 e.symm
  have hqidx : q.index < q.slots.length := hidx q (by rw [hsess]; simp)
  have hkept : Kept c.key f (c.key ∈ s.files) s := ⟨⟨f, hf, rfl, rfl, rfl⟩, Iff.rfl⟩
  unfold read
  have hw0 : Wf (emit s (.opRead now)) (heldOf s) := Wf.emit _ hw
  have hk0 : Kept c.key f (c.key ∈ s.files) (emit s (.opRead now)) := hkept.same rfl rfl
  have hk1 := Kept.runFdt runFuel (emit s (.opRead now)) now hk0
  have hw1 := runFdt_inv Wf.closed runFuel (emit s (.opRead now)) now _ hw0 hquiet
  have hs1 := runFdt_sessions runFuel (emit s (.opRead now)) now
  have ho1 := runFdt_out runFuel (emit s (.opRead now)) now
  generalize hr1 : runFdt runFuel (emit s (.opRead now)) now = r1 at hk1 hw1 hs1 ho1
  obtain ⟨s1, o1⟩ := r1
  simp only [emit_sessions] at hk1 hw1 hs1 ho1
  cases o1 with
  | hang => intro hh; rcases hh with ⟨_, _, _, e⟩ | ⟨_, _, _, _, e, _⟩ <;> cases e
  | fdt a b c' =>
    intro _
    exact ⟨pre, q, post, by show s1.sessions = _; rw [hs1, hsess], rfl, rfl, rfl, rfl, hjs, hk1⟩
  | pkt a b c' d => exact absurd rfl (ho1 a b c' d)
  | none =>
    simp only []
    have hq1 := runFdt_none runFuel (emit s (.opRead now)) now s1 hr1
    have hw1q : Wf { s1 with quiet := true } (heldOf s) := Wf.enterFiles now hw1.1 hq1
    have hk1q : Kept c.key f (c.key ∈ s.files) { s1 with quiet := true } := hk1.same rfl rfl
    have hSsess : ({ s1 with quiet := true } : State).sessions = pre ++ q :: post := by
      show s1.sessions = _; rw [hs1, hsess]
    have hSq : ({ s1 with quiet := true } : State).quiet = true := rfl
    generalize ({ s1 with quiet := true } : State) = S at hw1q hk1q hSsess hSq ⊢
    unfold readMid
    simp only []
    rw [hSsess]
    have hkp := readQueues_keep htr c j rfl now hg hs hlt q post ticks hqidx hjs hoth hpost pre S hk1q hpre
    have hnf := readQueues_not_fdt (pre ++ q :: post) S now ticks
    generalize readQueues S (pre ++ q :: post) now ticks = r2 at hkp hnf
    obtain ⟨s2, qs, o2⟩ := r2
    simp only [] at hkp hnf ⊢
    cases o2 with
    | hang => intro hh; rcases hh with ⟨_, _, _, e⟩ | ⟨_, _, _, _, e, _⟩ <;> cases e
    | fdt a b c' =>
      exact absurd rfl (hnf a b c')
    | pkt a b c' d =>
      intro hh
      rcases hh with ⟨_, _, _, e⟩ | ⟨p, t, i, b', e, hne'⟩
      · cases e
      · simp only [Out.pkt.injEq] at e
        obtain ⟨pre', q', post', e1, e2, e3, e4, e5, e6, e7⟩ := hkp (Or.inr ⟨a, b, c', d, rfl, by rw [e.1]; exact hne'⟩)
        exact ⟨pre', q', post', e1, e2, e3, e4, e5, e6, e7.same rfl rfl⟩
    | none =>
      simp only []
      intro _
      obtain ⟨pre', q', post', e1, e2, e3, e4, e5, e6, e7⟩ := hkp (Or.inl rfl)
      have hk2 : Kept c.key f (c.key ∈ s.files) ({ s2 with sessions := qs, quiet := false } : State) := e7.same rfl rfl
      unfold readTail
      have hk3 := Kept.runFdt runFuel ({ s2 with sessions := qs, quiet := false } : State) now hk2
      have hs3 := runFdt_sessions runFuel ({ s2 with sessions := qs, quiet := false } : State) now
      generalize runFdt runFuel ({ s2 with sessions := qs, quiet := false } : State) now = r3 at hk3 hs3
      obtain ⟨s3, o3⟩ := r3
      simp only [] at hk3 hs3 ⊢
      cases o3 with
      | none => exact ⟨pre', q', post', by show s3.sessions = _; rw [hs3]; exact e1, e2, e3, e4, e5, e6, hk3.same rfl rfl⟩
      | hang => exact ⟨pre', q', post', by show s3.sessions = _; rw [hs3]; exact e1, e2, e3, e4, e5, e6, hk3⟩
      | pkt _ _ _ _ => exact ⟨pre', q', post', by show s3.sessions = _; rw [hs3]; exact e1, e2, e3, e4, e5, e6, hk3⟩
      | fdt _ _ _ => exact ⟨pre', q', post', by show s3.sessions = _; rw [hs3]; exact e1, e2, e3, e4, e5, e6, hk3⟩

/-- packets of peers of `k` (same priority, other object) among the outputs of consecutive reads -/
def peerCount (prio k N : Nat) : State → List (List (Nat × Nat)) → Nat
  | _, [] => 0
  | s, tk :: rest =>
    (match (read s N tk).2 with
     | .pkt p t _ _ => if p = prio ∧ t ≠ k then 1 else 0
     | _ => 0) + peerCount prio k N (read s N tk).1 rest

theorem rr_all (cfg : Cfg) (tbl : List Nat) (hsorted : (cfg.queues.map (fun x => x.1)).Pairwise (fun a b => a < b))
    (now : Nat) (j : Nat) (c : Cur) (prio n : Nat) :
    ∀ (tks : List (List (Nat × Nat))) (ops : List Op) (pre post : List QSess) (q : QSess) (f : FileDesc),
    (run (init cfg tbl) ops).sessions = pre ++ q :: post → q.prio = prio → q.slots.length = n →
    q.slots[j]? = some (some c) → getF (run (init cfg tbl) ops).objs c.key = some f →
    gateBlocked f now = false → c.enc.stopped = false → c.enc.sent < f.nPk →
    AllOut (fun o => ∀ i b, o ≠ Out.pkt prio c.key i b) (run (init cfg tbl) ops) now tks →
    peerCount prio c.key now (run (init cfg tbl) ops) tks ≤ rrDist q.index j n := by
  intro tks
  induction tks with
  | nil => intro _ _ _ _ _ _ _ _ _ _ _ _ _ _; exact Nat.zero_le _
  | cons tk rest ih =>
    intro ops pre post q f hsess hp hn hjs hf hg hs hlt hall
    obtain ⟨hown, hrest⟩ := hall
    have hne := (read_due cfg tbl ops pre post q j c f now tk hsess hjs hf hg hs hlt).1
    have hnh := read_no_hang (run (init cfg tbl) ops) now tk
    -- the configuration persists with the same index after a call that does not poll / disturb the queue
    have keep : KeepPos c.key f c j q pre.length (c.key ∈ (run (init cfg tbl) ops).files)
        (read (run (init cfg tbl) ops) now tk).1 (read (run (init cfg tbl) ops) now tk).1.sessions →
        peerCount prio c.key now (read (run (init cfg tbl) ops) now tk).1 rest ≤ rrDist q.index j n := by
      intro hk
      obtain ⟨pre', q', post', e1, _, e3, e4, e5, e6, e7⟩ := hk
      obtain ⟨f', g1, g2, g3, _⟩ := e7.obj
      have hnpk : f'.nPk = f.nPk := by unfold FileDesc.nPk; rw [g3]
      have := ih (ops ++ [.read now tk]) pre' post' q' f'
        (by rw [run_snoc_read]; exact e1) (by rw [e3, hp]) (by rw [e4, hn]) e6
        (by rw [run_snoc_read]; exact g1) (by rw [gateBlocked_congr g2]; exact hg) hs (by rw [hnpk]; exact hlt)
        (by rw [run_snoc_read]; exact hrest)
      rw [run_snoc_read, e5] at this
      exact this
    show (match (read (run (init cfg tbl) ops) now tk).2 with
       | .pkt p t _ _ => if p = prio ∧ t ≠ c.key then 1 else 0
       | _ => 0) + peerCount prio c.key now (read (run (init cfg tbl) ops) now tk).1 rest ≤ _
    cases hout : (read (run (init cfg tbl) ops) now tk).2 with
    | none => exact absurd hout hne
    | hang => exact absurd hout hnh
    | fdt a b d =>
      simp only [Nat.zero_add]
      exact keep (read_keep cfg tbl ops pre post q j c f now tk hsorted hsess hjs hf hg hs hlt (Or.inl ⟨a, b, d, hout⟩))
    | pkt p t i b =>
      simp only []
      by_cases hpp : p = prio
      · by_cases htk : t = c.key
        · exfalso; rw [hout, hpp, htk] at hown; exact hown i b rfl
        · rw [if_pos ⟨hpp, htk⟩]
          have hr := read_rr cfg tbl ops pre post q j c f now tk hsess hjs hf hg hs hlt p t i b hout
          rcases hr with hpre | ⟨_, hstep⟩
          · exfalso
            obtain ⟨q0, hq0, e⟩ := List.mem_map.mp hpre
            exact prio_ne_of_sorted cfg tbl ops pre post q hsorted hsess q0 hq0 (by rw [e, hpp, hp])
          · rcases hstep with h1 | ⟨_, pre', q', e1, _, e3, e4, e5, e6, f', e7, e8, e9⟩
            · exact absurd h1 htk
            · have hnpk : f'.nPk = f.nPk := by unfold FileDesc.nPk; rw [e9]
              have := ih (ops ++ [.read now tk]) pre' post q' f'
                (by rw [run_snoc_read]; exact e1) (by rw [e3, hp]) (by rw [e4, hn]) e6
                (by rw [run_snoc_read]; exact e7) (by rw [gateBlocked_congr e8]; exact hg) hs
                (by rw [hnpk]; exact hlt) (by rw [run_snoc_read]; exact hrest)
              rw [run_snoc_read] at this
              rw [hn] at e5
              omega
      · have hif : ¬ (p = prio ∧ t ≠ c.key) := fun h => hpp h.1
        rw [if_neg hif, Nat.zero_add]
        exact keep (read_keep cfg tbl ops pre post q j c f now tk hsorted hsess hjs hf hg hs hlt
          (Or.inr ⟨p, t, i, b, hout, by rw [hp]; exact hpp⟩))

end Flute.Sched
