import FluteModel.Lemmas.SchedWf
import FluteModel.Lemmas.FdtAbs
/-
  Link between agent sched's scheduler model (`FluteModel.Sched`) and the abstract FDT model (`FluteModel.FdtAbs`).

  `Link A s a ps`: the FDT-relevant part of a scheduler state `s` is the abstract state `a`, and the instances the
  scheduler has published so far (`s.fdts`: id + listed TOIs) are the publications `ps` of the abstract model.
  `refines`: for EVERY operation history of the scheduler model there is a history of the abstract model - built from
  the scheduler's own transitions: its transfer starts become `tstart`, its transfer ends `tdone`, its pops of the FDT
  queue `poll`, its (re)publications `publish` - such that `Link` holds.  Proved through sched's invariant framework
  (`Closed` / `ClosedOps` / `inv_run`, base invariant `Wf`).
-/
namespace Flute.FdtSched
open Flute

/-- what the application announces beyond what the scheduler looks at: the abstract configuration, and for every TOI the
    metadata given at `add_object` together with the effective OTI `FileDesc::new` computes for it -/
structure Ann where
  cfg : FdtAbs.Cfg
  base : Nat → FdtAbs.ObjAttrs
  otiOf : Nat → FdtAbs.Oti

/-- every announced object is one `add_object` accepts -/
def Ann.ok (A : Ann) : Prop :=
  ∀ t, FdtAbs.effectiveOti A.cfg.oti (A.base t) = .ok (some (A.otiOf t)) ∧
       FdtAbs.attrsXmlOk A.cfg.xmlOk (A.base t) = true

/-- the announced attributes of an object: the metadata of its TOI with the two fields the scheduler also knows -/
def attrsOf (A : Ann) (t : Nat) (g : Sched.FileDesc) : FdtAbs.ObjAttrs :=
  { A.base t with maxTransferCount := g.maxCount, carousel := g.carousel.isSome }

def projDesc (A : Ann) (t : Nat) (g : Sched.FileDesc) : FdtAbs.FileDesc :=
  { toi := t, attrs := attrsOf A t g, oti := A.otiOf t, transferring := g.info.transferring,
    transferCount := g.info.count }

def projFile (A : Ann) (objs : List Sched.FileDesc) (t : Nat) : Option FdtAbs.FileDesc :=
  (Sched.getF objs t).map (projDesc A t)

/-- the abstract `files` map of a scheduler state -/
def projFiles (A : Ann) (s : Sched.State) : List FdtAbs.FileDesc := s.files.filterMap (projFile A s.objs)

def sig (f : Sched.FileDesc) : Nat × List Nat := (f.fdtId, f.content)
def psig (p : FdtAbs.Pub) : Nat × List Nat := (p.id, p.inst.files.map (fun f => f.toi))

/-- the scheduler-side configuration matches the abstract one -/
structure CfgOk (A : Ann) (S : Sched.Cfg) : Prop where
  mode : (S.mode = .full ∧ A.cfg.mode = .fullFdt) ∨ (S.mode = .being ∧ A.cfg.mode = .beingTransferred)
  fits : S.fdtFits = true
  startId : A.cfg.startId = S.fdtStartId ∧ S.fdtStartId < 2^20
  toiInit : FdtAbs.firstToi A.cfg.toiBits A.cfg.toiInit = 1
  admitted : ∀ (a : FdtAbs.State) (now : Nat), a.cfg = A.cfg → FdtAbs.admitted a now = true

structure Link (A : Ann) (S : Sched.Cfg) (s : Sched.State) (a : FdtAbs.State) (ps : List FdtAbs.Pub) : Prop where
  scfg : s.cfg = S
  cfg : a.cfg = A.cfg
  files : a.files = projFiles A s
  known : ∀ t ∈ s.files, (Sched.getF s.objs t).isSome = true
  nodup : s.files.Nodup
  fdtid : a.fdtid = s.fdtid ∧ s.fdtid < 2^20
  queue : a.queue.length = s.fdtQueue.length
  current : a.current.isSome = s.curFdt.isSome
  complete : a.complete = (if s.complete then some true else none)
  nextToi : s.complete = false → a.nextToi = s.nextToi
  pubs : s.fdts.map sig = ps.map psig

/-- the observable part of a scheduler state the link looks at -/
def obs (A : Ann) (s : Sched.State) :=
  (s.cfg, s.files, projFiles A s, s.files.map (fun t => (Sched.getF s.objs t).isSome), s.fdtid, s.fdtQueue.length,
   s.curFdt.isSome, s.complete, s.nextToi, s.fdts.map sig)

theorem Link.congr {A : Ann} {S : Sched.Cfg} {s s' : Sched.State} {a : FdtAbs.State} {ps : List FdtAbs.Pub}
    (h : Link A S s a ps) (e : obs A s' = obs A s) : Link A S s' a ps := by
  simp only [obs, Prod.mk.injEq] at e
  obtain ⟨e1, e2, e3, e4, e5, e6, e7, e8, e9, e10⟩ := e
  refine ⟨e1 ▸ h.scfg, h.cfg, e3 ▸ h.files, ?_, e2 ▸ h.nodup, e5 ▸ h.fdtid, e6 ▸ h.queue, e7 ▸ h.current,
    e8 ▸ h.complete, ?_, e10 ▸ h.pubs⟩
  · intro t ht
    rw [e2] at ht
    have hm : ((s'.files.map (fun t => (Sched.getF s'.objs t).isSome))) = (s.files.map (fun t => (Sched.getF s.objs t).isSome)) := e4
    rw [e2] at hm
    have := List.map_inj_left.mp hm t ht
    rw [this]; exact h.known t ht
  · intro hc
    rw [e8] at hc
    rw [e9]; exact h.nextToi hc

/-! ### what updates of the descriptor store do to the projection -/

/-- the four fields of an object descriptor the abstract model looks at -/
def view (g : Sched.FileDesc) := (g.maxCount, g.carousel.isSome, g.info.transferring, g.info.count)

theorem projDesc_congr (A : Ann) (t : Nat) {g g' : Sched.FileDesc} (h : view g' = view g) :
    projDesc A t g' = projDesc A t g := by
  simp only [view, Prod.mk.injEq] at h
  obtain ⟨h1, h2, h3, h4⟩ := h
  simp only [projDesc, attrsOf, h1, h2, h3, h4]

theorem projFile_updF_view (A : Ann) (objs : List Sched.FileDesc) (k t : Nat) (h : Sched.FileDesc → Sched.FileDesc)
    (hk : ∀ f, (h f).key = f.key) (hv : ∀ f, view (h f) = view f) :
    projFile A (Sched.updF objs k h) t = projFile A objs t := by
  unfold projFile
  rw [Sched.getF_updF _ _ _ _ hk]
  split
  · cases Sched.getF objs t with
    | none => rfl
    | some g => simp only [Option.map_some]; rw [projDesc_congr A t (hv g)]
  · rfl

theorem isSome_updF (objs : List Sched.FileDesc) (k t : Nat) (h : Sched.FileDesc → Sched.FileDesc)
    (hk : ∀ f, (h f).key = f.key) : (Sched.getF (Sched.updF objs k h) t).isSome = (Sched.getF objs t).isSome := by
  rw [Sched.getF_updF _ _ _ _ hk]
  split
  · cases Sched.getF objs t <;> rfl
  · rfl

theorem projFile_map_view (A : Ann) (objs : List Sched.FileDesc) (t : Nat) (h : Sched.FileDesc → Sched.FileDesc)
    (hk : ∀ f, (h f).key = f.key) (hv : ∀ f, view (h f) = view f) :
    projFile A (objs.map h) t = projFile A objs t ∧ (Sched.getF (objs.map h) t).isSome = (Sched.getF objs t).isSome := by
  unfold projFile
  rw [Sched.getF_map _ _ hk]
  cases Sched.getF objs t with
  | none => exact ⟨rfl, rfl⟩
  | some g => simp only [Option.map_some, Option.isSome_some, and_true]; rw [projDesc_congr A t (hv g)]

theorem transferInit_key (f : Sched.FileDesc) (now tk : Nat) : (Sched.transferInit f now tk).key = f.key := rfl
theorem transferDoneInfo_key (f : Sched.FileDesc) (now : Nat) : (Sched.transferDoneInfo f now).key = f.key := rfl
theorem tickInfo_key (f : Sched.FileDesc) : (Sched.tickInfo f).key = f.key := rfl
theorem resetLastTransfer_key (f : Sched.FileDesc) (ts : Option Nat) : (Sched.resetLastTransfer f ts).key = f.key := rfl

theorem tickInfo_view (f : Sched.FileDesc) : view (Sched.tickInfo f) = view f := by
  unfold Sched.tickInfo Sched.FileDesc.updInfo view
  simp only
  split <;> rfl

theorem resetLastTransfer_view (f : Sched.FileDesc) (ts : Option Nat) : view (Sched.resetLastTransfer f ts) = view f := rfl

theorem pubMark_view (fs : List Nat) (f : Sched.FileDesc) : view (Sched.pubMark fs f) = view f := by
  unfold Sched.pubMark; split <;> rfl

/-- `TransferInfo::init` is `fStart` on the projection -/
theorem projDesc_transferInit (A : Ann) (t : Nat) (g : Sched.FileDesc) (now tk : Nat) :
    projDesc A t (Sched.transferInit g now tk) = FdtAbs.fStart t (projDesc A t g) := by
  unfold FdtAbs.fStart projDesc Sched.transferInit Sched.FileDesc.updInfo attrsOf
  simp only [if_true]
  by_cases h : g.info.count = g.maxCount ∧ g.carousel.isSome = true
  · simp [h.1, h.2]
  · have : ¬ (g.info.count = g.maxCount ∧ g.carousel.isSome = true) := h
    by_cases h1 : g.info.count = g.maxCount
    · have h2 : g.carousel.isSome = false := by
        cases hc : g.carousel.isSome with
        | true => exact absurd ⟨h1, hc⟩ h
        | false => rfl
      simp [h1, h2]
    · simp [h1]

theorem projFile_transferInit (A : Ann) (objs : List Sched.FileDesc) (k t now tk : Nat) :
    projFile A (Sched.updF objs k (fun f => Sched.transferInit f now tk)) t =
      (projFile A objs t).map (FdtAbs.fStart k) := by
  unfold projFile
  rw [Sched.getF_updF _ _ _ _ (fun f => transferInit_key f now tk)]
  by_cases h : t = k
  · subst h
    simp only [if_true]
    cases Sched.getF objs t with
    | none => rfl
    | some g => simp only [Option.map_some]; rw [projDesc_transferInit]
  · simp only [h, if_false]
    cases Sched.getF objs t with
    | none => rfl
    | some g =>
      simp only [Option.map_some]
      have : FdtAbs.fStart k (projDesc A t g) = projDesc A t g := by
        unfold FdtAbs.fStart
        simp [projDesc, h]
      rw [this]

theorem filterMap_tois (A : Ann) (objs : List Sched.FileDesc) (l : List Nat)
    (hk : ∀ t ∈ l, (Sched.getF objs t).isSome = true) :
    (l.filterMap (projFile A objs)).map (fun f => f.toi) = l := by
  induction l with
  | nil => rfl
  | cons t r ih =>
    have h1 := hk t (List.mem_cons_self)
    cases hg : Sched.getF objs t with
    | none => rw [hg] at h1; cases h1
    | some g =>
      simp only [List.filterMap_cons, projFile, hg, Option.map_some, List.map_cons]
      rw [ih (fun u hu => hk u (List.mem_cons_of_mem _ hu))]
      rfl

theorem projFiles_tois (A : Ann) (s : Sched.State) (hk : ∀ t ∈ s.files, (Sched.getF s.objs t).isSome = true) :
    (projFiles A s).map (fun f => f.toi) = s.files := filterMap_tois A s.objs s.files hk

theorem filterMap_transferring (A : Ann) (s : Sched.State) (l : List Nat)
    (hk : ∀ t ∈ l, (Sched.getF s.objs t).isSome = true) :
    ((l.filterMap (projFile A s.objs)).filter (fun f => f.transferring)).map (fun f => f.toi) =
      l.filter (Sched.isTransferring s) := by
  induction l with
  | nil => rfl
  | cons t r ih =>
    have h1 := hk t (List.mem_cons_self)
    have ih' := ih (fun u hu => hk u (List.mem_cons_of_mem _ hu))
    cases hg : Sched.getF s.objs t with
    | none => rw [hg] at h1; cases h1
    | some g =>
      simp only [List.filterMap_cons, projFile, hg, Option.map_some, List.filter_cons, Sched.isTransferring]
      by_cases ht : g.info.transferring = true
      · simp only [projDesc, ht, if_true, List.map_cons]
        rw [ih']
      · simp only [projDesc, ht, Bool.false_eq_true, if_false]
        exact ih'

theorem projFiles_transferring (A : Ann) (s : Sched.State) (hk : ∀ t ∈ s.files, (Sched.getF s.objs t).isSome = true) :
    ((projFiles A s).filter (fun f => f.transferring)).map (fun f => f.toi) = s.files.filter (Sched.isTransferring s) :=
  filterMap_transferring A s s.files hk

/-! ### the invariant, and how one abstract operation extends the abstract history -/

def Inv (A : Ann) (S : Sched.Cfg) (s : Sched.State) (_L : Sched.Held) : Prop :=
  s.nextToi + 1 < 2^A.cfg.toiBits →
    ∃ aops, Link A S s (FdtAbs.run (FdtAbs.init A.cfg) aops).1 (FdtAbs.run (FdtAbs.init A.cfg) aops).2

theorem run_snoc (a : FdtAbs.State) (ops : List FdtAbs.Op) (op : FdtAbs.Op) :
    FdtAbs.run a (ops ++ [op]) =
      ((FdtAbs.step (FdtAbs.run a ops).1 op).1, (FdtAbs.run a ops).2 ++ (FdtAbs.step (FdtAbs.run a ops).1 op).2.1) := by
  rw [Lemmas.FdtAbs.run_append]
  simp [FdtAbs.run]

/-- extend the abstract history by one operation -/
theorem Inv.extend {A : Ann} {S : Sched.Cfg} {s s' : Sched.State} (op : FdtAbs.Op)
    (hn : s'.nextToi + 1 < 2^A.cfg.toiBits → s.nextToi + 1 < 2^A.cfg.toiBits)
    (h : Inv A S s [])
    (hl : ∀ a ps, Link A S s a ps → Link A S s' (FdtAbs.step a op).1 (ps ++ (FdtAbs.step a op).2.1)) :
    Inv A S s' [] := by
  intro hb
  rcases h (hn hb) with ⟨aops, hl0⟩
  refine ⟨aops ++ [op], ?_⟩
  rw [run_snoc]
  exact hl _ _ hl0

/-- keep the abstract history -/
theorem Inv.keep {A : Ann} {S : Sched.Cfg} {s s' : Sched.State}
    (hn : s'.nextToi + 1 < 2^A.cfg.toiBits → s.nextToi + 1 < 2^A.cfg.toiBits)
    (h : Inv A S s []) (hl : ∀ a ps, Link A S s a ps → Link A S s' a ps) : Inv A S s' [] := by
  intro hb
  rcases h (hn hb) with ⟨aops, hl0⟩
  exact ⟨aops, hl _ _ hl0⟩

theorem Inv.irrel {A : Ann} {S : Sched.Cfg} {s : Sched.State} {L L' : Sched.Held} (h : Inv A S s L) : Inv A S s L' := h

theorem filterMap_congr' {α β : Type} (l : List α) (f g : α → Option β) (h : ∀ x ∈ l, f x = g x) :
    l.filterMap f = l.filterMap g := by
  induction l with
  | nil => rfl
  | cons x r ih =>
    simp only [List.filterMap_cons]
    rw [h x List.mem_cons_self, ih (fun y hy => h y (List.mem_cons_of_mem _ hy))]

/-! ### a publication -/

theorem projFiles_publish (A : Ann) (s : Sched.State) (now : Nat) :
    projFiles A (Sched.publish s now) = projFiles A s := by
  unfold projFiles
  show s.files.filterMap (projFile A (Sched.publish s now).objs) = _
  rw [Sched.publish_objs]
  apply filterMap_congr'
  intro t _
  exact (projFile_map_view A s.objs t _ (Sched.pubMark_key _) (pubMark_view _)).1

theorem link_publish {A : Ann} {S : Sched.Cfg} (hc : CfgOk A S) {s : Sched.State} {a : FdtAbs.State}
    {ps : List FdtAbs.Pub} (h : Link A S s a ps) (now t : Nat) :
    Link A S (Sched.publish s now) (FdtAbs.publish a t).1 (ps ++ [(FdtAbs.publish a t).2]) where
  scfg := h.scfg
  cfg := h.cfg
  files := by
    rw [projFiles_publish]
    exact h.files
  known := by
    intro u hu
    have hu' : u ∈ s.files := hu
    show (Sched.getF (Sched.publish s now).objs u).isSome = true
    rw [Sched.publish_objs, (projFile_map_view A s.objs u _ (Sched.pubMark_key _) (pubMark_view _)).2]
    exact h.known u hu'
  nodup := h.nodup
  fdtid := by
    refine ⟨?_, Nat.mod_lt _ (by decide)⟩
    show (a.fdtid + 1) % 2^20 = (s.fdtid + 1) % 1048576
    rw [h.fdtid.1]
  queue := by
    show (a.queue ++ [_]).length = (s.fdtQueue ++ [_]).length
    simp [h.queue]
  current := h.current
  complete := h.complete
  nextToi := h.nextToi
  pubs := by
    rw [Sched.publish_fdts, List.map_append, List.map_append, h.pubs]
    congr 1
    simp only [List.map_cons, List.map_nil, sig, psig, Sched.pubDesc, FdtAbs.publish]
    congr 1
    rw [Prod.mk.injEq]
    refine ⟨?_, ?_⟩
    · rw [h.fdtid.1]; exact Nat.mod_eq_of_lt h.fdtid.2
    · simp only [FdtAbs.instanceAt, List.map_map]
      have e1 : ((fun f : FdtAbs.AFile => f.toi) ∘ fun f => FdtAbs.toFileXml f t) = fun f : FdtAbs.FileDesc => f.toi := rfl
      rw [e1]
      unfold FdtAbs.listedFiles
      rw [h.cfg, h.scfg]
      rcases hc.mode with ⟨m1, m2⟩ | ⟨m1, m2⟩
      · rw [m1, m2]
        simp only
        rw [h.files, projFiles_tois A s h.known]
      · rw [m1, m2]
        simp only
        rw [h.files, projFiles_transferring A s h.known]

/-! ### frame: transitions that do not touch what the link looks at -/

theorem Link.of_eq {A : Ann} {S : Sched.Cfg} {s s' : Sched.State} {a : FdtAbs.State} {ps : List FdtAbs.Pub}
    (h : Link A S s a ps) (e1 : s'.cfg = s.cfg) (e2 : s'.files = s.files)
    (e3 : ∀ t, projFile A s'.objs t = projFile A s.objs t)
    (e4 : ∀ t, (Sched.getF s'.objs t).isSome = (Sched.getF s.objs t).isSome)
    (e5 : s'.fdtid = s.fdtid) (e6 : s'.fdtQueue.length = s.fdtQueue.length)
    (e7 : s'.curFdt.isSome = s.curFdt.isSome) (e8 : s'.complete = s.complete) (e9 : s'.nextToi = s.nextToi)
    (e10 : s'.fdts.map sig = s.fdts.map sig) : Link A S s' a ps where
  scfg := e1 ▸ h.scfg
  cfg := h.cfg
  files := by
    rw [h.files]; unfold projFiles; rw [e2]
    exact filterMap_congr' _ _ _ (fun t _ => (e3 t).symm)
  known := by intro t ht; rw [e4]; exact h.known t (e2 ▸ ht)
  nodup := e2 ▸ h.nodup
  fdtid := e5 ▸ h.fdtid
  queue := e6 ▸ h.queue
  current := e7 ▸ h.current
  complete := e8 ▸ h.complete
  nextToi := by intro hc; rw [e9]; exact h.nextToi (e8 ▸ hc)
  pubs := e10 ▸ h.pubs

theorem map_sig_updF (l : List Sched.FileDesc) (k : Nat) (g : Sched.FileDesc → Sched.FileDesc)
    (hg : ∀ f, sig (g f) = sig f) : (Sched.updF l k g).map sig = l.map sig := by
  unfold Sched.updF
  rw [List.map_map]
  apply List.map_congr_left
  intro f _
  simp only [Function.comp]
  split
  · exact hg f
  · rfl

theorem link_fdtAdvance_of_pop {A : Ann} {S : Sched.Cfg} {s : Sched.State} {a : FdtAbs.State} {ps : List FdtAbs.Pub}
    (now : Nat) (h : Link A S (Sched.fdtPop s) a ps) : Link A S (Sched.fdtAdvance s now) a ps := by
  unfold Sched.fdtAdvance Sched.fdtTryStart
  split
  · rename_i s' k heq
    split at heq
    · cases heq
    · split at heq
      · cases heq
      · split at heq
        · simp only [Prod.mk.injEq, Option.some.injEq] at heq
          obtain ⟨rfl, rfl⟩ := heq
          exact h.of_eq rfl rfl (fun _ => rfl) (fun _ => rfl) rfl rfl rfl rfl rfl
            (map_sig_updF _ _ _ (fun _ => rfl))
        · cases heq
  · rename_i s' heq
    split at heq
    · cases heq; exact h
    · split at heq
      · cases heq; exact h
      · split at heq
        · cases heq
        · cases heq; exact h

/-! ### the FDT queue is popped: `poll` -/

theorem link_pop {A : Ann} {S : Sched.Cfg} {s : Sched.State} {a : FdtAbs.State} {ps : List FdtAbs.Pub}
    (h : Link A S s a ps) (k : Nat) (rest : List Nat) (hq : s.fdtQueue = k :: rest) :
    Link A S (Sched.fdtPop s) (FdtAbs.step a (.poll 0)).1 (ps ++ (FdtAbs.step a (.poll 0)).2.1) := by
  have hlen := h.queue
  rw [hq] at hlen
  cases haq : a.queue with
  | nil => rw [haq] at hlen; simp at hlen
  | cons p r =>
    have hnr : FdtAbs.needRepublish a 0 = false := by
      unfold FdtAbs.needRepublish; simp [haq]
    have hstep : FdtAbs.step a (.poll 0) = ({ a with queue := r, current := some p }, [], .unit) := by
      simp [FdtAbs.step, FdtAbs.poll, hnr, FdtAbs.popQueue, haq]
    rw [hstep, List.append_nil]
    have hpop : Sched.fdtPop s = { s with curFdt := some k, fdtQueue := rest } := by
      unfold Sched.fdtPop; rw [hq]
    rw [hpop]
    exact { scfg := h.scfg, cfg := h.cfg, files := h.files, known := h.known, nodup := h.nodup, fdtid := h.fdtid,
            queue := by rw [haq] at hlen; simpa using hlen,
            current := rfl, complete := h.complete, nextToi := h.nextToi, pubs := h.pubs }

/-! ### a transfer starts: `tstart` -/

theorem any_toi_of_mem (A : Ann) (s : Sched.State) (hk : ∀ t ∈ s.files, (Sched.getF s.objs t).isSome = true)
    (t : Nat) (ht : t ∈ s.files) : (projFiles A s).any (fun f => decide (f.toi = t)) = true := by
  have := projFiles_tois A s hk
  rw [← this, List.mem_map] at ht
  rcases ht with ⟨f, hf, rfl⟩
  simp only [List.any_eq_true, decide_eq_true_eq]
  exact ⟨f, hf, rfl⟩

theorem link_fileStartStep {A : Ann} {S : Sched.Cfg} {s : Sched.State} {a : FdtAbs.State} {ps : List FdtAbs.Pub}
    (h : Link A S s a ps) (t now tk : Nat) :
    Link A S (Sched.fileStartStep s t now tk) { a with files := a.files.map (FdtAbs.fStart t) } ps where
  scfg := h.scfg
  cfg := h.cfg
  files := by
    show a.files.map (FdtAbs.fStart t) = s.files.filterMap (projFile A (Sched.updF s.objs t _))
    rw [h.files]
    unfold projFiles
    rw [List.map_filterMap]
    exact filterMap_congr' _ _ _ (fun u _ => (projFile_transferInit A s.objs t u now tk).symm)
  known := by
    intro u hu
    show (Sched.getF (Sched.updF s.objs t _) u).isSome = true
    rw [isSome_updF _ _ _ _ (fun f => transferInit_key f now tk)]
    exact h.known u hu
  nodup := h.nodup
  fdtid := h.fdtid
  queue := h.queue
  current := h.current
  complete := h.complete
  nextToi := h.nextToi
  pubs := h.pubs

theorem link_fileStart {A : Ann} {S : Sched.Cfg} (hc : CfgOk A S) {s : Sched.State} {a : FdtAbs.State}
    {ps : List FdtAbs.Pub} (h : Link A S s a ps) (t now tk : Nat) (ht : t ∈ s.files) :
    Link A S (Sched.autoPublish (Sched.fileStartStep s t now tk) now)
      (FdtAbs.step a (.tstart t (now / 1000))).1 (ps ++ (FdtAbs.step a (.tstart t (now / 1000))).2.1) := by
  have h1 := link_fileStartStep h t now tk
  have hany : a.files.any (fun f => decide (f.toi = t)) = true := by
    rw [h.files]; exact any_toi_of_mem A s h.known t ht
  have hcfg1 : (Sched.fileStartStep s t now tk).cfg = S := h1.scfg
  simp only [FdtAbs.step, FdtAbs.tstart, hany, if_true]
  unfold Sched.autoPublish
  rw [hcfg1]
  rcases hc.mode with ⟨m1, m2⟩ | ⟨m1, m2⟩
  · have m2' : a.cfg.mode = .fullFdt := by rw [h.cfg]; exact m2
    rw [m1, m2']
    simp only [List.append_nil]
    exact h1
  · have m2' : a.cfg.mode = .beingTransferred := by rw [h.cfg]; exact m2
    rw [m1, m2']
    simp only
    have hp : Sched.publishTry (Sched.fileStartStep s t now tk) now = Sched.publish (Sched.fileStartStep s t now tk) now := by
      unfold Sched.publishTry; rw [hcfg1, hc.fits]; rfl
    rw [hp]
    have hadm := hc.admitted { a with files := a.files.map (FdtAbs.fStart t) } (now / 1000) h.cfg
    have htp : FdtAbs.tryPublish { a with files := a.files.map (FdtAbs.fStart t) } (now / 1000) =
        ((FdtAbs.publish { a with files := a.files.map (FdtAbs.fStart t) } (now / 1000)).1,
         [(FdtAbs.publish { a with files := a.files.map (FdtAbs.fStart t) } (now / 1000)).2]) := by
      unfold FdtAbs.tryPublish; rw [hadm]; rfl
    rw [htp]
    exact link_publish hc h1 now (now / 1000)

/-! ### a transfer ends: `tdone` -/

theorem isExpired_done (A : Ann) (t : Nat) (g : Sched.FileDesc) (now : Nat) :
    Sched.isExpired (Sched.transferDoneInfo g now) = FdtAbs.expiredAfter (projDesc A t g) := by
  unfold Sched.isExpired FdtAbs.expiredAfter Sched.transferDoneInfo Sched.FileDesc.updInfo projDesc attrsOf
  simp only
  split
  · rfl
  · cases g.carousel <;> rfl

theorem fDone_self (A : Ann) (t : Nat) (g : Sched.FileDesc) (now : Nat) :
    FdtAbs.fDone t (projDesc A t g) =
      if FdtAbs.expiredAfter (projDesc A t g) then none else some (projDesc A t (Sched.transferDoneInfo g now)) := by
  unfold FdtAbs.fDone
  simp only [projDesc, if_true]
  rfl

theorem fDone_other (A : Ann) (t u : Nat) (g : Sched.FileDesc) (h : u ≠ t) :
    FdtAbs.fDone t (projDesc A u g) = some (projDesc A u g) := by
  unfold FdtAbs.fDone
  simp [projDesc, h]

theorem projFile_done_other (A : Ann) (objs : List Sched.FileDesc) (t u now : Nat) (h : u ≠ t) :
    projFile A (Sched.updF objs t (fun f => Sched.transferDoneInfo f now)) u = projFile A objs u := by
  unfold projFile
  rw [Sched.getF_updF _ _ _ _ (fun f => transferDoneInfo_key f now)]
  simp [h]

theorem done_notin (A : Ann) (objs : List Sched.FileDesc) (t now : Nat) (l : List Nat) (hn : t ∉ l) :
    l.filterMap (projFile A (Sched.updF objs t (fun f => Sched.transferDoneInfo f now))) =
      (l.filterMap (projFile A objs)).filterMap (FdtAbs.fDone t) := by
  induction l with
  | nil => rfl
  | cons u r ih =>
    have hu : u ≠ t := fun e => hn (e ▸ List.mem_cons_self)
    have hr : t ∉ r := fun e => hn (List.mem_cons_of_mem _ e)
    simp only [List.filterMap_cons, projFile_done_other A objs t u now hu]
    cases hp : projFile A objs u with
    | none => simp only; exact ih hr
    | some pd =>
      simp only [List.filterMap_cons]
      have : FdtAbs.fDone t pd = some pd := by
        unfold projFile at hp
        cases hg : Sched.getF objs u with
        | none => rw [hg] at hp; cases hp
        | some g => rw [hg] at hp; simp only [Option.map_some, Option.some.injEq] at hp; rw [← hp]; exact fDone_other A t u g hu
      rw [this]
      simp only
      rw [ih hr]

theorem done_lists (A : Ann) (objs : List Sched.FileDesc) (t now : Nat) (g : Sched.FileDesc)
    (hg : Sched.getF objs t = some g) (l : List Nat) (hnd : l.Nodup) :
    (if FdtAbs.expiredAfter (projDesc A t g) then l.erase t else l).filterMap
        (projFile A (Sched.updF objs t (fun f => Sched.transferDoneInfo f now))) =
      (l.filterMap (projFile A objs)).filterMap (FdtAbs.fDone t) := by
  induction l with
  | nil => simp
  | cons u r ih =>
    have hnr : r.Nodup := (List.nodup_cons.mp hnd).2
    have hur : u ∉ r := (List.nodup_cons.mp hnd).1
    by_cases hu : u = t
    · subst hu
      have hpu : projFile A objs u = some (projDesc A u g) := by unfold projFile; rw [hg]; rfl
      have hpu' : projFile A (Sched.updF objs u (fun f => Sched.transferDoneInfo f now)) u =
          some (projDesc A u (Sched.transferDoneInfo g now)) := by
        unfold projFile
        rw [Sched.getF_updF _ _ _ _ (fun f => transferDoneInfo_key f now), hg]; simp
      simp only [List.filterMap_cons, hpu, fDone_self A u g now]
      by_cases he : FdtAbs.expiredAfter (projDesc A u g) = true
      · simp only [he, if_true, List.erase_cons_head]
        exact done_notin A objs u now r hur
      · simp only [he, Bool.false_eq_true, if_false, List.filterMap_cons, hpu']
        rw [done_notin A objs u now r hur]
    · have hpu : projFile A (Sched.updF objs t (fun f => Sched.transferDoneInfo f now)) u = projFile A objs u :=
        projFile_done_other A objs t u now hu
      have ih' := ih hnr
      have herase : (u :: r).erase t = u :: r.erase t := by
        rw [List.erase_cons_tail]; simpa using hu
      have hsplit : (if FdtAbs.expiredAfter (projDesc A t g) = true then (u :: r).erase t else u :: r) =
          u :: (if FdtAbs.expiredAfter (projDesc A t g) = true then r.erase t else r) := by
        split
        · exact herase
        · rfl
      rw [hsplit]
      simp only [List.filterMap_cons, hpu]
      cases hp : projFile A objs u with
      | none => simp only; exact ih'
      | some pd =>
        simp only [List.filterMap_cons]
        have : FdtAbs.fDone t pd = some pd := by
          unfold projFile at hp
          cases hg' : Sched.getF objs u with
          | none => rw [hg'] at hp; cases hp
          | some g' => rw [hg'] at hp; simp only [Option.map_some, Option.some.injEq] at hp; rw [← hp]; exact fDone_other A t u g' hu
        rw [this]
        simp only
        rw [ih']

theorem link_done {A : Ann} {S : Sched.Cfg} {s : Sched.State} {a : FdtAbs.State} {ps : List FdtAbs.Pub}
    (h : Link A S s a ps) (t now t' : Nat) :
    Link A S (Sched.transferDoneFile s t now) (FdtAbs.step a (.tdone t t')).1
      (ps ++ (FdtAbs.step a (.tdone t t')).2.1) := by
  simp only [FdtAbs.step, FdtAbs.tdone, List.append_nil]
  have hsome : ∀ u, (Sched.getF (Sched.doneStep s t now).objs u).isSome = (Sched.getF s.objs u).isSome :=
    fun u => isSome_updF _ _ _ _ (fun f => transferDoneInfo_key f now)
  rw [Sched.transferDoneFile_eq]
  by_cases hct : s.files.contains t = true
  · have htm : t ∈ s.files := by simpa using hct
    simp only [hct, Bool.not_true, Bool.false_eq_true, if_false]
    have hk := h.known t htm
    cases hg : Sched.getF s.objs t with
    | none => rw [hg] at hk; cases hk
    | some g =>
      have hg' : Sched.getF (Sched.doneStep s t now).objs t = some (Sched.transferDoneInfo g now) := by
        show Sched.getF (Sched.updF s.objs t _) t = _
        rw [Sched.getF_updF _ _ _ _ (fun f => transferDoneInfo_key f now), hg]; simp
      rw [hg']
      simp only
      have hl := done_lists A s.objs t now g hg s.files h.nodup
      rw [isExpired_done A t g now]
      by_cases he : FdtAbs.expiredAfter (projDesc A t g) = true
      · simp only [he, Bool.not_true, Bool.false_eq_true, if_false]
        simp only [he, if_true] at hl
        exact { scfg := h.scfg, cfg := h.cfg,
                files := by rw [h.files]; exact hl.symm,
                known := by
                  intro u hu
                  show (Sched.getF (Sched.doneStep s t now).objs u).isSome = true
                  rw [hsome]; exact h.known u (List.mem_of_mem_erase hu),
                nodup := h.nodup.erase t, fdtid := h.fdtid, queue := h.queue, current := h.current,
                complete := h.complete, nextToi := h.nextToi, pubs := h.pubs }
      · simp only [he, Bool.not_false, if_true]
        simp only [he, Bool.false_eq_true, if_false] at hl
        exact { scfg := h.scfg, cfg := h.cfg,
                files := by rw [h.files]; exact hl.symm,
                known := by
                  intro u hu
                  show (Sched.getF (Sched.doneStep s t now).objs u).isSome = true
                  rw [hsome]; exact h.known u hu,
                nodup := h.nodup, fdtid := h.fdtid, queue := h.queue, current := h.current,
                complete := h.complete, nextToi := h.nextToi, pubs := h.pubs }
  · have htn : t ∉ s.files := by simpa using hct
    have hcf : s.files.contains t = false := by simpa using hct
    simp only [hcf, Bool.not_false, if_true]
    exact { scfg := h.scfg, cfg := h.cfg,
            files := by rw [h.files]; exact (done_notin A s.objs t now s.files htn).symm,
            known := by
              intro u hu
              show (Sched.getF (Sched.doneStep s t now).objs u).isSome = true
              rw [hsome]; exact h.known u hu,
            nodup := h.nodup, fdtid := h.fdtid, queue := h.queue, current := h.current,
            complete := h.complete, nextToi := h.nextToi, pubs := h.pubs }

/-! ### `Inv` is closed under every transition of `Sender::read` -/

theorem nextToi_fdtPop (s : Sched.State) : (Sched.fdtPop s).nextToi = s.nextToi := by unfold Sched.fdtPop; split <;> rfl

theorem nextToi_fdtAdvance (s : Sched.State) (now : Nat) : (Sched.fdtAdvance s now).nextToi = s.nextToi := by
  rcases Sched.fdtAdvance_cases s now with ⟨e, _⟩ | ⟨k, f, _, _, _, e⟩
  · rw [e]; exact nextToi_fdtPop s
  · rw [e]; exact nextToi_fdtPop s

theorem nextToi_publishTry (s : Sched.State) (now : Nat) : (Sched.publishTry s now).nextToi = s.nextToi := by
  rcases Sched.publishTry_cases s now with e | e <;> rw [e] <;> rfl

theorem nextToi_autoPublish (s : Sched.State) (now : Nat) : (Sched.autoPublish s now).nextToi = s.nextToi := by
  unfold Sched.autoPublish; split
  · exact nextToi_publishTry s now
  · rfl

theorem nextToi_transferDoneFile (s : Sched.State) (t now : Nat) : (Sched.transferDoneFile s t now).nextToi = s.nextToi := by
  rw [Sched.transferDoneFile_eq]
  split
  · rfl
  · split
    · split <;> rfl
    · rfl

theorem nextToi_transferDoneFdt (s : Sched.State) (k now : Nat) : (Sched.transferDoneFdt s k now).nextToi = s.nextToi := by
  unfold Sched.transferDoneFdt; simp only []; split
  · split <;> rfl
  · rfl

theorem sig_tickInfo (f : Sched.FileDesc) : sig (Sched.tickInfo f) = sig f := by
  unfold Sched.tickInfo Sched.FileDesc.updInfo sig; rfl

/-- the end of an FDT transfer keeps the current instance (an FDT descriptor is a carousel object) -/
theorem link_fdtRelease {A : Ann} {S : Sched.Cfg} {s : Sched.State} {L : Sched.Held} {a : FdtAbs.State}
    {ps : List FdtAbs.Pub} (hw : Sched.Wf s L) (h : Link A S s a ps) (k now : Nat) :
    Link A S (Sched.fdtRelease s k now) a ps := by
  have key : ∀ f, Sched.getF (Sched.updF s.fdts k (fun f => Sched.transferDoneInfo f now)) k = some f →
      Sched.isExpired f = false := by
    intro f hf
    have hm := Sched.getF_mem hf
    rcases Sched.mem_updF hm with ⟨f0, hf0, rfl⟩
    have hs := (hw.fdtKeys f0 hf0).2
    split
    · exact Sched.isExpired_of_shape (Sched.doneInfo_shape hs now)
    · exact Sched.isExpired_of_shape hs
  unfold Sched.fdtRelease Sched.transferDoneFdt
  simp only [Sched.emit]
  split
  · rename_i f hf
    rw [key f hf]
    simp only [Bool.false_eq_true, if_false]
    exact h.of_eq rfl rfl (fun _ => rfl) (fun _ => rfl) rfl rfl rfl rfl rfl (map_sig_updF _ _ _ (fun _ => rfl))
  · exact h.of_eq rfl rfl (fun _ => rfl) (fun _ => rfl) rfl rfl rfl rfl rfl (map_sig_updF _ _ _ (fun _ => rfl))

theorem step_publish_eq {A : Ann} {S : Sched.Cfg} (hc : CfgOk A S) (a : FdtAbs.State) (t : Nat) (hcfg : a.cfg = A.cfg) :
    (FdtAbs.step a (.publish t)).1 = (FdtAbs.publish a t).1 ∧ (FdtAbs.step a (.publish t)).2.1 = [(FdtAbs.publish a t).2] := by
  simp only [FdtAbs.step, FdtAbs.tryPublish, hc.admitted a t hcfg, if_true, and_self]

theorem Inv.closed (A : Ann) (S : Sched.Cfg) (hc : CfgOk A S) : Sched.Closed Sched.Wf (Inv A S) where
  perm := fun _ _ _ _ h => h
  leaveFiles := fun s L qs h =>
    Inv.keep (s := s) (fun hb => hb) h
      (fun a ps hl => hl.of_eq rfl rfl (fun _ => rfl) (fun _ => rfl) rfl rfl rfl rfl rfl rfl)
  enterFiles := fun s L now _ h _ _ =>
    Inv.keep (s := s) (fun hb => hb) h
      (fun a ps hl => hl.of_eq rfl rfl (fun _ => rfl) (fun _ => rfl) rfl rfl rfl rfl rfl rfl)
  emitRead := fun s L now _ h _ =>
    Inv.keep (s := s) (fun hb => hb) h
      (fun a ps hl => hl.of_eq rfl rfl (fun _ => rfl) (fun _ => rfl) rfl rfl rfl rfl rfl rfl)
  emitIdle := fun s L now _ h _ =>
    Inv.keep (s := s) (fun hb => hb) h
      (fun a ps hl => hl.of_eq rfl rfl (fun _ => rfl) (fun _ => rfl) rfl rfl rfl rfl rfl rfl)
  publish := fun s L now _ h _ =>
    Inv.extend (s := s) (.publish (now / 1000)) (fun hb => hb) h (fun a ps hl => by
      rw [(step_publish_eq hc a _ hl.cfg).1, (step_publish_eq hc a _ hl.cfg).2]
      exact link_publish hc hl now (now / 1000))
  fdtAdvance := fun s L now _ h _ _ => by
    cases hq : s.fdtQueue with
    | nil =>
      have hp : Sched.fdtPop s = s := by unfold Sched.fdtPop; rw [hq]
      exact Inv.keep (s := s) (fun hb => by rw [nextToi_fdtAdvance] at hb; exact hb) h
        (fun a ps hl => link_fdtAdvance_of_pop now (by rw [hp]; exact hl))
    | cons k rest =>
      exact Inv.extend (s := s) (.poll 0) (fun hb => by rw [nextToi_fdtAdvance] at hb; exact hb) h
        (fun a ps hl => link_fdtAdvance_of_pop now (link_pop hl k rest hq))
  fileStart := fun s L prio now tk t hw h _ hf => by
    rcases Sched.findNext_spec s prio now s.queue t hf with ⟨pre, post, hqe, _, _⟩
    have htq : t ∈ s.queue := by rw [hqe]; simp
    have htf : t ∈ s.files := hw.queueFiles t htq
    exact Inv.extend (s := s) (.tstart t (now / 1000))
      (fun hb => by rw [nextToi_autoPublish] at hb; exact hb) h
      (fun a ps hl => link_fileStart hc hl t now tk htf)
  pkt := fun s L prio c now f idx b e _ h _ _ _ _ _ =>
    Inv.keep (s := s) (fun hb => hb) h
      (fun a ps hl => hl.of_eq rfl rfl
        (fun t => projFile_updF_view A s.objs c.key t _ tickInfo_key tickInfo_view)
        (fun t => isSome_updF s.objs c.key t _ tickInfo_key) rfl rfl rfl rfl rfl rfl)
  done := fun s L prio c now f e _ h _ _ _ =>
    Inv.extend (s := s) (.tdone c.key (now / 1000))
      (fun hb => by rw [nextToi_transferDoneFile] at hb; exact hb) h
      (fun a ps hl => link_done hl c.key now (now / 1000))
  fdtPkt := fun s L c f now idx b e _ h _ _ _ _ _ =>
    Inv.keep (s := s) (fun hb => hb) h
      (fun a ps hl => hl.of_eq rfl rfl (fun _ => rfl) (fun _ => rfl) rfl rfl rfl rfl rfl
        (map_sig_updF _ _ _ sig_tickInfo))
  fdtDone := fun s L c f now e hw h _ _ _ _ _ =>
    Inv.keep (s := s)
      (fun hb => by
        have : (Sched.fdtRelease s c.key now).nextToi = s.nextToi := by
          unfold Sched.fdtRelease; exact nextToi_transferDoneFdt s c.key now
        rw [this] at hb; exact hb) h
      (fun a ps hl => link_fdtRelease hw hl c.key now)

/-! ### the other API calls -/

theorem maxTransferLength_le (o : FdtAbs.Oti) (m : Nat) (h : FdtAbs.maxTransferLength o = .ok m) : m ≤ 0xFFFFFFFFFFFF := by
  unfold FdtAbs.maxTransferLength at h
  split at h
  · cases h
  · simp only [Except.ok.injEq] at h
    subst h
    generalize FdtAbs.satMul64 _ _ = size
    by_cases h6 : o.enc = 6
    · simp only [h6, if_true]; split <;> omega
    · simp only [h6, if_false]; split <;> omega

theorem effectiveOti_some_le (d : FdtAbs.Oti) (a : FdtAbs.ObjAttrs) (o : FdtAbs.Oti)
    (h : FdtAbs.effectiveOti d a = .ok (some o)) : a.transferLength ≤ 0xFFFFFFFFFFFF := by
  unfold FdtAbs.effectiveOti at h
  simp only at h
  split at h
  · cases h
  · split at h
    · cases h
    · rename_i mtl hm
      split at h
      · cases h
      · rename_i hle
        have := maxTransferLength_le _ _ hm
        omega

/-- an `add_object` that the abstract model refuses after the TOI was taken: used to mirror the scheduler model's
    refused `allocate_toi` + `add_object` (priority queue missing), which consumes a TOI as well -/
theorem add_huge (a : FdtAbs.State) (x : FdtAbs.ObjAttrs) (hx : FdtAbs.attrsXmlOk a.cfg.xmlOk x = true)
    (hc : a.complete ≠ some true) (ht : x.transferLength = 2^64) :
    (FdtAbs.add a x).1 = { a with nextToi := FdtAbs.succToi a.cfg.toiBits a.nextToi } := by
  unfold FdtAbs.add
  have : ¬ (a.complete = some true ∨ FdtAbs.attrsXmlOk a.cfg.xmlOk x = false) := by
    intro h; rcases h with h | h
    · exact hc h
    · rw [hx] at h; cases h
  simp only [this, if_false]
  cases he : FdtAbs.effectiveOti a.cfg.oti x with
  | error w => rfl
  | ok r =>
    cases r with
    | none => rfl
    | some o =>
      have := effectiveOti_some_le _ _ _ he
      rw [ht] at this
      omega

theorem remove_lists (A : Ann) (objs : List Sched.FileDesc) (t : Nat) (l : List Nat) (hnd : l.Nodup) :
    (l.erase t).filterMap (projFile A objs) =
      (l.filterMap (projFile A objs)).filter (fun f => decide (f.toi ≠ t)) := by
  induction l with
  | nil => rfl
  | cons u r ih =>
    have hnr : r.Nodup := (List.nodup_cons.mp hnd).2
    have hur : u ∉ r := (List.nodup_cons.mp hnd).1
    by_cases hu : u = t
    · subst hu
      rw [List.erase_cons_head]
      have hrest : (r.filterMap (projFile A objs)).filter (fun f => decide (f.toi ≠ u)) = r.filterMap (projFile A objs) := by
        apply List.filter_eq_self.mpr
        intro f hf
        simp only [List.mem_filterMap] at hf
        rcases hf with ⟨v, hv, hpv⟩
        unfold projFile at hpv
        cases hg : Sched.getF objs v with
        | none => rw [hg] at hpv; cases hpv
        | some g =>
          rw [hg] at hpv
          simp only [Option.map_some, Option.some.injEq] at hpv
          subst hpv
          have hne : ¬ v = u := fun e => hur (e ▸ hv)
          simp [projDesc, hne]
      simp only [List.filterMap_cons]
      cases hp : projFile A objs u with
      | none => simp only; exact hrest.symm
      | some pd =>
        simp only [List.filter_cons]
        have : pd.toi = u := by
          unfold projFile at hp
          cases hg : Sched.getF objs u with
          | none => rw [hg] at hp; cases hp
          | some g => rw [hg] at hp; simp only [Option.map_some, Option.some.injEq] at hp; rw [← hp]; rfl
        simp only [this, ne_eq, not_true_eq_false, decide_false, Bool.false_eq_true, if_false]
        exact hrest.symm
    · have herase : (u :: r).erase t = u :: r.erase t := by
        rw [List.erase_cons_tail]; simpa using hu
      rw [herase]
      simp only [List.filterMap_cons]
      cases hp : projFile A objs u with
      | none => simp only; exact ih hnr
      | some pd =>
        simp only [List.filter_cons]
        have : pd.toi = u := by
          unfold projFile at hp
          cases hg : Sched.getF objs u with
          | none => rw [hg] at hp; cases hp
          | some g => rw [hg] at hp; simp only [Option.map_some, Option.some.injEq] at hp; rw [← hp]; rfl
        simp only [this, ne_eq, hu, not_false_eq_true, decide_true, if_true]
        rw [ih hnr]

theorem attrs_admissible (A : Ann) (hA : A.ok) (t : Nat) (g : Sched.FileDesc) :
    FdtAbs.effectiveOti A.cfg.oti (attrsOf A t g) = .ok (some (A.otiOf t)) ∧
    FdtAbs.attrsXmlOk A.cfg.xmlOk (attrsOf A t g) = true := hA t

theorem addObject_refused (s : Sched.State) (aa : Sched.AddArgs)
    (h : (!(s.sessions.any fun q => q.prio == aa.prio)) = true ∨ s.complete = true) :
    (Sched.addObject s aa).1 = Sched.emit { s with nextToi := s.nextToi + 1 } (.opAdd s.nextToi aa false) := by
  unfold Sched.addObject
  simp only
  split
  · rfl
  · split
    · rfl
    · rename_i h1 h2
      rcases h with h | h
      · exact absurd h h1
      · exact absurd h h2

def newDesc (s : Sched.State) (aa : Sched.AddArgs) : Sched.FileDesc :=
  { key := s.nextToi, isFdt := false, fdtId := 0, content := [], prio := aa.prio, nSym := aa.nSym,
    maxCount := aa.maxCount, carousel := aa.carousel, target := aa.target, allowStop := aa.allowStop,
    published := false, info := { startTime := aa.start }, faults := aa.faults }

theorem addObject_accepted (s : Sched.State) (aa : Sched.AddArgs)
    (h1 : (!(s.sessions.any fun q => q.prio == aa.prio)) = false) (h2 : s.complete = false) :
    (Sched.addObject s aa).1 =
      Sched.emit { s with nextToi := s.nextToi + 1, objs := s.objs ++ [newDesc s aa], files := s.files ++ [s.nextToi],
                          queue := s.queue ++ [s.nextToi] } (.opAdd s.nextToi aa true) := by
  unfold Sched.addObject
  simp only [h1, h2, Bool.false_eq_true, if_false]
  rfl

theorem add_ok_step (a : FdtAbs.State) (x : FdtAbs.ObjAttrs) (o : FdtAbs.Oti) (hc : a.complete ≠ some true)
    (hx : FdtAbs.attrsXmlOk a.cfg.xmlOk x = true) (he : FdtAbs.effectiveOti a.cfg.oti x = .ok (some o)) :
    (FdtAbs.add a x).1 = { a with nextToi := FdtAbs.succToi a.cfg.toiBits a.nextToi,
                                  files := a.files ++ [{ toi := a.nextToi, attrs := x, oti := o, transferring := false,
                                                         transferCount := 0 }] } := by
  unfold FdtAbs.add
  have : ¬ (a.complete = some true ∨ FdtAbs.attrsXmlOk a.cfg.xmlOk x = false) := by
    intro h; rcases h with h | h
    · exact hc h
    · rw [hx] at h; cases h
  simp only [this, if_false, he]

theorem Inv.closedOps (A : Ann) (S : Sched.Cfg) (hc : CfgOk A S) (hA : A.ok) : Sched.ClosedOps Sched.Wf (Inv A S) where
  add := fun s L aa hw h => by
    intro hb
    by_cases hcomp : s.complete = true
    · -- once complete nothing is added any more and the TOI counters are no longer compared
      rw [addObject_refused s aa (.inr hcomp)] at hb ⊢
      have hb0 : s.nextToi + 1 < 2^A.cfg.toiBits := by
        have hb' : s.nextToi + 1 + 1 < 2^A.cfg.toiBits := hb
        omega
      rcases h hb0 with ⟨aops, hl⟩
      exact ⟨aops, { scfg := hl.scfg, cfg := hl.cfg, files := hl.files, known := hl.known, nodup := hl.nodup,
                     fdtid := hl.fdtid, queue := hl.queue, current := hl.current, complete := hl.complete,
                     nextToi := fun hcf => (by
                       have : (Sched.emit { s with nextToi := s.nextToi + 1 } (.opAdd s.nextToi aa false)).complete = s.complete := rfl
                       rw [this, hcomp] at hcf; cases hcf),
                     pubs := hl.pubs }⟩
    · have hcf : s.complete = false := by simpa using hcomp
      by_cases hprio : (!(s.sessions.any fun q => q.prio == aa.prio)) = true
      · -- priority queue missing: `allocate_toi` was called, `add_object` refuses; mirrored by a refused `add`
        rw [addObject_refused s aa (.inl hprio)] at hb ⊢
        have hb0 : s.nextToi + 1 < 2^A.cfg.toiBits := by
          have hb' : s.nextToi + 1 + 1 < 2^A.cfg.toiBits := hb
          omega
        rcases h hb0 with ⟨aops, hl⟩
        refine ⟨aops ++ [.add { A.base 0 with transferLength := 2^64 }], ?_⟩
        rw [run_snoc]
        have hcn : (FdtAbs.run (FdtAbs.init A.cfg) aops).1.complete ≠ some true := by
          rw [hl.complete, hcf]; simp
        have hx : FdtAbs.attrsXmlOk (FdtAbs.run (FdtAbs.init A.cfg) aops).1.cfg.xmlOk
            { A.base 0 with transferLength := 2^64 } = true := by
          rw [hl.cfg]; exact (hA 0).2
        have hadd := add_huge _ _ hx hcn rfl
        simp only [FdtAbs.step, List.append_nil]
        rw [hadd]
        exact { scfg := hl.scfg, cfg := hl.cfg, files := hl.files, known := hl.known, nodup := hl.nodup,
                fdtid := hl.fdtid, queue := hl.queue, current := hl.current, complete := hl.complete,
                nextToi := fun _ => (by
                  show FdtAbs.succToi _ _ = s.nextToi + 1
                  rw [hl.cfg, hl.nextToi hcf, Lemmas.FdtAbs.succToi_of_lt _ _ hb0]),
                pubs := hl.pubs }
      · have hprio' : (!(s.sessions.any fun q => q.prio == aa.prio)) = false := by simpa using hprio
        rw [addObject_accepted s aa hprio' hcf] at hb ⊢
        have hb0 : s.nextToi + 1 < 2^A.cfg.toiBits := by
          have hb' : s.nextToi + 1 + 1 < 2^A.cfg.toiBits := hb
          omega
        rcases h hb0 with ⟨aops, hl⟩
        refine ⟨aops ++ [.add (attrsOf A s.nextToi (newDesc s aa))], ?_⟩
        rw [run_snoc]
        have hnone : Sched.getF s.objs s.nextToi = none :=
          Sched.getF_none_of_keys (fun f hf e => by have := (hw.objKeys f hf).2.2; omega)
        have hold : ∀ u ∈ s.files, Sched.getF (s.objs ++ [newDesc s aa]) u = Sched.getF s.objs u := by
          intro u hu
          have := hl.known u hu
          cases hg : Sched.getF s.objs u with
          | none => rw [hg] at this; cases this
          | some g => exact Sched.getF_append_some hg
        have hnew : Sched.getF (s.objs ++ [newDesc s aa]) s.nextToi = some (newDesc s aa) := by
          rw [Sched.getF_append_none hnone, Sched.getF_single]; simp [newDesc]
        have hcn : (FdtAbs.run (FdtAbs.init A.cfg) aops).1.complete ≠ some true := by
          rw [hl.complete, hcf]; simp
        have hadm := attrs_admissible A hA s.nextToi (newDesc s aa)
        have hadd := add_ok_step (FdtAbs.run (FdtAbs.init A.cfg) aops).1 _ (A.otiOf s.nextToi) hcn
          (by rw [hl.cfg]; exact hadm.2) (by rw [hl.cfg]; exact hadm.1)
        simp only [FdtAbs.step, List.append_nil]
        rw [hadd]
        exact { scfg := hl.scfg, cfg := hl.cfg,
                files := (by
                  show _ ++ [_] = (s.files ++ [s.nextToi]).filterMap (projFile A (s.objs ++ [newDesc s aa]))
                  rw [List.filterMap_append, hl.files, hl.nextToi hcf]
                  congr 1
                  · exact (filterMap_congr' _ _ _ (fun u hu => by unfold projFile; rw [hold u hu])).symm
                  · simp only [List.filterMap_cons, List.filterMap_nil, projFile, hnew, Option.map_some]
                    rfl),
                known := (by
                  intro u hu
                  show (Sched.getF (s.objs ++ [newDesc s aa]) u).isSome = true
                  rcases List.mem_append.mp hu with hu | hu
                  · rw [hold u hu]; exact hl.known u hu
                  · simp only [List.mem_singleton] at hu; subst hu; rw [hnew]; rfl),
                nodup := (by
                  show (s.files ++ [s.nextToi]).Nodup
                  rw [List.nodup_append]
                  refine ⟨hl.nodup, by simp, ?_⟩
                  intro u hu v hv
                  simp only [List.mem_singleton] at hv
                  subst hv
                  intro e; have := hw.filesKeys u hu; omega),
                fdtid := hl.fdtid, queue := hl.queue, current := hl.current, complete := hl.complete,
                nextToi := fun _ => (by
                  show FdtAbs.succToi _ _ = s.nextToi + 1
                  rw [hl.cfg, hl.nextToi hcf, Lemmas.FdtAbs.succToi_of_lt _ _ hb0]),
                pubs := hl.pubs }
  remove := fun s L t _ h => by
    unfold Sched.removeObject
    by_cases hct : s.files.contains t = true
    · have htm : t ∈ s.files := by simpa using hct
      simp only [hct, Bool.not_true, Bool.false_eq_true, if_false]
      exact Inv.extend (s := s) (.remove t) (fun hb => hb) h (fun a ps hl => by
        have hany : a.files.any (fun f => decide (f.toi = t)) = true := by
          rw [hl.files]; exact any_toi_of_mem A s hl.known t htm
        simp only [FdtAbs.step, FdtAbs.remove, hany, if_true, List.append_nil, Sched.emit]
        exact { scfg := hl.scfg, cfg := hl.cfg,
                files := (by
                  show a.files.filter _ = (s.files.erase t).filterMap (projFile A s.objs)
                  rw [remove_lists A s.objs t s.files hl.nodup, hl.files]; rfl),
                known := fun u hu => hl.known u (List.mem_of_mem_erase hu),
                nodup := hl.nodup.erase t, fdtid := hl.fdtid, queue := hl.queue, current := hl.current,
                complete := hl.complete, nextToi := hl.nextToi, pubs := hl.pubs })
    · have hcf : s.files.contains t = false := by simpa using hct
      simp only [hcf, Bool.not_false, if_true]
      exact Inv.keep (s := s) (fun hb => hb) h
        (fun a ps hl => hl.of_eq rfl rfl (fun _ => rfl) (fun _ => rfl) rfl rfl rfl rfl rfl rfl)
  trigger := fun s L t ts _ h => by
    unfold Sched.triggerTransferAt
    split
    · exact Inv.keep (s := s) (fun hb => hb) h
        (fun a ps hl => hl.of_eq rfl rfl (fun _ => rfl) (fun _ => rfl) rfl rfl rfl rfl rfl rfl)
    · split
      · exact Inv.keep (s := s) (fun hb => hb) h
          (fun a ps hl => hl.of_eq rfl rfl (fun _ => rfl) (fun _ => rfl) rfl rfl rfl rfl rfl rfl)
      · exact Inv.keep (s := s) (fun hb => hb) h
          (fun a ps hl => hl.of_eq rfl rfl
            (fun u => projFile_updF_view A s.objs t u _ (fun f => resetLastTransfer_key f ts)
              (fun f => resetLastTransfer_view f ts))
            (fun u => isSome_updF s.objs t u _ (fun f => resetLastTransfer_key f ts)) rfl rfl rfl rfl rfl rfl)
  publishOp := fun s L now _ h => by
    unfold Sched.publishOp
    exact Inv.extend (s := s) (.publish (now / 1000))
      (fun hb => by rw [nextToi_publishTry] at hb; exact hb) h (fun a ps hl => by
        have hl' : Link A S (Sched.emit s (.opPublish now)) a ps :=
          hl.of_eq rfl rfl (fun _ => rfl) (fun _ => rfl) rfl rfl rfl rfl rfl rfl
        have hp : Sched.publishTry (Sched.emit s (.opPublish now)) now = Sched.publish (Sched.emit s (.opPublish now)) now := by
          unfold Sched.publishTry
          have : (Sched.emit s (.opPublish now)).cfg = S := hl'.scfg
          rw [this, hc.fits]; rfl
        rw [hp, (step_publish_eq hc a _ hl.cfg).1, (step_publish_eq hc a _ hl.cfg).2]
        exact link_publish hc hl' now (now / 1000))
  complete := fun s L _ h =>
    Inv.extend (s := s) .setComplete (fun hb => hb) h (fun a ps hl => by
      simp only [FdtAbs.step, FdtAbs.setComplete, List.append_nil]
      exact { scfg := hl.scfg, cfg := hl.cfg, files := hl.files, known := hl.known, nodup := hl.nodup,
              fdtid := hl.fdtid, queue := hl.queue, current := hl.current, complete := rfl,
              nextToi := fun hcf => (by cases hcf), pubs := hl.pubs })

/-! ### the refinement -/

theorem Inv.init (A : Ann) (S : Sched.Cfg) (hc : CfgOk A S) (tbl : List Nat) : Inv A S (Sched.init S tbl) [] :=
  fun _ => ⟨[], { scfg := rfl, cfg := rfl, files := rfl, known := fun _ h => by simp [Sched.init] at h,
                  nodup := List.nodup_nil, fdtid := ⟨hc.startId.1, hc.startId.2⟩, queue := rfl, current := rfl,
                  complete := rfl, nextToi := fun _ => hc.toiInit, pubs := rfl }⟩

/-- For EVERY operation history of the scheduler model there is a history of the abstract FDT model, built from the
    scheduler's own transitions, whose state is the projection of the scheduler state and whose publications are - id and
    listed TOIs, in order - the FDT instances the scheduler has published.
    (`hb`: the TOI counter has not wrapped around the configured TOI width - the scheduler model has no such wrap.) -/
theorem refines (A : Ann) (S : Sched.Cfg) (hc : CfgOk A S) (hA : A.ok) (tbl : List Nat) (ops : List Sched.Op)
    (hb : (Sched.run (Sched.init S tbl) ops).nextToi + 1 < 2^A.cfg.toiBits) :
    ∃ aops : List FdtAbs.Op,
      Link A S (Sched.run (Sched.init S tbl) ops) (FdtAbs.run (FdtAbs.init A.cfg) aops).1
        (FdtAbs.run (FdtAbs.init A.cfg) aops).2 := by
  have h := Sched.inv_run (Inv := Sched.And2 Sched.Wf (Inv A S))
    (Sched.Closed.and Sched.Wf.closed (Inv.closed A S hc))
    (Sched.ClosedOps.and Sched.Wf.closedOps (Inv.closedOps A S hc hA)) S tbl
    ⟨Sched.Wf.init S tbl, Inv.init A S hc tbl⟩ ops
  exact h.2 hb

end Flute.FdtSched
