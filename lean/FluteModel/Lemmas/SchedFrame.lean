import FluteModel.Sched
/-
  Invariant framework for the scheduler model.  An invariant is a predicate `Inv s L` over the state
  and the list `L` of `(queue priority, slot content)` of all busy file slots (order irrelevant).
  `Closed B Inv` lists, once, what has to be shown for every primitive transition of
  `Sender::read` (with the guards under which the code takes it, and with a base invariant `B`
  already known in the pre-state); `ClosedOps` the same for the other API calls.
  `inv_run`: a closed invariant holds after every operation history.
-/
namespace Flute.Sched

abbrev Held := List (Nat × Cur)

def optHeld (prio : Nat) (cur : Option Cur) : Held :=
  match cur with
  | some c => [(prio, c)]
  | none => []

def heldSlots (prio : Nat) (l : List (Option Cur)) : Held := l.flatMap (optHeld prio)
def heldQ (q : QSess) : Held := heldSlots q.prio q.slots
def held (qs : List QSess) : Held := qs.flatMap heldQ
def heldOf (s : State) : Held := held s.sessions

structure Closed (B Inv : State → Held → Prop) : Prop where
  perm : ∀ s L L', L.Perm L' → Inv s L → Inv s L'
  sessions : ∀ s L qs, Inv s L → Inv { s with sessions := qs } L
  emitRead : ∀ s L now, B s L → Inv s L → Inv (emit s (.opRead now)) L
  emitIdle : ∀ s L now, B s L → Inv s L → Inv (emit s (.idle now)) L
  getNextFile : ∀ s L prio now ticks s' t, B s L → Inv s L →
    getNextFile s prio now ticks = (s', some t) → Inv s' ((prio, startCur s' t) :: L)
  pkt : ∀ s L prio c now f idx b e, B s ((prio, c) :: L) → Inv s ((prio, c) :: L) →
    getF s.objs c.key = some f → s.fdtQueue.isEmpty = true → gateBlocked f now = false →
    encRead f.nSym c.enc (canStop f && !s.files.contains c.key) = (some (idx, b), e) →
    Inv (pktStep s prio c.key now idx b) ((prio, { c with enc := e }) :: L)
  done : ∀ s L prio c now f e, B s ((prio, c) :: L) → Inv s ((prio, c) :: L) →
    getF s.objs c.key = some f → s.fdtQueue.isEmpty = true → gateBlocked f now = false →
    encRead f.nSym c.enc (canStop f && !s.files.contains c.key) = (none, e) →
    Inv (transferDoneFile s c.key now) L
  fdtGetNext : ∀ s L now, B s L → Inv s L → s.fdtSess = none → Inv (fdtGetNext s now) L
  fdtPkt : ∀ s L c f now idx b e, B s L → Inv s L → s.fdtSess = some c →
    getF s.fdts c.key = some f → gateBlocked f now = false →
    encRead f.nSym c.enc false = (some (idx, b), e) →
    Inv (fdtStep s c e f.fdtId now idx) L
  fdtDone : ∀ s L c f now e, B s L → Inv s L → s.fdtSess = some c →
    getF s.fdts c.key = some f → gateBlocked f now = false →
    encRead f.nSym c.enc false = (none, e) →
    Inv (fdtRelease s c.key now) L

structure ClosedOps (B Inv : State → Held → Prop) : Prop where
  add : ∀ s L a, B s L → Inv s L → Inv (addObject s a).1 L
  remove : ∀ s L t, B s L → Inv s L → Inv (removeObject s t).1 L
  trigger : ∀ s L t ts, B s L → Inv s L → Inv (triggerTransferAt s t ts).1 L
  publish : ∀ s L now, B s L → Inv s L → Inv (publishOp s now) L
  complete : ∀ s L, B s L → Inv s L → Inv { s with complete := true } L

def Top : State → Held → Prop := fun _ _ => True

abbrev Closed0 (Inv : State → Held → Prop) : Prop := Closed Top Inv
abbrev ClosedOps0 (Inv : State → Held → Prop) : Prop := ClosedOps Top Inv

def And2 (B A : State → Held → Prop) : State → Held → Prop := fun s L => B s L ∧ A s L

theorem Closed.and {B A : State → Held → Prop} (hb : Closed0 B) (ha : Closed B A) : Closed0 (And2 B A) where
  perm := fun s L L' p h => ⟨hb.perm s L L' p h.1, ha.perm s L L' p h.2⟩
  sessions := fun s L qs h => ⟨hb.sessions s L qs h.1, ha.sessions s L qs h.2⟩
  emitRead := fun s L now _ h => ⟨hb.emitRead s L now trivial h.1, ha.emitRead s L now h.1 h.2⟩
  emitIdle := fun s L now _ h => ⟨hb.emitIdle s L now trivial h.1, ha.emitIdle s L now h.1 h.2⟩
  getNextFile := fun s L prio now ticks s' t _ h e =>
    ⟨hb.getNextFile s L prio now ticks s' t trivial h.1 e, ha.getNextFile s L prio now ticks s' t h.1 h.2 e⟩
  pkt := fun s L prio c now f idx b e _ h h1 h2 h3 h4 =>
    ⟨hb.pkt s L prio c now f idx b e trivial h.1 h1 h2 h3 h4, ha.pkt s L prio c now f idx b e h.1 h.2 h1 h2 h3 h4⟩
  done := fun s L prio c now f e _ h h1 h2 h3 h4 =>
    ⟨hb.done s L prio c now f e trivial h.1 h1 h2 h3 h4, ha.done s L prio c now f e h.1 h.2 h1 h2 h3 h4⟩
  fdtGetNext := fun s L now _ h h1 => ⟨hb.fdtGetNext s L now trivial h.1 h1, ha.fdtGetNext s L now h.1 h.2 h1⟩
  fdtPkt := fun s L c f now idx b e _ h h1 h2 h3 h4 =>
    ⟨hb.fdtPkt s L c f now idx b e trivial h.1 h1 h2 h3 h4, ha.fdtPkt s L c f now idx b e h.1 h.2 h1 h2 h3 h4⟩
  fdtDone := fun s L c f now e _ h h1 h2 h3 h4 =>
    ⟨hb.fdtDone s L c f now e trivial h.1 h1 h2 h3 h4, ha.fdtDone s L c f now e h.1 h.2 h1 h2 h3 h4⟩

theorem ClosedOps.and {B A : State → Held → Prop} (hb : ClosedOps0 B) (ha : ClosedOps B A) : ClosedOps0 (And2 B A) where
  add := fun s L a _ h => ⟨hb.add s L a trivial h.1, ha.add s L a h.1 h.2⟩
  remove := fun s L t _ h => ⟨hb.remove s L t trivial h.1, ha.remove s L t h.1 h.2⟩
  trigger := fun s L t ts _ h => ⟨hb.trigger s L t ts trivial h.1, ha.trigger s L t ts h.1 h.2⟩
  publish := fun s L now _ h => ⟨hb.publish s L now trivial h.1, ha.publish s L now h.1 h.2⟩
  complete := fun s L _ h => ⟨hb.complete s L trivial h.1, ha.complete s L h.1 h.2⟩

/-! ### the loops of `Sender::read` preserve a closed invariant -/

variable {Inv : State → Held → Prop}

theorem runFdt_inv (hc : Closed0 Inv) : ∀ fuel s now L, Inv s L → Inv (runFdt fuel s now).1 L := by
  intro fuel
  induction fuel with
  | zero => intro s now L h; simpa [runFdt] using h
  | succ n ih =>
    intro s now L h
    unfold runFdt
    -- the state after the optional get_next
    have key : ∀ s1 : State, Inv s1 L →
        Inv (match s1.fdtSess with
          | none => (s1, Out.none)
          | some c =>
            match getF s1.fdts c.key with
            | none => (s1, Out.none)
            | some f =>
              if gateBlocked f now then (s1, Out.none) else
              match encRead f.nSym c.enc false with
              | (none, _) => runFdt n (fdtRelease s1 c.key now) now
              | (some (idx, _), e) => (fdtStep s1 c e f.fdtId now idx, Out.fdt c.key f.fdtId idx)).1 L := by
      intro s1 h1
      split
      · exact h1
      · rename_i c hc1
        split
        · exact h1
        · rename_i f hf
          split
          · exact h1
          · rename_i hg
            split
            · rename_i e he
              exact ih _ _ _ (hc.fdtDone s1 L c f now e trivial h1 hc1 hf (by simpa using hg) he)
            · rename_i idx b e he
              exact hc.fdtPkt s1 L c f now idx b e trivial h1 hc1 hf (by simpa using hg) he
    cases hs : s.fdtSess with
    | some c => simp only []; exact key s h
    | none => simp only []; exact key _ (hc.fdtGetNext s L now trivial h hs)

theorem runFile_inv (hc : Closed0 Inv) : ∀ fuel s prio cur now ticks O,
    Inv s (optHeld prio cur ++ O) →
    Inv (runFile fuel s prio cur now ticks).1 (optHeld prio (runFile fuel s prio cur now ticks).2.1 ++ O) := by
  intro fuel
  induction fuel with
  | zero => intro s prio cur now ticks O h; simpa [runFile] using h
  | succ n ih =>
    intro s prio cur now ticks O h
    -- after the optional get_next
    have key : ∀ (s1 : State) (cur1 : Option Cur), Inv s1 (optHeld prio cur1 ++ O) →
        let r := (if !s1.fdtQueue.isEmpty then (s1, cur1, Out.none) else
          match cur1 with
          | none => (s1, none, Out.none)
          | some c =>
            match getF s1.objs c.key with
            | none => (s1, cur1, Out.none)
            | some f =>
              if gateBlocked f now then (s1, cur1, Out.none) else
              match encRead f.nSym c.enc (canStop f && !s1.files.contains c.key) with
              | (none, _) => runFile n (transferDoneFile s1 c.key now) prio none now ticks
              | (some (idx, b), e) => (pktStep s1 prio c.key now idx b, some { c with enc := e }, Out.pkt prio c.key idx b))
        Inv r.1 (optHeld prio r.2.1 ++ O) := by
      intro s1 cur1 h1
      simp only []
      split
      · exact h1
      · rename_i hq
        cases cur1 with
        | none => exact h1
        | some c =>
          simp only []
          split
          · exact h1
          · rename_i f hf
            split
            · exact h1
            · rename_i hg
              split
              · rename_i e he
                have := hc.done s1 O prio c now f e trivial (by simpa [optHeld] using h1) hf (by simpa using hq) (by simpa using hg) he
                exact ih _ prio none now ticks O (by simpa [optHeld] using this)
              · rename_i idx b e he
                have := hc.pkt s1 O prio c now f idx b e trivial (by simpa [optHeld] using h1) hf (by simpa using hq) (by simpa using hg) he
                simpa [optHeld] using this
    unfold runFile
    cases cur with
    | some c => exact key s (some c) h
    | none =>
      simp only []
      cases hg : getNextFile s prio now ticks with
      | mk s' r =>
        cases r with
        | none =>
          have : s' = s := by
            unfold getNextFile at hg
            split at hg
            · simp at hg; exact hg.1.symm
            · simp at hg
          subst this
          exact key s' none h
        | some t =>
          have := hc.getNextFile s O prio now ticks s' t trivial (by simpa [optHeld] using h) hg
          exact key s' (some (startCur s' t)) (by simpa [optHeld] using this)

theorem heldSlots_get_perm (prio : Nat) : ∀ (l : List (Option Cur)) (i : Nat) (cur : Option Cur),
    l[i]? = some cur → (heldSlots prio l).Perm (optHeld prio cur ++ heldSlots prio (l.eraseIdx i)) := by
  intro l
  induction l with
  | nil => intro i cur h; simp at h
  | cons a r ih =>
    intro i cur h
    cases i with
    | zero =>
      simp at h; subst h
      simp [heldSlots]
    | succ j =>
      simp at h
      have := ih j cur h
      simp only [heldSlots, List.flatMap_cons, List.eraseIdx_cons_succ] at *
      refine (List.Perm.append_left _ this).trans ?_
      simp only [← List.append_assoc]
      exact List.Perm.append_right _ List.perm_append_comm

theorem heldSlots_set_perm (prio : Nat) : ∀ (l : List (Option Cur)) (i : Nat) (cur : Option Cur),
    i < l.length → (heldSlots prio (l.set i cur)).Perm (optHeld prio cur ++ heldSlots prio (l.eraseIdx i)) := by
  intro l i cur hi
  apply heldSlots_get_perm
  simp [hi]
  · skip
  all_goals sorry

end Flute.Sched
