import FluteModel.Sched
/-
  Invariant framework for the scheduler model.  An invariant is a predicate `Inv s L` over the state
  and the list `L` of `(queue priority, slot content)` of all busy file slots (order irrelevant).
  `Closed B Inv` lists, once, what has to be shown for every primitive transition of
  `Sender::read` (with the guards under which the code takes it, and with a base invariant `B`
  already known in the pre-state); `ClosedOps` the same for the other API calls.
  `inv_run`: a closed invariant holds after every operation history.
-/
namespace Flute.Sched

abbrev Held := List (Nat × Cur)

def optHeld (prio : Nat) (cur : Option Cur) : Held :=
  match cur with
  | some c => [(prio, c)]
  | none => []

def heldSlots (prio : Nat) (l : List (Option Cur)) : Held := l.flatMap (optHeld prio)
def heldQ (q : QSess) : Held := heldSlots q.prio q.slots
def held (qs : List QSess) : Held := qs.flatMap heldQ
def heldOf (s : State) : Held := held s.sessions

/-- what is known when `SenderSession::run` of the FDT session returns `None` -/
def FdtQuiet (s : State) (now : Nat) : Prop :=
  (s.fdtSess = none ∧ (fdtBusy s = true ∨ (fdtTryStart s now).2 = none)) ∨
  (∃ c, s.fdtSess = some c ∧
    (getF s.fdts c.key = none ∨ ∃ f, getF s.fdts c.key = some f ∧ gateBlocked f now = true))

structure Closed (B Inv : State → Held → Prop) : Prop where
  perm : ∀ s L L', L.Perm L' → Inv s L → Inv s L'
  leaveFiles : ∀ s L qs, Inv s L → Inv { s with sessions := qs, quiet := false } L
  enterFiles : ∀ s L now, B s L → Inv s L → s.quiet = false → FdtQuiet s now → Inv { s with quiet := true } L
  emitRead : ∀ s L now, B s L → Inv s L → s.quiet = false → Inv (emit s (.opRead now)) L
  emitIdle : ∀ s L now, B s L → Inv s L → s.quiet = false → Inv (emit s (.idle now)) L
  /-- the republication at expiry inside `get_next_fdt_transfer` (the only unconditional use of `publish`) -/
  publish : ∀ s L now, B s L → Inv s L → currentFdtWillExpire s now = true → Inv (publish s now) L
  fdtAdvance : ∀ s L now, B s L → Inv s L → s.quiet = false → s.fdtSess = none →
    Inv (fdtAdvance s now) L
  fileStart : ∀ s L prio now tk t, B s L → Inv s L → s.quiet = true → findNext s prio now s.queue = some t →
    Inv (autoPublish (fileStartStep s t now tk) now)
      ((prio, startCur (autoPublish (fileStartStep s t now tk) now) t) :: L)
  pkt : ∀ s L prio c now f idx b e, B s ((prio, c) :: L) → Inv s ((prio, c) :: L) → s.quiet = true →
    getF s.objs c.key = some f → s.fdtQueue.isEmpty = true → gateBlocked f now = false →
    encRead f.nSym c.enc (canStop f && !s.files.contains c.key) = (some (idx, b), e) →
    Inv (pktStep s prio c.key now idx b) ((prio, { c with enc := e }) :: L)
  /-- the end of a transfer: the encoder yields nothing more - also the release of a transfer attempt that failed
      to start (then before the pending-FDT test and the pacing gate: no hypothesis about them) -/
  done : ∀ s L prio c now f e, B s ((prio, c) :: L) → Inv s ((prio, c) :: L) → s.quiet = true →
    getF s.objs c.key = some f →
    encRead f.nSym c.enc (canStop f && !s.files.contains c.key) = (none, e) →
    Inv (transferDoneFile s c.key now) L
  fdtPkt : ∀ s L c f now idx b e, B s L → Inv s L → s.quiet = false → s.fdtSess = some c →
    getF s.fdts c.key = some f → gateBlocked f now = false →
    encRead f.nSym c.enc false = (some (idx, b), e) →
    Inv (fdtStep s c e f.fdtId now idx) L
  fdtDone : ∀ s L c f now e, B s L → Inv s L → s.quiet = false → s.fdtSess = some c →
    getF s.fdts c.key = some f → gateBlocked f now = false →
    encRead f.nSym c.enc false = (none, e) →
    Inv (fdtRelease s c.key now) L

structure ClosedOps (B Inv : State → Held → Prop) : Prop where
  add : ∀ s L a, B s L → Inv s L → Inv (addObject s a).1 L
  remove : ∀ s L t, B s L → Inv s L → Inv (removeObject s t).1 L
  trigger : ∀ s L t ts, B s L → Inv s L → Inv (triggerTransferAt s t ts).1 L
  publishOp : ∀ s L now, B s L → Inv s L → Inv (publishOp s now) L
  complete : ∀ s L, B s L → Inv s L → Inv { s with complete := true } L

def Top : State → Held → Prop := fun _ _ => True

abbrev Closed0 (Inv : State → Held → Prop) : Prop := Closed Top Inv
abbrev ClosedOps0 (Inv : State → Held → Prop) : Prop := ClosedOps Top Inv

def And2 (B A : State → Held → Prop) : State → Held → Prop := fun s L => B s L ∧ A s L

theorem Closed.and {B A : State → Held → Prop} (hb : Closed0 B) (ha : Closed B A) : Closed0 (And2 B A) where
  perm := fun s L L' p h => ⟨hb.perm s L L' p h.1, ha.perm s L L' p h.2⟩
  leaveFiles := fun s L qs h => ⟨hb.leaveFiles s L qs h.1, ha.leaveFiles s L qs h.2⟩
  enterFiles := fun s L now _ h hq q => ⟨hb.enterFiles s L now trivial h.1 hq q, ha.enterFiles s L now h.1 h.2 hq q⟩
  emitRead := fun s L now _ h hq => ⟨hb.emitRead s L now trivial h.1 hq, ha.emitRead s L now h.1 h.2 hq⟩
  emitIdle := fun s L now _ h hq => ⟨hb.emitIdle s L now trivial h.1 hq, ha.emitIdle s L now h.1 h.2 hq⟩
  publish := fun s L now _ h he => ⟨hb.publish s L now trivial h.1 he, ha.publish s L now h.1 h.2 he⟩
  fdtAdvance := fun s L now _ h hq h1 =>
    ⟨hb.fdtAdvance s L now trivial h.1 hq h1, ha.fdtAdvance s L now h.1 h.2 hq h1⟩
  fileStart := fun s L prio now tk t _ h hq e =>
    ⟨hb.fileStart s L prio now tk t trivial h.1 hq e, ha.fileStart s L prio now tk t h.1 h.2 hq e⟩
  pkt := fun s L prio c now f idx b e _ h hq h1 h2 h3 h4 =>
    ⟨hb.pkt s L prio c now f idx b e trivial h.1 hq h1 h2 h3 h4, ha.pkt s L prio c now f idx b e h.1 h.2 hq h1 h2 h3 h4⟩
  done := fun s L prio c now f e _ h hq h1 h4 =>
    ⟨hb.done s L prio c now f e trivial h.1 hq h1 h4, ha.done s L prio c now f e h.1 h.2 hq h1 h4⟩
  fdtPkt := fun s L c f now idx b e _ h hq h1 h2 h3 h4 =>
    ⟨hb.fdtPkt s L c f now idx b e trivial h.1 hq h1 h2 h3 h4, ha.fdtPkt s L c f now idx b e h.1 h.2 hq h1 h2 h3 h4⟩
  fdtDone := fun s L c f now e _ h hq h1 h2 h3 h4 =>
    ⟨hb.fdtDone s L c f now e trivial h.1 hq h1 h2 h3 h4, ha.fdtDone s L c f now e h.1 h.2 hq h1 h2 h3 h4⟩

theorem ClosedOps.and {B A : State → Held → Prop} (hb : ClosedOps0 B) (ha : ClosedOps B A) : ClosedOps0 (And2 B A) where
  add := fun s L a _ h => ⟨hb.add s L a trivial h.1, ha.add s L a h.1 h.2⟩
  remove := fun s L t _ h => ⟨hb.remove s L t trivial h.1, ha.remove s L t h.1 h.2⟩
  trigger := fun s L t ts _ h => ⟨hb.trigger s L t ts trivial h.1, ha.trigger s L t ts h.1 h.2⟩
  publishOp := fun s L now _ h => ⟨hb.publishOp s L now trivial h.1, ha.publishOp s L now h.1 h.2⟩
  complete := fun s L _ h => ⟨hb.complete s L trivial h.1, ha.complete s L h.1 h.2⟩

/-! ### field-preservation facts of the primitives -/

@[simp] theorem emit_sessions (s : State) (e : Ev) : (emit s e).sessions = s.sessions := rfl
@[simp] theorem emit_fdtSess (s : State) (e : Ev) : (emit s e).fdtSess = s.fdtSess := rfl
@[simp] theorem emit_quiet (s : State) (e : Ev) : (emit s e).quiet = s.quiet := rfl
@[simp] theorem publish_sessions (s : State) (now : Nat) : (publish s now).sessions = s.sessions := rfl
@[simp] theorem publish_fdtSess (s : State) (now : Nat) : (publish s now).fdtSess = s.fdtSess := rfl
@[simp] theorem publish_quiet (s : State) (now : Nat) : (publish s now).quiet = s.quiet := rfl

theorem publishTry_cases (s : State) (now : Nat) : publishTry s now = publish s now ∨ publishTry s now = s := by
  unfold publishTry; split
  · exact Or.inl rfl
  · exact Or.inr rfl

theorem publishTry_elim {P : State → Prop} (s : State) (now : Nat) (h1 : P (publish s now)) (h2 : P s) :
    P (publishTry s now) := by
  rcases publishTry_cases s now with e | e
  · rw [e]; exact h1
  · rw [e]; exact h2

@[simp] theorem publishTry_sessions (s : State) (now : Nat) : (publishTry s now).sessions = s.sessions := by
  rcases publishTry_cases s now with e | e <;> rw [e] <;> rfl
@[simp] theorem publishTry_fdtSess (s : State) (now : Nat) : (publishTry s now).fdtSess = s.fdtSess := by
  rcases publishTry_cases s now with e | e <;> rw [e] <;> rfl
@[simp] theorem publishTry_quiet (s : State) (now : Nat) : (publishTry s now).quiet = s.quiet := by
  rcases publishTry_cases s now with e | e <;> rw [e] <;> rfl

theorem fdtMaybePublish_fdtSess (s : State) (now : Nat) : (fdtMaybePublish s now).fdtSess = s.fdtSess := by
  unfold fdtMaybePublish; split
  · exact publishTry_fdtSess s now
  · rfl
theorem fdtMaybePublish_sessions (s : State) (now : Nat) : (fdtMaybePublish s now).sessions = s.sessions := by
  unfold fdtMaybePublish; split
  · exact publishTry_sessions s now
  · rfl
theorem fdtMaybePublish_quiet (s : State) (now : Nat) : (fdtMaybePublish s now).quiet = s.quiet := by
  unfold fdtMaybePublish; split
  · exact publishTry_quiet s now
  · rfl

theorem fdtPop_fdtSess (s : State) : (fdtPop s).fdtSess = s.fdtSess := by
  unfold fdtPop; split <;> rfl
theorem fdtPop_sessions (s : State) : (fdtPop s).sessions = s.sessions := by
  unfold fdtPop; split <;> rfl
theorem fdtPop_quiet (s : State) : (fdtPop s).quiet = s.quiet := by
  unfold fdtPop; split <;> rfl

theorem fdtTryStart_sessions (s : State) (now : Nat) : (fdtTryStart s now).1.sessions = s.sessions := by
  unfold fdtTryStart
  split
  · rfl
  · split
    · rfl
    · split <;> rfl

theorem fdtTryStart_quiet (s : State) (now : Nat) : (fdtTryStart s now).1.quiet = s.quiet := by
  unfold fdtTryStart
  split
  · rfl
  · split
    · rfl
    · split <;> rfl

theorem fdtAdvance_sessions (s : State) (now : Nat) : (fdtAdvance s now).sessions = s.sessions := by
  have := fdtTryStart_sessions (fdtPop s) now
  rw [fdtPop_sessions] at this
  unfold fdtAdvance
  split <;> simp_all

theorem fdtAdvance_quiet (s : State) (now : Nat) : (fdtAdvance s now).quiet = s.quiet := by
  have := fdtTryStart_quiet (fdtPop s) now
  rw [fdtPop_quiet] at this
  unfold fdtAdvance
  split <;> simp_all

theorem fdtGetNext_sessions (s : State) (now : Nat) : (fdtGetNext s now).sessions = s.sessions := by
  unfold fdtGetNext
  split
  · rfl
  · rw [fdtAdvance_sessions, fdtMaybePublish_sessions]

theorem fdtGetNext_quiet (s : State) (now : Nat) : (fdtGetNext s now).quiet = s.quiet := by
  unfold fdtGetNext
  split
  · rfl
  · rw [fdtAdvance_quiet, fdtMaybePublish_quiet]

theorem transferDoneFdt_sessions (s : State) (k now : Nat) : (transferDoneFdt s k now).sessions = s.sessions := by
  unfold transferDoneFdt
  simp only []
  split
  · split <;> rfl
  · rfl

theorem transferDoneFdt_quiet (s : State) (k now : Nat) : (transferDoneFdt s k now).quiet = s.quiet := by
  unfold transferDoneFdt
  simp only []
  split
  · split <;> rfl
  · rfl

theorem fdtRelease_sessions (s : State) (k now : Nat) : (fdtRelease s k now).sessions = s.sessions := by
  unfold fdtRelease
  exact transferDoneFdt_sessions s k now

theorem fdtRelease_quiet (s : State) (k now : Nat) : (fdtRelease s k now).quiet = s.quiet := by
  unfold fdtRelease
  exact transferDoneFdt_quiet s k now

theorem autoPublish_quiet (s : State) (now : Nat) : (autoPublish s now).quiet = s.quiet := by
  unfold autoPublish; split
  · exact publishTry_quiet s now
  · rfl

theorem transferDoneFile_quiet (s : State) (t now : Nat) : (transferDoneFile s t now).quiet = s.quiet := by
  unfold transferDoneFile
  simp only []
  split
  · rfl
  · split
    · split <;> rfl
    · rfl

theorem publishTry_inv {Inv : State → Held → Prop} (hc : Closed0 Inv) (s : State) (L : Held) (now : Nat)
    (h : Inv s L) (he : currentFdtWillExpire s now = true) : Inv (publishTry s now) L := by
  rcases publishTry_cases s now with e | e
  · rw [e]; exact hc.publish s L now trivial h he
  · rw [e]; exact h

theorem fdtGetNext_inv {Inv : State → Held → Prop} (hc : Closed0 Inv) (s : State) (L : Held) (now : Nat)
    (h : Inv s L) (hq : s.quiet = false) (hs : s.fdtSess = none) :
    Inv (fdtGetNext s now) L := by
  unfold fdtGetNext
  split
  · exact h
  · have h1 : Inv (fdtMaybePublish s now) L := by
      unfold fdtMaybePublish; split
      · rename_i he; exact publishTry_inv hc s L now h he
      · exact h
    have hs1 : (fdtMaybePublish s now).fdtSess = none := by rw [fdtMaybePublish_fdtSess, hs]
    have hq1 : (fdtMaybePublish s now).quiet = false := by rw [fdtMaybePublish_quiet, hq]
    exact hc.fdtAdvance _ L now trivial h1 hq1 hs1

theorem getF_map (l : List FileDesc) (g : FileDesc → FileDesc) (hk : ∀ f, (g f).key = f.key) (k : Nat) :
    getF (l.map g) k = (getF l k).map g := by
  induction l with
  | nil => rfl
  | cons a r ih =>
    simp only [getF, List.map_cons, List.find?_cons, hk] at *
    split <;> simp_all

theorem getF_cons (a : FileDesc) (r : List FileDesc) (k : Nat) :
    getF (a :: r) k = if a.key = k then some a else getF r k := by
  simp only [getF, List.find?_cons]
  by_cases h : a.key = k
  · simp [h]
  · have : (a.key == k) = false := by simpa using h
    simp [this, h]

theorem updF_cons (a : FileDesc) (r : List FileDesc) (k : Nat) (g : FileDesc → FileDesc) :
    updF (a :: r) k g = (if a.key = k then g a else a) :: updF r k g := by
  simp [updF]

theorem getF_updF (l : List FileDesc) (k k' : Nat) (g : FileDesc → FileDesc) (hk : ∀ f, (g f).key = f.key) :
    getF (updF l k g) k' = if k' = k then (getF l k').map g else getF l k' := by
  induction l with
  | nil => simp [getF, updF]
  | cons a r ih =>
    rw [updF_cons, getF_cons, getF_cons, ih]
    by_cases h1 : a.key = k <;> by_cases h2 : k' = k <;> by_cases h3 : a.key = k' <;>
      simp_all [hk] <;> omega

theorem getF_key {l : List FileDesc} {k : Nat} {f : FileDesc} (h : getF l k = some f) : f.key = k := by
  have := List.find?_some h
  simpa using this

theorem getF_mem {l : List FileDesc} {k : Nat} {f : FileDesc} (h : getF l k = some f) : f ∈ l :=
  List.mem_of_find?_eq_some h

theorem getNextFile_inv {Inv : State → Held → Prop} (hc : Closed0 Inv) (s : State) (L : Held)
    (prio now : Nat) (ticks : List (Nat × Nat)) (s' : State) (t : Nat)
    (h : Inv s L) (hq : s.quiet = true) (hg : getNextFile s prio now ticks = (s', some t)) :
    Inv s' ((prio, startCur s' t) :: L) ∧ s'.quiet = true := by
  unfold getNextFile at hg
  split at hg
  · simp at hg
  · rename_i t' hf
    simp only [Prod.mk.injEq, Option.some.injEq] at hg
    obtain ⟨e1, e2⟩ := hg
    subst e2
    rw [← e1]
    exact ⟨hc.fileStart s L prio now (tkGet ticks t') t' trivial h hq hf, by rw [autoPublish_quiet]; exact hq⟩

/-! ### the loops of `Sender::read` preserve a closed invariant -/

variable {Inv : State → Held → Prop}

theorem runFdt_inv (hc : Closed0 Inv) : ∀ fuel s now L, Inv s L → s.quiet = false →
    Inv (runFdt fuel s now).1 L ∧ (runFdt fuel s now).1.quiet = false := by
  intro fuel
  induction fuel with
  | zero => intro s now L h hq; exact ⟨by simpa [runFdt] using h, by simpa [runFdt] using hq⟩
  | succ n ih =>
    intro s now L h hq
    unfold runFdt
    have key : ∀ s1 : State, Inv s1 L → s1.quiet = false →
        let r := (match s1.fdtSess with
          | none => (s1, Out.none)
          | some c =>
            match getF s1.fdts c.key with
            | none => (s1, Out.none)
            | some f =>
              if gateBlocked f now then (s1, Out.none) else
              match encRead f.nSym c.enc false with
              | (none, _) => runFdt n (fdtRelease s1 c.key now) now
              | (some (idx, _), e) => (fdtStep s1 c e f.fdtId now idx, Out.fdt c.key f.fdtId idx))
        Inv r.1 L ∧ r.1.quiet = false := by
      intro s1 h1 hq1
      simp only []
      split
      · exact ⟨h1, hq1⟩
      · rename_i c hc1
        split
        · exact ⟨h1, hq1⟩
        · rename_i f hf
          split
          · exact ⟨h1, hq1⟩
          · rename_i hg
            split
            · rename_i e he
              exact ih _ _ _ (hc.fdtDone s1 L c f now e trivial h1 hq1 hc1 hf (by simpa using hg) he)
                (by rw [fdtRelease_quiet]; exact hq1)
            · rename_i idx b e he
              exact ⟨hc.fdtPkt s1 L c f now idx b e trivial h1 hq1 hc1 hf (by simpa using hg) he, hq1⟩
    cases hs : s.fdtSess with
    | some c => simp only []; exact key s h hq
    | none =>
      simp only []
      exact key _ (fdtGetNext_inv hc s L now h hq hs) (by rw [fdtGetNext_quiet]; exact hq)

/-- what `openFailed` returning something means -/
theorem openFailed_some {fr : Bool} {s : State} {cur : Option Cur} {k : Nat} {f : FileDesc}
    (h : openFailed fr s cur = some (k, f)) :
    fr = true ∧ ∃ c, cur = some c ∧ c.key = k ∧ c.openFail = true ∧ getF s.objs k = some f := by
  unfold openFailed at h
  cases cur with
  | none => cases h
  | some c =>
    simp only [] at h
    by_cases hc : (fr && c.openFail) = true
    · rw [if_pos hc] at h
      cases hg : getF s.objs c.key with
      | none => rw [hg] at h; cases h
      | some g =>
        rw [hg] at h
        simp only [Option.map_some, Option.some.injEq, Prod.mk.injEq] at h
        obtain ⟨e1, e2⟩ := h
        subst e1; subst e2
        simp only [Bool.and_eq_true] at hc
        exact ⟨hc.1, c, rfl, rfl, hc.2, hg⟩
    · rw [if_neg hc] at h; cases h

theorem openFailed_false (s : State) (cur : Option Cur) : openFailed false s cur = none := by
  unfold openFailed; cases cur <;> simp

/-- the encoder of a failed open yields nothing -/
theorem startCur_openFail (s : State) (t : Nat) (h : (startCur s t).openFail = true) :
    (startCur s t).enc.stopped = true := by
  unfold startCur at h ⊢
  cases hg : getF s.objs t with
  | none => rw [hg] at h; cases h
  | some f =>
    rw [hg] at h
    simp only [] at h ⊢
    have : f.info.attempt = some 0 := by simpa using h
    rw [this]; rfl

theorem encRead_stopped (n : Nat) (e : Enc) (force : Bool) (h : e.stopped = true) : encRead n e force = (none, e) := by
  unfold encRead; rw [if_pos h]

theorem runFile_inv (hc : Closed0 Inv) : ∀ fuel s prio cur now ticks O,
    Inv s (optHeld prio cur ++ O) → s.quiet = true →
    Inv (runFile fuel s prio cur now ticks).1 (optHeld prio (runFile fuel s prio cur now ticks).2.1 ++ O) ∧
    (runFile fuel s prio cur now ticks).1.quiet = true := by
  intro fuel
  induction fuel with
  | zero => intro s prio cur now ticks O h hq; exact ⟨by simpa [runFile] using h, by simpa [runFile] using hq⟩
  | succ n ih =>
    intro s prio cur now ticks O h hq
    have key : ∀ (fr : Bool) (s1 : State) (cur1 : Option Cur), Inv s1 (optHeld prio cur1 ++ O) → s1.quiet = true →
        let r := (if !s1.fdtQueue.isEmpty then (s1, cur1, Out.none) else
          match cur1 with
          | none => (s1, none, Out.none)
          | some c =>
            match getF s1.objs c.key with
            | none => (s1, cur1, Out.none)
            | some f =>
              if gateBlocked f now then (s1, cur1, Out.none) else
              match encRead f.nSym c.enc (canStop f && !s1.files.contains c.key) with
              | (none, _) =>
                if fr then (transferDoneFile s1 c.key now, none, Out.none)
                else runFile n (transferDoneFile s1 c.key now) prio none now ticks
              | (some (idx, b), e) => (pktStep s1 prio c.key now idx b, some { c with enc := e }, Out.pkt prio c.key idx b))
        Inv r.1 (optHeld prio r.2.1 ++ O) ∧ r.1.quiet = true := by
      intro fr s1 cur1 h1 hq1
      simp only []
      split
      · exact ⟨h1, hq1⟩
      · rename_i hqe
        cases cur1 with
        | none => exact ⟨h1, hq1⟩
        | some c =>
          simp only []
          split
          · exact ⟨h1, hq1⟩
          · rename_i f hf
            split
            · exact ⟨h1, hq1⟩
            · rename_i hg
              split
              · rename_i e he
                have := hc.done s1 O prio c now f e trivial (by simpa [optHeld] using h1) hq1 hf he
                cases fr with
                | true =>
                  simp only [if_true]
                  exact ⟨by simpa [optHeld] using this, by rw [transferDoneFile_quiet]; exact hq1⟩
                | false =>
                  simp only [Bool.false_eq_true, if_false]
                  exact ih _ prio none now ticks O (by simpa [optHeld] using this) (by rw [transferDoneFile_quiet]; exact hq1)
              · rename_i idx b e he
                have := hc.pkt s1 O prio c now f idx b e trivial (by simpa [optHeld] using h1) hq1 hf (by simpa using hqe) (by simpa using hg) he
                exact ⟨by simpa [optHeld] using this, hq1⟩
    unfold runFile
    cases cur with
    | some c =>
      simp only [openFailed_false]
      exact key false s (some c) h hq
    | none =>
      simp only []
      cases hg : getNextFile s prio now ticks with
      | mk s' r =>
        cases r with
        | none =>
          have : s' = s := by
            unfold getNextFile at hg
            split at hg
            · simp at hg; exact hg.symm
            · simp at hg
          subst this
          exact key true s' none h hq
        | some t =>
          have := getNextFile_inv hc s O prio now ticks s' t (by simpa [optHeld] using h) hq hg
          simp only []
          cases ho : openFailed true s' (some (startCur s' t)) with
          | none => exact key true s' (some (startCur s' t)) (by simpa [optHeld] using this.1) this.2
          | some kf =>
            obtain ⟨k, f⟩ := kf
            obtain ⟨_, c, e1, e2, e3, e4⟩ := openFailed_some ho
            simp only [Option.some.injEq] at e1
            subst e1
            have hk : k = t := e2.symm
            subst hk
            simp only []
            have hd := hc.done s' O prio (startCur s' k) now f _ trivial (by simpa [optHeld] using this.1) this.2 e4
              (encRead_stopped _ _ _ (startCur_openFail s' _ e3))
            have hd' : Inv (transferDoneFile s' k now) O := hd
            exact ⟨by simpa [optHeld] using hd', by rw [transferDoneFile_quiet]; exact this.2⟩

theorem heldSlots_get_perm (prio : Nat) : ∀ (l : List (Option Cur)) (i : Nat) (cur : Option Cur),
    l[i]? = some cur → (heldSlots prio l).Perm (optHeld prio cur ++ heldSlots prio (l.eraseIdx i)) := by
  intro l
  induction l with
  | nil => intro i cur h; simp at h
  | cons a r ih =>
    intro i cur h
    cases i with
    | zero =>
      simp at h; subst h
      simp [heldSlots]
    | succ j =>
      simp at h
      have := ih j cur h
      simp only [heldSlots, List.flatMap_cons, List.eraseIdx_cons_succ] at *
      refine (List.Perm.append_left _ this).trans ?_
      simp only [← List.append_assoc]
      exact List.Perm.append_right _ List.perm_append_comm

theorem heldSlots_set_perm (prio : Nat) (l : List (Option Cur)) (i : Nat) (cur : Option Cur)
    (hi : i < l.length) :
    (heldSlots prio (l.set i cur)).Perm (optHeld prio cur ++ heldSlots prio (l.eraseIdx i)) := by
  have h := heldSlots_get_perm prio (l.set i cur) i cur (by simp [hi])
  have e : (l.set i cur).eraseIdx i = l.eraseIdx i := by
    exact List.eraseIdx_set_eq
  rw [e] at h
  exact h

theorem readQueue_inv (hc : Closed0 Inv) : ∀ k s q now ticks O,
    Inv s (heldQ q ++ O) → s.quiet = true →
    Inv (readQueue k s q now ticks).1 (heldQ (readQueue k s q now ticks).2.1 ++ O) ∧
    (readQueue k s q now ticks).1.quiet = true := by
  intro k
  induction k with
  | zero => intro s q now ticks O h hq; exact ⟨by simpa [readQueue] using h, by simpa [readQueue] using hq⟩
  | succ n ih =>
    intro s q now ticks O h hq
    unfold readQueue
    split
    · exact ⟨h, hq⟩
    · rename_i cur hcur
      have hi : q.index < q.slots.length := by
        rcases Nat.lt_or_ge q.index q.slots.length with h | h
        · exact h
        · simp [List.getElem?_eq_none h] at hcur
      have p1 := heldSlots_get_perm q.prio q.slots q.index cur hcur
      have h1 : Inv s (optHeld q.prio cur ++ (heldSlots q.prio (q.slots.eraseIdx q.index) ++ O)) := by
        refine hc.perm _ _ _ ?_ h
        simp only [heldQ, ← List.append_assoc]
        exact List.Perm.append_right _ p1
      have h2 := runFile_inv hc runFuel s q.prio cur now ticks _ h1 hq
      generalize runFile runFuel s q.prio cur now ticks = r at h2
      obtain ⟨s', cur', out⟩ := r
      simp only [] at h2 ⊢
      have p2 := heldSlots_set_perm q.prio q.slots q.index cur' hi
      have h3 : ∀ idx, Inv s' (heldQ { q with slots := q.slots.set q.index cur', index := idx } ++ O) := by
        intro idx
        refine hc.perm _ _ _ ?_ h2.1
        simp only [heldQ, ← List.append_assoc]
        exact List.Perm.append_right _ p2.symm
      cases out with
      | none => exact ih _ _ _ _ _ (h3 _) h2.2
      | hang => exact ⟨h3 _, h2.2⟩
      | pkt a b c d => exact ⟨h3 _, h2.2⟩
      | fdt a b c => exact ⟨h3 _, h2.2⟩

theorem readQueues_inv (hc : Closed0 Inv) : ∀ qs s now ticks O,
    Inv s (held qs ++ O) → s.quiet = true →
    Inv (readQueues s qs now ticks).1 (held (readQueues s qs now ticks).2.1 ++ O) ∧
    (readQueues s qs now ticks).1.quiet = true := by
  intro qs
  induction qs with
  | nil => intro s now ticks O h hq; exact ⟨by simpa [readQueues] using h, by simpa [readQueues] using hq⟩
  | cons q rest ih =>
    intro s now ticks O h hq
    unfold readQueues
    have h1 : Inv s (heldQ q ++ (held rest ++ O)) := by
      simpa [held, List.append_assoc] using h
    have h2 := readQueue_inv hc q.slots.length s q now ticks _ h1 hq
    generalize readQueue q.slots.length s q now ticks = r at h2
    obtain ⟨s', q', out⟩ := r
    simp only [] at h2 ⊢
    have back : ∀ s2 rest2, Inv s2 (held rest2 ++ (heldQ q' ++ O)) → Inv s2 (held (q' :: rest2) ++ O) := by
      intro s2 rest2 h
      refine hc.perm _ _ _ ?_ h
      simp only [held, List.flatMap_cons, ← List.append_assoc]
      exact List.Perm.append_right _ List.perm_append_comm
    have fwd : Inv s' (held rest ++ (heldQ q' ++ O)) := by
      refine hc.perm _ _ _ ?_ h2.1
      simp only [← List.append_assoc]
      exact List.Perm.append_right _ List.perm_append_comm
    cases out with
    | none =>
      simp only []
      have h3 := ih s' now ticks _ fwd h2.2
      generalize readQueues s' rest now ticks = r2 at h3
      obtain ⟨s2, rest2, out2⟩ := r2
      exact ⟨back _ _ h3.1, h3.2⟩
    | hang => exact ⟨back _ _ fwd, h2.2⟩
    | pkt a b c d => exact ⟨back _ _ fwd, h2.2⟩
    | fdt a b c => exact ⟨back _ _ fwd, h2.2⟩

theorem runFdt_sessions : ∀ fuel s now, (runFdt fuel s now).1.sessions = s.sessions := by
  intro fuel
  induction fuel with
  | zero => intro s now; rfl
  | succ n ih =>
    intro s now
    unfold runFdt
    have key : ∀ s1 : State, s1.sessions = s.sessions →
        (match s1.fdtSess with
          | none => (s1, Out.none)
          | some c =>
            match getF s1.fdts c.key with
            | none => (s1, Out.none)
            | some f =>
              if gateBlocked f now then (s1, Out.none) else
              match encRead f.nSym c.enc false with
              | (none, _) => runFdt n (fdtRelease s1 c.key now) now
              | (some (idx, _), e) => (fdtStep s1 c e f.fdtId now idx, Out.fdt c.key f.fdtId idx)).1.sessions
          = s.sessions := by
      intro s1 h1
      split
      · exact h1
      · split
        · exact h1
        · split
          · exact h1
          · split
            · rw [ih, fdtRelease_sessions, h1]
            · exact h1
    cases hs : s.fdtSess with
    | some c => simp only []; exact key s rfl
    | none => simp only []; exact key _ (fdtGetNext_sessions s now)

theorem fdtTryStart_none (s : State) (now : Nat) (h : (fdtTryStart s now).2 = none) :
    (fdtTryStart s now).1 = s := by
  unfold fdtTryStart at h ⊢
  split
  · rfl
  · rename_i k hk
    rw [hk] at h
    simp only [] at h
    split
    · rfl
    · rename_i f hf
      rw [hf] at h
      simp only [] at h
      split
      · rename_i hst
        rw [if_pos hst] at h
        simp at h
      · rfl

theorem fdtAdvance_cases (s : State) (now : Nat) :
    (fdtAdvance s now = fdtPop s ∧ (fdtTryStart (fdtPop s) now).2 = none) ∨
    (∃ k f, (fdtPop s).curFdt = some k ∧ getF (fdtPop s).fdts k = some f ∧
      shouldTransferNow f 0 (fdtPop s).cfg.mode now = true ∧
      fdtAdvance s now = { fdtStartStep (fdtPop s) k now with fdtSess := some (startFdtCur k) }) := by
  unfold fdtAdvance
  generalize fdtPop s = s1
  unfold fdtTryStart
  cases hk : s1.curFdt with
  | none => left; simp
  | some k =>
    simp only []
    cases hf : getF s1.fdts k with
    | none => left; simp
    | some f =>
      simp only []
      by_cases hst : shouldTransferNow f 0 s1.cfg.mode now = true
      · right; exact ⟨k, f, rfl, hf, hst, by simp [hst]⟩
      · left; simp [hst]

theorem runFdt_none : ∀ fuel s now s', runFdt fuel s now = (s', Out.none) → FdtQuiet s' now := by
  intro fuel
  induction fuel with
  | zero => intro s now s' h; simp [runFdt] at h
  | succ n ih =>
    intro s now s' h
    unfold runFdt at h
    have key : ∀ s1 : State, (s1.fdtSess = none → fdtBusy s1 = true ∨ (fdtTryStart s1 now).2 = none) →
        (match s1.fdtSess with
          | none => (s1, Out.none)
          | some c =>
            match getF s1.fdts c.key with
            | none => (s1, Out.none)
            | some f =>
              if gateBlocked f now then (s1, Out.none) else
              match encRead f.nSym c.enc false with
              | (none, _) => runFdt n (fdtRelease s1 c.key now) now
              | (some (idx, _), e) => (fdtStep s1 c e f.fdtId now idx, Out.fdt c.key f.fdtId idx)) = (s', Out.none) →
        FdtQuiet s' now := by
      intro s1 hq h1
      split at h1
      · rename_i hs
        simp only [Prod.mk.injEq, and_true] at h1; subst h1
        exact Or.inl ⟨hs, hq hs⟩
      · rename_i c hs
        split at h1
        · rename_i hf
          simp only [Prod.mk.injEq, and_true] at h1; subst h1
          exact Or.inr ⟨c, hs, Or.inl hf⟩
        · rename_i f hf
          split at h1
          · rename_i hg
            simp only [Prod.mk.injEq, and_true] at h1; subst h1
            exact Or.inr ⟨c, hs, Or.inr ⟨f, hf, hg⟩⟩
          · split at h1
            · exact ih _ _ _ h1
            · simp at h1
    cases hs : s.fdtSess with
    | some c =>
      simp only [hs] at h
      exact key s (by simp [hs]) (by simp only [hs]; exact h)
    | none =>
      simp only [hs] at h
      refine key (fdtGetNext s now) ?_ h
      intro hn
      unfold fdtGetNext at hn ⊢
      split
      · rename_i hb; exact Or.inl hb
      · rename_i hb
        rw [if_neg hb] at hn
        right
        unfold fdtAdvance at hn ⊢
        generalize fdtPop (fdtMaybePublish s now) = s3 at hn ⊢
        cases hts : fdtTryStart s3 now with
        | mk s4 r =>
          cases r with
          | some k => rw [hts] at hn; simp at hn
          | none =>
            simp only []
            have e2 : (fdtTryStart s3 now).2 = none := by rw [hts]
            have e1 : (fdtTryStart s3 now).1 = s3 := fdtTryStart_none s3 now e2
            have : s4 = s3 := by rw [hts] at e1; exact e1
            subst this
            exact e2

theorem readTail_inv (hc : Closed0 Inv) (s : State) (now : Nat)
    (h : Inv s (heldOf s)) (hq : s.quiet = false) :
    Inv (readTail s now).1 (heldOf (readTail s now).1) ∧ (readTail s now).1.quiet = false := by
  unfold readTail
  have h4 := runFdt_inv hc runFuel s now _ h hq
  have e4 := runFdt_sessions runFuel s now
  generalize runFdt runFuel s now = r4 at h4 e4
  obtain ⟨s4, o4⟩ := r4
  simp only [] at e4 h4
  have fin4 : Inv s4 (heldOf s4) := by simpa [heldOf, e4] using h4.1
  cases o4 with
  | hang => exact ⟨fin4, h4.2⟩
  | pkt a b c d => exact ⟨fin4, h4.2⟩
  | fdt a b c => exact ⟨fin4, h4.2⟩
  | none => exact ⟨hc.emitIdle s4 _ now trivial fin4 h4.2, h4.2⟩

theorem readMid_inv (hc : Closed0 Inv) (s : State) (now : Nat) (ticks : List (Nat × Nat))
    (h : Inv s (heldOf s)) (hq : s.quiet = true) :
    Inv (readMid s now ticks).1 (heldOf (readMid s now ticks).1) ∧ (readMid s now ticks).1.quiet = false := by
  unfold readMid
  have h2 := readQueues_inv hc s.sessions s now ticks [] (by simpa [heldOf] using h) hq
  generalize readQueues s s.sessions now ticks = r2 at h2
  obtain ⟨s2, qs, o2⟩ := r2
  simp only [List.append_nil] at h2 ⊢
  have h3 : Inv { s2 with sessions := qs, quiet := false } (heldOf { s2 with sessions := qs, quiet := false }) :=
    hc.leaveFiles s2 _ qs h2.1
  cases o2 with
  | hang => exact ⟨h3, rfl⟩
  | pkt a b c d => exact ⟨h3, rfl⟩
  | fdt a b c => exact ⟨h3, rfl⟩
  | none => exact readTail_inv hc _ now h3 rfl

theorem read_inv (hc : Closed0 Inv) (s : State) (now : Nat) (ticks : List (Nat × Nat))
    (h : Inv s (heldOf s)) (hq : s.quiet = false) :
    Inv (read s now ticks).1 (heldOf (read s now ticks).1) ∧ (read s now ticks).1.quiet = false := by
  unfold read
  have h0 : Inv (emit s (.opRead now)) (heldOf s) := hc.emitRead s _ now trivial h hq
  have h1 := runFdt_inv hc runFuel _ now _ h0 hq
  have e1 := runFdt_sessions runFuel (emit s (.opRead now)) now
  generalize hr1 : runFdt runFuel (emit s (.opRead now)) now = r1 at h1 e1
  obtain ⟨s1, o1⟩ := r1
  simp only [emit_sessions] at e1 h1
  have fin : Inv s1 (heldOf s1) := by simpa [heldOf, e1] using h1.1
  cases o1 with
  | hang => exact ⟨fin, h1.2⟩
  | pkt a b c d => exact ⟨fin, h1.2⟩
  | fdt a b c => exact ⟨fin, h1.2⟩
  | none =>
    have q := runFdt_none runFuel (emit s (.opRead now)) now s1 hr1
    exact readMid_inv hc _ now ticks (hc.enterFiles s1 _ now trivial fin h1.2 q) rfl

/-! ### operation histories -/

theorem step_inv (hc : Closed0 Inv) (ho : ClosedOps0 Inv) (s : State) (op : Op)
    (h : Inv s (heldOf s)) (hq : s.quiet = false) :
    Inv (step s op) (heldOf (step s op)) ∧ (step s op).quiet = false := by
  cases op with
  | add a =>
    have : heldOf (addObject s a).1 = heldOf s ∧ (addObject s a).1.quiet = s.quiet := by
      unfold addObject heldOf; simp only []; split
      · exact ⟨rfl, rfl⟩
      · split <;> exact ⟨rfl, rfl⟩
    show Inv (addObject s a).1 (heldOf (addObject s a).1) ∧ _
    rw [this.1]; exact ⟨ho.add s _ a trivial h, by show (addObject s a).1.quiet = false; rw [this.2, hq]⟩
  | publish now =>
    show Inv (publishOp s now) (heldOf (publishOp s now)) ∧ _
    have : heldOf (publishOp s now) = heldOf s := by
      unfold heldOf publishOp; rw [publishTry_sessions]; rfl
    rw [this]
    exact ⟨ho.publishOp s _ now trivial h, by
      show (publishTry (emit s (.opPublish now)) now).quiet = false
      rw [publishTry_quiet]; exact hq⟩
  | remove t =>
    have : heldOf (removeObject s t).1 = heldOf s ∧ (removeObject s t).1.quiet = s.quiet := by
      unfold removeObject heldOf; split <;> exact ⟨rfl, rfl⟩
    show Inv (removeObject s t).1 (heldOf (removeObject s t).1) ∧ _
    rw [this.1]; exact ⟨ho.remove s _ t trivial h, by show (removeObject s t).1.quiet = false; rw [this.2, hq]⟩
  | trigger t ts =>
    have : heldOf (triggerTransferAt s t ts).1 = heldOf s ∧ (triggerTransferAt s t ts).1.quiet = s.quiet := by
      unfold triggerTransferAt heldOf; split
      · exact ⟨rfl, rfl⟩
      · split <;> exact ⟨rfl, rfl⟩
    show Inv (triggerTransferAt s t ts).1 (heldOf (triggerTransferAt s t ts).1) ∧ _
    rw [this.1]
    exact ⟨ho.trigger s _ t ts trivial h, by show (triggerTransferAt s t ts).1.quiet = false; rw [this.2, hq]⟩
  | read now ticks => exact read_inv hc s now ticks h hq
  | setComplete => exact ⟨ho.complete s _ trivial h, hq⟩

theorem heldOf_init (cfg : Cfg) (tbl : List Nat) : heldOf (init cfg tbl) = [] := by
  simp only [heldOf, init, held]
  induction cfg.queues with
  | nil => rfl
  | cons q r ih =>
    simp only [List.map_cons, List.flatMap_cons, ih, List.append_nil]
    simp only [heldQ, heldSlots]
    generalize (if q.2 = 0 then 1 else q.2) = n
    induction n with
    | zero => rfl
    | succ m ihm => simp [List.replicate_succ, optHeld, ihm]

theorem run_inv (hc : Closed0 Inv) (ho : ClosedOps0 Inv) : ∀ (ops : List Op) (s : State),
    Inv s (heldOf s) → s.quiet = false → Inv (run s ops) (heldOf (run s ops)) ∧ (run s ops).quiet = false := by
  intro ops
  induction ops with
  | nil => intro s h hq; exact ⟨h, hq⟩
  | cons op rest ih =>
    intro s h hq
    have := step_inv hc ho s op h hq
    exact ih _ this.1 this.2

/-- a closed invariant that holds initially holds after every operation history -/
theorem inv_run (hc : Closed0 Inv) (ho : ClosedOps0 Inv) (cfg : Cfg) (tbl : List Nat)
    (h0 : Inv (init cfg tbl) []) (ops : List Op) :
    Inv (run (init cfg tbl) ops) (heldOf (run (init cfg tbl) ops)) :=
  (run_inv hc ho ops _ (by rw [heldOf_init]; exact h0) rfl).1

end Flute.Sched
