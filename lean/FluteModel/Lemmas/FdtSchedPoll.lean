import FluteModel.Lemmas.FdtSched
import FluteModel.Lemmas.SchedConst
/-
  `Sender::read` polls the FDT session first: a `read` call at which no FDT transfer is in progress and the current
  instance is due (`current_fdt_will_expire`) publishes the successor in that very call.
-/
namespace Flute.FdtSched
open Flute

/-- the number of published instances never decreases -/
def Mono (n : Nat) (s : Sched.State) (_L : Sched.Held) : Prop := n ≤ s.fdts.length

theorem len_publishTry (s : Sched.State) (now : Nat) : s.fdts.length ≤ (Sched.publishTry s now).fdts.length := by
  rcases Sched.publishTry_cases s now with e | e <;> rw [e]
  · rw [Sched.publish_fdts]; simp
  · exact Nat.le_refl _

theorem len_fdtPop (s : Sched.State) : (Sched.fdtPop s).fdts.length = s.fdts.length := by
  unfold Sched.fdtPop; split <;> rfl

theorem len_fdtAdvance (s : Sched.State) (now : Nat) : (Sched.fdtAdvance s now).fdts.length = s.fdts.length := by
  rcases Sched.fdtAdvance_cases s now with ⟨e, _⟩ | ⟨k, f, _, _, _, e⟩
  · rw [e]; exact len_fdtPop s
  · rw [e]
    show (Sched.updF (Sched.fdtPop s).fdts k _).length = _
    rw [Sched.length_updF]; exact len_fdtPop s

theorem len_transferDoneFile (s : Sched.State) (t now : Nat) : (Sched.transferDoneFile s t now).fdts.length = s.fdts.length := by
  rw [Sched.transferDoneFile_eq]
  split
  · rfl
  · split
    · split <;> rfl
    · rfl

theorem len_transferDoneFdt (s : Sched.State) (k now : Nat) : (Sched.transferDoneFdt s k now).fdts.length = s.fdts.length := by
  unfold Sched.transferDoneFdt; simp only [Sched.emit]; split
  · split <;> (simp only []; rw [Sched.length_updF])
  · simp only []; rw [Sched.length_updF]

theorem Mono.closed (n : Nat) : Sched.Closed0 (Mono n) where
  perm := fun _ _ _ _ h => h
  leaveFiles := fun _ _ _ h => h
  enterFiles := fun _ _ _ _ h _ _ => h
  emitRead := fun _ _ _ _ h _ => h
  emitIdle := fun _ _ _ _ h _ => h
  publish := fun s _ now _ h _ => by
    show n ≤ (Sched.publish s now).fdts.length
    rw [Sched.publish_fdts]; simp; exact Nat.le_succ_of_le h
  fdtAdvance := fun s _ now _ h _ _ => by
    show n ≤ (Sched.fdtAdvance s now).fdts.length
    rw [len_fdtAdvance]; exact h
  fileStart := fun s _ _ now tk t _ h _ _ => by
    show n ≤ (Sched.autoPublish (Sched.fileStartStep s t now tk) now).fdts.length
    unfold Sched.autoPublish
    split
    · exact Nat.le_trans (show n ≤ (Sched.fileStartStep s t now tk).fdts.length from h) (len_publishTry _ now)
    · exact h
  pkt := fun _ _ _ _ _ _ _ _ _ _ h _ _ _ _ _ => h
  done := fun s _ _ c now _ _ _ h _ _ _ => by
    show n ≤ (Sched.transferDoneFile s c.key now).fdts.length
    rw [len_transferDoneFile]; exact h
  fdtPkt := fun s _ c _ _ _ _ _ _ h _ _ _ _ _ => by
    show n ≤ (Sched.updF s.fdts c.key Sched.tickInfo).length
    rw [Sched.length_updF]; exact h
  fdtDone := fun s _ c _ now _ _ h _ _ _ _ _ => by
    show n ≤ (Sched.transferDoneFdt s c.key now).fdts.length
    rw [len_transferDoneFdt]; exact h

/-- with the FDT session idle, `SenderSession::run` starts with `get_next` -/
theorem runFdt_idle (n : Nat) (s : Sched.State) (now : Nat) (hs : s.fdtSess = none) :
    Sched.runFdt (n + 1) s now =
      (match (Sched.fdtGetNext s now).fdtSess with
       | none => (Sched.fdtGetNext s now, Sched.Out.none)
       | some _ => Sched.runFdt (n + 1) (Sched.fdtGetNext s now) now) := by
  conv => lhs; unfold Sched.runFdt
  simp only [hs]
  cases h2 : (Sched.fdtGetNext s now).fdtSess with
  | none => rfl
  | some c =>
    simp only
    conv => rhs; unfold Sched.runFdt
    simp only [h2]

/-- a due poll publishes -/
theorem fdtGetNext_due (s : Sched.State) (now : Nat) (hnb : Sched.fdtBusy s = false) (hfit : s.cfg.fdtFits = true)
    (hdue : Sched.currentFdtWillExpire s now = true) :
    (Sched.fdtGetNext s now).fdts.length = s.fdts.length + 1 := by
  unfold Sched.fdtGetNext
  simp only [hnb, Bool.false_eq_true, if_false]
  rw [len_fdtAdvance]
  unfold Sched.fdtMaybePublish Sched.publishTry
  simp only [hdue, hfit, if_true]
  rw [Sched.publish_fdts]; simp

/-- `read_due_republishes`: a `read()` at which the FDT session is idle (no FDT transfer in progress) and the current
    instance is due publishes its successor in that call -/
theorem read_due_republishes (s : Sched.State) (now : Nat) (ticks : List (Nat × Nat)) (hq : s.quiet = false)
    (hidle : s.fdtSess = none) (hnb : Sched.fdtBusy s = false) (hfit : s.cfg.fdtFits = true)
    (hdue : Sched.currentFdtWillExpire s now = true) :
    s.fdts.length + 1 ≤ (Sched.read s now ticks).1.fdts.length := by
  have hc := Mono.closed (s.fdts.length + 1)
  let s0 := Sched.emit s (.opRead now)
  have h0 : Mono (s.fdts.length + 1) (Sched.fdtGetNext s0 now) (Sched.heldOf (Sched.fdtGetNext s0 now)) := by
    show s.fdts.length + 1 ≤ (Sched.fdtGetNext s0 now).fdts.length
    rw [fdtGetNext_due s0 now hnb hfit hdue]
    exact Nat.le_refl _
  have hq2 : (Sched.fdtGetNext s0 now).quiet = false := by rw [Sched.fdtGetNext_quiet]; exact hq
  have hfirst : Mono (s.fdts.length + 1) (Sched.runFdt Sched.runFuel s0 now).1 (Sched.heldOf (Sched.fdtGetNext s0 now)) ∧
      (Sched.runFdt Sched.runFuel s0 now).1.quiet = false := by
    have e : Sched.runFdt Sched.runFuel s0 now = Sched.runFdt (3 + 1) s0 now := rfl
    rw [e, runFdt_idle 3 s0 now hidle]
    split
    · exact ⟨h0, hq2⟩
    · exact Sched.runFdt_inv hc _ _ _ _ h0 hq2
  unfold Sched.read
  generalize hr : Sched.runFdt Sched.runFuel (Sched.emit s (.opRead now)) now = r at hfirst
  obtain ⟨s1, o1⟩ := r
  cases o1 with
  | none =>
    simp only
    have hm : Mono (s.fdts.length + 1) { s1 with quiet := true } (Sched.heldOf { s1 with quiet := true }) := hfirst.1
    exact (Sched.readMid_inv hc _ now ticks hm rfl).1
  | hang => exact hfirst.1
  | pkt a b c d => exact hfirst.1
  | fdt a b c => exact hfirst.1

theorem willExpire_of_due (s : Sched.State) (now lp : Nat) (hq : s.fdtQueue = []) (hlp : s.lastPublish = some lp)
    (hd : s.cfg.fdtDuration > 30000000000) (hdue : lp + s.cfg.fdtDuration - 5000000000 < now) :
    Sched.currentFdtWillExpire s now = true := by
  unfold Sched.currentFdtWillExpire
  simp only [hq, List.isEmpty_nil, Bool.not_true, Bool.false_eq_true, if_false, hlp]
  cases s.curFdt with
  | none => rfl
  | some k =>
    have hle : 5000000000 ≤ s.cfg.fdtDuration := Nat.le_of_lt (Nat.lt_trans (by decide) hd)
    have hne : ¬ lp = now := Nat.ne_of_lt (Lemmas.FdtAbs.lt_of_due_aux _ _ _ _ hle hdue)
    simp only [hne, if_false, hd, if_true, decide_eq_true_eq]
    exact Lemmas.FdtAbs.sub_lt_sub_aux _ _ _ _ hle hdue

theorem run_quiet (S : Sched.Cfg) (tbl : List Nat) (ops : List Sched.Op) : (Sched.run (Sched.init S tbl) ops).quiet = false :=
  (Sched.run_inv Sched.Wf.closed Sched.Wf.closedOps ops _ (by rw [Sched.heldOf_init]; exact Sched.Wf.init S tbl) rfl).2

/-- in terms of what the application controls: after any history, a `read()` call made later than
    `last publish + fdt_duration - 5 s` (duration > 30 s) while no FDT instance is being transmitted or waiting publishes
    the successor in that call -/
theorem read_supersedes (S : Sched.Cfg) (tbl : List Nat) (ops : List Sched.Op) (now lp : Nat) (ticks : List (Nat × Nat))
    (hd : S.fdtDuration > 30000000000) (hfit : S.fdtFits = true)
    (hidle : (Sched.run (Sched.init S tbl) ops).fdtSess = none)
    (hq : (Sched.run (Sched.init S tbl) ops).fdtQueue = [])
    (hlp : (Sched.run (Sched.init S tbl) ops).lastPublish = some lp)
    (hdue : lp + S.fdtDuration - 5000000000 < now) :
    (Sched.run (Sched.init S tbl) ops).fdts.length + 1 ≤
      (Sched.run (Sched.init S tbl) (ops ++ [.read now ticks])).fdts.length := by
  have hcfg := (Sched.const_run S tbl ops).2
  have hw := Sched.wf_run S tbl ops
  have hrun : Sched.run (Sched.init S tbl) (ops ++ [.read now ticks]) =
      (Sched.read (Sched.run (Sched.init S tbl) ops) now ticks).1 := by
    simp [Sched.run, List.foldl_append, Sched.step]
  rw [hrun]
  exact read_due_republishes _ now ticks (run_quiet S tbl ops) hidle (hw.fdtSessNone hidle) (by rw [hcfg]; exact hfit)
    (willExpire_of_due _ now lp hq hlp (by rw [hcfg]; exact hd) (by rw [hcfg]; exact hdue))

end Flute.FdtSched
