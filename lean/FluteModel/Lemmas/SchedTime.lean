import FluteModel.Lemmas.SchedFlow
import FluteModel.Spec.Timing
/-
  C14 part of the scheduler invariant: per object, `TransferInfo`'s time fields mirror the specification
  monitor `Spec.Timing.TM` run over the log; `next_transfer_timestamp = start + sent * tick` (DESIGN §9 (vii)).
-/
namespace Flute.Sched
open Flute.Spec.Timing

structure TRel (L : Held) (toi : Nat) (f : FileDesc) (m : TM) : Prop where
  args : ∃ a, m.args = some a ∧ a.maxCount = f.maxCount ∧ a.carousel = f.carousel
  cfgStart : m.cfgStart = f.info.startTime
  lastStart : m.lastStart = f.info.lastStart
  lastEnd : m.lastEnd = f.info.lastEnd
  count : m.count = f.info.count
  endCount : f.info.transferring = false → m.lastEnd.isSome = true → 1 ≤ m.count
  cur : f.info.transferring = true →
    m.tick = f.info.tick ∧ ∀ pc ∈ L, pc.2.key = toi → m.sent = pc.2.enc.sent ∧
      ∀ tk, f.info.tick = some tk → f.info.nextTs = some (m.tStart + pc.2.enc.sent * tk)

structure TCore (f' f : FileDesc) : Prop where
  info : f'.info = f.info
  maxCount : f'.maxCount = f.maxCount
  carousel : f'.carousel = f.carousel

theorem TRel.of_same {L L' : Held} {toi : Nat} {f f' : FileDesc} {m : TM} (h : TRel L toi f m) (hc : TCore f' f)
    (hL : ∀ pc' ∈ L', pc'.2.key = toi → pc' ∈ L) : TRel L' toi f' m where
  args := by obtain ⟨a, h1, h2, h3⟩ := h.args; exact ⟨a, h1, by rw [hc.maxCount]; exact h2, by rw [hc.carousel]; exact h3⟩
  cfgStart := by rw [hc.info]; exact h.cfgStart
  lastStart := by rw [hc.info]; exact h.lastStart
  lastEnd := by rw [hc.info]; exact h.lastEnd
  count := by rw [hc.info]; exact h.count
  endCount := by rw [hc.info]; exact h.endCount
  cur := by
    rw [hc.info]
    intro ht
    obtain ⟨h1, h2⟩ := h.cur ht
    exact ⟨h1, fun pc hpc hk => h2 pc (hL pc hpc hk) hk⟩

structure TimeInv (s : State) (L : Held) : Prop where
  rel : ∀ toi f, getF s.objs toi = some f → TRel L toi f (TM.run toi s.log)
  unknown : ∀ toi, getF s.objs toi = none → TM.run toi s.log = {}
  checked : ∀ toi, TChecked toi s.log

def TNeutral : Ev → Prop
  | .opAdd .. => False
  | .opTrigger .. => False
  | .start .. => False
  | .pkt .. => False
  | .stop .. => False
  | _ => True

theorem trun_neutral {e : Ev} (h : TNeutral e) (toi : Nat) (l : List Ev) : TM.run toi (e :: l) = TM.run toi l := by
  cases e <;> first | rfl | exact absurd h (by simp [TNeutral])

theorem tchecked_neutral {e : Ev} (h : TNeutral e) (toi : Nat) {l : List Ev} (hl : TChecked toi l) :
    TChecked toi (e :: l) := by
  cases e <;> first | exact ⟨hl, trivial⟩ | exact absurd h (by simp [TNeutral])

def TCoreRel (s' s : State) : Prop :=
  ∀ toi, (getF s.objs toi = none → getF s'.objs toi = none) ∧
    (∀ f, getF s.objs toi = some f → ∃ f', getF s'.objs toi = some f' ∧ TCore f' f)

theorem TCoreRel.refl {s' s : State} (h : s'.objs = s.objs) : TCoreRel s' s := by
  intro toi; rw [h]; exact ⟨id, fun f hf => ⟨f, hf, ⟨rfl, rfl, rfl⟩⟩⟩

theorem TCoreRel.inv {s' s : State} (h : TCoreRel s' s) {toi : Nat} {f' : FileDesc}
    (hf' : getF s'.objs toi = some f') : ∃ f, getF s.objs toi = some f ∧ TCore f' f := by
  cases hf : getF s.objs toi with
  | none => rw [(h toi).1 hf] at hf'; cases hf'
  | some f =>
    obtain ⟨f'', h1, h2⟩ := (h toi).2 f hf
    rw [hf'] at h1; cases h1
    exact ⟨f, rfl, h2⟩

theorem TimeInv.of_same {s s' : State} {L L' : Held} (h : TimeInv s L)
    (hlog : ∀ toi, TM.run toi s'.log = TM.run toi s.log) (hchk : ∀ toi, TChecked toi s'.log)
    (hobjs : TCoreRel s' s) (hL : ∀ pc' ∈ L', pc' ∈ L) : TimeInv s' L' where
  rel := fun toi f' hf' => by
    obtain ⟨f, hf, hc⟩ := hobjs.inv hf'
    rw [hlog]
    exact (h.rel toi f hf).of_same hc (fun pc hpc _ => hL pc hpc)
  unknown := fun toi hn => by
    rw [hlog]
    cases hf : getF s.objs toi with
    | none => exact h.unknown toi hf
    | some f =>
      obtain ⟨f', h1, _⟩ := (hobjs toi).2 f hf
      rw [hn] at h1; cases h1
  checked := hchk

theorem TimeInv.neutral {s s' : State} {L L' : Held} {e : Ev} (h : TimeInv s L) (hn : TNeutral e)
    (hlog : s'.log = e :: s.log) (hobjs : TCoreRel s' s) (hL : ∀ pc' ∈ L', pc' ∈ L) : TimeInv s' L' :=
  h.of_same (fun toi => by rw [hlog]; exact trun_neutral hn toi _)
    (fun toi => by rw [hlog]; exact tchecked_neutral hn toi (h.checked toi)) hobjs hL

def tevAbout : Ev → Option Nat
  | .opAdd t _ _ => some t
  | .opTrigger t _ _ => some t
  | .start _ t _ _ => some t
  | .pkt _ _ t _ _ => some t
  | .stop _ t => some t
  | _ => none

theorem trun_other {e : Ev} {t0 toi : Nat} (he : tevAbout e = some t0) (hne : toi ≠ t0) (l : List Ev) :
    TM.run toi (e :: l) = TM.run toi l := by
  have hne' : ¬ t0 = toi := fun h => hne h.symm
  show TM.step toi _ e = _
  cases e with
  | opAdd t a ok => simp only [tevAbout, Option.some.injEq] at he; subst he; simp [TM.step, hne']
  | opTrigger t ts ap => simp only [tevAbout, Option.some.injEq] at he; subst he; simp [TM.step, hne']
  | start n t st tk => simp only [tevAbout, Option.some.injEq] at he; subst he; simp [TM.step, hne']
  | pkt n p t i b => simp only [tevAbout, Option.some.injEq] at he; subst he; simp [TM.step, hne']
  | stop n t => simp only [tevAbout, Option.some.injEq] at he; subst he; simp [TM.step, hne']
  | _ => simp [tevAbout] at he

theorem tchecked_other {e : Ev} {t0 toi : Nat} (he : tevAbout e = some t0) (hne : toi ≠ t0) {l : List Ev}
    (hl : TChecked toi l) : TChecked toi (e :: l) := by
  have hne' : ¬ t0 = toi := fun h => hne h.symm
  refine ⟨hl, ?_⟩
  cases e with
  | start n t st tk => simp only [tevAbout, Option.some.injEq] at he; subst he; intro h; exact absurd h hne'
  | pkt n p t i b => simp only [tevAbout, Option.some.injEq] at he; subst he; intro h; exact absurd h hne'
  | opAdd t a ok => trivial
  | opTrigger t ts ap => trivial
  | stop n t => trivial
  | _ => simp [tevAbout] at he

theorem TimeInv.about {s s' : State} {L L' : Held} {e : Ev} {t0 : Nat} (h : TimeInv s L)
    (he : tevAbout e = some t0) (hlog : s'.log = e :: s.log)
    (hobjs : ∀ toi, toi ≠ t0 → getF s'.objs toi = getF s.objs toi)
    (hL : ∀ pc' ∈ L', pc'.2.key ≠ t0 → pc' ∈ L)
    (hself : ∀ f', getF s'.objs t0 = some f' → TRel L' t0 f' (TM.run t0 s'.log))
    (hselfNone : getF s'.objs t0 = none → TM.run t0 s'.log = {})
    (hselfChk : TM.check t0 (TM.run t0 s.log) e) : TimeInv s' L' where
  rel := fun toi f' hf' => by
    by_cases hne : toi = t0
    · subst hne; exact hself f' hf'
    · rw [hobjs toi hne] at hf'
      rw [hlog, trun_other he hne]
      exact (h.rel toi f' hf').of_same ⟨rfl, rfl, rfl⟩ (fun pc hpc hk => hL pc hpc (by rw [hk]; exact hne))
  unknown := fun toi hn => by
    by_cases hne : toi = t0
    · subst hne; exact hselfNone hn
    · rw [hobjs toi hne] at hn
      rw [hlog, trun_other he hne]; exact h.unknown toi hn
  checked := fun toi => by
    rw [hlog]
    by_cases hne : toi = t0
    · subst hne; exact ⟨h.checked toi, hselfChk⟩
    · exact tchecked_other he hne (h.checked toi)

theorem pubMark_tcore (fs : List Nat) (f : FileDesc) : TCore (pubMark fs f) f := by
  unfold pubMark; split
  · exact ⟨rfl, rfl, rfl⟩
  · exact ⟨rfl, rfl, rfl⟩

theorem TimeInv.ofPublish {s : State} {L : Held} (now : Nat) (h : TimeInv s L) : TimeInv (publish s now) L := by
  have hcr : TCoreRel (publish s now) s := by
    intro toi
    rw [publish_getF_objs]
    constructor
    · intro hn; rw [hn]; rfl
    · intro f hf; exact ⟨pubMark s.files f, by rw [hf]; rfl, pubMark_tcore _ f⟩
  exact h.neutral (e := Ev.pub now s.fdts.length (pubDesc s).content) trivial rfl hcr (fun pc hpc => hpc)

theorem TimeInv.ofEmit {s : State} {L : Held} {e : Ev} (hn : TNeutral e) (h : TimeInv s L) : TimeInv (emit s e) L :=
  h.neutral hn rfl (TCoreRel.refl rfl) (fun pc hpc => hpc)

theorem TimeInv.ofFdtAdvance {s : State} {L : Held} (now : Nat) (h : TimeInv s L) : TimeInv (fdtAdvance s now) L := by
  have h1 : TimeInv (fdtPop s) L :=
    h.of_same (fun toi => by rw [fdtPop_log]) (fun toi => by rw [fdtPop_log]; exact h.checked toi)
      (TCoreRel.refl (fdtPop_objs s)) (fun pc hpc => hpc)
  rcases fdtAdvance_cases s now with ⟨e, _⟩ | ⟨k, f, _, _, _, e⟩
  · rw [e]; exact h1
  · rw [e]
    exact h1.neutral (e := Ev.fdtStart now k) trivial rfl (TCoreRel.refl rfl) (fun pc hpc => hpc)

theorem TimeInv.ofFdtDone {s : State} {L : Held} (k now : Nat) (h : TimeInv s L) : TimeInv (fdtRelease s k now) L :=
  h.neutral (e := Ev.fdtStop now k) trivial (by unfold fdtRelease; exact transferDoneFdt_log s k now)
    (TCoreRel.refl (by unfold fdtRelease; exact transferDoneFdt_objs s k now)) (fun pc hpc => hpc)

theorem shouldTransferNow_gap {f : FileDesc} {prio now : Nat} {mode : Mode}
    (h : shouldTransferNow f prio mode now = true) (hm : ¬ f.maxCount > f.info.count) : gapElapsed f now = true := by
  unfold shouldTransferNow at h
  by_cases h1 : (f.prio != prio) = true
  · rw [if_pos h1] at h; cases h
  · rw [if_neg h1] at h
    by_cases h2 : (mode == Mode.full && !f.published) = true
    · rw [if_pos h2] at h; cases h
    · rw [if_neg h2] at h
      by_cases h3 : beforeStart f now = true
      · rw [if_pos h3] at h; cases h
      · rw [if_neg h3] at h
        by_cases h4 : f.info.transferring = true
        · rw [if_pos h4] at h; cases h
        · rw [if_neg h4] at h
          rw [if_neg hm] at h
          exact h

theorem TimeInv.ofFileStartStep {s : State} {L : Held} {prio now t : Nat} (tk : Nat) (c : Cur)
    (hck : c.key = t) (hc0 : c.enc.sent = 0)
    (hw : Wf s L) (h : TimeInv s L) (hfn : findNext s prio now s.queue = some t) :
    TimeInv (fileStartStep s t now tk) ((prio, c) :: L) := by
  obtain ⟨pre, post, hq, _, g, hg, hst⟩ := findNext_spec s prio now s.queue t hfn
  obtain ⟨_, hgt, _, hstart⟩ := shouldTransferNow_true hst
  have hkey : ∀ f : FileDesc, (transferInit f now tk).key = f.key := fun _ => rfl
  have hget : ∀ k, getF (fileStartStep s t now tk).objs k =
      if k = t then (getF s.objs k).map (fun g => transferInit g now tk) else getF s.objs k :=
    fun k => getF_updF _ _ _ _ hkey
  have hne : ∀ pc ∈ L, pc.2.key ≠ t := by
    intro pc hpc e
    obtain ⟨g', hg', hgt', _⟩ := hw.heldObj pc hpc
    rw [e, hg] at hg'; cases hg'
    rw [hgt] at hgt'; cases hgt'
  have r := h.rel t g hg
  obtain ⟨a, ha1, ha2, ha3⟩ := r.args
  have hself : getF (fileStartStep s t now tk).objs t = some (transferInit g now tk) := by
    rw [hget, if_pos rfl, hg]; rfl
  have hmc : maxCountOf (TM.run t s.log) = g.maxCount := by unfold maxCountOf; rw [ha1]; exact ha2
  have hcar : carouselOf (TM.run t s.log) = g.carousel := by unfold carouselOf; rw [ha1]; exact ha3
  have hlog : (fileStartStep s t now tk).log =
      Ev.start now t g.info.startTime (if wantsTick g then some tk else none) :: s.log := by
    show Ev.start now t _ _ :: s.log = _
    rw [hg]
  have hrun : TM.run t (fileStartStep s t now tk).log =
      { TM.run t s.log with
        count := if (TM.run t s.log).count = g.maxCount ∧ g.carousel.isSome then 0 else (TM.run t s.log).count
        lastStart := some now, tStart := now, tick := (if wantsTick g then some tk else none), sent := 0 } := by
    rw [hlog]
    show TM.step t (TM.run t s.log) _ = _
    simp [TM.step, hmc, hcar]
  refine h.about (e := Ev.start now t g.info.startTime (if wantsTick g then some tk else none)) (t0 := t) rfl hlog
    (fun toi hn => by rw [hget, if_neg hn])
    (fun pc' hpc' hk => by
      rcases List.mem_cons.mp hpc' with rfl | hpc'
      · exact absurd hck hk
      · exact hpc')
    ?_ (fun hn => by rw [hself] at hn; cases hn) ?_
  · intro f' hf'
    rw [hself] at hf'; cases hf'
    rw [hrun]
    exact
    { args := ⟨a, ha1, ha2, ha3⟩
      cfgStart := r.cfgStart
      lastStart := rfl
      lastEnd := r.lastEnd
      count := by
        show (if (TM.run t s.log).count = g.maxCount ∧ g.carousel.isSome then 0 else (TM.run t s.log).count) =
          (if g.info.count == g.maxCount && g.carousel.isSome then 0 else g.info.count)
        rw [r.count]
        by_cases hx : g.info.count = g.maxCount ∧ g.carousel.isSome = true
        · rw [if_pos hx]; simp [hx.1, hx.2]
        · rw [if_neg hx]
          have : ¬ ((g.info.count == g.maxCount && g.carousel.isSome) = true) := by
            simpa using hx
          rw [if_neg this]
      endCount := fun ht => by cases ht
      cur := fun _ => by
        refine ⟨rfl, fun pc hpc hk => ?_⟩
        rcases List.mem_cons.mp hpc with rfl | hpc
        · refine ⟨hc0.symm, fun tk' htk => ?_⟩
          have htk' : (if wantsTick g then some tk else none : Option Nat) = some tk' := htk
          show (if (if wantsTick g then some tk else none : Option Nat).isSome then some now else g.info.nextTs) = _
          rw [htk', hc0]; simp
        · exact absurd hk (hne pc hpc) }
  · intro _
    refine ⟨r.cfgStart.symm, fun x hx => hstart x (by rw [← r.cfgStart]; exact hx), ?_⟩
    refine ⟨?_, r.endCount hgt⟩
    intro hm
    rw [hmc, r.count] at hm
    have hgap := shouldTransferNow_gap hst hm
    unfold GapOk
    rw [hcar, r.lastEnd, r.lastStart]
    unfold gapElapsed at hgap
    split at hgap <;> simp_all

theorem TimeInv.ofFileStart' {s : State} {L : Held} {prio now t : Nat} (tk : Nat) (c : Cur)
    (hck : c.key = t) (hc0 : c.enc.sent = 0)
    (hw : Wf s L) (h : TimeInv s L) (hfn : findNext s prio now s.queue = some t) :
    TimeInv (autoPublish (fileStartStep s t now tk) now) ((prio, c) :: L) := by
  have h1 := TimeInv.ofFileStartStep tk c hck hc0 hw h hfn
  unfold autoPublish
  split
  · exact publishTry_elim (P := fun x => TimeInv x ((prio, c) :: L)) _ now (h1.ofPublish now) h1
  · exact h1

theorem TimeInv.ofPkt {s : State} {L : Held} {prio : Nat} {c : Cur} {f : FileDesc} {now idx : Nat} {b : Bool} {e : Enc}
    {force : Bool}
    (hw : Wf s ((prio, c) :: L)) (h : TimeInv s ((prio, c) :: L)) (hf : getF s.objs c.key = some f)
    (hg : gateBlocked f now = false) (he : encRead f.nSym c.enc force = (some (idx, b), e)) :
    TimeInv (pktStep s prio c.key now idx b) ((prio, { c with enc := e }) :: L) := by
  obtain ⟨_, e2, _, e4, _, _⟩ := encRead_some he
  obtain ⟨f0, hf0, htr, _⟩ := hw.heldObj (prio, c) List.mem_cons_self
  rw [hf] at hf0; cases hf0
  have r := h.rel c.key f hf
  obtain ⟨a, ha1, ha2, ha3⟩ := r.args
  obtain ⟨htick, hcur⟩ := r.cur htr
  obtain ⟨hsent, hnext⟩ := hcur (prio, c) List.mem_cons_self rfl
  have hnd := hw.heldNodup
  simp only [List.map_cons, List.nodup_cons] at hnd
  have hne : ∀ pc ∈ L, pc.2.key ≠ c.key := fun pc hpc e => hnd.1 (List.mem_map.mpr ⟨pc, hpc, e⟩)
  have hkey : ∀ g : FileDesc, (tickInfo g).key = g.key := fun _ => rfl
  have hget : ∀ k, getF (pktStep s prio c.key now idx b).objs k =
      if k = c.key then (getF s.objs k).map tickInfo else getF s.objs k :=
    fun k => getF_updF _ _ _ _ hkey
  have hself : getF (pktStep s prio c.key now idx b).objs c.key = some (tickInfo f) := by
    rw [hget, if_pos rfl, hf]; rfl
  have hrun : TM.run c.key (pktStep s prio c.key now idx b).log =
      { TM.run c.key s.log with sent := (TM.run c.key s.log).sent + 1 } := by
    show TM.step c.key (TM.run c.key s.log) (Ev.pkt now prio c.key idx b) = _
    simp [TM.step]
  refine h.about (e := Ev.pkt now prio c.key idx b) (t0 := c.key) rfl rfl
    (fun toi hn => by rw [hget, if_neg hn])
    (fun pc' hpc' hk => by
      rcases List.mem_cons.mp hpc' with rfl | hpc'
      · exact absurd rfl hk
      · exact List.mem_cons_of_mem _ hpc')
    ?_ (fun hn => by rw [hself] at hn; cases hn) ?_
  · intro f' hf'
    rw [hself] at hf'; cases hf'
    rw [hrun]
    -- what `tick()` does to the descriptor
    cases htk : f.info.tick with
    | none =>
      have hti : tickInfo f = f := by
        unfold tickInfo FileDesc.updInfo; simp only [htk]
      rw [hti]
      exact
      { args := ⟨a, ha1, ha2, ha3⟩, cfgStart := r.cfgStart, lastStart := r.lastStart, lastEnd := r.lastEnd
        count := r.count
        endCount := fun ht => by rw [htr] at ht; cases ht
        cur := fun _ => by
          refine ⟨htick, fun pc hpc hk => ?_⟩
          rcases List.mem_cons.mp hpc with rfl | hpc
          · refine ⟨by show (TM.run c.key s.log).sent + 1 = e.sent; rw [e4, hsent], fun tk' h' => ?_⟩
            rw [htk] at h'; cases h'
          · exact absurd hk (hne pc hpc) }
    | some tk =>
      have hn := hnext tk htk
      have hti : tickInfo f = { f with info := { f.info with nextTs := some ((TM.run c.key s.log).tStart + c.enc.sent * tk + tk) } } := by
        unfold tickInfo FileDesc.updInfo; simp only [htk, hn]
      rw [hti]
      exact
      { args := ⟨a, ha1, ha2, ha3⟩, cfgStart := r.cfgStart, lastStart := r.lastStart, lastEnd := r.lastEnd
        count := r.count
        endCount := fun ht => by
          have : f.info.transferring = false := ht
          rw [htr] at this; cases this
        cur := fun _ => by
          refine ⟨htick, fun pc hpc hk => ?_⟩
          rcases List.mem_cons.mp hpc with rfl | hpc
          · refine ⟨by show (TM.run c.key s.log).sent + 1 = e.sent; rw [e4, hsent], fun tk' h' => ?_⟩
            have h'' : f.info.tick = some tk' := h'
            rw [htk] at h''; cases h''
            show some ((TM.run c.key s.log).tStart + c.enc.sent * tk + tk) = some (_ + e.sent * tk)
            rw [e4, Nat.succ_mul, Nat.add_assoc]
          · exact absurd hk (hne pc hpc) }
  · -- pacing: the gate was open
    intro _ tk htk
    rw [htick] at htk
    have hn := hnext tk htk
    unfold gateBlocked at hg
    rw [hn] at hg
    simp only [decide_eq_false_iff_not, Nat.not_lt] at hg
    rw [e2]; exact hg

theorem doneInfo_trel {L : Held} {toi : Nat} {f : FileDesc} {m : TM} (now : Nat) (r : TRel L toi f m) (L' : Held) :
    TRel L' toi (transferDoneInfo f now) { m with lastEnd := some now, count := m.count + 1 } where
  args := r.args
  cfgStart := r.cfgStart
  lastStart := r.lastStart
  lastEnd := rfl
  count := by show m.count + 1 = f.info.count + 1; rw [r.count]
  endCount := fun _ _ => Nat.succ_le_succ (Nat.zero_le _)
  cur := fun ht => by cases ht

theorem TimeInv.ofDone {s : State} {L : Held} {prio : Nat} {c : Cur} {f : FileDesc} (now : Nat)
    (h : TimeInv s ((prio, c) :: L)) (hf : getF s.objs c.key = some f) :
    TimeInv (transferDoneFile s c.key now) L := by
  have hkey : ∀ g : FileDesc, (transferDoneInfo g now).key = g.key := fun _ => rfl
  have hget : ∀ k, getF (transferDoneFile s c.key now).objs k =
      if k = c.key then (getF s.objs k).map (fun g => transferDoneInfo g now) else getF s.objs k := by
    intro k; rw [transferDoneFile_objs]; exact getF_updF _ _ _ _ hkey
  have hself : getF (transferDoneFile s c.key now).objs c.key = some (transferDoneInfo f now) := by
    rw [hget, if_pos rfl, hf]; rfl
  have hrun : TM.run c.key (transferDoneFile s c.key now).log =
      { TM.run c.key s.log with lastEnd := some now, count := (TM.run c.key s.log).count + 1 } := by
    rw [transferDoneFile_log]
    show TM.step c.key (TM.run c.key s.log) (Ev.stop now c.key) = _
    simp [TM.step]
  refine h.about (e := Ev.stop now c.key) (t0 := c.key) rfl (transferDoneFile_log s c.key now)
    (fun toi hn => by rw [hget, if_neg hn]) (fun pc' hpc' _ => List.mem_cons_of_mem _ hpc')
    ?_ (fun hn => by rw [hself] at hn; cases hn) trivial
  intro f' hf'
  rw [hself] at hf'; cases hf'
  rw [hrun]
  exact doneInfo_trel now (h.rel c.key f hf) L

theorem trun_false_add (t toi : Nat) (a : AddArgs) (l : List Ev) :
    TM.run t (Ev.opAdd toi a false :: l) = TM.run t l := by
  show TM.step t _ _ = _; simp [TM.step]

theorem trun_false_trigger (t toi : Nat) (ts : Option Nat) (l : List Ev) :
    TM.run t (Ev.opTrigger toi ts false :: l) = TM.run t l := by
  show TM.step t _ _ = _; simp [TM.step]

theorem TimeInv.ofAdd {s : State} {L : Held} (a : AddArgs) (hw : Wf s L) (h : TimeInv s L) :
    TimeInv (addObject s a).1 L := by
  have hfail : TimeInv (emit { s with nextToi := s.nextToi + 1 } (Ev.opAdd s.nextToi a false)) L :=
    h.of_same (fun t => trun_false_add t _ a _) (fun t => ⟨h.checked t, trivial⟩) (TCoreRel.refl rfl)
      (fun pc hpc => hpc)
  unfold addObject
  simp only []
  split
  · exact hfail
  · split
    · exact hfail
    · have hnone : getF s.objs s.nextToi = none :=
        getF_none_of_keys (fun f hf => Nat.ne_of_lt (hw.objKeys f hf).2.2)
      have hm := h.unknown s.nextToi hnone
      refine h.about (e := Ev.opAdd s.nextToi a true) (t0 := s.nextToi) rfl rfl ?_ (fun pc hpc _ => hpc) ?_ ?_ trivial
      · intro toi hn
        show getF (s.objs ++ [_]) toi = _
        cases hg : getF s.objs toi with
        | some g => exact getF_append_some hg
        | none =>
          rw [getF_append_none hg, getF_single]
          rw [if_neg (fun e => hn e.symm)]
      · intro f' hf'
        have hg : getF (s.objs ++ [_]) s.nextToi = some f' := hf'
        rw [getF_append_none hnone, getF_single] at hg
        simp only [if_true] at hg
        cases hg
        have hrun : TM.run s.nextToi (Ev.opAdd s.nextToi a true :: s.log) = { args := some a, cfgStart := a.start } := by
          show TM.step s.nextToi (TM.run s.nextToi s.log) _ = _
          rw [hm]; simp [TM.step]
        show TRel L s.nextToi _ (TM.run s.nextToi (Ev.opAdd s.nextToi a true :: s.log))
        rw [hrun]
        exact
        { args := ⟨a, rfl, rfl, rfl⟩, cfgStart := rfl, lastStart := rfl, lastEnd := rfl, count := rfl
          endCount := fun _ h => by cases h
          cur := fun ht => by cases ht }
      · intro hn
        have hg : getF (s.objs ++ [_]) s.nextToi = none := hn
        rw [getF_append_none hnone, getF_single] at hg
        simp at hg

theorem TimeInv.ofTrigger {s : State} {L : Held} (t : Nat) (ts : Option Nat) (hl : LifeInv s L) (h : TimeInv s L) :
    TimeInv (triggerTransferAt s t ts).1 L := by
  have hnoop : TimeInv (emit s (Ev.opTrigger t ts false)) L :=
    h.of_same (fun t' => trun_false_trigger t' t ts _) (fun t' => ⟨h.checked t', trivial⟩) (TCoreRel.refl rfl)
      (fun pc hpc => hpc)
  unfold triggerTransferAt
  split
  · exact hnoop
  · rename_i hcont
    split
    · exact hnoop
    · rename_i htr
      have hin : t ∈ s.files := by
        have : s.files.contains t = true := by simpa using hcont
        simpa using this
      obtain ⟨f, hf⟩ := hl.filesObj t hin
      have hft : f.info.transferring = false := by
        unfold isTransferring at htr; rw [hf] at htr; simpa using htr
      have hkey : ∀ g : FileDesc, (resetLastTransfer g ts).key = g.key := fun _ => rfl
      have r := h.rel t f hf
      refine h.about (e := Ev.opTrigger t ts true) (t0 := t) rfl rfl
        (fun toi hn => by
          show getF (updF s.objs t _) toi = _
          rw [getF_updF _ _ _ _ hkey, if_neg hn])
        (fun pc hpc _ => hpc) ?_ ?_ trivial
      · intro f' hf'
        have hg : getF (updF s.objs t (fun g => resetLastTransfer g ts)) t = some f' := hf'
        rw [getF_updF _ _ _ _ hkey, if_pos rfl, hf] at hg
        simp only [Option.map_some, Option.some.injEq] at hg
        subst hg
        have hrun : TM.run t (Ev.opTrigger t ts true :: s.log) =
            { TM.run t s.log with lastStart := none, lastEnd := none,
                                  cfgStart := if ts.isSome then ts else (TM.run t s.log).cfgStart } := by
          show TM.step t (TM.run t s.log) _ = _; simp [TM.step]
        show TRel L t _ (TM.run t (Ev.opTrigger t ts true :: s.log))
        rw [hrun]
        exact
        { args := r.args
          cfgStart := by
            show (if ts.isSome then ts else (TM.run t s.log).cfgStart) = (if ts.isSome then ts else f.info.startTime)
            rw [r.cfgStart]
          lastStart := rfl, lastEnd := rfl, count := r.count
          endCount := fun _ h => by cases h
          cur := fun ht => by
            have : f.info.transferring = true := ht
            rw [hft] at this; cases this }
      · intro hn
        have hg : getF (updF s.objs t (fun g => resetLastTransfer g ts)) t = none := hn
        rw [getF_updF _ _ _ _ hkey, if_pos rfl, hf] at hg
        cases hg

theorem TimeInv.closed : Closed (And2 Wf LifeInv) TimeInv where
  perm := fun _ _ _ p h =>
    h.of_same (fun _ => rfl) h.checked (TCoreRel.refl rfl) (fun pc hpc => p.mem_iff.mpr hpc)
  leaveFiles := fun _ _ _ h => h.of_same (fun _ => rfl) h.checked (TCoreRel.refl rfl) (fun pc hpc => hpc)
  enterFiles := fun _ _ _ _ h _ _ => h.of_same (fun _ => rfl) h.checked (TCoreRel.refl rfl) (fun pc hpc => hpc)
  emitRead := fun _ _ _ _ h _ => h.ofEmit trivial
  emitIdle := fun _ _ _ _ h _ => h.ofEmit trivial
  publish := fun _ _ now _ h _ => h.ofPublish now
  fdtAdvance := fun _ _ now _ h _ _ => h.ofFdtAdvance now
  fileStart := fun _ _ _ _ tk _ hb h _ hfn => TimeInv.ofFileStart' tk _ rfl rfl hb.1 h hfn
  pkt := fun _ _ _ _ _ _ _ _ _ hb h _ hf _ hg he => h.ofPkt hb.1 hf hg he
  done := fun _ _ _ _ now _ _ _ h _ hf _ => h.ofDone now hf
  fdtPkt := fun _ _ c f now idx _ e _ h _ _ _ _ _ =>
    h.neutral (e := Ev.fdt now c.key f.fdtId idx) trivial rfl (TCoreRel.refl rfl) (fun pc hpc => hpc)
  fdtDone := fun _ _ c _ now _ _ h _ _ _ _ _ => h.ofFdtDone c.key now

theorem TimeInv.closedOps : ClosedOps (And2 Wf LifeInv) TimeInv where
  add := fun _ _ a hb h => h.ofAdd a hb.1
  remove := fun s _ t _ h => by
    unfold removeObject
    split
    · exact h.ofEmit trivial
    · exact h.neutral (e := Ev.opRemove t true) trivial rfl (TCoreRel.refl rfl) (fun pc hpc => hpc)
  trigger := fun _ _ t ts hb h => h.ofTrigger t ts hb.2
  publishOp := fun s L now _ h =>
    publishTry_elim (P := fun x => TimeInv x L) _ now ((h.ofEmit (e := Ev.opPublish now) trivial).ofPublish now)
      (h.ofEmit trivial)
  complete := fun _ _ _ h => h.of_same (fun _ => rfl) h.checked (TCoreRel.refl rfl) (fun pc hpc => hpc)

theorem TimeInv.init (cfg : Cfg) (tbl : List Nat) : TimeInv (Sched.init cfg tbl) [] where
  rel := fun toi f hf => by simp [Sched.init, getF] at hf
  unknown := fun _ _ => rfl
  checked := fun _ => trivial

theorem time_run (cfg : Cfg) (tbl : List Nat) (ops : List Op) :
    TimeInv (run (Sched.init cfg tbl) ops) (heldOf (run (Sched.init cfg tbl) ops)) :=
  (inv_run (Closed.and (Closed.and Wf.closed LifeInv.closed) TimeInv.closed)
    (ClosedOps.and (ClosedOps.and Wf.closedOps LifeInv.closedOps) TimeInv.closedOps) cfg tbl
    ⟨⟨Wf.init cfg tbl, LifeInv.init cfg tbl⟩, TimeInv.init cfg tbl⟩ ops).2

theorem tchecked_at {toi : Nat} : ∀ (post : List Ev) (e : Ev) (pre : List Ev),
    TChecked toi (post ++ e :: pre) → TM.check toi (TM.run toi pre) e := by
  intro post
  induction post with
  | nil => intro e pre h; exact h.2
  | cons x r ih => intro e pre h; exact ih e pre h.1

end Flute.Sched
