import FluteModel.Lemmas.BencPsi
import FluteModel.Lemmas.BencNoPanic
/-
  The glue `SenderSession::run` / `FileDesc` / `Fdt::transfer_done` for one object (buffer source, non-empty):
  the encoder a session holds was created with `closabled_object = is_last_transfer` and is a genuine run, so the
  block-encoder theorems apply to every packet `Sender::read` returns for the object.
-/
namespace Flute.BencSession
open Flute Flute.Fec Flute.BlockEnc Flute.BencArith Flute.BencBlocks Flute.BencInv Flute.BencTrace Flute.BencShape Flute.BencPsi

/-- a session over the non-empty object `c` held in a buffer -/
structure SGood (c : Bytes) (aL aS nL n : Nat) (x : Session) : Prop where
  src : x.src = .buffer c
  notLegacy : x.P.legacy = false
  e_pos : 0 < x.P.e
  b_pos : 0 < x.P.b
  len_eq : x.P.len = c.length
  l_pos : 0 < c.length
  window_pos : 1 ≤ x.P.window
  part : Partition.blockPartitioning x.P.b x.P.len x.P.e = .ok (aL, aS, nL, n)
  accepts : Accepts x.P c aL aS nL n
  symLe : SymLe x.P.codec
  enc : ∀ e, x.enc = some e → ∃ tr, Run x.P c aL aS nL n x.isLastTransfer tr e
  /-- while a transfer runs the object is out of the queue -/
  nq : x.enc.isSome = true → x.queued = false

variable {c : Bytes} {aL aS nL n : Nat}

theorem sgood_of_eq {x z : Session} (hg : SGood c aL aS nL n x) (h1 : z.src = .buffer c) (h2 : z.P = x.P)
    (h3 : ∀ e, z.enc = some e → ∃ tr, Run z.P c aL aS nL n z.isLastTransfer tr e)
    (h4 : z.enc.isSome = true → z.queued = false) : SGood c aL aS nL n z :=
  ⟨h1, by rw [h2]; exact hg.notLegacy, by rw [h2]; exact hg.e_pos, by rw [h2]; exact hg.b_pos,
    by rw [h2]; exact hg.len_eq, hg.l_pos, by rw [h2]; exact hg.window_pos, by rw [h2]; exact hg.part,
    by rw [h2]; exact hg.accepts, by rw [h2]; exact hg.symLe, h3, h4⟩

theorem start_fields (x : Session) : x.start.P = x.P ∧ x.start.src = x.src := by
  unfold Session.start; simp only; split <;> exact ⟨rfl, rfl⟩

theorem start_queued (x : Session) : x.start.queued = false := by
  unfold Session.start; simp only; split <;> rfl

/-- `get_next` keeps the session good: a new encoder is a fresh genuine run with `closabled_object = is_last_transfer` -/
theorem getNext_good {x y : Session} (hg : SGood c aL aS nL n x) (h : x.getNext = .ok y) : SGood c aL aS nL n y := by
  unfold Session.getNext at h
  cases henc : x.enc with
  | some e => simp only [henc] at h; cases h; exact hg
  | none =>
    simp only [henc] at h
    by_cases hq : (x.queued && x.shouldTransferNow) = true
    · simp only [hq, if_true] at h
      cases hnew : Enc.new x.start.P x.start.src x.start.isLastTransfer with
      | error w => rw [hnew] at h; cases h
      | ok e =>
        rw [hnew] at h
        simp only [Except.ok.injEq] at h
        subst h
        obtain ⟨hP, hsrc⟩ := start_fields x
        have hsrc' : x.start.src = .buffer c := by rw [hsrc]; exact hg.src
        refine sgood_of_eq hg hsrc' hP ?_ (fun _ => start_queued x)
        intro e2 he2
        simp only [Option.some.injEq] at he2
        subst he2
        rw [hsrc'] at hnew
        refine ⟨[], ?_⟩
        show Run x.start.P c aL aS nL n x.start.isLastTransfer [] e
        exact ⟨by rw [hP]; exact hg.notLegacy, by rw [hP]; exact hg.e_pos, by rw [hP]; exact hg.b_pos,
          by rw [hP]; exact hg.len_eq, hg.l_pos, by rw [hP]; exact hg.window_pos, by rw [hP]; exact hg.part,
          by rw [hP]; exact hg.accepts, ⟨e, hnew, Reads.nil _⟩⟩
    · simp only [hq, Bool.false_eq_true, if_false] at h
      cases h; exact hg

/-- the object's sending is over: no transfer runs and none is queued; or the last packet of the LAST transfer (or of a
    transfer of a removed object) has been returned and the drained encoder is only waiting to be released; or the single
    forced-stop packet of a removed object has been returned (encoder stopped) -/
def Finished (x : Session) : Prop :=
  x.queued = false ∧
  (x.enc = none ∨
   (∃ e, x.enc = some e ∧ e.readEnd = true ∧ (∀ b, b ∈ e.blocks → b.isEmpty = true) ∧ 0 < e.nbPkt ∧
     (x.added = false ∨ (x.carousel = false ∧ x.maxtc = x.count + 1))) ∨
   (∃ e, x.enc = some e ∧ e.stopped = true ∧ x.added = false))

/-- what `Sender::read` does to a good session, whatever it returns (a packet, `None` - also the `None` that ends a
    transfer: `release`, count + 1, requeue or expiry - never `hang`, `panic` only from `block_partitioning` overflow):
    the session stays good; a returned packet carrying B while the object is still in the FDT is the last packet of the
    last transfer (`is_last_transfer`, nothing left to cut, every open block drained) -/
theorem runLoop_spec : ∀ (fuel : Nat) (x : Session), SGood c aL aS nL n x →
    ∀ o x', Session.runLoop fuel x = (o, x') →
      SGood c aL aS nL n x' ∧
      (∀ p, o = .pkt p → p.closeObject = true → x'.added = true →
        x'.isLastTransfer = true ∧ ∃ e', x'.enc = some e' ∧ e'.sbn = n ∧ e'.readEnd = true ∧ 0 < e'.nbPkt ∧
          ∀ b, b ∈ e'.blocks → b.isEmpty = true) ∧
      (∀ p, o = .pkt p → p.closeObject = true → Finished x') := by
  intro fuel
  induction fuel with
  | zero =>
    intro x hg o x' h
    simp only [Session.runLoop, Prod.mk.injEq] at h
    obtain ⟨rfl, rfl⟩ := h
    exact ⟨hg, (fun p hp => by cases hp), (fun p hp => by cases hp)⟩
  | succ fuel ih =>
    intro x hg o x' h
    unfold Session.runLoop at h
    cases hgn : x.getNext with
    | error w =>
      rw [hgn] at h
      simp only [Prod.mk.injEq] at h
      obtain ⟨rfl, rfl⟩ := h
      exact ⟨hg, (fun p hp => by cases hp), (fun p hp => by cases hp)⟩
    | ok y =>
      rw [hgn] at h
      simp only at h
      have hy := getNext_good hg hgn
      cases henc : y.enc with
      | none =>
        rw [henc] at h
        simp only [Prod.mk.injEq] at h
        obtain ⟨rfl, rfl⟩ := h
        exact ⟨hy, (fun p hp => by cases hp), (fun p hp => by cases hp)⟩
      | some e =>
        rw [henc] at h
        simp only at h
        obtain ⟨tr, hrun⟩ := hy.enc e henc
        obtain ⟨hI, hT, hcl, _⟩ := hrun.inv
        have hnp := Flute.BencNoPanic.run_no_panic hrun y.mustStop
        have hnh := Flute.BencTerm.read_no_hang hrun.setup hrun.accepts y.mustStop hI hT
        generalize hrd : BlockEnc.read y.P e y.mustStop = r at h hnp hnh
        obtain ⟨o1, e'⟩ := r
        cases o1 with
        | panic => exact absurd rfl hnp
        | hang => exact absurd rfl hnh
        | pkt q =>
          simp only [Prod.mk.injEq] at h
          obtain ⟨rfl, rfl⟩ := h
          have hrun' : Run y.P c aL aS nL n y.isLastTransfer (tr ++ [(y.mustStop, q)]) e' := by
            obtain ⟨s0, hnew, hr⟩ := hrun.reads
            exact { hrun with reads := ⟨s0, hnew, Reads.snoc hr hrd⟩ }
          have hnq : y.queued = false := hy.nq (by rw [henc]; rfl)
          have hflag : q.closeObject = true → y.mustStop = true ∨
              (y.isLastTransfer = true ∧ e'.sbn = n ∧ e'.readEnd = true ∧ 0 < e'.nbPkt ∧ ∀ b, b ∈ e'.blocks → b.isEmpty = true) := by
            intro hB
            have hst : e.stopped = false := by
              cases hs : e.stopped with
              | false => rfl
              | true =>
                have := (read_spec hrun.setup hrun.accepts (tr := pkts tr) y.mustStop hI hT).1 hs
                rw [this] at hrd; cases hrd
            have hpost := (read_spec hrun.setup hrun.accepts (tr := pkts tr) y.mustStop hI hT).2 hst
            rw [hrd] at hpost
            obtain ⟨_, _, em⟩ := hpost
            rcases em.flag hB with hff | ⟨hc, hs, hdr⟩
            · exact Or.inl hff
            · obtain ⟨h1, h2⟩ := all_cut_of_srcSent hrun' hy.symLe hs
              right
              refine ⟨?_, h1, h2, by rw [em.nbPkt]; exact Nat.succ_pos _, hdr⟩
              rw [← hcl]
              cases hm : y.mustStop <;> rw [hm] at hc <;> exact hc
          refine ⟨sgood_of_eq hy hy.src rfl ?_ (fun _ => hnq), ?_, ?_⟩
          · intro e2 he2
            simp only [Option.some.injEq] at he2
            subst he2
            exact ⟨_, hrun'⟩
          · intro p hp hB hadd
            cases hp
            have hadd' : y.added = true := hadd
            have hf : y.mustStop = false := by simp [Session.mustStop, hadd']
            rcases hflag hB with h1 | ⟨h1, h2, h3, h4, h5⟩
            · rw [hf] at h1; cases h1
            · exact ⟨h1, e', rfl, h2, h3, h4, h5⟩
          · intro p hp hB
            cases hp
            refine ⟨hnq, ?_⟩
            rcases hflag hB with h1 | ⟨h1, h2, h3, h4, h5⟩
            · -- forced stop: the encoder is stopped, the object is out of the FDT
              right; right
              have hstp := (hrun'.inv).2.2.2
              have hadd : y.added = false := by
                unfold Session.mustStop at h1
                cases ha : y.added <;> simp [ha] at h1 ⊢
              refine ⟨e', rfl, hstp.mpr ⟨(y.mustStop, q), by simp, h1⟩, hadd⟩
            · right; left
              refine ⟨e', rfl, h3, h5, h4, ?_⟩
              cases ha : y.added with
              | false => exact Or.inl rfl
              | true =>
                right
                unfold Session.isLastTransfer at h1
                cases hc : y.carousel <;> simp [hc] at h1
                exact ⟨rfl, h1⟩
        | none =>
          simp only at h
          have hsrc : e'.src = .buffer c := by
            obtain ⟨r1, r2⟩ := read_spec hrun.setup hrun.accepts (tr := pkts tr) y.mustStop hI hT
            by_cases hs : e.stopped = true
            · rw [r1 hs] at hrd; cases hrd; exact hI.src
            · have hs' : e.stopped = false := by simpa using hs
              have := r2 hs'
              rw [hrd] at this
              exact this.1.src
          have hgrel : SGood c aL aS nL n (y.release e') := by
            unfold Session.release
            simp only
            split
            · exact sgood_of_eq hy hsrc rfl (by intro e2 he2; cases he2) (by intro h; cases h)
            · split
              · exact sgood_of_eq hy hsrc rfl (by intro e2 he2; cases he2) (by intro h; cases h)
              · exact sgood_of_eq hy hsrc rfl (by intro e2 he2; cases he2) (by intro h; cases h)
          by_cases hfresh : x.enc.isNone = true
          · rw [if_pos hfresh] at h
            simp only [Prod.mk.injEq] at h
            obtain ⟨rfl, rfl⟩ := h
            exact ⟨hgrel, (fun p hp => by cases hp), (fun p hp => by cases hp)⟩
          · rw [if_neg hfresh] at h
            exact ih _ hgrel o x' h

/-! ### whole histories: any sequence of `Sender::read`, `remove_object`, clock advances -/

inductive Op where
  | read
  | remove
  | tick (secs : Nat)

/-- one API call; for `read` also what it returned -/
def sstep (x : Session) : Op → Option Out × Session
  | .read => (some x.read.1, x.read.2)
  | .remove => (none, x.remove.2)
  | .tick secs => (none, x.tick secs)

/-- the session after a history, and everything `read` returned, in order -/
def srun : List Op → Session → List Out × Session
  | [], x => ([], x)
  | op :: ops, x =>
    match (sstep x op).1 with
    | some o => (o :: (srun ops (sstep x op).2).1, (srun ops (sstep x op).2).2)
    | none => srun ops (sstep x op).2

theorem step_good {x : Session} (hg : SGood c aL aS nL n x) (op : Op) : SGood c aL aS nL n (sstep x op).2 := by
  cases op with
  | read => exact (runLoop_spec 4 x hg _ _ rfl).1
  | remove =>
    unfold sstep Session.remove
    simp only
    split
    · exact sgood_of_eq hg hg.src rfl hg.enc (fun _ => rfl)
    · exact hg
  | tick secs => exact sgood_of_eq hg hg.src rfl hg.enc hg.nq

/-- every state of every history from a good session is good -/
theorem run_good : ∀ (ops : List Op) (x : Session), SGood c aL aS nL n x → SGood c aL aS nL n (srun ops x).2 := by
  intro ops
  induction ops with
  | nil => intro x h; exact h
  | cons op ops ih =>
    intro x h
    unfold srun
    split
    · exact ih _ (step_good h op)
    · exact ih _ (step_good h op)

/-- a freshly added object: no encoder yet -/
theorem sgood_init (x : Session) (hsrc : x.src = .buffer c) (hnl : x.P.legacy = false) (he : 0 < x.P.e) (hb : 0 < x.P.b)
    (hlen : x.P.len = c.length) (hl : 0 < c.length) (hw : 1 ≤ x.P.window)
    (hq : Partition.blockPartitioning x.P.b x.P.len x.P.e = .ok (aL, aS, nL, n))
    (hA : Accepts x.P c aL aS nL n) (hle : SymLe x.P.codec) (henc : x.enc = none) : SGood c aL aS nL n x :=
  ⟨hsrc, hnl, he, hb, hlen, hl, hw, hq, hA, hle, (by intro e h; rw [henc] at h; cases h), (by intro h; rw [henc] at h; cases h)⟩

/-! ### the final transfer is final -/

/-- an encoder with nothing left to cut whose open blocks are all drained returns `None` (forced or not) -/
theorem readLoop_none_of_drained (P : Params) (force : Bool) :
    ∀ (fuel : Nat) (s : Enc), s.readEnd = true → (∀ b, b ∈ s.blocks → b.isEmpty = true) → 0 < s.nbPkt →
      s.blocks.length < fuel → (readLoop P force fuel s).1 = .none := by
  intro fuel
  induction fuel with
  | zero => intro s _ _ _ h; omega
  | succ fuel ih =>
    intro s hre hdr hnb hf
    unfold readLoop
    have hrw : readWindow P s = s := by
      unfold readWindow
      cases P.window with
      | zero => rfl
      | succ m => simp [readWindowAux, hre]
    simp only [hrw]
    by_cases hemp : s.blocks.isEmpty = true
    · simp only [hemp, if_true]
      have : ¬ s.nbPkt = 0 := by omega
      simp [this]
    · simp only [hemp, Bool.false_eq_true, if_false]
      have hne : s.blocks ≠ [] := fun h => hemp (List.isEmpty_iff.mpr h)
      have hlen : 0 < s.blocks.length := List.length_pos_iff.mpr hne
      generalize hidx' : (if s.idx ≥ s.blocks.length then 0 else s.idx) = idx
      have hidxlt : idx < s.blocks.length := by rw [← hidx']; split <;> omega
      have hget : s.blocks[idx]? = some s.blocks[idx] := List.getElem?_eq_getElem hidxlt
      generalize s.blocks[idx] = blk at hget
      rw [hget]
      simp only
      have hblk : blk ∈ s.blocks := List.mem_iff_getElem?.mpr ⟨idx, hget⟩
      have hd : blk.readIndex = blk.shards.length := by have := hdr blk hblk; simpa [Block.isEmpty] using this
      have hsh : blk.shards[blk.readIndex]? = none := List.getElem?_eq_none_iff.mpr (by omega)
      simp only [Block.read, hsh]
      apply ih { s with idx := idx, blocks := s.blocks.eraseIdx idx } hre (fun b hb => hdr b (List.mem_of_mem_eraseIdx hb)) hnb
      show (s.blocks.eraseIdx idx).length < fuel
      rw [List.length_eraseIdx]; simp only [hidxlt, if_true]; omega

theorem read_none_of_drained (P : Params) (s : Enc) (f : Bool) (hre : s.readEnd = true)
    (hdr : ∀ b, b ∈ s.blocks → b.isEmpty = true) (hnb : 0 < s.nbPkt) : (BlockEnc.read P s f).1 = .none := by
  unfold BlockEnc.read
  split
  · rfl
  · cases f with
    | true => simp only [if_true]; exact readLoop_none_of_drained P true _ _ hre hdr hnb (by unfold readFuel; simp; omega)
    | false => simp only [Bool.false_eq_true, if_false]; exact readLoop_none_of_drained P false _ _ hre hdr hnb (by unfold readFuel; omega)

/-- once finished, `Sender::read` returns `None` and the session stays finished -/
theorem finished_read {x : Session} (h : Finished x) : x.read.1 = .none ∧ Finished x.read.2 := by
  obtain ⟨hq, h⟩ := h
  have dead : ∀ (y : Session) fuel, y.queued = false → y.enc = none →
      Session.runLoop (fuel + 1) y = (.none, y) := by
    intro y fuel h1 h2
    unfold Session.runLoop Session.getNext
    simp [h1, h2]
  have hrel : ∀ (e' : Enc), (x.added = false ∨ (x.carousel = false ∧ x.maxtc = x.count + 1)) →
      (x.release e').queued = false ∧ (x.release e').enc = none := by
    intro e' hlast
    unfold Session.release
    simp only
    rcases hlast with ha | ⟨hc, hm⟩
    · simp [ha, hq]
    · by_cases ha : x.added = true
      · simp [Session.isExpired, ha, hc, hm, hq]
      · have ha' : x.added = false := by simpa using ha
        simp [ha', hq]
  have fin : ∀ (e : Enc), x.enc = some e → (BlockEnc.read x.P e x.mustStop).1 = .none →
      (x.added = false ∨ (x.carousel = false ∧ x.maxtc = x.count + 1)) →
      x.read.1 = .none ∧ Finished x.read.2 := by
    intro e he hnone hlast
    unfold Session.read Session.runLoop
    have hgn : x.getNext = .ok x := by unfold Session.getNext; simp [he]
    rw [hgn]
    simp only [he]
    generalize BlockEnc.read x.P e x.mustStop = r at hnone
    obtain ⟨o, e'⟩ := r
    simp only at hnone
    subst hnone
    simp only
    have := hrel e' hlast
    rw [dead _ 2 this.1 this.2]
    exact ⟨rfl, this.1, Or.inl this.2⟩
  rcases h with h | ⟨e, he, hre, hdr, hnb, hlast⟩ | ⟨e, he, hst, hadd⟩
  · unfold Session.read
    rw [dead x 3 hq h]
    exact ⟨rfl, hq, Or.inl h⟩
  · exact fin e he (read_none_of_drained x.P e x.mustStop hre hdr hnb) hlast
  · exact fin e he (by unfold BlockEnc.read; simp [hst]) (Or.inl hadd)

theorem finished_step {x : Session} (h : Finished x) (op : Op) : Finished (sstep x op).2 := by
  cases op with
  | read => exact (finished_read h).2
  | remove =>
    obtain ⟨hq, h⟩ := h
    unfold sstep Session.remove
    simp only
    split
    · refine ⟨rfl, ?_⟩
      rcases h with h | ⟨e, he, hre, hdr, hnb, _⟩ | ⟨e, he, hst, _⟩
      · exact Or.inl h
      · exact Or.inr (Or.inl ⟨e, he, hre, hdr, hnb, Or.inl rfl⟩)
      · exact Or.inr (Or.inr ⟨e, he, hst, rfl⟩)
    · exact ⟨hq, h⟩
  | tick secs => exact h

/-- **the final transfer is final**: after the B packet of a transfer of an object still in the FDT, whatever the
    application does next (any history of `read`, `remove_object`, clock advances), every `read` returns `None` -/
theorem nothing_after_finished : ∀ (ops : List Op) (x : Session), Finished x → ∀ o, o ∈ (srun ops x).1 → o = .none := by
  intro ops
  induction ops with
  | nil => intro x _ o ho; cases ho
  | cons op ops ih =>
    intro x h o ho
    unfold srun at ho
    cases op with
    | read =>
      simp only [sstep] at ho
      rcases List.mem_cons.mp ho with h1 | h1
      · rw [h1]; exact (finished_read h).1
      · exact ih _ (finished_read h).2 o h1
    | remove =>
      simp only [sstep] at ho
      exact ih _ (finished_step h .remove) o ho
    | tick secs =>
      simp only [sstep] at ho
      exact ih _ (finished_step h (.tick secs)) o ho

end Flute.BencSession
