import FluteModel.Lemmas.BencPsi
/-
  The glue `SenderSession::run` / `FileDesc` / `Fdt::transfer_done` for one object (buffer source, non-empty):
  the encoder a session holds was created with `closabled_object = is_last_transfer` and is a genuine run, so the
  block-encoder theorems apply to every packet `Sender::read` returns for the object.
-/
namespace Flute.BencSession
open Flute Flute.Fec Flute.BlockEnc Flute.BencArith Flute.BencBlocks Flute.BencInv Flute.BencTrace Flute.BencShape Flute.BencPsi

/-- a session over the non-empty object `c` held in a buffer -/
structure SGood (c : Bytes) (aL aS nL n : Nat) (x : Session) : Prop where
  src : x.src = .buffer c
  notLegacy : x.P.legacy = false
  e_pos : 0 < x.P.e
  b_pos : 0 < x.P.b
  len_eq : x.P.len = c.length
  l_pos : 0 < c.length
  window_pos : 1 ≤ x.P.window
  part : Partition.blockPartitioning x.P.b x.P.len x.P.e = .ok (aL, aS, nL, n)
  accepts : Accepts x.P c aL aS nL n
  symLe : SymLe x.P.codec
  enc : ∀ e, x.enc = some e → ∃ tr, Run x.P c aL aS nL n x.isLastTransfer tr e

variable {c : Bytes} {aL aS nL n : Nat}

theorem sgood_of_eq {x z : Session} (hg : SGood c aL aS nL n x) (h1 : z.src = .buffer c) (h2 : z.P = x.P)
    (h3 : ∀ e, z.enc = some e → ∃ tr, Run z.P c aL aS nL n z.isLastTransfer tr e) : SGood c aL aS nL n z :=
  ⟨h1, by rw [h2]; exact hg.notLegacy, by rw [h2]; exact hg.e_pos, by rw [h2]; exact hg.b_pos,
    by rw [h2]; exact hg.len_eq, hg.l_pos, by rw [h2]; exact hg.window_pos, by rw [h2]; exact hg.part,
    by rw [h2]; exact hg.accepts, by rw [h2]; exact hg.symLe, h3⟩

theorem start_fields (x : Session) : x.start.P = x.P ∧ x.start.src = x.src := by
  unfold Session.start; simp only; split <;> exact ⟨rfl, rfl⟩

/-- `get_next` keeps the session good: a new encoder is a fresh genuine run with `closabled_object = is_last_transfer` -/
theorem getNext_good {x y : Session} (hg : SGood c aL aS nL n x) (h : x.getNext = .ok y) : SGood c aL aS nL n y := by
  unfold Session.getNext at h
  cases henc : x.enc with
  | some e => simp only [henc] at h; cases h; exact hg
  | none =>
    simp only [henc] at h
    by_cases hq : (x.queued && x.shouldTransferNow) = true
    · simp only [hq, if_true] at h
      cases hnew : Enc.new x.start.P x.start.src x.start.isLastTransfer with
      | error w => rw [hnew] at h; cases h
      | ok e =>
        rw [hnew] at h
        simp only [Except.ok.injEq] at h
        subst h
        obtain ⟨hP, hsrc⟩ := start_fields x
        have hsrc' : x.start.src = .buffer c := by rw [hsrc]; exact hg.src
        refine sgood_of_eq hg hsrc' hP ?_
        intro e2 he2
        simp only [Option.some.injEq] at he2
        subst he2
        rw [hsrc'] at hnew
        refine ⟨[], ?_⟩
        show Run x.start.P c aL aS nL n x.start.isLastTransfer [] e
        exact ⟨by rw [hP]; exact hg.notLegacy, by rw [hP]; exact hg.e_pos, by rw [hP]; exact hg.b_pos,
          by rw [hP]; exact hg.len_eq, hg.l_pos, by rw [hP]; exact hg.window_pos, by rw [hP]; exact hg.part,
          by rw [hP]; exact hg.accepts, ⟨e, hnew, Reads.nil _⟩⟩
    · simp only [hq, Bool.false_eq_true, if_false] at h
      cases h; exact hg

/-- what `Sender::read` returns for the object: every packet comes from a genuine run of an encoder created with
    `closabled_object = is_last_transfer`; a packet carrying B while the object is still in the FDT is the last packet of
    the last transfer (`is_last_transfer`, nothing left to cut, every open block drained) -/
theorem runLoop_spec : ∀ (fuel : Nat) (x : Session), SGood c aL aS nL n x →
    ∀ p x', Session.runLoop fuel x = (.pkt p, x') →
      SGood c aL aS nL n x' ∧
      (p.closeObject = true → x'.added = true →
        x'.isLastTransfer = true ∧ ∃ e', x'.enc = some e' ∧ e'.sbn = n ∧ e'.readEnd = true ∧
          ∀ b, b ∈ e'.blocks → b.isEmpty = true) := by
  intro fuel
  induction fuel with
  | zero => intro x _ p x' h; simp [Session.runLoop] at h
  | succ fuel ih =>
    intro x hg p x' h
    unfold Session.runLoop at h
    cases hgn : x.getNext with
    | error w => rw [hgn] at h; cases h
    | ok y =>
      rw [hgn] at h
      simp only at h
      have hy := getNext_good hg hgn
      cases henc : y.enc with
      | none => rw [henc] at h; cases h
      | some e =>
        rw [henc] at h
        simp only at h
        obtain ⟨tr, hrun⟩ := hy.enc e henc
        obtain ⟨hI, hT, hcl, _⟩ := hrun.inv
        generalize hrd : BlockEnc.read y.P e y.mustStop = r at h
        obtain ⟨o, e'⟩ := r
        cases o with
        | panic => cases h
        | hang => cases h
        | pkt q =>
          simp only [Prod.mk.injEq, Out.pkt.injEq] at h
          obtain ⟨rfl, rfl⟩ := h
          have hrun' : Run y.P c aL aS nL n y.isLastTransfer (tr ++ [(y.mustStop, q)]) e' := by
            obtain ⟨s0, hnew, hr⟩ := hrun.reads
            exact { hrun with reads := ⟨s0, hnew, Reads.snoc hr hrd⟩ }
          refine ⟨sgood_of_eq hy hy.src rfl ?_, ?_⟩
          · intro e2 he2
            simp only [Option.some.injEq] at he2
            subst he2
            exact ⟨_, hrun'⟩
          · intro hB hadd
            have hadd' : y.added = true := hadd
            have hf : y.mustStop = false := by simp [Session.mustStop, hadd']
            have hst : e.stopped = false := by
              cases hs : e.stopped with
              | false => rfl
              | true =>
                have := (read_spec hrun.setup hrun.accepts (tr := pkts tr) y.mustStop hI hT).1 hs
                rw [this] at hrd; cases hrd
            have hpost := (read_spec hrun.setup hrun.accepts (tr := pkts tr) y.mustStop hI hT).2 hst
            rw [hrd] at hpost
            obtain ⟨_, _, em⟩ := hpost
            rcases em.flag hB with hff | ⟨hc, hs, hdr⟩
            · rw [hf] at hff; cases hff
            · obtain ⟨h1, h2⟩ := all_cut_of_srcSent hrun' hy.symLe hs
              refine ⟨?_, e', rfl, h1, h2, hdr⟩
              show y.isLastTransfer = true
              rw [← hcl]
              rw [hf] at hc; exact hc
        | none =>
          simp only at h
          have hsrc : e'.src = .buffer c := by
            obtain ⟨r1, r2⟩ := read_spec hrun.setup hrun.accepts (tr := pkts tr) y.mustStop hI hT
            by_cases hs : e.stopped = true
            · rw [r1 hs] at hrd; cases hrd; exact hI.src
            · have hs' : e.stopped = false := by simpa using hs
              have := r2 hs'
              rw [hrd] at this
              exact this.1.src
          refine ih _ ?_ p x' h
          unfold Session.release
          simp only
          split
          · exact sgood_of_eq hy hsrc rfl (by intro e2 he2; cases he2)
          · split
            · exact sgood_of_eq hy hsrc rfl (by intro e2 he2; cases he2)
            · exact sgood_of_eq hy hsrc rfl (by intro e2 he2; cases he2)

end Flute.BencSession
