import FluteModel.Prim
import FluteModel.Partition
/-
  Arithmetic of the sender's block cutting (helper lemmas for Props/C08, Props/C20):
  with `(aL, aS, nL, N) = block_partitioning(B, L, E)` the block `k` has `A k` symbols, starts at symbol
  `cum k` and at byte `offAt k = min (cum k · E) L`.
-/
namespace Flute.BencArith
open Flute Flute.Partition

/-- number of source symbols of block `k` (`block_length` in `read_block_*`) -/
def A (aL aS nL k : Nat) : Nat := if k < nL then aL else aS

/-- index of the first symbol of block `k` -/
def cum (aL aS nL k : Nat) : Nat := if k ≤ nL then k * aL else nL * aL + (k - nL) * aS

theorem cum_zero (aL aS nL : Nat) : cum aL aS nL 0 = 0 := by simp [cum]

theorem cum_succ (aL aS nL k : Nat) : cum aL aS nL (k + 1) = cum aL aS nL k + A aL aS nL k := by
  unfold cum A
  by_cases h1 : k + 1 ≤ nL
  · have h2 : k ≤ nL := by omega
    have h3 : k < nL := by omega
    simp only [h1, h2, h3, if_true]
    rw [Nat.add_mul]; omega
  · by_cases h2 : k ≤ nL
    · have h3 : k = nL := by omega
      subst h3
      simp only [h1, if_false, Nat.le_refl, if_true, Nat.lt_irrefl]
      have : k + 1 - k = 1 := by omega
      rw [this]; omega
    · have h3 : ¬ k < nL := by omega
      simp only [h1, h2, h3, if_false]
      have : k + 1 - nL = (k - nL) + 1 := by omega
      rw [this, Nat.add_mul]; omega

theorem A_pos (aL aS nL k : Nat) (h1 : 1 ≤ aS) (h2 : aS ≤ aL) : 1 ≤ A aL aS nL k := by
  unfold A; split <;> omega

theorem cum_mono_strict (aL aS nL : Nat) (h1 : 1 ≤ aS) (h2 : aS ≤ aL) (k n : Nat) (h : k ≤ n) :
    cum aL aS nL k + (n - k) ≤ cum aL aS nL n := by
  induction n with
  | zero => have : k = 0 := by omega
            subst this; simp
  | succ n ih =>
    by_cases hk : k = n + 1
    · subst hk; simp
    · have hk' : k ≤ n := by omega
      have := ih hk'
      rw [cum_succ]
      have := A_pos aL aS nL n h1 h2
      omega

/-- what `block_partitioning` returns when it does not panic, for `b, e, l > 0` -/
theorem partition_ok (b l e : Nat) (q : Quad) (hb : 0 < b) (he : 0 < e)
    (h : blockPartitioning b l e = .ok q) (hn : divCeil (divCeil l e) b ≠ 0) :
    q = (divCeil (divCeil l e) (divCeil (divCeil l e) b), divCeil l e / divCeil (divCeil l e) b,
         divCeil l e - divCeil l e / divCeil (divCeil l e) b * divCeil (divCeil l e) b,
         divCeil (divCeil l e) b) := by
  unfold blockPartitioning at h
  have hb' : ¬ b = 0 := by omega
  have he' : ¬ e = 0 := by omega
  simp only [hb', he', hn, if_false] at h
  unfold u64mul u64sub at h
  split at h
  · rename_i w hw
    split at hw <;> simp at hw
    cases h
  · rename_i m hm
    split at hm
    · simp only [Except.ok.injEq] at hm
      subst hm
      split at h
      · rename_i w hw
        split at hw <;> simp at hw
        cases h
      · rename_i v hv
        split at hv
        · simp only [Except.ok.injEq] at hv h
          subst hv
          exact h.symm
        · simp at hv
    · simp at hm

theorem divCeil_pos (a b : Nat) (ha : 0 < a) (hb : 0 < b) : 0 < divCeil a b := by
  unfold divCeil
  have := Nat.div_add_mod a b
  split
  · rename_i h
    rw [h] at this
    have : 0 < a / b := by
      apply Nat.pos_of_ne_zero
      intro h0; rw [h0] at this; simp at this; omega
    exact this
  · exact Nat.succ_pos _

theorem divCeil_mul_ge (a b : Nat) (hb : 0 < b) : a ≤ divCeil a b * b := by
  unfold divCeil
  have h1 := Nat.div_add_mod a b
  have h2 := Nat.mod_lt a hb
  split
  · rename_i h; rw [h] at h1; rw [Nat.mul_comm]; omega
  · rw [Nat.add_mul, Nat.mul_comm]; omega

theorem divCeil_pred_mul_lt (a b : Nat) (ha : 0 < a) (hb : 0 < b) : (divCeil a b - 1) * b < a := by
  unfold divCeil
  have h1 := Nat.div_add_mod a b
  have h2 := Nat.mod_lt a hb
  split
  · rename_i h
    rw [h] at h1
    have hq : 0 < a / b := by
      apply Nat.pos_of_ne_zero
      intro h0; rw [h0] at h1; simp at h1; omega
    have : (a / b - 1) * b + b = a / b * b := by
      rw [← Nat.add_one_mul]; congr 1; omega
    rw [Nat.mul_comm] at h1
    omega
  · have : a / b + 1 - 1 = a / b := Nat.add_sub_cancel ..
    rw [this, Nat.mul_comm]; omega

theorem divCeil_le_self (t b : Nat) (hb : 0 < b) : divCeil t b ≤ t := by
  unfold divCeil
  have h1 := Nat.div_add_mod t b
  have h2 := Nat.mod_lt t hb
  have h3 : t / b ≤ t := Nat.div_le_self t b
  split
  · exact h3
  · rename_i h
    have : b * (t / b) ≥ t / b := Nat.le_mul_of_pos_left _ hb
    omega

/-- the facts about the partition quadruple the block-cutting invariants need -/
structure Good (l e aL aS nL n : Nat) : Prop where
  t_total : cum aL aS nL n = divCeil l e
  aS_pos : 1 ≤ aS
  aS_le : aS ≤ aL
  n_pos : 1 ≤ n

theorem good_of_partition (b l e aL aS nL n : Nat) (hb : 0 < b) (he : 0 < e) (hl : 0 < l)
    (h : blockPartitioning b l e = .ok (aL, aS, nL, n)) : Good l e aL aS nL n := by
  have hT : 0 < divCeil l e := divCeil_pos l e hl he
  have hN : 0 < divCeil (divCeil l e) b := divCeil_pos _ _ hT hb
  have hq := partition_ok b l e _ hb he h (by omega)
  simp only [Prod.mk.injEq] at hq
  obtain ⟨h1, h2, h3, h4⟩ := hq
  subst h1 h2 h3 h4
  generalize hTd : divCeil l e = T at *
  generalize hNd : divCeil T b = N at *
  have hNT : N ≤ T := by rw [← hNd]; exact divCeil_le_self T b hb
  have hdm := Nat.div_add_mod T N
  have hml := Nat.mod_lt T hN
  have hqpos : 1 ≤ T / N := by
    have : 1 * N ≤ T := by omega
    exact (Nat.le_div_iff_mul_le hN).mpr this
  have hdc : divCeil T N = if T % N = 0 then T / N else T / N + 1 := rfl
  rw [hdc]
  generalize T / N = q at *
  generalize T % N = r at *
  have hcomm : q * N = N * q := Nat.mul_comm _ _
  have hnl : T - q * N = r := by omega
  refine ⟨?_, hqpos, ?_, hN⟩
  · -- cum n = T
    unfold cum
    rw [hnl]
    have hle : ¬ N ≤ r := by omega
    simp only [hle, if_false]
    by_cases hr : r = 0
    · subst hr
      simp only [if_true, Nat.zero_mul, Nat.sub_zero, Nat.zero_add]
      omega
    · simp only [hr, if_false]
      rw [Nat.mul_add, Nat.mul_one, Nat.sub_mul]
      have : r * q ≤ N * q := Nat.mul_le_mul_right _ (by omega)
      omega
  · split
    · exact Nat.le_refl _
    · exact Nat.le_succ _

/-- byte offset of block `k` -/
def offAt (l e aL aS nL k : Nat) : Nat := min (cum aL aS nL k * e) l

theorem cum_lt_of_lt {l e aL aS nL n : Nat} (g : Good l e aL aS nL n) (he : 0 < e) (hl : 0 < l)
    (k : Nat) (hk : k < n) : cum aL aS nL k * e < l := by
  have h1 := cum_mono_strict aL aS nL g.aS_pos g.aS_le k n (by omega)
  rw [g.t_total] at h1
  have h2 := divCeil_pred_mul_lt l e hl he
  have h3 : cum aL aS nL k ≤ divCeil l e - 1 := by omega
  have : cum aL aS nL k * e ≤ (divCeil l e - 1) * e := Nat.mul_le_mul_right _ h3
  omega

theorem cum_n_ge {l e aL aS nL n : Nat} (g : Good l e aL aS nL n) (he : 0 < e) :
    l ≤ cum aL aS nL n * e := by
  rw [g.t_total]; exact divCeil_mul_ge l e he

end Flute.BencArith
