import FluteModel.Lemmas.NoCodeDec
/-
  Block-level exactness for every scheme.  `sym esi` = the sender's encoding symbol with that ESI for ONE block
  (source symbols for esi < k, repair symbols beyond), `D` = the block a correct decoder returns.
  No-Code and the Reed-Solomon bookkeeping are concrete; the calls into the codec crates are constrained by the explicit
  contract `CodecOK` ("never a wrong block from genuine symbols").
-/
namespace Flute.FecDec

/-- contract of the external codecs for one source block with `k` source symbols of `e` bytes -/
structure CodecOK (c : Codec) (sch : Scheme) (sym : Nat → Bytes) (k e sbn : Nat) (D : Bytes) : Prop where
  /-- RS: reconstructing from genuine shards yields genuine shards -/
  rs : (sch = .rs28 ∨ sch = .rs28us) → ∀ p shards shards', SlotsOK sym 0 shards → c.rsReconstruct k p shards = some shards' → SlotsOK sym 0 shards'
  /-- RaptorQ: whatever is decoded from genuine symbols is the block -/
  rq : sch = .raptorQ → ∀ ss pushes d, (∀ q ∈ pushes, q.2 = sym q.1) → c.rqData sbn k e ss pushes = some d → d = D
  /-- Raptor -/
  r : sch = .raptor → ∀ bs pushes d, (∀ q ∈ pushes, q.2 = sym q.1) → c.rDecode k bs pushes = some d → d = D

/-- a decoder of the block that only ever saw genuine symbols -/
def DecOK (sch : Scheme) (sym : Nat → Bytes) (k e sbn : Nat) (D : Bytes) : Dec → Prop
  | .noCode shards _ data =>
      D = genuineConcat sym 0 k ∧ shards.length = k ∧ SlotsOK sym 0 shards ∧ (∀ x, data = some x → x = D)
  | .rs k' _ shards block _ _ =>
      (sch = .rs28 ∨ sch = .rs28us) ∧ D = genuineConcat sym 0 k ∧ k' = k ∧ SlotsOK sym 0 shards ∧ (∀ x, block = some x → x = D)
  | .rq sbn' k' e' _ pushes data =>
      sch = .raptorQ ∧ sbn' = sbn ∧ k' = k ∧ e' = e ∧ (∀ q ∈ pushes, q.2 = sym q.1) ∧ (∀ x, data = some x → x = D)
  | .raptor k' _ pushes data =>
      sch = .raptor ∧ k' = k ∧ (∀ q ∈ pushes, q.2 = sym q.1) ∧ (∀ x, data = some x → x = D)

theorem decOK_sourceBlock {sch : Scheme} {sym : Nat → Bytes} {k e sbn : Nat} {D : Bytes} {d : Dec} (h : DecOK sch sym k e sbn D d)
    (x : Bytes) (hx : d.sourceBlock = some x) : x = D := by
  cases d with
  | noCode shards nb data => exact h.2.2.2 x hx
  | rs k' p shards block a b => exact h.2.2.2.2 x hx
  | rq s k' e' ss pushes data => exact h.2.2.2.2.2 x hx
  | raptor k' bs pushes data => exact h.2.2.2 x hx

theorem slotsOK_set0 (sym : Nat → Bytes) (l : List (Option Bytes)) (j : Nat) (h : SlotsOK sym 0 l) :
    SlotsOK sym 0 (l.set j (some (sym j))) := by
  have := slotsOK_set sym 0 l j h
  simpa using this

theorem decOK_push (c : Codec) {sch : Scheme} {sym : Nat → Bytes} {k e sbn : Nat} {D : Bytes} (hc : CodecOK c sch sym k e sbn D)
    (d : Dec) (esi : Nat) (h : DecOK sch sym k e sbn D d) : DecOK sch sym k e sbn D (d.pushSymbol c (sym esi) esi) := by
  cases d with
  | noCode shards nb data =>
    simp only [Dec.pushSymbol]
    split
    · exact h
    · split
      · exact h
      · exact ⟨h.1, by simp [h.2.1], slotsOK_set0 sym shards esi h.2.2.1, h.2.2.2⟩
  | rs k' p shards block a b =>
    simp only [Dec.pushSymbol]
    split
    · exact h
    · split
      · exact h
      · split
        · exact h
        · exact ⟨h.1, h.2.1, h.2.2.1, slotsOK_set0 sym shards esi h.2.2.2.1, h.2.2.2.2⟩
  | rq s k' e' ss pushes data =>
    simp only [Dec.pushSymbol]
    split
    · exact h
    · obtain ⟨hsch, h1, h2, h3, h4, _⟩ := h
      have hg : ∀ q ∈ pushes ++ [(esi, sym esi)], q.2 = sym q.1 := by
        intro q hq
        simp at hq
        cases hq with
        | inl hq => exact h4 q hq
        | inr hq => rw [hq]
      refine ⟨hsch, h1, h2, h3, hg, ?_⟩
      intro x hx
      subst h1; subst h2; subst h3
      exact hc.rq hsch ss _ x hg hx
  | raptor k' bs pushes data =>
    simp only [Dec.pushSymbol]
    split
    · exact h
    · obtain ⟨hsch, h1, h4, h5⟩ := h
      refine ⟨hsch, h1, ?_, h5⟩
      intro q hq
      simp at hq
      cases hq with
      | inl hq => exact h4 q hq
      | inr hq => rw [hq]

theorem decOK_decode (c : Codec) {sch : Scheme} {sym : Nat → Bytes} {k e sbn : Nat} {D : Bytes} (hc : CodecOK c sch sym k e sbn D)
    (d : Dec) (h : DecOK sch sym k e sbn D d) : DecOK sch sym k e sbn D (d.decode c).1 := by
  cases d with
  | noCode shards nb data =>
    simp only [Dec.decode]
    split
    · exact h
    · split
      · exact h
      · split
        · rename_i out hco
          refine ⟨h.1, h.2.1, h.2.2.1, ?_⟩
          intro x hx
          simp at hx
          rw [← hx, h.1]
          rw [h.2.1] at hco
          exact concatShards_genuine sym 0 k shards out h.2.2.1 hco
        · exact h
  | rs k' p shards block a b =>
    obtain ⟨hsch, hD, hk, hs, hb⟩ := h
    subst hk
    simp only [Dec.decode]
    split
    · exact ⟨hsch, hD, rfl, hs, hb⟩
    · split
      · exact ⟨hsch, hD, rfl, hs, hb⟩
      · rename_i shards' hr
        have hs' : SlotsOK sym 0 shards' := by
          split at hr
          · exact hc.rs hsch p shards shards' hs hr
          · simp at hr; rw [← hr]; exact hs
        split
        · exact ⟨hsch, hD, rfl, hs', hb⟩
        · rename_i out hco
          refine ⟨hsch, hD, rfl, hs, ?_⟩
          intro x hx
          simp at hx
          rw [← hx, hD]
          exact concatShards_genuine sym 0 k' shards' out hs' hco
  | rq s k' e' ss pushes data => exact h
  | raptor k' bs pushes data =>
    obtain ⟨hsch, h1, h4, _⟩ := h
    simp only [Dec.decode]
    refine ⟨hsch, h1, h4, ?_⟩
    intro x hx
    subst h1
    exact hc.r hsch bs pushes x h4 hx

/-- every decoder a block holds is `DecOK` -/
def BlockOK (sch : Scheme) (sym : Nat → Bytes) (k e sbn : Nat) (D : Bytes) (b : Block) : Prop :=
  ∀ d, b.dec = some d → DecOK sch sym k e sbn D d

theorem blockOK_fresh (sch : Scheme) (sym : Nat → Bytes) (k e sbn : Nat) (D : Bytes) : BlockOK sch sym k e sbn D {} := by
  intro d hd; simp at hd

theorem blockOK_deallocate {sch : Scheme} {sym : Nat → Bytes} {k e sbn : Nat} {D : Bytes} (b : Block) :
    BlockOK sch sym k e sbn D b.deallocate := by
  intro d hd; simp [Block.deallocate] at hd

/-- `BlockDecoder::init` with the right number of source symbols (and the session's symbol length) -/
theorem blockOK_init (c : Codec) {sym : Nat → Bytes} {k sbn : Nat} {D : Bytes} (o : Oti) (bs : Nat) (b b' : Block)
    (hD : (o.scheme = .noCode ∨ o.scheme = .rs28 ∨ o.scheme = .rs28us) → D = genuineConcat sym 0 k)
    (hb : BlockOK o.scheme sym k o.e sbn D b) (h : b.init c o k bs sbn = .ok b') : BlockOK o.scheme sym k o.e sbn D b' := by
  unfold Block.init at h
  split at h
  · simp at h; rw [← h]; exact hb
  · split at h
    · simp at h
    dsimp only at h
    split at h
    · rename_i hs
      simp at h; rw [← h]
      intro d hd; simp at hd; rw [← hd]
      exact ⟨hD (.inl hs), by simp, slotsOK_replicate sym 0 k, by simp⟩
    · rename_i hs
      split at h
      · simp at h; rw [← h]
        intro d hd; simp at hd; rw [← hd]
        exact ⟨.inl hs, hD (.inr (.inl hs)), rfl, slotsOK_replicate sym 0 _, by simp⟩
      · simp at h
    · rename_i hs
      split at h
      · simp at h; rw [← h]
        intro d hd; simp at hd; rw [← hd]
        exact ⟨.inr hs, hD (.inr (.inr hs)), rfl, slotsOK_replicate sym 0 _, by simp⟩
      · simp at h
    · simp at h
    · rename_i hs
      split at h
      · split at h
        · simp at h
        · simp at h; rw [← h]
          intro d hd; simp at hd; rw [← hd]
          exact ⟨hs, rfl, rfl, rfl, by simp, by simp⟩
      · simp at h
    · rename_i hs
      split at h
      · simp at h
      · simp at h; rw [← h]
        intro d hd; simp at hd; rw [← hd]
        exact ⟨hs, rfl, by simp, by simp⟩

/-- `BlockDecoder::push` of a genuine symbol -/
theorem blockOK_push (c : Codec) {sch : Scheme} {sym : Nat → Bytes} {k e sbn : Nat} {D : Bytes} (hc : CodecOK c sch sym k e sbn D)
    (b b' : Block) (esi : Nat) (hb : BlockOK sch sym k e sbn D b) (h : b.push c (sym esi) esi = some b') :
    BlockOK sch sym k e sbn D b' := by
  unfold Block.push at h
  split at h
  · simp at h; rw [← h]; exact hb
  · split at h
    · simp at h
    · rename_i d hd
      have h1 := decOK_push c hc d esi (hb d hd)
      split at h
      · simp at h; rw [← h]; exact hb
      dsimp only at h
      split at h
      · simp at h; rw [← h]
        intro d' hd'; simp at hd'; rw [← hd']
        exact decOK_decode c hc _ h1
      · simp at h; rw [← h]
        intro d' hd'; simp at hd'; rw [← hd']
        exact h1

theorem blockOK_sourceBlock {sch : Scheme} {sym : Nat → Bytes} {k e sbn : Nat} {D : Bytes} {b : Block}
    (hb : BlockOK sch sym k e sbn D b) (x : Bytes) (hx : b.sourceBlock = some x) : x = D := by
  unfold Block.sourceBlock at hx
  split at hx
  · simp at hx
  · rename_i d hd
    exact decOK_sourceBlock (hb d hd) x hx

end Flute.FecDec
