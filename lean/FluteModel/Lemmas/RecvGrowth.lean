import FluteModel.Lemmas.RecvBounds
/-
  C04 / C17: one call creates at most one object and at most one FDT-instance receiver - the
  registries `objects` and `fdt_receivers` grow at most by one entry per datagram (and never by a
  `cleanup`), whatever the datagram contains.
-/
namespace Flute.Recv
variable {σ : Type}

theorem ainsert_length_le {α} (k : Nat) (v : α) (l : List (Nat × α)) : (ainsert k v l).length ≤ l.length + 1 := by
  induction l with
  | nil => simp [ainsert]
  | cons a r ih =>
    obtain ⟨k', v'⟩ := a
    by_cases h : k' = k
    · simp [ainsert, h]
    · simp only [ainsert, h, ↓reduceIte, List.length_cons]; omega

theorem ainsert_length_of_some {α} (k : Nat) (v w : α) (l : List (Nat × α)) (h : alookup k l = some w) :
    (ainsert k v l).length = l.length := by
  induction l with
  | nil => simp [alookup] at h
  | cons a r ih =>
    obtain ⟨k', v'⟩ := a
    by_cases hk : k' = k
    · simp [ainsert, hk]
    · simp only [alookup, hk, ↓reduceIte] at h
      simp only [ainsert, hk, ↓reduceIte, List.length_cons, ih h]

theorem aerase_length_le {α} (k : Nat) (l : List (Nat × α)) : (aerase k l).length ≤ l.length := by
  induction l with
  | nil => simp [aerase]
  | cons a r ih =>
    obtain ⟨k', v'⟩ := a
    by_cases h : k' = k
    · simp only [aerase, h, ↓reduceIte, List.length_cons]; omega
    · simp only [aerase, h, ↓reduceIte, List.length_cons]; omega

/-- number of entries of `objects` -/
def nObj (s : State σ) : Nat := s.objects.length

theorem removeObject_nObj (I : ObjIface σ) (s : State σ) (t : Nat) :
    nObj (removeObject I s t).1 ≤ nObj s := by
  unfold removeObject nObj
  split
  · exact Nat.le_refl _
  · exact aerase_length_le _ _

theorem gcObjectError_nObj (I : ObjIface σ) (fuel : Nat) (s : State σ) :
    nObj (gcObjectError I fuel s).1 ≤ nObj s := by
  induction fuel generalizing s with
  | zero => exact Nat.le_refl _
  | succ n ih =>
    unfold gcObjectError
    split
    · split
      · exact Nat.le_refl _
      · rename_i toi rest _
        exact Nat.le_trans (ih _) (removeObject_nObj I { s with errors := rest } toi)
    · exact Nat.le_refl _

theorem checkObjectState_nObj (I : ObjIface σ) (s : State σ) (t : Nat) :
    nObj (checkObjectState I s t).1 ≤ nObj s := by
  unfold checkObjectState
  split
  · exact Nat.le_refl _
  · split
    · exact Nat.le_refl _
    · refine Nat.le_trans (removeObject_nObj I _ t) ?_
      split <;> exact Nat.le_refl _
    all_goals
      exact Nat.le_trans (removeObject_nObj I _ t)
        (gcObjectError_nObj I _ { s with errors := sinsert t s.errors })

theorem checkObjectStates_nObj (I : ObjIface σ) (s : State σ) (l : List Nat) :
    nObj (checkObjectStates I s l).1 ≤ nObj s := by
  induction l generalizing s with
  | nil => exact Nat.le_refl _
  | cons t ts ih =>
    simp only [checkObjectStates]
    exact Nat.le_trans (ih _) (checkObjectState_nObj I s t)

theorem attachAll_length (I : ObjIface σ) (id : Nat) (inst : FdtAbs) (objs : List (Nat × σ)) :
    (attachAll I id inst objs).1.length = objs.length := by
  induction objs with
  | nil => rfl
  | cons a r ih =>
    obtain ⟨k, o⟩ := a
    simp only [attachAll, List.length_cons, ih]

theorem attachLatest_nObj (I : ObjIface σ) (s : State σ) : nObj (attachLatest I s).1 ≤ nObj s := by
  unfold attachLatest
  split
  · exact Nat.le_refl _
  · split
    · exact Nat.le_refl _
    · simp only []
      refine Nat.le_trans (checkObjectStates_nObj I _ _) ?_
      unfold nObj
      simp only []
      rw [attachAll_length]
      exact Nat.le_refl _

theorem pushObjCore_nObj (I : ObjIface σ) (s s' : State σ) (p : Pkt) (now : Int) (r : Res) (evs : List Ev)
    (h : pushObjCore I s p now = .ok (s', r, evs)) :
    nObj s' ≤ nObj s + 1 ∧ s'.fdtReceivers = s.fdtReceivers := by
  unfold pushObjCore at h
  simp only [] at h
  split at h
  · cases h
  · rename_i s1 e0 hc
    have hs1 : nObj s1 ≤ nObj s + 1 ∧ s1.fdtReceivers = s.fdtReceivers := by
      split at hc
      · unfold createObj at hc
        split at hc
        · cases hc
        · simp only [Except.ok.injEq, Prod.mk.injEq] at hc
          obtain ⟨rfl, _⟩ := hc
          exact ⟨ainsert_length_le _ _ _, rfl⟩
      · simp only [Except.ok.injEq, Prod.mk.injEq] at hc
        obtain ⟨rfl, _⟩ := hc
        exact ⟨Nat.le_succ _, rfl⟩
    split at h
    · simp only [Except.ok.injEq, Prod.mk.injEq] at h
      obtain ⟨rfl, _, _⟩ := h; exact hs1
    · rename_i o ho
      simp only [Except.ok.injEq, Prod.mk.injEq] at h
      obtain ⟨rfl, _, _⟩ := h
      have hfr := checkObjectState_fdt I { s1 with objects := ainsert p.toi (I.push o p).1 s1.objects } p.toi
      refine ⟨Nat.le_trans (checkObjectState_nObj I _ _) ?_, by rw [hfr.2.1]; exact hs1.2⟩
      unfold nObj at hs1 ⊢
      simp only []
      rw [ainsert_length_of_some _ _ o _ ho]
      exact hs1.1

theorem pushObj_nObj (I : ObjIface σ) (s s' : State σ) (p : Pkt) (now : Int) (r : Res) (evs : List Ev)
    (h : pushObj I s p now = .ok (s', r, evs)) :
    nObj s' ≤ nObj s + 1 ∧ s'.fdtReceivers = s.fdtReceivers := by
  unfold pushObj at h
  split at h
  · simp only [Except.ok.injEq, Prod.mk.injEq] at h
    obtain ⟨rfl, _, _⟩ := h; exact ⟨Nat.le_succ _, rfl⟩
  · rename_i s1 hg1
    split at h
    · simp only [Except.ok.injEq, Prod.mk.injEq] at h
      obtain ⟨rfl, _, _⟩ := h
      exact ⟨by unfold nObj; rw [gateCompleted_objects hg1]; exact Nat.le_succ _, (gateCompleted_fdt hg1).2.1⟩
    · rename_i s2 hg2
      have := pushObjCore_nObj I s2 s' p now r evs h
      refine ⟨?_, by rw [this.2, (gateError_fdt hg2).2.1, (gateCompleted_fdt hg1).2.1]⟩
      have e : nObj s2 = nObj s := by unfold nObj; rw [gateError_objects hg2, gateCompleted_objects hg1]
      rw [← e]; exact this.1

theorem fdtCompleted_growth (I : ObjIface σ) (s s' : State σ) (id : Nat) (r : Res) (evs : List Ev)
    (h : fdtCompleted I s id = .ok (s', r, evs)) :
    nObj s' ≤ nObj s ∧ s'.fdtReceivers.length ≤ s.fdtReceivers.length := by
  unfold fdtCompleted at h
  split at h
  · cases h
  · split at h
    · simp only [Except.ok.injEq, Prod.mk.injEq] at h
      obtain ⟨rfl, _, _⟩ := h; exact ⟨Nat.le_refl _, Nat.le_refl _⟩
    · rename_i f hf
      simp only [] at h
      split at h
      · cases h
      · simp only [Except.ok.injEq, Prod.mk.injEq] at h
        obtain ⟨rfl, _, _⟩ := h
        generalize hs0 : ({ s with fdtReceivers := aerase id s.fdtReceivers, fdtCurrent := f :: s.fdtCurrent } : State σ) = s0
        have h0 : nObj s0 = nObj s ∧ s0.fdtReceivers.length ≤ s.fdtReceivers.length := by
          subst hs0; exact ⟨rfl, aerase_length_le _ _⟩
        have h1 := attachLatest_nObj I s0
        have h1f := attachLatest_fdt I s0
        have h2 := gcObjectCompleted_fdt (attachLatest I s0).1
        have h3 := updateCompletedCc_fdt (gcObjectCompleted (attachLatest I s0).1)
        have ho : nObj (updateCompletedCc (gcObjectCompleted (attachLatest I s0).1)).1 = nObj (attachLatest I s0).1 := by
          unfold nObj
          rw [(updateCompletedCc_silent 0 _).1, gcObjectCompleted_objects]
        have hr : (updateCompletedCc (gcObjectCompleted (attachLatest I s0).1)).1.fdtReceivers = s0.fdtReceivers := by
          rw [h3.2.1, h2.2.1, h1f.2.1]
        split
        · exact ⟨by unfold nObj at ho h1 h0 ⊢; simp only []; omega, by simp only []; rw [hr]; exact h0.2⟩
        · exact ⟨by omega, by rw [hr]; exact h0.2⟩

theorem fdtDispatch_growth (I : ObjIface σ) (s s' : State σ) (id : Nat) (f : FdtRecv σ) (now : Int)
    (r : Res) (evs : List Ev) (h : fdtDispatch I s id f now = .ok (s', r, evs)) :
    nObj s' ≤ nObj s ∧ s'.fdtReceivers.length ≤ s.fdtReceivers.length := by
  unfold fdtDispatch at h
  split at h
  · simp only [Except.ok.injEq, Prod.mk.injEq] at h
    obtain ⟨rfl, _, _⟩ := h; exact ⟨Nat.le_refl _, Nat.le_refl _⟩
  · simp only [Except.ok.injEq, Prod.mk.injEq] at h
    obtain ⟨rfl, _, _⟩ := h; exact ⟨Nat.le_refl _, aerase_length_le _ _⟩
  · split at h
    · cases h
    · split at h
      · cases h
      · split at h
        · cases h
        · simp only [Except.ok.injEq, Prod.mk.injEq] at h
          obtain ⟨rfl, _, _⟩ := h; exact ⟨Nat.le_refl _, aerase_length_le _ _⟩
  · exact fdtCompleted_growth I s s' id r evs h

theorem fdtEntry_growth (I : ObjIface σ) (s : State σ) (id : Nat) (p : Pkt) :
    (fdtEntry I s id p).1.fdtReceivers.length ≤ s.fdtReceivers.length + 1 ∧
    ∃ g, alookup id (fdtEntry I s id p).1.fdtReceivers = some g := by
  unfold fdtEntry
  split
  · rename_i f hf
    exact ⟨Nat.le_succ _, f, hf⟩
  · exact ⟨ainsert_length_le _ _ _, _, alookup_ainsert_self _ _ _⟩

theorem pushFdtObjP_growth (I : ObjIface σ) (s s' : State σ) (p : Pkt) (now : Int) (ans : FdtAns)
    (r : Res) (evs : List Ev) (h : pushFdtObj' I s p now ans = .ok (s', r, evs)) :
    nObj s' ≤ nObj s ∧ s'.fdtReceivers.length ≤ s.fdtReceivers.length + 1 := by
  unfold pushFdtObj' at h
  split at h
  · split at h
    · simp only [Except.ok.injEq, Prod.mk.injEq] at h
      obtain ⟨rfl, _, _⟩ := h; exact ⟨Nat.le_refl _, Nat.le_succ _⟩
    · split at h <;>
      · simp only [Except.ok.injEq, Prod.mk.injEq] at h
        obtain ⟨rfl, _, _⟩ := h; exact ⟨Nat.le_refl _, Nat.le_succ _⟩
  · rename_i id _
    have he := fdtEntry_growth I s id p
    obtain ⟨he1, g, he2⟩ := he
    have heo : nObj (fdtEntry I s id p).1 = nObj s := by unfold nObj; rw [fdtEntry_objects]
    split at h
    · simp only [Except.ok.injEq, Prod.mk.injEq] at h
      obtain ⟨rfl, _, _⟩ := h; exact ⟨Nat.le_refl _, Nat.le_succ _⟩
    · simp only [] at h
      split at h
      · simp only [Except.ok.injEq, Prod.mk.injEq] at h
        obtain ⟨rfl, _, _⟩ := h
        exact ⟨by rw [heo]; exact Nat.le_refl _, he1⟩
      · split at h
        · cases h
        · rename_i f' _
          have := fdtDispatch_growth I _ s' id f' now r evs h
          simp only [] at this
          rw [ainsert_length_of_some _ _ _ _ he2] at this
          exact ⟨by unfold nObj at this heo ⊢; simp only [] at this; omega, Nat.le_trans this.2 he1⟩

theorem dropConflict_length (s : State σ) (p : Pkt) :
    (dropConflict s p).fdtReceivers.length ≤ s.fdtReceivers.length := by
  unfold dropConflict
  split
  · exact Nat.le_refl _
  · split
    · exact Nat.le_refl _
    · split
      · exact aerase_length_le _ _
      · exact Nat.le_refl _

theorem pushFdtObj_growth (I : ObjIface σ) (s s' : State σ) (p : Pkt) (now : Int) (ans : FdtAns)
    (r : Res) (evs : List Ev) (h : pushFdtObj I s p now ans = .ok (s', r, evs)) :
    nObj s' ≤ nObj s ∧ s'.fdtReceivers.length ≤ s.fdtReceivers.length + 1 := by
  have := pushFdtObjP_growth I (dropConflict s p) s' p now ans r evs h
  have hl := dropConflict_length s p
  have ho : nObj (dropConflict s p) = nObj s := by unfold nObj; rw [(dropConflict_frame s p).1]
  exact ⟨by rw [← ho]; exact this.1, by omega⟩

theorem updateExpiredAll_length (now : Int) :
    ∀ (l l' : List (Nat × FdtRecv σ)), updateExpiredAll now l = .ok l' → l'.length = l.length := by
  intro l
  induction l with
  | nil => intro l' h; simp [updateExpiredAll] at h; subst h; rfl
  | cons a r ih =>
    intro l' h
    obtain ⟨k, f⟩ := a
    unfold updateExpiredAll at h
    split at h
    · cases h
    · split at h
      · cases h
      · rename_i r' hr'
        injection h with h; subst h
        simp only [List.length_cons, ih r' hr']

/-- **One call grows `objects` and `fdt_receivers` by at most one entry each; a `cleanup` by none.** -/
theorem step_growth (I : ObjIface σ) (s s' : State σ) (op : Op) (r : Res) (evs : List Ev)
    (h : step I s op = .ok (s', r, evs)) :
    s'.objects.length ≤ s.objects.length + 1 ∧ s'.fdtReceivers.length ≤ s.fdtReceivers.length + 1 ∧
    (∀ now stale, op = .cleanup now stale →
      s'.objects.length ≤ s.objects.length ∧ s'.fdtReceivers.length ≤ s.fdtReceivers.length) := by
  cases op with
  | data d now ans =>
    refine ⟨?_, ?_, fun _ _ hc => by cases hc⟩
    all_goals
      simp only [step, pushData] at h
      split at h
      · simp only [Except.ok.injEq, Prod.mk.injEq] at h
        obtain ⟨rfl, _, _⟩ := h; exact Nat.le_succ _
      · simp only [Except.ok.injEq, Prod.mk.injEq] at h
        obtain ⟨rfl, _, _⟩ := h; exact Nat.le_succ _
      · rename_i p
        unfold push at h
        simp only [] at h
        split at h
        · have := pushFdtObj_growth I _ s' p now ans r evs h
          unfold nObj at this
          first
            | (refine Nat.le_trans this.1 ?_; split <;> exact Nat.le_succ _)
            | (refine Nat.le_trans this.2 ?_; split <;> exact Nat.le_refl _)
        · have := pushObj_nObj I _ s' p now r evs h
          unfold nObj at this
          first
            | (refine Nat.le_trans this.1 ?_; split <;> exact Nat.le_refl _)
            | (rw [this.2]; split <;> exact Nat.le_succ _)
  | cleanup now stale =>
    simp only [step] at h
    split at h
    · cases h
    · rename_i s1 ev hc
      simp only [Except.ok.injEq, Prod.mk.injEq] at h
      obtain ⟨rfl, _, _⟩ := h
      have key : s1.objects.length ≤ s.objects.length ∧ s1.fdtReceivers.length ≤ s.fdtReceivers.length := by
        unfold cleanup at hc
        simp only [] at hc
        split at hc
        · cases hc
        · rename_i s2 hc2
          simp only [Except.ok.injEq, Prod.mk.injEq] at hc
          obtain ⟨rfl, _⟩ := hc
          unfold cleanupFdt at hc2
          split at hc2
          · cases hc2
          · rename_i l hl
            injection hc2 with hc2; subst hc2
            simp only []
            refine ⟨?_, ?_⟩
            · unfold cleanupObjects
              split
              · exact Nat.le_refl _
              · -- removing objects never adds one
                have : ∀ (l : List Nat) (s : State σ), nObj (removeObjects I s l).1 ≤ nObj s := by
                  intro l
                  induction l with
                  | nil => intro s; exact Nat.le_refl _
                  | cons t ts ih =>
                    intro s
                    simp only [removeObjects]
                    exact Nat.le_trans (ih _) (removeObject_nObj I { s with errors := s.errors.filter (· ≠ t) } t)
                exact this _ s
            · refine Nat.le_trans (List.length_filter_le _ _) ?_
              rw [updateExpiredAll_length now _ _ hl, (cleanupObjects_fdt I s stale.obj).2.1]
              exact Nat.le_refl _
      exact ⟨Nat.le_succ_of_le key.1, Nat.le_succ_of_le key.2, fun _ _ _ => key⟩

end Flute.Recv
