import FluteModel.PathMap
/-
  Helper lemmas for C05 (filesystem writer confinement).  Core Lean only.
-/
namespace Flute.Lemmas.PathMap
open Flute Flute.PathMap

/-! ### strings -/

theorem splitSlash_ne_nil (s : Str) : splitSlash s ≠ [] := by
  induction s with
  | nil => simp [splitSlash]
  | cons c r ih =>
    unfold splitSlash
    by_cases h : c = 47
    · simp [h]
    · simp only [h, if_false]
      split <;> simp

theorem snoc_cases {α} (l : List α) : l = [] ∨ ∃ l' b, l = l' ++ [b] := by
  rcases List.eq_nil_or_concat l with h | ⟨l', b, h⟩
  · exact Or.inl h
  · exact Or.inr ⟨l', b, by simpa using h⟩

theorem splitSlash_append_sep (a b : Str) : splitSlash (a ++ 47 :: b) = splitSlash a ++ splitSlash b := by
  induction a with
  | nil => simp [splitSlash]
  | cons c r ih =>
    have hne := splitSlash_ne_nil r
    simp only [List.cons_append]
    by_cases h : c = 47
    · simp only [splitSlash, h, if_true, ih, List.cons_append]
    · simp only [splitSlash, h, if_false, ih]
      cases hr : splitSlash r with
      | nil => exact absurd hr hne
      | cons s t => simp

theorem components_nil : components [] = [] := by
  simp [components, hasRoot, splitSlash, parseSingle]

theorem all_normal_eq_map : ∀ (cs : List Comp), cs.all Comp.isNormal = true → ∃ l : List Seg, cs = l.map .normal
  | [], _ => ⟨[], rfl⟩
  | c :: r, h => by
    simp only [List.all_cons, Bool.and_eq_true] at h
    obtain ⟨l, hl⟩ := all_normal_eq_map r h.2
    cases c with
    | normal s => exact ⟨s :: l, by simp [hl]⟩
    | root => simp [Comp.isNormal] at h
    | cur => simp [Comp.isNormal] at h
    | parent => simp [Comp.isNormal] at h

/-- what the repair's check gives: the relative path is not rooted, has no leading ".", and its components are a
    non-empty list of normal segments -/
theorem relOk_spec (rel : Str) (h : relOk rel = true) :
    hasRoot rel = false ∧ (splitSlash rel).head? ≠ some [46] ∧
    ∃ l : List Seg, l ≠ [] ∧ components rel = l.map .normal ∧
      (splitSlash rel).filterMap parseSingle = l.map .normal := by
  unfold relOk at h
  have hne : components rel ≠ [] := by
    intro hc; simp [hc] at h
  have hall : (components rel).all Comp.isNormal = true := by
    cases hc : components rel with
    | nil => exact absurd hc hne
    | cons c r => rw [hc] at h; exact h
  by_cases hr : hasRoot rel = true
  · simp [components, hr, Comp.isNormal] at hall
  · simp only [Bool.not_eq_true] at hr
    by_cases hd : (splitSlash rel).head? = some [46]
    · simp [components, hr, hd, Comp.isNormal] at hall
    · have hc : components rel = (splitSlash rel).filterMap parseSingle := by
        simp [components, hr, hd]
      obtain ⟨l, hl⟩ := all_normal_eq_map _ hall
      refine ⟨hr, hd, l, ?_, hl, ?_⟩
      · intro hnil; subst hnil; simp [hl] at hne
      · rw [← hc]; exact hl

theorem parseSingle_nil : parseSingle [] = none := by simp [parseSingle]

/-- `dest.join(rel)` for an accepted `rel`: the components are those of `dest` followed by those of `rel` -/
theorem components_join (dest rel : Str) (hd : dest ≠ []) (h : relOk rel = true) :
    components (join dest rel) = components dest ++ components rel := by
  obtain ⟨hr, hdot, l, _, hl, hf⟩ := relOk_spec rel h
  -- shape of the joined string
  obtain ⟨a, hja, hsa, hha⟩ : ∃ a : Str, join dest rel = a ++ 47 :: rel ∧
      (splitSlash a).filterMap parseSingle = (splitSlash dest).filterMap parseSingle ∧
      (hasRoot (a ++ 47 :: rel) = hasRoot dest ∧ (splitSlash (a ++ 47 :: rel)).head? = (splitSlash dest).head?) := by
    unfold join
    simp only [hr]
    rcases snoc_cases dest with hnil | ⟨a, c, hdl⟩
    · exact absurd hnil hd
    · subst hdl
      simp only [List.getLast?_concat]
      by_cases hc : c = 47
      · subst hc
        refine ⟨a, by simp, ?_, ?_, ?_⟩
        · have : splitSlash (a ++ [47]) = splitSlash a ++ splitSlash [] := splitSlash_append_sep _ []
          rw [this]; simp [splitSlash, parseSingle]
        · cases a <;> simp [hasRoot]
        · rw [splitSlash_append_sep]
          have : splitSlash (a ++ [47]) = splitSlash a ++ splitSlash [] := splitSlash_append_sep _ []
          rw [this]
          have hne := splitSlash_ne_nil a
          cases hs : splitSlash a with
          | nil => exact absurd hs hne
          | cons x y => simp
      · refine ⟨a ++ [c], by simp [hc], rfl, ?_, ?_⟩
        · cases a <;> simp [hasRoot]
        · rw [splitSlash_append_sep]
          have hne := splitSlash_ne_nil (a ++ [c])
          cases hs : splitSlash (a ++ [c]) with
          | nil => exact absurd hs hne
          | cons x y => simp
  rw [hja]
  have hsplit : (splitSlash (a ++ 47 :: rel)).filterMap parseSingle =
      (splitSlash dest).filterMap parseSingle ++ (splitSlash rel).filterMap parseSingle := by
    rw [splitSlash_append_sep, List.filterMap_append, hsa]
  have hcr : components rel = (splitSlash rel).filterMap parseSingle := by rw [hl, hf]
  unfold components
  rw [hha.1, hha.2, hsplit]
  -- unfold the right-hand `components rel` back
  have : (if hasRoot rel = true then Comp.root :: List.filterMap parseSingle (splitSlash rel)
      else if (splitSlash rel).head? = some [46] then Comp.cur :: List.filterMap parseSingle (splitSlash rel)
      else List.filterMap parseSingle (splitSlash rel)) = List.filterMap parseSingle (splitSlash rel) := by
    simp [hr, hdot]
  rw [this]
  by_cases h1 : hasRoot dest = true
  · simp [h1]
  · by_cases h2 : (splitSlash dest).head? = some [46]
    · simp [h1, h2]
    · simp [h1, h2]


/-! ### kernel walk -/

theorem walk_append (fs : FS) : ∀ (a b : List Comp) (c : RPath),
    walk fs c (a ++ b) = match walk fs c a with
      | .ok p => walk fs p b
      | .error e => .error e
  | [], b, c => by simp [walk]
  | .root :: r, b, c => by simp only [List.cons_append, walk]; exact walk_append fs r b []
  | .cur :: r, b, c => by simp only [List.cons_append, walk]; exact walk_append fs r b c
  | .parent :: r, b, c => by simp only [List.cons_append, walk]; exact walk_append fs r b c.dropLast
  | .normal s :: r, b, c => by
    simp only [List.cons_append, walk]
    cases h : fs (c ++ [s]) with
    | none => simp
    | some k =>
      cases k with
      | dir => simp only []; exact walk_append fs r b (c ++ [s])
      | file => simp

theorem walk_normals (fs : FS) : ∀ (l : List Seg) (d p : RPath),
    walk fs d (l.map .normal) = .ok p → p = d ++ l
  | [], d, p, h => by simp [walk] at h; simp [h]
  | s :: r, d, p, h => by
    simp only [List.map_cons, walk] at h
    cases hk : fs (d ++ [s]) with
    | none => simp [hk] at h
    | some k =>
      cases k with
      | file => simp [hk] at h
      | dir =>
        simp only [hk] at h
        have := walk_normals fs r (d ++ [s]) p h
        simp [this]

/-- kernel resolution without symlinks IS lexical resolution -/
theorem walk_eq_resolveC (fs : FS) : ∀ (cs : List Comp) (c p : RPath),
    walk fs c cs = .ok p → p = resolveC c cs
  | [], c, p, h => by simp [walk] at h; simp [resolveC, h]
  | .root :: r, c, p, h => by simp only [walk] at h; simp only [resolveC]; exact walk_eq_resolveC fs r [] p h
  | .cur :: r, c, p, h => by simp only [walk] at h; simp only [resolveC]; exact walk_eq_resolveC fs r c p h
  | .parent :: r, c, p, h => by
    simp only [walk] at h; simp only [resolveC]; exact walk_eq_resolveC fs r c.dropLast p h
  | .normal s :: r, c, p, h => by
    simp only [walk] at h; simp only [resolveC]
    cases hk : fs (c ++ [s]) with
    | none => simp [hk] at h
    | some k =>
      cases k with
      | file => simp [hk] at h
      | dir => simp only [hk] at h; exact walk_eq_resolveC fs r (c ++ [s]) p h

theorem resolveC_append : ∀ (a b : List Comp) (c : RPath), resolveC c (a ++ b) = resolveC (resolveC c a) b
  | [], b, c => by simp [resolveC]
  | .root :: r, b, c => by simp only [List.cons_append, resolveC]; exact resolveC_append r b []
  | .cur :: r, b, c => by simp only [List.cons_append, resolveC]; exact resolveC_append r b c
  | .parent :: r, b, c => by simp only [List.cons_append, resolveC]; exact resolveC_append r b c.dropLast
  | .normal s :: r, b, c => by simp only [List.cons_append, resolveC]; exact resolveC_append r b (c ++ [s])

theorem resolveC_normals : ∀ (l : List Seg) (c : RPath), resolveC c (l.map .normal) = c ++ l
  | [], c => by simp [resolveC]
  | s :: r, c => by simp only [List.map_cons, resolveC]; rw [resolveC_normals r (c ++ [s])]; simp

/-- `fs'` only ADDS entries to `fs` -/
def Mono (fs fs' : FS) : Prop := ∀ q k, fs q = some k → fs' q = some k

theorem Mono.refl (fs : FS) : Mono fs fs := fun _ _ h => h
theorem Mono.trans {a b c : FS} (h1 : Mono a b) (h2 : Mono b c) : Mono a c := fun q k h => h2 q k (h1 q k h)

theorem Mono.set {fs : FS} {p : RPath} (h : fs p = none) (k : Option Kind) : Mono fs (fs.set p k) := by
  intro q k' hq
  unfold FS.set
  by_cases hqp : q = p
  · subst hqp; rw [h] at hq; cases hq
  · simp [hqp, hq]

theorem walk_mono {fs fs' : FS} (hm : Mono fs fs') : ∀ (cs : List Comp) (c p : RPath),
    walk fs c cs = .ok p → walk fs' c cs = .ok p
  | [], c, p, h => by simpa [walk] using h
  | .root :: r, c, p, h => by simp only [walk] at h ⊢; exact walk_mono hm r [] p h
  | .cur :: r, c, p, h => by simp only [walk] at h ⊢; exact walk_mono hm r c p h
  | .parent :: r, c, p, h => by simp only [walk] at h ⊢; exact walk_mono hm r c.dropLast p h
  | .normal s :: r, c, p, h => by
    simp only [walk] at h ⊢
    cases hk : fs (c ++ [s]) with
    | none => simp [hk] at h
    | some k =>
      cases k with
      | file => simp [hk] at h
      | dir =>
        simp only [hk] at h
        rw [hm _ _ hk]
        exact walk_mono hm r (c ++ [s]) p h

/-! ### confinement of the directory-creating steps -/

/-- everything that differs between `fs` and `fs'` lies strictly below `d`, and nothing was removed -/
def Ext (d : RPath) (fs fs' : FS) : Prop := (∀ q, fs' q ≠ fs q → Under d q) ∧ Mono fs fs'

theorem Ext.refl (d : RPath) (fs : FS) : Ext d fs fs := ⟨fun _ h => absurd rfl h, Mono.refl fs⟩

theorem Ext.trans {d : RPath} {a b c : FS} (h1 : Ext d a b) (h2 : Ext d b c) : Ext d a c := by
  refine ⟨fun q hq => ?_, h1.2.trans h2.2⟩
  by_cases hb : b q = a q
  · exact h2.1 q (by rw [hb]; exact hq)
  · exact h1.1 q hb

theorem Ext.set {d : RPath} {fs : FS} {p : RPath} (hu : Under d p) (h : fs p = none) (k : Option Kind) :
    Ext d fs (fs.set p k) := by
  refine ⟨fun q hq => ?_, Mono.set h k⟩
  unfold FS.set at hq
  by_cases hqp : q = p
  · subst hqp; exact hu
  · simp [hqp] at hq

/-- like `Ext`, and the only differences are NEW DIRECTORIES -/
def DExt (d : RPath) (fs fs' : FS) : Prop :=
  (∀ q, fs' q ≠ fs q → Under d q ∧ fs q = none ∧ fs' q = some .dir) ∧ Mono fs fs'

theorem DExt.toExt {d : RPath} {fs fs' : FS} (h : DExt d fs fs') : Ext d fs fs' :=
  ⟨fun q hq => (h.1 q hq).1, h.2⟩

theorem DExt.refl (d : RPath) (fs : FS) : DExt d fs fs := ⟨fun _ h => absurd rfl h, Mono.refl fs⟩

theorem DExt.trans {d : RPath} {a b c : FS} (h1 : DExt d a b) (h2 : DExt d b c) : DExt d a c := by
  refine ⟨fun q hq => ?_, h1.2.trans h2.2⟩
  by_cases hb : b q = a q
  · obtain ⟨hu, hn, hd⟩ := h2.1 q (by rw [hb]; exact hq)
    exact ⟨hu, by rw [← hb]; exact hn, hd⟩
  · obtain ⟨hu, hn, hd⟩ := h1.1 q hb
    exact ⟨hu, hn, h2.2 q _ hd⟩

theorem DExt.set {d : RPath} {fs : FS} {p : RPath} (hu : Under d p) (h : fs p = none) :
    DExt d fs (fs.set p (some .dir)) := by
  refine ⟨fun q hq => ?_, Mono.set h _⟩
  unfold FS.set at hq ⊢
  by_cases hqp : q = p
  · subst hqp; exact ⟨hu, h, by simp⟩
  · simp [hqp] at hq

/-- mkdir of an existing directory (a path the kernel resolves) answers EEXIST -/
theorem mkdir_existing (fs : FS) (cwd : RPath) (cd : List Comp) (d : RPath)
    (hw : walk fs cwd cd = .ok d) (hne : cd ≠ []) : mkdir fs cwd cd = .error .eexist := by
  rcases snoc_cases cd with h | ⟨a, last, h⟩
  · exact absurd h hne
  · subst h
    rw [walk_append] at hw
    unfold mkdir
    simp only [List.getLast?_concat, List.dropLast_concat]
    cases ha : walk fs cwd a with
    | error e => simp [ha] at hw
    | ok d' =>
      simp only [ha] at hw ⊢
      cases last with
      | normal s =>
        simp only [walk] at hw
        cases hk : fs (d' ++ [s]) with
        | none => simp [hk] at hw
        | some k => simp [hk]
      | root => rfl
      | cur => rfl
      | parent => rfl

/-- a path below `dest`: the components of `dest` followed by a non-empty list of plain names -/
def Below (cd : List Comp) (x : List Comp) : Prop := ∃ m : List Seg, m ≠ [] ∧ x = cd ++ m.map .normal

/-- a successful mkdir on `dest/<names>` creates exactly `resolve(dest)/<names>`, strictly below `dest` -/
theorem mkdir_below (fs : FS) (cwd : RPath) (cd : List Comp) (d : RPath) (l : List Seg)
    (hw : walk fs cwd cd = .ok d) (fs' : FS) (p : RPath)
    (h : mkdir fs cwd (cd ++ l.map .normal) = .ok (fs', p)) :
    l ≠ [] ∧ p = d ++ l ∧ DExt d fs fs' := by
  rcases snoc_cases l with hl | ⟨l', s, hl⟩
  · subst hl
    simp only [List.map_nil, List.append_nil] at h
    by_cases hcd : cd = []
    · subst hcd; simp [mkdir] at h
    · rw [mkdir_existing fs cwd cd d hw hcd] at h; cases h
  · subst hl
    have hcs : cd ++ (l' ++ [s]).map Comp.normal = (cd ++ l'.map .normal) ++ [.normal s] := by simp
    rw [hcs] at h
    unfold mkdir at h
    simp only [List.getLast?_concat, List.dropLast_concat] at h
    rw [walk_append, hw] at h
    simp only [] at h
    cases hw' : walk fs d (l'.map .normal) with
    | error e => simp [hw'] at h
    | ok d' =>
      have hd' := walk_normals fs l' d d' hw'
      simp only [hw'] at h
      cases hk : fs (d' ++ [s]) with
      | some k => simp [hk] at h
      | none =>
        simp only [hk] at h
        injection h with h
        injection h with h1 h2
        subst hd'
        refine ⟨by simp, by simp [← h2], ?_⟩
        rw [← h1]
        exact DExt.set ⟨l' ++ [s], by simp, by simp⟩ hk

theorem isDirC_mono {fs fs' : FS} (hm : Mono fs fs') (cwd : RPath) (cs : List Comp) :
    isDirC fs cwd cs = true → isDirC fs' cwd cs = true := by
  unfold isDirC
  cases cs with
  | nil => simp
  | cons c r =>
    simp only []
    cases h : walk fs cwd (c :: r) with
    | error e => simp
    | ok p => simp [walk_mono hm _ _ _ h]


theorem parentC_some (cs par : List Comp) (h : parentC cs = some par) : par = cs.dropLast := by
  unfold parentC at h
  split at h <;> simp_all

theorem below_dropLast (cd : List Comp) (l' : List Seg) (s : Seg) :
    (cd ++ (l' ++ [s]).map Comp.normal).dropLast = cd ++ l'.map .normal := by
  have : cd ++ (l' ++ [s]).map Comp.normal = (cd ++ l'.map .normal) ++ [.normal s] := by simp
  rw [this, List.dropLast_concat]

/-- first loop of `create_dir_all` on `dest/<names>`: creates at most one directory, strictly below `dest`,
    and only postpones paths strictly below `dest` -/
theorem cdaUp_conf (fs : FS) (cwd : RPath) (cd : List Comp) (d : RPath) (hw : walk fs cwd cd = .ok d) :
    ∀ (n : Nat) (l : List Seg) (pend : List (List Comp)), (∀ x ∈ pend, Below cd x) →
    ∀ (fs' : FS) (ds : List RPath) (pend' : List (List Comp)),
      cdaUp fs cwd n (cd ++ l.map .normal) pend = .ok (fs', ds, pend') →
      DExt d fs fs' ∧ (∀ p ∈ ds, Under d p) ∧ (∀ x ∈ pend', Below cd x) := by
  intro n
  induction n with
  | zero =>
    intro l pend hp fs' ds pend' h
    simp only [cdaUp] at h
    injection h with h; injection h with h1 h; injection h with h2 h3
    subst h1; subst h2; subst h3
    exact ⟨DExt.refl d fs, by simp, hp⟩
  | succ n ih =>
    intro l pend hp fs' ds pend' h
    have triv : (Except.ok (fs, ([] : List RPath), pend) : Except Errno _) = .ok (fs', ds, pend') →
        DExt d fs fs' ∧ (∀ p ∈ ds, Under d p) ∧ (∀ x ∈ pend', Below cd x) := by
      intro h
      injection h with h; injection h with h1 h; injection h with h2 h3
      subst h1; subst h2; subst h3
      exact ⟨DExt.refl d fs, by simp, hp⟩
    generalize hcs : cd ++ l.map Comp.normal = cs at h
    unfold cdaUp at h
    cases cs with
    | nil => exact triv h
    | cons c r =>
      simp only [] at h
      cases hpar : parentC (c :: r) with
      | none => simp only [hpar] at h; exact triv h
      | some par =>
        simp only [hpar] at h
        cases hmk : mkdir fs cwd (c :: r) with
        | ok v =>
          obtain ⟨fs1, p⟩ := v
          simp only [hmk] at h
          injection h with h; injection h with h1 h; injection h with h2 h3
          subst h1; subst h2; subst h3
          rw [← hcs] at hmk
          obtain ⟨hl, hp', hext⟩ := mkdir_below fs cwd cd d l hw _ _ hmk
          refine ⟨hext, ?_, hp⟩
          intro q hq
          simp only [List.mem_singleton] at hq
          subst hq
          exact ⟨l, hl, hp'⟩
        | error e =>
          simp only [hmk] at h
          cases e with
          | enoent =>
            simp only [] at h
            -- `l` cannot be empty: mkdir of `dest` itself answers EEXIST
            rcases snoc_cases l with hl | ⟨l', s, hl⟩
            · subst hl
              simp only [List.map_nil, List.append_nil] at hcs
              rw [← hcs] at hmk
              have hne : cd ≠ [] := by rw [hcs]; simp
              rw [mkdir_existing fs cwd cd d hw hne] at hmk
              cases hmk
            · subst hl
              have hpar' := parentC_some _ _ hpar
              rw [← hcs, below_dropLast] at hpar'
              rw [hpar'] at h
              refine ih l' ((c :: r) :: pend) ?_ fs' ds pend' h
              intro x hx
              simp only [List.mem_cons] at hx
              rcases hx with hx | hx
              · subst hx; exact ⟨l' ++ [s], by simp, hcs.symm⟩
              · exact hp x hx
          | eexist =>
            simp only [] at h
            split at h
            · exact triv h
            · cases h
          | enotdir => cases h
          | eisdir => cases h

/-- second loop of `create_dir_all`: every directory it creates lies strictly below `dest` -/
theorem cdaDown_conf (cwd : RPath) (cd : List Comp) (d : RPath) :
    ∀ (pend : List (List Comp)) (fs : FS) (acc : List RPath),
      walk fs cwd cd = .ok d → (∀ x ∈ pend, Below cd x) → (∀ p ∈ acc, Under d p) →
      DExt d fs (cdaDown cwd fs pend acc).fs ∧ (∀ p ∈ (cdaDown cwd fs pend acc).dirs, Under d p)
  | [], fs, acc, _, _, ha => by simp only [cdaDown]; exact ⟨DExt.refl d fs, ha⟩
  | cs :: rest, fs, acc, hw, hp, ha => by
    obtain ⟨m, hm, hcs⟩ := hp cs (by simp)
    have hrest : ∀ x ∈ rest, Below cd x := fun x hx => hp x (by simp [hx])
    unfold cdaDown
    cases hmk : mkdir fs cwd cs with
    | ok v =>
      obtain ⟨fs1, p⟩ := v
      simp only []
      rw [hcs] at hmk
      obtain ⟨_, hp', hext⟩ := mkdir_below fs cwd cd d m hw _ _ hmk
      have hw1 := walk_mono hext.2 _ _ _ hw
      have := cdaDown_conf cwd cd d rest fs1 (acc ++ [p]) hw1 hrest (by
        intro q hq
        simp only [List.mem_append, List.mem_singleton] at hq
        rcases hq with hq | hq
        · exact ha q hq
        · subst hq; exact ⟨m, hm, hp'⟩)
      exact ⟨hext.trans this.1, this.2⟩
    | error e =>
      cases e with
      | eexist =>
        simp only []
        split
        · exact cdaDown_conf cwd cd d rest fs acc hw hrest ha
        · exact ⟨DExt.refl d fs, ha⟩
      | enoent => exact ⟨DExt.refl d fs, ha⟩
      | enotdir => exact ⟨DExt.refl d fs, ha⟩
      | eisdir => exact ⟨DExt.refl d fs, ha⟩

/-- `create_dir_all(dest/<names>)` -/
theorem createDirAll_conf (fs : FS) (cwd : RPath) (cd : List Comp) (d : RPath) (l : List Seg)
    (hw : walk fs cwd cd = .ok d) :
    DExt d fs (createDirAll fs cwd (cd ++ l.map .normal)).fs ∧
    (∀ p ∈ (createDirAll fs cwd (cd ++ l.map .normal)).dirs, Under d p) := by
  unfold createDirAll
  split
  · exact ⟨DExt.refl d fs, by simp⟩
  · split
    · exact ⟨DExt.refl d fs, by simp⟩
    · split
      · exact ⟨DExt.refl d fs, by simp⟩
      · rename_i fs1 d1 pend hup
        obtain ⟨hext, hd1, hpend⟩ := cdaUp_conf fs cwd cd d hw _ l [] (by simp) fs1 d1 pend hup
        have hw1 := walk_mono hext.2 _ _ _ hw
        have := cdaDown_conf cwd cd d pend fs1 d1 hw1 hpend hd1
        exact ⟨hext.trans this.1, this.2⟩


/-! ### File::create / remove_file on `dest/<names>` -/

theorem lookupParent_below (fs : FS) (cwd : RPath) (p : Str) (cd : List Comp) (d : RPath) (l' : List Seg) (s : Seg)
    (hc : components p = cd ++ (l' ++ [s]).map .normal) (hw : walk fs cwd cd = .ok d)
    (f : RPath) (h : lookupParent fs cwd p = .ok f) :
    f = d ++ (l' ++ [s]) ∧ ∀ fs' : FS, Mono fs fs' → lookupParent fs' cwd p = .ok f := by
  unfold lookupParent at h ⊢
  have hlast : (components p).getLast? = some (.normal s) := by
    rw [hc]; have : cd ++ (l' ++ [s]).map Comp.normal = (cd ++ l'.map .normal) ++ [.normal s] := by simp
    rw [this, List.getLast?_concat]
  have hdrop : (components p).dropLast = cd ++ l'.map .normal := by rw [hc, below_dropLast]
  cases ht : trailingDir p with
  | true => simp [ht] at h
  | false =>
    simp only [ht, Bool.false_eq_true, if_false, hlast, hdrop] at h ⊢
    cases hwk : walk fs cwd (cd ++ l'.map .normal) with
    | error e => simp [hwk] at h
    | ok d' =>
      simp only [hwk] at h
      injection h with h
      have hd' : d' = d ++ l' := by
        rw [walk_append, hw] at hwk
        exact walk_normals fs l' d d' hwk
      refine ⟨by rw [← h, hd']; simp, ?_⟩
      intro fs' hm
      simp only [walk_mono hm _ _ _ hwk, h]

/-- what `open` leaves behind when the relative path passed the repair's check -/
structure OpenSpec (fs : FS) (cwd : RPath) (dest rel : Str) (d : RPath) (o : OpenRes) : Prop where
  ext : Ext d fs o.fs
  failed : o.opened = none → DExt d fs o.fs
  dirs : ∀ p ∈ o.dirs, Under d p
  opened : ∀ dst f fresh, o.opened = some (dst, f, fresh) →
    dst = join dest rel ∧ Under d f ∧ f = resolveC d (components rel) ∧
    o.fs f = some .file ∧ lookupParent o.fs cwd dst = .ok f

theorem openAt_conf (fs : FS) (cwd : RPath) (dest rel : Str) (d : RPath)
    (hw : walk fs cwd (components dest) = .ok d) (hdne : dest ≠ []) (hrel : relOk rel = true) :
    OpenSpec fs cwd dest rel d (openAt fs cwd dest rel) := by
  obtain ⟨_, _, l, hl, hcr, _⟩ := relOk_spec rel hrel
  have hcj : components (join dest rel) = components dest ++ l.map .normal := by
    rw [components_join dest rel hdne hrel, hcr]
  rcases snoc_cases l with h0 | ⟨l', s, hls⟩
  · exact absurd h0 hl
  subst hls
  have hres : resolveC d (components rel) = d ++ (l' ++ [s]) := by rw [hcr, resolveC_normals]
  have hpar : parentC (components (join dest rel)) = some (components dest ++ l'.map .normal) := by
    rw [hcj]
    have : components dest ++ (l' ++ [s]).map Comp.normal = (components dest ++ l'.map .normal) ++ [.normal s] := by simp
    unfold parentC
    rw [this, List.getLast?_concat, List.dropLast_concat]
  -- the directory-creating step
  obtain ⟨made, hmade, hmext, hmdirs⟩ : ∃ made : Partial,
      made = (if isDirC fs cwd (components dest ++ l'.map .normal) then (⟨fs, [], none⟩ : Partial)
              else createDirAll fs cwd (components dest ++ l'.map .normal)) ∧
      DExt d fs made.fs ∧ (∀ p ∈ made.dirs, Under d p) := by
    refine ⟨_, rfl, ?_⟩
    split
    · exact ⟨DExt.refl d fs, by simp⟩
    · exact createDirAll_conf fs cwd (components dest) d l' hw
  have hwm : walk made.fs cwd (components dest) = .ok d := walk_mono hmext.2 _ _ _ hw
  unfold openAt
  simp only [hpar, ← hmade]
  cases herr : made.err with
  | some e => exact ⟨hmext.toExt, fun _ => hmext, hmdirs, by intro _ _ _ h; cases h⟩
  | none =>
    simp only []
    unfold fileCreate
    cases hlp : lookupParent made.fs cwd (join dest rel) with
    | error e => exact ⟨hmext.toExt, fun _ => hmext, hmdirs, by intro _ _ _ h; cases h⟩
    | ok f =>
      obtain ⟨hf, hlm⟩ := lookupParent_below made.fs cwd _ _ d l' s hcj hwm f hlp
      have hu : Under d f := ⟨l' ++ [s], by simp, hf⟩
      simp only []
      cases hk : made.fs f with
      | none =>
        simp only []
        have hext2 : Ext d made.fs (made.fs.set f (some .file)) := Ext.set hu hk _
        refine ⟨hmext.toExt.trans hext2, (by intro h; cases h), hmdirs, ?_⟩
        intro dst f' fresh h
        injection h with h; injection h with h1 h; injection h with h2 h3
        subst h1; subst h2
        exact ⟨rfl, hu, by rw [hres]; exact hf, by simp [FS.set], hlm _ hext2.2⟩
      | some k =>
        cases k with
        | dir => exact ⟨hmext.toExt, fun _ => hmext, hmdirs, by intro _ _ _ h; cases h⟩
        | file =>
          simp only []
          refine ⟨hmext.toExt, (by intro h; cases h), hmdirs, ?_⟩
          intro dst f' fresh h
          injection h with h; injection h with h1 h; injection h with h2 h3
          subst h1; subst h2
          exact ⟨rfl, hu, by rw [hres]; exact hf, hk, hlp⟩


theorem isDirC_of_walk (fs : FS) (cwd : RPath) (cs : List Comp) (p : RPath) (hne : cs ≠ [])
    (h : walk fs cwd cs = .ok p) : isDirC fs cwd cs = true := by
  unfold isDirC
  cases cs with
  | nil => exact absurd rfl hne
  | cons c r => simp only [h]

/-- opening the same location again (a later object with the same Content-Location, "existing files will be
    overwritten"): no directory is created, the same file is truncated, nothing else changes -/
theorem openAt_again (fs : FS) (cwd : RPath) (dest rel : Str) (d : RPath)
    (hw : walk fs cwd (components dest) = .ok d) (hdne : dest ≠ []) (hcne : components dest ≠ [])
    (hrel : relOk rel = true)
    (dst : Str) (f : RPath) (fresh : Bool) (hop : (openAt fs cwd dest rel).opened = some (dst, f, fresh)) :
    openAt (openAt fs cwd dest rel).fs cwd dest rel =
      ⟨(openAt fs cwd dest rel).fs, [], some (dst, f, false)⟩ := by
  have spec := openAt_conf fs cwd dest rel d hw hdne hrel
  obtain ⟨hdst, hu, hf, hfile, hlp⟩ := spec.opened dst f fresh hop
  obtain ⟨_, _, l, hl, hcr, _⟩ := relOk_spec rel hrel
  have hcj : components (join dest rel) = components dest ++ l.map .normal := by
    rw [components_join dest rel hdne hrel, hcr]
  rcases snoc_cases l with h0 | ⟨l', s, hls⟩
  · exact absurd h0 hl
  subst hls
  have hpar : parentC (components (join dest rel)) = some (components dest ++ l'.map .normal) := by
    rw [hcj]
    have : components dest ++ (l' ++ [s]).map Comp.normal = (components dest ++ l'.map .normal) ++ [.normal s] := by simp
    unfold parentC
    rw [this, List.getLast?_concat, List.dropLast_concat]
  generalize hofs : (openAt fs cwd dest rel).fs = ofs at hfile hlp ⊢
  -- the parent directory exists in `o.fs` (the lookup of the file succeeded there)
  have hdir : isDirC ofs cwd (components dest ++ l'.map .normal) = true := by
    have hlp' := hlp
    rw [hdst] at hlp'
    unfold lookupParent at hlp'
    have hlast : (components (join dest rel)).getLast? = some (.normal s) := by
      rw [hcj]
      have : components dest ++ (l' ++ [s]).map Comp.normal = (components dest ++ l'.map .normal) ++ [.normal s] := by simp
      rw [this, List.getLast?_concat]
    have hdrop : (components (join dest rel)).dropLast = components dest ++ l'.map .normal := by
      rw [hcj, below_dropLast]
    cases ht : trailingDir (join dest rel) with
    | true => simp [ht] at hlp'
    | false =>
      simp only [ht, Bool.false_eq_true, if_false, hlast, hdrop] at hlp'
      cases hwk : walk ofs cwd (components dest ++ l'.map .normal) with
      | error e => simp [hwk] at hlp'
      | ok d' =>
        exact isDirC_of_walk ofs cwd _ d' (by simp [hcne]) hwk
  unfold openAt
  simp only [hpar, hdir, if_true]
  unfold fileCreate
  rw [← hdst, hlp]
  simp only [hfile]


/-- the builder's own check (`dest.is_dir()`): the kernel resolves `dest`, to its lexical resolution -/
theorem builder_dest (fs : FS) (cwd : RPath) (dest : Str) (hb : builderNew fs cwd dest = true) :
    dest ≠ [] ∧ walk fs cwd (components dest) = .ok (resolve cwd dest) := by
  unfold builderNew isDirC at hb
  have hne : dest ≠ [] := by
    intro h; subst h; simp [components_nil] at hb
  refine ⟨hne, ?_⟩
  cases hc : components dest with
  | nil => simp [hc] at hb
  | cons c r =>
    simp only [hc] at hb
    cases hw : walk fs cwd (c :: r) with
    | error e => simp [hw] at hb
    | ok p =>
      have := walk_eq_resolveC fs _ _ _ hw
      rw [this, resolve, hc]

theorem join_shape (dest rel : Str) (hd : dest ≠ []) (hr : hasRoot rel = false) :
    ∃ a : Str, join dest rel = a ++ 47 :: rel := by
  unfold join
  simp only [hr]
  rcases snoc_cases dest with hnil | ⟨a, c, hdl⟩
  · exact absurd hnil hd
  · subst hdl
    simp only [List.getLast?_concat]
    by_cases hc : c = 47
    · subst hc; exact ⟨a, by simp⟩
    · exact ⟨a ++ [c], by simp [hc]⟩

theorem splitSlash_noslash : ∀ (s : Str), 47 ∉ s → splitSlash s = [s]
  | [], _ => by simp [splitSlash]
  | c :: r, h => by
    have hc : c ≠ 47 := fun hc => h (by simp [hc])
    have hr : 47 ∉ r := fun hr => h (by simp [hr])
    simp only [splitSlash, hc, if_false, splitSlash_noslash r hr]


/-- a plain name directly below `dest` (e.g. `file:///hello`): `open` succeeds unless the name is an existing
    directory; no directory is created -/
theorem openAt_plain_name (fs : FS) (cwd : RPath) (dest name : Str) (d : RPath)
    (hw : walk fs cwd (components dest) = .ok d) (hdne : dest ≠ []) (hcne : components dest ≠ [])
    (h47 : 47 ∉ name) (hne : name ≠ []) (hd : name ≠ [46]) (hdd : name ≠ [46, 46])
    (hnd : fs (d ++ [name]) ≠ some .dir) :
    (openAt fs cwd dest name).dirs = [] ∧
    (openAt fs cwd dest name).opened = some (join dest name, d ++ [name], (fs (d ++ [name])).isNone) := by
  have hroot : hasRoot name = false := by
    cases name with
    | nil => rfl
    | cons c r =>
      have : c ≠ 47 := fun hc => h47 (by simp [hc])
      simp [hasRoot, this]
  have hcn : components name = [.normal name] := by
    unfold components
    simp [hroot, splitSlash_noslash name h47, hd, parseSingle, hne, hdd]
  have hrel : relOk name = true := by simp [relOk, hcn, Comp.isNormal]
  have hcj : components (join dest name) = components dest ++ [.normal name] := by
    rw [components_join dest name hdne hrel, hcn]
  obtain ⟨a, ha⟩ := join_shape dest name hdne hroot
  have htr : trailingDir (join dest name) = false := by
    unfold trailingDir
    rw [ha, splitSlash_append_sep, splitSlash_noslash name h47, List.getLast?_concat]
    simp [hne, hd, hdd]
  have hpar : parentC (components (join dest name)) = some (components dest) := by
    rw [hcj]; unfold parentC; rw [List.getLast?_concat, List.dropLast_concat]
  have hdir : isDirC fs cwd (components dest) = true := isDirC_of_walk fs cwd _ d hcne hw
  unfold openAt
  simp only [hpar, hdir, if_true]
  unfold fileCreate lookupParent
  simp only [htr, Bool.false_eq_true, if_false, hcj, List.getLast?_concat, List.dropLast_concat, hw]
  cases hk : fs (d ++ [name]) with
  | none => simp
  | some k =>
    cases k with
    | dir => exact absurd hk hnd
    | file => simp


/-! ### histories -/

/-- removing a FILE does not disturb any successful walk (walks only pass through directories) -/
theorem walk_set_file {fs : FS} {g : RPath} (hg : fs g = some .file) : ∀ (cs : List Comp) (c p : RPath),
    walk fs c cs = .ok p → walk (fs.set g none) c cs = .ok p
  | [], c, p, h => by simpa [walk] using h
  | .root :: r, c, p, h => by simp only [walk] at h ⊢; exact walk_set_file hg r [] p h
  | .cur :: r, c, p, h => by simp only [walk] at h ⊢; exact walk_set_file hg r c p h
  | .parent :: r, c, p, h => by simp only [walk] at h ⊢; exact walk_set_file hg r c.dropLast p h
  | .normal s :: r, c, p, h => by
    simp only [walk] at h ⊢
    cases hk : fs (c ++ [s]) with
    | none => simp [hk] at h
    | some k =>
      cases k with
      | file => simp [hk] at h
      | dir =>
        simp only [hk] at h
        have hne : c ++ [s] ≠ g := by intro he; rw [he, hg] at hk; cases hk
        have : (fs.set g none) (c ++ [s]) = some .dir := by simp [FS.set, hne, hk]
        rw [this]
        exact walk_set_file hg r (c ++ [s]) p h

/-- all differences between two filesystems lie strictly below `d` -/
def Diff (d : RPath) (a b : FS) : Prop := ∀ q, b q ≠ a q → Under d q

theorem Diff.refl (d : RPath) (a : FS) : Diff d a a := fun _ h => absurd rfl h

theorem Diff.trans {d : RPath} {a b c : FS} (h1 : Diff d a b) (h2 : Diff d b c) : Diff d a c := by
  intro q hq
  by_cases hb : b q = a q
  · exact h2 q (by rw [hb]; exact hq)
  · exact h1 q hb

/-- the stored destination of a writer is `dest.join(rel)` for a relative path that passed the check -/
def WOk (dest : Str) (w : Writer) : Prop :=
  ∀ dst, w.destination = some dst → ∃ rel, relOk rel = true ∧ dst = join dest rel

/-- `remove_file(destination)` in ANY later filesystem in which `dest` is still the same directory: it can only
    remove the file `resolve(dest)/<names>`, strictly below `dest`, and leaves `dest` resolvable -/
theorem unlink_conf (fs : FS) (cwd : RPath) (dest rel : Str) (d : RPath)
    (hw : walk fs cwd (components dest) = .ok d) (hdne : dest ≠ []) (hrel : relOk rel = true)
    (fs' : FS) (g : RPath) (h : unlink fs cwd (join dest rel) = .ok (fs', g)) :
    Under d g ∧ g = resolveC d (components rel) ∧ Diff d fs fs' ∧ walk fs' cwd (components dest) = .ok d := by
  obtain ⟨_, _, l, hl, hcr, _⟩ := relOk_spec rel hrel
  have hcj : components (join dest rel) = components dest ++ l.map .normal := by
    rw [components_join dest rel hdne hrel, hcr]
  rcases snoc_cases l with h0 | ⟨l', s, hls⟩
  · exact absurd h0 hl
  subst hls
  unfold unlink at h
  cases hlp : lookupParent fs cwd (join dest rel) with
  | error e => simp [hlp] at h
  | ok f =>
    obtain ⟨hf, _⟩ := lookupParent_below fs cwd _ _ d l' s hcj hw f hlp
    simp only [hlp] at h
    cases hk : fs f with
    | none => simp [hk] at h
    | some k =>
      cases k with
      | dir => simp [hk] at h
      | file =>
        simp only [hk] at h
        injection h with h
        injection h with h1 h2
        subst h2
        have hu : Under d f := ⟨l' ++ [s], by simp, hf⟩
        refine ⟨hu, by rw [hcr, resolveC_normals]; exact hf, ?_, ?_⟩
        · intro q hq
          rw [← h1] at hq
          by_cases hqf : q = f
          · rw [hqf]; exact hu
          · simp [FS.set, hqf] at hq
        · rw [← h1]; exact walk_set_file hk _ _ _ hw

/-- one call on one writer, whatever the call and whatever happened before -/
theorem callWriter_conf (fs : FS) (cwd : RPath) (dest : Str) (d : RPath) (w : Writer) (c : Call)
    (hw : walk fs cwd (components dest) = .ok d) (hdne : dest ≠ []) (hwok : WOk dest w) :
    walk (callWriter fs cwd dest w c).1 cwd (components dest) = .ok d ∧
    Diff d fs (callWriter fs cwd dest w c).1 ∧
    (∀ e ∈ (callWriter fs cwd dest w c).2.2.1, Under d e.path) ∧
    WOk dest (callWriter fs cwd dest w c).2.1 ∧
    (callWriter fs cwd dest w c).2.1.loc = w.loc ∧ (callWriter fs cwd dest w c).2.1.ans = w.ans := by
  have hnone : ∀ w' : Writer, w'.destination = none → WOk dest w' := by
    intro w' h dst hd; rw [h] at hd; cases hd
  have herr : ∀ c', (c' = Call.error ∨ c' = Call.interrupted) →
      walk (callWriter fs cwd dest w c').1 cwd (components dest) = .ok d ∧
      Diff d fs (callWriter fs cwd dest w c').1 ∧
      (∀ e ∈ (callWriter fs cwd dest w c').2.2.1, Under d e.path) ∧
      WOk dest (callWriter fs cwd dest w c').2.1 ∧
      (callWriter fs cwd dest w c').2.1.loc = w.loc ∧ (callWriter fs cwd dest w c').2.1.ans = w.ans := by
    intro c' hc'
    have hcw : callWriter fs cwd dest w c' =
        (match w.destination with
          | none => (fs, w, [], true)
          | some dst =>
            match unlink fs cwd dst with
            | .ok (fs', g) => (fs', { w with destination := none }, [.remove g], true)
            | .error _ => (fs, { w with destination := none }, [], true)) := by
      rcases hc' with h | h <;> subst h <;> rfl
    rw [hcw]
    cases hd : w.destination with
    | none => exact ⟨hw, Diff.refl d fs, by simp, hwok, rfl, rfl⟩
    | some dst =>
      obtain ⟨rel, hrel, hdst⟩ := hwok dst hd
      simp only []
      cases hu : unlink fs cwd dst with
      | error e => exact ⟨hw, Diff.refl d fs, by simp, hnone _ rfl, rfl, rfl⟩
      | ok v =>
        obtain ⟨fs', g⟩ := v
        rw [hdst] at hu
        obtain ⟨hug, _, hdiff, hw'⟩ := unlink_conf fs cwd dest rel d hw hdne hrel fs' g hu
        refine ⟨hw', hdiff, ?_, hnone _ rfl, rfl, rfl⟩
        intro e he
        simp only [List.mem_singleton] at he
        rw [he]; exact hug
  cases c with
  | error => exact herr _ (Or.inl rfl)
  | interrupted => exact herr _ (Or.inr rfl)
  | write => exact ⟨hw, Diff.refl d fs, by simp [callWriter], hwok, rfl, rfl⟩
  | complete => exact ⟨hw, Diff.refl d fs, by simp [callWriter], hnone _ rfl, rfl, rfl⟩
  | «open» =>
    simp only [callWriter]
    cases hm : mapLoc w.loc w.ans with
    | none =>
      have ho : PathMap.open fs cwd dest w.loc w.ans = ⟨fs, [], none⟩ := by simp only [PathMap.open, hm]
      rw [ho]
      exact ⟨hw, Diff.refl d fs, by simp [openEffects], hwok, rfl, rfl⟩
    | some rel =>
      have ho : PathMap.open fs cwd dest w.loc w.ans = openAt fs cwd dest rel := by simp only [PathMap.open, hm]
      have hrel : relOk rel = true := by
        unfold mapLoc at hm
        split at hm
        · cases hm
        · split at hm
          · injection hm with hm; rw [← hm]; assumption
          · cases hm
      have spec := openAt_conf fs cwd dest rel d hw hdne hrel
      rw [ho]
      have hw' := walk_mono spec.ext.2 _ _ _ hw
      cases hop : (openAt fs cwd dest rel).opened with
      | none =>
        refine ⟨hw', spec.ext.1, ?_, hwok, rfl, rfl⟩
        intro e he
        simp only [openEffects, hop, List.append_nil, List.mem_map] at he
        obtain ⟨p, hp, hpe⟩ := he
        rw [← hpe]; exact spec.dirs p hp
      | some v =>
        obtain ⟨dst, f, fresh⟩ := v
        obtain ⟨hdst, hu, _⟩ := spec.opened dst f fresh hop
        refine ⟨hw', spec.ext.1, ?_, ?_, rfl, rfl⟩
        · intro e he
          simp only [openEffects, hop, List.mem_append, List.mem_map, List.mem_singleton] at he
          rcases he with ⟨p, hp, hpe⟩ | he
          · rw [← hpe]; exact spec.dirs p hp
          · rw [he]; cases fresh <;> exact hu
        · intro dst' hd'
          simp only [Option.some.injEq] at hd'
          exact ⟨rel, hrel, by rw [← hd', hdst]⟩


/-- invariant of a history: `dest` still resolves to the same directory, every writer's stored destination is
    `dest.join(<checked relative path>)` -/
def SysInv (cwd : RPath) (dest : Str) (d : RPath) (s : Sys) : Prop :=
  walk s.fs cwd (components dest) = .ok d ∧ ∀ w ∈ s.writers, WOk dest w

theorem hstep_conf (cwd : RPath) (dest : Str) (d : RPath) (hdne : dest ≠ []) (s : Sys) (op : HOp)
    (hi : SysInv cwd dest d s) :
    SysInv cwd dest d (hstep cwd dest s op).1 ∧ Diff d s.fs (hstep cwd dest s op).1.fs ∧
    (∀ e ∈ (hstep cwd dest s op).2, Under d e.path) := by
  obtain ⟨hw, hws⟩ := hi
  cases op with
  | new loc ans =>
    refine ⟨⟨hw, ?_⟩, Diff.refl d _, by simp [hstep]⟩
    intro w hmem
    simp only [hstep, List.mem_append, List.mem_singleton] at hmem
    rcases hmem with h | h
    · exact hws w h
    · rw [h]; intro dst hd; cases hd
  | call i c =>
    simp only [hstep]
    cases hg : s.writers[i]? with
    | none => exact ⟨⟨hw, hws⟩, Diff.refl d _, by simp⟩
    | some w =>
      have hmem : w ∈ s.writers := List.mem_of_getElem? hg
      obtain ⟨h1, h2, h3, h4, _⟩ := callWriter_conf s.fs cwd dest d w c hw hdne (hws w hmem)
      refine ⟨⟨h1, ?_⟩, h2, h3⟩
      intro w' hw'
      rcases List.mem_or_eq_of_mem_set hw' with h | h
      · exact hws w' h
      · rw [h]; exact h4

theorem hrun_conf (cwd : RPath) (dest : Str) (d : RPath) (hdne : dest ≠ []) :
    ∀ (ops : List HOp) (s : Sys), SysInv cwd dest d s →
      SysInv cwd dest d (hrun cwd dest s ops).1 ∧ Diff d s.fs (hrun cwd dest s ops).1.fs ∧
      (∀ e ∈ (hrun cwd dest s ops).2, Under d e.path)
  | [], s, hi => ⟨hi, Diff.refl d _, by simp [hrun]⟩
  | op :: rest, s, hi => by
    obtain ⟨h1, h2, h3⟩ := hstep_conf cwd dest d hdne s op hi
    obtain ⟨g1, g2, g3⟩ := hrun_conf cwd dest d hdne rest _ h1
    simp only [hrun]
    refine ⟨g1, h2.trans g2, ?_⟩
    intro e he
    simp only [List.mem_append] at he
    rcases he with he | he
    · exact h3 e he
    · exact g3 e he

end Flute.Lemmas.PathMap
