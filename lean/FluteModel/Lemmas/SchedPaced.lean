import FluteModel.Lemmas.SchedCarousel
/-
  Liveness for paced senders over several instants: every poll that returns `None` AFTER the clock has passed the
  pacing gates (and the object's start time) releases a finished transfer of the object - so while an object without
  carousel stays in the sender, fewer than `max(1, max_transfer_count)` such polls can happen, whatever the instants
  and the tick inputs of the polling sequence are.
-/
namespace Flute.Sched

/-- at instant `N` the clock has passed every pacing gate of the sender -/
def gatesOpen (s : State) (N : Nat) : Bool := s.objs.all (fun g => !gateBlocked g N)

theorem gatesOpen_getF {s : State} {N : Nat} (h : gatesOpen s N = true) :
    ∀ k g, getF s.objs k = some g → gateBlocked g N = false := by
  intro k g hg
  unfold gatesOpen at h
  have := List.all_eq_true.mp h g (getF_mem hg)
  simpa using this

/-- the start time in effect has been reached -/
def startReached (f0 : FileDesc) (N : Nat) : Bool :=
  match f0.info.startTime with
  | some st => decide (st ≤ N)
  | none => true

/-- polls of the sequence (instant, tick inputs) that return `None` although every pacing gate is open and the start
    time of the object has been reached -/
def goodNones (f0 : FileDesc) : State → List (Nat × List (Nat × Nat)) → Nat
  | _, [] => 0
  | s, (N, tk) :: rest =>
    (if (read s N tk).2 = Out.none ∧ gatesOpen s N = true ∧ startReached f0 N = true then 1 else 0) +
      goodNones f0 (read s N tk).1 rest

/-- `t` is in the sender before every poll of the sequence and after the last one -/
def AllInSeq (t : Nat) : State → List (Nat × List (Nat × Nat)) → Prop
  | s, [] => t ∈ s.files
  | s, (N, tk) :: rest => t ∈ s.files ∧ AllInSeq t (read s N tk).1 rest

/-- the static hypotheses on the state the polling starts from -/
structure Tracked (s0 : State) (t : Nat) (f0 : FileDesc) : Prop where
  obj : getF s0.objs t = some f0
  car : f0.carousel = none
  pub : s0.cfg.mode = .full → f0.published = true
  nofault : FaultFree s0

theorem read_step_paced (cfg : Cfg) (tbl : List Nat) (hsorted : (cfg.queues.map (fun x => x.1)).Pairwise (fun a b => a < b))
    (s0 : State) (t : Nat) (f0 : FileDesc) (hu : Tracked s0 t f0) (hprio : f0.prio ∈ cfg.queues.map (fun x => x.1))
    (ops : List Op) (hm : Mono s0 (run (init cfg tbl) ops)) (hin : t ∈ (run (init cfg tbl) ops).files)
    (N : Nat) (tk : List (Nat × Nat)) :
    totalOf (run (init cfg tbl) ops) t +
      (if (read (run (init cfg tbl) ops) N tk).2 = Out.none ∧ gatesOpen (run (init cfg tbl) ops) N = true ∧
          startReached f0 N = true then 1 else 0) ≤
      totalOf (read (run (init cfg tbl) ops) N tk).1 t := by
  have hwq := run_inv Wf.closed Wf.closedOps ops (init cfg tbl) (by rw [heldOf_init]; exact Wf.init cfg tbl) rfl
  have hl := (life_run cfg tbl ops).2
  have hsh := run_shape cfg tbl ops
  have hmr := mono_read (run (init cfg tbl) ops) N tk hwq.2
  obtain ⟨f, hf, d⟩ := hm.fwd t f0 hu.obj
  obtain ⟨f', hf', d'⟩ := hmr.fwd t f hf
  have htot : totalOf (run (init cfg tbl) ops) t = f.info.total := by unfold totalOf; rw [hf]
  have htot' : totalOf (read (run (init cfg tbl) ops) N tk).1 t = f'.info.total := by unfold totalOf; rw [hf']
  rw [htot, htot']
  by_cases hgood : (read (run (init cfg tbl) ops) N tk).2 = Out.none ∧ gatesOpen (run (init cfg tbl) ops) N = true ∧
      startReached f0 N = true
  · rw [if_pos hgood]
    obtain ⟨hout, hgo, hsr⟩ := hgood
    have hgate := gatesOpen_getF hgo
    have hstart : ∀ st, f0.info.startTime = some st → st ≤ N := by
      intro st hst
      unfold startReached at hsr
      rw [hst] at hsr
      simpa using hsr
    have hcase := ((hl.rel t f hf).inFiles hin).2
    have htr : f.info.transferring = true := by
      rcases hcase with hq | htr
      · exfalso
        obtain ⟨pm, hpm, hp1⟩ := List.mem_map.mp hprio
        have : (pm.1, slotsOf pm.2) ∈ shape (run (init cfg tbl) ops).sessions := by
          rw [hsh]; exact List.mem_map.mpr ⟨pm, hpm, rfl⟩
        unfold shape at this
        obtain ⟨q, hq1, hq2⟩ := List.mem_map.mp this
        simp only [Prod.mk.injEq] at hq2
        have hlen : 0 < q.slots.length := by rw [hq2.2]; unfold slotsOf; split <;> omega
        obtain ⟨c, g, _, hg, hb⟩ := idle_waiting cfg tbl ops N tk hsorted hout t f hq hf
          (Or.inr (by unfold gapElapsed; rw [d.carousel, hu.car]))
          (fun hmode => d.pub (hu.pub (by rw [← hm.cfg]; exact hmode)))
          (fun st hst => hstart st (by rw [← d.start]; exact hst))
          (fun k _ g hg _ => by
            obtain ⟨g0, hg0, dg⟩ := hm.bwd k g hg
            rw [dg.faults]; exact hu.nofault k g0 hg0)
          q hq1 (by rw [hq2.1, hp1, d.prio]) 0 q.slots[0] (by simp [hlen])
        rw [hgate c.key g hg] at hb; cases hb
      · exact htr
    obtain ⟨pc, hpc, hk⟩ := hwq.1.transHeld f (getF_mem hf) htr
    have hk' : pc.2.key = t := by rw [hk]; exact getF_key hf
    have hfin : pc.2.enc.stopped = true ∨ f.nPk ≤ pc.2.enc.sent := by
      rcases idle_held cfg tbl ops N tk hout pc hpc f (by rw [hk']; exact hf) with h1 | h1 | h1
      · rw [hgate t f hf] at h1; cases h1
      · exact Or.inl h1
      · exact Or.inr h1
    unfold heldOf held at hpc
    obtain ⟨q, hq, hpq⟩ := List.mem_flatMap.mp hpc
    unfold heldQ heldSlots at hpq
    obtain ⟨cur, hcur, hpo⟩ := List.mem_flatMap.mp hpq
    cases cur with
    | none => simp [optHeld] at hpo
    | some c =>
      simp only [optHeld, List.mem_singleton] at hpo
      subst hpo
      obtain ⟨pre, post, hsess⟩ := List.append_of_mem hq
      obtain ⟨j, hj⟩ := List.getElem?_of_mem hcur
      have hk2 : c.key = t := hk'
      obtain ⟨g2, hg2, hn2⟩ := read_release cfg tbl ops pre post q j c f N tk hsess hj (by rw [hk2]; exact hf)
        (hgate t f hf) hfin hout
      rw [hk2, hf'] at hg2; cases hg2
      exact hn2
  · rw [if_neg hgood, Nat.add_zero]; exact d'.total

theorem total_grows_paced (cfg : Cfg) (tbl : List Nat)
    (hsorted : (cfg.queues.map (fun x => x.1)).Pairwise (fun a b => a < b))
    (s0 : State) (t : Nat) (f0 : FileDesc) (hu : Tracked s0 t f0) (hprio : f0.prio ∈ cfg.queues.map (fun x => x.1)) :
    ∀ (rs : List (Nat × List (Nat × Nat))) (ops : List Op), Mono s0 (run (init cfg tbl) ops) →
    AllInSeq t (run (init cfg tbl) ops) rs →
    ∃ ops', Mono s0 (run (init cfg tbl) ops') ∧ t ∈ (run (init cfg tbl) ops').files ∧
      totalOf (run (init cfg tbl) ops) t + goodNones f0 (run (init cfg tbl) ops) rs ≤ totalOf (run (init cfg tbl) ops') t := by
  intro rs
  induction rs with
  | nil => intro ops hm hall; exact ⟨ops, hm, hall, Nat.le_refl _⟩
  | cons r rest ih =>
    intro ops hm hall
    obtain ⟨N, tk⟩ := r
    obtain ⟨hin, hrest⟩ := hall
    have hstep := read_step_paced cfg tbl hsorted s0 t f0 hu hprio ops hm hin N tk
    have hwq := run_inv Wf.closed Wf.closedOps ops (init cfg tbl) (by rw [heldOf_init]; exact Wf.init cfg tbl) rfl
    have hm' : Mono s0 (run (init cfg tbl) (ops ++ [.read N tk])) := by
      rw [run_snoc_read]; exact hm.trans (mono_read _ N tk hwq.2)
    obtain ⟨ops', h1, h2, h3⟩ := ih (ops ++ [.read N tk]) hm' (by rw [run_snoc_read]; exact hrest)
    refine ⟨ops', h1, h2, ?_⟩
    rw [run_snoc_read] at h3
    show _ + ((if _ then 1 else 0) + goodNones f0 (read (run (init cfg tbl) ops) N tk).1 rest) ≤ _
    omega

/-- fewer than `max(1, max_transfer_count)` good `None` polls while the object stays in the sender -/
theorem good_nones_bounded (cfg : Cfg) (tbl : List Nat)
    (hsorted : (cfg.queues.map (fun x => x.1)).Pairwise (fun a b => a < b)) (ops : List Op) (t : Nat) (f : FileDesc)
    (hu : Tracked (run (init cfg tbl) ops) t f) (hprio : f.prio ∈ cfg.queues.map (fun x => x.1))
    (rs : List (Nat × List (Nat × Nat))) (hall : AllInSeq t (run (init cfg tbl) ops) rs) :
    goodNones f (run (init cfg tbl) ops) rs < burstF f := by
  obtain ⟨ops', hm, hin, htot⟩ := total_grows_paced cfg tbl hsorted _ t f hu hprio rs ops (Mono.refl _) hall
  obtain ⟨f', hf', d⟩ := hm.fwd t f hu.obj
  have hl := (life_run cfg tbl ops').2
  have hcount := ((hl.rel t f' hf').count (by rw [d.carousel]; exact hu.car)).2.2 (Or.inl hin)
  have hbf : burstF f' = burstF f := by unfold burstF; rw [d.maxCount]
  have htot' : totalOf (run (init cfg tbl) ops') t = f'.info.total := by unfold totalOf; rw [hf']
  rw [htot'] at htot
  rw [hbf] at hcount
  omega

end Flute.Sched
