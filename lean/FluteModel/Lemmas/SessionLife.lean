import FluteModel.Lemmas.SessionEmit
import FluteModel.Lemmas.SessionClean
import FluteModel.Lemmas.SessionStream
/-
  From the sender facts of one transfer (`emitTransfer_facts`) to what the receiver theorems need
  of an object's packets over its whole life (transfers concatenated as `is_last_transfer` dictates).
-/
namespace Flute.Lemmas.Session
open Flute.Session

/-- everything a non-carousel object emits: `m - 1` ordinary transfers, then the last one -/
def life (tr trLast : List Sym) (m : Nat) : List Sym := (List.replicate (m - 1) tr).flatten ++ trLast

theorem mem_life {tr trLast : List Sym} {m : Nat} {q : Sym} (h : q ∈ life tr trLast m) : q ∈ tr ∨ q ∈ trLast := by
  unfold life at h
  rcases List.mem_append.mp h with h | h
  · obtain ⟨l, hl, hq⟩ := List.mem_flatten.mp h
    rw [(List.mem_replicate.mp hl).2] at hq
    exact Or.inl hq
  · exact Or.inr h

theorem onlyLast_append (A B : List Sym) (hA : ∀ q, q ∈ A → q.close = false) (hB : OnlyLast B) : OnlyLast (A ++ B) := by
  induction A with
  | nil => simpa using hB
  | cons x t ih =>
    refine ⟨?_, ih (fun q hq => hA q (List.mem_cons_of_mem _ hq))⟩
    intro hx
    rw [hA x (List.mem_cons_self ..)] at hx
    exact absurd hx (by simp)

theorem onlyLast_prefix : ∀ (A B : List Sym), OnlyLast (A ++ B) → OnlyLast A := by
  intro A
  induction A with
  | nil => intro _ _; trivial
  | cons x t ih =>
    intro B h
    refine ⟨?_, ih B h.2⟩
    intro hx
    have := h.1 hx
    exact (List.append_eq_nil_iff.mp this).1

variable (c : Codec)

theorem encOK_obj (s : SessCfg) (o : ObjCfg) (closable : Bool) (hw : 1 ≤ s.w) (hN : o.ks.isEmpty = false)
    (hblocks : ∀ (b k : Nat), o.ks[b]? = some k → 1 ≤ k ∧ blockFails o.scheme k o.p = false) :
    EncOK (objEnc s o closable) := by
  refine ⟨hw, ?_, hblocks⟩
  simp only [objEnc]
  have : o.ks.size ≠ 0 := by
    intro h0
    have := Array.isEmpty_iff_size_eq_zero.mpr h0
    rw [this] at hN; exact absurd hN (by simp)
  omega

/-- one transfer of the model's sender is what the receiver theorems ask of a transfer -/
theorem transferOK_of_emit (s : SessCfg) (o : ObjCfg) (closable : Bool) (hw : 1 ≤ s.w) (hN : o.ks.isEmpty = false)
    (hblocks : ∀ (b k : Nat), o.ks[b]? = some k → 1 ≤ k ∧ blockFails o.scheme k o.p = false)
    (T : List Sym) (h : emitTransfer (objEnc s o closable) = some T) : TransferOK c o T := by
  obtain ⟨q1, q2, q3, ⟨cl, T', hT, hT'⟩, _⟩ :=
    emitTransfer_facts _ (encOK_obj s o closable hw hN hblocks) T h
  refine ⟨?_, ⟨_, T', hT, rfl, rfl, hT'⟩, ?_, onlyLast_split T q3⟩
  · intro q hq; exact q1 q hq
  · intro b hb
    have hk : o.ks[b]? = some o.ks[b] := Array.getElem?_eq_getElem hb
    refine ⟨_, hk, c.sources _ _ _ ?_⟩
    intro i hi
    obtain ⟨q, hq, hq1, hq2⟩ := q2 b _ i hk hi
    rw [mem_symsOf]
    exact ⟨q, hq, hq1, hq2⟩

/-- the whole life of a non-carousel object: genuine packets, close-object flag on the last packet only -/
theorem life_facts (s : SessCfg) (o : ObjCfg) (hw : 1 ≤ s.w) (hN : o.ks.isEmpty = false)
    (hblocks : ∀ (b k : Nat), o.ks[b]? = some k → 1 ≤ k ∧ blockFails o.scheme k o.p = false)
    (tr trLast : List Sym) (h1 : emitTransfer (objEnc s o false) = some tr) (h2 : emitTransfer (objEnc s o true) = some trLast) :
    (∀ q, q ∈ life tr trLast o.transfers → Genuine o q) ∧ OnlyLast (life tr trLast o.transfers) ∧
    (∀ q, q ∈ tr → Genuine o q ∧ q.close = false) := by
  obtain ⟨a1, _, _, _, a5⟩ := emitTransfer_facts _ (encOK_obj s o false hw hN hblocks) tr h1
  obtain ⟨b1, _, b3, _, _⟩ := emitTransfer_facts _ (encOK_obj s o true hw hN hblocks) trLast h2
  refine ⟨?_, ?_, fun q hq => ⟨a1 q hq, a5 rfl q hq⟩⟩
  · intro q hq
    rcases mem_life hq with h | h
    · exact a1 q h
    · exact b1 q h
  · apply onlyLast_append _ _ _ b3
    intro q hq
    obtain ⟨l, hl, hq⟩ := List.mem_flatten.mp hq
    rw [(List.mem_replicate.mp hl).2] at hq
    exact a5 rfl q hq

end Flute.Lemmas.Session
