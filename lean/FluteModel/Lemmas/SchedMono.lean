import FluteModel.Lemmas.SchedOrder
/-
  What a sequence of scheduler steps does to the object descriptors, monotonically: the total transfer counter only
  grows, `published` only grows, the immutable fields (target acquisition, size, carousel mode) and the start time
  stay, no descriptor appears or disappears.  (No `trigger_transfer_at` / `add_object` inside: used for `read`.)
-/
namespace Flute.Sched

structure DM (g' g : FileDesc) : Prop where
  total : g.info.total ≤ g'.info.total
  target : g'.target = g.target
  nSym : g'.nSym = g.nSym
  carousel : g'.carousel = g.carousel
  maxCount : g'.maxCount = g.maxCount
  prio : g'.prio = g.prio
  start : g'.info.startTime = g.info.startTime
  pub : g.published = true → g'.published = true
  faults : g'.faults = g.faults

theorem DM.refl (g : FileDesc) : DM g g := ⟨Nat.le_refl _, rfl, rfl, rfl, rfl, rfl, rfl, id, rfl⟩

theorem DM.trans {g2 g1 g0 : FileDesc} (h1 : DM g2 g1) (h0 : DM g1 g0) : DM g2 g0 :=
  ⟨Nat.le_trans h0.total h1.total, h1.target.trans h0.target, h1.nSym.trans h0.nSym, h1.carousel.trans h0.carousel,
   h1.maxCount.trans h0.maxCount, h1.prio.trans h0.prio, h1.start.trans h0.start, fun h => h1.pub (h0.pub h),
   h1.faults.trans h0.faults⟩

structure Mono (s s' : State) : Prop where
  fwd : ∀ k g, getF s.objs k = some g → ∃ g', getF s'.objs k = some g' ∧ DM g' g
  bwd : ∀ k g', getF s'.objs k = some g' → ∃ g, getF s.objs k = some g ∧ DM g' g
  cfg : s'.cfg = s.cfg

theorem Mono.refl (s : State) : Mono s s :=
  ⟨fun _ g h => ⟨g, h, DM.refl g⟩, fun _ g h => ⟨g, h, DM.refl g⟩, rfl⟩

theorem Mono.trans {s0 s1 s2 : State} (h0 : Mono s0 s1) (h1 : Mono s1 s2) : Mono s0 s2 where
  fwd := fun k g hg => by
    obtain ⟨g1, hg1, d1⟩ := h0.fwd k g hg
    obtain ⟨g2, hg2, d2⟩ := h1.fwd k g1 hg1
    exact ⟨g2, hg2, d2.trans d1⟩
  bwd := fun k g2 hg2 => by
    obtain ⟨g1, hg1, d2⟩ := h1.bwd k g2 hg2
    obtain ⟨g0, hg0, d1⟩ := h0.bwd k g1 hg1
    exact ⟨g0, hg0, d2.trans d1⟩
  cfg := h1.cfg.trans h0.cfg

theorem Mono.of_same {s s' : State} (ho : s'.objs = s.objs) (hc : s'.cfg = s.cfg) : Mono s s' :=
  ⟨fun _ g h => ⟨g, by rw [ho]; exact h, DM.refl g⟩, fun _ g h => ⟨g, by rw [← ho]; exact h, DM.refl g⟩, hc⟩

theorem pubMark_dm (fs : List Nat) (g : FileDesc) : DM (pubMark fs g) g := by
  unfold pubMark; split
  · exact ⟨Nat.le_refl _, rfl, rfl, rfl, rfl, rfl, rfl, fun _ => rfl, rfl⟩
  · exact DM.refl g

theorem Mono.publish (s : State) (now : Nat) : Mono s (publish s now) where
  fwd := fun k g hg => ⟨pubMark s.files g, by rw [publish_getF_objs, hg]; rfl, pubMark_dm _ g⟩
  bwd := fun k g' hg' => by
    rw [publish_getF_objs] at hg'
    cases hg : getF s.objs k with
    | none => rw [hg] at hg'; cases hg'
    | some g =>
      rw [hg] at hg'; simp only [Option.map_some, Option.some.injEq] at hg'
      exact ⟨g, rfl, hg' ▸ pubMark_dm _ g⟩
  cfg := rfl

theorem Mono.publishTry (s : State) (now : Nat) : Mono s (publishTry s now) :=
  publishTry_elim (P := fun x => Mono s x) s now (Mono.publish s now) (Mono.refl s)

theorem Mono.upd {s s' : State} (k : Nat) (gf : FileDesc → FileDesc) (hg : ∀ x, (gf x).key = x.key ∧ DM (gf x) x)
    (ho : s'.objs = updF s.objs k gf) (hc : s'.cfg = s.cfg) : Mono s s' := by
  have hget : ∀ u, getF s'.objs u = if u = k then (getF s.objs u).map gf else getF s.objs u := by
    intro u; rw [ho]; exact getF_updF s.objs k u gf (fun x => (hg x).1)
  refine ⟨?_, ?_, hc⟩
  · intro u g hgu
    by_cases hne : u = k
    · exact ⟨gf g, by rw [hget, if_pos hne, hgu]; rfl, (hg g).2⟩
    · exact ⟨g, by rw [hget, if_neg hne]; exact hgu, DM.refl g⟩
  · intro u g' hgu
    by_cases hne : u = k
    · rw [hget, if_pos hne] at hgu
      cases hg0 : getF s.objs u with
      | none => rw [hg0] at hgu; cases hgu
      | some g =>
        rw [hg0] at hgu; simp only [Option.map_some, Option.some.injEq] at hgu
        exact ⟨g, rfl, hgu ▸ (hg g).2⟩
    · rw [hget, if_neg hne] at hgu
      exact ⟨g', hgu, DM.refl g'⟩

theorem dm_transferInit (now tk : Nat) (x : FileDesc) : (transferInit x now tk).key = x.key ∧ DM (transferInit x now tk) x :=
  ⟨rfl, Nat.le_refl _, rfl, rfl, rfl, rfl, rfl, rfl, id, rfl⟩

theorem dm_tickInfo (x : FileDesc) : (tickInfo x).key = x.key ∧ DM (tickInfo x) x := by
  refine ⟨rfl, ?_, rfl, rfl, rfl, rfl, rfl, ?_, id, rfl⟩
  · rw [(tickInfo_fields x).2.1]; exact Nat.le_refl _
  · unfold tickInfo FileDesc.updInfo; simp only []; split <;> rfl

theorem dm_done (now : Nat) (x : FileDesc) : (transferDoneInfo x now).key = x.key ∧ DM (transferDoneInfo x now) x :=
  ⟨rfl, Nat.le_succ _, rfl, rfl, rfl, rfl, rfl, rfl, id, rfl⟩

/-- `Mono s0 ·` as an invariant of the frame -/
def MonoInv (s0 : State) : State → Held → Prop := fun s _ => Mono s0 s

theorem MonoInv.closed (s0 : State) : Closed0 (MonoInv s0) where
  perm := fun _ _ _ _ h => h
  leaveFiles := fun s _ qs h => Mono.trans h (Mono.of_same rfl rfl)
  enterFiles := fun s _ _ _ h _ _ => Mono.trans h (Mono.of_same rfl rfl)
  emitRead := fun s _ now _ h _ => Mono.trans h (Mono.of_same (s' := emit s (.opRead now)) rfl rfl)
  emitIdle := fun s _ now _ h _ => Mono.trans h (Mono.of_same (s' := emit s (.idle now)) rfl rfl)
  publish := fun s _ now _ h _ => Mono.trans h (Mono.publish s now)
  fdtAdvance := fun s L now _ h _ _ => by
    rcases fdtAdvance_cases s now with ⟨e, _⟩ | ⟨k, f, _, _, _, e⟩
    · rw [e]; exact Mono.trans h (Mono.of_same (fdtPop_objs s) (fdtPop_cfg s))
    · rw [e]; exact Mono.trans h (Mono.of_same (fdtPop_objs s) (fdtPop_cfg s))
  fileStart := fun s L _ now tk t _ h _ _ => by
    have h1 : Mono s (fileStartStep s t now tk) :=
      Mono.upd t (fun f => transferInit f now tk) (dm_transferInit now tk) rfl rfl
    unfold autoPublish; split
    · exact Mono.trans h (Mono.trans h1 (Mono.publishTry _ now))
    · exact Mono.trans h h1
  pkt := fun s L prio c now _ idx b _ _ h _ _ _ _ _ =>
    Mono.trans h (Mono.upd (s' := pktStep s prio c.key now idx b) c.key tickInfo dm_tickInfo rfl rfl)
  done := fun s L _ c now _ _ _ h _ _ _ =>
    Mono.trans h (Mono.upd c.key (fun f => transferDoneInfo f now) (dm_done now)
      (transferDoneFile_objs s c.key now) (transferDoneFile_cfg s c.key now))
  fdtPkt := fun s L c f now idx b e _ h _ _ _ _ _ =>
    Mono.trans h (Mono.of_same (s' := fdtStep s c e f.fdtId now idx) rfl rfl)
  fdtDone := fun s L c _ now _ _ h _ _ _ _ _ =>
    Mono.trans h (Mono.of_same (by unfold fdtRelease; exact transferDoneFdt_objs s c.key now)
      (by unfold fdtRelease; exact transferDoneFdt_cfg s c.key now))

/-- one `read` -/
theorem mono_read (s : State) (now : Nat) (ticks : List (Nat × Nat)) (hq : s.quiet = false) :
    Mono s (read s now ticks).1 :=
  (read_inv (MonoInv.closed s) s now ticks (Mono.refl s) hq).1

/-! ### histories over buffer sources: no descriptor has a fault schedule -/

/-- no `add_object` of the history carries a fault schedule (all sources are buffers / never fail) -/
def NoFaultOps (ops : List Op) : Prop := ∀ a, Op.add a ∈ ops → a.faults = []

/-- every descriptor of the state is fault-free (getF form) -/
def FaultFree (s : State) : Prop := ∀ k g, getF s.objs k = some g → g.faults = []

/-- input domain of the fault schedule (enforced by the driver and the engine, `bad-op`): a first-read failure
    (code ≥ 1) is only given to a non-empty object - an empty object's lone packet needs no data, so the real attempt
    succeeds where the model's would fail.  The ∀-history theorems do not assume it (they are statements about the
    model); it delimits where the model is compared with the code (`every_start_has_stop` for faulty sources). -/
def FaultDomain (a : AddArgs) : Prop := a.nSym = 0 → ∀ c ∈ a.faults, c = 0

theorem faultfree_step (s : State) (op : Op) (hq : s.quiet = false) (h : FaultFree s)
    (hop : ∀ a, op = .add a → a.faults = []) : FaultFree (step s op) := by
  cases op with
  | add a =>
    show FaultFree (addObject s a).1
    unfold addObject; simp only []
    split
    · exact h
    · split
      · exact h
      · intro k g hg
        have hg' : getF (s.objs ++ [_]) k = some g := hg
        cases h0 : getF s.objs k with
        | some g0 => rw [getF_append_some h0] at hg'; cases hg'; exact h k _ h0
        | none =>
          rw [getF_append_none h0] at hg'
          have hm := getF_mem hg'
          simp only [List.mem_singleton] at hm
          subst hm; exact hop a rfl
  | publish now =>
    show FaultFree (publishOp s now)
    unfold publishOp
    refine publishTry_elim (P := FaultFree) _ now ?_ h
    intro k g hg
    rw [publish_getF_objs] at hg
    cases h0 : getF s.objs k with
    | none =>
      have : getF (emit s (Ev.opPublish now)).objs k = none := h0
      rw [this] at hg; cases hg
    | some g0 =>
      have : getF (emit s (Ev.opPublish now)).objs k = some g0 := h0
      rw [this] at hg; simp only [Option.map_some, Option.some.injEq] at hg
      rw [← hg, (pubMark_dm _ g0).faults]; exact h k g0 h0
  | remove t =>
    show FaultFree (removeObject s t).1
    unfold removeObject; split <;> exact h
  | trigger t ts =>
    show FaultFree (triggerTransferAt s t ts).1
    unfold triggerTransferAt; split
    · exact h
    · split
      · exact h
      · intro k g hg
        have hg' : getF (updF s.objs t (fun f => resetLastTransfer f ts)) k = some g := hg
        rw [getF_updF s.objs t k (fun f => resetLastTransfer f ts) (fun _ => rfl)] at hg'
        by_cases hk : k = t
        · rw [if_pos hk] at hg'
          cases h0 : getF s.objs k with
          | none => rw [h0] at hg'; cases hg'
          | some g0 =>
            rw [h0] at hg'; simp only [Option.map_some, Option.some.injEq] at hg'
            rw [← hg']; exact h k g0 h0
        · rw [if_neg hk] at hg'; exact h k g hg'
  | setComplete => exact h
  | read now ticks =>
    show FaultFree (read s now ticks).1
    intro k g hg
    obtain ⟨g0, hg0, d⟩ := (mono_read s now ticks hq).bwd k g hg
    rw [d.faults]; exact h k g0 hg0

/-- after every history whose sources never fail -/
theorem faultfree_run (cfg : Cfg) (tbl : List Nat) (ops : List Op) (hnf : NoFaultOps ops) :
    FaultFree (run (init cfg tbl) ops) := by
  have : ∀ (ops : List Op) (s : State), Wf s (heldOf s) → s.quiet = false → FaultFree s → NoFaultOps ops →
      FaultFree (run s ops) := by
    intro ops
    induction ops with
    | nil => intro s _ _ h _; exact h
    | cons op rest ih =>
      intro s hw hq h hno
      have h1 := faultfree_step s op hq h (fun a e => hno a (by rw [e]; exact List.mem_cons_self))
      have hw1 := step_inv Wf.closed Wf.closedOps s op hw hq
      exact ih (step s op) hw1.1 hw1.2 h1 (fun a ha => hno a (List.mem_cons_of_mem _ ha))
  exact this ops (init cfg tbl) (by rw [heldOf_init]; exact Wf.init cfg tbl) rfl
    (by intro k g hg; simp [init, getF] at hg) hnf

end Flute.Sched
