import FluteModel.Bytes
/- helper lemmas about `beBytes` / `beVal` / `slice` (core Lean only) -/
namespace Flute.Bytes

@[simp] theorem length_beBytes (n v : Nat) : (beBytes n v).length = n := by
  induction n with
  | zero => rfl
  | succ n ih => simp [beBytes, ih]

theorem wf_beBytes (n v : Nat) : Wf (beBytes n v) := by
  induction n with
  | zero => intro b hb; simp [beBytes] at hb
  | succ n ih =>
    intro b hb
    simp only [beBytes, List.mem_cons] at hb
    rcases hb with rfl | hb
    · exact Nat.mod_lt _ (by decide)
    · exact ih b hb

theorem wf_append {a b : List Nat} (ha : Wf a) (hb : Wf b) : Wf (a ++ b) := by
  intro x hx
  rcases List.mem_append.mp hx with h | h
  · exact ha x h
  · exact hb x h

theorem wf_of_append_left {a b : List Nat} (h : Wf (a ++ b)) : Wf a :=
  fun x hx => h x (List.mem_append_left _ hx)

theorem wf_of_append_right {a b : List Nat} (h : Wf (a ++ b)) : Wf b :=
  fun x hx => h x (List.mem_append_right _ hx)

theorem wf_take {d : List Nat} (h : Wf d) (n : Nat) : Wf (d.take n) :=
  fun x hx => h x (List.mem_of_mem_take hx)

theorem wf_drop {d : List Nat} (h : Wf d) (n : Nat) : Wf (d.drop n) :=
  fun x hx => h x (List.mem_of_mem_drop hx)

theorem wf_map_toNat (d : List UInt8) : Wf (d.map UInt8.toNat) := by
  intro b hb
  rcases List.mem_map.mp hb with ⟨x, _, rfl⟩
  exact x.toNat_lt

theorem beVal_lt (d : List Nat) (h : Wf d) : beVal d < 256 ^ d.length := by
  induction d with
  | nil => simp [beVal]
  | cons b r ih =>
    have hb : b < 256 := h b (by simp)
    have hr := ih (fun x hx => h x (by simp [hx]))
    simp only [beVal, List.length_cons, Nat.pow_succ]
    have : b * 256 ^ r.length ≤ 255 * 256 ^ r.length := Nat.mul_le_mul_right _ (by omega)
    omega

theorem beVal_append (a b : List Nat) : beVal (a ++ b) = beVal a * 256 ^ b.length + beVal b := by
  induction a with
  | nil => simp [beVal]
  | cons x r ih =>
    simp only [List.cons_append, beVal, List.length_append, ih, Nat.pow_add, Nat.add_mul]
    rw [Nat.mul_assoc]; omega

theorem beVal_beBytes (n v : Nat) : beVal (beBytes n v) = v % 256 ^ n := by
  induction n with
  | zero => simp [beBytes, beVal, Nat.mod_one]
  | succ n ih =>
    simp only [beBytes, beVal, length_beBytes, ih, Nat.pow_succ]
    rw [Nat.mod_mul (a := 256 ^ n) (b := 256)]
    rw [Nat.mul_comm]; omega

theorem beVal_beBytes_of_lt {n v : Nat} (h : v < 256 ^ n) : beVal (beBytes n v) = v := by
  rw [beVal_beBytes, Nat.mod_eq_of_lt h]

theorem beBytes_add (a b v : Nat) : beBytes (a + b) v = beBytes a (v / 256 ^ b) ++ beBytes b v := by
  induction a with
  | zero => simp [beBytes]
  | succ a ih =>
    have : a + 1 + b = (a + b) + 1 := by omega
    rw [this]
    simp only [beBytes, List.cons_append, ih]
    congr 1
    rw [Nat.div_div_eq_div_mul, ← Nat.pow_add, Nat.add_comm b a]

theorem beBytes_drop {n k : Nat} (h : k ≤ n) (v : Nat) : (beBytes n v).drop (n - k) = beBytes k v := by
  have e : n = (n - k) + k := by omega
  conv => lhs; arg 2; rw [e]
  rw [beBytes_add]
  have hl : (beBytes (n - k) (v / 256 ^ k)).length = n - k := length_beBytes _ _
  rw [List.drop_append_of_le_length (by omega)]
  simp [List.drop_eq_nil_of_le, hl]

theorem beBytes_beVal (d : List Nat) (h : Wf d) : beBytes d.length (beVal d) = d := by
  induction d with
  | nil => rfl
  | cons b r ih =>
    have hb : b < 256 := h b (by simp)
    have hwr : Wf r := fun x hx => h x (by simp [hx])
    have hr := beVal_lt r hwr
    simp only [List.length_cons, beBytes, beVal]
    have h1 : (b * 256 ^ r.length + beVal r) / 256 ^ r.length % 256 = b := by
      rw [Nat.mul_comm, Nat.mul_add_div (Nat.pow_pos (by decide)), Nat.div_eq_of_lt hr]
      simp [Nat.mod_eq_of_lt hb]
    rw [h1]
    congr 1
    have e : r.length = 0 + r.length := by omega
    have := beBytes_add 0 r.length (b * 256 ^ r.length + beVal r)
    simp only [Nat.zero_add, beBytes, List.nil_append] at this
    -- beBytes ignores the part above 256^n
    have hmod : ∀ n v w, beBytes n (w * 256 ^ n + v) = beBytes n v := by
      intro n
      induction n with
      | zero => intros; rfl
      | succ n ihn =>
        intro v w
        simp only [beBytes]
        have e1 : w * 256 ^ (n + 1) + v = (w * 256) * 256 ^ n + v := by
          rw [Nat.pow_succ, Nat.mul_assoc, Nat.mul_comm 256]
        rw [e1, ihn v (w * 256)]
        congr 1
        rw [Nat.add_comm, Nat.add_mul_div_right _ _ (Nat.pow_pos (by decide))]
        rw [Nat.add_mul_mod_self_right]
    rw [hmod, ih hwr]

theorem beBytes_mod (n v : Nat) : beBytes n (v % 256 ^ n) = beBytes n v := by
  have h := beBytes_beVal (beBytes n v) (wf_beBytes n v)
  rw [length_beBytes, beVal_beBytes] at h
  have h2 := beBytes_beVal (beBytes n (v % 256 ^ n)) (wf_beBytes n _)
  rw [length_beBytes, beVal_beBytes, Nat.mod_mod] at h2
  rw [← h2, h]

theorem beVal_replicate_zero (k : Nat) (d : List Nat) : beVal (List.replicate k 0 ++ d) = beVal d := by
  induction k with
  | zero => simp
  | succ k ih => simp [List.replicate_succ, beVal, ih]

end Flute.Bytes
