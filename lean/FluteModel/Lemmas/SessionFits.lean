import FluteModel.Lemmas.Session
/-
  A checkable sufficient condition for the resource hypothesis `Fits`: the object has at most
  `2 * MAX_PREALLOCATED_BLOCKS` blocks and the bytes the receiver accounts for all its blocks fit
  `object_max_cache_size`.
-/
namespace Flute.Lemmas.Session
open Flute.Session

/-- bytes accounted for the blocks `0 .. n-1` -/
def totalBytes (blen : Array Nat) : Nat → Nat
  | 0 => 0
  | n+1 => totalBytes blen n + blen.getD n 0

def sumF (f : Nat → Nat) : List Nat → Nat
  | [] => 0
  | b :: t => f b + sumF f t

def tbF (f : Nat → Nat) : Nat → Nat
  | 0 => 0
  | n+1 => tbF f n + f n

theorem sumOver_eq (blen : Array Nat) (l : List Nat) : sumOver blen l = sumF (fun b => blen.getD b 0) l := by
  induction l with
  | nil => rfl
  | cons x xs ih => simp [sumOver, sumF, ih]

theorem totalBytes_eq (blen : Array Nat) (n : Nat) : totalBytes blen n = tbF (fun b => blen.getD b 0) n := by
  induction n with
  | zero => rfl
  | succ m ih => simp [totalBytes, tbF, ih]

theorem sumF_congr (f g : Nat → Nat) (l : List Nat) (h : ∀ b, b ∈ l → f b = g b) : sumF f l = sumF g l := by
  induction l with
  | nil => rfl
  | cons x xs ih =>
    simp only [sumF]
    rw [h x (List.mem_cons_self ..), ih (fun b hb => h b (List.mem_cons_of_mem _ hb))]

theorem tbF_congr (f g : Nat → Nat) (n : Nat) (h : ∀ b, b < n → f b = g b) : tbF f n = tbF g n := by
  induction n with
  | zero => rfl
  | succ m ih =>
    simp only [tbF]
    rw [h m (by omega), ih (fun b hb => h b (by omega))]

theorem sumF_zero (f : Nat → Nat) (l : List Nat) (h : ∀ b, b ∈ l → f b = 0) : sumF f l = 0 := by
  induction l with
  | nil => rfl
  | cons x xs ih =>
    simp only [sumF]
    rw [h x (List.mem_cons_self ..), ih (fun b hb => h b (List.mem_cons_of_mem _ hb))]

theorem sumF_erase (f : Nat → Nat) : ∀ (l : List Nat) (a : Nat), a ∈ l → sumF f l = f a + sumF f (l.erase a) := by
  intro l
  induction l with
  | nil => intro a h; simp at h
  | cons x xs ih =>
    intro a h
    by_cases hx : x = a
    · subst hx; simp [sumF]
    · have ha : a ∈ xs := by
        rcases List.mem_cons.mp h with h | h
        · exact absurd h.symm hx
        · exact h
      have : (x :: xs).erase a = x :: xs.erase a := by
        rw [List.erase_cons_tail]; simpa using hx
      rw [this]
      simp only [sumF]
      rw [ih a ha]; omega

/-- a duplicate-free list of block numbers accounts at most for all blocks -/
theorem sumF_le_tbF : ∀ (n : Nat) (f : Nat → Nat) (l : List Nat), l.Nodup → (∀ b, n ≤ b → f b = 0) →
    sumF f l ≤ tbF f n := by
  intro n
  induction n with
  | zero =>
    intro f l _ h
    rw [sumF_zero f l (fun b _ => h b (Nat.zero_le _))]; exact Nat.zero_le _
  | succ m ih =>
    intro f l hnd h
    -- forget block m
    have hf' : ∀ b, m ≤ b → (fun b => if b = m then 0 else f b) b = 0 := by
      intro b hb
      by_cases hbm : b = m
      · simp [hbm]
      · simp only [hbm, ↓reduceIte]; exact h b (by omega)
    have htb : tbF (fun b => if b = m then 0 else f b) m = tbF f m :=
      tbF_congr _ _ m (fun b hb => by simp [Nat.ne_of_lt hb])
    by_cases hm : m ∈ l
    · rw [sumF_erase f l m hm]
      have hnd' := hnd.erase m
      have hnot : ∀ b, b ∈ l.erase m → b ≠ m := fun b hb => ((List.Nodup.mem_erase_iff hnd).mp hb).1
      have := ih (fun b => if b = m then 0 else f b) (l.erase m) hnd' hf'
      rw [htb] at this
      rw [sumF_congr f (fun b => if b = m then 0 else f b) (l.erase m) (fun b hb => by simp [hnot b hb])]
      simp only [tbF]; omega
    · have hnot : ∀ b, b ∈ l → b ≠ m := fun b hb hbm => hm (hbm ▸ hb)
      have := ih (fun b => if b = m then 0 else f b) l hnd hf'
      rw [htb] at this
      rw [sumF_congr f (fun b => if b = m then 0 else f b) l (fun b hb => by simp [hnot b hb])]
      simp only [tbF]; omega

theorem mem_dedup : ∀ (l : List Nat) (a : Nat), a ∈ dedup l ↔ a ∈ l := by
  intro l
  induction l with
  | nil => intro a; simp [dedup]
  | cons x xs ih =>
    intro a
    unfold dedup
    by_cases hc : xs.contains x = true
    · simp only [hc, ↓reduceIte, ih, List.mem_cons]
      constructor
      · exact Or.inr
      · rintro (rfl | h)
        · simpa using hc
        · exact h
    · simp only [hc, Bool.false_eq_true, ↓reduceIte, List.mem_cons, ih]

theorem nodup_dedup : ∀ (l : List Nat), (dedup l).Nodup := by
  intro l
  induction l with
  | nil => simp [dedup]
  | cons x xs ih =>
    unfold dedup
    by_cases hc : xs.contains x = true
    · simp only [hc, ↓reduceIte]; exact ih
    · simp only [hc, Bool.false_eq_true, ↓reduceIte]
      rw [List.nodup_cons]
      refine ⟨?_, ih⟩
      rw [mem_dedup]
      simpa using hc

/-- **`Fits` from the configuration**: at most `maxLook` blocks and all accounted bytes within
    `object_max_cache_size` -/
theorem fits_of_total (rc : RxCfg) (o : ObjCfg) (h1 : o.ks.size ≤ rc.maxLook)
    (h2 : totalBytes o.blen o.blen.size ≤ rc.maxSize) (h3 : rc.pktCap = none) : Fits rc o := by
  refine ⟨h1, ?_, h3⟩
  intro got sbn hfresh
  unfold allocBytes distinctSbns
  -- sbn :: (distinct blocks of got) is duplicate-free
  have hnd : (sbn :: dedup (got.map (·.1))).Nodup := by
    rw [List.nodup_cons]
    refine ⟨?_, nodup_dedup _⟩
    rw [mem_dedup]
    intro hm
    obtain ⟨x, hx, hx1⟩ := List.mem_map.mp hm
    have : got.any (fun x => x.1 == sbn) = true := List.any_eq_true.mpr ⟨x, hx, by simp [hx1]⟩
    rw [hfresh] at this; exact absurd this (by simp)
  have hz : ∀ b, o.blen.size ≤ b → (fun b => o.blen.getD b 0) b = 0 := by
    intro b hb
    simp only [Array.getD_eq_getD_getElem?]
    rw [Array.getElem?_eq_none hb]; rfl
  have := sumF_le_tbF o.blen.size (fun b => o.blen.getD b 0) _ hnd hz
  rw [sumOver_eq]
  rw [totalBytes_eq] at h2
  simp only [sumF] at this
  omega

end Flute.Lemmas.Session
