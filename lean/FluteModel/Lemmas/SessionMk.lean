import FluteModel.Lemmas.SessionBuild
/-
  What `mkSrcs` builds: the source of an object / of an FDT instance is found under its slot, with the
  transfer listings of the model's block encoder (the hypotheses `hsrcO` / `hsrcF` / `hxo` / `hxf` of the
  `_built` theorems).
-/
namespace Flute.Lemmas.Session
open Flute.Session

theorem mapM_find {α : Type} (g : α → Option Src) (key : α → Slot) (hg : ∀ a x, g a = some x → x.slot = key a) :
    ∀ (l : List α) (r : List Src), l.mapM g = some r → ∀ a, a ∈ l → (∀ b, b ∈ l → key b = key a → b = a) →
      ∃ x, g a = some x ∧ r.find? (fun y => y.slot == key a) = some x := by
  intro l
  induction l with
  | nil => intro r _ a ha; simp at ha
  | cons b l' ih =>
    intro r h a ha huniq
    simp only [List.mapM_cons, Option.bind_eq_bind, Option.pure_def, Option.bind_eq_some_iff] at h
    obtain ⟨x, hx, xs, hxs, hr⟩ := h
    simp only [Option.some.injEq] at hr
    subst hr
    by_cases hab : a = b
    · subst hab
      exact ⟨x, hx, by simp [List.find?_cons, hg a x hx]⟩
    · have ha' : a ∈ l' := by
        rcases List.mem_cons.mp ha with h | h
        · exact absurd h hab
        · exact h
      obtain ⟨y, hy1, hy2⟩ := ih xs hxs a ha' (fun c hc hk => huniq c (List.mem_cons_of_mem _ hc) hk)
      refine ⟨y, hy1, ?_⟩
      have hne : key b ≠ key a := fun hk => hab (huniq b (List.mem_cons_self ..) hk).symm
      have : (x.slot == key a) = false := by rw [hg b x hx]; exact beq_false_of_ne hne
      simp [List.find?_cons, this, hy2]

theorem mapM_find_none {α : Type} (g : α → Option Src) (key : α → Slot) (hg : ∀ a x, g a = some x → x.slot = key a)
    (k : Slot) : ∀ (l : List α) (r : List Src), l.mapM g = some r → (∀ a, a ∈ l → key a ≠ k) →
      r.find? (fun y => y.slot == k) = none := by
  intro l
  induction l with
  | nil => intro r h _; simp at h; subst h; rfl
  | cons b l' ih =>
    intro r h hk
    simp only [List.mapM_cons, Option.bind_eq_bind, Option.pure_def, Option.bind_eq_some_iff] at h
    obtain ⟨x, hx, xs, hxs, hr⟩ := h
    simp only [Option.some.injEq] at hr
    subst hr
    have : (x.slot == k) = false := by rw [hg b x hx]; exact beq_false_of_ne (hk b (List.mem_cons_self ..))
    simp [List.find?_cons, this, ih xs hxs (fun a ha => hk a (List.mem_cons_of_mem _ ha))]

def srcOfObj (s : SessCfg) (o : ObjCfg) : Option Src :=
  match emitTransfer (objEnc s o false), emitTransfer (objEnc s o true) with
  | some a, some b => some { slot := Slot.obj o.toi, tr := a, trLast := b, transfers := o.transfers, carousel := o.carousel, t := 0, rest := [] }
  | _, _ => none

def srcOfFdt (s : SessCfg) (f : FdtCfg) : Option Src :=
  match emitTransfer (fdtEnc s f) with
  | some a => some { slot := Slot.fdt f.id, tr := a, trLast := a, transfers := 1, carousel := true, t := 0, rest := [] }
  | none => none

theorem mkSrcs_eq (s : SessCfg) (srcs : List Src) (h : mkSrcs s = some srcs) :
    ∃ a b, s.objs.mapM (srcOfObj s) = some a ∧ s.fdts.mapM (srcOfFdt s) = some b ∧ srcs = a ++ b := by
  unfold mkSrcs at h
  dsimp only at h
  change (match s.objs.mapM (srcOfObj s), s.fdts.mapM (srcOfFdt s) with
    | some a, some b => some (a ++ b)
    | _, _ => none) = some srcs at h
  cases ha : s.objs.mapM (srcOfObj s) with
  | none => simp [ha] at h
  | some a =>
    cases hb : s.fdts.mapM (srcOfFdt s) with
    | none => simp [ha, hb] at h
    | some b =>
      simp only [ha, hb, Option.some.injEq] at h
      exact ⟨a, b, rfl, rfl, h.symm⟩

theorem srcOfObj_slot (s : SessCfg) (o : ObjCfg) (x : Src) (h : srcOfObj s o = some x) : x.slot = Slot.obj o.toi := by
  unfold srcOfObj at h
  split at h
  · simp only [Option.some.injEq] at h; rw [← h]
  · simp at h

theorem srcOfFdt_slot (s : SessCfg) (f : FdtCfg) (x : Src) (h : srcOfFdt s f = some x) : x.slot = Slot.fdt f.id := by
  unfold srcOfFdt at h
  split at h
  · simp only [Option.some.injEq] at h; rw [← h]
  · simp at h

/-- **the object's source in `mkSrcs`** (TOIs of the session's objects distinct) -/
theorem mkSrcs_obj (s : SessCfg) (srcs : List Src) (h : mkSrcs s = some srcs) (o : ObjCfg) (ho : o ∈ s.objs)
    (huniq : ∀ o', o' ∈ s.objs → o'.toi = o.toi → o' = o) :
    ∃ tr trLast, emitTransfer (objEnc s o false) = some tr ∧ emitTransfer (objEnc s o true) = some trLast ∧
      findSrc srcs (Slot.obj o.toi) =
        some { slot := Slot.obj o.toi, tr := tr, trLast := trLast, transfers := o.transfers, carousel := o.carousel, t := 0, rest := [] } := by
  obtain ⟨a, b, ha, _, rfl⟩ := mkSrcs_eq s srcs h
  obtain ⟨x, hx1, hx2⟩ := mapM_find (srcOfObj s) (fun o => Slot.obj o.toi) (srcOfObj_slot s) s.objs a ha o ho
    (by intro o' ho' hk; exact huniq o' ho' (by simpa using hk))
  unfold srcOfObj at hx1
  cases h1 : emitTransfer (objEnc s o false) with
  | none => simp [h1] at hx1
  | some tr =>
    cases h2 : emitTransfer (objEnc s o true) with
    | none => simp [h1, h2] at hx1
    | some trLast =>
      simp only [h1, h2, Option.some.injEq] at hx1
      refine ⟨tr, trLast, rfl, rfl, ?_⟩
      unfold findSrc
      rw [List.find?_append, hx2, hx1]
      rfl

/-- **the FDT instance's source in `mkSrcs`** (instance ids distinct) -/
theorem mkSrcs_fdt (s : SessCfg) (srcs : List Src) (h : mkSrcs s = some srcs) (f : FdtCfg) (hf : f ∈ s.fdts)
    (huniq : ∀ f', f' ∈ s.fdts → f'.id = f.id → f' = f) :
    ∃ trF, emitTransfer (fdtEnc s f) = some trF ∧
      findSrc srcs (Slot.fdt f.id) =
        some { slot := Slot.fdt f.id, tr := trF, trLast := trF, transfers := 1, carousel := true, t := 0, rest := [] } := by
  obtain ⟨a, b, ha, hb, rfl⟩ := mkSrcs_eq s srcs h
  have hnone := mapM_find_none (srcOfObj s) (fun o => Slot.obj o.toi) (srcOfObj_slot s) (Slot.fdt f.id) s.objs a ha
    (by intro o _ hk; cases hk)
  obtain ⟨x, hx1, hx2⟩ := mapM_find (srcOfFdt s) (fun f => Slot.fdt f.id) (srcOfFdt_slot s) s.fdts b hb f hf
    (by intro f' hf' hk; exact huniq f' hf' (by simpa using hk))
  unfold srcOfFdt at hx1
  cases h1 : emitTransfer (fdtEnc s f) with
  | none => simp [h1] at hx1
  | some trF =>
    simp only [h1, Option.some.injEq] at hx1
    refine ⟨trF, rfl, ?_⟩
    unfold findSrc
    rw [List.find?_append, hnone, hx2, hx1]
    rfl

end Flute.Lemmas.Session
