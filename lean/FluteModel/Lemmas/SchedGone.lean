import FluteModel.Lemmas.SchedEventually
/-
  An object without carousel that is no longer in the sender has been removed, or has completed exactly
  `max(1, max_transfer_count)` transfers.
-/
namespace Flute.Sched
open Flute.Spec.Lifecycle

def GoneInv : State → Held → Prop := fun s _ =>
  ∀ t f, getF s.objs t = some f → f.carousel = none → t ∉ s.files →
    (LM.run t s.log).removed.isSome = true ∨ f.info.total = burstF f

theorem removed_step (t : Nat) (m : LM) (e : Ev) (h : m.removed.isSome = true) : (m.step t e).removed.isSome = true := by
  cases e <;> simp only [LM.step] <;> (try exact h) <;> (split <;> first | exact h | rfl)

theorem removed_append (t : Nat) : ∀ (new l : List Ev), (LM.run t l).removed.isSome = true →
    (LM.run t (new ++ l)).removed.isSome = true := by
  intro new
  induction new with
  | nil => intro l h; exact h
  | cons e r ih => intro l h; exact removed_step t _ e (ih l h)

/-- what the invariant reads of a descriptor -/
structure GM (f' f : FileDesc) : Prop where
  carousel : f'.carousel = f.carousel
  total : f'.info.total = f.info.total
  maxCount : f'.maxCount = f.maxCount

theorem GoneInv.step {s s' : State} {L L' : Held} (h : GoneInv s L) (new : List Ev) (hlog : s'.log = new ++ s.log)
    (ho : ∀ t f', getF s'.objs t = some f' → ∃ f, getF s.objs t = some f ∧ GM f' f)
    (hfiles : ∀ t, t ∈ s.files → t ∈ s'.files) : GoneInv s' L' := by
  intro t f' hf' hc hnf
  obtain ⟨f, hf, g⟩ := ho t f' hf'
  rcases h t f hf (by rw [← g.carousel]; exact hc) (fun hin => hnf (hfiles t hin)) with h1 | h1
  · left; rw [hlog]; exact removed_append t new _ h1
  · right
    unfold burstF at h1 ⊢
    rw [g.total, g.maxCount]; exact h1

theorem gm_updF {l : List FileDesc} (k : Nat) (gf : FileDesc → FileDesc) (hg : ∀ x, (gf x).key = x.key ∧ GM (gf x) x) :
    ∀ t f', getF (updF l k gf) t = some f' → ∃ f, getF l t = some f ∧ GM f' f := by
  intro t f' hf'
  rw [getF_updF l k t gf (fun x => (hg x).1)] at hf'
  by_cases hk : t = k
  · rw [if_pos hk] at hf'
    cases h0 : getF l t with
    | none => rw [h0] at hf'; cases hf'
    | some f =>
      rw [h0] at hf'; simp only [Option.map_some, Option.some.injEq] at hf'
      exact ⟨f, rfl, hf' ▸ (hg f).2⟩
  · rw [if_neg hk] at hf'
    exact ⟨f', hf', rfl, rfl, rfl⟩

theorem gm_same {l : List FileDesc} : ∀ t f', getF l t = some f' → ∃ f, getF l t = some f ∧ GM f' f :=
  fun _ f' h => ⟨f', h, rfl, rfl, rfl⟩

theorem GoneInv.publish {s : State} {L : Held} (h : GoneInv s L) (now : Nat) : GoneInv (Sched.publish s now) L := by
  refine h.step [_] (publish_log s now) ?_ (fun _ hin => hin)
  intro t f' hf'
  rw [publish_getF_objs] at hf'
  cases h0 : getF s.objs t with
  | none => rw [h0] at hf'; cases hf'
  | some f =>
    rw [h0] at hf'; simp only [Option.map_some, Option.some.injEq] at hf'
    refine ⟨f, rfl, ?_⟩
    rw [← hf']
    unfold pubMark; split
    · exact ⟨rfl, rfl, rfl⟩
    · exact ⟨rfl, rfl, rfl⟩

theorem GoneInv.publishTry {s : State} {L : Held} (h : GoneInv s L) (now : Nat) : GoneInv (Sched.publishTry s now) L :=
  publishTry_elim (P := fun x => GoneInv x L) s now (h.publish now) h

theorem GoneInv.closed : Closed (And2 Wf LifeInv) GoneInv where
  perm := fun _ _ _ _ h => h
  leaveFiles := fun _ _ _ h => h
  enterFiles := fun _ _ _ _ h _ _ => h
  emitRead := fun s _ now _ h _ => h.step (s' := emit s (.opRead now)) [_] rfl gm_same (fun _ hin => hin)
  emitIdle := fun s _ now _ h _ => h.step (s' := emit s (.idle now)) [_] rfl gm_same (fun _ hin => hin)
  publish := fun _ _ now _ h _ => h.publish now
  fdtAdvance := fun s L now _ h _ _ => by
    rcases fdtAdvance_cases s now with ⟨e, _⟩ | ⟨k, f, _, _, _, e⟩
    · rw [e]
      exact h.step [] (by rw [fdtPop_log]; rfl) (by rw [fdtPop_objs]; exact gm_same) (fun _ hin => by rw [fdtPop_files]; exact hin)
    · rw [e]
      exact h.step [Ev.fdtStart now k] (by show _ :: (fdtPop s).log = _; rw [fdtPop_log]; rfl)
        (by show ∀ t f', getF (fdtPop s).objs t = some f' → _; rw [fdtPop_objs]; exact gm_same)
        (fun _ hin => by show _ ∈ (fdtPop s).files; rw [fdtPop_files]; exact hin)
  fileStart := fun s L _ now tk t _ h _ _ => by
    have h1 : GoneInv (fileStartStep s t now tk) L :=
      h.step [Ev.start now t _ _] rfl
        (gm_updF t (fun f => transferInit f now tk) (fun _ => ⟨rfl, rfl, rfl, rfl⟩)) (fun _ hin => hin)
    unfold autoPublish; split
    · exact h1.publishTry now
    · exact h1
  pkt := fun s L prio c now _ idx b _ _ h _ _ _ _ _ =>
    h.step (s' := pktStep s prio c.key now idx b) [_] rfl
      (gm_updF c.key tickInfo (fun x => ⟨rfl, rfl, (tickInfo_fields x).2.1, rfl⟩)) (fun _ hin => hin)
  done := fun s L prio c now f0 e0 hb h _ hf0 _ => by
    intro t f' hf' hc hnf
    rw [transferDoneFile_objs, getF_updF s.objs c.key t (fun f => transferDoneInfo f now) (fun _ => rfl)] at hf'
    rw [transferDoneFile_log]
    by_cases hk : t = c.key
    · -- the object whose transfer ends
      subst hk
      rw [if_pos rfl, hf0] at hf'
      simp only [Option.map_some, Option.some.injEq] at hf'
      subst hf'
      have hc0 : f0.carousel = none := hc
      have hrel := hb.2.rel c.key f0 hf0
      obtain ⟨hcnt, hle, hlt⟩ := hrel.count hc0
      obtain ⟨fh, hfh, htr, _⟩ := hb.1.heldObj (prio, c) List.mem_cons_self
      rw [hf0] at hfh; cases hfh
      have hlt' := hlt (Or.inr htr)
      by_cases hin : c.key ∈ s.files
      · -- it was in the sender: it leaves only when expired
        right
        rw [transferDoneFile_eq] at hnf
        have hcont : s.files.contains c.key = true := by simpa using hin
        simp only [hcont, Bool.not_true, Bool.false_eq_true, if_false] at hnf
        have hget : getF (doneStep s c.key now).objs c.key = some (transferDoneInfo f0 now) := by
          show getF (updF s.objs c.key (fun f => transferDoneInfo f now)) c.key = _
          rw [getF_updF s.objs c.key c.key (fun f => transferDoneInfo f now) (fun _ => rfl), if_pos rfl, hf0]; rfl
        rw [hget] at hnf
        simp only [] at hnf
        by_cases hexp : isExpired (transferDoneInfo f0 now) = true
        · -- expired: count + 1 reached max
          unfold isExpired at hexp
          have hc1 : (transferDoneInfo f0 now).info.count = f0.info.count + 1 := rfl
          have hm1 : (transferDoneInfo f0 now).maxCount = f0.maxCount := rfl
          rw [hc1, hm1] at hexp
          have hnot : ¬ f0.maxCount > f0.info.count + 1 := by
            intro hgt; rw [if_pos hgt] at hexp; cases hexp
          show f0.info.total + 1 = burstF (transferDoneInfo f0 now)
          have hb1 : burstF (transferDoneInfo f0 now) = burstF f0 := rfl
          rw [hb1]
          unfold burstF at hlt' ⊢
          split at hlt' <;> rename_i hz
          · rw [if_pos hz]; omega
          · rw [if_neg hz]; omega
        · exfalso
          have : (!isExpired (transferDoneInfo f0 now)) = true := by simp [hexp]
          rw [if_pos this] at hnf
          exact hnf hin
      · -- it had already left (removed while in transfer)
        rcases h c.key f0 hf0 hc0 hin with h1 | h1
        · left; exact removed_step _ _ _ h1
        · omega
    · rw [if_neg hk] at hf'
      have hnf0 : t ∉ s.files := by
        intro hin
        apply hnf
        rw [transferDoneFile_eq]; split
        · exact hin
        · split
          · split
            · exact hin
            · exact (List.mem_erase_of_ne hk).mpr hin
          · exact hin
      rcases h t f' hf' hc hnf0 with h1 | h1
      · left; exact removed_step _ _ _ h1
      · exact Or.inr h1
  fdtPkt := fun s L c f now idx b e _ h _ _ _ _ _ =>
    h.step (s' := fdtStep s c e f.fdtId now idx) [_] rfl gm_same (fun _ hin => hin)
  fdtDone := fun s L c _ now _ _ h _ _ _ _ _ =>
    h.step [Ev.fdtStop now c.key] (by unfold fdtRelease; exact transferDoneFdt_log s c.key now)
      (by unfold fdtRelease; show ∀ t f', getF (transferDoneFdt s c.key now).objs t = some f' → _
          rw [transferDoneFdt_objs]; exact gm_same)
      (fun _ hin => by unfold fdtRelease; show _ ∈ (transferDoneFdt s c.key now).files; rw [transferDoneFdt_files]; exact hin)

theorem getF_append_new {l : List FileDesc} {fd : FileDesc} {t : Nat} {f' : FileDesc}
    (h : getF (l ++ [fd]) t = some f') : getF l t = some f' ∨ (getF l t = none ∧ f' = fd ∧ fd.key = t) := by
  cases h0 : getF l t with
  | some f => left; rw [getF_append_some h0] at h; exact h
  | none =>
    right
    rw [getF_append_none h0] at h
    have hk := getF_key h
    have hm := getF_mem h
    simp only [List.mem_singleton] at hm
    exact ⟨rfl, hm, hm ▸ hk⟩

theorem GoneInv.closedOps : ClosedOps (And2 Wf LifeInv) GoneInv where
  add := fun s L a hb h => by
    unfold addObject; simp only []
    split
    · exact h.step (s' := emit { s with nextToi := s.nextToi + 1 } _) [_] rfl gm_same (fun _ hin => hin)
    · split
      · exact h.step (s' := emit { s with nextToi := s.nextToi + 1 } _) [_] rfl gm_same (fun _ hin => hin)
      · intro t f' hf' hc hnf
        have hf'' : getF (s.objs ++ [_]) t = some f' := hf'
        rcases getF_append_new hf'' with h1 | ⟨_, h2, h3⟩
        · have hnf0 : t ∉ s.files := fun hin => hnf (List.mem_append_left _ hin)
          rcases h t f' h1 hc hnf0 with h4 | h4
          · left; exact removed_step _ _ _ h4
          · exact Or.inr h4
        · exfalso
          apply hnf
          show t ∈ s.files ++ [s.nextToi]
          rw [← h3]; simp
  remove := fun s L toi _ h => by
    unfold removeObject; split
    · exact h.step (s' := emit s _) [_] rfl gm_same (fun _ hin => hin)
    · intro t f' hf' hc hnf
      have hf0 : getF s.objs t = some f' := hf'
      by_cases hk : t = toi
      · left
        subst hk
        show ((LM.run t s.log).step t (Ev.opRemove t true)).removed.isSome = true
        simp [LM.step]
      · have hnf0 : t ∉ s.files := fun hin => hnf ((List.mem_erase_of_ne hk).mpr hin)
        rcases h t f' hf0 hc hnf0 with h4 | h4
        · left; exact removed_step _ _ _ h4
        · exact Or.inr h4
  trigger := fun s L t ts _ h => by
    unfold triggerTransferAt; split
    · exact h.step (s' := emit s _) [_] rfl gm_same (fun _ hin => hin)
    · split
      · exact h.step (s' := emit s _) [_] rfl gm_same (fun _ hin => hin)
      · exact h.step (s' := emit { s with objs := updF s.objs t (fun f => resetLastTransfer f ts) } _) [_] rfl
          (gm_updF t (fun f => resetLastTransfer f ts) (fun _ => ⟨rfl, rfl, rfl, rfl⟩)) (fun _ hin => hin)
  publishOp := fun s L now _ h => by
    have h0 : GoneInv (emit s (.opPublish now)) L :=
      h.step (s' := emit s (.opPublish now)) [_] rfl gm_same (fun _ hin => hin)
    exact h0.publishTry now
  complete := fun _ _ _ h => h

/-- after every history -/
theorem gone_run (cfg : Cfg) (tbl : List Nat) (ops : List Op) :
    ∀ t f, getF (run (init cfg tbl) ops).objs t = some f → f.carousel = none → t ∉ (run (init cfg tbl) ops).files →
      (LM.run t (run (init cfg tbl) ops).log).removed.isSome = true ∨ f.info.total = burstF f :=
  (inv_run (Closed.and (Closed.and Wf.closed LifeInv.closed) GoneInv.closed)
    (ClosedOps.and (ClosedOps.and Wf.closedOps LifeInv.closedOps) GoneInv.closedOps) cfg tbl
    ⟨⟨Wf.init cfg tbl, LifeInv.init cfg tbl⟩, by intro t f hf; simp [init, getF] at hf⟩ ops).2

end Flute.Sched
