import FluteModel.Lemmas.ObjRecvWritten
/-
  Facts about the ObjectReceiver model that the session level (agent recv: `ObjIface.Law`, `ObjIface.CompleteSound`) asks of an
  object implementation:
    * `push` never changes `fdt_instance_id`; an object that is not attached makes no builder / writer call at all
      (`push_fdtId`, `push_silent`, `attach_false_silent`, `drop_silent`; `attachFdt` answers `true` only for `file = some _`);
    * when a `complete` call is recorded, the object's state is `Completed` (`complete_state`, for every reachable state).
-/
namespace Flute.ObjRecv
open Flute Flute.FecDec

/-- `fdt_instance_id` untouched; without writer no call is made and no writer appears -/
structure W0 (st st' : St) : Prop where
  fdt : st'.fdtId = st.fdtId
  quiet : st.writer = none → st'.writer = none ∧ st'.out = st.out

theorem W0.refl (st : St) : W0 st st := ⟨rfl, fun h => ⟨h, rfl⟩⟩
theorem W0.trans {a b c : St} (h1 : W0 a b) (h2 : W0 b c) : W0 a c :=
  ⟨h2.fdt.trans h1.fdt, fun h => ⟨(h2.quiet (h1.quiet h).1).1, ((h2.quiet (h1.quiet h).1).2).trans (h1.quiet h).2⟩⟩
theorem W0.ofQuiet {st st' : St} (q : Quiet st st') : W0 st st' := ⟨q.fdt, fun h => ⟨q.writer.trans h, q.out⟩⟩
/-- the write path is only entered with an open writer -/
theorem W0.ofWr {st st' : St} (w : Wr st st') (ho : st.writer ≠ none) : W0 st st' := ⟨w.fdt, fun h => absurd h ho⟩
theorem w0_complete (st : St) : W0 st (complete st) := ⟨by simp, fun h => by simp [h]⟩
theorem w0_error (st : St) (i : Bool) : W0 st (error st i) := ⟨by simp, fun h => by simp [h]⟩

theorem w0_writeBlocks (P : Params) (st : St) (sbn : Nat) {st' : St} {b : Bool}
    (hi : Inv st) (h : writeBlocks P st sbn = .ok (st', b)) : W0 st st' := by
  cases hw : st.writer with
  | none =>
    have := (inv_writeBlocks _ _ _ hi h).2.2 hw
    rw [this]; exact W0.refl _
  | some ws =>
    -- fdtId: the loop never touches it; the quiet clause is vacuous
    refine ⟨?_, fun hn => by simp [hw] at hn⟩
    unfold writeBlocks at h
    rw [hw] at h
    dsimp only at h
    split at h
    · simp at h; rw [← h.1]
    · split at h
      · simp at h; rw [← h.1]
      · rename_i hne _ _
        have ho : st.writer = some .opened := by rw [hw]; cases ws <;> simp_all
        clear hw
        -- induction on the loop
        have key : ∀ (fuel : Nat) (s : St) (n : Nat) (s' : St) (b' : Bool), Inv s → s.writer = some .opened →
            writeLoop P fuel s n = .ok (s', b') → s'.fdtId = s.fdtId := by
          intro fuel
          induction fuel with
          | zero => intro s n s' b' _ _ hh; simp [writeLoop] at hh
          | succ m ih =>
            intro s n s' b' his hos hh
            unfold writeLoop at hh
            split at hh
            · simp at hh; rw [← hh.1]
            · split at hh
              · simp at hh; rw [← hh.1]
              · split at hh
                · simp at hh; rw [← hh.1]
                · split at hh
                  · simp at hh
                  · rename_i heq; simp at hh; rw [← hh.1]; exact (wr_bwWrite _ _ _ _ heq).fdt
                  · rename_i heq; simp at hh; rw [← hh.1]; exact (wr_bwWrite _ _ _ _ heq).fdt
                  · rename_i s1 heq
                    have hwr := wr_bwWrite _ _ _ _ heq
                    have h1 := his.wr hos hwr
                    split at hh
                    · simp at hh
                    · split at hh
                      · simp at hh
                      · split at hh
                        · simp at hh
                        · rename_i blk _ _ _ _ w2 hw2
                          have hpb := inv_popBlock h1.1 (by simp [hw2]) (n - s.blocksOffset) ‹Block›
                          have e1 : (popBlock s1 (n - s.blocksOffset) ‹Block›).fdtId = s1.fdtId := by
                            unfold popBlock; dsimp only; split <;> rfl
                          split at hh
                          · simp at hh; rw [← hh.1]
                            unfold finishObject
                            split
                            · simp [e1, hwr.fdt]
                            · split <;> simp [e1, hwr.fdt]
                          · have := ih _ _ _ _ hpb.1 (hpb.2.trans h1.2) hh
                            rw [this, e1, hwr.fdt]
        exact key _ _ _ _ _ hi ho h

theorem w0_pushToBlock2 (P : Params) (st : St) (p : Pkt) {st' : St} {b : Bool}
    (hi : Inv st) (hl : Live st) (h : pushToBlock2 P st p = .ok (st', b)) : W0 st st' := by
  unfold pushToBlock2 at h
  split at h
  · split at h
    · simp at h
    · simp at h; rw [← h.1]; exact W0.refl _
    · split at h
      · split at h
        · simp at h
        · simp at h; rw [← h.1]; split
          · split
            · exact w0_complete _
            · exact w0_error _ _
          · exact W0.refl _
      · split at h
        · simp at h; rw [← h.1]; exact W0.refl _
        · split at h
          · simp at h; rw [← h.1]; exact W0.refl _
          · split at h
            · simp at h; rw [← h.1]; exact W0.ofQuiet (quiet_setError _)
            · have q0 := quiet_growBlocks st (‹PayloadId›.sbn - st.blocksOffset)
              split at h
              · simp at h
              · split at h
                · simp at h; rw [← h.1]; exact W0.ofQuiet q0
                · split at h
                  · simp at h
                  · rename_i heq
                    simp at h; rw [← h.1]
                    exact W0.ofQuiet (q0.trans (quiet_allocBlock _ _ _ _ _ _ heq))
                  · rename_i heq
                    have q1 := q0.trans (quiet_allocBlock _ _ _ _ _ _ heq)
                    split at h
                    · simp at h
                    · have q2 : Quiet st { ‹St› with blocks := (‹St›).blocks.set (‹PayloadId›.sbn - st.blocksOffset) ‹Block› } :=
                        q1.trans ⟨rfl, rfl, rfl, rfl, rfl, rfl, .inl rfl, rfl, rfl, rfl⟩
                      split at h
                      · exact (W0.ofQuiet q2).trans (w0_writeBlocks _ _ _ (hi.quiet q2) h)
                      · simp at h; rw [← h.1]; exact W0.ofQuiet q2
  · simp at h

theorem w0_pushToBlock (P : Params) (st : St) (p : Pkt) {st' : St} {b : Bool}
    (hi : Inv st) (hl : Live st) (h : pushToBlock P st p = .ok (st', b)) : W0 st st' := by
  unfold pushToBlock at h
  split at h
  · simp at h
  · rename_i heq; simp at h; rw [← h.1]; exact w0_pushToBlock2 _ _ _ hi hl heq
  · rename_i heq
    split at h
    · simp at h; rw [← h.1]; exact (w0_pushToBlock2 _ _ _ hi hl heq).trans (w0_error _ _)
    · simp at h; rw [← h.1]; exact w0_pushToBlock2 _ _ _ hi hl heq

theorem w0_cacheLoop (P : Params) (fuel : Nat) (st : St) {st' : St}
    (hi : Inv st) (h : cacheLoop P fuel st = .ok st') : W0 st st' := by
  induction fuel generalizing st with
  | zero => simp [cacheLoop] at h; rw [← h]; exact W0.refl _
  | succ n ih =>
    unfold cacheLoop at h
    split at h
    · simp at h; rw [← h]; exact W0.refl _
    · rename_i pk rest hc
      have hl : Live st := hi.live_of_cache (by simp [hc])
      have hi2 : Inv { st with cache := rest } := by
        refine ⟨hi.noIdle, hi.ps, ?_, hi.bwOff, hi.fdt⟩
        intro t
        have := hi.term t
        simp [hc] at this
      have w1 : W0 st { st with cache := rest } := ⟨rfl, fun h => ⟨h, rfl⟩⟩
      split at h
      · simp at h
      · rename_i heq
        simp at h; rw [← h]
        exact (w1.trans (w0_pushToBlock _ _ _ hi2 hl heq)).trans (w0_error _ _)
      · rename_i heq
        exact (w1.trans (w0_pushToBlock _ _ _ hi2 hl heq)).trans (ih _ (inv_pushToBlock _ _ _ hi2 hl heq).1 h)

theorem w0_pushFromCache (P : Params) (st : St) {st' : St}
    (hi : Inv st) (h : pushFromCache P st = .ok st') : W0 st st' := by
  unfold pushFromCache at h
  split at h
  · simp at h; rw [← h]; exact W0.refl _
  · split at h
    · simp at h
    · rename_i heq
      simp at h; rw [← h]
      exact (w0_cacheLoop _ _ _ hi heq).trans ⟨rfl, fun h => ⟨h, rfl⟩⟩

/-- `init_object_writer` needs an attached FDT -/
theorem initObjectWriter_unattached (P : Params) (st : St) (hf : st.fdtId = none) : initObjectWriter P st = .ok st := by
  unfold initObjectWriter
  split
  · rfl
  · rw [hf]

theorem initObjectWriter_fdtId (P : Params) (st : St) {st' : St} (h : initObjectWriter P st = .ok st') :
    st'.fdtId = st.fdtId := by
  unfold initObjectWriter at h
  split at h
  · simp at h; rw [← h]
  · split at h
    · dsimp only at h
      split at h
      · simp at h; rw [← h]
      · simp at h; rw [← h]
      · unfold openWriter at h
        dsimp only at h
        split at h
        · simp at h
        · split at h
          · simp at h; rw [← h]; simp
          · simp at h; rw [← h]
    · simp at h; rw [← h]

/-- **`push` never changes `fdt_instance_id`** (TOI ≠ 0 object) -/
theorem push_fdtId (P : Params) (st : St) (p : Pkt) {st' : St} (hi : Inv st) (h : push P st p = .ok st') :
    st'.fdtId = st.fdtId ∧ (st.fdtId = none → st'.out = st.out ∧ st'.writer = none) := by
  have hwn : st.fdtId = none → st.writer = none := by
    intro hf
    cases hw : st.writer with
    | none => rfl
    | some ws => exact absurd hf (hi.fdt (by simp [hw]))
  unfold push at h
  split at h
  · simp at h; rw [← h]; exact ⟨rfl, fun hf => ⟨rfl, hwn hf⟩⟩
  · split at h
    · simp at h
    · rename_i st1 h1
      have q01 := (quiet_setCencFromPkt st p).trans (quiet_setOtiFromPkt _ p)
      have r1 := inv_initBlocksPartitioning _ (hi.quiet q01) h1
      have q1 : Quiet st st1 := q01.trans r1.2
      split at h
      · simp at h
      · rename_i st2 h2
        have i2 := inv_initObjectWriter _ _ r1.1 h2
        have f2 : st2.fdtId = st.fdtId := (initObjectWriter_fdtId _ _ h2).trans q1.fdt
        have s2 : st.fdtId = none → st2.out = st.out ∧ st2.writer = none := by
          intro hf
          have : st2 = st1 := by
            have := initObjectWriter_unattached P st1 (q1.fdt.trans hf)
            rw [this] at h2; simp at h2; exact h2.symm
          rw [this]; exact ⟨q1.out, q1.writer.trans (hwn hf)⟩
        split at h
        · simp at h
        · rename_i st3 h3
          have i3 := inv_pushFromCache _ _ i2 h3
          have w3 := w0_pushFromCache _ _ i2 h3
          have f3 : st3.fdtId = st.fdtId := w3.fdt.trans f2
          have s3 : st.fdtId = none → st3.out = st.out ∧ st3.writer = none := by
            intro hf
            have := w3.quiet (s2 hf).2
            exact ⟨this.2.trans (s2 hf).1, this.1⟩
          split at h
          · simp at h; rw [← h]; exact ⟨f3, s3⟩
          · rename_i hr
            have hl : Live st3 := i3.live_of_receiving (by simpa using hr)
            split at h
            · have hc : ∀ s : St, s = (cachePkt st3 p).1 → s.fdtId = st3.fdtId ∧ s.out = st3.out ∧ s.writer = st3.writer := by
                intro s hs; rw [hs]; unfold cachePkt; split
                · exact ⟨rfl, rfl, rfl⟩
                · split <;> exact ⟨rfl, rfl, rfl⟩
              split at h
              · rename_i s4 heq
                simp at h; rw [← h]
                have := hc s4 (by rw [heq])
                exact ⟨this.1.trans f3, fun hf => ⟨this.2.1.trans (s3 hf).1, this.2.2.trans (s3 hf).2⟩⟩
              · rename_i s4 heq
                simp at h; rw [← h]
                have := hc s4 (by rw [heq])
                refine ⟨by simp [this.1, f3], fun hf => ?_⟩
                have hw4 : s4.writer = none := this.2.2.trans (s3 hf).2
                simp [hw4, this.2.1, (s3 hf).1]
            · split at h
              · simp at h
              · rename_i heq
                simp at h; rw [← h]
                have w4 := w0_pushToBlock _ _ _ i3 hl heq
                exact ⟨w4.fdt.trans f3, fun hf => ⟨(w4.quiet (s3 hf).2).2.trans (s3 hf).1, (w4.quiet (s3 hf).2).1⟩⟩
              · rename_i heq
                simp at h; rw [← h]
                have w4 := (w0_pushToBlock _ _ _ i3 hl heq).trans (w0_error _ false)
                exact ⟨w4.fdt.trans f3, fun hf => ⟨(w4.quiet (s3 hf).2).2.trans (s3 hf).1, (w4.quiet (s3 hf).2).1⟩⟩

/-- an unattached object makes no call when pushed -/
theorem push_silent (P : Params) (st : St) (p : Pkt) {st' : St} (hi : Inv st) (hf : st.fdtId = none)
    (h : push P st p = .ok st') : st'.out = st.out ∧ st'.fdtId = none :=
  ⟨((push_fdtId P st p hi h).2 hf).1, (push_fdtId P st p hi h).1.trans hf⟩

/-- a failed `attach_fdt` changes nothing at all; it succeeds only for a listed TOI on an unattached object -/
theorem attach_false_silentOld (P : Params) (st : St) (id : Nat) (file : Option FileEntry) {st' : St}
    (h : attachFdtOld P st id file = .ok (st', false)) : st' = st := by
  unfold attachFdtOld attachCore at h
  split at h
  · simp at h; exact h.symm
  · split at h
    · simp at h; exact h.symm
    · split at h
      · simp at h
      · split at h
        · simp at h
        · split at h
          · simp at h
          · split at h
            · simp at h
            · split at h
              · simp at h
              · split at h
                · simp at h
                · simp at h


/-- the old function never answers `false` once it has a File entry and an unattached object -/
theorem attachCore_true (P : Params) (st : St) (id : Nat) (f : FileEntry) {st' : St} {b : Bool}
    (h : attachCore P st id f = .ok (st', b)) : b = true := by
  unfold attachCore at h
  split at h
  · cases h
  · split at h
    · cases h
    · split at h
      · cases h
      · split at h
        · cases h
        · split at h
          · cases h
          · split at h
            · cases h
            · simp at h; exact h.2

theorem attach_false_silent (P : Params) (st : St) (id : Nat) (file : Option FileEntry) {st' : St}
    (h : attachFdt P st id file = .ok (st', false)) : st' = st := by
  rcases attachFdt_cases h with h0 | ⟨f, rfl, _, hfd, h1⟩
  · exact attach_false_silentOld P st id file h0
  · exfalso
    unfold attachFdtOld at h1
    have : (resetOti st).fdtId.isSome = false := by simp [resetOti, hfd]
    rw [if_neg (by simp [this])] at h1
    have := attachCore_true P _ id f h1
    cases this

theorem attach_true_listed (P : Params) (st : St) (id : Nat) (file : Option FileEntry) {st' : St}
    (h : attachFdt P st id file = .ok (st', true)) : file.isSome = true ∧ st.fdtId = none := by
  unfold attachFdt at h
  split at h
  · simp at h
  · rename_i hf
    split at h
    · simp at h
    · exact ⟨rfl, by simpa using hf⟩

/-- Drop of an unattached object makes no call -/
theorem drop_silent (st : St) (hi : Inv st) (hf : st.fdtId = none) : (drop st).out = st.out := by
  have hw : st.writer = none := by
    cases hw : st.writer with
    | none => rfl
    | some ws => exact absurd hf (hi.fdt (by simp [hw]))
  unfold drop; rw [hw]

/-! ### (d), (e): the TOI never changes, `out` only grows (calls are prepended) -/

structure Gr (st st' : St) : Prop where
  toi : st'.toi = st.toi
  grow : ∃ l, st'.out = l ++ st.out

theorem Gr.refl (st : St) : Gr st st := ⟨rfl, [], rfl⟩
theorem Gr.trans {a b c : St} (h1 : Gr a b) (h2 : Gr b c) : Gr a c := by
  obtain ⟨l1, e1⟩ := h1.grow
  obtain ⟨l2, e2⟩ := h2.grow
  exact ⟨h2.toi.trans h1.toi, l2 ++ l1, by rw [e2, e1, List.append_assoc]⟩
theorem Gr.ofQuiet {st st' : St} (q : Quiet st st') : Gr st st' := ⟨q.toi, [], by simp [q.out]⟩
theorem Gr.ofWr {st st' : St} (w : Wr st st') : Gr st st' := ⟨w.toi, w.grow⟩
theorem gr_complete (st : St) : Gr st (complete st) := by
  refine ⟨by unfold complete; cases st.writer <;> simp, ?_⟩
  rw [complete_out]; split
  · exact ⟨[_], rfl⟩
  · exact ⟨[], rfl⟩
theorem gr_error (st : St) (i : Bool) : Gr st (error st i) := by
  refine ⟨by unfold error; cases st.writer <;> simp, ?_⟩
  rw [error_out]; split
  · exact ⟨[_], rfl⟩
  · exact ⟨[], rfl⟩
theorem gr_popBlock (st : St) (off : Nat) (blk : Block) : Gr st (popBlock st off blk) := by
  unfold popBlock; dsimp only; split <;> exact ⟨rfl, [], rfl⟩
theorem gr_finishObject (st : St) (w : BW) : Gr st (finishObject st w) := by
  unfold finishObject; split
  · exact gr_error _ _
  · split
    · exact gr_complete _
    · exact gr_error _ _

theorem gr_writeLoop (P : Params) (fuel : Nat) (st : St) (sbn : Nat) {st' : St} {b : Bool}
    (h : writeLoop P fuel st sbn = .ok (st', b)) : Gr st st' := by
  induction fuel generalizing st sbn with
  | zero => simp [writeLoop] at h
  | succ n ih =>
    unfold writeLoop at h
    split at h
    · simp at h; rw [← h.1]; exact Gr.refl _
    · split at h
      · simp at h; rw [← h.1]; exact Gr.refl _
      · split at h
        · simp at h; rw [← h.1]; exact Gr.refl _
        · split at h
          · simp at h
          · rename_i heq; simp at h; rw [← h.1]; exact Gr.ofWr (wr_bwWrite _ _ _ _ heq)
          · rename_i heq; simp at h; rw [← h.1]; exact Gr.ofWr (wr_bwWrite _ _ _ _ heq)
          · rename_i heq
            have c1 := Gr.ofWr (wr_bwWrite _ _ _ _ heq)
            split at h
            · simp at h
            · split at h
              · simp at h
              · split at h
                · simp at h
                · split at h
                  · simp at h; rw [← h.1]
                    exact (c1.trans (gr_popBlock _ _ _)).trans (gr_finishObject _ _)
                  · exact (c1.trans (gr_popBlock _ _ _)).trans (ih _ _ h)

theorem gr_writeBlocks (P : Params) (st : St) (sbn : Nat) {st' : St} {b : Bool}
    (h : writeBlocks P st sbn = .ok (st', b)) : Gr st st' := by
  unfold writeBlocks at h
  split at h
  · simp at h; rw [← h.1]; exact Gr.refl _
  · split at h
    · simp at h; rw [← h.1]; exact Gr.refl _
    · split at h
      · simp at h; rw [← h.1]; exact Gr.refl _
      · exact gr_writeLoop _ _ _ _ h

theorem gr_pushToBlock2 (P : Params) (st : St) (p : Pkt) {st' : St} {b : Bool}
    (h : pushToBlock2 P st p = .ok (st', b)) : Gr st st' := by
  unfold pushToBlock2 at h
  split at h
  · split at h
    · simp at h
    · simp at h; rw [← h.1]; exact Gr.refl _
    · split at h
      · split at h
        · simp at h
        · simp at h; rw [← h.1]; split
          · split
            · exact gr_complete _
            · exact gr_error _ _
          · exact Gr.refl _
      · split at h
        · simp at h; rw [← h.1]; exact Gr.refl _
        · split at h
          · simp at h; rw [← h.1]; exact Gr.refl _
          · split at h
            · simp at h; rw [← h.1]; exact Gr.ofQuiet (quiet_setError _)
            · have q0 := quiet_growBlocks st (‹PayloadId›.sbn - st.blocksOffset)
              split at h
              · simp at h
              · split at h
                · simp at h; rw [← h.1]; exact Gr.ofQuiet q0
                · split at h
                  · simp at h
                  · rename_i heq
                    simp at h; rw [← h.1]
                    exact Gr.ofQuiet (q0.trans (quiet_allocBlock _ _ _ _ _ _ heq))
                  · rename_i heq
                    have q1 := q0.trans (quiet_allocBlock _ _ _ _ _ _ heq)
                    split at h
                    · simp at h
                    · have q2 : Quiet st { ‹St› with blocks := (‹St›).blocks.set (‹PayloadId›.sbn - st.blocksOffset) ‹Block› } :=
                        q1.trans ⟨rfl, rfl, rfl, rfl, rfl, rfl, .inl rfl, rfl, rfl, rfl⟩
                      split at h
                      · exact (Gr.ofQuiet q2).trans (gr_writeBlocks _ _ _ h)
                      · simp at h; rw [← h.1]; exact Gr.ofQuiet q2
  · simp at h

theorem gr_pushToBlock (P : Params) (st : St) (p : Pkt) {st' : St} {b : Bool}
    (h : pushToBlock P st p = .ok (st', b)) : Gr st st' := by
  unfold pushToBlock at h
  split at h
  · simp at h
  · rename_i heq; simp at h; rw [← h.1]; exact gr_pushToBlock2 _ _ _ heq
  · rename_i heq
    split at h
    · simp at h; rw [← h.1]; exact (gr_pushToBlock2 _ _ _ heq).trans (gr_error _ _)
    · simp at h; rw [← h.1]; exact gr_pushToBlock2 _ _ _ heq

theorem gr_cacheLoop (P : Params) (fuel : Nat) (st : St) {st' : St}
    (h : cacheLoop P fuel st = .ok st') : Gr st st' := by
  induction fuel generalizing st with
  | zero => simp [cacheLoop] at h; rw [← h]; exact Gr.refl _
  | succ n ih =>
    unfold cacheLoop at h
    split at h
    · simp at h; rw [← h]; exact Gr.refl _
    · rename_i pk rest hc
      have w1 : Gr st { st with cache := rest } := ⟨rfl, [], rfl⟩
      split at h
      · simp at h
      · rename_i heq
        simp at h; rw [← h]
        exact (w1.trans (gr_pushToBlock _ _ _ heq)).trans (gr_error _ _)
      · rename_i heq
        exact (w1.trans (gr_pushToBlock _ _ _ heq)).trans (ih _ h)

theorem gr_pushFromCache (P : Params) (st : St) {st' : St}
    (h : pushFromCache P st = .ok st') : Gr st st' := by
  unfold pushFromCache at h
  split at h
  · simp at h; rw [← h]; exact Gr.refl _
  · split at h
    · simp at h
    · rename_i heq
      simp at h; rw [← h]
      exact (gr_cacheLoop _ _ _ heq).trans ⟨rfl, [], rfl⟩

theorem gr_initBlocksPartitioning (st : St) {st' : St} (h : initBlocksPartitioning st = .ok st') : Gr st st' := by
  unfold initBlocksPartitioning at h
  split at h
  · simp at h; rw [← h]; exact Gr.refl _
  · split at h
    · split at h
      · simp at h
      · simp at h; subst h; exact ⟨rfl, [], rfl⟩
    · simp at h; rw [← h]; exact Gr.refl _

theorem gr_initObjectWriter (P : Params) (st : St) {st' : St} (h : initObjectWriter P st = .ok st') : Gr st st' := by
  unfold initObjectWriter at h
  split at h
  · simp at h; rw [← h]; exact Gr.refl _
  · split at h
    · dsimp only at h
      split at h
      · simp at h; subst h; exact ⟨rfl, [_], rfl⟩
      · simp at h; subst h; exact ⟨rfl, [_], rfl⟩
      · unfold openWriter at h
        dsimp only at h
        split at h
        · simp at h
        · split at h
          · simp at h; subst h
            refine ⟨by unfold error; simp, ?_⟩
            rw [error_out]; simp
            exact ⟨[_, _, _], rfl⟩
          · simp at h; subst h; exact ⟨rfl, [_, _], rfl⟩
    · simp at h; rw [← h]; exact Gr.refl _

/-- **(d), (e) for `push`** -/
theorem push_grows (P : Params) (st : St) (p : Pkt) {st' : St} (h : push P st p = .ok st') :
    st'.toi = st.toi ∧ ∃ l, st'.out = l ++ st.out := by
  suffices Gr st st' from ⟨this.toi, this.grow⟩
  unfold push at h
  split at h
  · simp at h; rw [← h]; exact Gr.refl _
  · split at h
    · simp at h
    · rename_i st1 h1
      have r1 : Gr st st1 :=
        (Gr.ofQuiet ((quiet_setCencFromPkt st p).trans (quiet_setOtiFromPkt _ p))).trans (gr_initBlocksPartitioning _ h1)
      split at h
      · simp at h
      · rename_i st2 h2
        have r2 := r1.trans (gr_initObjectWriter _ _ h2)
        split at h
        · simp at h
        · rename_i st3 h3
          have r3 := r2.trans (gr_pushFromCache _ _ h3)
          split at h
          · simp at h; rw [← h]; exact r3
          · split at h
            · have hc : Gr st3 (cachePkt st3 p).1 := by
                unfold cachePkt; split
                · exact Gr.refl _
                · split
                  · exact Gr.refl _
                  · exact ⟨rfl, [], rfl⟩
              split at h
              · rename_i heq; simp at h; rw [← h]; rw [heq] at hc; exact r3.trans hc
              · rename_i heq; simp at h; rw [← h]; rw [heq] at hc; exact (r3.trans hc).trans (gr_error _ _)
            · split at h
              · simp at h
              · rename_i heq; simp at h; rw [← h]; exact r3.trans (gr_pushToBlock _ _ _ heq)
              · rename_i heq; simp at h; rw [← h]; exact (r3.trans (gr_pushToBlock _ _ _ heq)).trans (gr_error _ _)

/-- **(d), (e) for `attach_fdt`** -/
theorem attach_growsOld (P : Params) (st : St) (id : Nat) (file : Option FileEntry) {st' : St} {b : Bool}
    (h : attachFdtOld P st id file = .ok (st', b)) : st'.toi = st.toi ∧ ∃ l, st'.out = l ++ st.out := by
  suffices Gr st st' from ⟨this.toi, this.grow⟩
  unfold attachFdtOld attachCore at h
  split at h
  · simp at h; rw [← h.1]; exact Gr.refl _
  · split at h
    · simp at h; rw [← h.1]; exact Gr.refl _
    · split at h
      · simp at h
      · rename_i st1 h1
        have r1 : Gr st st1 := by
          unfold attachMeta at h1
          dsimp only at h1
          split at h1
          · simp at h1
          · simp at h1; subst h1; exact ⟨rfl, [], rfl⟩
        split at h
        · simp at h
        · rename_i st2 h2
          have r2 := r1.trans (gr_initBlocksPartitioning _ h2)
          split at h
          · simp at h
          · rename_i st3 h3
            have r3 := r2.trans (gr_initObjectWriter _ _ h3)
            split at h
            · simp at h
            · rename_i st4 h4
              have r4 := r3.trans (gr_pushFromCache _ _ h4)
              split at h
              · simp at h
              · rename_i st5 ok h5
                have r5 := r4.trans (gr_writeBlocks _ _ _ h5)
                have r6 : Gr st5 (if ok = true then st5 else error st5 false) := by
                  cases ok
                  · simpa using gr_error st5 false
                  · simpa using Gr.refl st5
                split at h
                · simp at h
                · rename_i st6 h6
                  simp at h; rw [← h.1]
                  exact (r5.trans r6).trans (gr_pushFromCache _ _ h6)


theorem attach_grows (P : Params) (st : St) (id : Nat) (file : Option FileEntry) {st' : St} {b : Bool}
    (h : attachFdt P st id file = .ok (st', b)) : st'.toi = st.toi ∧ ∃ l, st'.out = l ++ st.out := by
  rcases attachFdt_cases h with h0 | ⟨f, rfl, _, _, h1⟩
  · exact attach_growsOld P st id file h0
  · exact attach_growsOld P (resetOti st) id _ h1

theorem drop_grows (st : St) : (drop st).toi = st.toi ∧ ∃ l, (drop st).out = l ++ st.out := by
  unfold drop
  split
  · exact ⟨(gr_error st false).toi, (gr_error st false).grow⟩
  · exact ⟨(gr_error st false).toi, (gr_error st false).grow⟩
  · exact ⟨rfl, [], rfl⟩

/-! ### (c): a recorded `complete` call means the object is in state `Completed` -/

def KR (st : St) : Prop := noComplete st.out ∨ st.state = .completed

theorem kr_error (st : St) (i : Bool) (h : noComplete st.out) : KR (error st i) := .inl (error_nc _ _ h)
theorem kr_complete (st : St) : KR (complete st) := .inr (by simp)

theorem kr_writeLoop (P : Params) (fuel : Nat) (st : St) (sbn : Nat) {st' : St} {b : Bool}
    (hn : noComplete st.out) (h : writeLoop P fuel st sbn = .ok (st', b)) :
    KR st' ∧ (b = false → noComplete st'.out) := by
  induction fuel generalizing st sbn with
  | zero => simp [writeLoop] at h
  | succ n ih =>
    unfold writeLoop at h
    split at h
    · simp at h; rw [← h.1]; exact ⟨.inl hn, fun _ => hn⟩
    · split at h
      · simp at h; rw [← h.1]; exact ⟨.inl hn, fun _ => hn⟩
      · split at h
        · simp at h; rw [← h.1]; exact ⟨.inl hn, fun _ => hn⟩
        · split at h
          · simp at h
          · rename_i heq; simp at h; rw [← h.1]
            have := (wr_bwWrite _ _ _ _ heq).nc hn
            exact ⟨.inl this, fun _ => this⟩
          · rename_i heq; simp at h; rw [← h.1]
            have := (wr_bwWrite _ _ _ _ heq).nc hn
            exact ⟨.inl this, fun _ => this⟩
          · rename_i st1 heq
            have n1 := (wr_bwWrite _ _ _ _ heq).nc hn
            split at h
            · simp at h
            · split at h
              · simp at h
              · split at h
                · simp at h
                · have n2 : noComplete (popBlock st1 (sbn - st.blocksOffset) ‹Block›).out := by
                    have : (popBlock st1 (sbn - st.blocksOffset) ‹Block›).out = st1.out := by
                      unfold popBlock; dsimp only; split <;> rfl
                    rw [this]; exact n1
                  split at h
                  · simp at h; obtain ⟨rfl, rfl⟩ := h
                    refine ⟨?_, fun hf => by cases hf⟩
                    unfold finishObject
                    split
                    · exact kr_error _ _ n2
                    · split
                      · exact kr_complete _
                      · exact kr_error _ _ n2
                  · exact ih _ _ n2 h

theorem kr_writeBlocks (P : Params) (st : St) (sbn : Nat) {st' : St} {b : Bool}
    (hn : noComplete st.out) (h : writeBlocks P st sbn = .ok (st', b)) :
    KR st' ∧ (b = false → noComplete st'.out) := by
  unfold writeBlocks at h
  split at h
  · simp at h; rw [← h.1]; exact ⟨.inl hn, fun _ => hn⟩
  · split at h
    · simp at h; rw [← h.1]; exact ⟨.inl hn, fun _ => hn⟩
    · split at h
      · simp at h; rw [← h.1]; exact ⟨.inl hn, fun _ => hn⟩
      · exact kr_writeLoop _ _ _ _ hn h

theorem kr_pushToBlock2 (P : Params) (st : St) (p : Pkt) {st' : St} {b : Bool}
    (hn : noComplete st.out) (h : pushToBlock2 P st p = .ok (st', b)) :
    KR st' ∧ (b = false → noComplete st'.out) := by
  have key : ∀ s : St, Quiet st s → noComplete s.out := fun s q => by rw [q.out]; exact hn
  unfold pushToBlock2 at h
  split at h
  · split at h
    · simp at h
    · simp at h; rw [← h.1]; exact ⟨.inl hn, fun _ => hn⟩
    · split at h
      · split at h
        · simp at h
        · simp at h; obtain ⟨rfl, rfl⟩ := h
          refine ⟨?_, fun hf => by cases hf⟩
          split
          · split
            · exact kr_complete _
            · exact kr_error _ _ hn
          · exact .inl hn
      · split at h
        · simp at h; rw [← h.1]; exact ⟨.inl hn, fun _ => hn⟩
        · split at h
          · simp at h; rw [← h.1]; exact ⟨.inl hn, fun _ => hn⟩
          · split at h
            · simp at h; rw [← h.1]
              have := key _ (quiet_setError st)
              exact ⟨.inl this, fun _ => this⟩
            · have q0 := quiet_growBlocks st (‹PayloadId›.sbn - st.blocksOffset)
              split at h
              · simp at h
              · split at h
                · simp at h; rw [← h.1]; exact ⟨.inl (key _ q0), fun _ => key _ q0⟩
                · split at h
                  · simp at h
                  · rename_i heq
                    simp at h; rw [← h.1]
                    have := key _ (q0.trans (quiet_allocBlock _ _ _ _ _ _ heq))
                    exact ⟨.inl this, fun _ => this⟩
                  · rename_i heq
                    have q1 := q0.trans (quiet_allocBlock _ _ _ _ _ _ heq)
                    split at h
                    · simp at h
                    · have q2 : Quiet st { ‹St› with blocks := (‹St›).blocks.set (‹PayloadId›.sbn - st.blocksOffset) ‹Block› } :=
                        q1.trans ⟨rfl, rfl, rfl, rfl, rfl, rfl, .inl rfl, rfl, rfl, rfl⟩
                      split at h
                      · exact kr_writeBlocks _ _ _ (key _ q2) h
                      · simp at h; rw [← h.1]; exact ⟨.inl (key _ q2), fun _ => key _ q2⟩
  · simp at h

theorem kr_pushToBlock (P : Params) (st : St) (p : Pkt) {st' : St} {b : Bool}
    (hn : noComplete st.out) (h : pushToBlock P st p = .ok (st', b)) :
    KR st' ∧ (b = false → noComplete st'.out) := by
  unfold pushToBlock at h
  split at h
  · simp at h
  · rename_i heq; simp at h; obtain ⟨rfl, rfl⟩ := h; exact kr_pushToBlock2 _ _ _ hn heq
  · rename_i st1 heq
    have k1 := (kr_pushToBlock2 _ _ _ hn heq).1
    split at h
    · rename_i hc
      simp at h; obtain ⟨rfl, rfl⟩ := h
      refine ⟨?_, fun hf => by cases hf⟩
      cases k1 with
      | inl x => exact kr_error _ _ x
      | inr x => rw [x] at hc; simp at hc
    · simp at h; obtain ⟨rfl, rfl⟩ := h
      exact ⟨k1, fun hf => by cases hf⟩

theorem kr_cacheLoop (P : Params) (fuel : Nat) (st : St) {st' : St}
    (hi : Inv st) (hj : JInv P st) (hk : KR st) (h : cacheLoop P fuel st = .ok st') : KR st' := by
  induction fuel generalizing st with
  | zero => simp [cacheLoop] at h; rw [← h]; exact hk
  | succ n ih =>
    unfold cacheLoop at h
    split at h
    · simp at h; rw [← h]; exact hk
    · rename_i pk rest hc
      have hl : Live st := hi.live_of_cache (by simp [hc])
      have hn : noComplete st.out := (hj.jerr hl).nc
      have hi2 : Inv { st with cache := rest } := by
        refine ⟨hi.noIdle, hi.ps, ?_, hi.bwOff, hi.fdt⟩
        intro t
        have := hi.term t
        simp [hc] at this
      have hj2 : JInv P { st with cache := rest } := hj.sameJ ⟨rfl, rfl, rfl, rfl, rfl, rfl, rfl, rfl⟩
      split at h
      · simp at h
      · rename_i heq
        simp at h; rw [← h]
        exact kr_error _ _ ((kr_pushToBlock P { st with cache := rest } pk hn heq).2 rfl)
      · rename_i heq
        exact ih _ (inv_pushToBlock _ _ _ hi2 hl heq).1 ((jinv_pushToBlock _ _ _ hi2 hl hj2 heq).1 rfl)
          (kr_pushToBlock P { st with cache := rest } pk hn heq).1 h

theorem kr_pushFromCache (P : Params) (st : St) {st' : St}
    (hi : Inv st) (hj : JInv P st) (hk : KR st) (h : pushFromCache P st = .ok st') : KR st' := by
  unfold pushFromCache at h
  split at h
  · simp at h; rw [← h]; exact hk
  · split at h
    · simp at h
    · rename_i heq
      simp at h; rw [← h]
      have := kr_cacheLoop _ _ _ hi hj hk heq
      cases this with
      | inl x => exact .inl x
      | inr x => exact .inr x

theorem kr_initObjectWriter (P : Params) (st : St) {st' : St}
    (hn : noComplete st.out) (h : initObjectWriter P st = .ok st') : noComplete st'.out := by
  unfold initObjectWriter at h
  split at h
  · simp at h; rw [← h]; exact hn
  · split at h
    · dsimp only at h
      split at h
      · simp at h; subst h; simpa [noComplete] using hn
      · simp at h; subst h; simpa [noComplete] using hn
      · unfold openWriter at h
        dsimp only at h
        split at h
        · simp at h
        · split at h
          · simp at h; subst h
            apply error_nc; simpa [noComplete] using hn
          · simp at h; subst h; simpa [noComplete] using hn
    · simp at h; rw [← h]; exact hn

/-- **(c) for `push`**: in particular `ObjIface.CompleteSound` -/
theorem kr_push (P : Params) (st : St) (p : Pkt) {st' : St}
    (hi : Inv st) (hj : JInv P st) (hk : KR st) (h : push P st p = .ok st') : KR st' := by
  unfold push at h
  split at h
  · simp at h; rw [← h]; exact hk
  · rename_i hrec
    have hl0 : Live st := hi.live_of_receiving (by simpa using hrec)
    have hn0 : noComplete st.out := (hj.jerr hl0).nc
    split at h
    · simp at h
    · rename_i st1 h1
      have q01 := (quiet_setCencFromPkt st p).trans (quiet_setOtiFromPkt _ p)
      have r1 := inv_initBlocksPartitioning _ (hi.quiet q01) h1
      have j1 : JInv P st1 := (jinv_setFromPkt st p hl0 hj).sameJ (sameJ_initBlocksPartitioning _ h1)
      have n1 : noComplete st1.out := by rw [(q01.trans r1.2).out]; exact hn0
      split at h
      · simp at h
      · rename_i st2 h2
        have i2 := inv_initObjectWriter _ _ r1.1 h2
        have j2 := jinv_initObjectWriter _ _ j1 h2
        have n2 := kr_initObjectWriter _ _ n1 h2
        split at h
        · simp at h
        · rename_i st3 h3
          have i3 := inv_pushFromCache _ _ i2 h3
          have j3 := jinv_pushFromCache _ _ i2 j2 h3
          have k3 := kr_pushFromCache _ _ i2 j2 (.inl n2) h3
          split at h
          · simp at h; rw [← h]; exact k3
          · rename_i hr
            have hl : Live st3 := i3.live_of_receiving (by simpa using hr)
            have n3 : noComplete st3.out := (j3.jerr hl).nc
            split at h
            · have hc : (cachePkt st3 p).1.out = st3.out := by
                unfold cachePkt; split
                · rfl
                · split <;> rfl
              split at h
              · rename_i s4 heq
                simp at h; rw [← h]
                have : s4.out = st3.out := by rw [← hc, heq]
                exact .inl (by rw [this]; exact n3)
              · rename_i s4 heq
                simp at h; rw [← h]
                have : s4.out = st3.out := by rw [← hc, heq]
                exact kr_error _ _ (by rw [this]; exact n3)
            · split at h
              · simp at h
              · rename_i heq; simp at h; rw [← h]; exact (kr_pushToBlock _ _ _ n3 heq).1
              · rename_i heq; simp at h; rw [← h]
                exact kr_error _ _ ((kr_pushToBlock _ _ _ n3 heq).2 rfl)

/-- `push` that records a `complete` call leaves the object `Completed` (for every state with the invariants, in particular
    every reachable one) -/
theorem push_complete_state (P : Params) (st : St) (p : Pkt) {st' : St}
    (hi : Inv st) (hj : JInv P st) (hk : KR st) (h : push P st p = .ok st')
    (hc : ¬ noComplete st'.out) : st'.state = .completed := by
  cases kr_push P st p hi hj hk h with
  | inl x => exact absurd x hc
  | inr x => exact x

theorem kr_attachFdtOld (P : Params) (st : St) (id : Nat) (file : Option FileEntry) {st' : St} {b : Bool}
    (hi : Inv st) (hj : JInv P st) (hk : KR st) (h : attachFdtOld P st id file = .ok (st', b)) : KR st' := by
  unfold attachFdtOld attachCore at h
  split at h
  · simp at h; rw [← h.1]; exact hk
  · rename_i hfd
    have hw : st.writer = none := by
      cases hx : st.writer with
      | none => rfl
      | some ws =>
        have := hi.fdt (by simp [hx])
        cases hy : st.fdtId <;> simp_all
    have hn0 : noComplete st.out := (hj.none_ hw).2
    split at h
    · simp at h; rw [← h.1]; exact hk
    · split at h
      · simp at h
      · rename_i st1 h1
        have i1 := inv_attachMeta _ _ _ hi h1
        have j1 := (jinv_attachMeta _ _ _ hw hj h1).1
        have n1 : noComplete st1.out := by
          unfold attachMeta at h1
          dsimp only at h1
          split at h1
          · simp at h1
          · simp at h1; subst h1; exact hn0
        split at h
        · simp at h
        · rename_i st2 h2
          have r2 := inv_initBlocksPartitioning _ i1 h2
          have j2 : JInv P st2 := j1.sameJ (sameJ_initBlocksPartitioning _ h2)
          have n2 : noComplete st2.out := by rw [r2.2.out]; exact n1
          split at h
          · simp at h
          · rename_i st3 h3
            have i3 := inv_initObjectWriter _ _ r2.1 h3
            have j3 := jinv_initObjectWriter _ _ j2 h3
            have n3 := kr_initObjectWriter _ _ n2 h3
            split at h
            · simp at h
            · rename_i st4 h4
              have i4 := inv_pushFromCache _ _ i3 h4
              have j4 := jinv_pushFromCache _ _ i3 j3 h4
              have k4 := kr_pushFromCache _ _ i3 j3 (.inl n3) h4
              split at h
              · simp at h
              · rename_i st5 ok h5
                have i5 := inv_writeBlocks _ _ _ i4 h5
                have j5 := jinv_writeBlocks _ _ _ i4 j4 h5
                -- write_blocks(0): nothing happens unless the writer is open (then no complete is recorded yet)
                have k5 : KR st5 ∧ (ok = false → noComplete st5.out) := by
                  cases hw4 : st4.writer with
                  | none => rw [i5.2.2 hw4]; exact ⟨k4, fun _ => (j4.none_ hw4).2⟩
                  | some ws =>
                    cases ws with
                    | opened => exact kr_writeBlocks _ _ _ (j4.opened hw4).nc h5
                    | idle => exact absurd hw4 i4.noIdle
                    | closed =>
                      have : st5 = st4 ∧ ok = true := by
                        unfold writeBlocks at h5; rw [hw4] at h5; simp at h5; exact ⟨h5.1.symm, h5.2⟩
                      rw [this.1, this.2]; exact ⟨k4, fun hf => by cases hf⟩
                    | error =>
                      have : st5 = st4 ∧ ok = true := by
                        unfold writeBlocks at h5; rw [hw4] at h5; simp at h5; exact ⟨h5.1.symm, h5.2⟩
                      rw [this.1, this.2]; exact ⟨k4, fun hf => by cases hf⟩
                have i6 : Inv (if ok = true then st5 else error st5 false) := by
                  cases ok
                  · simpa using inv_error false i5.1 (Or.inr (i5.2.1 rfl))
                  · simpa using i5.1
                have j6 : JInv P (if ok = true then st5 else error st5 false) := by
                  cases ok
                  · simpa using jinv_error' (P := P) false (j5.2 rfl) (Or.inr (i5.2.1 rfl))
                  · simpa using j5.1 rfl
                have k6 : KR (if ok = true then st5 else error st5 false) := by
                  cases ok
                  · simpa using kr_error st5 false (k5.2 rfl)
                  · simpa using k5.1
                split at h
                · simp at h
                · rename_i st6 h6
                  simp at h; rw [← h.1]
                  exact kr_pushFromCache _ _ i6 j6 k6 h6


theorem kr_attachFdt (P : Params) (st : St) (id : Nat) (file : Option FileEntry) {st' : St} {b : Bool}
    (hi : Inv st) (hj : JInv P st) (hk : KR st) (h : attachFdt P st id file = .ok (st', b)) : KR st' := by
  rcases attachFdt_cases h with h0 | ⟨f, rfl, hw, _, h1⟩
  · exact kr_attachFdtOld P st id file hi hj hk h0
  · exact kr_attachFdtOld P (resetOti st) id _ (inv_reset hi) (jinv_reset hj hw) hk h1

/-- the three object invariants, bundled for the session level -/
structure Reach (P : Params) (st : St) : Prop where
  inv : Inv st
  jinv : JInv P st
  kr : KR st

theorem reach_new (P : Params) (toi m : Nat) : Reach P (St.new toi m) :=
  ⟨inv_new toi m, jinv_new P toi m, .inl (by simp [St.new, noComplete])⟩

theorem reach_push (P : Params) (st : St) (p : Pkt) {st' : St} (r : Reach P st) (h : push P st p = .ok st') : Reach P st' :=
  ⟨inv_push _ _ _ r.inv h, jinv_push _ _ _ r.inv r.jinv h, kr_push _ _ _ r.inv r.jinv r.kr h⟩

theorem reach_attach (P : Params) (st : St) (id : Nat) (file : Option FileEntry) {st' : St} {b : Bool}
    (r : Reach P st) (h : attachFdt P st id file = .ok (st', b)) : Reach P st' :=
  ⟨inv_attachFdt _ _ _ _ r.inv h, jinv_attachFdt _ _ _ _ r.inv r.jinv h, kr_attachFdt _ _ _ _ r.inv r.jinv r.kr h⟩

end Flute.ObjRecv
