import FluteModel.Sched
import FluteModel.Props.C08
import FluteModel.Lemmas.BencSessionBridge
import FluteModel.Lemmas.SchedBencLast
/-
  THE ABSTRACTION `BlockEnc` → `Sched`, stated in Lean.

  `FluteModel/Sched.lean` abstracts one transfer of an object to `Sched.Enc` (`sent`, `stopped`, `closable`) and
  `Sched.encRead nPk` ("a transfer is `nPk` packets, B on the last one iff closable, a forced read yields at most one
  more packet, carrying B").  benc's `FluteModel/BlockEnc.lean` models the same `BlockEncoder` byte by byte (blocks,
  interleave window, shards).  This file gives

    * the abstraction function `absEnc : BlockEnc.Enc → Sched.Enc` (and `absRes` on the result of one `read`),
    * the CONTRACT `enc_contract`: in every state `e` a transfer can reach (`Run`: non-empty buffer object, any E, B,
      parity, window ≥ 1, any accepting codec, any force flags = removal at any packet index), for both values of
      `force`,     absRes e (BlockEnc.read P e force) = Sched.encRead N (absEnc e) force
      where `N` is the number of packets of the complete unforced transfer (`Complete`) - the model's `nSym` input,
    * its iteration over a whole transfer (`transfer_refines`),
    * the glue of one file slot (`Session`: transfer count, last-transfer flag, forced stop) mapped onto the
      scheduler's `FileDesc` predicates (`absFD`),
    * `interleave_window_run` / `interleave_window_session`: the C13 interleave clause for every encoder state the
      composed model can reach, by citing `Props.C08.window_bound` (+ the trace invariant `TInv`).

  What is NOT proved here is listed at the end of the file.
-/
namespace Flute.SchedBenc
open Flute Flute.Fec Flute.BlockEnc Flute.BencArith Flute.BencBlocks Flute.BencInv Flute.BencLoop Flute.BencTrace
open Flute.BencShape Flute.BencPsi

/-! ### the abstraction function -/

/-- a `BlockEncoder` state seen by the scheduler: how many packets it has returned, stopped, closable -/
def absEnc (e : BlockEnc.Enc) : Sched.Enc := { sent := e.nbPkt, stopped := e.stopped, closable := e.closable }

/-- the result of `BlockEncoder::read` issued in state `e`, seen by the scheduler: `(index, B)` of the packet;
    `none` = the encoder panicked / span (excluded by `Props.C08.read_terminates`) -/
def absRes (e : BlockEnc.Enc) : BlockEnc.Out × BlockEnc.Enc → Option (Option (Nat × Bool) × Sched.Enc)
  | (.pkt p, e') => some (some (e.nbPkt, p.closeObject), absEnc e')
  | (.none, e') => some (none, absEnc e')
  | _ => none

/-! ### runs of reads: head decomposition, determinism -/

variable {P : Params}

theorem reads_nil_inv {s0 s : Enc} {tr : List (Bool × Pkt)} (h : Reads P s0 tr s) : tr = [] → s = s0 := by
  induction h with
  | nil => intro _; rfl
  | snoc _ _ _ => intro h; simp at h

theorem reads_cons_inv {s0 s2 : Enc} {l : List (Bool × Pkt)} (h : Reads P s0 l s2) :
    ∀ x rest, l = x :: rest → ∃ s1, BlockEnc.read P s0 x.1 = (.pkt x.2, s1) ∧ Reads P s1 rest s2 := by
  induction h with
  | nil => intro x rest h; cases h
  | @snoc s s' tr f p hr hstep ih =>
    intro x rest hx
    cases tr with
    | nil =>
      simp only [List.nil_append, List.cons.injEq] at hx
      obtain ⟨rfl, rfl⟩ := hx
      have := reads_nil_inv hr rfl
      subst this
      exact ⟨s', hstep, Reads.nil _⟩
    | cons y tr' =>
      simp only [List.cons_append, List.cons.injEq] at hx
      obtain ⟨rfl, rfl⟩ := hx
      obtain ⟨s1, g1, g2⟩ := ih y tr' rfl
      exact ⟨s1, g1, Reads.snoc g2 hstep⟩

/-- unforced reads are deterministic: an unforced run from `s0` is a prefix of the complete unforced run from `s0` -/
theorem reads_prefix {s0 sC : Enc} {trC : List (Bool × Pkt)} (hC : Reads P s0 trC sC)
    (hCnf : ∀ x, x ∈ trC → x.1 = false) (hend : (BlockEnc.read P sC false).1 = .none)
    {e : Enc} {tr : List (Bool × Pkt)} (hr : Reads P s0 tr e) :
    (∀ x, x ∈ tr → x.1 = false) → ∃ rest, trC = tr ++ rest ∧ Reads P e rest sC := by
  induction hr with
  | nil => intro _; exact ⟨trC, rfl, hC⟩
  | @snoc s s' tr f p hr hstep ih =>
    intro hnf
    have hf : f = false := hnf (f, p) (by simp)
    subst hf
    obtain ⟨rest, h1, h2⟩ := ih (fun x hx => hnf x (List.mem_append_left _ hx))
    cases rest with
    | nil =>
      have := reads_nil_inv h2 rfl
      subst this
      rw [hstep] at hend; cases hend
    | cons x rest' =>
      obtain ⟨s1, g1, g2⟩ := reads_cons_inv h2 x rest' rfl
      have hx : x.1 = false := hCnf x (by rw [h1]; simp)
      rw [hx, hstep] at g1
      simp only [Prod.mk.injEq, Out.pkt.injEq] at g1
      obtain ⟨g3, g4⟩ := g1
      subst g4
      refine ⟨rest', ?_, g2⟩
      rw [h1]
      have : x = (false, p) := by rw [g3]; exact Prod.ext hx rfl
      rw [this]; simp

/-! ### a forced read = the unforced read with B set and `stopped` raised -/

theorem rbBuffer_stopped (s : Enc) (b : Bool) (c : Bytes) :
    readBlockBuffer P { s with stopped := b } c = (readBlockBuffer P s c).map (fun s' => { s' with stopped := b }) := by
  unfold readBlockBuffer
  simp only [Enc.blockLength]
  split <;> simp_all

theorem rbStream_stopped (s : Enc) (b : Bool) (st : BlockEnc.Stream) :
    readBlockStream P { s with stopped := b } st = (readBlockStream P s st).map (fun s' => { s' with stopped := b }) := by
  unfold readBlockStream
  simp only [Enc.blockLength]
  repeat' split
  all_goals simp_all

theorem rbFaulty_stopped (s : Enc) (b : Bool) (st : BlockEnc.Stream) (k : Nat) (once : Bool) :
    readBlockFaulty P { s with stopped := b } st k once =
      (readBlockFaulty P s st k once).map (fun s' => { s' with stopped := b }) := by
  unfold readBlockFaulty
  simp only [Enc.blockLength]
  repeat' split
  all_goals simp_all

/-- `stopped := b` (kept folded so that rewriting with facts about `s` does not look inside) -/
def stp (b : Bool) (s : Enc) : Enc := { s with stopped := b }

theorem readBlock_stopped (s : Enc) (b : Bool) : readBlock P (stp b s) = stp b (readBlock P s) := by
  unfold stp readBlock
  have e1 : ∀ c, readBlockBuffer P { s with stopped := b } c = _ := fun c => rbBuffer_stopped s b c
  have e2 : ∀ st, readBlockStream P { s with stopped := b } st = _ := fun st => rbStream_stopped s b st
  have e3 : ∀ st k once, readBlockFaulty P { s with stopped := b } st k once = _ := fun st k once => rbFaulty_stopped s b st k once
  simp only [e1, e2, e3]
  cases s.src with
  | buffer c => simp only; cases readBlockBuffer P s c <;> rfl
  | stream st => simp only; cases readBlockStream P s st <;> rfl
  | faulty st k once => simp only; cases readBlockFaulty P s st k once <;> rfl

theorem readWindowAux_stopped (b : Bool) : ∀ (m : Nat) (s : Enc),
    readWindowAux P m (stp b s) = stp b (readWindowAux P m s) := by
  intro m
  induction m with
  | zero => intro s; rfl
  | succ m ih =>
    intro s
    unfold readWindowAux
    have r1 : (stp b s).readEnd = s.readEnd := rfl
    have r2 : (stp b s).blocks = s.blocks := rfl
    rw [r1, r2]
    by_cases h1 : s.readEnd = true
    · rw [if_pos h1, if_pos h1]
    · rw [if_neg h1, if_neg h1]
      by_cases h2 : s.blocks.length < P.window
      · rw [if_pos h2, if_pos h2, readBlock_stopped, ih]
      · rw [if_neg h2, if_neg h2]

/-- what a forced call makes of the result of the unforced one -/
def forceRes : BlockEnc.Out × Enc → BlockEnc.Out × Enc
  | (.pkt p, s') => (.pkt { p with closeObject := true }, stp true s')
  | (o, s') => (o, stp true s')

theorem readLoop_force : ∀ (F : Nat) (s : Enc),
    readLoop P true F (stp true s) = forceRes (readLoop P false F s) := by
  intro F
  induction F with
  | zero => intro s; rfl
  | succ F ih =>
    intro s
    unfold readLoop
    have hw : readWindow P (stp true s) = stp true (readWindow P s) := by
      unfold readWindow; exact readWindowAux_stopped true _ _
    simp only [hw]
    generalize readWindow P s = w
    have r1 : (stp true w).blocks = w.blocks := rfl
    have r2 : (stp true w).nbPkt = w.nbPkt := rfl
    have r3 : (stp true w).idx = w.idx := rfl
    rw [r1, r2, r3]
    by_cases h1 : w.blocks.isEmpty = true
    · rw [if_pos h1, if_pos h1]
      by_cases h2 : w.nbPkt = 0
      · rw [if_pos h2, if_pos h2]
        by_cases h3 : P.len ≠ 0
        · rw [if_pos h3, if_pos h3]; rfl
        · rw [if_neg h3, if_neg h3]; rfl
      · rw [if_neg h2, if_neg h2]; rfl
    · rw [if_neg h1, if_neg h1]
      generalize (if w.idx ≥ w.blocks.length then 0 else w.idx) = idx
      cases hg : w.blocks[idx]? with
      | none => rfl
      | some blk =>
        simp only
        cases hb : blk.read with
        | mk o blk' =>
          cases o with
          | none => simp only; exact ih { w with idx := idx, blocks := w.blocks.eraseIdx idx }
          | some t =>
            obtain ⟨sh, isSrc, isLast⟩ := t
            simp only [Bool.true_or, Bool.false_or]
            rfl

theorem read_force (e : Enc) (hs : e.stopped = false) :
    BlockEnc.read P e true = forceRes (BlockEnc.read P e false) := by
  unfold BlockEnc.read
  simp only [hs, Bool.false_eq_true, if_false, if_true]
  exact readLoop_force _ e

/-! ### the packet counter, the complete transfer -/

variable {c : Bytes} {aL aS nL n : Nat} {closable : Bool}

theorem nbPkt_reads (hS : Setup P c aL aS nL n) (hA : Accepts P c aL aS nL n) {s0 : Enc}
    (hI0 : Inv P c aL aS nL n s0) (hT0 : TInv P c aL aS nL [] s0) (hst0 : s0.stopped = false)
    {tr : List (Bool × Pkt)} {s : Enc} (hr : Reads P s0 tr s) : s.nbPkt = s0.nbPkt + tr.length := by
  induction hr with
  | nil => simp
  | @snoc s s' tr f p hr hstep ih =>
    obtain ⟨hI, hT, _, _⟩ := reach hS hA hI0 hT0 hst0 hr
    obtain ⟨h1, h2⟩ := read_spec hS hA (tr := pkts tr) f hI hT
    by_cases hs : s.stopped = true
    · rw [h1 hs] at hstep; cases hstep
    · have hs' : s.stopped = false := by simpa using hs
      have := h2 hs'
      rw [hstep] at this
      obtain ⟨_, _, e⟩ := this
      have h3 := e.nbPkt
      have h4 : (if f = true then { s with stopped := true } else s).nbPkt = s.nbPkt := by cases f <;> rfl
      rw [h3, h4, ih]
      simp only [List.length_append, List.length_cons, List.length_nil]
      omega

/-- `nb_pkt_sent` of a running transfer = the number of packets it has returned -/
theorem nbPkt_run {tr : List (Bool × Pkt)} {e : Enc} (h : Run P c aL aS nL n closable tr e) : e.nbPkt = tr.length := by
  obtain ⟨s0, hnew, hr⟩ := h.reads
  have hs0 := new_state h.part hnew
  obtain ⟨hI0, hT0⟩ := inv_init h.setup closable
  rw [← hs0] at hI0 hT0
  have := nbPkt_reads h.setup h.accepts hI0 hT0 (by rw [hs0]) hr
  rw [this, hs0]; simp

/-- the COMPLETE unforced transfer of the object `c` under `P`: a fresh encoder, read (never forced) until it returns
    `None`; its length is the model's "number of packets of one transfer" (`Sched`'s `nSym` input) -/
structure Complete (P : Params) (c : Bytes) (closable : Bool) (trC : List (Bool × Pkt)) : Prop where
  run : ∃ s0 sC, Enc.new P (.buffer c) closable = .ok s0 ∧ Reads P s0 trC sC ∧ (BlockEnc.read P sC false).1 = .none
  unforced : ∀ x, x ∈ trC → x.1 = false

/-- a non-empty object has at least one packet -/
theorem complete_ne_nil {tr : List (Bool × Pkt)} {e : Enc} (h : Run P c aL aS nL n closable tr e)
    {trC : List (Bool × Pkt)} (hC : Complete P c closable trC) : trC ≠ [] := by
  intro hnil
  obtain ⟨s0, sC, hnew, hrC, hend⟩ := hC.run
  subst hnil
  have := reads_nil_inv hrC rfl
  subst this
  have h0 : Run P c aL aS nL n closable [] sC :=
    { h with reads := ⟨sC, hnew, Reads.nil _⟩ }
  have hn := h.setup.good.n_pos
  obtain ⟨r, _, he⟩ := Props.C08.esis_per_block h0 (by intro x hx; cases hx) hend 0 hn
  have ha := A_pos aL aS nL 0 h.setup.good.aS_pos h.setup.good.aS_le
  have hl := congrArg List.length he
  simp [pkts, proj] at hl
  omega

/-! ### the abstract encoder under a forced call -/

def forceAbs : Option (Nat × Bool) × Sched.Enc → Option (Nat × Bool) × Sched.Enc
  | (some (i, _), a) => (some (i, true), { a with stopped := true })
  | (none, a) => (none, { a with stopped := true })

theorem encRead_force (N : Nat) (a : Sched.Enc) (hs : a.stopped = false) (hN : N ≠ 0) :
    Sched.encRead N a true = forceAbs (Sched.encRead N a false) := by
  unfold Sched.encRead
  simp only [hs, Bool.false_eq_true, if_false, if_true, hN, Bool.true_or, Bool.false_or]
  split <;> rfl

theorem absRes_force (e : Enc) (r : BlockEnc.Out × Enc) : absRes e (forceRes r) = (absRes e r).map forceAbs := by
  obtain ⟨o, e'⟩ := r
  cases o <;> rfl

/-! ### THE CONTRACT -/

/-- premise of the "B on the last packet" half (= the premise `hall` of benc's `Props.C08.close_object_on_last`, stated
    on the one complete listing): the last packet of the complete transfer of an encoder created closable carries B -/
def LastB (closable : Bool) (trC : List (Bool × Pkt)) : Prop :=
  closable = true → ∀ x, trC.getLast? = some x → x.2.closeObject = true

/-- **the contract, unforced call.** -/
theorem enc_contract_unforced {tr trC : List (Bool × Pkt)} {e : Enc} (h : Run P c aL aS nL n closable tr e)
    (hle : SymLe P.codec) (hC : Complete P c closable trC) (hlast : LastB closable trC) (hs : e.stopped = false) :
    absRes e (BlockEnc.read P e false) = some (Sched.encRead trC.length (absEnc e) false) := by
  obtain ⟨hI, hT, hcl, hstp⟩ := h.inv
  have hnb := nbPkt_run h
  have hne := complete_ne_nil h hC
  have hnf : ∀ x, x ∈ tr → x.1 = false := by
    intro x hx
    cases hx1 : x.1 with
    | false => rfl
    | true => rw [hstp.mpr ⟨x, hx, hx1⟩] at hs; cases hs
  obtain ⟨s0, hnew, hr⟩ := h.reads
  obtain ⟨s0', sC, hnew', hrC, hend⟩ := hC.run
  have hs0 : s0' = s0 := by rw [hnew] at hnew'; cases hnew'; rfl
  subst hs0
  obtain ⟨rest, hsplit, hrest⟩ := reads_prefix hrC hC.unforced hend hr hnf
  have hpost := (read_spec h.setup h.accepts (tr := pkts tr) false hI hT).2 hs
  simp only [Bool.false_eq_true, if_false] at hpost
  cases rest with
  | nil =>
    have := reads_nil_inv hrest rfl
    subst this
    rw [List.append_nil] at hsplit
    generalize hres : BlockEnc.read P sC false = res at hend hpost
    obtain ⟨o, e'⟩ := res
    simp only at hend
    subst hend
    obtain ⟨_, _, _, _, q1, q2, _, q3⟩ := hpost
    have hlen : trC.length ≠ 0 := fun h0 => hne (List.eq_nil_of_length_eq_zero h0)
    have ha : absEnc e' = absEnc sC := by
      unfold absEnc; rw [q1, q2, q3]
    subst hsplit
    show some (none, absEnc e') = some (Sched.encRead trC.length (absEnc sC) false)
    rw [ha]
    have : Sched.encRead trC.length (absEnc sC) false = (none, absEnc sC) := by
      simp only [Sched.encRead, absEnc, hs, Bool.false_eq_true, if_false, hlen, hnb, Nat.lt_irrefl]
    rw [this]
  | cons x rest' =>
    obtain ⟨s1, g1, g2⟩ := reads_cons_inv hrest x rest' rfl
    have hx : x.1 = false := hC.unforced x (by rw [hsplit]; simp)
    rw [hx] at g1
    rw [g1] at hpost
    obtain ⟨_, _, em⟩ := hpost
    have hN : trC.length = tr.length + 1 + rest'.length := by
      rw [hsplit]; simp only [List.length_append, List.length_cons]; omega
    -- the B flag
    have hflag : x.2.closeObject = (e.closable && (tr.length + 1 == trC.length)) := by
      cases hB : x.2.closeObject with
      | true =>
        rcases Props.C08.close_object_only_last h hle g1 hB with hf | ⟨hc, _, hre, hdr, _⟩
        · cases hf
        · have hnone := Flute.BencSession.read_none_of_drained P s1 false hre hdr (by rw [em.nbPkt]; omega)
          have hr' : rest' = [] := by
            cases rest' with
            | nil => rfl
            | cons y r2 =>
              obtain ⟨s2, k1, _⟩ := reads_cons_inv g2 y r2 rfl
              have hy : y.1 = false := hC.unforced y (by rw [hsplit]; simp)
              rw [hy] at k1; rw [k1] at hnone; cases hnone
          subst hr'
          rw [hcl, hc]
          simp only [List.length_nil, Nat.add_zero] at hN
          simp [hN]
      | false =>
        cases hcb : e.closable with
        | false => rfl
        | true =>
          cases hr' : rest' with
          | nil =>
            subst hr'
            have hl : trC.getLast? = some x := by rw [hsplit]; simp
            have := hlast (by rw [← hcl]; exact hcb) x hl
            rw [this] at hB; cases hB
          | cons y r2 =>
            subst hr'
            simp only [List.length_cons] at hN
            have : ¬ tr.length + 1 = trC.length := by omega
            simp [this]
    have hlt : tr.length < trC.length := by omega
    have hlen : trC.length ≠ 0 := by omega
    have ha : absEnc s1 = { absEnc e with sent := tr.length + 1 } := by
      unfold absEnc
      rw [em.nbPkt, em.closable, em.stopped, hnb]
    rw [g1]
    show some (some (e.nbPkt, x.2.closeObject), absEnc s1) = _
    rw [ha, hflag, hnb]
    have : Sched.encRead trC.length (absEnc e) false =
        (some (tr.length, e.closable && (tr.length + 1 == trC.length)), { absEnc e with sent := tr.length + 1 }) := by
      simp only [Sched.encRead, absEnc, hs, Bool.false_eq_true, if_false, hlen, hnb, hlt, if_true, Bool.false_or]
    rw [this]

/-- **THE CONTRACT.**  In every state `e` a transfer of the non-empty buffer object `c` can reach (`Run`: any E, B,
    parity, window ≥ 1, any accepting codec with source symbols ≤ E, created closable or not, any force flags so far),
    `BlockEncoder::read(force)` seen through the abstraction IS `Sched.encRead N`, `N` = the number of packets of the
    complete unforced transfer: a packet iff fewer than `N` were returned and the encoder is not stopped, its index,
    B = forced ∨ (closable ∧ it is packet `N`), `sent + 1`, and `stopped` raised by a forced call (which therefore yields
    at most one more packet, carrying B; afterwards `None`).  `read` never panics / spins here (`absRes ≠ none`). -/
theorem enc_contract {tr trC : List (Bool × Pkt)} {e : Enc} (h : Run P c aL aS nL n closable tr e)
    (hle : SymLe P.codec) (hC : Complete P c closable trC) (hlast : LastB closable trC) (force : Bool) :
    absRes e (BlockEnc.read P e force) = some (Sched.encRead trC.length (absEnc e) force) := by
  by_cases hs : e.stopped = true
  · obtain ⟨hI, hT, _, _⟩ := h.inv
    rw [(read_spec h.setup h.accepts (tr := pkts tr) force hI hT).1 hs]
    simp [absRes, Sched.encRead, absEnc, hs]
  · have hs' : e.stopped = false := by simpa using hs
    have key := enc_contract_unforced h hle hC hlast hs'
    cases force with
    | false => exact key
    | true =>
      have hlen : trC.length ≠ 0 := fun h0 => complete_ne_nil h hC (List.eq_nil_of_length_eq_zero h0)
      rw [read_force e hs', absRes_force, key, encRead_force _ _ (by simp [absEnc, hs']) hlen]
      rfl

/-! ### the contract iterated over a whole transfer -/

/-- the scheduler's abstract encoder replayed over the force flags of a sequence of calls that all return a packet -/
def absStep (N : Nat) (acc : Option (List (Nat × Bool) × Sched.Enc)) (f : Bool) : Option (List (Nat × Bool) × Sched.Enc) :=
  match acc with
  | none => none
  | some (out, a) =>
    match Sched.encRead N a f with
    | (some ib, a') => some (out ++ [ib], a')
    | (none, _) => none

def absReplay (N : Nat) (fs : List Bool) (a : Sched.Enc) : Option (List (Nat × Bool) × Sched.Enc) :=
  fs.foldl (absStep N) (some ([], a))

theorem transfer_refines_aux {s0 : Enc} (h0 : Run P c aL aS nL n closable [] s0) (hle : SymLe P.codec)
    {trC : List (Bool × Pkt)} (hC : Complete P c closable trC) (hlast : LastB closable trC)
    {tr : List (Bool × Pkt)} {e : Enc} (hr : Reads P s0 tr e) :
    ∃ out, absReplay trC.length (tr.map (·.1)) { sent := 0, stopped := false, closable := closable } = some (out, absEnc e) ∧
      out.map (·.1) = List.range tr.length ∧ out.map (·.2) = (pkts tr).map (·.closeObject) := by
  obtain ⟨s0', hnew, hr0⟩ := h0.reads
  have hs0 : s0 = s0' := reads_nil_inv hr0 rfl
  subst hs0
  induction hr with
  | nil =>
    refine ⟨[], ?_, rfl, rfl⟩
    have := new_state h0.part hnew
    rw [this]; rfl
  | @snoc s s' tr f p hr hstep ih =>
    obtain ⟨out, i1, i2, i3⟩ := ih
    have hrun : Run P c aL aS nL n closable tr s := { h0 with reads := ⟨s0, hnew, hr⟩ }
    have hk := enc_contract hrun hle hC hlast f
    rw [hstep] at hk
    have hk' : Sched.encRead trC.length (absEnc s) f = (some (s.nbPkt, p.closeObject), absEnc s') := by
      have : some (some (s.nbPkt, p.closeObject), absEnc s') = some (Sched.encRead trC.length (absEnc s) f) := hk
      exact (Option.some.inj this).symm
    refine ⟨out ++ [(tr.length, p.closeObject)], ?_, ?_, ?_⟩
    · unfold absReplay at i1 ⊢
      rw [List.map_append, List.foldl_append, i1]
      simp only [List.map_cons, List.map_nil, List.foldl_cons, List.foldl_nil, absStep, hk', nbPkt_run hrun]
    · rw [List.map_append, i2]
      simp only [List.map_cons, List.map_nil, List.length_append, List.length_cons, List.length_nil, List.range_succ]
    · rw [List.map_append, i3, pkts_append]
      simp [pkts]

/-- **a whole transfer refines the abstraction**: replaying the force flags of ANY run of successful reads (removal at
    any packet index) on `Sched.encRead N` from the fresh abstract encoder reaches `absEnc` of the real state and yields
    packet indices `0, 1, 2, …` with exactly the B flags of the real packets -/
theorem transfer_refines {tr trC : List (Bool × Pkt)} {e : Enc} (h : Run P c aL aS nL n closable tr e)
    (hle : SymLe P.codec) (hC : Complete P c closable trC) (hlast : LastB closable trC) :
    ∃ out, absReplay trC.length (tr.map (·.1)) { sent := 0, stopped := false, closable := closable } = some (out, absEnc e) ∧
      out.map (·.1) = List.range tr.length ∧ out.map (·.2) = (pkts tr).map (·.closeObject) := by
  obtain ⟨s0, hnew, hr⟩ := h.reads
  exact transfer_refines_aux { h with reads := ⟨s0, hnew, Reads.nil _⟩ } hle hC hlast hr

/-! ### the complete transfer exists (codecs linked to a scheme of the session model; No-Code) -/

theorem complete_of_link (hS : Setup P c aL aS nL n) (hb : 0 < P.b) (hA : Accepts P c aL aS nL n)
    (hcov : Flute.BencSessionBridge.SrcCover P.codec) (hle : SymLe P.codec) (hw : 1 ≤ P.window)
    {e2 : Flute.Session.Enc} (hL : Flute.BencSessionBridge.Link P aL aS nL n closable e2)
    (hq : Partition.blockPartitioning P.b P.len P.e = .ok (aL, aS, nL, n)) :
    ∃ trC, Complete P c closable trC ∧ LastB closable trC := by
  obtain ⟨T, _, hT, _, _, tr, s, hrun, hnf, hend, hmap⟩ :=
    Flute.BencSessionBridge.emitTransfer_eq_blockenc hS hb hA hcov hle hw hL hq
  obtain ⟨s0, hnew, hr⟩ := hrun.reads
  refine ⟨tr, ⟨⟨s0, s, hnew, hr, hend⟩, hnf⟩, ?_⟩
  intro hcl x hx
  have hc2 : e2.closable = true := by rw [hL.closable]; exact hcl
  have hl : T.getLast? = some (Flute.BencSessionBridge.sym x.2) := by
    rw [← hmap]
    unfold pkts
    rw [List.getLast?_map, List.getLast?_map, hx]
    rfl
  exact Flute.SchedBencLast.emitTransfer_last_close e2 (Flute.BencSessionBridge.encOK_of_link hS hw hL) hc2 T hT _ hl

/-- FEC No-Code (the objects of the `sched` engine): the complete transfer exists, and its last packet carries B when
    the encoder was created closable - both premises of the contract are discharged -/
theorem complete_nocode {tr : List (Bool × Pkt)} {e : Enc} (h : Run P c aL aS nL n closable tr e)
    (hc : P.codec = noCode) : ∃ trC, Complete P c closable trC ∧ LastB closable trC :=
  complete_of_link h.setup h.b_pos h.accepts (by rw [hc]; exact Flute.BencSessionBridge.noCode_srcCover)
    (by rw [hc]; exact noCode_symLe) h.window_pos (Flute.BencSessionBridge.link_nocode closable hc) h.part

/-- **the contract for FEC No-Code, no premise left**: there is a packet count `N ≥ 1` (the same for every state of
    the transfer: it only depends on the object, its OTI and `closable`) such that in EVERY reachable state, for both
    values of `force`, `BlockEncoder::read` seen through the abstraction is `Sched.encRead N` -/
theorem enc_contract_nocode {s0 : Enc} (h0 : Run P c aL aS nL n closable [] s0) (hc : P.codec = noCode) :
    ∃ N, 1 ≤ N ∧ ∀ (tr : List (Bool × Pkt)) (e : Enc), Reads P s0 tr e → ∀ force,
      absRes e (BlockEnc.read P e force) = some (Sched.encRead N (absEnc e) force) := by
  obtain ⟨trC, hC, hlast⟩ := complete_nocode h0 hc
  have hne := complete_ne_nil h0 hC
  refine ⟨trC.length, List.length_pos_iff.mpr hne, ?_⟩
  intro tr e hr force
  obtain ⟨s0', hnew, hr0⟩ := h0.reads
  have hs0 : s0 = s0' := reads_nil_inv hr0 rfl
  subst hs0
  exact enc_contract { h0 with reads := ⟨s0, hnew, hr⟩ } (by rw [hc]; exact noCode_symLe) hC hlast force

/-! ### the glue of one file slot (`BlockEnc.Session`) on the scheduler's `FileDesc` bookkeeping -/

/-- the scheduler's file descriptor carries the slot's counters and configuration -/
structure Glue (x : Session) (f : Sched.FileDesc) : Prop where
  maxc : f.maxCount = x.maxtc
  car : f.carousel.isSome = x.carousel
  allow : f.allowStop = x.allowStop
  count : f.info.count = x.count
  total : f.info.total = x.total

/-- last-transfer flag (= `closable` of the encoder about to be created), expiry, forced stop: same decisions -/
theorem glue_decisions {x : Session} {f : Sched.FileDesc} (g : Glue x f) :
    Sched.isLastTransfer f = x.isLastTransfer ∧ Sched.isExpired f = x.isExpired ∧
    ∀ inFiles : Bool, inFiles = x.added → (Sched.canStop f && !inFiles) = x.mustStop := by
  refine ⟨?_, ?_, ?_⟩
  · unfold Sched.isLastTransfer Session.isLastTransfer
    rw [g.car, g.maxc, g.count]
    cases x.carousel <;> simp
  · unfold Sched.isExpired Session.isExpired
    rw [g.maxc, g.count]
    have : f.carousel.isNone = !x.carousel := by
      rw [← g.car]; cases f.carousel <;> rfl
    rw [this]
  · intro b hb
    unfold Sched.canStop Session.mustStop
    rw [g.allow, g.total, hb]

/-- `transfer_started` (`TransferInfo::init`) and `transfer_done` keep the glue -/
theorem glue_start {x : Session} {f : Sched.FileDesc} (g : Glue x f) (now tk : Nat) :
    Glue x.start (Sched.transferInit f now tk) := by
  have hc : (Sched.transferInit f now tk).info.count =
      (if f.info.count == f.maxCount && f.carousel.isSome then 0 else f.info.count) := rfl
  have ht : (Sched.transferInit f now tk).info.total = f.info.total := rfl
  unfold Session.start
  simp only
  refine ⟨?_, ?_, ?_, ?_, ?_⟩
  · show f.maxCount = _; split <;> exact g.maxc
  · show f.carousel.isSome = _; split <;> exact g.car
  · show f.allowStop = _; split <;> exact g.allow
  · rw [hc, g.count, g.maxc, g.car]; split <;> rfl
  · rw [ht, g.total]; split <;> rfl

theorem glue_release {x : Session} {f : Sched.FileDesc} (g : Glue x f) (e' : Enc) (now : Nat) :
    Glue (x.release e') (Sched.transferDoneInfo f now) := by
  have hc : (Sched.transferDoneInfo f now).info.count = f.info.count + 1 := rfl
  have ht : (Sched.transferDoneInfo f now).info.total = f.info.total + 1 := rfl
  unfold Session.release
  simp only
  refine ⟨?_, ?_, ?_, ?_, ?_⟩
  · show f.maxCount = _; repeat' split
    all_goals exact g.maxc
  · show f.carousel.isSome = _; repeat' split
    all_goals exact g.car
  · show f.allowStop = _; repeat' split
    all_goals exact g.allow
  · rw [hc, g.count]; repeat' split
    all_goals rfl
  · rw [ht, g.total]; repeat' split
    all_goals rfl

/-! ### the interleave window -/

theorem length_le_of_nodup_subset : ∀ (ks L : List Nat), ks.Nodup → (∀ k, k ∈ ks → k ∈ L) → ks.length ≤ L.length := by
  intro ks
  induction ks with
  | nil => intro L _ _; exact Nat.zero_le _
  | cons k ks ih =>
    intro L hnd hsub
    have hk : k ∈ L := hsub k (by simp)
    obtain ⟨hk', hnd'⟩ := List.nodup_cons.mp hnd
    have := ih (L.erase k) hnd' (fun j hj => (List.mem_erase_of_ne (by intro h; subst h; exact hk' hj)).mpr (hsub j (by simp [hj])))
    rw [List.length_erase_of_mem hk] at this
    have hpos : 0 < L.length := List.length_pos_of_mem hk
    simp only [List.length_cons]
    omega

/-- block `k` has packets on the wire but not all of them yet -/
def PartiallySent (P : Params) (c : Bytes) (aL aS nL : Nat) (tr : List Pkt) (k : Nat) : Prop :=
  proj tr k ≠ [] ∧ ∀ b0, blockAt P c aL aS nL k = some b0 → proj tr k ≠ b0.shards.map sview

/-- **interleave window of one transfer**, at every point of every run (any removal point): by `Props.C08.window_bound`
    at most `interleave_blocks` blocks are open and they are open in increasing SBN; every open block has been cut
    (`sbn < curr_sbn`, blocks are cut in increasing SBN); on the wire: a block not yet cut has no packet, a block that was
    cut and is no longer open is completely sent - so the blocks that are partially sent are open blocks, and there are
    at most `interleave_blocks` of them. -/
theorem interleave_window_run {tr : List (Bool × Pkt)} {e : Enc} (h : Run P c aL aS nL n closable tr e) :
    e.blocks.length ≤ P.window ∧ (e.blocks.map (·.sbn)).Pairwise (· < ·) ∧
    (∀ b, b ∈ e.blocks → b.sbn < e.sbn) ∧
    (∀ k, e.sbn ≤ k → proj (pkts tr) k = []) ∧
    (∀ k, PartiallySent P c aL aS nL (pkts tr) k → ∃ b, b ∈ e.blocks ∧ b.sbn = k) ∧
    (∀ ks : List Nat, ks.Nodup → (∀ k, k ∈ ks → PartiallySent P c aL aS nL (pkts tr) k) → ks.length ≤ P.window) := by
  obtain ⟨w1, w2⟩ := Props.C08.window_bound h
  obtain ⟨hI, hT, _, _⟩ := h.inv
  have hw := h.window_pos
  have hpart : ∀ k, PartiallySent P c aL aS nL (pkts tr) k → ∃ b, b ∈ e.blocks ∧ b.sbn = k := by
    intro k ⟨hne, hnc⟩
    apply Classical.byContradiction
    intro hno
    have hno' : ∀ b, b ∈ e.blocks → b.sbn ≠ k := fun b hb hk => hno ⟨b, hb, hk⟩
    by_cases hk : k < e.sbn
    · obtain ⟨b0, hb0, hp⟩ := hT.closed k hk hno'
      exact hnc b0 hb0 hp
    · exact hne (hT.future k (by omega))
  refine ⟨by omega, w2, fun b hb => (hI.blocks_ok b hb).1, hT.future, hpart, ?_⟩
  intro ks hnd hks
  have := length_le_of_nodup_subset ks (e.blocks.map (·.sbn)) hnd (by
    intro k hk
    obtain ⟨b, hb, hbk⟩ := hpart k (hks k hk)
    exact List.mem_map.mpr ⟨b, hb, hbk⟩)
  rw [List.length_map] at this
  omega

/-- … and for the file slot as a whole (`BlockEnc.Session`: transfer count, last-transfer flag, carousel, forced stop):
    after ANY history of `Sender::read` / `remove_object` / clock advances from a good session, the encoder the slot
    holds is a genuine run of an encoder created with `closable = is_last_transfer` (`SGood`, `BencSession.run_good`),
    so the contract and the interleave window apply to every transfer of every history -/
theorem session_encoder_is_run (ops : List Flute.BencSession.Op) {x0 : Session}
    (hg : Flute.BencSession.SGood c aL aS nL n x0) {e : Enc} (he : (Flute.BencSession.srun ops x0).2.enc = some e) :
    ∃ tr, Run (Flute.BencSession.srun ops x0).2.P c aL aS nL n (Flute.BencSession.srun ops x0).2.isLastTransfer tr e :=
  (Flute.BencSession.run_good ops x0 hg).enc e he

/-! ### the converse: every packet sequence of the abstract encoder is realised by a real run -/

theorem foldl_absStep_none (N : Nat) : ∀ fs : List Bool, fs.foldl (absStep N) none = none := by
  intro fs
  induction fs with
  | nil => rfl
  | cons f fs ih => simp only [List.foldl_cons, absStep]; exact ih

theorem absReplay_prefix (N : Nat) (fs1 fs2 : List Bool) (a : Sched.Enc) {r : List (Nat × Bool) × Sched.Enc}
    (h : absReplay N (fs1 ++ fs2) a = some r) : ∃ r1, absReplay N fs1 a = some r1 := by
  unfold absReplay at h ⊢
  rw [List.foldl_append] at h
  cases h1 : List.foldl (absStep N) (some ([], a)) fs1 with
  | none => rw [h1, foldl_absStep_none] at h; cases h
  | some r1 => exact ⟨r1, rfl⟩

theorem replay_realised_aux {s0 : Enc} (h0 : Run P c aL aS nL n closable [] s0) (hle : SymLe P.codec)
    {trC : List (Bool × Pkt)} (hC : Complete P c closable trC) (hlast : LastB closable trC) :
    ∀ (fs : List Bool) (tr : List (Bool × Pkt)) (e : Enc) (acc : List (Nat × Bool)), Reads P s0 tr e →
      fs.foldl (absStep trC.length) (some (acc, absEnc e)) ≠ none →
      ∃ tr' e', Reads P s0 (tr ++ tr') e' ∧ tr'.map (·.1) = fs := by
  obtain ⟨s0', hnew, hr0⟩ := h0.reads
  have hs0 : s0 = s0' := reads_nil_inv hr0 rfl
  subst hs0
  intro fs
  induction fs with
  | nil => intro tr e acc hr _; exact ⟨[], e, by rw [List.append_nil]; exact hr, rfl⟩
  | cons f fs ih =>
    intro tr e acc hr hne
    have hrun : Run P c aL aS nL n closable tr e := { h0 with reads := ⟨s0, hnew, hr⟩ }
    have hk := enc_contract hrun hle hC hlast f
    rw [List.foldl_cons] at hne
    generalize hres : BlockEnc.read P e f = res at hk
    obtain ⟨o, e'⟩ := res
    cases o with
    | pkt p =>
      have hk' : Sched.encRead trC.length (absEnc e) f = (some (e.nbPkt, p.closeObject), absEnc e') :=
        (Option.some.inj hk).symm
      simp only [absStep, hk'] at hne
      obtain ⟨tr', e2, g1, g2⟩ := ih (tr ++ [(f, p)]) e' _ (Reads.snoc hr hres) hne
      refine ⟨(f, p) :: tr', e2, ?_, by simp [g2]⟩
      have : tr ++ (f, p) :: tr' = tr ++ [(f, p)] ++ tr' := by simp
      rw [this]; exact g1
    | none =>
      have hk' : Sched.encRead trC.length (absEnc e) f = (none, absEnc e') := (Option.some.inj hk).symm
      simp only [absStep, hk'] at hne
      exact absurd (foldl_absStep_none _ fs) hne
    | panic => cases hk
    | hang => cases hk

/-- **converse of `transfer_refines`**: whatever force flags the scheduler issues, if its abstract encoder
    `Sched.encRead N` answers every call with a packet, the real `BlockEncoder` does too - there is a genuine run with
    these flags, it is abstracted to the same state and shows the same indices and B flags -/
theorem replay_realised {s0 : Enc} (h0 : Run P c aL aS nL n closable [] s0) (hle : SymLe P.codec)
    {trC : List (Bool × Pkt)} (hC : Complete P c closable trC) (hlast : LastB closable trC)
    (fs : List Bool) (out : List (Nat × Bool)) (a : Sched.Enc)
    (h : absReplay trC.length fs { sent := 0, stopped := false, closable := closable } = some (out, a)) :
    ∃ tr e, Run P c aL aS nL n closable tr e ∧ tr.map (·.1) = fs ∧ absEnc e = a ∧
      out.map (·.1) = List.range tr.length ∧ out.map (·.2) = (pkts tr).map (·.closeObject) := by
  obtain ⟨s0', hnew, hr0⟩ := h0.reads
  have hs0 : s0 = s0' := reads_nil_inv hr0 rfl
  subst hs0
  have ha0 : absEnc s0 = { sent := 0, stopped := false, closable := closable } := by
    rw [new_state h0.part hnew]; rfl
  have hne : fs.foldl (absStep trC.length) (some ([], absEnc s0)) ≠ none := by
    rw [ha0]; unfold absReplay at h; rw [h]; simp
  obtain ⟨tr, e, g1, g2⟩ := replay_realised_aux h0 hle hC hlast fs [] s0 [] (Reads.nil _) hne
  rw [List.nil_append] at g1
  have hrun : Run P c aL aS nL n closable tr e := { h0 with reads := ⟨s0, hnew, g1⟩ }
  obtain ⟨out2, k1, k2, k3⟩ := transfer_refines hrun hle hC hlast
  rw [g2, h] at k1
  simp only [Option.some.injEq, Prod.mk.injEq] at k1
  obtain ⟨rfl, rfl⟩ := k1
  exact ⟨tr, e, hrun, g2, rfl, k2, k3⟩

/-
  WHAT IS PROVED / WHAT REMAINS for the composition `Sched` ∘ `BlockEnc`:

  proved  * the per-transfer contract, both directions (`enc_contract`, `transfer_refines`, `replay_realised`): for a
            non-empty buffer object `Sched.Enc` + `Sched.encRead N` IS `BlockEncoder::read` seen through `absEnc`
            (packet count, index, B on the last packet of a closable transfer, forced stop ≤ 1 packet with B, stopped),
            premise-free for every codec linked to a scheme of the session model (`complete_of_link`; No-Code:
            `enc_contract_nocode`); otherwise under `Complete` (the transfer ends) and `LastB`;
          * the slot's bookkeeping around the encoder (`Glue`, `glue_decisions`, `glue_start`, `glue_release`):
            `closable = is_last_transfer`, expiry and the forced-stop flag are the same decisions in `BlockEnc.Session`
            and in `Sched` (`startCur`, `isExpired`, `canStop f && !files.contains`), and are kept by
            `transfer_started` / `transfer_done`;
          * the interleave clause on every run and on every history of a file slot (`interleave_window_run`,
            `session_encoder_is_run`, citing `Props.C08.window_bound`).
          * the PRODUCT, slot by slot (`Lemmas/SchedBencInv.lean`): `Sched.slot_replay_run` - an invariant of
            `Sched.step` proved through the frame of `Lemmas/SchedFrame.lean` over the unchanged state type: in every
            state of every history each busy slot's `Cur.enc` is a replay of `encRead f.nSym` from a fresh abstract
            encoder (it is only created by `startCur` and only advanced by the two `encRead` calls of `runFile`) - and
            `slot_is_run` / `Props.C13.interleave_window_composed`: with `replay_realised` that abstract encoder is
            `absEnc` of a genuine `BlockEncoder` run, whose window is bounded.
          * the composed LOG (`Lemmas/SchedBencLog.lean`): `Sched.log_replay_run` (invariant of `Sched.step` over
            `State.log`) and `pkt_event_is_real` / `Props.C13.interleave_window_every_packet`: every object packet
            event `(prio, TOI, index, B)` of every trace is a packet a genuine run of the object's description returns
            after `index` successful reads, with that B flag, and the window clause holds after it; `Describes` is
            discharged for every No-Code object (`describes_nocode`; the packet count does not depend on `closable`:
            `complete_closable`).
  remains * that the events of ONE transfer come from ONE run: `pkt_event_is_real` gives a run per event; two runs of
            the same description with unforced prefixes agree (`reads_prefix`: unforced reads are deterministic, and
            only the last call of a transfer can be forced), so they do - not restated as a theorem; the events carry no
            (SBN, ESI), the labelling is the run's;
          * stream sources (C20 `stream_eq_buffer` gives the same packets call by call for a healthy stream; the fault
            schedule of `Sched` has no `BlockEnc.Session` counterpart here), empty objects (`nSym = 0` / the rateless
            empty block: one `emptyPkt` resp. `parity` packets, `Props.C08.empty_object_*`), FDT slots;
          * `N = ⌈len / E⌉` is proved for codecs without repair symbols (`Lemmas/SchedBencLen.lean`:
            `complete_length_no_repair`, `describes_nocode_divCeil`); for codecs WITH repair symbols the count is not
            computed (`Describes` stays a hypothesis there).
-/

end Flute.SchedBenc
