import FluteModel.Lemmas.Total
/- LCT header: build layout and the central parse lemma (core Lean only) -/
namespace Flute.Lct
open Flute Flute.Bytes

theorem or_shl (x t i : Nat) (hx : x < 2 ^ i) : x ||| (t <<< i) = x + t * 2 ^ i := by
  rw [Nat.or_comm, ← Nat.shiftLeft_add_eq_or_of_lt hx, Nat.shiftLeft_eq, Nat.add_comm]

/-- the header word is the sum of its (disjoint) fields when every field is in range -/
theorem headerWord_eq (psi cp hdrLen a b c s o h : Nat)
    (hpsi : psi < 4) (hcp : cp < 256) (hl : hdrLen < 256) (ha : a < 2) (hb : b < 2) (hc : c < 4)
    (hs : s < 2) (ho : o < 4) (hh : h < 2) :
    headerWord psi cp hdrLen a b c s o h =
      cp + hdrLen * 2^8 + b * 2^16 + a * 2^17 + h * 2^20 + o * 2^21 + s * 2^23 + psi * 2^24 + c * 2^26 + 2^28 := by
  unfold headerWord
  rw [or_shl _ _ 8 (by omega)]
  rw [or_shl _ _ 16 (by omega)]
  rw [or_shl _ _ 17 (by omega)]
  rw [or_shl _ _ 20 (by omega)]
  rw [or_shl _ _ 21 (by omega)]
  rw [or_shl _ _ 23 (by omega)]
  rw [or_shl _ _ 24 (by omega)]
  rw [or_shl _ _ 26 (by omega)]
  rw [or_shl _ _ 28 (by omega)]

theorem beBytes4_headerWord (psi cp hdrLen a b c s o h : Nat)
    (hpsi : psi < 4) (hcp : cp < 256) (hl : hdrLen < 256) (ha : a < 2) (hb : b < 2) (hc : c < 4)
    (hs : s < 2) (ho : o < 4) (hh : h < 2) :
    beBytes 4 (headerWord psi cp hdrLen a b c s o h) =
      [16 + c * 4 + psi, s * 128 + o * 32 + h * 16 + a * 2 + b, hdrLen, cp] := by
  rw [headerWord_eq _ _ _ _ _ _ _ _ _ hpsi hcp hl ha hb hc hs ho hh]
  simp only [beBytes, Nat.reducePow, Nat.pow_zero, Nat.div_one]
  congr 1
  · omega
  congr 1
  · omega
  congr 1
  · omega
  congr 1
  · omega


theorem nbBytes128_cases (v m : Nat) (hv : v < 2^128) :
    (nbBytes128 v m = 16) ∨ (nbBytes128 v m = 14 ∧ v < 2^112) ∨ (nbBytes128 v m = 12 ∧ v < 2^96) ∨
    (nbBytes128 v m = 10 ∧ v < 2^80) ∨ (nbBytes128 v m = 8 ∧ v < 2^64) ∨ (nbBytes128 v m = 6 ∧ v < 2^48) ∨
    (nbBytes128 v m = 4 ∧ v < 2^32) ∨ (nbBytes128 v m = 2 ∧ v < 2^16) ∨ (nbBytes128 v m = m ∧ v = 0) := by
  unfold nbBytes128
  simp only [Nat.reducePow] at *
  repeat' split
  all_goals omega

theorem nbBytes64_cases (v m : Nat) (hv : v < 2^64) :
    (nbBytes64 v m = 8) ∨ (nbBytes64 v m = 6 ∧ v < 2^48) ∨
    (nbBytes64 v m = 4 ∧ v < 2^32) ∨ (nbBytes64 v m = 2 ∧ v < 2^16) ∨ (nbBytes64 v m = m ∧ v = 0) := by
  unfold nbBytes64
  simp only [Nat.reducePow] at *
  repeat' split
  all_goals omega

/-- the C flag and CCI width chosen for a CCI size -/
def cOf (cciSize : Nat) : Nat := if cciSize ≤ 4 then 0 else if cciSize ≤ 8 then 1 else if cciSize ≤ 12 then 2 else 3
def hOf (tsiSize toiSize : Nat) : Nat := (tsiSize / 2 % 2) ||| (toiSize / 2 % 2)
def oOf (toiSize : Nat) : Nat := toiSize / 4 % 4
def sOf (tsiSize : Nat) : Nat := tsiSize / 4 % 2

theorem widthFlags_eq (cci tsi toi : Nat) :
    widthFlags cci tsi toi =
      (cOf (nbBytes128 cci 0), sOf (nbBytes64 tsi 2), oOf (nbBytes128 toi 2),
       hOf (nbBytes64 tsi 2) (nbBytes128 toi 2)) := rfl

theorem cOf_spec (cci : Nat) (h : cci < 2^128) :
    cOf (nbBytes128 cci 0) < 4 ∧ cci < 256 ^ ((cOf (nbBytes128 cci 0) + 1) * 4) := by
  rcases nbBytes128_cases cci 0 h with h1 | ⟨h1, h2⟩ | ⟨h1, h2⟩ | ⟨h1, h2⟩ | ⟨h1, h2⟩ | ⟨h1, h2⟩ | ⟨h1, h2⟩ | ⟨h1, h2⟩ | ⟨h1, h2⟩ <;>
    rw [h1] <;> simp only [cOf, Nat.reducePow, Nat.reduceLeDiff, Nat.reduceAdd, Nat.reduceMul, if_true, if_false] at * <;> omega

theorem soh_spec (tsi toi : Nat) (h1 : tsi < 2^48) (h2 : toi < 2^112) :
    let a := nbBytes64 tsi 2
    let b := nbBytes128 toi 2
    sOf a < 2 ∧ oOf b < 4 ∧ hOf a b < 2 ∧ tsi < 256 ^ (sOf a * 4 + hOf a b * 2) ∧ toi < 256 ^ (oOf b * 4 + hOf a b * 2) := by
  intro a b
  have ha : (a = 6 ∧ tsi < 2^48) ∨ (a = 4 ∧ tsi < 2^32) ∨ (a = 2 ∧ tsi < 2^16) := by
    rcases nbBytes64_cases tsi 2 (by simp only [Nat.reducePow] at *; omega) with h | h | h | h | h
    · exfalso
      have : nbBytes64 tsi 2 ≠ 8 := by
        unfold nbBytes64; simp only [Nat.reducePow] at *
        rw [if_neg (by omega)]
        repeat' split
        all_goals omega
      exact this h
    · exact .inl h
    · exact .inr (.inl h)
    · exact .inr (.inr h)
    · exact .inr (.inr ⟨h.1, by simp only [Nat.reducePow]; omega⟩)
  have hb : (b = 14 ∧ toi < 2^112) ∨ (b = 12 ∧ toi < 2^96) ∨ (b = 10 ∧ toi < 2^80) ∨ (b = 8 ∧ toi < 2^64) ∨
      (b = 6 ∧ toi < 2^48) ∨ (b = 4 ∧ toi < 2^32) ∨ (b = 2 ∧ toi < 2^16) := by
    rcases nbBytes128_cases toi 2 (by simp only [Nat.reducePow] at *; omega) with h | h | h | h | h | h | h | h | h
    · exfalso
      have : nbBytes128 toi 2 ≠ 16 := by
        unfold nbBytes128; simp only [Nat.reducePow] at *
        rw [if_neg (by omega)]
        repeat' split
        all_goals omega
      exact this h
    · exact .inl h
    · exact .inr (.inl h)
    · exact .inr (.inr (.inl h))
    · exact .inr (.inr (.inr (.inl h)))
    · exact .inr (.inr (.inr (.inr (.inl h))))
    · exact .inr (.inr (.inr (.inr (.inr (.inl h)))))
    · exact .inr (.inr (.inr (.inr (.inr (.inr h)))))
    · exact .inr (.inr (.inr (.inr (.inr (.inr ⟨h.1, by simp only [Nat.reducePow]; omega⟩)))))
  rcases ha with ⟨ea, ha⟩ | ⟨ea, ha⟩ | ⟨ea, ha⟩ <;>
  rcases hb with ⟨eb, hb⟩ | ⟨eb, hb⟩ | ⟨eb, hb⟩ | ⟨eb, hb⟩ | ⟨eb, hb⟩ | ⟨eb, hb⟩ | ⟨eb, hb⟩ <;>
  rw [ea, eb] <;>
  simp only [sOf, oOf, hOf, Nat.reducePow, Nat.reduceDiv, Nat.reduceMod, Nat.reduceMul, Nat.reduceAdd,
    Nat.reduceOr, Nat.reduceLT, true_and] at * <;> omega


/-- the bytes `push_lct_header` produces, for in-range arguments -/
theorem pushLctHeader_layout (psi cci tsi toi cp : Nat) (co cs : Bool)
    (hpsi : psi < 4) (hcp : cp < 256) (hcci : cci < 2^128) (htsi : tsi < 2^48) (htoi : toi < 2^112) :
    pushLctHeader psi cci tsi toi cp co cs =
      (let c := cOf (nbBytes128 cci 0)
       let s := sOf (nbBytes64 tsi 2)
       let o := oOf (nbBytes128 toi 2)
       let h := hOf (nbBytes64 tsi 2) (nbBytes128 toi 2)
       [16 + c * 4 + psi, s * 128 + o * 32 + h * 16 + b2n cs * 2 + b2n co, 2 + o + s + h + c, cp]
        ++ (beBytes ((c + 1) * 4) cci ++ (beBytes (s * 4 + h * 2) tsi ++ beBytes (o * 4 + h * 2) toi))) := by
  obtain ⟨hc, _⟩ := cOf_spec cci hcci
  obtain ⟨hs, ho, hh, _, _⟩ := soh_spec tsi toi htsi htoi
  unfold pushLctHeader
  rw [widthFlags_eq]
  simp only []
  have hb1 : b2n co < 2 := by unfold b2n; split <;> omega
  have hb2 : b2n cs < 2 := by unfold b2n; split <;> omega
  rw [Nat.mod_eq_of_lt (by omega)]
  rw [beBytes4_headerWord _ _ _ _ _ _ _ _ _ hpsi hcp (by omega) hb2 hb1 hc hs ho hh]
  rw [beBytes_drop (by omega), beBytes_drop (by omega), beBytes_drop (by omega)]
  simp only [List.append_assoc]

theorem slice_mid (p m q : List Nat) (i j : Nat) (hi : i = p.length) (hj : j = p.length + m.length) :
    slice (p ++ (m ++ q)) i j = .ok m := by
  subst hi hj
  rw [slice_ok _ _ _ (by omega) (by simp only [List.length_append]; omega)]
  congr 1
  rw [List.drop_append_of_le_length (by omega), List.drop_eq_nil_of_le (Nat.le_refl _), List.nil_append]
  have : p.length + m.length - p.length = m.length := by omega
  rw [this, List.take_append_of_le_length (Nat.le_refl _), List.take_length]

/-- **central parse lemma**: `parse_lct_header` on any datagram that starts with an RFC 5651 header laid
    out with width flags `c s o h` (any legal choice), version 1 or 2, any reserved bits -/
theorem parse_layout (v c psi s o h res a b hl cp cci tsi toi : Nat) (rest : List Nat)
    (hv : v = 1 ∨ v = 2) (hc : c < 4) (hpsi : psi < 4) (hs : s < 2) (ho : o < 4) (hh : h < 2) (hres : res < 4)
    (ha : a < 2) (hb : b < 2)
    (hcci : cci < 256 ^ ((c + 1) * 4)) (htsi : tsi < 256 ^ (s * 4 + h * 2)) (htoi : toi < 256 ^ (o * 4 + h * 2))
    (hfix : 4 + (c + 1) * 4 + (s * 4 + h * 2) + (o * 4 + h * 2) ≤ hl * 4)
    (hlen : hl * 4 ≤ 4 + (c + 1) * 4 + (s * 4 + h * 2) + (o * 4 + h * 2) + rest.length) :
    parseLctHeader ([v * 16 + c * 4 + psi, s * 128 + o * 32 + h * 16 + res * 4 + a * 2 + b, hl, cp]
        ++ (beBytes ((c + 1) * 4) cci ++ (beBytes (s * 4 + h * 2) tsi ++ (beBytes (o * 4 + h * 2) toi ++ rest)))) =
      .ok { len := hl * 4, cci := cci, tsi := tsi, toi := toi, cp := cp,
            closeObject := decide (b ≠ 0), closeSession := decide (a ≠ 0),
            headerExtOffset := 4 + (c + 1) * 4 + (s * 4 + h * 2) + (o * 4 + h * 2) } := by
  generalize hA : beBytes ((c + 1) * 4) cci = A
  generalize hB : beBytes (s * 4 + h * 2) tsi = B
  generalize hC : beBytes (o * 4 + h * 2) toi = C
  have lA : A.length = (c + 1) * 4 := by rw [← hA, length_beBytes]
  have lB : B.length = s * 4 + h * 2 := by rw [← hB, length_beBytes]
  have lC : C.length = o * 4 + h * 2 := by rw [← hC, length_beBytes]
  have vA : beVal A = cci := by rw [← hA]; exact beVal_beBytes_of_lt hcci
  have vB : beVal B = tsi := by rw [← hB]; exact beVal_beBytes_of_lt htsi
  have vC : beVal C = toi := by rw [← hC]; exact beVal_beBytes_of_lt htoi
  generalize hf1 : v * 16 + c * 4 + psi = f1
  generalize hf2 : s * 128 + o * 32 + h * 16 + res * 4 + a * 2 + b = f2
  have e1 : f1 / 4 % 4 = c := by omega
  have e2 : f2 / 128 % 2 = s := by omega
  have e3 : f2 / 32 % 4 = o := by omega
  have e4 : f2 / 16 % 2 = h := by omega
  have e5 : f2 / 2 % 2 = a := by omega
  have e6 : f2 % 2 = b := by omega
  have e7 : f1 / 16 = v := by omega
  generalize hd : [f1, f2, hl, cp] ++ (A ++ (B ++ (C ++ rest))) = d
  have ld : d.length = 4 + (c + 1) * 4 + (s * 4 + h * 2) + (o * 4 + h * 2) + rest.length := by
    rw [← hd]; simp only [List.length_append, List.length_cons, List.length_nil, lA, lB, lC]; omega
  have g2 : d[2]? = some hl := by rw [← hd]; rfl
  have g3 : idx d 3 = .ok cp := by unfold idx; rw [← hd]; rfl
  have g0 : idx d 0 = .ok f1 := by unfold idx; rw [← hd]; rfl
  have g1 : idx d 1 = .ok f2 := by unfold idx; rw [← hd]; rfl
  have sA : slice d 4 (4 + (c + 1) * 4) = .ok A := by
    rw [← hd]; exact slice_mid _ _ _ _ _ rfl (by simp only [List.length_cons, List.length_nil, lA])
  have sB : slice d (4 + (c + 1) * 4) (4 + (c + 1) * 4 + (s * 4 + h * 2)) = .ok B := by
    rw [← hd, ← List.append_assoc]
    exact slice_mid _ _ _ _ _ (by simp only [List.length_append, List.length_cons, List.length_nil, lA])
      (by simp only [List.length_append, List.length_cons, List.length_nil, lA, lB])
  have sC : slice d (4 + (c + 1) * 4 + (s * 4 + h * 2)) (4 + (c + 1) * 4 + (s * 4 + h * 2) + (o * 4 + h * 2)) = .ok C := by
    rw [← hd, ← List.append_assoc, ← List.append_assoc]
    exact slice_mid _ _ _ _ _ (by simp only [List.length_append, List.length_cons, List.length_nil, lA, lB])
      (by simp only [List.length_append, List.length_cons, List.length_nil, lA, lB, lC])
  unfold parseLctHeader
  rw [g2]
  simp only []
  rw [if_neg (by omega), g3, g0, g1]
  simp only [Out.bind_ok, e1, e2, e3, e4, e5, e6, e7]
  rw [if_neg (by omega), if_neg (by omega), if_neg (by omega), sA, sB, sC]
  simp only [Out.bind_ok, beVal_replicate_zero, vA, vB, vC]

end Flute.Lct
