import FluteModel.FdtAbs
import FluteModel.Spec.FdtSpec
/- helper lemmas for Props/C10 -/
namespace Flute.Lemmas.FdtAbs
open Flute Flute.FdtAbs Flute.Spec.Fdt

/-! ### what one step does to id / cfg / lastPublish, and which publications it makes -/

theorem publish_fst (s : State) (now : Nat) :
    (publish s now).1 = { s with queue := s.queue ++ [(publish s now).2], fdtid := (s.fdtid + 1) % 2^20,
                                 lastPublish := some now } := rfl

theorem publish_snd (s : State) (now : Nat) :
    (publish s now).2 = { id := s.fdtid, time := now, inst := instanceAt s now } := rfl

theorem tryPublish_cases (s : State) (now : Nat) :
    (admitted s now = false ∧ tryPublish s now = (s, [])) ∨
    (admitted s now = true ∧ tryPublish s now = ((publish s now).1, [(publish s now).2])) := by
  unfold tryPublish
  cases h : admitted s now <;> simp

theorem tryPublish_cfg (s : State) (now : Nat) : (tryPublish s now).1.cfg = s.cfg := by
  rcases tryPublish_cases s now with ⟨_, h⟩ | ⟨_, h⟩ <;> rw [h] <;> rfl
theorem tryPublish_files (s : State) (now : Nat) : (tryPublish s now).1.files = s.files := by
  rcases tryPublish_cases s now with ⟨_, h⟩ | ⟨_, h⟩ <;> rw [h] <;> rfl
theorem tryPublish_nextToi (s : State) (now : Nat) : (tryPublish s now).1.nextToi = s.nextToi := by
  rcases tryPublish_cases s now with ⟨_, h⟩ | ⟨_, h⟩ <;> rw [h] <;> rfl
theorem tryPublish_mem (s : State) (now : Nat) (p : Pub) (hp : p ∈ (tryPublish s now).2) : p = (publish s now).2 := by
  rcases tryPublish_cases s now with ⟨_, h⟩ | ⟨_, h⟩
  · rw [h] at hp; simp at hp
  · rw [h] at hp; simpa using hp
theorem tryPublish_nopub (s : State) (now : Nat) (h : (tryPublish s now).2 = []) : (tryPublish s now).1 = s := by
  rcases tryPublish_cases s now with ⟨_, h2⟩ | ⟨_, h2⟩
  · rw [h2]
  · rw [h2] at h; simp at h

theorem popQueue_cfg (s : State) : (popQueue s).cfg = s.cfg := by unfold popQueue; split <;> rfl
theorem popQueue_fdtid (s : State) : (popQueue s).fdtid = s.fdtid := by unfold popQueue; split <;> rfl
theorem popQueue_lastPublish (s : State) : (popQueue s).lastPublish = s.lastPublish := by unfold popQueue; split <;> rfl
theorem popQueue_files (s : State) : (popQueue s).files = s.files := by unfold popQueue; split <;> rfl
theorem popQueue_complete (s : State) : (popQueue s).complete = s.complete := by unfold popQueue; split <;> rfl
theorem popQueue_nextToi (s : State) : (popQueue s).nextToi = s.nextToi := by unfold popQueue; split <;> rfl

/-- every step publishes nothing and keeps the id, or publishes exactly one instance carrying the current id
    and moves to the next id modulo 2^20 -/
theorem step_pubs (s : State) (op : Op) :
    ((step s op).2.1 = [] ∧ (step s op).1.fdtid = s.fdtid ∧ (step s op).1.lastPublish = s.lastPublish) ∨
    (∃ p, (step s op).2.1 = [p] ∧ p.id = s.fdtid ∧ (step s op).1.fdtid = (s.fdtid + 1) % 2^20 ∧
          (step s op).1.lastPublish = some p.time ∧ Spec.Fdt.opTime op = some p.time) := by
  cases op with
  | add a =>
    left; simp only [step, add]
    split
    · simp
    · split <;> simp
  | remove t =>
    left; simp only [step, remove]; split <;> simp
  | publish now =>
    simp only [step]
    rcases tryPublish_cases s now with ⟨_, h⟩ | ⟨_, h⟩
    · left; rw [h]; exact ⟨rfl, rfl, rfl⟩
    · right; rw [h]; exact ⟨(publish s now).2, rfl, rfl, rfl, rfl, rfl⟩
  | setComplete => left; simp [step, setComplete]
  | tstart t now =>
    simp only [step, tstart]
    split
    · cases hm : s.cfg.mode with
      | beingTransferred =>
        simp only
        rcases tryPublish_cases { s with files := s.files.map (fStart t) } now with ⟨_, h⟩ | ⟨_, h⟩
        · left; rw [h]; exact ⟨rfl, rfl, rfl⟩
        · right; rw [h]; exact ⟨_, rfl, rfl, rfl, rfl, rfl⟩
      | fullFdt => left; simp
    · left; simp
  | tdone t now => left; simp [step, tdone]
  | poll now =>
    simp only [step, poll]
    by_cases h : needRepublish s now = true
    · simp only [h, if_true]
      rcases tryPublish_cases s now with ⟨_, h2⟩ | ⟨_, h2⟩
      · left; rw [h2]; exact ⟨rfl, popQueue_fdtid s, popQueue_lastPublish s⟩
      · right; rw [h2]
        exact ⟨(publish s now).2, rfl, rfl, by rw [popQueue_fdtid]; rfl, by rw [popQueue_lastPublish]; rfl, rfl⟩
    · left
      simp only [h]
      exact ⟨rfl, popQueue_fdtid s, popQueue_lastPublish s⟩

theorem step_cfg (s : State) (op : Op) : (step s op).1.cfg = s.cfg := by
  cases op with
  | add a => simp only [step, add]; split; rfl; split <;> rfl
  | remove t => simp only [step, remove]; split <;> rfl
  | publish now => exact tryPublish_cfg s now
  | setComplete => rfl
  | tstart t now =>
    simp only [step, tstart]
    split
    · split
      · exact tryPublish_cfg _ now
      · rfl
    · rfl
  | tdone t now => rfl
  | poll now =>
    simp only [step, poll]
    by_cases h : needRepublish s now = true
    · simp only [h, if_true]; rw [popQueue_cfg]; exact tryPublish_cfg s now
    · simp only [h]; exact popQueue_cfg s

theorem run_cfg (s : State) (ops : List Op) : (run s ops).1.cfg = s.cfg := by
  induction ops generalizing s with
  | nil => rfl
  | cons op ops ih => simp only [run]; rw [ih, step_cfg]

theorem run_append (s : State) (a b : List Op) :
    run s (a ++ b) = ((run (run s a).1 b).1, (run s a).2 ++ (run (run s a).1 b).2) := by
  induction a generalizing s with
  | nil => simp [run]
  | cons op a ih => simp only [List.cons_append, run, ih, List.append_assoc]

/-- the k-th publication of a run carries `(fdtid + k) mod 2^20` -/
theorem run_ids (s : State) (hs : s.fdtid < 2^20) (ops : List Op) (k : Nat) (p : Pub)
    (hk : (run s ops).2[k]? = some p) : p.id = (s.fdtid + k) % 2^20 := by
  induction ops generalizing s k with
  | nil => simp [run] at hk
  | cons op ops ih =>
    simp only [run] at hk
    rcases step_pubs s op with ⟨h0, hid, _⟩ | ⟨q, hq, hqid, hid, _⟩
    · rw [h0] at hk
      simp only [List.nil_append] at hk
      have := ih (step s op).1 (by rw [hid]; exact hs) k hk
      rw [this, hid]
    · rw [hq] at hk
      cases k with
      | zero =>
        simp at hk
        rw [← hk, hqid]
        simp only [Nat.add_zero]
        exact (Nat.mod_eq_of_lt hs).symm
      | succ k =>
        simp at hk
        have := ih (step s op).1 (by rw [hid]; exact Nat.mod_lt _ (by decide)) k hk
        rw [this, hid]
        omega

/-- every publication of a run happened at the time stamp of one of its operations -/
theorem run_pub_times (s : State) (ops : List Op) (p : Pub) (hp : p ∈ (run s ops).2) :
    ∃ op ∈ ops, Spec.Fdt.opTime op = some p.time := by
  induction ops generalizing s with
  | nil => simp [run] at hp
  | cons op ops ih =>
    simp only [run, List.mem_append] at hp
    rcases hp with hp | hp
    · rcases step_pubs s op with ⟨h0, _, _⟩ | ⟨q, hq, _, _, _, ht⟩
      · rw [h0] at hp; simp at hp
      · rw [hq] at hp
        simp at hp
        exact ⟨op, by simp, by rw [hp]; exact ht⟩
    · rcases ih _ hp with ⟨o, ho, h⟩
      exact ⟨o, by simp [ho], h⟩

/-- every publication carries `Expires = ntp seconds(publish time) + whole seconds of the duration` -/
theorem step_pub_expires (s : State) (op : Op) (p : Pub) (hp : p ∈ (step s op).2.1) :
    p.inst.expires = ntpSecs p.time + s.cfg.durationUs / 1000000 := by
  cases op with
  | add a => simp [step] at hp
  | remove t => simp [step] at hp
  | publish now => simp only [step] at hp; rw [tryPublish_mem s now p hp]; rfl
  | setComplete => simp [step] at hp
  | tstart t now =>
    simp only [step, tstart] at hp
    split at hp
    · cases hm : s.cfg.mode with
      | beingTransferred => simp only [hm] at hp; rw [tryPublish_mem _ now p hp]; rfl
      | fullFdt => simp [hm] at hp
    · simp at hp
  | tdone t now => simp [step] at hp
  | poll now =>
    simp only [step, poll] at hp
    by_cases h : needRepublish s now = true
    · simp only [h, if_true] at hp
      rw [tryPublish_mem s now p hp]; rfl
    · simp only [h] at hp
      simp at hp

theorem run_pub_expires (s : State) (ops : List Op) (p : Pub) (hp : p ∈ (run s ops).2) :
    p.inst.expires = ntpSecs p.time + s.cfg.durationUs / 1000000 := by
  induction ops generalizing s with
  | nil => simp [run] at hp
  | cons op ops ih =>
    simp only [run, List.mem_append] at hp
    rcases hp with hp | hp
    · exact step_pub_expires s op p hp
    · have := ih _ hp
      rw [step_cfg] at this
      exact this

/-! ### republication before expiry (durations above 30 s) -/

def isDuePoll (cfg : Cfg) (T : Nat) : Op → Bool
  | .poll t => decide (T + cfg.durationUs - 5000000 < t)
  | _ => false

/-- (`omega` does not like truncated subtraction of a large literal: the literal is abstracted) -/
theorem sub_lt_sub_aux (d T t c : Nat) (hc : c ≤ d) (h : T + d - c < t) : d - c < t - T := by omega

theorem lt_of_due_aux (d T t c : Nat) (hc : c ≤ d) (h : T + d - c < t) : T < t := by omega

theorem needRepublish_due (s : State) (T t : Nat) (hq : s.queue = []) (hT : s.lastPublish = some T)
    (hd : s.cfg.durationUs > 30000000) (ht : T + s.cfg.durationUs - 5000000 < t) : needRepublish s t = true := by
  unfold needRepublish
  simp only [hq, List.isEmpty_nil, Bool.not_true, Bool.false_eq_true, if_false, hT]
  cases hc : s.current with
  | none => rfl
  | some c =>
    have hle : 5000000 ≤ s.cfg.durationUs := Nat.le_of_lt (Nat.lt_trans (by decide) hd)
    have hne : ¬ T = t := Nat.ne_of_lt (lt_of_due_aux _ _ _ _ hle ht)
    simp only [hne, if_false, hd, if_true, decide_eq_true_eq]
    exact sub_lt_sub_aux _ _ _ _ hle ht

theorem popQueue_length (s : State) : (popQueue s).queue.length = s.queue.length - 1 := by
  unfold popQueue; split <;> simp_all

theorem step_nopub_queue (s : State) (op : Op) (h : (step s op).2.1 = []) :
    (step s op).1.queue.length ≤ s.queue.length ∧
    (∀ t, op = .poll t → (step s op).1.queue.length = s.queue.length - 1) := by
  cases op with
  | add a =>
    refine ⟨?_, by intro t ht; cases ht⟩
    simp only [step, add]; split
    · exact Nat.le_refl _
    · split <;> exact Nat.le_refl _
  | remove t =>
    refine ⟨?_, by intro t ht; cases ht⟩
    simp only [step, remove]; split <;> exact Nat.le_refl _
  | publish now =>
    refine ⟨?_, by intro t ht; cases ht⟩
    simp only [step] at h ⊢
    rw [tryPublish_nopub s now h]; exact Nat.le_refl _
  | setComplete => exact ⟨Nat.le_refl _, by intro t ht; cases ht⟩
  | tstart t now =>
    refine ⟨?_, by intro t ht; cases ht⟩
    simp only [step, tstart] at h ⊢
    split
    · rename_i hany
      simp only [hany, if_true] at h
      cases hm : s.cfg.mode with
      | beingTransferred =>
        simp only [hm] at h ⊢
        rw [tryPublish_nopub _ now h]; exact Nat.le_refl _
      | fullFdt => simp
    · exact Nat.le_refl _
  | tdone t now => exact ⟨Nat.le_refl _, by intro t ht; cases ht⟩
  | poll now =>
    simp only [step, poll] at h ⊢
    by_cases hr : needRepublish s now = true
    · simp only [hr, if_true] at h ⊢
      rw [tryPublish_nopub s now h]
      refine ⟨?_, ?_⟩
      · show (popQueue s).queue.length ≤ _
        rw [popQueue_length]; omega
      · intro t _
        show (popQueue s).queue.length = _
        exact popQueue_length s
    · simp only [hr]
      refine ⟨?_, ?_⟩
      · show (popQueue s).queue.length ≤ _
        rw [popQueue_length]; omega
      · intro t _
        show (popQueue s).queue.length = _
        exact popQueue_length s

/-- with `fdt_duration > 30 s`: once more polls of the idle FDT session come later than `last publish + duration - 5 s`
    than there are instances waiting in the queue, a successor has been published -/
theorem supersede_core (s : State) (T : Nat) (hd : s.cfg.durationUs > 30000000) (hT : s.lastPublish = some T)
    (hadm : ∀ s' : State, s'.cfg = s.cfg → ∀ now, admitted s' now = true) (ops : List Op) (h : s.queue.length < (ops.filter (isDuePoll s.cfg T)).length) : (run s ops).2 ≠ [] := by
  induction ops generalizing s with
  | nil => simp at h
  | cons op ops ih =>
    simp only [run]
    rcases step_pubs s op with ⟨h0, _, hlp⟩ | ⟨q, hq, _⟩
    · rw [h0, List.nil_append]
      have hcfg := step_cfg s op
      apply ih (step s op).1 (by rw [hcfg]; exact hd) (by rw [hlp]; exact hT)
        (by intro s' hs' now; exact hadm s' (hs'.trans hcfg) now)
      rw [hcfg]
      have hql := step_nopub_queue s op h0
      simp only [List.filter_cons] at h
      by_cases hdue : isDuePoll s.cfg T op = true
      · simp only [hdue, if_true, List.length_cons] at h
        cases op with
        | poll t =>
          have h2 := hql.2 t rfl
          -- a due poll that does not republish met a non-empty queue
          have hne : s.queue ≠ [] := by
            intro hq
            have hdue' : T + s.cfg.durationUs - 5000000 < t := by simpa [isDuePoll] using hdue
            have := needRepublish_due s T t hq hT hd hdue'
            simp [step, poll, this, tryPublish, hadm s rfl] at h0
          have : s.queue.length ≠ 0 := by
            intro hz; exact hne (List.eq_nil_of_length_eq_zero hz)
          omega
        | _ => simp [isDuePoll] at hdue
      · simp only [hdue] at h
        have := hql.1
        simp at h
        omega
    · rw [hq]; simp

/-! ### simulation between the sender's `files` map and the trace bookkeeping of the spec -/

abbrev V := Nat × ObjAttrs × Bool × Nat

def viewF (f : FileDesc) : V := (f.toi, f.attrs, f.transferring, if f.attrs.carousel then 0 else f.transferCount)
def viewG (x : G) : V := (x.toi, x.attrs, x.transferring, if x.attrs.carousel then 0 else x.done)
def absFiles (g : List G) : List V := (g.filter (fun x => x.live)).map viewG

def vRemove (t : Nat) (l : List V) : List V := l.filter (fun v => decide (v.1 ≠ t))
def vStart (t : Nat) (l : List V) : List V := l.map (fun v => if v.1 = t then (v.1, v.2.1, true, v.2.2.2) else v)
def vDoneF (t : Nat) (v : V) : Option V :=
  if v.1 = t then
    (if (decide (v.2.1.maxTransferCount ≤ v.2.2.2 + 1) && !v.2.1.carousel) then none
     else some (v.1, v.2.1, false, if v.2.1.carousel then 0 else v.2.2.2 + 1))
  else some v
def vDone (t : Nat) (l : List V) : List V := l.filterMap (vDoneF t)

theorem m_remove (t : Nat) (fs : List FileDesc) :
    (fs.filter (fun f => decide (f.toi ≠ t))).map viewF = vRemove t (fs.map viewF) := by
  induction fs with
  | nil => rfl
  | cons f fs ih =>
    simp only [List.filter_cons, vRemove, List.map_cons]
    by_cases h : f.toi = t
    · simp only [h, ne_eq, not_true_eq_false, decide_false, Bool.false_eq_true, if_false, viewF]
      exact ih
    · simp only [h, ne_eq, not_false_eq_true, decide_true, if_true, List.map_cons, viewF]
      rw [show (List.map viewF (List.filter (fun f => decide (f.toi ≠ t)) fs)) = vRemove t (fs.map viewF) from ih]
      rfl

theorem g_remove (t : Nat) (g : List G) :
    absFiles (g.map (fun x => if x.toi = t then { x with live := false } else x)) = vRemove t (absFiles g) := by
  induction g with
  | nil => rfl
  | cons x g ih =>
    simp only [absFiles, List.map_cons, List.filter_cons, vRemove] at ih ⊢
    by_cases h : x.toi = t
    · by_cases hl : x.live = true
      · simp only [h, if_true, Bool.false_eq_true, if_false, hl, List.map_cons, List.filter_cons, viewG,
          ne_eq, not_true_eq_false, decide_false]
        exact ih
      · simp only [h, if_true, Bool.false_eq_true, if_false, hl]
        exact ih
    · by_cases hl : x.live = true
      · simp only [h, if_false, hl, if_true, List.map_cons, List.filter_cons, viewG, ne_eq, not_false_eq_true,
          decide_true]
        rw [ih]
      · simp only [h, if_false, hl, Bool.false_eq_true]
        exact ih

theorem viewF_fStart (t : Nat) (f : FileDesc) :
    viewF (fStart t f) = (if (viewF f).1 = t then ((viewF f).1, (viewF f).2.1, true, (viewF f).2.2.2) else viewF f) := by
  unfold fStart viewF
  by_cases h : f.toi = t
  · simp only [h, if_true]
    by_cases hc : f.attrs.carousel = true
    · simp [hc]
    · simp [hc]
  · simp [h]

theorem m_start (t : Nat) (fs : List FileDesc) : (fs.map (fStart t)).map viewF = vStart t (fs.map viewF) := by
  induction fs with
  | nil => rfl
  | cons f fs ih =>
    simp only [List.map_cons, vStart] at ih ⊢
    rw [ih, viewF_fStart]

theorem g_start (t : Nat) (g : List G) :
    absFiles (g.map (fun x => if x.toi = t then { x with transferring := true } else x)) = vStart t (absFiles g) := by
  induction g with
  | nil => rfl
  | cons x g ih =>
    simp only [absFiles, List.map_cons, List.filter_cons, vStart] at ih ⊢
    by_cases h : x.toi = t
    · by_cases hl : x.live = true
      · simp only [h, if_true, hl, List.map_cons, viewG]
        rw [ih]
      · simp only [h, if_true, hl, Bool.false_eq_true, if_false]
        exact ih
    · by_cases hl : x.live = true
      · simp only [h, if_false, hl, if_true, List.map_cons, viewG]
        rw [ih]
      · simp only [h, if_false, hl, Bool.false_eq_true]
        exact ih

theorem viewF_fDone (t : Nat) (f : FileDesc) : (fDone t f).map viewF = vDoneF t (viewF f) := by
  unfold fDone vDoneF viewF expiredAfter
  by_cases h : f.toi = t
  · simp only [h, if_true]
    by_cases hc : f.attrs.carousel = true
    · simp [hc]
    · simp only [hc, Bool.false_eq_true, if_false, Bool.not_false, Bool.and_true]
      by_cases hm : f.attrs.maxTransferCount > f.transferCount + 1
      · have : ¬ (f.attrs.maxTransferCount ≤ f.transferCount + 1) := by omega
        simp [hm, this, hc]
      · have : f.attrs.maxTransferCount ≤ f.transferCount + 1 := by omega
        simp [hm, this, hc]
  · simp [h]

theorem m_done (t : Nat) (fs : List FileDesc) : (fs.filterMap (fDone t)).map viewF = vDone t (fs.map viewF) := by
  induction fs with
  | nil => rfl
  | cons f fs ih =>
    simp only [List.filterMap_cons, List.map_cons, vDone] at ih ⊢
    rw [← viewF_fDone]
    cases h : fDone t f with
    | none => simp only [Option.map_none]; exact ih
    | some f' => simp only [Option.map_some, List.map_cons]; rw [ih]

def gDone (t : Nat) (x : G) : G :=
  if x.toi = t then
    { x with transferring := false, done := x.done + 1, live := x.live && !finishedAfter x }
  else x

theorem g_done (t : Nat) (g : List G) : absFiles (g.map (gDone t)) = vDone t (absFiles g) := by
  induction g with
  | nil => rfl
  | cons x g ih =>
    simp only [absFiles, List.map_cons, List.filter_cons, vDone] at ih ⊢
    by_cases h : x.toi = t
    · by_cases hl : x.live = true
      · by_cases hf : finishedAfter x = true
        · have hv : vDoneF t (viewG x) = none := by
            unfold vDoneF viewG
            unfold finishedAfter at hf
            simp only [h, if_true]
            by_cases hc : x.attrs.carousel = true
            · simp [hc] at hf
            · simp only [hc, Bool.false_eq_true, if_false] at hf ⊢
              simp only [hf, if_true]
          simp only [gDone, h, if_true, hl, hf, Bool.not_true, Bool.and_false, Bool.false_eq_true, if_false,
            List.map_cons, List.filterMap_cons, hv]
          exact ih
        · have hv : vDoneF t (viewG x) = some (viewG (gDone t x)) := by
            unfold vDoneF viewG gDone
            unfold finishedAfter at hf
            simp only [h, if_true]
            by_cases hc : x.attrs.carousel = true
            · simp [hc]
            · simp only [hc, Bool.false_eq_true, if_false] at hf ⊢
              simp only [hf, Bool.false_eq_true, if_false]
          have hlive : (gDone t x).live = true := by
            unfold gDone; simp [h, hl, hf]
          simp only [hlive, if_true, hl, List.map_cons, List.filterMap_cons, hv]
          rw [ih]
      · have hlive : (gDone t x).live = false := by
          unfold gDone; simp [h, hl]
        simp only [hlive, Bool.false_eq_true, if_false, hl]
        exact ih
    · have hg : gDone t x = x := by unfold gDone; simp [h]
      by_cases hl : x.live = true
      · have hv : vDoneF t (viewG x) = some (viewG x) := by
          unfold vDoneF viewG; simp [h]
        simp only [hg, hl, if_true, List.map_cons, List.filterMap_cons, hv]
        rw [ih]
      · simp only [hg, hl, Bool.false_eq_true, if_false]
        exact ih

theorem vStart_id (t : Nat) (l : List V) (h : ∀ v ∈ l, v.1 ≠ t) : vStart t l = l := by
  induction l with
  | nil => rfl
  | cons v l ih =>
    simp only [vStart, List.map_cons] at ih ⊢
    have hv : v.1 ≠ t := h v (by simp)
    simp only [hv, if_false]
    rw [ih (fun w hw => h w (by simp [hw]))]

theorem absFiles_append_live (g : List G) (x : G) (hx : x.live = true) : absFiles (g ++ [x]) = absFiles g ++ [viewG x] := by
  simp [absFiles, List.filter_append, hx]

theorem poll_files (s : State) (now : Nat) : (poll s now).1.files = s.files := by
  unfold poll
  by_cases h : needRepublish s now = true
  · simp only [h, if_true]; rw [popQueue_files]; exact tryPublish_files s now
  · simp only [h]; exact popQueue_files s

theorem tstart_files (s : State) (t now : Nat) :
    (tstart s t now).1.files = if s.files.any (fun f => f.toi = t) then s.files.map (fStart t) else s.files := by
  unfold tstart
  split
  · cases hm : s.cfg.mode with
    | beingTransferred => simp only; exact tryPublish_files _ now
    | fullFdt => rfl
  · rfl

/-- one step keeps the sender's `files` map and the spec's bookkeeping of the trace in step -/
theorem step_sim (s : State) (g : List G) (op : Op) (h : s.files.map viewF = absFiles g) :
    (step s op).1.files.map viewF = absFiles (track1 g (op, (step s op).2.2)) := by
  cases op with
  | add a =>
    simp only [step, add]
    split
    · simpa [track1] using h
    · split
      · simpa [track1] using h
      · simpa [track1] using h
      · simp only [track1]
        rw [absFiles_append_live _ _ rfl, List.map_append, h]
        rfl
  | remove t =>
    simp only [step, remove]
    split
    · simp only [track1]
      rw [g_remove, ← h]
      exact m_remove t s.files
    · simpa [track1] using h
  | publish now =>
    simp only [step, track1]
    rw [tryPublish_files]
    exact h
  | setComplete => simpa [step, track1, setComplete] using h
  | tstart t now =>
    simp only [step, track1]
    rw [g_start, ← h, tstart_files]
    split
    · exact m_start t s.files
    · rename_i hany
      rw [vStart_id]
      intro v hv
      simp only [List.mem_map] at hv
      rcases hv with ⟨f, hf, rfl⟩
      intro heq
      apply hany
      simp only [List.any_eq_true, decide_eq_true_eq]
      exact ⟨f, hf, heq⟩
  | tdone t now =>
    simp only [step, tdone, track1]
    have : (g.map (fun x => if x.toi = t then
        { x with transferring := false, done := x.done + 1, live := x.live && !finishedAfter x } else x)) = g.map (gDone t) := rfl
    rw [this, g_done, ← h]
    exact m_done t s.files
  | poll now =>
    simp only [step, track1]
    rw [poll_files]
    exact h

theorem run_sim (s : State) (g : List G) (ops : List Op) (h : s.files.map viewF = absFiles g) :
    (run s ops).1.files.map viewF = absFiles ((trace s ops).foldl track1 g) := by
  induction ops generalizing s g with
  | nil => simpa [run, trace] using h
  | cons op ops ih =>
    simp only [run, trace, List.foldl_cons]
    exact ih _ _ (step_sim s g op h)

/-! ### provenance of bookkeeping entries; the effective OTI stored with a file -/

theorem track1_prov (g : List G) (ev : Op × Res) (x : G) (hx : x ∈ track1 g ev) :
    (∃ y ∈ g, y.toi = x.toi ∧ y.attrs = x.attrs) ∨ ev = (.add x.attrs, .added (.ok x.toi)) := by
  unfold track1 at hx
  split at hx
  · simp only [List.mem_append, List.mem_singleton] at hx
    rcases hx with hx | rfl
    · exact .inl ⟨x, hx, rfl, rfl⟩
    · exact .inr rfl
  · simp only [List.mem_map] at hx
    rcases hx with ⟨y, hy, rfl⟩
    refine .inl ⟨y, hy, ?_⟩
    split <;> exact ⟨rfl, rfl⟩
  · simp only [List.mem_map] at hx
    rcases hx with ⟨y, hy, rfl⟩
    refine .inl ⟨y, hy, ?_⟩
    split <;> exact ⟨rfl, rfl⟩
  · simp only [List.mem_map] at hx
    rcases hx with ⟨y, hy, rfl⟩
    refine .inl ⟨y, hy, ?_⟩
    split <;> exact ⟨rfl, rfl⟩
  · exact .inl ⟨x, hx, rfl, rfl⟩

theorem track_prov (evs : List (Op × Res)) (g : List G) (x : G) (hx : x ∈ evs.foldl track1 g) :
    (∃ y ∈ g, y.toi = x.toi ∧ y.attrs = x.attrs) ∨ (Op.add x.attrs, Res.added (.ok x.toi)) ∈ evs := by
  induction evs generalizing g with
  | nil => exact .inl ⟨x, hx, rfl, rfl⟩
  | cons ev evs ih =>
    simp only [List.foldl_cons] at hx
    rcases ih _ hx with ⟨y, hy, h1, h2⟩ | h
    · rcases track1_prov g ev y hy with ⟨z, hz, h3, h4⟩ | h
      · exact .inl ⟨z, hz, h3.trans h1, h4.trans h2⟩
      · right; rw [h, h1, h2]; simp
    · right; simp [h]

def OtiInv (s : State) : Prop := ∀ f ∈ s.files, effectiveOti s.cfg.oti f.attrs = .ok (some f.oti)

theorem step_otiInv (s : State) (op : Op) (h : OtiInv s) : OtiInv (step s op).1 := by
  intro f hf
  rw [step_cfg]
  cases op with
  | add a =>
    simp only [step, add] at hf
    split at hf
    · exact h f hf
    · split at hf
      · exact h f hf
      · exact h f hf
      · rename_i o heq
        simp only [List.mem_append, List.mem_singleton] at hf
        rcases hf with hf | rfl
        · exact h f hf
        · exact heq
  | remove t =>
    simp only [step, remove] at hf
    split at hf
    · exact h f (List.mem_filter.mp hf).1
    · exact h f hf
  | publish now =>
    simp only [step] at hf
    rw [tryPublish_files] at hf
    exact h f hf
  | setComplete => exact h f hf
  | tstart t now =>
    simp only [step] at hf
    rw [tstart_files] at hf
    split at hf
    · simp only [List.mem_map] at hf
      rcases hf with ⟨f0, hf0, rfl⟩
      have := h f0 hf0
      unfold fStart
      split <;> exact this
    · exact h f hf
  | tdone t now =>
    simp only [step, tdone, List.mem_filterMap] at hf
    rcases hf with ⟨f0, hf0, hfd⟩
    have := h f0 hf0
    unfold fDone at hfd
    split at hfd
    · split at hfd
      · cases hfd
      · cases hfd; exact this
    · cases hfd; exact this
  | poll now =>
    simp only [step] at hf
    rw [poll_files] at hf
    exact h f hf

theorem run_otiInv (s : State) (ops : List Op) (h : OtiInv s) : OtiInv (run s ops).1 := by
  induction ops generalizing s with
  | nil => exact h
  | cons op ops ih => exact ih _ (step_otiInv s op h)

/-- `last_publish` is the time of the latest publication -/
theorem run_lastPublish (s : State) (ops : List Op) :
    (run s ops).1.lastPublish = (match (run s ops).2.getLast? with
      | some p => some p.time
      | none => s.lastPublish) := by
  induction ops generalizing s with
  | nil => simp [run]
  | cons op ops ih =>
    simp only [run]
    rw [ih]
    rcases step_pubs s op with ⟨h0, _, hlp⟩ | ⟨q, hq, _, _, hlp, _⟩
    · rw [h0, List.nil_append, hlp]
    · rw [hq, hlp]
      cases hr : (run (step s op).1 ops).2 with
      | nil => simp
      | cons r rs =>
        simp only [List.singleton_append, List.getLast?_cons_cons]
        cases hl : (r :: rs).getLast? with
        | none => simp at hl
        | some z => rfl

/-! ### the effective OTI of a file -/

theorem effectiveOti_spec (d : Oti) (a : ObjAttrs) (o : Oti) (h : effectiveOti d a = .ok (some o)) :
    ((a.oti.getD d).enc ≠ 6 ∧ (a.oti.getD d).enc ≠ 1 ∧ o = a.oti.getD d) ∨
    (((a.oti.getD d).enc = 6 ∨ (a.oti.getD d).enc = 1) ∧ ∃ nb, o = setZ (a.oti.getD d) nb ∧
      ((a.oti.getD d).enc = 6 → nb ≤ 255) ∧ ((a.oti.getD d).enc = 1 → nb ≤ 65535)) := by
  unfold effectiveOti at h
  simp only at h
  split at h
  · cases h
  · split at h
    · cases h
    · split at h
      · cases h
      · split at h
        · cases h
        · cases h
        · split at h
          · rename_i h61
            split at h
            · cases h
            · split at h
              · cases h
              · split at h
                · cases h
                · split at h
                  · cases h
                  · split at h
                    · cases h
                    · rename_i q _ _ _ _ hnb
                      simp only [Except.ok.injEq, Option.some.injEq] at h
                      right
                      refine ⟨h61, max q.2.2.2 1, h.symm, ?_, ?_⟩
                      · intro h6
                        have := Nat.le_of_not_gt (fun hgt => hnb (.inl ⟨h6, hgt⟩))
                        omega
                      · intro h1
                        have := Nat.le_of_not_gt (fun hgt => hnb (.inr ⟨h1, hgt⟩))
                        omega
          · rename_i h61
            simp only [Except.ok.injEq, Option.some.injEq] at h
            left
            exact ⟨fun h6 => h61 (.inl h6), fun h1 => h61 (.inr h1), h.symm⟩

theorem setZ_fields (o : Oti) (nb : Nat) :
    (setZ o nb).enc = o.enc ∧ (setZ o nb).inst = o.inst ∧ (setZ o nb).maxSbl = o.maxSbl ∧
    (setZ o nb).esl = o.esl ∧ (setZ o nb).parity = o.parity := by
  unfold setZ
  split
  · split <;> exact ⟨rfl, rfl, rfl, rfl, rfl⟩
  · split <;> exact ⟨rfl, rfl, rfl, rfl, rfl⟩
  · exact ⟨rfl, rfl, rfl, rfl, rfl⟩

theorem setZ_wf (o : Oti) (nb : Nat) (h : o.wf) (h6 : o.enc = 6 → nb ≤ 255) (h1 : o.enc = 1 → nb ≤ 65535) :
    (setZ o nb).wf := by
  obtain ⟨hv, hi, hb, he, hp, hs⟩ := h
  unfold setZ
  split
  · rename_i z n al hsch
    split
    · rename_i henc
      refine ⟨hv, hi, hb, he, hp, ?_⟩
      intro s hs'
      simp only [Option.some.injEq] at hs'
      subst hs'
      have := hs _ hsch
      simp only [Scheme.wf] at this ⊢
      have := h6 henc
      omega
    · exact ⟨hv, hi, hb, he, hp, hs⟩
  · rename_i z n al hsch
    split
    · rename_i henc
      refine ⟨hv, hi, hb, he, hp, ?_⟩
      intro s hs'
      simp only [Option.some.injEq] at hs'
      subst hs'
      have := hs _ hsch
      simp only [Scheme.wf] at this ⊢
      have := h1 henc
      omega
    · exact ⟨hv, hi, hb, he, hp, hs⟩
  · exact ⟨hv, hi, hb, he, hp, hs⟩

theorem setZ_coherent (o : Oti) (nb : Nat) (h : o.coherent) : (setZ o nb).coherent := by
  unfold setZ
  split
  · split
    · rename_i henc; simp only [Oti.coherent]; exact henc
    · exact h
  · split
    · rename_i henc; simp only [Oti.coherent]; exact henc
    · exact h
  · exact h

/-! ### receiver-side extraction inverts the sender's attribute encoding -/

theorem decode_schemeInfo (o : Oti) (hco : o.coherent) : decodeScheme o.enc (schemeInfo o) = o.scheme := by
  unfold Oti.coherent at hco
  unfold schemeInfo decodeScheme
  cases hs : o.scheme with
  | none =>
    simp
  | some sch =>
    cases sch with
    | rs2m m g =>
      simp only [hs] at hco
      simp [hco]
    | raptorq z n al =>
      simp only [hs] at hco
      simp only [hco]
      simp
      exact Nat.div_add_mod' n 256
    | raptor z n al =>
      simp only [hs] at hco
      simp only [hco]
      simp
      exact Nat.div_add_mod' z 256

theorem recvOti_noAttrs : recvOti noAttrs = .ok none := rfl

theorem recvOti_getAttributes (o : Oti) (hwf : o.wf) (hco : o.coherent) : recvOti (getAttributes o) = .ok (some o) := by
  obtain ⟨hv, hi, hb, he, hp, _⟩ := hwf
  unfold recvOti getAttributes
  simp only [hv, Bool.not_true, Bool.false_eq_true, if_false, Option.getD_some, Nat.add_sub_cancel_left,
    Nat.mod_eq_of_lt hi, Nat.mod_eq_of_lt hb, Nat.mod_eq_of_lt he, Nat.mod_eq_of_lt hp, decode_schemeInfo o hco]

theorem listed_mem (s : State) (fd : FileDesc) (h : fd ∈ listedFiles s) : fd ∈ s.files := by
  unfold listedFiles at h
  split at h
  · exact h
  · exact (List.mem_filter.mp h).1

/-- every file entry of an instance stems from a live file of the sender, which stems from an `add` of the trace
    and carries the effective OTI computed at that `add` -/
theorem file_origin (cfg : Cfg) (ops : List Op) (now : Nat) (f : AFile)
    (hf : f ∈ (instanceAt (run (init cfg) ops).1 now).files) :
    ∃ fd ∈ (run (init cfg) ops).1.files, f = toFileXml fd now ∧
      (Op.add fd.attrs, Res.added (.ok fd.toi)) ∈ trace (init cfg) ops ∧
      effectiveOti cfg.oti fd.attrs = .ok (some fd.oti) := by
  simp only [instanceAt, List.mem_map] at hf
  rcases hf with ⟨fd, hfd, rfl⟩
  have hmem := listed_mem _ _ hfd
  refine ⟨fd, hmem, rfl, ?_, ?_⟩
  · have hsim := run_sim (init cfg) [] ops rfl
    have hv : viewF fd ∈ (run (init cfg) ops).1.files.map viewF := List.mem_map_of_mem hmem
    rw [hsim] at hv
    unfold absFiles at hv
    simp only [List.mem_map, List.mem_filter] at hv
    rcases hv with ⟨x, ⟨hx, _⟩, hxv⟩
    simp only [viewG, viewF, Prod.mk.injEq] at hxv
    rcases track_prov (trace (init cfg) ops) [] x hx with ⟨y, hy, _⟩ | h
    · simp at hy
    · rw [hxv.1, hxv.2.1] at h; exact h
  · have := run_otiInv (init cfg) ops (by intro f hf; simp [init] at hf) fd hmem
    rw [run_cfg] at this
    exact this

/-- a reader resolving File-level over FDT-level FEC-OTI attributes ends up with the attributes of the OTI the object
    is sent with -/
theorem resolve_fileOti (d : Oti) (fd : FileDesc) (h : effectiveOti d fd.attrs = .ok (some fd.oti)) :
    resolveOti (fdtOtiAttrs d) (fileOtiAttrs fd) = getAttributes fd.oti := by
  unfold resolveOti fileOtiAttrs
  rcases effectiveOti_spec d fd.attrs fd.oti h with ⟨h6, h1, heq⟩ | ⟨h61, nb, heq, _⟩
  · have h6' : fd.oti.enc ≠ 6 := by rw [heq]; exact h6
    have h1' : fd.oti.enc ≠ 1 := by rw [heq]; exact h1
    have hno : ¬ (fd.oti.enc = 6 ∨ fd.oti.enc = 1) := fun h => h.elim h6' h1'
    simp only [hno, if_false]
    cases ho : fd.attrs.oti with
    | none =>
      simp only [ho, Option.getD_none] at heq
      have : ¬ (d.enc = 6 ∨ d.enc = 1) := by rw [← heq]; exact hno
      simp [noAttrs, fdtOtiAttrs, this, heq]
    | some ov =>
      simp only [ho, Option.getD_some] at heq
      simp [getAttributes, heq]
  · have henc : fd.oti.enc = (fd.attrs.oti.getD d).enc := by rw [heq]; exact (setZ_fields _ nb).1
    have hyes : fd.oti.enc = 6 ∨ fd.oti.enc = 1 := by rw [henc]; exact h61
    simp [hyes, getAttributes]

/-- the TOI counter: below the wrap of the configured width it just counts up -/
theorem succToi_of_lt (b t : Nat) (h : t + 1 < 2^b) : succToi b t = t + 1 := by
  unfold succToi
  simp only [Nat.mod_eq_of_lt h]
  simp

theorem step_nextToi (s : State) (op : Op) :
    (step s op).1.nextToi = s.nextToi ∨ (step s op).1.nextToi = succToi s.cfg.toiBits s.nextToi := by
  cases op with
  | add a => simp only [step, add]; split; exact .inl rfl; split <;> exact .inr rfl
  | remove t => simp only [step, remove]; split <;> exact .inl rfl
  | publish now => exact .inl (tryPublish_nextToi s now)
  | setComplete => exact .inl rfl
  | tstart t now =>
    simp only [step, tstart]
    split
    · cases s.cfg.mode with
      | beingTransferred => exact .inl (tryPublish_nextToi _ now)
      | fullFdt => exact .inl rfl
    · exact .inl rfl
  | tdone t now => exact .inl rfl
  | poll now =>
    simp only [step, poll]
    split
    · rw [popQueue_nextToi]; exact .inl (tryPublish_nextToi s now)
    · rw [popQueue_nextToi]; exact .inl rfl

theorem add_ok_eq (s : State) (a : ObjAttrs) (t : Nat) (h : (add s a).2 = .ok t) :
    t = s.nextToi ∧ (add s a).1.nextToi = succToi s.cfg.toiBits s.nextToi := by
  unfold add at h ⊢
  split
  · simp_all
  · split <;> simp_all

theorem trace_toi_ge (s : State) (ops : List Op) (b : ObjAttrs) (t : Nat)
    (h : (Op.add b, Res.added (.ok t)) ∈ trace s ops) (hnw : s.nextToi + ops.length < 2^s.cfg.toiBits) :
    s.nextToi ≤ t := by
  induction ops generalizing s with
  | nil => simp [trace] at h
  | cons op ops ih =>
    simp only [trace, List.mem_cons] at h
    simp only [List.length_cons] at hnw
    rcases h with h | h
    · simp only [Prod.mk.injEq] at h
      obtain ⟨hop, hres⟩ := h
      subst hop
      simp only [step, Res.added.injEq] at hres
      have := (add_ok_eq s b t hres.symm).1
      omega
    · have hcfg := step_cfg s op
      have hs : succToi s.cfg.toiBits s.nextToi = s.nextToi + 1 := succToi_of_lt _ _ (by omega)
      have hn := step_nextToi s op
      rw [hs] at hn
      have := ih (step s op).1 h (by rw [hcfg]; rcases hn with hn | hn <;> omega)
      rcases hn with hn | hn <;> omega

/-! ### receiver side: expiry, cache directive, content encoding, OTI -/

theorem era_aux (a b K M : Nat) (h : a + K + b < M) (hM : M ≤ 18446744073709551616) :
    (if a + K + b ≥ 18446744073709551616 then (none : Option Nat)
     else if (a + K + b) % M < K then none else some (((a + K + b) % M - K) * 1000000)) = some ((a + b) * 1000000) := by
  have h1 : (a + K + b) % M = a + K + b := Nat.mod_eq_of_lt h
  rw [h1]
  have h2 : ¬ (a + K + b ≥ 18446744073709551616) := by omega
  have h3 : ¬ (a + K + b < K) := by omega
  have h4 : a + K + b - K = a + b := by omega
  simp only [h2, h3, if_false, h4]

theorem recvExpiration_eq (s : State) (now : Nat)
    (hera : now / 1000000 + 2208988800 + s.cfg.durationUs / 1000000 < 2^32) :
    recvExpiration (instanceAt s now) = some (expiryUs s.cfg.durationUs now) := by
  unfold recvExpiration instanceAt ntpSecs expiryUs
  simp only
  have h0 : (now / 1000000 + 2208988800) % 2^32 = now / 1000000 + 2208988800 :=
    Nat.mod_eq_of_lt (Nat.lt_of_le_of_lt (Nat.le_add_right _ _) hera)
  rw [h0]
  have := era_aux (now / 1000000) (s.cfg.durationUs / 1000000) 2208988800 (2^32) hera (by decide)
  simpa using this

theorem secs_aux (x K M : Nat) (h : x + K < M) :
    (if ((x + K) % M) % M < K then (none : Option Nat) else some ((((x + K) % M) % M - K) * 1000000)) = some (x * 1000000) := by
  have h1 : (x + K) % M = x + K := Nat.mod_eq_of_lt h
  rw [h1, h1]
  have h3 : ¬ (x + K < K) := by omega
  have h4 : x + K - K = x := by omega
  simp only [h3, if_false, h4]

theorem recvCache_eq (s : State) (now : Nat) (fd : FileDesc)
    (hera : now / 1000000 + 2208988800 + s.cfg.durationUs / 1000000 < 2^32)
    (hc : cacheInEra now fd.attrs.cache) :
    recvCache (instanceAt s now) (toFileXml fd now) = cacheRead s.cfg.durationUs now fd.attrs.cache := by
  unfold recvCache
  rw [recvExpiration_eq s now hera]
  simp only [toFileXml]
  cases hcc : fd.attrs.cache with
  | none => simp [cacheRead]
  | some cc =>
    rw [hcc] at hc
    cases cc with
    | noCache => simp [cacheRead, fdtCache]
    | maxStale => simp [cacheRead, fdtCache]
    | expiresIn d =>
      simp only [cacheInEra] at hc
      have := secs_aux ((now + d) / 1000000) 2208988800 (2^32) hc
      simp only [Option.map_some, fdtCache, ntpSecs, cacheRead]
      split at this
      · cases this
      · rename_i hlt
        simp only [Option.some.injEq] at this
        simp only [hlt, if_false, this]
    | expiresAt t =>
      simp only [cacheInEra] at hc
      have := secs_aux (t / 1000000) 2208988800 (2^32) hc
      simp only [Option.map_some, fdtCache, ntpSecs, cacheRead]
      split at this
      · cases this
      · rename_i hlt
        simp only [Option.some.injEq] at this
        simp only [hlt, if_false, this]

theorem cenc_roundtrip (c : Nat) (h : c ≤ 3) :
    (match (if c = 0 then (none : Option String) else some (cencStr c)) with
     | none => 0
     | some s => if s = "zlib" then 1 else if s = "deflate" then 2 else if s = "gzip" then 3 else 0) = c := by
  have : c = 0 ∨ c = 1 ∨ c = 2 ∨ c = 3 := by omega
  rcases this with rfl | rfl | rfl | rfl <;> decide

theorem recvCenc_eq (fd : FileDesc) (now : Nat) (h : fd.attrs.cenc ≤ 3) : recvCenc (toFileXml fd now) = fd.attrs.cenc := by
  unfold recvCenc toFileXml
  exact cenc_roundtrip fd.attrs.cenc h

theorem recvOtiForFile_eq (s : State) (now : Nat) (fd : FileDesc)
    (h : effectiveOti s.cfg.oti fd.attrs = .ok (some fd.oti))
    (hwf : (fd.attrs.oti.getD s.cfg.oti).wf) (hco : (fd.attrs.oti.getD s.cfg.oti).coherent) :
    recvOtiForFile (instanceAt s now) (toFileXml fd now) = .ok (some fd.oti) := by
  unfold recvOtiForFile
  have hI : (instanceAt s now).oti = fdtOtiAttrs s.cfg.oti := rfl
  have hF : (toFileXml fd now).oti = fileOtiAttrs fd := rfl
  rw [hI, hF]
  unfold fileOtiAttrs
  rcases effectiveOti_spec s.cfg.oti fd.attrs fd.oti h with ⟨h6, h1, heq⟩ | ⟨h61, nb, heq, hb6, hb1⟩
  · have hno : ¬ (fd.oti.enc = 6 ∨ fd.oti.enc = 1) := by
      rw [heq]; exact fun h => h.elim h6 h1
    simp only [hno, if_false]
    cases ho : fd.attrs.oti with
    | none =>
      simp only [ho, Option.getD_none] at heq hwf hco
      have hno' : ¬ (s.cfg.oti.enc = 6 ∨ s.cfg.oti.enc = 1) := by rw [← heq]; exact hno
      simp only [recvOti_noAttrs, fdtOtiAttrs, hno', if_false]
      rw [recvOti_getAttributes _ hwf hco, heq]
    | some ov =>
      simp only [ho, Option.getD_some] at heq hwf hco
      simp only
      rw [recvOti_getAttributes _ hwf hco, heq]
  · have henc : fd.oti.enc = (fd.attrs.oti.getD s.cfg.oti).enc := by rw [heq]; exact (setZ_fields _ nb).1
    have hyes : fd.oti.enc = 6 ∨ fd.oti.enc = 1 := by rw [henc]; exact h61
    simp only [hyes, if_true]
    have hwf' : fd.oti.wf := by rw [heq]; exact setZ_wf _ nb hwf hb6 hb1
    have hco' : fd.oti.coherent := by rw [heq]; exact setZ_coherent _ nb hco
    rw [recvOti_getAttributes _ hwf' hco']


/-! ### listing helpers -/

theorem filter_tr_F (l : List FileDesc) :
    (l.filter (fun f => f.transferring)).map (fun f => f.toi) =
      ((l.map viewF).filter (fun v => v.2.2.1)).map (fun v => v.1) := by
  induction l with
  | nil => rfl
  | cons f l ih =>
    simp only [List.filter_cons, List.map_cons, viewF]
    by_cases h : f.transferring = true
    · simp only [h, if_true, List.map_cons]; rw [ih]
    · simp only [h, Bool.false_eq_true, if_false]; exact ih

theorem filter_tr_G (g : List G) :
    ((g.filter (fun x => x.live)).filter (fun x => x.transferring)).map (fun x => x.toi) =
      ((absFiles g).filter (fun v => v.2.2.1)).map (fun v => v.1) := by
  unfold absFiles
  induction (g.filter (fun x => x.live)) with
  | nil => rfl
  | cons x l ih =>
    simp only [List.filter_cons, List.map_cons, viewG]
    by_cases h : x.transferring = true
    · simp only [h, if_true, List.map_cons]; rw [ih]
    · simp only [h, Bool.false_eq_true, if_false]; exact ih

theorem popQueue_inst_files (s : State) (t : Nat) : (instanceAt (popQueue s) t).files = (instanceAt s t).files := by
  unfold instanceAt listedFiles
  simp only [popQueue_cfg, popQueue_files]

theorem inst_files_congr (s s' : State) (t : Nat) (hc : s.cfg = s'.cfg) (hf : s.files = s'.files) :
    (instanceAt s t).files = (instanceAt s' t).files := by
  unfold instanceAt listedFiles
  simp only [hc, hf]

theorem tryPublish_inst (s : State) (now : Nat) (p : Pub) (hp : p ∈ (tryPublish s now).2) :
    p.inst.files = (instanceAt (tryPublish s now).1 p.time).files := by
  rw [tryPublish_mem s now p hp]
  exact inst_files_congr _ _ now (tryPublish_cfg s now).symm (tryPublish_files s now).symm

theorem step_pub_inst (s : State) (op : Op) (p : Pub) (hp : p ∈ (step s op).2.1) :
    p.inst.files = (instanceAt (step s op).1 p.time).files := by
  cases op with
  | add a => simp [step] at hp
  | remove t => simp [step] at hp
  | publish now => simp only [step] at hp ⊢; exact tryPublish_inst s now p hp
  | setComplete => simp [step] at hp
  | tstart t now =>
    simp only [step, tstart] at hp ⊢
    split at hp
    · rename_i hany
      simp only [hany, if_true]
      cases hm : s.cfg.mode with
      | beingTransferred => simp only [hm] at hp ⊢; exact tryPublish_inst _ now p hp
      | fullFdt => simp [hm] at hp
    · simp at hp
  | tdone t now => simp [step] at hp
  | poll now =>
    simp only [step, poll] at hp ⊢
    by_cases h : needRepublish s now = true
    · simp only [h, if_true] at hp ⊢
      rw [popQueue_inst_files]
      exact tryPublish_inst s now p hp
    · simp [h] at hp

/-! ### a published instance is, as a whole record, the instance of the state right after its operation -/

theorem inst_congr (s s' : State) (t : Nat) (hc : s.cfg = s'.cfg) (hk : s.complete = s'.complete)
    (hf : s.files = s'.files) : instanceAt s t = instanceAt s' t := by
  unfold instanceAt listedFiles
  simp only [hc, hk, hf]

theorem tryPublish_complete (s : State) (now : Nat) : (tryPublish s now).1.complete = s.complete := by
  rcases tryPublish_cases s now with ⟨_, h⟩ | ⟨_, h⟩ <;> rw [h] <;> rfl

theorem tryPublish_whole (s : State) (now : Nat) (p : Pub) (hp : p ∈ (tryPublish s now).2) :
    p.inst = instanceAt (tryPublish s now).1 p.time ∧ admitted s now = true := by
  rcases tryPublish_cases s now with ⟨_, h⟩ | ⟨ha, h⟩
  · rw [h] at hp; simp at hp
  · refine ⟨?_, ha⟩
    rw [tryPublish_mem s now p hp]
    exact inst_congr _ _ now (tryPublish_cfg s now).symm (tryPublish_complete s now).symm (tryPublish_files s now).symm

theorem popQueue_inst (s : State) (t : Nat) : instanceAt (popQueue s) t = instanceAt s t :=
  inst_congr _ _ t (popQueue_cfg s) (popQueue_complete s) (popQueue_files s)

theorem admitted_groups (s : State) (now : Nat) (h : admitted s now = true) :
    (s.cfg.groups.getD []).all s.cfg.xmlOk = true := by
  unfold admitted at h
  simp only [Bool.and_eq_true] at h
  exact h.1

theorem step_pub_whole (s : State) (op : Op) (p : Pub) (hp : p ∈ (step s op).2.1) :
    p.inst = instanceAt (step s op).1 p.time ∧ (s.cfg.groups.getD []).all s.cfg.xmlOk = true := by
  cases op with
  | add a => simp [step] at hp
  | remove t => simp [step] at hp
  | publish now =>
    simp only [step] at hp ⊢
    exact ⟨(tryPublish_whole s now p hp).1, admitted_groups s now (tryPublish_whole s now p hp).2⟩
  | setComplete => simp [step] at hp
  | tstart t now =>
    simp only [step, tstart] at hp ⊢
    split at hp
    · rename_i hany
      simp only [hany, if_true]
      cases hm : s.cfg.mode with
      | beingTransferred =>
        simp only [hm] at hp ⊢
        exact ⟨(tryPublish_whole _ now p hp).1,
          admitted_groups { s with files := s.files.map (fStart t) } now (tryPublish_whole _ now p hp).2⟩
      | fullFdt => simp [hm] at hp
    · simp at hp
  | tdone t now => simp [step] at hp
  | poll now =>
    simp only [step, poll] at hp ⊢
    by_cases h : needRepublish s now = true
    · simp only [h, if_true] at hp ⊢
      rw [popQueue_inst]
      exact ⟨(tryPublish_whole s now p hp).1, admitted_groups s now (tryPublish_whole s now p hp).2⟩
    · simp [h] at hp

theorem run_pub_whole (s : State) (ops : List Op) (p : Pub) (hp : p ∈ (run s ops).2) :
    ∃ pre op post, ops = pre ++ op :: post ∧ p ∈ (step (run s pre).1 op).2.1 ∧
      p.inst = instanceAt (run s (pre ++ [op])).1 p.time := by
  induction ops generalizing s with
  | nil => simp [run] at hp
  | cons op ops ih =>
    simp only [run, List.mem_append] at hp
    rcases hp with hp | hp
    · exact ⟨[], op, ops, rfl, hp, by simpa [run] using (step_pub_whole s op p hp).1⟩
    · rcases ih _ hp with ⟨pre, op', post, rfl, h1, h2⟩
      exact ⟨op :: pre, op', post, rfl, by simpa [run] using h1, by simpa [run] using h2⟩

/-! ### every metadata string of a live file is an XML 1.0 string -/

def XmlInv (s : State) : Prop := ∀ f ∈ s.files, attrsXmlOk s.cfg.xmlOk f.attrs = true

theorem step_xmlInv (s : State) (op : Op) (h : XmlInv s) : XmlInv (step s op).1 := by
  intro f hf
  rw [step_cfg]
  cases op with
  | add a =>
    simp only [step, add] at hf
    split at hf
    · exact h f hf
    · rename_i hcond
      split at hf
      · exact h f hf
      · exact h f hf
      · simp only [List.mem_append, List.mem_singleton] at hf
        rcases hf with hf | rfl
        · exact h f hf
        · cases hx : attrsXmlOk s.cfg.xmlOk a with
          | true => rfl
          | false => exact absurd (.inr hx) hcond
  | remove t =>
    simp only [step, remove] at hf
    split at hf
    · exact h f (List.mem_filter.mp hf).1
    · exact h f hf
  | publish now =>
    simp only [step] at hf
    rw [tryPublish_files] at hf
    exact h f hf
  | setComplete => exact h f hf
  | tstart t now =>
    simp only [step] at hf
    rw [tstart_files] at hf
    split at hf
    · simp only [List.mem_map] at hf
      rcases hf with ⟨f0, hf0, rfl⟩
      have := h f0 hf0
      unfold fStart
      split <;> exact this
    · exact h f hf
  | tdone t now =>
    simp only [step, tdone, List.mem_filterMap] at hf
    rcases hf with ⟨f0, hf0, hfd⟩
    have := h f0 hf0
    unfold fDone at hfd
    split at hfd
    · split at hfd
      · cases hfd
      · cases hfd; exact this
    · cases hfd; exact this
  | poll now =>
    simp only [step] at hf
    rw [poll_files] at hf
    exact h f hf

theorem run_xmlInv (s : State) (ops : List Op) (h : XmlInv s) : XmlInv (run s ops).1 := by
  induction ops generalizing s with
  | nil => exact h
  | cons op ops ih => exact ih _ (step_xmlInv s op h)

theorem trace_prefix (s : State) (a b : List Op) (e : Op × Res) (h : e ∈ trace s a) : e ∈ trace s (a ++ b) := by
  induction a generalizing s with
  | nil => simp [trace] at h
  | cons op a ih =>
    simp only [List.cons_append, trace, List.mem_cons] at h ⊢
    rcases h with h | h
    · exact .inl h
    · exact .inr (ih _ h)

/-! ### a refused FDT object -/

theorem run_fdtid_nopub (s : State) (ops : List Op) (h : (run s ops).2 = []) : (run s ops).1.fdtid = s.fdtid := by
  induction ops generalizing s with
  | nil => rfl
  | cons op ops ih =>
    simp only [run] at h ⊢
    have h1 : (step s op).2.1 = [] := (List.append_eq_nil_iff.mp h).1
    have h2 := (List.append_eq_nil_iff.mp h).2
    rw [ih _ h2]
    rcases step_pubs s op with ⟨_, hid, _⟩ | ⟨q, hq, _⟩
    · exact hid
    · rw [hq] at h1; cases h1


/-- when the FDT object is never admitted, nothing is ever published: no id is consumed, `last_publish` stays unset -/
theorem run_never_admitted (s : State) (hadm : ∀ s' : State, s'.cfg = s.cfg → ∀ now, admitted s' now = false) (ops : List Op) :
    (run s ops).2 = [] := by
  induction ops generalizing s with
  | nil => rfl
  | cons op ops ih =>
    simp only [run]
    have hcfg := step_cfg s op
    rw [ih (step s op).1 (by intro s' hs' now; exact hadm s' (hs'.trans hcfg) now), List.append_nil]
    have htp : ∀ s' : State, s'.cfg = s.cfg → ∀ now, (tryPublish s' now).2 = [] := by
      intro s' hc now
      unfold tryPublish
      rw [hadm s' hc now]; rfl
    cases op with
    | add a => simp [step]
    | remove t => simp [step]
    | publish now => simp only [step]; exact htp s rfl now
    | setComplete => simp [step]
    | tstart t now =>
      simp only [step, tstart]
      split
      · cases hm : s.cfg.mode with
        | beingTransferred => exact htp { s with files := s.files.map (fStart t) } rfl now
        | fullFdt => rfl
      · rfl
    | tdone t now => simp [step]
    | poll now =>
      simp only [step, poll]
      split
      · exact htp s rfl now
      · rfl

end Flute.Lemmas.FdtAbs
