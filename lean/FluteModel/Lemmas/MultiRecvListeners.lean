import FluteModel.Lemmas.MultiRecv
/- what each registered listener is told: a contiguous segment of the global event log -/
namespace Flute.MultiRecv
open Flute Flute.TsiFilter
set_option linter.unusedSimpArgs false

variable {σ π Out : Type}

theorem tell_nil (ls : List (Nat × List Event)) : tell ls [] = ls := by
  simp [tell]

theorem mem_tell (ls : List (Nat × List Event)) (evs : List Event) (x : Nat × List Event) :
    x ∈ tell ls evs ↔ ∃ l, (x.1, l) ∈ ls ∧ x.2 = l ++ evs := by
  simp only [tell, List.mem_map]
  constructor
  · rintro ⟨e, he, rfl⟩; exact ⟨e.2, he, rfl⟩
  · rintro ⟨l, hl, h2⟩; exact ⟨(x.1, l), hl, by rw [← h2]⟩

theorem get_tell (ls : List (Nat × List Event)) (evs : List Event) (i : Nat) :
    AL.get (tell ls evs) i = (AL.get ls i).map (· ++ evs) := by
  have := AL.get_map_val ls (fun _ l => l ++ evs) i
  simpa [tell] using this

/-- every operation either appends a batch of events to the global log and tells exactly that batch to every
    registered listener, or is a listener registration / removal (which fire no events) -/
theorem step_shape (M : Machine σ π Out) (s : State σ Out) (op : Op π) :
    (∃ evs, (step M s op).1.events = s.events ++ evs ∧ (step M s op).1.listeners = tell s.listeners evs ∧
        (step M s op).1.retired = s.retired ∧ (step M s op).1.listenersId = s.listenersId)
    ∨ op = .addListener ∨ (∃ id, op = .removeListener id) := by
  have hnil : ∃ evs, s.events = s.events ++ evs ∧ s.listeners = tell s.listeners evs ∧
      s.retired = s.retired ∧ s.listenersId = s.listenersId := ⟨[], by simp, (tell_nil _).symm, rfl, rfl⟩
  cases op with
  | push ep p =>
    left
    cases p with
    | none => exact hnil
    | some pkt =>
      simp only [step, push]
      split
      · exact hnil
      · split
        · split
          · exact ⟨_, rfl, rfl, rfl, rfl⟩
          · exact hnil
        · split
          · exact ⟨[], by simp, (tell_nil _).symm, rfl, rfl⟩
          · exact ⟨_, rfl, rfl, rfl, rfl⟩
  | tick d => left; exact ⟨[], by simp [step], by simp [step, tell_nil], rfl, rfl⟩
  | cleanup now => left; exact ⟨_, rfl, rfl, rfl, rfl⟩
  | addListen ep tsi =>
    left; simp only [step]; split <;> exact hnil
  | removeListen ep tsi => left; exact ⟨[], by simp [step], by simp [step, tell_nil], rfl, rfl⟩
  | addAll ep =>
    left; simp only [step]; split <;> exact hnil
  | removeAll ep => left; exact ⟨[], by simp [step], by simp [step, tell_nil], rfl, rfl⟩
  | setFiltering b => left; exact ⟨[], by simp [step], by simp [step, tell_nil], rfl, rfl⟩
  | addListener => right; left; rfl
  | removeListener id => right; right; exact ⟨id, rfl⟩
  | drop => left; exact ⟨_, rfl, rfl, rfl, rfl⟩

/-- every registered listener has been told exactly the global log from some point on; every removed listener
    was told a contiguous segment of it -/
def LInv (s : State σ Out) : Prop :=
  (∀ x ∈ s.listeners, ∃ n, n ≤ s.events.length ∧ x.2 = s.events.drop n) ∧
  (∀ x ∈ s.retired, ∃ n m, n + m ≤ s.events.length ∧ x.2 = (s.events.drop n).take m)

theorem linv_new (b : Bool) : LInv (State.new b : State σ Out) := by
  constructor <;> intro x hx <;> simp [State.new] at hx

theorem mem_set_cases {κ ν : Type} [DecidableEq κ] (m : List (κ × ν)) (k : κ) (v : ν) (x : κ × ν)
    (h : x ∈ AL.set m k v) : x ∈ m ∨ x = (k, v) := by
  induction m with
  | nil => simp [AL.set] at h; exact Or.inr h
  | cons e r ih =>
    obtain ⟨k', v'⟩ := e
    simp only [AL.set] at h
    split at h
    · rename_i hk; subst hk
      simp only [List.mem_cons] at h ⊢
      rcases h with h | h
      · exact Or.inr h
      · exact Or.inl (Or.inr h)
    · simp only [List.mem_cons] at h ⊢
      rcases h with h | h
      · exact Or.inl (Or.inl h)
      · rcases ih h with h | h
        · exact Or.inl (Or.inr h)
        · exact Or.inr h

theorem mem_del_sub {κ ν : Type} [DecidableEq κ] (m : List (κ × ν)) (k : κ) (x : κ × ν)
    (h : x ∈ AL.del m k) : x ∈ m := by
  induction m with
  | nil => simp [AL.del] at h
  | cons e r ih =>
    obtain ⟨k', v'⟩ := e
    simp only [AL.del] at h
    split at h
    · exact List.mem_cons_of_mem _ (ih h)
    · simp only [List.mem_cons] at h ⊢
      rcases h with h | h
      · exact Or.inl h
      · exact Or.inr (ih h)

theorem linv_step (M : Machine σ π Out) (s : State σ Out) (op : Op π) (h : LInv s) : LInv (step M s op).1 := by
  obtain ⟨h1, h2⟩ := h
  rcases step_shape M s op with ⟨evs, he, hl, hr, _⟩ | hop | ⟨id, hop⟩
  · constructor
    · intro x hx
      rw [hl] at hx
      obtain ⟨l, hl', hx2⟩ := (mem_tell _ _ _).1 hx
      obtain ⟨n, hn, hdrop⟩ := h1 _ hl'
      refine ⟨n, by rw [he]; simp; omega, ?_⟩
      rw [he, hx2, List.drop_append_of_le_length hn]
      simp only at hdrop; rw [hdrop]
    · intro x hx
      rw [hr] at hx
      obtain ⟨n, m, hnm, hx2⟩ := h2 x hx
      refine ⟨n, m, by rw [he]; simp; omega, ?_⟩
      rw [he, List.drop_append_of_le_length (by omega), List.take_append_of_le_length (by simp; omega)]
      exact hx2
  · subst hop
    simp only [step]
    constructor
    · intro x hx
      rcases mem_set_cases _ _ _ _ hx with hx | hx
      · exact h1 x hx
      · subst hx; exact ⟨s.events.length, Nat.le_refl _, by simp⟩
    · exact h2
  · subst hop
    simp only [step]
    constructor
    · intro x hx; exact h1 x (mem_del_sub _ _ _ hx)
    · intro x hx
      cases hg : AL.get s.listeners id with
      | none => simp only [hg] at hx; exact h2 x hx
      | some l =>
        simp only [hg, List.mem_append, List.mem_singleton] at hx
        rcases hx with hx | hx
        · exact h2 x hx
        · subst hx
          obtain ⟨n, hn, hdrop⟩ := h1 _ (AL.mem_of_get _ _ _ hg)
          refine ⟨n, s.events.length - n, by show n + (s.events.length - n) ≤ s.events.length; omega, ?_⟩
          simp only at hdrop
          rw [hdrop, List.take_of_length_le (by simp)]

theorem linv_run (M : Machine σ π Out) (ops : List (Op π)) (s : State σ Out) (h : LInv s) : LInv (run M s ops) := by
  induction ops generalizing s with
  | nil => exact h
  | cons op r ih => exact ih _ (linv_step M s op h)

/-- a listener registered first thing and never removed has been told the whole log -/
def FromStart (s : State σ Out) : Prop := AL.get s.listeners 0 = some s.events ∧ s.listenersId ≥ 1

theorem fromStart_step (M : Machine σ π Out) (s : State σ Out) (op : Op π) (h : FromStart s)
    (hop : op ≠ .removeListener 0) : FromStart (step M s op).1 := by
  obtain ⟨h1, h2⟩ := h
  rcases step_shape M s op with ⟨evs, he, hl, _, hid⟩ | hadd | ⟨id, hrm⟩
  · refine ⟨?_, by rw [hid]; exact h2⟩
    rw [hl, he, get_tell, h1]; rfl
  · subst hadd
    simp only [step]
    refine ⟨?_, by simp only; omega⟩
    rw [AL.get_set]
    have : ¬ 0 = s.listenersId := by omega
    simp [this, h1]
  · subst hrm
    have hid : ¬ 0 = id := by intro h; subst h; exact hop rfl
    simp only [step]
    refine ⟨?_, h2⟩
    rw [AL.get_del]; simp [hid, h1]

theorem fromStart_run (M : Machine σ π Out) (ops : List (Op π)) (s : State σ Out) (h : FromStart s)
    (hops : ∀ op ∈ ops, op ≠ .removeListener 0) : FromStart (run M s ops) := by
  induction ops generalizing s with
  | nil => exact h
  | cons op r ih =>
    exact ih _ (fromStart_step M s op h (hops op (by simp))) (fun o ho => hops o (by simp [ho]))

end Flute.MultiRecv

namespace Flute.MultiRecv
variable {σ π Out : Type}

/-- both logs are append-only, and what the driver prints after an operation (`newEvents`, `newOuts`) is exactly
    what the operation appended -/
theorem step_logs_append (M : Machine σ π Out) (s : State σ Out) (op : Op π) :
    ∃ evs os, (step M s op).1.events = s.events ++ evs ∧ (step M s op).1.outs = s.outs ++ os ∧
      newEvents s (step M s op).1 = evs ∧ newOuts s (step M s op).1 = os := by
  have key : ∀ (s' : State σ Out) evs os, s'.events = s.events ++ evs → s'.outs = s.outs ++ os →
      ∃ evs os, s'.events = s.events ++ evs ∧ s'.outs = s.outs ++ os ∧ newEvents s s' = evs ∧ newOuts s s' = os := by
    intro s' evs os h1 h2
    exact ⟨evs, os, h1, h2, by simp [newEvents, h1], by simp [newOuts, h2]⟩
  cases op with
  | push ep p =>
    cases p with
    | none => exact key _ [] [] (by simp [step, push]) (by simp [step, push])
    | some pkt =>
      simp only [step, push]
      split
      · exact key _ [] [] (by simp) (by simp)
      · split
        · split
          · exact key _ _ _ rfl rfl
          · exact key _ [] [] (by simp) (by simp)
        · split
          · exact key _ [] _ (by simp) rfl
          · exact key _ _ _ rfl rfl
  | tick d => exact key _ [] [] (by simp [step]) (by simp [step])
  | cleanup i => exact key _ _ _ rfl (List.append_assoc _ _ _)
  | addListen ep tsi => simp only [step]; split <;> exact key _ [] [] (by simp) (by simp)
  | removeListen ep tsi => exact key _ [] [] (by simp [step]) (by simp [step])
  | addAll ep => simp only [step]; split <;> exact key _ [] [] (by simp) (by simp)
  | removeAll ep => exact key _ [] [] (by simp [step]) (by simp [step])
  | setFiltering b => exact key _ [] [] (by simp [step]) (by simp [step])
  | addListener => exact key _ [] [] (by simp [step]) (by simp [step])
  | removeListener id => exact key _ [] [] (by simp [step]) (by simp [step])
  | drop i => exact key _ _ _ rfl rfl

end Flute.MultiRecv
