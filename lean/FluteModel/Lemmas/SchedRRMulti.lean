import FluteModel.Lemmas.SchedPair
/-
  Round robin over consecutive calls: while a slot of a queue holds a due packet, at most `rrDist index j n < n`
  consecutive packets of the queue's peers are returned before it.
-/
namespace Flute.Sched

/-- the outputs of consecutive `read`s at one instant all satisfy `P` -/
def AllOut (P : Out → Prop) : State → Nat → List (List (Nat × Nat)) → Prop
  | _, _, [] => True
  | s, now, tk :: r => P (read s now tk).2 ∧ AllOut P (read s now tk).1 now r

theorem run_snoc_read (s : State) (ops : List Op) (now : Nat) (tk : List (Nat × Nat)) :
    run s (ops ++ [.read now tk]) = (read (run s ops) now tk).1 := by
  unfold run; rw [List.foldl_append]; rfl

theorem rr_multi (cfg : Cfg) (tbl : List Nat) (hsorted : (cfg.queues.map (fun x => x.1)).Pairwise (fun a b => a < b))
    (now : Nat) (post : List QSess) (j : Nat) (c : Cur) (prio n : Nat) :
    ∀ (tks : List (List (Nat × Nat))) (ops : List Op) (pre : List QSess) (q : QSess) (f : FileDesc),
    (run (init cfg tbl) ops).sessions = pre ++ q :: post → q.prio = prio → q.slots.length = n →
    q.slots[j]? = some (some c) → getF (run (init cfg tbl) ops).objs c.key = some f →
    gateBlocked f now = false → c.enc.stopped = false → c.enc.sent < f.nPk →
    AllOut (fun o => ∃ t i b, o = Out.pkt prio t i b ∧ t ≠ c.key) (run (init cfg tbl) ops) now tks →
    tks.length ≤ rrDist q.index j n := by
  intro tks
  induction tks with
  | nil => intro _ _ _ _ _ _ _ _ _ _ _ _ _; exact Nat.zero_le _
  | cons tk rest ih =>
    intro ops pre q f hsess hp hn hjs hf hg hs hlt hall
    obtain ⟨⟨t, i, b, hout, hne⟩, hrest⟩ := hall
    have hr := read_rr cfg tbl ops pre post q j c f now tk hsess hjs hf hg hs hlt prio t i b hout
    rcases hr with hpre | ⟨_, hstep⟩
    · exfalso
      obtain ⟨q0, hq0, e⟩ := List.mem_map.mp hpre
      exact prio_ne_of_sorted cfg tbl ops pre post q hsorted hsess q0 hq0 (by rw [e, hp])
    · rcases hstep with h1 | ⟨_, pre', q', e1, _, e3, e4, e5, e6, f', e7, e8, e9⟩
      · exact absurd h1 hne
      · have hnpk : f'.nPk = f.nPk := by unfold FileDesc.nPk; rw [e9]
        have := ih (ops ++ [.read now tk]) pre' q' f'
          (by rw [run_snoc_read]; exact e1) (by rw [e3, hp]) (by rw [e4, hn])
          e6 (by rw [run_snoc_read]; exact e7) (by rw [gateBlocked_congr e8]; exact hg) hs
          (by rw [hnpk]; exact hlt) (by rw [run_snoc_read]; exact hrest)
        show rest.length + 1 ≤ _
        rw [hn] at e5
        omega

end Flute.Sched
