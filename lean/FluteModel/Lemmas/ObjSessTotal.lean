import FluteModel.ObjSess
import FluteModel.Lemmas.ObjRecvPanicFree
/-
  Session level of the panic freedom and hang freedom of the object machine (C04 at the `ObjSess` shell, used by C03's session theorem): the
  invariant `TInv` holds for EVERY object the session shell ever creates, so `Sess.run` never leaves `.ok` - no hypothesis on the
  outcome of the run.  Input-side hypotheses only: the decompressor contract for the parameters of every object (`DzOK`), the
  allocation limit below 2^63, well-formed packets (`WfPkt`) and FDT entries (`WfFile`).
-/
namespace Flute.ObjSess
open Flute Flute.FecDec Flute.ObjRecv

/-- every File entry of the instance announces values in range (`WfFile`) -/
def FdtWf (f : Fdt) : Prop := ∀ te ∈ f.files, WfFile te.2

def SWfOp : SOp → Prop
  | .pkt p => WfPkt p
  | .fdt f => FdtWf f
  | .cleanup => True
  | .dropAll => True

structure TSInv (S : Sess) : Prop where
  objs : ∀ o ∈ S.objects, TInv o.st
  fdts : ∀ f ∈ S.fdts, FdtWf f
  max : S.cfg.maxSize < 2^63

variable {PP : SParams}

theorem wf_attach_of_fdt (f : Fdt) (hf : FdtWf f) (toi : Nat) :
    WfOp (.attach f.id ((f.files.find? (·.1 == toi)).map (·.2))) := by
  cases hfind : f.files.find? (·.1 == toi) with
  | none => simp [WfOp]
  | some te =>
    simp only [Option.map, WfOp]
    exact hf te (List.mem_of_find?_eq_some hfind)

theorem attachFirst_total (P : Params) (D : DzOK P) (fdts : List Fdt) (hf : ∀ f ∈ fdts, FdtWf f) :
    ∀ {st : St}, TInv st → ∃ st', attachFirst P fdts st = .ok st' ∧ TInv st' := by
  induction fdts with
  | nil => intro st h; exact ⟨st, rfl, h⟩
  | cons f r ih =>
    intro st h
    unfold attachFirst
    obtain ⟨st1, b, h1, hT1⟩ := tinv_attachFdt P D h f.id ((f.files.find? (·.1 == st.toi)).map (·.2))
      (wf_attach_of_fdt f (hf f (List.mem_cons_self ..)) st.toi)
    rw [h1]
    cases b with
    | true => exact ⟨st1, rfl, hT1⟩
    | false => exact ih (fun g hg => hf g (List.mem_cons_of_mem _ hg)) hT1

theorem ts_flush {S : Sess} (o : Obj) (hS : TSInv S) : TSInv (S.flush o).1 ∧ (S.flush o).2.st = o.st := by
  unfold Sess.flush
  dsimp only
  split
  · exact ⟨hS, rfl⟩
  · exact ⟨⟨hS.objs, hS.fdts, hS.max⟩, rfl⟩

theorem ts_putObj {S : Sess} {o : Obj} (hS : TSInv S) (ho : TInv o.st) : TSInv (S.putObj o) := by
  refine ⟨?_, hS.fdts, hS.max⟩
  intro x hx
  simp only [Sess.putObj, List.mem_cons, List.mem_filter] at hx
  cases hx with
  | inl h => subst h; exact ho
  | inr h => exact hS.objs x h.1

theorem ts_removeObj {S : Sess} (toi : Nat) (hS : TSInv S) : TSInv (S.removeObj toi) := by
  unfold Sess.removeObj
  split
  · exact hS
  · rename_i o hfind
    have hfl := (ts_flush { o with st := drop o.st } hS).1
    dsimp only
    refine ⟨?_, hfl.fdts, hfl.max⟩
    intro x hx
    simp only [List.mem_filter] at hx
    exact hfl.objs x hx.1

theorem ts_checkObjectState {S : Sess} (toi : Nat) (hS : TSInv S) : TSInv (S.checkObjectState toi) := by
  unfold Sess.checkObjectState
  split
  · exact hS
  · split
    · exact hS
    · dsimp only
      apply ts_removeObj
      split
      · exact hS
      · exact ⟨hS.objs, hS.fdts, hS.max⟩
    · dsimp only
      apply ts_removeObj
      exact ⟨hS.objs, hS.fdts, hS.max⟩

theorem mkObj_total (D : ∀ toi base, DzOK (PP.forObj toi base)) {S : Sess} (toi : Nat) (hS : TSInv S) :
    ∃ o, S.mkObj PP toi = .ok o ∧ TInv o.st := by
  unfold Sess.mkObj
  split
  · rename_i o' hfind
    exact ⟨o', rfl, hS.objs _ (List.mem_of_find?_eq_some hfind)⟩
  · dsimp only
    obtain ⟨st, h1, hT⟩ := attachFirst_total (PP.forObj toi (callsOf S toi)) (D _ _) S.fdts hS.fdts (tinv_new toi _ hS.max)
    rw [h1]
    exact ⟨_, rfl, hT⟩

theorem pushCore_total (D : ∀ toi base, DzOK (PP.forObj toi base)) {S : Sess} (p : Pkt) (hp : WfPkt p) (hS : TSInv S) :
    ∃ S', S.pushCore PP p = .ok S' ∧ TSInv S' := by
  unfold Sess.pushCore
  obtain ⟨o, h1, hT⟩ := mkObj_total D p.toi hS
  rw [h1]
  dsimp only
  obtain ⟨st, h2, hT2⟩ := tinv_push (PP.forObj o.toi o.base) (D _ _) hT p hp
  rw [h2]
  dsimp only
  obtain ⟨f1, f2⟩ := ts_flush { o with st := st } hS
  exact ⟨_, rfl, ts_checkObjectState _ (ts_putObj f1 (by rw [f2]; exact hT2))⟩

theorem gate_total {p : Pkt} {b : Bool} {S : Sess} {rm : Sess → Sess} {k : Sess → Rx Sess}
    (hrm : ∀ S, TSInv S → TSInv (rm S)) (hk : ∀ S, TSInv S → ∃ S', k S = .ok S' ∧ TSInv S') (hS : TSInv S) :
    ∃ S', gate p b S rm k = .ok S' ∧ TSInv S' := by
  unfold gate
  split
  · exact hk _ hS
  · split
    · exact ⟨S, rfl, hS⟩
    · split
      · exact hk _ (hrm _ hS)
      · exact ⟨S, rfl, hS⟩

theorem pushObj_total (D : ∀ toi base, DzOK (PP.forObj toi base)) {S : Sess} (p : Pkt) (hp : WfPkt p) (hS : TSInv S) :
    ∃ S', S.pushObj PP p = .ok S' ∧ TSInv S' := by
  unfold Sess.pushObj
  split
  · exact ⟨S, rfl, hS⟩
  · refine gate_total (fun S hS => ⟨hS.objs, hS.fdts, hS.max⟩) ?_ hS
    intro S1 hS1
    refine gate_total (fun S hS => ⟨hS.objs, hS.fdts, hS.max⟩) ?_ hS1
    intro S3 hS3
    exact pushCore_total D p hp hS3

theorem go_total (D : ∀ toi base, DzOK (PP.forObj toi base)) (f : Fdt) (hf : FdtWf f) :
    ∀ (objs : List Obj) {S : Sess}, (∀ o ∈ objs, TInv o.st) → TSInv S →
      ∃ S', Sess.fdtComplete.go PP f objs S = .ok S' ∧ TSInv S' := by
  intro objs
  induction objs with
  | nil => intro S _ hS; exact ⟨S, rfl, hS⟩
  | cons o r ih =>
    intro S ho hS
    unfold Sess.fdtComplete.go
    obtain ⟨st, ok, h1, hT⟩ := tinv_attachFdt (PP.forObj o.toi o.base) (D _ _) (ho o (List.mem_cons_self ..)) f.id
      ((f.files.find? (·.1 == o.toi)).map (·.2)) (wf_attach_of_fdt f hf o.toi)
    rw [h1]
    dsimp only
    obtain ⟨f1, f2⟩ := ts_flush { o with st := st } hS
    have h3 := ts_putObj f1 (by rw [f2]; exact hT)
    apply ih (fun x hx => ho x (List.mem_cons_of_mem _ hx))
    split
    · exact ts_checkObjectState _ h3
    · exact h3

theorem fdtComplete_total (D : ∀ toi base, DzOK (PP.forObj toi base)) {S : Sess} (f : Fdt) (hf : FdtWf f) (hS : TSInv S) :
    ∃ S', S.fdtComplete PP f = .ok S' ∧ TSInv S' := by
  unfold Sess.fdtComplete
  dsimp only
  have hS0 : TSInv { S with fdts := f :: S.fdts } := by
    refine ⟨hS.objs, ?_, hS.max⟩
    intro g hg
    simp only [List.mem_cons] at hg
    cases hg with
    | inl e => subst e; exact hf
    | inr e => exact hS.fdts g e
  obtain ⟨S1, h1, hT1⟩ := go_total D f hf S.objects hS.objs hS0
  rw [h1]
  dsimp only
  refine ⟨_, rfl, ?_, ?_, ?_⟩
  · intro o ho; split at ho <;> exact hT1.objs o ho
  · intro g hg
    have : g ∈ S1.fdts := by
      split at hg
      · exact List.mem_of_mem_take hg
      · exact List.mem_of_mem_take hg
    exact hT1.fdts g this
  · split <;> exact hT1.max

theorem ts_foldl (g : Sess → Obj → Sess) (hg : ∀ S o, TSInv S → TSInv (g S o)) :
    ∀ (l : List Obj) (S : Sess), TSInv S → TSInv (l.foldl g S) := by
  intro l
  induction l with
  | nil => intro S h; exact h
  | cons o r ih => intro S h; exact ih _ (hg _ _ h)

theorem ts_dropAll {S : Sess} (hS : TSInv S) : TSInv S.dropAll :=
  ts_foldl _ (fun _ o h => ts_removeObj o.toi h) _ _ hS

theorem ts_cleanupAll {S : Sess} (hS : TSInv S) : TSInv S.cleanupAll := by
  unfold Sess.cleanupAll
  apply ts_foldl _ _ _ _ hS
  intro S o h
  exact ts_removeObj o.toi ⟨h.objs, h.fdts, h.max⟩

/-- **the session never panics / hangs**: `Sess.run` returns, whatever the packets and FDT instances (in range) are -/
theorem sess_run_total (D : ∀ toi base, DzOK (PP.forObj toi base)) (ops : List SOp) :
    ∀ {S : Sess}, (∀ op ∈ ops, SWfOp op) → TSInv S → ∃ S', Sess.run PP S ops = .ok S' ∧ TSInv S' := by
  induction ops with
  | nil => intro S _ hS; exact ⟨S, rfl, hS⟩
  | cons op r ih =>
    intro S hops hS
    unfold Sess.run
    have hop := hops op (List.mem_cons_self ..)
    have hstep : ∃ S1, S.step PP op = .ok S1 ∧ TSInv S1 := by
      cases op with
      | pkt p => exact pushObj_total D p hop hS
      | fdt f => exact fdtComplete_total D f hop hS
      | cleanup => exact ⟨_, rfl, ts_cleanupAll hS⟩
      | dropAll => exact ⟨_, rfl, ts_dropAll hS⟩
    obtain ⟨S1, h1, hT1⟩ := hstep
    rw [h1]
    exact ih (fun x hx => hops x (List.mem_cons_of_mem _ hx)) hT1

end Flute.ObjSess
