import FluteModel.Lemmas.BencShape
/-
  Byte accounting: `source_size_transferred` plus `E` bytes for every source symbol still pending in an open
  block never exceeds the bytes of the blocks cut so far.  Hence `source_size_transferred ≥ L` implies that
  every block of the object has been cut (what the repaired B-flag decision relies on).
-/
namespace Flute.BencPsi
open Flute Flute.Fec Flute.BlockEnc Flute.BencArith Flute.BencBlocks Flute.BencInv Flute.BencLoop Flute.BencTrace Flute.BencShape

/-- every source symbol the codec cuts has at most `e` bytes -/
def SymLe (cd : Codec) : Prop := ∀ e d x, 0 < e → x ∈ cd.split e d → x.length ≤ e

def pend (e : Nat) (b : Block) : Nat := (b.nbSource - b.readIndex) * e
def psum (e : Nat) (l : List Block) : Nat := (l.map (pend e)).sum

theorem psum_set (e : Nat) : ∀ (l : List Block) (i : Nat) (x y : Block), l[i]? = some x →
    psum e (l.set i y) + pend e x = psum e l + pend e y := by
  intro l
  induction l with
  | nil => intro i x y h; simp at h
  | cons a t ih =>
    intro i x y h
    cases i with
    | zero =>
      simp only [List.getElem?_cons_zero, Option.some.injEq] at h; subst h
      simp [psum]; omega
    | succ i =>
      simp only [List.getElem?_cons_succ] at h
      have := ih i x y h
      simp only [psum, List.set_cons_succ, List.map_cons, List.sum_cons] at this ⊢
      omega

theorem psum_erase (e : Nat) : ∀ (l : List Block) (i : Nat) (x : Block), l[i]? = some x →
    psum e (l.eraseIdx i) + pend e x = psum e l := by
  intro l
  induction l with
  | nil => intro i x h; simp at h
  | cons a t ih =>
    intro i x h
    cases i with
    | zero =>
      simp only [List.getElem?_cons_zero, Option.some.injEq] at h; subst h
      simp [psum]; omega
    | succ i =>
      simp only [List.getElem?_cons_succ] at h
      have := ih i x h
      simp only [psum, List.eraseIdx_cons_succ, List.map_cons, List.sum_cons] at this ⊢
      omega

variable {P : Params} {c : Bytes} {aL aS nL n : Nat}

def Psi (P : Params) (aL aS nL : Nat) (s : Enc) : Prop :=
  s.srcSent + psum P.e s.blocks ≤ cum aL aS nL s.sbn * P.e

theorem psi_readWindowAux (hS : Setup P c aL aS nL n) (hA : Accepts P c aL aS nL n) (tr : List Pkt) :
    ∀ (m : Nat) (s : Enc), Inv P c aL aS nL n s → TInv P c aL aS nL tr s → Psi P aL aS nL s →
      Psi P aL aS nL (readWindowAux P m s) := by
  intro m
  induction m with
  | zero => intro s _ _ h; exact h
  | succ m ih =>
    intro s hI hT hP
    by_cases hre : s.readEnd = true
    · rw [rwa_succ_end hre]; exact hP
    · have hre' : s.readEnd = false := by simpa using hre
      by_cases hw : s.blocks.length < P.window
      · rw [rwa_succ_cut hre' hw]
        obtain ⟨b0, hb0, heq⟩ := readBlock_eq hS hA hI hre'
        rw [heq]
        obtain ⟨hI', hT'⟩ := inv_cut hS hI hT hre' hw hb0
        apply ih _ hI' hT'
        have hlt : s.sbn < n := by
          have := hI.sbn_le
          have h2 : ¬ s.sbn = n := fun h => by have := hI.readEnd_iff.mpr h; simp [hre'] at this
          omega
        have hns := (blockAt_shape hS hlt hb0).1
        have hr0 := (blockAt_fields hb0).2
        unfold Psi at hP ⊢
        show s.srcSent + psum P.e (s.blocks ++ [b0]) ≤ cum aL aS nL (s.sbn + 1) * P.e
        rw [cum_succ, Nat.add_mul]
        have : psum P.e (s.blocks ++ [b0]) = psum P.e s.blocks + A aL aS nL s.sbn * P.e := by
          simp [psum, pend, hns, hr0]
        omega
      · rw [rwa_succ_full hre' hw]; exact hP

/-- the loop preserves the byte accounting -/
theorem readLoop_psi (hS : Setup P c aL aS nL n) (hA : Accepts P c aL aS nL n) (hle : SymLe P.codec)
    (force : Bool) (tr : List Pkt) :
    ∀ (fuel : Nat) (s : Enc), Inv P c aL aS nL n s → TInv P c aL aS nL tr s → Psi P aL aS nL s →
      match readLoop P force fuel s with
      | (.pkt _, s') => Psi P aL aS nL s'
      | (.none, s') => Psi P aL aS nL s'
      | _ => True := by
  intro fuel
  induction fuel with
  | zero => intro s _ _ _; simp [readLoop]
  | succ fuel ih =>
    intro s hI hT hP
    obtain ⟨hI1, hT1, _⟩ := inv_readWindowAux hS hA tr P.window s hI hT
    have hP1 := psi_readWindowAux hS hA tr P.window s hI hT hP
    unfold readLoop
    simp only
    generalize hs1 : readWindow P s = s1
    have hs1' : readWindowAux P P.window s = s1 := hs1
    rw [hs1'] at hI1 hT1 hP1
    by_cases hemp : s1.blocks.isEmpty = true
    · simp only [hemp, if_true]
      have hlen0 : P.len ≠ 0 := by have := hS.l_pos; omega
      by_cases hn0 : s1.nbPkt = 0
      · simp only [hn0, if_true]; rw [if_pos hlen0]; exact hP1
      · simp only [hn0, if_false]; exact hP1
    · simp only [hemp, Bool.false_eq_true, if_false]
      have hne : s1.blocks ≠ [] := fun h => hemp (List.isEmpty_iff.mpr h)
      have hlen : 0 < s1.blocks.length := List.length_pos_iff.mpr hne
      generalize hidx' : (if s1.idx ≥ s1.blocks.length then 0 else s1.idx) = idx
      have hidxlt : idx < s1.blocks.length := by rw [← hidx']; split <;> omega
      have hget : s1.blocks[idx]? = some s1.blocks[idx] := List.getElem?_eq_getElem hidxlt
      generalize s1.blocks[idx] = blk at hget
      rw [hget]
      simp only
      have hblk : blk ∈ s1.blocks := List.mem_iff_getElem?.mpr ⟨idx, hget⟩
      unfold Block.read
      cases hsh : blk.shards[blk.readIndex]? with
      | none =>
        simp only
        have hdr : blk.readIndex = blk.shards.length := by
          have h1 := (hI1.blocks_ok blk hblk).2.2
          have h2 := List.getElem?_eq_none_iff.mp hsh
          omega
        obtain ⟨hI2, hT2⟩ := inv_erase hI1 hT1 hget hdr
        apply ih _ hI2 hT2
        have := psum_erase P.e s1.blocks idx blk hget
        unfold Psi at hP1 ⊢
        show s1.srcSent + psum P.e (s1.blocks.eraseIdx idx) ≤ cum aL aS nL s1.sbn * P.e
        omega
      | some sh =>
        simp only
        -- the shard read is shard number `readIndex` of the genuine block: its ESI is `readIndex`
        obtain ⟨hlt, hok, _⟩ := hI1.blocks_ok blk hblk
        have hltn : blk.sbn < n := by have := hI1.sbn_le; omega
        obtain ⟨hns, henc⟩ := blockAt_shape hS hltn hok
        simp only at hns henc
        obtain ⟨r, _, hlen2, hesi, hsrc⟩ := encode_shape _ _ _ _ _ hS.e_pos henc
        have hri : blk.readIndex < blk.shards.length := (List.getElem?_eq_some_iff.mp hsh).1
        obtain ⟨s', hs', hes'⟩ := hesi _ hri
        rw [hsh] at hs'; cases hs'
        have hK := bufAt_nsym hS hltn (c := c)
        have := psum_set P.e s1.blocks idx blk { blk with readIndex := blk.readIndex + 1 } hget
        unfold Psi at hP1 ⊢
        show (if decide (sh.esi < blk.nbSource) = true then s1.srcSent + sh.data.length else s1.srcSent) +
          psum P.e (s1.blocks.set idx { blk with readIndex := blk.readIndex + 1 }) ≤ cum aL aS nL s1.sbn * P.e
        by_cases hsrcsym : sh.esi < blk.nbSource
        · simp only [hsrcsym, decide_true, if_true]
          -- a source symbol: at most `e` bytes, one pending symbol less
          obtain ⟨s2, hs2, hd2⟩ := hsrc blk.readIndex (by rw [hK, ← hns, ← hes']; exact hsrcsym)
          rw [hsh] at hs2; cases hs2
          have hlen3 : sh.data.length ≤ P.e := hle P.e _ _ hS.e_pos (List.mem_of_getElem? hd2)
          have hp1 : pend P.e blk = pend P.e { blk with readIndex := blk.readIndex + 1 } + P.e := by
            unfold pend
            simp only
            have : blk.nbSource - blk.readIndex = (blk.nbSource - (blk.readIndex + 1)) + 1 := by omega
            rw [this, Nat.add_mul]; omega
          omega
        · simp only [hsrcsym, decide_false, Bool.false_eq_true, if_false]
          have hp1 : pend P.e { blk with readIndex := blk.readIndex + 1 } ≤ pend P.e blk := by
            unfold pend; simp only
            exact Nat.mul_le_mul_right _ (by omega)
          omega

/-- the byte accounting holds in every state a run reaches -/
theorem reach_psi (hS : Setup P c aL aS nL n) (hA : Accepts P c aL aS nL n) (hle : SymLe P.codec)
    {s0 s : Enc} {tr : List (Bool × Pkt)}
    (hI0 : Inv P c aL aS nL n s0) (hT0 : TInv P c aL aS nL [] s0) (hst0 : s0.stopped = false)
    (hP0 : Psi P aL aS nL s0) (hr : Reads P s0 tr s) : Psi P aL aS nL s := by
  induction hr with
  | nil => exact hP0
  | @snoc s s' tr f p hr' hstep ih =>
    obtain ⟨hI, hT, _, _⟩ := reach hS hA hI0 hT0 hst0 hr'
    unfold BlockEnc.read at hstep
    split at hstep
    · cases hstep
    · cases f with
      | true =>
        simp only [if_true] at hstep
        have := readLoop_psi hS hA hle true (pkts tr) (readFuel P { s with stopped := true }) { s with stopped := true }
          (inv_stopped true hI) (tinv_stopped true hT) (show Psi P aL aS nL { s with stopped := true } from ih)
        rw [hstep] at this; exact this
      | false =>
        simp only [Bool.false_eq_true, if_false] at hstep
        have := readLoop_psi hS hA hle false (pkts tr) (readFuel P s) s hI hT ih
        rw [hstep] at this; exact this

theorem run_psi {closable : Bool} {tr : List (Bool × Pkt)} {s : Enc}
    (h : Run P c aL aS nL n closable tr s) (hle : SymLe P.codec) : Psi P aL aS nL s := by
  obtain ⟨s0, hnew, hr⟩ := h.reads
  have hs0 := new_state h.part hnew
  obtain ⟨hI0, hT0⟩ := inv_init h.setup closable
  rw [← hs0] at hI0 hT0
  refine reach_psi h.setup h.accepts hle hI0 hT0 (by rw [hs0]) ?_ hr
  rw [hs0]; simp [Psi, psum, cum_zero]

/-- all source bytes counted as sent ⇒ every block of the object has been cut -/
theorem all_cut_of_srcSent {closable : Bool} {tr : List (Bool × Pkt)} {s : Enc}
    (h : Run P c aL aS nL n closable tr s) (hle : SymLe P.codec) (hs : P.len ≤ s.srcSent) :
    s.sbn = n ∧ s.readEnd = true := by
  have hP := run_psi h hle
  obtain ⟨hI, _, _, _⟩ := h.inv
  have hsbn : s.sbn = n := by
    by_cases hlt : s.sbn < n
    · have := cum_lt_of_lt h.setup.good h.setup.e_pos h.setup.l_pos s.sbn hlt
      unfold Psi at hP
      omega
    · have := hI.sbn_le; omega
  exact ⟨hsbn, hI.readEnd_iff.mpr hsbn⟩

theorem noCode_symLe : SymLe noCode := by
  intro e d x _ hx
  simp only [noCode, chunks, List.mem_map] at hx
  obtain ⟨i, _, rfl⟩ := hx
  simp [chunkAt]; omega

theorem padded_symLe (e : Nat) (d x : Bytes) (hx : x ∈ chunksPadded e d) : x.length ≤ e := by
  simp only [chunksPadded, chunks, List.mem_map] at hx
  obtain ⟨y, ⟨i, _, rfl⟩, rfl⟩ := hx
  simp [padTo, chunkAt]; omega

theorem reedSolomon_symLe (rep) : SymLe (reedSolomon rep) := fun e d x _ hx => padded_symLe e d x hx
theorem raptorQ_symLe (rep) : SymLe (raptorQ rep) := fun e d x _ hx => padded_symLe e d x hx

theorem cutSizes_mem : ∀ (sizes : List Nat) (d x : Bytes), x ∈ cutSizes sizes d → ∃ sz, sz ∈ sizes ∧ x.length ≤ sz := by
  intro sizes
  induction sizes with
  | nil => intro d x h; simp [cutSizes] at h
  | cons a t ih =>
    intro d x h
    simp only [cutSizes, List.mem_cons] at h
    rcases h with h | h
    · subst h; exact ⟨a, by simp, by simp; omega⟩
    · obtain ⟨sz, h1, h2⟩ := ih _ x h
      exact ⟨sz, by simp [h1], h2⟩

theorem divCeil_divCeil_le (m e : Nat) (he : 0 < e) : divCeil m (divCeil m e) ≤ e := by
  by_cases hk : divCeil m e = 0
  · have hm : m = 0 := by
      by_cases h : 0 < m
      · have := divCeil_pos m e h he; omega
      · omega
    subst hm; simp [divCeil]
  · have hkpos : 0 < divCeil m e := Nat.pos_of_ne_zero hk
    have hge := divCeil_mul_ge m e he
    generalize divCeil m e = k at *
    have hdm := Nat.div_add_mod m k
    have hml := Nat.mod_lt m hkpos
    have hdc : divCeil m k = if m % k = 0 then m / k else m / k + 1 := rfl
    rw [hdc]
    generalize m / k = q at *
    generalize m % k = r at *
    have hc : k * e = e * k := Nat.mul_comm _ _
    by_cases hr : r = 0
    · simp only [hr, if_true]
      exact Nat.le_of_mul_le_mul_left (by omega : k * q ≤ k * e) hkpos
    · simp only [hr, if_false]
      have : q < e := Nat.lt_of_mul_lt_mul_left (a := k) (by omega)
      omega

/-- Raptor as it is today: the semi-equal pieces have at most `e` bytes too -/
theorem raptorLegacy_symLe (rep) : SymLe (raptorLegacy rep) := by
  intro e d x he hx
  simp only [raptorLegacy] at hx
  obtain ⟨sz, h1, h2⟩ := cutSizes_mem _ _ _ hx
  have hle := divCeil_divCeil_le d.length e he
  simp only [raptorPieces, List.mem_append, List.mem_replicate] at h1
  rcases h1 with ⟨_, h⟩ | ⟨_, h⟩
  · omega
  · have : ∀ a b : Nat, a / b ≤ divCeil a b := by
      intro a b; unfold divCeil; split
      · exact Nat.le_refl _
      · exact Nat.le_succ _
    have := this d.length (divCeil d.length e)
    omega

end Flute.BencPsi
