import FluteModel.Lemmas.SchedCount
/-
  The boundary of the polling hypothesis: a `read` at an instant where the current FDT instance has (nearly) expired
  returns a packet of a fresh FDT instance - never an object packet.  One call per instant with instants
  `fdt_duration` apart therefore starves the objects (reviewer's finding); `fdt_duration = 0` is the extreme case
  (F24).
-/
namespace Flute.Sched

/-- the expiry test of `current_fdt_will_expire` on the time since the last publication -/
def Expired (cfg : Cfg) (lastPublish : Option Nat) (now : Nat) : Prop :=
  ∀ lp, lastPublish = some lp → lp ≠ now ∧
    (if cfg.fdtDuration > 30000000000 then decide (cfg.fdtDuration - 5000000000 < now - lp)
     else if cfg.fdtDuration > 10000000000 then decide (cfg.fdtDuration - 1000000000 < now - lp)
     else decide (cfg.fdtDuration ≤ now - lp)) = true

theorem willExpire_of_expired {s : State} (now : Nat) (h : Expired s.cfg s.lastPublish now) (hq : s.fdtQueue = []) :
    currentFdtWillExpire s now = true := by
  unfold currentFdtWillExpire
  rw [hq]
  simp only [List.isEmpty_nil, Bool.not_true, Bool.false_eq_true, if_false]
  split
  · rename_i k lp hk hlp; rw [if_neg (h lp hlp).1]; exact (h lp hlp).2
  · rfl

theorem transferDoneFdt_lastPublish (s : State) (k now : Nat) : (transferDoneFdt s k now).lastPublish = s.lastPublish := by
  unfold transferDoneFdt; simp only []; split
  · split <;> rfl
  · rfl

theorem runFdt_expired {s : State} {L : Held} (fuel now : Nat) (hw : Wf s L)
    (hexp : Expired s.cfg s.lastPublish now) (hfit : s.cfg.fdtFits = true) :
    ∃ k id i, (runFdt (fuel + 2) s now).2 = Out.fdt k id i := by
  have idle : ∀ (s1 : State) (L1 : Held) (fuel1 : Nat), Wf s1 L1 → Expired s1.cfg s1.lastPublish now →
      s1.cfg.fdtFits = true → s1.fdtSess = none → ∃ k id i, (runFdt (fuel1 + 1) s1 now).2 = Out.fdt k id i := by
    intro s1 L1 fuel1 hw1 h01 hfit1 hs1
    by_cases hq : s1.fdtQueue = []
    · have hbusy : fdtBusy s1 = false := hw1.fdtSessNone hs1
      have hmp : fdtMaybePublish s1 now = publish s1 now := by
        unfold fdtMaybePublish publishTry
        rw [willExpire_of_expired now h01 hq, hfit1]; simp
      have hw2 : Wf (publish s1 now) L1 := Wf.publish now hw1
      have hq2 : (publish s1 now).fdtQueue ≠ [] := by rw [publish_fdtQueue]; simp
      have hs2 : (publish s1 now).fdtSess = none := hs1
      obtain ⟨k, id, i, he⟩ := runFdt_emits_pending fuel1 now hw2 hs2 hq2
      refine ⟨k, id, i, ?_⟩
      unfold runFdt at he ⊢
      simp only [hs1, hs2] at he ⊢
      have e1 : fdtGetNext s1 now = fdtAdvance (publish s1 now) now := by
        unfold fdtGetNext; rw [hbusy, hmp]; simp
      have hbusy2 : fdtBusy (publish s1 now) = false := hw2.fdtSessNone hs2
      have hmp2 : fdtMaybePublish (publish s1 now) now = publish s1 now := by
        unfold fdtMaybePublish currentFdtWillExpire
        cases hql : (publish s1 now).fdtQueue with
        | nil => exact absurd hql hq2
        | cons a r => simp
      have e2 : fdtGetNext (publish s1 now) now = fdtAdvance (publish s1 now) now := by
        unfold fdtGetNext; rw [hbusy2, hmp2]; simp
      rw [e1]; rw [e2] at he; exact he
    · exact runFdt_emits_pending fuel1 now hw1 hs1 hq
  cases hs : s.fdtSess with
  | none => exact idle s L (fuel + 1) hw hexp hfit hs
  | some c =>
    obtain ⟨hcur, hst, f, hf, _, hle⟩ := hw.fdtSessSome c hs
    have hsh := (hw.fdtKeys f (getF_mem hf)).2
    unfold runFdt
    simp only [hs, hf, gate_of_shape hsh now, Bool.false_eq_true, if_false]
    rw [encRead_eq]
    have hst' : ¬ c.enc.stopped = true := by rw [hst]; simp
    rw [if_neg hst']
    by_cases hlt : c.enc.sent < (if f.nSym = 0 then 1 else f.nSym)
    · rw [if_pos hlt]; exact ⟨_, _, _, rfl⟩
    · rw [if_neg hlt]
      simp only []
      have hw2 : Wf (fdtRelease s c.key now) L := Wf.fdtDone now hw (by
        cases hqq : s.quiet with
        | false => rfl
        | true => have := hw.quiet hqq; rw [hs] at this; cases this) hs hf
      have h02 : Expired (fdtRelease s c.key now).cfg (fdtRelease s c.key now).lastPublish now := by
        unfold fdtRelease
        show Expired (transferDoneFdt s c.key now).cfg (transferDoneFdt s c.key now).lastPublish now
        rw [transferDoneFdt_cfg, transferDoneFdt_lastPublish]; exact hexp
      have hfit2 : (fdtRelease s c.key now).cfg.fdtFits = true := by
        unfold fdtRelease; show (transferDoneFdt s c.key now).cfg.fdtFits = true; rw [transferDoneFdt_cfg]; exact hfit
      exact idle _ L fuel hw2 h02 hfit2 rfl

/-- in every reachable state: a poll at an instant where the expiry test of the FDT holds returns an FDT packet -/
theorem read_expired (cfg : Cfg) (tbl : List Nat) (ops : List Op) (hfit : cfg.fdtFits = true) (now : Nat)
    (ticks : List (Nat × Nat)) (hexp : Expired cfg (run (init cfg tbl) ops).lastPublish now) :
    ∃ k id i, (read (run (init cfg tbl) ops) now ticks).2 = Out.fdt k id i := by
  have hw := wf_run cfg tbl ops
  have hc := (const_run cfg tbl ops).2
  generalize run (init cfg tbl) ops = s at hw hc hexp
  have hw0 : Wf (emit s (.opRead now)) (heldOf s) := Wf.emit _ hw
  have e : runFuel = 2 + 2 := rfl
  obtain ⟨k, id, i, he⟩ := runFdt_expired 2 now hw0 (by show Expired s.cfg s.lastPublish now; rw [hc]; exact hexp)
    (by show s.cfg.fdtFits = true; rw [hc]; exact hfit)
  unfold read
  rw [e]
  generalize runFdt (2 + 2) (emit s (.opRead now)) now = r at he
  obtain ⟨s1, o⟩ := r
  simp only [] at he
  subst he
  exact ⟨k, id, i, rfl⟩

/-- in every reachable state: while the FDT session holds an unfinished transfer, a poll returns its next packet -/
theorem read_fdt_busy (cfg : Cfg) (tbl : List Nat) (ops : List Op) (now : Nat) (ticks : List (Nat × Nat))
    (c : Cur) (f : FileDesc) (hs : (run (init cfg tbl) ops).fdtSess = some c)
    (hf : getF (run (init cfg tbl) ops).fdts c.key = some f) (hlt : c.enc.sent < f.nPk) :
    ∃ k id i, (read (run (init cfg tbl) ops) now ticks).2 = Out.fdt k id i := by
  have hw := wf_run cfg tbl ops
  generalize run (init cfg tbl) ops = s at hw hs hf
  obtain ⟨_, hst, f0, hf0, _, _⟩ := hw.fdtSessSome c hs
  rw [hf] at hf0; cases hf0
  have hsh := (hw.fdtKeys f (getF_mem hf)).2
  unfold read
  have e : runFuel = 3 + 1 := rfl
  rw [e]
  have hs' : (emit s (.opRead now)).fdtSess = some c := hs
  have hf' : getF (emit s (.opRead now)).fdts c.key = some f := hf
  unfold runFdt
  simp only [hs', hf', gate_of_shape hsh now, Bool.false_eq_true, if_false]
  rw [encRead_eq]
  have hst' : ¬ c.enc.stopped = true := by rw [hst]; simp
  have hlt' : c.enc.sent < (if f.nSym = 0 then 1 else f.nSym) := hlt
  rw [if_neg hst', if_pos hlt']
  exact ⟨_, _, _, rfl⟩

end Flute.Sched
