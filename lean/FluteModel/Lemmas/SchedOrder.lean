import FluteModel.Lemmas.SchedExpire
/-
  FIFO including requeue: the relative order of two waiting objects is never permuted.  If `a` is ahead of `b` in
  the waiting queue (or `b` is not waiting), then - whatever operations follow - as long as no transfer of `a` starts
  and `a` is not removed, `a` keeps waiting and stays ahead of `b`: objects are only taken out of the queue, or
  appended at its tail (`add_object`, requeue after a transfer).
-/
namespace Flute.Sched

/-- events after which `a` may have left its place: a transfer of `a` starts, `a` is removed -/
def badEv (a : Nat) : Ev → Bool
  | .start _ t _ _ => t == a
  | .opRemove t ok => t == a && ok
  | _ => false

/-- `a` is waiting and `b` is not ahead of it -/
def Ahead (a b : Nat) (l : List Nat) : Prop := ∃ l1 l2, l = l1 ++ a :: l2 ∧ b ∉ l1

theorem Ahead.erase {a b t : Nat} {l : List Nat} (h : Ahead a b l) (ht : t ≠ a) : Ahead a b (l.erase t) := by
  obtain ⟨l1, l2, e, hb⟩ := h
  subst e
  by_cases hm : t ∈ l1
  · refine ⟨l1.erase t, l2, by rw [List.erase_append_left _ hm], fun h => hb (List.mem_of_mem_erase h)⟩
  · refine ⟨l1, l2.erase t, ?_, hb⟩
    rw [List.erase_append_right _ hm, List.erase_cons_tail (by simpa using fun e => ht e.symm)]

theorem Ahead.append {a b : Nat} {l : List Nat} (h : Ahead a b l) (x : List Nat) : Ahead a b (l ++ x) := by
  obtain ⟨l1, l2, e, hb⟩ := h
  exact ⟨l1, l2 ++ x, by rw [e]; simp, hb⟩

theorem Ahead.filter {a b t : Nat} {l : List Nat} (h : Ahead a b l) (ht : t ≠ a) :
    Ahead a b (l.filter (fun x => x != t)) := by
  obtain ⟨l1, l2, e, hb⟩ := h
  subst e
  refine ⟨l1.filter (fun x => x != t), l2.filter (fun x => x != t), ?_, fun h => hb (List.mem_filter.mp h).1⟩
  rw [List.filter_append, List.filter_cons_of_pos (by simpa using fun e => ht e.symm)]

def StableInv (a b n0 : Nat) : State → Held → Prop := fun s _ =>
  n0 ≤ s.log.length ∧ ((s.log.take (s.log.length - n0)).any (badEv a) = false → Ahead a b s.queue)

theorem StableInv.step {a b n0 : Nat} {s s' : State} {L L' : Held} (h : StableInv a b n0 s L) (new : List Ev)
    (hlog : s'.log = new ++ s.log)
    (hq : new.any (badEv a) = false → Ahead a b s.queue → Ahead a b s'.queue) : StableInv a b n0 s' L' := by
  obtain ⟨hn, hi⟩ := h
  refine ⟨by rw [hlog, List.length_append]; omega, ?_⟩
  intro hany
  have e : (s'.log.take (s'.log.length - n0)) = new ++ s.log.take (s.log.length - n0) := by
    rw [hlog, List.length_append]
    have : new.length + s.log.length - n0 = new.length + (s.log.length - n0) := by omega
    rw [this, List.take_length_add_append]
  rw [e, List.any_append, Bool.or_eq_false_iff] at hany
  exact hq hany.1 (hi hany.2)

theorem StableInv.neutral {a b n0 : Nat} {s s' : State} {L L' : Held} (h : StableInv a b n0 s L) (e : Ev)
    (he : badEv a e = false) (hlog : s'.log = e :: s.log) (hq : s'.queue = s.queue) : StableInv a b n0 s' L' :=
  h.step [e] hlog (fun _ hh => by rw [hq]; exact hh)

theorem StableInv.publish {a b n0 : Nat} {s : State} {L : Held} (h : StableInv a b n0 s L) (now : Nat) :
    StableInv a b n0 (Sched.publish s now) L :=
  h.neutral _ rfl (publish_log s now) rfl

theorem StableInv.publishTry {a b n0 : Nat} {s : State} {L : Held} (h : StableInv a b n0 s L) (now : Nat) :
    StableInv a b n0 (Sched.publishTry s now) L :=
  publishTry_elim (P := fun x => StableInv a b n0 x L) s now (h.publish now) h

theorem StableInv.closed (a b n0 : Nat) : Closed Wf (StableInv a b n0) where
  perm := fun _ _ _ _ h => h
  leaveFiles := fun _ _ _ h => h
  enterFiles := fun _ _ _ _ h _ _ => h
  emitRead := fun s _ now _ h _ => h.neutral (s' := emit s (.opRead now)) _ rfl rfl rfl
  emitIdle := fun s _ now _ h _ => h.neutral (s' := emit s (.idle now)) _ rfl rfl rfl
  publish := fun _ _ now _ h _ => h.publish now
  fdtAdvance := fun s L now _ h _ _ => by
    rcases fdtAdvance_cases s now with ⟨e, _⟩ | ⟨k, f, _, _, _, e⟩
    · rw [e]; exact h.step [] (by rw [fdtPop_log]; rfl) (fun _ hh => by rw [fdtPop_queue]; exact hh)
    · rw [e]
      exact h.step [Ev.fdtStart now k] (by show _ :: (fdtPop s).log = _; rw [fdtPop_log]; rfl)
        (fun _ hh => by show Ahead a b (fdtPop s).queue; rw [fdtPop_queue]; exact hh)
  fileStart := fun s L _ now tk t _ h _ _ => by
    have h1 : StableInv a b n0 (fileStartStep s t now tk) L := by
      refine h.step [Ev.start now t _ _] rfl ?_
      intro hany hh
      have hta : t ≠ a := by
        intro e; subst e
        simp [badEv] at hany
      exact hh.erase hta
    unfold autoPublish; split
    · exact h1.publishTry now
    · exact h1
  pkt := fun s L prio c now _ idx b' _ _ h _ _ _ _ _ =>
    h.neutral (s' := pktStep s prio c.key now idx b') _ rfl rfl rfl
  done := fun s L _ c now _ _ _ h _ _ _ => by
    refine h.step [Ev.stop now c.key] (transferDoneFile_log s c.key now) ?_
    intro _ hh
    rcases transferDoneFile_queue_cases s c.key now with e | e
    · rw [e]; exact hh
    · rw [e]; exact hh.append _
  fdtPkt := fun s L c f now idx b' e _ h _ _ _ _ _ =>
    h.neutral (s' := fdtStep s c e f.fdtId now idx) _ rfl rfl rfl
  fdtDone := fun s L c _ now _ _ h _ _ _ _ _ => by
    refine h.step [Ev.fdtStop now c.key] (by unfold fdtRelease; exact transferDoneFdt_log s c.key now) ?_
    intro _ hh
    unfold fdtRelease
    show Ahead a b (transferDoneFdt s c.key now).queue
    rw [transferDoneFdt_queue]; exact hh

theorem StableInv.closedOps (a b n0 : Nat) : ClosedOps Wf (StableInv a b n0) where
  add := fun s L x _ h => by
    unfold addObject; simp only []
    split
    · exact h.neutral (s' := emit { s with nextToi := s.nextToi + 1 } (.opAdd s.nextToi x false)) _ rfl rfl rfl
    · split
      · exact h.neutral (s' := emit { s with nextToi := s.nextToi + 1 } (.opAdd s.nextToi x false)) _ rfl rfl rfl
      · exact h.step [Ev.opAdd s.nextToi x true] rfl (fun _ hh => hh.append _)
  remove := fun s L t _ h => by
    unfold removeObject; split
    · exact h.neutral (s' := emit s (.opRemove t false)) _ (by simp [badEv]) rfl rfl
    · refine h.step [Ev.opRemove t true] rfl ?_
      intro hany hh
      have hta : t ≠ a := by
        intro e; subst e
        simp [badEv] at hany
      exact hh.filter hta
  trigger := fun s L t ts _ h => by
    unfold triggerTransferAt; split
    · exact h.neutral (s' := emit s (.opTrigger t ts false)) _ rfl rfl rfl
    · split
      · exact h.neutral (s' := emit s (.opTrigger t ts false)) _ rfl rfl rfl
      · exact h.neutral (s' := emit { s with objs := updF s.objs t (fun f => resetLastTransfer f ts) } (.opTrigger t ts true)) _ rfl rfl rfl
  publishOp := fun s L now _ h => by
    have h0 : StableInv a b n0 (emit s (.opPublish now)) L := h.neutral _ rfl rfl rfl
    exact h0.publishTry now
  complete := fun _ _ _ h => h

/-- over any continuation `ops'` of a history `ops` -/
theorem order_stable (cfg : Cfg) (tbl : List Nat) (ops ops' : List Op) (a b : Nat)
    (h0 : Ahead a b (run (init cfg tbl) ops).queue)
    (hclean : ((run (init cfg tbl) (ops ++ ops')).log.take
      ((run (init cfg tbl) (ops ++ ops')).log.length - (run (init cfg tbl) ops).log.length)).any (badEv a) = false) :
    Ahead a b (run (init cfg tbl) (ops ++ ops')).queue := by
  have hw := run_inv Wf.closed Wf.closedOps ops (init cfg tbl) (by rw [heldOf_init]; exact Wf.init cfg tbl) rfl
  have e : run (init cfg tbl) (ops ++ ops') = run (run (init cfg tbl) ops) ops' := by
    unfold run; rw [List.foldl_append]
  rw [e] at hclean ⊢
  generalize run (init cfg tbl) ops = s at *
  have h := run_inv (Closed.and Wf.closed (StableInv.closed a b s.log.length))
    (ClosedOps.and Wf.closedOps (StableInv.closedOps a b s.log.length)) ops' s
    ⟨hw.1, Nat.le_refl _, fun _ => h0⟩ hw.2
  exact h.1.2.2 hclean

end Flute.Sched
