import FluteModel.Session
/-
  Sender facts about one transfer's listing `emitTransfer e` (blockencoder.rs as modelled in
  FluteModel/Session.lean), for a non-empty object all of whose blocks can be encoded:
  genuine (SBN, ESI); every source symbol of every block is emitted; (SBN 0, ESI 0) first and
  only first; the close-object flag on the very last packet only.
-/
namespace Flute.Lemmas.Session
open Flute.Session

/-- the encoder's parameters are sane: window ≥ 1, every block has a source symbol and can be
    encoded (`add_object` refuses the other configurations, D21 / D25; Raptor k = 2, 3: finding D23/D26) -/
structure EncOK (e : Enc) : Prop where
  w : 1 ≤ e.w
  nonempty : 0 < e.ks.size
  blocks : ∀ (b k : Nat), e.ks[b]? = some k → 1 ≤ k ∧ blockFails e.scheme k e.p = false

theorem le_shardsOf (s : Scheme) (k p : Nat) : k ≤ shardsOf s k p := by
  unfold shardsOf; split <;> omega

/-- source symbols still to be read in the window -/
def R : List WBlk → Nat
  | [] => 0
  | b :: t => (b.rest.filter (fun i => decide (i < b.k))).length + R t

theorem R_append (a b : List WBlk) : R (a ++ b) = R a + R b := by
  induction a with
  | nil => simp [R]
  | cons x xs ih => simp [R, ih]; omega

theorem R_set : ∀ (win : List WBlk) (i : Nat) (blk blk' : WBlk), win[i]? = some blk →
    R (win.set i blk') + (blk.rest.filter (fun i => decide (i < blk.k))).length =
      R win + (blk'.rest.filter (fun i => decide (i < blk'.k))).length := by
  intro win
  induction win with
  | nil => intro i blk blk' h; simp at h
  | cons x xs ih =>
    intro i blk blk' h
    cases i with
    | zero =>
      simp only [List.getElem?_cons_zero, Option.some.injEq] at h
      subst h
      simp only [List.set_cons_zero, R]; omega
    | succ n =>
      simp only [List.getElem?_cons_succ] at h
      have := ih n blk blk' h
      simp only [List.set_cons_succ, R]; omega

theorem R_eraseIdx : ∀ (win : List WBlk) (i : Nat) (blk : WBlk), win[i]? = some blk →
    R (win.eraseIdx i) + (blk.rest.filter (fun i => decide (i < blk.k))).length = R win := by
  intro win
  induction win with
  | nil => intro i blk h; simp at h
  | cons x xs ih =>
    intro i blk h
    cases i with
    | zero =>
      simp only [List.getElem?_cons_zero, Option.some.injEq] at h
      subst h
      simp only [List.eraseIdx_cons_zero, R]; omega
    | succ n =>
      simp only [List.getElem?_cons_succ] at h
      have := ih n blk h
      simp only [List.eraseIdx_cons_succ, R]; omega

theorem R_zero_of_drained : ∀ (win : List WBlk), (∀ b, b ∈ win → b.rest = []) → R win = 0 := by
  intro win
  induction win with
  | nil => intro _; rfl
  | cons x xs ih =>
    intro h
    simp only [R, h x (List.mem_cons_self ..), List.filter_nil, List.length_nil, Nat.zero_add]
    exact ih (fun b hb => h b (List.mem_cons_of_mem _ hb))

theorem prefixSrc_mono (ks : Array Nat) : ∀ n m, n ≤ m → prefixSrc ks n ≤ prefixSrc ks m := by
  intro n m h
  induction m with
  | zero => have : n = 0 := by omega
            subst this; exact Nat.le_refl _
  | succ m ih =>
    by_cases hn : n = m + 1
    · subst hn; exact Nat.le_refl _
    · have := ih (by omega)
      simp only [prefixSrc]; omega

/-- every block has a source symbol: the prefix sums are strictly increasing below the size -/
theorem prefixSrc_strict (ks : Array Nat) (h1 : ∀ (b k : Nat), ks[b]? = some k → 1 ≤ k) :
    ∀ n, n < ks.size → prefixSrc ks n < prefixSrc ks ks.size := by
  intro n hn
  have hstep : prefixSrc ks n < prefixSrc ks (n + 1) := by
    simp only [prefixSrc]
    have hk : ks[n]? = some ks[n] := Array.getElem?_eq_getElem hn
    have := h1 n _ hk
    have hg : ks.getD n 0 = ks[n] := by simp [Array.getD_eq_getD_getElem?, hk]
    omega
  exact Nat.lt_of_lt_of_le hstep (prefixSrc_mono ks (n + 1) ks.size (by omega))

/-- the state invariant of the block encoder -/
structure SI (e : Enc) (st : EncSt) : Prop where
  next_le : st.next ≤ e.ks.size
  readEnd : st.readEnd = true → st.next = e.ks.size
  win : ∀ blk, blk ∈ st.win → blk.sbn < st.next ∧ e.ks[blk.sbn]? = some blk.k ∧
      ∃ j, j ≤ shardsOf e.scheme blk.k e.p ∧ blk.rest = List.range' j (shardsOf e.scheme blk.k e.p - j)
  acct : st.srcSent + R st.win = prefixSrc e.ks st.next
  /-- before the first packet: the window holds the untouched blocks 0, 1, ..., the index is 0 -/
  fresh : st.sent = 0 → st.idx = 0 ∧ st.win.map (·.sbn) = List.range st.next ∧
      ∀ blk, blk ∈ st.win → blk.rest = List.range' 0 (shardsOf e.scheme blk.k e.p)
  /-- after the first packet: (SBN 0, ESI 0) is gone for good -/
  started : 1 ≤ st.sent → 1 ≤ st.next ∧ ∀ blk, blk ∈ st.win → blk.sbn = 0 → ¬ 0 ∈ blk.rest

theorem filter_lt_range (k n : Nat) (h : k ≤ n) : ((List.range' 0 n).filter (fun i => decide (i < k))).length = k := by
  have : (List.range' 0 n).filter (fun i => decide (i < k)) = List.range' 0 k := by
    have hn : n = k + (n - k) := by omega
    rw [hn, ← List.range'_append_1]
    rw [List.filter_append]
    have h1 : (List.range' 0 k).filter (fun i => decide (i < k)) = List.range' 0 k := by
      rw [List.filter_eq_self]
      intro a ha
      simp only [List.mem_range'_1] at ha
      simp; omega
    have h2 : (List.range' (0 + k) (n - k)).filter (fun i => decide (i < k)) = [] := by
      rw [List.filter_eq_nil_iff]
      intro a ha
      simp only [List.mem_range'_1] at ha
      simp; omega
    rw [h1, h2, List.append_nil]
  rw [this]; simp

theorem readWindow_spec_refl (e : Enc) (st : EncSt) (h : SI e st) :
    SI e st ∧ st.idx = st.idx ∧ st.sent = st.sent ∧ st.srcSent = st.srcSent ∧ st.next ≤ st.next ∧
    (∃ extra, st.win = st.win ++ extra ∧
       ∀ blk, blk ∈ extra → st.next ≤ blk.sbn ∧ blk.rest = List.range' 0 (shardsOf e.scheme blk.k e.p)) ∧
    (∀ (b k : Nat), st.next ≤ b → b < st.next → e.ks[b]? = some k →
       ∃ blk, blk ∈ st.win ∧ blk.sbn = b ∧ blk.k = k ∧ blk.rest = List.range' 0 (shardsOf e.scheme k e.p)) :=
  ⟨h, rfl, rfl, rfl, Nat.le_refl _, ⟨[], by simp, by simp⟩, by intro b k h1 h2; omega⟩

/-- `read_window` keeps the invariant; it only appends fresh blocks and leaves the counters alone -/
theorem readWindow_spec (e : Enc) (he : EncOK e) : ∀ (fuel : Nat) (st : EncSt), SI e st →
    SI e (readWindow e fuel st) ∧
    (readWindow e fuel st).idx = st.idx ∧ (readWindow e fuel st).sent = st.sent ∧
    (readWindow e fuel st).srcSent = st.srcSent ∧ st.next ≤ (readWindow e fuel st).next ∧
    (∃ extra, (readWindow e fuel st).win = st.win ++ extra ∧
       ∀ blk, blk ∈ extra → st.next ≤ blk.sbn ∧ blk.rest = List.range' 0 (shardsOf e.scheme blk.k e.p)) ∧
    -- every block between the old and the new `next` is in the window, untouched
    (∀ (b k : Nat), st.next ≤ b → b < (readWindow e fuel st).next → e.ks[b]? = some k →
       ∃ blk, blk ∈ (readWindow e fuel st).win ∧ blk.sbn = b ∧ blk.k = k ∧ blk.rest = List.range' 0 (shardsOf e.scheme k e.p)) := by
  intro fuel
  induction fuel with
  | zero =>
    intro st h
    have hst : readWindow e 0 st = st := rfl
    rw [hst]; exact readWindow_spec_refl e st h
  | succ n ih =>
    intro st h
    by_cases hstop : (st.readEnd || decide (st.win.length ≥ e.w)) = true
    · have hst : readWindow e (n + 1) st = st := by unfold readWindow; simp only [hstop, ↓reduceIte]
      rw [hst]; exact readWindow_spec_refl e st h
    · unfold readWindow
      simp only [hstop, Bool.false_eq_true, ↓reduceIte]
      have hre : st.readEnd = false := by
        simp only [Bool.or_eq_true, not_or, Bool.not_eq_true] at hstop; exact hstop.1
      cases hk : e.ks[st.next]? with
      | none =>
        -- nothing left to load
        have hnext : st.next = e.ks.size := by
          have := Array.getElem?_eq_none_iff.mp hk
          have := h.next_le; omega
        have hne : e.ks.isEmpty = false := by
          cases hx : e.ks.isEmpty with
          | false => rfl
          | true =>
            have := Array.isEmpty_iff_size_eq_zero.mp hx
            have := he.nonempty; omega
        simp only [hne, Bool.and_false, Bool.false_and, Bool.false_eq_true, ↓reduceIte]
        refine ⟨⟨h.next_le, fun _ => hnext, h.win, h.acct, h.fresh, h.started⟩, by simp, by simp, by simp, by simp,
          ⟨[], by simp, by simp⟩, by intro b k h1 h2; omega⟩
      | some k =>
        obtain ⟨hk1, hkf⟩ := he.blocks st.next k hk
        simp only [hkf, Bool.false_eq_true, ↓reduceIte]
        have hlt : st.next < e.ks.size := (Array.getElem?_eq_some_iff.mp hk).1
        -- the state after loading block `next`
        have hSI : SI e { st with win := st.win ++ [{ sbn := st.next, k := k, rest := List.range (shardsOf e.scheme k e.p) }],
                                  next := st.next + 1, readEnd := st.next + 1 == e.ks.size } := by
          refine ⟨by simp only; omega, ?_, ?_, ?_, ?_, ?_⟩
          · intro hr; simpa using hr
          · intro blk hb
            simp only [List.mem_append, List.mem_singleton] at hb
            rcases hb with hb | rfl
            · obtain ⟨h1, h2, h3⟩ := h.win blk hb
              exact ⟨by simp only; omega, h2, h3⟩
            · refine ⟨by simp, hk, 0, by omega, ?_⟩
              simp [List.range_eq_range']
          · simp only [R_append, R, prefixSrc]
            have hg : e.ks.getD st.next 0 = k := by simp [Array.getD_eq_getD_getElem?, hk]
            rw [List.range_eq_range', filter_lt_range k _ (le_shardsOf _ _ _), hg]
            have := h.acct; omega
          · intro hs
            obtain ⟨f1, f2, f3⟩ := h.fresh hs
            refine ⟨f1, ?_, ?_⟩
            · simp only [List.map_append, f2, List.map_cons, List.map_nil]
              rw [List.range_succ]
            · intro blk hb
              simp only [List.mem_append, List.mem_singleton] at hb
              rcases hb with hb | rfl
              · exact f3 blk hb
              · simp [List.range_eq_range']
          · intro hs
            obtain ⟨s1, s2⟩ := h.started hs
            refine ⟨by simp only; omega, ?_⟩
            intro blk hb h0
            simp only [List.mem_append, List.mem_singleton] at hb
            rcases hb with hb | rfl
            · exact s2 blk hb h0
            · simp only at h0; omega
        obtain ⟨i1, i2, i3, i4, i5, ⟨extra, i6, i7⟩, i8⟩ := ih _ hSI
        refine ⟨i1, i2, i3, i4, by simp only at i5; omega, ?_, ?_⟩
        · refine ⟨{ sbn := st.next, k := k, rest := List.range (shardsOf e.scheme k e.p) } :: extra, by simp [i6], ?_⟩
          intro blk hb
          rcases List.mem_cons.mp hb with rfl | hb
          · exact ⟨Nat.le_refl _, by simp [List.range_eq_range']⟩
          · have := i7 blk hb
            simp only at this
            exact ⟨by omega, this.2⟩
        · intro b k' hb1 hb2 hbk
          by_cases hbn : b = st.next
          · subst hbn
            rw [hk] at hbk; cases hbk
            refine ⟨{ sbn := st.next, k := k, rest := List.range (shardsOf e.scheme k e.p) }, ?_, rfl, rfl, by simp [List.range_eq_range']⟩
            rw [i6]; simp
          · exact i8 b k' (by simp only; omega) hb2 hbk

/-- with fuel `w + 1` the window ends up full or the source exhausted -/
theorem readWindow_full (e : Enc) : ∀ (fuel : Nat) (st : EncSt), e.w < st.win.length + fuel →
    (readWindow e fuel st).readEnd = true ∨ e.w ≤ (readWindow e fuel st).win.length := by
  intro fuel
  induction fuel with
  | zero => intro st h; simp only [readWindow]; right; omega
  | succ n ih =>
    intro st h
    unfold readWindow
    by_cases hstop : (st.readEnd || decide (st.win.length ≥ e.w)) = true
    · simp only [hstop, ↓reduceIte]
      simp only [Bool.or_eq_true, decide_eq_true_eq] at hstop
      rcases hstop with h1 | h1
      · exact Or.inl h1
      · exact Or.inr h1
    · simp only [hstop, Bool.false_eq_true, ↓reduceIte]
      split
      · split <;> simp
      · split
        · simp
        · apply ih
          simp only [List.length_append, List.length_singleton]; omega

theorem range'_cons_inv (j n esi : Nat) (rest : List Nat) (h : List.range' j n = esi :: rest) :
    esi = j ∧ rest = List.range' (j + 1) (n - 1) ∧ 1 ≤ n := by
  cases n with
  | zero => simp at h
  | succ m =>
    simp only [List.range'_succ, List.cons.injEq] at h
    exact ⟨h.1.symm, by simpa using h.2.symm, by omega⟩

/-- removing a drained block keeps the invariant -/
theorem SI_erase (e : Enc) (he : EncOK e) (st : EncSt) (i i' : Nat) (blk : WBlk) (h : SI e st)
    (hi : st.win[i]? = some blk) (hr : blk.rest = []) :
    SI e { st with win := st.win.eraseIdx i, idx := i' } := by
  have hmem : blk ∈ st.win := List.mem_of_getElem? hi
  refine ⟨h.next_le, h.readEnd, fun b hb => h.win b (List.mem_of_mem_eraseIdx hb), ?_, ?_, ?_⟩
  · have := R_eraseIdx st.win i blk hi
    rw [hr] at this
    simp only [List.filter_nil, List.length_nil, Nat.add_zero] at this
    simp only [this]; exact h.acct
  · intro hs
    exfalso
    -- untouched blocks are not drained
    have := (h.fresh hs).2.2 blk hmem
    rw [hr] at this
    obtain ⟨_, hk, _⟩ := h.win blk hmem
    have h1 := (he.blocks _ _ hk).1
    have h2 := le_shardsOf e.scheme blk.k e.p
    have : (List.range' 0 (shardsOf e.scheme blk.k e.p)).length = 0 := by rw [← this]; rfl
    simp at this; omega
  · intro hs
    obtain ⟨s1, s2⟩ := h.started hs
    exact ⟨s1, fun b hb => s2 b (List.mem_of_mem_eraseIdx hb)⟩

/-- reading one symbol keeps the invariant -/
theorem SI_emit (e : Enc) (st : EncSt) (i : Nat) (blk : WBlk) (esi : Nat) (rest : List Nat) (h : SI e st)
    (hi : st.win[i]? = some blk) (hr : blk.rest = esi :: rest) (h0 : st.sent = 0 → i = 0) :
    SI e { st with win := st.win.set i { blk with rest := rest }, idx := i + 1,
                   srcSent := if esi < blk.k then st.srcSent + 1 else st.srcSent, sent := st.sent + 1 } ∧
    (∃ k, e.ks[blk.sbn]? = some k ∧ esi < shardsOf e.scheme k e.p) ∧
    (st.sent = 0 → blk.sbn = 0 ∧ esi = 0) ∧ (1 ≤ st.sent → ¬ (blk.sbn = 0 ∧ esi = 0)) := by
  have hmem : blk ∈ st.win := List.mem_of_getElem? hi
  obtain ⟨hb1, hb2, j, hj, hb3⟩ := h.win blk hmem
  rw [hr] at hb3
  obtain ⟨r1, r2, r3⟩ := range'_cons_inv _ _ _ _ hb3.symm
  have hmemset : ∀ x, x ∈ st.win.set i { blk with rest := rest } → x ∈ st.win ∨ x = { blk with rest := rest } :=
    fun x hx => List.mem_or_eq_of_mem_set hx
  refine ⟨⟨h.next_le, h.readEnd, ?_, ?_, ?_, ?_⟩, ⟨blk.k, hb2, by omega⟩, ?_, ?_⟩
  · intro x hx
    rcases hmemset x hx with hx | rfl
    · exact h.win x hx
    · refine ⟨hb1, hb2, j + 1, ?_, ?_⟩
      · simp only; omega
      · simp only; rw [r2, Nat.sub_sub]
  · have := R_set st.win i blk { blk with rest := rest } hi
    rw [hr] at this
    simp only [List.filter_cons] at this
    have hacct := h.acct
    simp only
    by_cases hlt : esi < blk.k
    · simp only [hlt, decide_true, ↓reduceIte, List.length_cons] at this ⊢
      omega
    · simp only [hlt, decide_false, Bool.false_eq_true, ↓reduceIte] at this ⊢
      omega
  · intro hs; simp at hs
  · intro _
    by_cases hs : st.sent = 0
    · -- the very first packet: block 0, ESI 0
      obtain ⟨f1, f2, f3⟩ := h.fresh hs
      have hi0 := h0 hs
      subst hi0
      have hlen : 0 < st.win.length := by
        rcases hw : st.win with _ | ⟨a, t⟩
        · rw [hw] at hi; simp at hi
        · simp
      have hnext : 1 ≤ st.next := by
        have : (st.win.map (·.sbn)).length = st.next := by rw [f2]; simp
        simp at this; omega
      refine ⟨hnext, ?_⟩
      intro x hx hx0
      obtain ⟨m, hm⟩ := List.mem_iff_getElem?.mp hx
      cases m with
      | zero =>
        rw [List.getElem?_set_self hlen] at hm
        cases hm
        simp only
        have := f3 blk hmem
        rw [hr] at this
        obtain ⟨_, q2, _⟩ := range'_cons_inv _ _ _ _ this.symm
        rw [q2]
        simp [List.mem_range'_1]
      | succ m' =>
        rw [List.getElem?_set_ne (by omega)] at hm
        -- position m'+1 of the untouched window holds SBN m'+1
        have : (st.win.map (·.sbn))[m' + 1]? = some x.sbn := by
          rw [List.getElem?_map, hm]; rfl
        rw [f2] at this
        have := List.getElem?_eq_some_iff.mp this
        obtain ⟨_, h2⟩ := this
        simp at h2
        omega
    · obtain ⟨s1, s2⟩ := h.started (by omega)
      refine ⟨s1, ?_⟩
      intro x hx hx0
      rcases hmemset x hx with hx | rfl
      · exact s2 x hx hx0
      · have := s2 blk hmem hx0
        rw [hr] at this
        simp only
        intro h0r
        exact this (List.mem_cons_of_mem _ h0r)
  · intro hs
    obtain ⟨f1, f2, f3⟩ := h.fresh hs
    have hi0 := h0 hs
    subst hi0
    have h1 : (st.win.map (·.sbn))[0]? = some blk.sbn := by rw [List.getElem?_map, hi]; rfl
    rw [f2] at h1
    have h1' := (List.getElem?_eq_some_iff.mp h1).2
    have hfr := f3 blk hmem
    rw [hr] at hfr
    obtain ⟨q1, _, _⟩ := range'_cons_inv _ _ _ _ hfr.symm
    simp at h1'
    exact ⟨by omega, q1⟩
  · intro hs hc
    obtain ⟨s1, s2⟩ := h.started hs
    have := s2 blk hmem hc.1
    rw [hr, hc.2] at this
    exact this (List.mem_cons_self ..)

/-- the sender's side: the close-object flag only on the very last packet of a listing -/
def OnlyLast : List Sym → Prop
  | [] => True
  | q :: t => (q.close = true → t = []) ∧ OnlyLast t

/-- all blocks loaded and drained: nothing more is emitted -/
theorem drained_nothing (e : Enc) (he : EncOK e) (tot : Nat) : ∀ (fuel : Nat) (st : EncSt) (T : List Sym),
    SI e st → st.next = e.ks.size → (∀ b, b ∈ st.win → b.rest = []) → 1 ≤ st.sent →
    emitLoop e tot fuel st = some T → T = [] := by
  intro fuel
  induction fuel with
  | zero => intro st T _ _ _ _ h; simp [emitLoop] at h
  | succ n ih =>
    intro st T hSI hnext hdr hsent h
    unfold emitLoop at h
    obtain ⟨i1, i2, i3, i4, i5, ⟨extra, i6, i7⟩, _⟩ := readWindow_spec e he (e.w + 1) st hSI
    -- nothing can be loaded any more
    have hextra : extra = [] := by
      cases extra with
      | nil => rfl
      | cons x xs =>
        exfalso
        have hx : x ∈ (readWindow e (e.w + 1) st).win := by rw [i6]; simp
        have := (i1.win x hx).1
        have := (i7 x (List.mem_cons_self ..)).1
        have := i1.next_le
        omega
    rw [hextra, List.append_nil] at i6
    have hnext' : (readWindow e (e.w + 1) st).next = e.ks.size := by have := i1.next_le; omega
    generalize hst1 : readWindow e (e.w + 1) st = st1 at h i1 i2 i3 i4 i5 i6 hnext'
    dsimp only at h
    by_cases hemp : st1.win.isEmpty = true
    · simp only [hemp, ↓reduceIte] at h
      have : (st1.sent == 0) = false := by rw [i3]; simp; omega
      simp only [this, Bool.false_and, Bool.false_eq_true, ↓reduceIte, Option.some.injEq] at h
      exact h.symm
    · simp only [hemp, Bool.false_eq_true, ↓reduceIte] at h
      generalize hidx : (if st1.idx ≥ st1.win.length then 0 else st1.idx) = idx at h
      cases hb : st1.win[idx]? with
      | none => simp [hb] at h
      | some blk =>
        simp only [hb] at h
        have hmem : blk ∈ st1.win := List.mem_of_getElem? hb
        have hrest : blk.rest = [] := hdr blk (by rw [← i6]; exact hmem)
        simp only [hrest] at h
        have hSI2 := SI_erase e he st1 idx idx blk i1 hb hrest
        exact ih _ T hSI2 hnext' (fun b hb' => hdr b (by rw [← i6]; exact List.mem_of_mem_eraseIdx hb')) (by simp only; omega) h

theorem mem_eraseIdx_of_ne {α : Type} : ∀ (l : List α) (i : Nat) (x y : α), x ∈ l → l[i]? = some y → x ≠ y →
    x ∈ l.eraseIdx i := by
  intro l
  induction l with
  | nil => intro i x y h; simp at h
  | cons a t ih =>
    intro i x y hx hi hne
    cases i with
    | zero =>
      simp only [List.getElem?_cons_zero, Option.some.injEq] at hi
      subst hi
      simp only [List.eraseIdx_cons_zero]
      rcases List.mem_cons.mp hx with h | h
      · exact absurd h hne
      · exact h
    | succ n =>
      simp only [List.getElem?_cons_succ] at hi
      simp only [List.eraseIdx_cons_succ, List.mem_cons]
      rcases List.mem_cons.mp hx with h | h
      · exact Or.inl h
      · exact Or.inr (ih n x y h hi hne)

theorem mem_set_of_ne {α : Type} : ∀ (l : List α) (i : Nat) (x y z : α), x ∈ l → l[i]? = some y → x ≠ y →
    x ∈ l.set i z := by
  intro l
  induction l with
  | nil => intro i x y z h; simp at h
  | cons a t ih =>
    intro i x y z hx hi hne
    cases i with
    | zero =>
      simp only [List.getElem?_cons_zero, Option.some.injEq] at hi
      subst hi
      simp only [List.set_cons_zero, List.mem_cons]
      rcases List.mem_cons.mp hx with h | h
      · exact absurd h hne
      · exact Or.inr h
    | succ n =>
      simp only [List.getElem?_cons_succ] at hi
      simp only [List.set_cons_succ, List.mem_cons]
      rcases List.mem_cons.mp hx with h | h
      · exact Or.inl h
      · exact Or.inr (ih n x y z h hi hne)

theorem mem_set_self {α : Type} (l : List α) (i : Nat) (y z : α) (hi : l[i]? = some y) : z ∈ l.set i z := by
  have hlt : i < l.length := (List.getElem?_eq_some_iff.mp hi).1
  exact List.mem_of_getElem? (List.getElem?_set_self hlt)

/-- a source symbol that is still to be emitted: in the window, or in a block not yet loaded -/
def Pending (e : Enc) (st : EncSt) (b i : Nat) : Prop :=
  (∃ blk, blk ∈ st.win ∧ blk.sbn = b ∧ i ∈ blk.rest ∧ i < blk.k) ∨
  (st.next ≤ b ∧ ∃ k, e.ks[b]? = some k ∧ i < k)

/-- **the emission loop**, from any reachable state: what is emitted from here on -/
theorem emitLoop_spec (e : Enc) (he : EncOK e) : ∀ (fuel : Nat) (st : EncSt) (T : List Sym),
    SI e st → emitLoop e (totalSrc e.ks) fuel st = some T →
    (∀ s, s ∈ T → ∃ k, e.ks[s.sbn]? = some k ∧ s.esi < shardsOf e.scheme k e.p) ∧
    (∀ b i, Pending e st b i → ∃ s, s ∈ T ∧ s.sbn = b ∧ s.esi = i) ∧
    OnlyLast T ∧
    (1 ≤ st.sent → ∀ s, s ∈ T → ¬ (s.sbn = 0 ∧ s.esi = 0)) ∧
    (st.sent = 0 → ∃ c T', T = { sbn := 0, esi := 0, close := c } :: T' ∧ ∀ s, s ∈ T' → ¬ (s.sbn = 0 ∧ s.esi = 0)) ∧
    (e.closable = false → ∀ s, s ∈ T → s.close = false) := by
  intro fuel
  induction fuel with
  | zero => intro st T _ h; simp [emitLoop] at h
  | succ n ih =>
    intro st T hSI h
    unfold emitLoop at h
    obtain ⟨i1, i2, i3, i4, i5, ⟨extra, i6, i7⟩, i8⟩ := readWindow_spec e he (e.w + 1) st hSI
    have hfull := readWindow_full e (e.w + 1) st (by omega)
    -- pending symbols stay pending through read_window
    have hpend : ∀ b i, Pending e st b i → Pending e (readWindow e (e.w + 1) st) b i := by
      intro b i hp
      rcases hp with ⟨blk, hb, h1, h2, h3⟩ | ⟨h1, k, hk, hik⟩
      · exact Or.inl ⟨blk, by rw [i6]; exact List.mem_append_left _ hb, h1, h2, h3⟩
      · by_cases hlt : b < (readWindow e (e.w + 1) st).next
        · obtain ⟨blk, hb, hs, hkk, hr⟩ := i8 b k h1 hlt hk
          left
          refine ⟨blk, hb, hs, ?_, by omega⟩
          rw [hr, List.mem_range'_1]
          have := le_shardsOf e.scheme k e.p
          omega
        · exact Or.inr ⟨by omega, k, hk, hik⟩
    generalize hst1 : readWindow e (e.w + 1) st = st1 at h i1 i2 i3 i4 i5 i6 i7 i8 hfull hpend
    dsimp only at h
    have hk0 : ∃ k0, e.ks[0]? = some k0 := ⟨_, Array.getElem?_eq_getElem he.nonempty⟩
    by_cases hemp : st1.win.isEmpty = true
    · -- the window is empty: everything has been loaded
      have hwin : st1.win = [] := List.isEmpty_iff.mp hemp
      have hre : st1.next = e.ks.size := by
        rcases hfull with h1 | h1
        · exact i1.readEnd h1
        · rw [hwin] at h1; simp at h1; have := he.w; omega
      have hnop : ∀ b i, ¬ Pending e st1 b i := by
        intro b i hp
        rcases hp with ⟨blk, hb, _⟩ | ⟨h1, k, hk, _⟩
        · rw [hwin] at hb; simp at hb
        · have := (Array.getElem?_eq_some_iff.mp hk).1; omega
      simp only [hemp, ↓reduceIte] at h
      by_cases hs0 : (st1.sent == 0) = true
      · -- impossible: before the first packet the window holds block 0
        exfalso
        have hs0' : st1.sent = 0 := by simpa using hs0
        have := (i1.fresh hs0').2.1
        rw [hwin] at this
        simp only [List.map_nil] at this
        have hn0 : st1.next = 0 := by
          cases hx : st1.next with
          | zero => rfl
          | succ m => rw [hx, List.range_succ] at this; simp at this
        have := he.nonempty
        omega
      · simp only [hs0, Bool.false_and, Bool.false_eq_true, ↓reduceIte, Option.some.injEq] at h
        subst h
        have hs0' : st.sent ≠ 0 := by rw [← i3]; simpa using hs0
        exact ⟨by simp, fun b i hp => absurd (hpend b i hp) (hnop b i), trivial, by simp, fun h => absurd h hs0', by simp⟩
    · simp only [hemp, Bool.false_eq_true, ↓reduceIte] at h
      have hlen : 0 < st1.win.length := by
        rcases hw : st1.win with _ | ⟨a, t⟩
        · rw [hw] at hemp; simp at hemp
        · simp
      generalize hidx : (if st1.idx ≥ st1.win.length then 0 else st1.idx) = idx at h
      have hidxlt : idx < st1.win.length := by rw [← hidx]; split <;> omega
      have hidx0 : st1.sent = 0 → idx = 0 := by
        intro hs
        have := (i1.fresh hs).1
        rw [← hidx, this]; simp
      cases hb : st1.win[idx]? with
      | none => rw [List.getElem?_eq_none_iff] at hb; omega
      | some blk =>
        simp only [hb] at h
        have hmem : blk ∈ st1.win := List.mem_of_getElem? hb
        cases hrest : blk.rest with
        | nil =>
          simp only [hrest] at h
          have hSI2 := SI_erase e he st1 idx idx blk i1 hb hrest
          obtain ⟨q1, q2, q3, q4, q5, q6⟩ := ih _ T hSI2 h
          refine ⟨q1, ?_, q3, fun hs => q4 (by simp only; omega), fun hs => q5 (by simp only; omega), q6⟩
          intro b i hp
          apply q2 b i
          rcases hpend b i hp with ⟨blk', hb', h1, h2, h3⟩ | hp2
          · left
            refine ⟨blk', ?_, h1, h2, h3⟩
            apply mem_eraseIdx_of_ne st1.win idx blk' blk hb' hb
            intro heq; rw [heq, hrest] at h2; simp at h2
          · exact Or.inr hp2
        | cons esi rest =>
          simp only [hrest] at h
          obtain ⟨hSI2, hgen, hfirst, hnot⟩ := SI_emit e st1 idx blk esi rest i1 hb hrest hidx0
          -- the rest of the listing
          cases hT' : emitLoop e (totalSrc e.ks) n
              { st1 with win := st1.win.set idx { blk with rest := rest }, idx := idx + 1,
                         srcSent := if esi < blk.k then st1.srcSent + 1 else st1.srcSent, sent := st1.sent + 1 } with
          | none => rw [hT'] at h; simp at h
          | some T' =>
            rw [hT'] at h
            simp only [Option.map_some, Option.some.injEq] at h
            obtain ⟨q1, q2, q3, q4, q5, q6⟩ := ih _ T' hSI2 hT'
            have q4' := q4 (by simp only; omega)
            subst h
            refine ⟨?_, ?_, ?_, ?_, ?_, ?_⟩
            · intro s hs
              rcases List.mem_cons.mp hs with rfl | hs
              · exact hgen
              · exact q1 s hs
            · intro b i hp
              rcases hpend b i hp with ⟨blk', hb', h1, h2, h3⟩ | hp2
              · by_cases heq : blk' = blk
                · subst heq
                  rw [hrest] at h2
                  rcases List.mem_cons.mp h2 with h2 | h2
                  · exact ⟨_, List.mem_cons_self .., h1, h2.symm⟩
                  · obtain ⟨s, hs, hs1, hs2⟩ := q2 b i (Or.inl ⟨{ blk' with rest := rest }, mem_set_self _ _ _ _ hb, h1, h2, h3⟩)
                    exact ⟨s, List.mem_cons_of_mem _ hs, hs1, hs2⟩
                · obtain ⟨s, hs, hs1, hs2⟩ := q2 b i (Or.inl ⟨blk', mem_set_of_ne _ _ _ _ _ hb' hb heq, h1, h2, h3⟩)
                  exact ⟨s, List.mem_cons_of_mem _ hs, hs1, hs2⟩
              · obtain ⟨s, hs, hs1, hs2⟩ := q2 b i (Or.inr hp2)
                exact ⟨s, List.mem_cons_of_mem _ hs, hs1, hs2⟩
            · refine ⟨?_, q3⟩
              intro hclose
              simp only [Bool.and_eq_true, decide_eq_true_eq, List.all_eq_true] at hclose
              obtain ⟨_, ⟨hsrc, _⟩, hall⟩ := hclose
              have hdr : ∀ b, b ∈ st1.win.set idx { blk with rest := rest } → b.rest = [] := by
                intro b hb'
                have := hall b hb'
                simpa using this
              have hR := R_zero_of_drained _ hdr
              have hacct := hSI2.acct
              simp only [hR, Nat.add_zero] at hacct
              have hnextN : st1.next = e.ks.size := by
                by_cases hlt : st1.next < e.ks.size
                · have := prefixSrc_strict e.ks (fun b k hk => (he.blocks b k hk).1) st1.next hlt
                  unfold totalSrc at hsrc
                  omega
                · have := i1.next_le; omega
              exact drained_nothing e he _ n _ T' hSI2 hnextN hdr (by simp only; omega) hT'
            · intro hs s hs'
              rcases List.mem_cons.mp hs' with rfl | hs'
              · exact hnot (by rw [i3]; exact hs)
              · exact q4' s hs'
            · intro hs
              obtain ⟨f1, f2⟩ := hfirst (by rw [i3]; exact hs)
              exact ⟨_, T', by rw [f1, f2], q4'⟩
            · intro hc s hs
              rcases List.mem_cons.mp hs with rfl | hs
              · simp [hc]
              · exact q6 hc s hs

/-! ### termination: the fuel `emitFuel` always suffices -/

/-- symbols (+1 per block, for its lazy removal) still in the window -/
def W : List WBlk → Nat
  | [] => 0
  | b :: t => b.rest.length + 1 + W t

theorem W_append (a b : List WBlk) : W (a ++ b) = W a + W b := by
  induction a with
  | nil => simp [W]
  | cons x xs ih => simp [W, ih]; omega

theorem W_set : ∀ (win : List WBlk) (i : Nat) (blk blk' : WBlk), win[i]? = some blk →
    W (win.set i blk') + blk.rest.length = W win + blk'.rest.length := by
  intro win
  induction win with
  | nil => intro i blk blk' h; simp at h
  | cons x xs ih =>
    intro i blk blk' h
    cases i with
    | zero =>
      simp only [List.getElem?_cons_zero, Option.some.injEq] at h
      subst h
      simp only [List.set_cons_zero, W]; omega
    | succ n =>
      simp only [List.getElem?_cons_succ] at h
      have := ih n blk blk' h
      simp only [List.set_cons_succ, W]; omega

theorem W_eraseIdx : ∀ (win : List WBlk) (i : Nat) (blk : WBlk), win[i]? = some blk →
    W (win.eraseIdx i) + blk.rest.length + 1 = W win := by
  intro win
  induction win with
  | nil => intro i blk h; simp at h
  | cons x xs ih =>
    intro i blk h
    cases i with
    | zero =>
      simp only [List.getElem?_cons_zero, Option.some.injEq] at h
      subst h
      simp only [List.eraseIdx_cons_zero, W]; omega
    | succ n =>
      simp only [List.getElem?_cons_succ] at h
      have := ih n blk h
      simp only [List.eraseIdx_cons_succ, W]; omega

theorem fuelOf_mono (e : Enc) : ∀ n m, n ≤ m → fuelOf e n ≤ fuelOf e m := by
  intro n m h
  induction m with
  | zero => have : n = 0 := by omega
            subst this; exact Nat.le_refl _
  | succ m ih =>
    by_cases hn : n = m + 1
    · subst hn; exact Nat.le_refl _
    · have := ih (by omega)
      simp only [fuelOf]; omega

/-- what is left to do: symbols and blocks in the window, shards of the blocks not yet loaded -/
def mu (e : Enc) (st : EncSt) : Nat := W st.win + (fuelOf e e.ks.size - fuelOf e st.next)

theorem readWindow_mu (e : Enc) (he : EncOK e) : ∀ (fuel : Nat) (st : EncSt), st.next ≤ e.ks.size →
    mu e (readWindow e fuel st) = mu e st ∧ (readWindow e fuel st).next ≤ e.ks.size := by
  intro fuel
  induction fuel with
  | zero => intro st h; exact ⟨rfl, h⟩
  | succ n ih =>
    intro st h
    unfold readWindow
    by_cases hstop : (st.readEnd || decide (st.win.length ≥ e.w)) = true
    · simp only [hstop, ↓reduceIte]; exact ⟨trivial, h⟩
    · simp only [hstop, Bool.false_eq_true, ↓reduceIte]
      cases hk : e.ks[st.next]? with
      | none =>
        have hne : e.ks.isEmpty = false := by
          cases hx : e.ks.isEmpty with
          | false => rfl
          | true =>
            have := Array.isEmpty_iff_size_eq_zero.mp hx
            have := he.nonempty; omega
        simp only [hne, Bool.and_false, Bool.false_and, Bool.false_eq_true, ↓reduceIte]
        exact ⟨rfl, h⟩
      | some k =>
        obtain ⟨_, hkf⟩ := he.blocks st.next k hk
        simp only [hkf, Bool.false_eq_true, ↓reduceIte]
        have hlt : st.next < e.ks.size := (Array.getElem?_eq_some_iff.mp hk).1
        have hg : e.ks.getD st.next 0 = k := by simp [Array.getD_eq_getD_getElem?, hk]
        have hm := fuelOf_mono e (st.next + 1) e.ks.size (by omega)
        simp only [fuelOf, hg] at hm
        refine ⟨Eq.trans (ih _ ?_).1 ?_, (ih _ ?_).2⟩
        · simp only; omega
        · simp only [mu, W_append, W, List.length_range, fuelOf, hg]; omega
        · simp only; omega

/-- **the emission loop terminates**: with more fuel than there is work left it never runs out of fuel -/
theorem emitLoop_some (e : Enc) (he : EncOK e) (tot : Nat) : ∀ (fuel : Nat) (st : EncSt),
    st.next ≤ e.ks.size → mu e st < fuel → ∃ T, emitLoop e tot fuel st = some T := by
  intro fuel
  induction fuel with
  | zero => intro st _ h; omega
  | succ n ih =>
    intro st hnext hmu
    unfold emitLoop
    obtain ⟨m1, m2⟩ := readWindow_mu e he (e.w + 1) st hnext
    generalize readWindow e (e.w + 1) st = st1 at m1 m2
    dsimp only
    by_cases hemp : st1.win.isEmpty = true
    · simp only [hemp, ↓reduceIte]
      split <;> exact ⟨_, rfl⟩
    · simp only [hemp, Bool.false_eq_true, ↓reduceIte]
      have hlen : 0 < st1.win.length := by
        rcases hw : st1.win with _ | ⟨a, t⟩
        · rw [hw] at hemp; simp at hemp
        · simp
      generalize hidx : (if st1.idx ≥ st1.win.length then 0 else st1.idx) = idx
      have hidxlt : idx < st1.win.length := by rw [← hidx]; split <;> omega
      cases hb : st1.win[idx]? with
      | none => rw [List.getElem?_eq_none_iff] at hb; omega
      | some blk =>
        simp only
        cases hrest : blk.rest with
        | nil =>
          simp only
          apply ih
          · exact m2
          · have := W_eraseIdx st1.win idx blk hb
            simp only [mu] at m1 hmu ⊢
            rw [hrest] at this
            simp only [List.length_nil, Nat.add_zero] at this
            omega
        | cons esi rest =>
          simp only
          have key : ∀ (f : List Sym → List Sym) (st2 : EncSt), st2.next ≤ e.ks.size → mu e st2 < n →
              ∃ T, Option.map f (emitLoop e tot n st2) = some T := by
            intro f st2 h1 h2
            obtain ⟨T, hT⟩ := ih st2 h1 h2
            exact ⟨f T, by rw [hT]; rfl⟩
          apply key
          · exact m2
          · have := W_set st1.win idx blk { blk with rest := rest } hb
            simp only [mu] at m1 hmu ⊢
            rw [hrest] at this
            simp only [List.length_cons] at this
            omega

/-- one transfer is always produced (the model's `hang` outcome never occurs) -/
theorem emit_terminates (e : Enc) (he : EncOK e) : ∃ T, emitTransfer e = some T := by
  unfold emitTransfer
  apply emitLoop_some e he _ _ encInit (by simp [encInit])
  simp only [mu, encInit, W, fuelOf, emitFuel]
  omega

theorem SI_init (e : Enc) : SI e encInit := by
  refine ⟨by simp [encInit], by simp [encInit], by simp [encInit], by simp [encInit, R, prefixSrc], ?_, by simp [encInit]⟩
  intro _
  simp [encInit]

theorem onlyLast_split : ∀ (T : List Sym), OnlyLast T → ∀ a s b, T = a ++ s :: b → s.close = true → b = [] := by
  intro T
  induction T with
  | nil => intro _ a s b h; simp at h
  | cons x t ih =>
    intro hT a s b hab hs
    cases a with
    | nil =>
      simp only [List.nil_append, List.cons.injEq] at hab
      obtain ⟨rfl, rfl⟩ := hab
      exact hT.1 hs
    | cons y a' =>
      simp only [List.cons_append, List.cons.injEq] at hab
      exact ih hT.2 a' s b hab.2 hs

/-- **Sender facts of one transfer** (blockencoder.rs), for ANY block sizes, parity, window ≥ 1 and
    scheme whose blocks can be encoded: every packet has an SBN of the partition and an ESI of its
    block's table; every source symbol of every block is emitted; the listing starts with
    (SBN 0, ESI 0), which occurs nowhere else; the close-object flag sits on the very last packet only
    (D3 repaired) and nowhere when the transfer is not the last one (`closable = false`: carousel,
    earlier transfers). -/
theorem emitTransfer_facts (e : Enc) (he : EncOK e) (T : List Sym) (h : emitTransfer e = some T) :
    (∀ s, s ∈ T → ∃ k, e.ks[s.sbn]? = some k ∧ s.esi < shardsOf e.scheme k e.p) ∧
    (∀ (b k i : Nat), e.ks[b]? = some k → i < k → ∃ s, s ∈ T ∧ s.sbn = b ∧ s.esi = i) ∧
    OnlyLast T ∧
    (∃ c T', T = { sbn := 0, esi := 0, close := c } :: T' ∧ ∀ s, s ∈ T' → ¬ (s.sbn = 0 ∧ s.esi = 0)) ∧
    (e.closable = false → ∀ s, s ∈ T → s.close = false) := by
  unfold emitTransfer at h
  obtain ⟨q1, q2, q3, _, q5, q6⟩ := emitLoop_spec e he _ _ T (SI_init e) h
  refine ⟨q1, ?_, q3, q5 rfl, q6⟩
  intro b k i hk hi
  exact q2 b i (Or.inr ⟨by simp [encInit], k, hk, hi⟩)

end Flute.Lemmas.Session
