import FluteModel.Lemmas.RecvBasic
/-
  C19 helper lemmas: the only two places where the receiver attaches an object to an FDT instance
  (`create_obj` scanning `fdt_current`, `attach_latest_fdt_to_objects` after a completion) do so
  through an instance that is `Complete` and - when its expiry check is enabled - unexpired on the
  receiver's estimate of the sender clock at that very moment.
-/
namespace Flute.Recv
variable {σ : Type}

/-- unexpired at receiver time `now` on the receiver's estimate of the sender clock:
    `get_server_time(now) <= Expires` -/
def FdtRecv.Unexpired (f : FdtRecv σ) (now : Int) : Prop :=
  ∃ e t, f.expires = some e ∧ f.serverTime now = .ok t ∧ t ≤ e

/-- the guard under which objects are attached to instance `f` at time `now` -/
def FdtRecv.Usable (f : FdtRecv σ) (now : Int) : Prop :=
  f.st = .complete ∧ (f.check = true → f.Unexpired now)

theorem updateExpired_complete {f f' : FdtRecv σ} {now : Int}
    (h : f.updateExpired now = .ok f') (hc : f'.st = .complete) : f' = f ∧ f'.Usable now := by
  unfold FdtRecv.updateExpired at h
  by_cases hst : f.st = .complete
  · by_cases hchk : f.check = true
    · simp only [hst, ne_eq, not_true_eq_false, ↓reduceIte, hchk] at h
      split at h
      · cases h
      · injection h with h; subst h; simp at hc
      · rename_i hex
        injection h with h; subst h
        refine ⟨rfl, hc, fun _ => ?_⟩
        unfold FdtRecv.isExpired at hex
        split at hex
        · cases hex
        · rename_i e he
          split at hex
          · cases hex
          · rename_i t ht
            injection hex with hex
            exact ⟨e, t, he, ht, by simpa using hex⟩
    · simp only [hst, ne_eq, not_true_eq_false, ↓reduceIte, hchk] at h
      injection h with h; subst h
      exact ⟨rfl, hc, fun h => absurd h hchk⟩
  · simp only [ne_eq, hst, not_false_eq_true, ↓reduceIte] at h
    injection h with h; subst h
    exact absurd hc hst

theorem updateExpired_bytes {f f' : FdtRecv σ} {now : Int} (h : f.updateExpired now = .ok f') :
    f'.bytes = f.bytes := by
  unfold FdtRecv.updateExpired at h
  split at h
  · injection h with h; subst h; rfl
  · split at h
    · split at h
      · cases h
      · injection h with h; subst h; rfl
      · injection h with h; subst h; rfl
    · injection h with h; subst h; rfl

theorem updateExpired_fields {f f' : FdtRecv σ} {now : Int} (h : f.updateExpired now = .ok f') :
    f'.fdtId = f.fdtId ∧ f'.inst = f.inst ∧ f'.check = f.check ∧ f'.expires = f.expires ∧
    f'.offset = f.offset ∧ f'.late = f.late ∧ f'.obj = f.obj ∧ f'.utf8 = f.utf8 ∧ f'.hasMeta = f.hasMeta := by
  unfold FdtRecv.updateExpired at h
  split at h
  · injection h with h; subst h; simp
  · split at h
    · split at h
      · cases h
      · injection h with h; subst h; simp
      · injection h with h; subst h; simp
    · injection h with h; subst h; simp

theorem createScan_attach (I : ObjIface σ) (toi : Nat) (now : Int) :
    ∀ (l : List (FdtRecv σ)) (o o' : σ) (l' : List (FdtRecv σ)) (evs : List Ev),
      createScan I toi now o l = .ok (o', l', evs) →
      ∀ t i, Ev.attach t i ∈ evs → t = toi ∧ ∃ f ∈ l', f.fdtId = i ∧ f.Usable now := by
  intro l
  induction l with
  | nil =>
    intro o o' l' evs h t i hm
    simp [createScan] at h
    obtain ⟨_, _, rfl⟩ := h
    simp at hm
  | cons f r ih =>
    intro o o' l' evs h t i hm
    unfold createScan at h
    split at h
    · cases h
    · rename_i f' hup
      simp only [] at h
      split at h
      · -- attached to f'
        rename_i o1 evs1 hatt
        simp only [Except.ok.injEq, Prod.mk.injEq] at h
        obtain ⟨rfl, rfl, rfl⟩ := h
        rcases List.mem_append.mp hm with hm | hm
        · exact absurd hm (noAttach_wevs _ _ t i)
        · simp at hm
          obtain ⟨rfl, rfl⟩ := hm
          refine ⟨rfl, f', by simp, rfl, ?_⟩
          -- the attempt was made, hence f'.st = complete
          by_cases hst : f'.st = .complete
          · exact (updateExpired_complete hup hst).2
          · simp [hst] at hatt
      · rename_i o1 evs1 hatt
        split at h
        · cases h
        · rename_i o2 r2 ev2 hrec
          simp only [Except.ok.injEq, Prod.mk.injEq] at h
          obtain ⟨rfl, rfl, rfl⟩ := h
          rcases List.mem_append.mp hm with hm | hm
          · exact absurd hm (noAttach_wevs _ _ t i)
          · obtain ⟨ht, g, hg, hgi, hgu⟩ := ih _ _ _ _ hrec t i hm
            exact ⟨ht, g, List.mem_cons_of_mem _ hg, hgi, hgu⟩
      · split at h
        · cases h
        · rename_i o2 r2 ev2 hrec
          simp only [Except.ok.injEq, Prod.mk.injEq] at h
          obtain ⟨rfl, rfl, rfl⟩ := h
          obtain ⟨ht, g, hg, hgi, hgu⟩ := ih _ _ _ _ hrec t i hm
          exact ⟨ht, g, List.mem_cons_of_mem _ hg, hgi, hgu⟩


theorem attachAll_attach (I : ObjIface σ) (id : Nat) (inst : FdtAbs) (objs : List (Nat × σ)) :
    ∀ t i, Ev.attach t i ∈ (attachAll I id inst objs).2.2 → i = id := by
  induction objs with
  | nil => intro t i h; simp [attachAll] at h
  | cons a r ih =>
    intro t i h
    obtain ⟨toi, o⟩ := a
    simp only [attachAll] at h
    rcases List.mem_append.mp h with h | h
    · rcases List.mem_append.mp h with h | h
      · exact absurd h (noAttach_wevs _ _ t i)
      · split at h
        · simp at h; exact h.2
        · simp at h
    · exact ih t i h

theorem attachLatest_fdt (I : ObjIface σ) (s : State σ) :
    (attachLatest I s).1.fdtCurrent = s.fdtCurrent ∧
    (attachLatest I s).1.fdtReceivers = s.fdtReceivers ∧
    (attachLatest I s).1.cfg = s.cfg := by
  unfold attachLatest
  split
  · simp
  · split
    · simp
    · rename_i f _ _ _ inst _
      simp only []
      exact checkObjectStates_fdt I
        { s with objects := (attachAll I f.fdtId inst s.objects).1 } (attachAll I f.fdtId inst s.objects).2.1

theorem attachLatest_attach (I : ObjIface σ) (s : State σ) :
    ∀ t i, Ev.attach t i ∈ (attachLatest I s).2 → ∃ f r, s.fdtCurrent = f :: r ∧ f.fdtId = i := by
  intro t i h
  unfold attachLatest at h
  split at h
  · simp at h
  · rename_i f r hcur
    split at h
    · simp at h
    · simp only [] at h
      rcases List.mem_append.mp h with h | h
      · exact ⟨f, r, hcur, (attachAll_attach I _ _ _ t i h).symm⟩
      · exact absurd h (checkObjectStates_noAttach _ _ _ t i)

theorem gcObjectCompleted_fdt (s : State σ) :
    (gcObjectCompleted s).fdtCurrent = s.fdtCurrent ∧
    (gcObjectCompleted s).fdtReceivers = s.fdtReceivers ∧
    (gcObjectCompleted s).cfg = s.cfg := by
  unfold gcObjectCompleted
  split
  · simp
  · split
    · simp
    · split <;> simp

theorem updateCcLoop_noAttach (e : Option Int) (fs : List FileAbs) (c : List (Nat × CacheControl)) :
    NoAttach (updateCcLoop e fs c).2 := by
  induction fs generalizing c with
  | nil => simp [updateCcLoop]; exact NoAttach.nil
  | cons x xs ih =>
    unfold updateCcLoop
    simp only []
    split
    · split
      · intro t i h
        simp at h
        exact ih _ t i h
      · exact ih _
    · exact ih _

theorem updateCompletedCc_fdt (s : State σ) :
    (updateCompletedCc s).1.fdtCurrent = s.fdtCurrent ∧
    (updateCompletedCc s).1.fdtReceivers = s.fdtReceivers ∧
    (updateCompletedCc s).1.cfg = s.cfg := by
  unfold updateCompletedCc
  split
  · simp
  · split
    · simp
    · split <;> simp

theorem updateCompletedCc_noAttach (s : State σ) : NoAttach (updateCompletedCc s).2 := by
  unfold updateCompletedCc
  split
  · exact NoAttach.nil
  · split
    · exact NoAttach.nil
    · split
      · exact NoAttach.nil
      · exact updateCcLoop_noAttach _ _ _


/-- the conclusion shared by all attach-soundness lemmas -/
def AttachSound (now : Int) (s' : State σ) (evs : List Ev) : Prop :=
  ∀ t i, Ev.attach t i ∈ evs → ∃ f ∈ s'.fdtCurrent, f.fdtId = i ∧ f.Usable now

theorem AttachSound.of_noAttach {now : Int} {s' : State σ} {evs : List Ev} (h : NoAttach evs) :
    AttachSound now s' evs := fun t i hm => absurd hm (h t i)

theorem createObj_attach (I : ObjIface σ) (s s' : State σ) (toi : Nat) (now : Int) (evs : List Ev)
    (h : createObj I s toi now = .ok (s', evs)) : AttachSound now s' evs := by
  unfold createObj at h
  split at h
  · cases h
  · rename_i o cur ev hscan
    simp only [Except.ok.injEq, Prod.mk.injEq] at h
    obtain ⟨rfl, rfl⟩ := h
    intro t i hm
    obtain ⟨_, f, hf, hfi, hfu⟩ := createScan_attach I toi now _ _ _ _ _ hscan t i hm
    exact ⟨f, hf, hfi, hfu⟩

theorem pushObjCore_attach (I : ObjIface σ) (s s' : State σ) (p : Pkt) (now : Int) (r : Res)
    (evs : List Ev) (h : pushObjCore I s p now = .ok (s', r, evs)) : AttachSound now s' evs := by
  unfold pushObjCore at h
  simp only [] at h
  split at h
  · cases h
  · rename_i s1 e0 hc
    have hs1 : AttachSound now s1 e0 := by
      split at hc
      · exact createObj_attach I _ _ _ _ _ hc
      · simp only [Except.ok.injEq, Prod.mk.injEq] at hc
        obtain ⟨rfl, rfl⟩ := hc
        exact AttachSound.of_noAttach NoAttach.nil
    split at h
    · simp only [Except.ok.injEq, Prod.mk.injEq] at h
      obtain ⟨rfl, _, rfl⟩ := h
      exact hs1
    · rename_i o ho
      simp only [Except.ok.injEq, Prod.mk.injEq] at h
      obtain ⟨rfl, _, rfl⟩ := h
      intro t i hm
      have hfr := checkObjectState_fdt I { s1 with objects := ainsert p.toi (I.push o p).1 s1.objects } p.toi
      simp only [] at hfr
      rcases List.mem_append.mp hm with hm | hm
      · rcases List.mem_append.mp hm with hm | hm
        · obtain ⟨f, hf, h2⟩ := hs1 t i hm
          exact ⟨f, by rw [hfr.1]; exact hf, h2⟩
        · exact absurd hm (noAttach_wevs _ _ t i)
      · exact absurd hm (checkObjectState_noAttach _ _ _ t i)

theorem gateCompleted_fdt {s s1 : State σ} {p : Pkt} (h : gateCompleted s p = .inl s1) :
    s1.fdtCurrent = s.fdtCurrent ∧ s1.fdtReceivers = s.fdtReceivers ∧ s1.cfg = s.cfg := by
  unfold gateCompleted at h
  split at h
  · split at h
    · cases h
    · split at h
      · cases h
      · split at h
        · injection h with h; subst h; simp
        · cases h
  · injection h with h; subst h; simp

theorem gateError_fdt {s s1 : State σ} {p : Pkt} (h : gateError s p = .inl s1) :
    s1.fdtCurrent = s.fdtCurrent ∧ s1.fdtReceivers = s.fdtReceivers ∧ s1.cfg = s.cfg := by
  unfold gateError at h
  split at h
  · split at h
    · cases h
    · split at h
      · injection h with h; subst h; simp
      · cases h
  · injection h with h; subst h; simp

theorem pushObj_attach (I : ObjIface σ) (s s' : State σ) (p : Pkt) (now : Int) (r : Res)
    (evs : List Ev) (h : pushObj I s p now = .ok (s', r, evs)) : AttachSound now s' evs := by
  unfold pushObj at h
  split at h
  · simp only [Except.ok.injEq, Prod.mk.injEq] at h
    obtain ⟨_, _, rfl⟩ := h
    exact AttachSound.of_noAttach NoAttach.nil
  · split at h
    · simp only [Except.ok.injEq, Prod.mk.injEq] at h
      obtain ⟨_, _, rfl⟩ := h
      exact AttachSound.of_noAttach NoAttach.nil
    · exact pushObjCore_attach I _ _ _ _ _ _ h

theorem mem_dropLast_head {α} (a : α) (r : List α) (h : (a :: r).length > 10) :
    a ∈ (a :: r).dropLast := by
  cases r with
  | nil => simp at h
  | cons b t => simp [List.dropLast]

theorem fdtCompleted_attach (I : ObjIface σ) (s s' : State σ) (id : Nat) (now : Int) (r : Res)
    (evs : List Ev) (f : FdtRecv σ) (hf : alookup id s.fdtReceivers = some f) (hu : f.Usable now)
    (h : fdtCompleted I s id = .ok (s', r, evs)) : AttachSound now s' evs := by
  unfold fdtCompleted at h
  simp only [] at h
  split at h
  · cases h
  · rw [hf] at h
    simp only [] at h
    split at h
    · cases h
    · rename_i e0 hcb
      simp only [Except.ok.injEq, Prod.mk.injEq] at h
      obtain ⟨rfl, _, rfl⟩ := h
      have he0 : NoAttach e0 := by
        unfold fdtCb at hcb
        split at hcb
        · split at hcb
          · injection hcb with hcb; subst hcb; intro t i hm; simp at hm
          · cases hcb
        · injection hcb with hcb; subst hcb; exact NoAttach.nil
      -- abbreviations for the intermediate states
      generalize hs0 : ({ s with fdtReceivers := aerase id s.fdtReceivers, fdtCurrent := f :: s.fdtCurrent } : State σ) = s0
      have hcur0 : s0.fdtCurrent = f :: s.fdtCurrent := by subst hs0; rfl
      have h1 := attachLatest_fdt I s0
      have h2 := gcObjectCompleted_fdt (attachLatest I s0).1
      have h3 := updateCompletedCc_fdt (gcObjectCompleted (attachLatest I s0).1)
      have hcur3 : (updateCompletedCc (gcObjectCompleted (attachLatest I s0).1)).1.fdtCurrent = f :: s.fdtCurrent := by
        rw [h3.1, h2.1, h1.1, hcur0]
      have hmemf : f ∈ (if (updateCompletedCc (gcObjectCompleted (attachLatest I s0).1)).1.fdtCurrent.length > 10 then
            { (updateCompletedCc (gcObjectCompleted (attachLatest I s0).1)).1 with
              fdtCurrent := (updateCompletedCc (gcObjectCompleted (attachLatest I s0).1)).1.fdtCurrent.dropLast }
          else (updateCompletedCc (gcObjectCompleted (attachLatest I s0).1)).1).fdtCurrent := by
        split
        · rename_i hlen
          simp only []
          rw [hcur3] at hlen ⊢
          exact mem_dropLast_head _ _ hlen
        · rw [hcur3]; simp
      intro t i hm
      rcases List.mem_append.mp hm with hm | hm
      · rcases List.mem_append.mp hm with hm | hm
        · exact absurd hm (he0 t i)
        · obtain ⟨g, r', hg, hgi⟩ := attachLatest_attach I s0 t i hm
          rw [hcur0] at hg
          injection hg with hg1 _
          subst hg1
          exact ⟨f, hmemf, hgi, hu⟩
      · exact absurd hm (updateCompletedCc_noAttach _ t i)


theorem fdtDispatch_attach (I : ObjIface σ) (s s' : State σ) (id : Nat) (f : FdtRecv σ) (now : Int)
    (r : Res) (evs : List Ev) (hf : alookup id s.fdtReceivers = some f)
    (hu : f.st = .complete → f.Usable now)
    (h : fdtDispatch I s id f now = .ok (s', r, evs)) : AttachSound now s' evs := by
  unfold fdtDispatch at h
  split at h
  · simp only [Except.ok.injEq, Prod.mk.injEq] at h
    obtain ⟨_, _, rfl⟩ := h; exact AttachSound.of_noAttach NoAttach.nil
  · simp only [Except.ok.injEq, Prod.mk.injEq] at h
    obtain ⟨_, _, rfl⟩ := h; exact AttachSound.of_noAttach NoAttach.nil
  · split at h
    · cases h
    · split at h
      · cases h
      · split at h
        · cases h
        · simp only [Except.ok.injEq, Prod.mk.injEq] at h
          obtain ⟨_, _, rfl⟩ := h; exact AttachSound.of_noAttach NoAttach.nil
  · rename_i hst
    exact fdtCompleted_attach I s s' id now r evs f hf (hu hst) h

theorem pushFdtObjP_attach (I : ObjIface σ) (s s' : State σ) (p : Pkt) (now : Int) (ans : FdtAns)
    (r : Res) (evs : List Ev) (h : pushFdtObj' I s p now ans = .ok (s', r, evs)) :
    AttachSound now s' evs := by
  unfold pushFdtObj' at h
  split at h
  · split at h
    · simp only [Except.ok.injEq, Prod.mk.injEq] at h
      obtain ⟨_, _, rfl⟩ := h; exact AttachSound.of_noAttach NoAttach.nil
    · split at h <;>
      · simp only [Except.ok.injEq, Prod.mk.injEq] at h
        obtain ⟨_, _, rfl⟩ := h; exact AttachSound.of_noAttach NoAttach.nil
  · rename_i id _
    split at h
    · simp only [Except.ok.injEq, Prod.mk.injEq] at h
      obtain ⟨_, _, rfl⟩ := h; exact AttachSound.of_noAttach NoAttach.nil
    · simp only [] at h
      split at h
      · simp only [Except.ok.injEq, Prod.mk.injEq] at h
        obtain ⟨_, _, rfl⟩ := h; exact AttachSound.of_noAttach NoAttach.nil
      · split at h
        · cases h
        · rename_i f hupd
          refine fdtDispatch_attach I _ s' id f now r evs (alookup_ainsert_self _ _ _) ?_ h
          intro hst
          split at hupd
          · exact (updateExpired_complete hupd hst).2
          · rename_i hne
            injection hupd with hupd
            subst hupd
            exact absurd hst hne

theorem pushFdtObj_attach (I : ObjIface σ) (s s' : State σ) (p : Pkt) (now : Int) (ans : FdtAns)
    (r : Res) (evs : List Ev) (h : pushFdtObj I s p now ans = .ok (s', r, evs)) :
    AttachSound now s' evs :=
  pushFdtObjP_attach I _ s' p now ans r evs h

theorem push_attach (I : ObjIface σ) (s s' : State σ) (p : Pkt) (now : Int) (ans : FdtAns)
    (r : Res) (evs : List Ev) (h : push I s p now ans = .ok (s', r, evs)) :
    AttachSound now s' evs := by
  unfold push at h
  simp only [] at h
  split at h
  · exact pushFdtObj_attach I _ _ _ _ _ _ _ h
  · exact pushObj_attach I _ _ _ _ _ _ h

theorem removeObjects_noAttach (I : ObjIface σ) (s : State σ) (l : List Nat) :
    NoAttach (removeObjects I s l).2 := by
  induction l generalizing s with
  | nil => simp [removeObjects]; exact NoAttach.nil
  | cons t ts ih =>
    simp only [removeObjects]
    exact NoAttach.append (removeObject_noAttach _ _ _) (ih _)

theorem cleanup_noAttach (I : ObjIface σ) (s s' : State σ) (now : Int) (stale : Stale)
    (evs : List Ev) (h : cleanup I s now stale = .ok (s', evs)) : NoAttach evs := by
  unfold cleanup at h
  simp only [] at h
  split at h
  · cases h
  · simp only [Except.ok.injEq, Prod.mk.injEq] at h
    obtain ⟨_, rfl⟩ := h
    unfold cleanupObjects
    split
    · exact NoAttach.nil
    · exact removeObjects_noAttach _ _ _

theorem step_attach (I : ObjIface σ) (s s' : State σ) (op : Op) (r : Res) (evs : List Ev)
    (h : step I s op = .ok (s', r, evs)) : AttachSound op.now s' evs := by
  cases op with
  | data d now ans =>
    simp only [step, pushData] at h
    split at h
    · simp only [Except.ok.injEq, Prod.mk.injEq] at h
      obtain ⟨_, _, rfl⟩ := h; exact AttachSound.of_noAttach NoAttach.nil
    · simp only [Except.ok.injEq, Prod.mk.injEq] at h
      obtain ⟨_, _, rfl⟩ := h; exact AttachSound.of_noAttach NoAttach.nil
    · exact push_attach I _ _ _ _ _ _ _ h
  | cleanup now stale =>
    simp only [step] at h
    split at h
    · cases h
    · rename_i s1 ev hc
      simp only [Except.ok.injEq, Prod.mk.injEq] at h
      obtain ⟨_, _, rfl⟩ := h
      exact AttachSound.of_noAttach (cleanup_noAttach I _ _ _ _ _ hc)

end Flute.Recv
