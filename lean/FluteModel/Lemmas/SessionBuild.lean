import FluteModel.Lemmas.SessionLife
/-
  The merged stream (`buildStream`): whatever the schedule, the packets of one source appear in
  the stream in the order its block encoder emits them, transfer after transfer.
-/
namespace Flute.Lemmas.Session
open Flute.Session

/-- what a non-carousel source still has to emit -/
def remainingOf (x : Src) : List Sym :=
  x.rest ++ (List.replicate (x.transfers - 1 - x.t) x.tr).flatten ++
    (if x.t < x.transfers then x.trLast else if x.transfers = 0 ∧ x.t = 0 then x.tr else [])

theorem pull_remaining (x x' : Src) (q : Sym) (hc : x.carousel = false) (h : x.pull = some (q, x')) :
    remainingOf x = q :: remainingOf x' ∧ x'.carousel = false ∧ x'.slot = x.slot := by
  unfold Src.pull at h
  cases hr : x.rest with
  | cons a r =>
    simp only [hr, Option.some.injEq, Prod.mk.injEq] at h
    obtain ⟨rfl, rfl⟩ := h
    simp [remainingOf, hr, hc]
  | nil =>
    simp only [hr] at h
    unfold Src.listing at h
    simp only [hc, Bool.false_eq_true, ↓reduceIte] at h
    by_cases h1 : x.t + 1 < x.transfers
    · simp only [h1, ↓reduceIte] at h
      cases htr : x.tr with
      | nil => simp [htr] at h
      | cons a r =>
        simp only [htr, Option.some.injEq, Prod.mk.injEq] at h
        obtain ⟨rfl, rfl⟩ := h
        have e : x.transfers - 1 - x.t = (x.transfers - 1 - (x.t + 1)) + 1 := by omega
        have h2 : x.t < x.transfers := by omega
        simp only [remainingOf, hr, List.nil_append, e, List.replicate_succ, List.flatten_cons, htr, h1, h2,
          ↓reduceIte, List.cons_append, List.append_assoc, hc, and_self, and_true]
    · simp only [h1, ↓reduceIte] at h
      by_cases h2 : x.t + 1 = x.transfers
      · simp only [h2, ↓reduceIte] at h
        cases htr : x.trLast with
        | nil => simp [htr] at h
        | cons a r =>
          simp only [htr, Option.some.injEq, Prod.mk.injEq] at h
          obtain ⟨rfl, rfl⟩ := h
          have e : x.transfers - 1 - x.t = 0 := by omega
          have h3 : x.t < x.transfers := by omega
          have h4 : ¬ (x.t + 1 < x.transfers) := by omega
          have e2 : x.transfers - 1 - (x.t + 1) = 0 := by omega
          have h5 : ¬ (x.t + 1 < x.transfers) := by omega
          have h6 : ¬ (x.transfers = 0 ∧ x.t + 1 = 0) := by omega
          have h7 : x.transfers ≠ 0 := by omega
          simp [remainingOf, hr, e, e2, htr, h3, h4, h5, h6, h7, hc]
      · simp only [h2, ↓reduceIte] at h
        by_cases h0 : x.transfers = 0 ∧ x.t = 0
        · simp only [h0, and_self, ↓reduceIte] at h
          cases htr : x.tr with
          | nil => simp [htr] at h
          | cons a r =>
            simp only [htr, Option.some.injEq, Prod.mk.injEq] at h
            obtain ⟨rfl, rfl⟩ := h
            have ht0 : x.transfers = 0 := h0.1
            have htt : x.t = 0 := h0.2
            simp [remainingOf, hr, htr, ht0, htt, hc]
        · simp [h0] at h

def findSrc (srcs : List Src) (k : Slot) : Option Src := srcs.find? (fun x => x.slot == k)

/-- `pullFrom` touches the first source of that slot only -/
theorem pullFrom_spec : ∀ (srcs srcs' : List Src) (k : Slot) (q : Sym), pullFrom srcs k = some (q, srcs') →
    ∃ x x', findSrc srcs k = some x ∧ x.pull = some (q, x') ∧
      (x'.slot = x.slot → findSrc srcs' k = some x' ∧ ∀ k', k' ≠ k → findSrc srcs' k' = findSrc srcs k') := by
  intro srcs
  induction srcs with
  | nil => intro srcs' k q h; simp [pullFrom] at h
  | cons a t ih =>
    intro srcs' k q h
    unfold pullFrom at h
    by_cases hs : (a.slot == k) = true
    · simp only [hs, ↓reduceIte] at h
      cases hp : a.pull with
      | none => simp [hp] at h
      | some r =>
        obtain ⟨q', a'⟩ := r
        simp only [hp, Option.some.injEq, Prod.mk.injEq] at h
        obtain ⟨rfl, rfl⟩ := h
        refine ⟨a, a', by simp [findSrc, List.find?_cons, hs], hp, ?_⟩
        intro hsl
        have hs' : (a'.slot == k) = true := by rw [hsl]; exact hs
        refine ⟨by simp [findSrc, List.find?_cons, hs'], ?_⟩
        intro k' hk'
        have hk : a.slot = k := by simpa using hs
        have e1 : (a.slot == k') = false := by rw [hk]; exact beq_false_of_ne (fun h => hk' h.symm)
        have e2 : (a'.slot == k') = false := by rw [hsl]; exact e1
        simp [findSrc, List.find?_cons, e1, e2]
    · simp only [hs, Bool.false_eq_true, ↓reduceIte] at h
      cases hp : pullFrom t k with
      | none => simp [hp] at h
      | some r =>
        obtain ⟨q', t'⟩ := r
        simp only [hp, Option.some.injEq, Prod.mk.injEq] at h
        obtain ⟨rfl, rfl⟩ := h
        obtain ⟨x, x', hx1, hx2, hx3⟩ := ih t' k q' hp
        refine ⟨x, x', by simpa [findSrc, List.find?_cons, hs] using hx1, hx2, ?_⟩
        intro hsl
        obtain ⟨y1, y2⟩ := hx3 hsl
        refine ⟨by simpa [findSrc, List.find?_cons, hs] using y1, ?_⟩
        intro k' hk'
        have := y2 k' hk'
        simp only [findSrc, List.find?_cons] at this ⊢
        split <;> simp_all

/-- **the scheduler only interleaves**: in the merged stream the packets of a non-carousel object are
    a prefix of what its encoder emits over its life, in order - whatever the schedule -/
theorem buildStream_object (o : ObjCfg) (hto : o.toi ≠ 0) : ∀ (sched : List Slot) (srcs : List Src) (stream : List Pkt) (x : Src),
    buildStream srcs sched = some stream → findSrc srcs (Slot.obj o.toi) = some x → x.carousel = false →
    ∃ x', osyms o stream ++ remainingOf x' = remainingOf x := by
  intro sched
  induction sched with
  | nil =>
    intro srcs stream x h _ _
    simp only [buildStream, Option.some.injEq] at h
    subst h
    exact ⟨x, by simp [osyms]⟩
  | cons k rest ih =>
    intro srcs stream x h hx hc
    unfold buildStream at h
    cases hp : pullFrom srcs k with
    | none => simp [hp] at h
    | some r =>
      obtain ⟨sy, srcs'⟩ := r
      simp only [hp] at h
      cases hb : buildStream srcs' rest with
      | none => simp [hb] at h
      | some ps =>
        simp only [hb, Option.map_some, Option.some.injEq] at h
        subst h
        obtain ⟨y, y', hy1, hy2, hy3⟩ := pullFrom_spec srcs srcs' k sy hp
        by_cases hk : k = Slot.obj o.toi
        · subst hk
          rw [hx] at hy1; cases hy1
          obtain ⟨r1, r2, r3⟩ := pull_remaining x y' sy hc hy2
          obtain ⟨z1, _⟩ := hy3 r3
          obtain ⟨x', hx'⟩ := ih srcs' ps y' hb z1 r2
          refine ⟨x', ?_⟩
          have e : osyms o (mkPkt (Slot.obj o.toi) sy :: ps) = sy :: osyms o ps := by
            simp [osyms, mkPkt, List.filter_cons, toSym]
          rw [e, r1, List.cons_append, hx']
        · -- another source: the object's source is not touched
          have hsl : y'.slot = y.slot := by
            unfold Src.pull at hy2
            split at hy2
            · simp only [Option.some.injEq, Prod.mk.injEq] at hy2; rw [← hy2.2]
            · split at hy2
              · simp only [Option.some.injEq, Prod.mk.injEq] at hy2; rw [← hy2.2]
              · simp at hy2
          obtain ⟨_, z2⟩ := hy3 hsl
          have hx2 : findSrc srcs' (Slot.obj o.toi) = some x := by rw [z2 _ (fun h => hk h.symm)]; exact hx
          obtain ⟨x', hx'⟩ := ih srcs' ps x hb hx2 hc
          refine ⟨x', ?_⟩
          have e : osyms o (mkPkt k sy :: ps) = osyms o ps := by
            cases k with
            | fdt id =>
              have : (0 == o.toi) = false := beq_false_of_ne (fun h => hto h.symm)
              simp [osyms, mkPkt, List.filter_cons, this]
            | obj t =>
              have : (t == o.toi) = false := beq_false_of_ne (fun h => hk (by rw [h]))
              simp [osyms, mkPkt, List.filter_cons, this]
          rw [e]; exact hx'

/-- a carousel source only ever emits packets of its transfer listing -/
theorem pull_carousel (x x' : Src) (q : Sym) (hc : x.carousel = true) (hr : ∀ r, r ∈ x.rest → r ∈ x.tr)
    (h : x.pull = some (q, x')) :
    q ∈ x.tr ∧ x'.carousel = true ∧ x'.slot = x.slot ∧ x'.tr = x.tr ∧ ∀ r, r ∈ x'.rest → r ∈ x'.tr := by
  unfold Src.pull at h
  cases hrest : x.rest with
  | cons a r =>
    simp only [hrest, Option.some.injEq, Prod.mk.injEq] at h
    obtain ⟨rfl, rfl⟩ := h
    refine ⟨hr _ (by rw [hrest]; exact List.mem_cons_self ..), hc, rfl, rfl, ?_⟩
    intro r' hr'
    exact hr r' (by rw [hrest]; exact List.mem_cons_of_mem _ hr')
  | nil =>
    simp only [hrest] at h
    unfold Src.listing at h
    simp only [hc, ↓reduceIte] at h
    cases htr : x.tr with
    | nil => simp [htr] at h
    | cons a r =>
      simp only [htr, Option.some.injEq, Prod.mk.injEq] at h
      obtain ⟨rfl, rfl⟩ := h
      refine ⟨by simp, by simp, rfl, by simp [htr], ?_⟩
      intro r' hr'
      exact List.mem_cons_of_mem _ hr'

/-- in the merged stream every packet of FDT instance `id` belongs to that instance's transfer listing -/
theorem buildStream_fdt (id : Nat) : ∀ (sched : List Slot) (srcs : List Src) (stream : List Pkt) (x : Src),
    (∀ k, k ∈ sched → k ≠ Slot.obj 0) →
    buildStream srcs sched = some stream → findSrc srcs (Slot.fdt id) = some x → x.carousel = true →
    (∀ r, r ∈ x.rest → r ∈ x.tr) → ∀ q, q ∈ fsyms id stream → q ∈ x.tr := by
  intro sched
  induction sched with
  | nil =>
    intro srcs stream x _ h _ _ _ q hq
    simp only [buildStream, Option.some.injEq] at h
    subst h
    simp [fsyms] at hq
  | cons k rest ih =>
    intro srcs stream x hno0 h hx hc hr q hq
    have hno0' : ∀ k', k' ∈ rest → k' ≠ Slot.obj 0 := fun k' hk' => hno0 k' (List.mem_cons_of_mem _ hk')
    have hk0 : k ≠ Slot.obj 0 := hno0 k (List.mem_cons_self ..)
    unfold buildStream at h
    cases hp : pullFrom srcs k with
    | none => simp [hp] at h
    | some r =>
      obtain ⟨sy, srcs'⟩ := r
      simp only [hp] at h
      cases hb : buildStream srcs' rest with
      | none => simp [hb] at h
      | some ps =>
        simp only [hb, Option.map_some, Option.some.injEq] at h
        subst h
        obtain ⟨y, y', hy1, hy2, hy3⟩ := pullFrom_spec srcs srcs' k sy hp
        by_cases hk : k = Slot.fdt id
        · subst hk
          rw [hx] at hy1; cases hy1
          obtain ⟨r1, r2, r3, r4, r5⟩ := pull_carousel x y' sy hc hr hy2
          obtain ⟨z1, _⟩ := hy3 r3
          have e : fsyms id (mkPkt (Slot.fdt id) sy :: ps) = sy :: fsyms id ps := by
            simp [fsyms, mkPkt, List.filter_cons, toSym]
          rw [e] at hq
          rcases List.mem_cons.mp hq with rfl | hq
          · exact r1
          · have := ih srcs' ps y' hno0' hb z1 r2 r5 q hq
            rw [r4] at this; exact this
        · have hsl : y'.slot = y.slot := by
            unfold Src.pull at hy2
            split at hy2
            · simp only [Option.some.injEq, Prod.mk.injEq] at hy2; rw [← hy2.2]
            · split at hy2
              · simp only [Option.some.injEq, Prod.mk.injEq] at hy2; rw [← hy2.2]
              · simp at hy2
          obtain ⟨_, z2⟩ := hy3 hsl
          have hx2 : findSrc srcs' (Slot.fdt id) = some x := by rw [z2 _ (fun h => hk h.symm)]; exact hx
          have e : fsyms id (mkPkt k sy :: ps) = fsyms id ps := by
            cases k with
            | fdt id' =>
              have : (id' == id) = false := beq_false_of_ne (fun h => hk (by rw [h]))
              simp [fsyms, mkPkt, List.filter_cons, this]
            | obj t =>
              have ht : t ≠ 0 := fun h => hk0 (by rw [h])
              have : (t == 0) = false := beq_false_of_ne ht
              simp [fsyms, mkPkt, List.filter_cons, this]
          rw [e] at hq
          exact ih srcs' ps x hno0' hb hx2 hc hr q hq

/-- a fresh non-carousel source holds the object's whole life -/
theorem remaining_fresh (k : Slot) (tr trLast : List Sym) (m : Nat) (hm : 1 ≤ m) :
    remainingOf { slot := k, tr := tr, trLast := trLast, transfers := m, carousel := false, t := 0, rest := [] } =
      life tr trLast m := by
  simp [remainingOf, life]; omega

end Flute.Lemmas.Session
