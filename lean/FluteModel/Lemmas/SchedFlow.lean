import FluteModel.Lemmas.SchedLife
/-
  Control flow of `Sender::read`: the `loop`s of `SenderSession::run` never exhaust their fuel (no `hang`),
  and an idle sender (no object waiting, every slot empty) produces FDT packets only.
-/
namespace Flute.Sched

/-! ### the loop of `SenderSession::run` takes at most two iterations -/

theorem encRead_fresh (n : Nat) (cl force : Bool) :
    ∃ b e, encRead n { sent := 0, stopped := false, closable := cl } force = (some (0, b), e) := by
  rw [encRead_eq]
  simp only [Bool.false_eq_true, if_false]
  have : 0 < (if n = 0 then 1 else n) := by split <;> omega
  rw [if_pos this]
  exact ⟨_, _, rfl⟩

theorem runFile_fresh (fuel : Nat) (s : State) (prio now : Nat) (ticks : List (Nat × Nat)) :
    (runFile (fuel + 1) s prio none now ticks).2.2 ≠ Out.hang := by
  unfold runFile
  simp only []
  cases hg : getNextFile s prio now ticks with
  | mk s' r =>
    cases r with
    | none =>
      simp only []
      split
      · simp
      · split <;> simp
    | some t =>
      simp only []
      split
      · simp
      · split
        · simp
        · split
          · simp
          · split
            · simp
            · split <;> simp

theorem runFile_no_hang (fuel : Nat) (s : State) (prio : Nat) (cur : Option Cur) (now : Nat)
    (ticks : List (Nat × Nat)) : (runFile (fuel + 2) s prio cur now ticks).2.2 ≠ Out.hang := by
  cases cur with
  | none => exact runFile_fresh (fuel + 1) s prio now ticks
  | some c =>
    unfold runFile
    simp only []
    split
    · simp
    · split
      · simp
      · split
        · simp
        · split
          · simp
          · split
            · simp only [Bool.false_eq_true, if_false]
              exact runFile_fresh fuel _ prio now ticks
            · simp

theorem fdtGetNext_fresh (s : State) (now : Nat) (hs : s.fdtSess = none) (c : Cur)
    (hc : (fdtGetNext s now).fdtSess = some c) : c.enc = { sent := 0, stopped := false, closable := false } := by
  unfold fdtGetNext at hc
  split at hc
  · rw [hs] at hc; cases hc
  · rcases fdtAdvance_cases (fdtMaybePublish s now) now with ⟨e, _⟩ | ⟨k, f, _, _, _, e⟩
    · rw [e, fdtPop_fdtSess, fdtMaybePublish_fdtSess, hs] at hc; cases hc
    · rw [e] at hc
      simp only [Option.some.injEq] at hc
      rw [← hc]; rfl

theorem runFdt_fresh (fuel : Nat) (s : State) (now : Nat) (hs : s.fdtSess = none) :
    (runFdt (fuel + 1) s now).2 ≠ Out.hang := by
  unfold runFdt
  simp only [hs]
  cases hc : (fdtGetNext s now).fdtSess with
  | none => simp
  | some c =>
    simp only []
    split
    · simp
    · split
      · simp
      · have hfresh := fdtGetNext_fresh s now hs c hc
        obtain ⟨b, e, he⟩ := encRead_fresh ‹FileDesc›.nSym false false
        rw [hfresh, he]
        simp

theorem transferDoneFdt_fdtSess (s : State) (k now : Nat) : (transferDoneFdt s k now).fdtSess = s.fdtSess := by
  unfold transferDoneFdt; simp only []; split
  · split <;> rfl
  · rfl

theorem runFdt_no_hang (fuel : Nat) (s : State) (now : Nat) : (runFdt (fuel + 2) s now).2 ≠ Out.hang := by
  cases hs : s.fdtSess with
  | none => exact runFdt_fresh (fuel + 1) s now hs
  | some c =>
    unfold runFdt
    simp only [hs]
    split
    · simp
    · split
      · simp
      · split
        · exact runFdt_fresh fuel _ now rfl
        · simp

theorem readQueue_no_hang : ∀ k s q now ticks, (readQueue k s q now ticks).2.2 ≠ Out.hang := by
  intro k
  induction k with
  | zero => intro s q now ticks; simp [readQueue]
  | succ n ih =>
    intro s q now ticks
    unfold readQueue
    split
    · simp
    · rename_i cur _
      have h := runFile_no_hang 2 s q.prio cur now ticks
      have e : runFuel = 2 + 2 := rfl
      rw [e]
      generalize runFile (2 + 2) s q.prio cur now ticks = r at h
      obtain ⟨s', cur', out⟩ := r
      simp only [] at h ⊢
      cases out with
      | none => exact ih _ _ _ _
      | hang => exact absurd rfl h
      | pkt a b c d => simp
      | fdt a b c => simp

theorem readQueues_no_hang : ∀ qs s now ticks, (readQueues s qs now ticks).2.2 ≠ Out.hang := by
  intro qs
  induction qs with
  | nil => intro s now ticks; simp [readQueues]
  | cons q rest ih =>
    intro s now ticks
    unfold readQueues
    have h := readQueue_no_hang q.slots.length s q now ticks
    generalize readQueue q.slots.length s q now ticks = r at h
    obtain ⟨s', q', out⟩ := r
    simp only [] at h ⊢
    cases out with
    | none =>
      simp only []
      have h2 := ih s' now ticks
      generalize readQueues s' rest now ticks = r2 at h2
      obtain ⟨s2, rest2, out2⟩ := r2
      exact h2
    | hang => exact absurd rfl h
    | pkt a b c d => simp
    | fdt a b c => simp

theorem readTail_no_hang (s : State) (now : Nat) : (readTail s now).2 ≠ Out.hang := by
  unfold readTail
  have h := runFdt_no_hang 2 s now
  have e : runFuel = 2 + 2 := rfl
  rw [e]
  generalize runFdt (2 + 2) s now = r at h
  obtain ⟨s', o⟩ := r
  cases o with
  | none => simp
  | hang => exact absurd rfl h
  | pkt a b c d => simp
  | fdt a b c => simp

theorem readMid_no_hang (s : State) (now : Nat) (ticks : List (Nat × Nat)) : (readMid s now ticks).2 ≠ Out.hang := by
  unfold readMid
  have h := readQueues_no_hang s.sessions s now ticks
  generalize readQueues s s.sessions now ticks = r at h
  obtain ⟨s2, qs, o⟩ := r
  simp only [] at h ⊢
  cases o with
  | none => exact readTail_no_hang _ now
  | hang => exact absurd rfl h
  | pkt a b c d => simp
  | fdt a b c => simp

/-- `Sender::read` always returns: the loops of `SenderSession::run` terminate within their fuel -/
theorem read_no_hang (s : State) (now : Nat) (ticks : List (Nat × Nat)) : (read s now ticks).2 ≠ Out.hang := by
  unfold read
  have h := runFdt_no_hang 2 (emit s (.opRead now)) now
  have e : runFuel = 2 + 2 := rfl
  rw [e]
  generalize runFdt (2 + 2) (emit s (.opRead now)) now = r at h
  obtain ⟨s', o⟩ := r
  cases o with
  | none => exact readMid_no_hang _ now ticks
  | hang => exact absurd rfl h
  | pkt a b c d => simp
  | fdt a b c => simp

/-! ### an idle sender produces FDT packets only -/

def AllNone (qs : List QSess) : Prop := ∀ q ∈ qs, ∀ cur ∈ q.slots, cur = none

theorem runFile_idle (fuel : Nat) (s : State) (prio now : Nat) (ticks : List (Nat × Nat)) (hq : s.queue = []) :
    runFile (fuel + 1) s prio none now ticks = (s, none, Out.none) := by
  unfold runFile
  have : getNextFile s prio now ticks = (s, none) := by unfold getNextFile; rw [hq]; rfl
  simp only [this]
  have ho : openFailed true s none = none := rfl
  simp only [ho]
  split <;> rfl

theorem readQueue_idle : ∀ k s q now ticks, s.queue = [] → (∀ cur ∈ q.slots, cur = none) →
    (readQueue k s q now ticks).1 = s ∧ (∀ cur ∈ (readQueue k s q now ticks).2.1.slots, cur = none) ∧
    (readQueue k s q now ticks).2.2 = Out.none := by
  intro k
  induction k with
  | zero => intro s q now ticks _ hn; exact ⟨rfl, hn, rfl⟩
  | succ n ih =>
    intro s q now ticks hq hn
    unfold readQueue
    split
    · exact ⟨rfl, hn, rfl⟩
    · rename_i cur hcur
      have hc : cur = none := hn cur (List.mem_of_getElem? hcur)
      subst hc
      have e : runFuel = 3 + 1 := rfl
      rw [e, runFile_idle 3 s q.prio now ticks hq]
      simp only []
      refine ih _ _ _ _ hq ?_
      intro cur hcur'
      rcases List.mem_or_eq_of_mem_set hcur' with h | h
      · exact hn cur h
      · exact h

theorem readQueues_idle : ∀ qs s now ticks, s.queue = [] → AllNone qs →
    (readQueues s qs now ticks).1 = s ∧ AllNone (readQueues s qs now ticks).2.1 ∧
    (readQueues s qs now ticks).2.2 = Out.none := by
  intro qs
  induction qs with
  | nil => intro s now ticks _ hn; exact ⟨rfl, hn, rfl⟩
  | cons q rest ih =>
    intro s now ticks hq hn
    unfold readQueues
    have h := readQueue_idle q.slots.length s q now ticks hq (hn q List.mem_cons_self)
    generalize readQueue q.slots.length s q now ticks = r at h
    obtain ⟨s', q', out⟩ := r
    simp only [] at h ⊢
    obtain ⟨h1, h2, h3⟩ := h
    subst h1 h3
    simp only []
    have h4 := ih s' now ticks hq (fun q0 hq0 => hn q0 (List.mem_cons_of_mem _ hq0))
    generalize readQueues s' rest now ticks = r2 at h4
    obtain ⟨s2, rest2, out2⟩ := r2
    simp only [] at h4 ⊢
    obtain ⟨h5, h6, h7⟩ := h4
    refine ⟨h5, ?_, h7⟩
    intro q0 hq0
    rcases List.mem_cons.mp hq0 with rfl | hq0
    · exact h2
    · exact h6 q0 hq0

theorem runFdt_out : ∀ fuel s now p t i b, (runFdt fuel s now).2 ≠ Out.pkt p t i b := by
  intro fuel
  induction fuel with
  | zero => intro s now p t i b; simp [runFdt]
  | succ n ih =>
    intro s now p t i b
    unfold runFdt
    simp only []
    split
    · simp
    · split
      · simp
      · split
        · simp
        · split
          · exact ih _ _ _ _ _ _
          · simp

theorem fdtAdvance_queue (s : State) (now : Nat) : (fdtAdvance s now).queue = s.queue ∧ (fdtAdvance s now).files = s.files := by
  rcases fdtAdvance_cases s now with ⟨e, _⟩ | ⟨k, f, _, _, _, e⟩
  · rw [e]; exact ⟨fdtPop_queue s, fdtPop_files s⟩
  · rw [e]; exact ⟨fdtPop_queue s, fdtPop_files s⟩

theorem fdtGetNext_queue (s : State) (now : Nat) : (fdtGetNext s now).queue = s.queue ∧ (fdtGetNext s now).files = s.files := by
  unfold fdtGetNext
  split
  · exact ⟨rfl, rfl⟩
  · have h := fdtAdvance_queue (fdtMaybePublish s now) now
    have h2 : (fdtMaybePublish s now).queue = s.queue ∧ (fdtMaybePublish s now).files = s.files := by
      unfold fdtMaybePublish; split
      · exact publishTry_elim (P := fun x => x.queue = s.queue ∧ x.files = s.files) s now ⟨rfl, rfl⟩ ⟨rfl, rfl⟩
      · exact ⟨rfl, rfl⟩
    exact ⟨by rw [h.1, h2.1], by rw [h.2, h2.2]⟩

theorem runFdt_queue : ∀ fuel s now, (runFdt fuel s now).1.queue = s.queue ∧ (runFdt fuel s now).1.files = s.files := by
  intro fuel
  induction fuel with
  | zero => intro s now; exact ⟨rfl, rfl⟩
  | succ n ih =>
    intro s now
    unfold runFdt
    have key : ∀ s1 : State, (s1.queue = s.queue ∧ s1.files = s.files) →
        let r := (match s1.fdtSess with
          | none => (s1, Out.none)
          | some c =>
            match getF s1.fdts c.key with
            | none => (s1, Out.none)
            | some f =>
              if gateBlocked f now then (s1, Out.none) else
              match encRead f.nSym c.enc false with
              | (none, _) => runFdt n (fdtRelease s1 c.key now) now
              | (some (idx, _), e) => (fdtStep s1 c e f.fdtId now idx, Out.fdt c.key f.fdtId idx))
        r.1.queue = s.queue ∧ r.1.files = s.files := by
      intro s1 h1
      simp only []
      split
      · exact h1
      · rename_i c _
        split
        · exact h1
        · split
          · exact h1
          · split
            · have := ih (fdtRelease s1 c.key now) now
              have hq : (fdtRelease s1 c.key now).queue = s1.queue := by
                unfold fdtRelease; exact transferDoneFdt_queue s1 c.key now
              have hf : (fdtRelease s1 c.key now).files = s1.files := by
                unfold fdtRelease; exact transferDoneFdt_files s1 c.key now
              exact ⟨by rw [this.1, hq, h1.1], by rw [this.2, hf, h1.2]⟩
            · exact h1
    cases hs : s.fdtSess with
    | some c => simp only []; exact key s ⟨rfl, rfl⟩
    | none => simp only []; exact key _ (fdtGetNext_queue s now)

/-- no object waiting and every slot empty: `read` returns nothing or an FDT packet, and the sender stays idle -/
theorem read_idle (s : State) (now : Nat) (ticks : List (Nat × Nat)) (hq : s.queue = []) (hn : AllNone s.sessions) :
    (∀ p t i b, (read s now ticks).2 ≠ Out.pkt p t i b) ∧ (read s now ticks).1.queue = [] ∧
    (read s now ticks).1.files = s.files ∧ AllNone (read s now ticks).1.sessions := by
  unfold read
  have h1 := runFdt_out runFuel (emit s (.opRead now)) now
  have h2 := runFdt_queue runFuel (emit s (.opRead now)) now
  have h3 := runFdt_sessions runFuel (emit s (.opRead now)) now
  generalize runFdt runFuel (emit s (.opRead now)) now = r at h1 h2 h3
  obtain ⟨s1, o⟩ := r
  simp only [emit_sessions] at h1 h2 h3
  have hq1 : s1.queue = [] := by rw [h2.1]; exact hq
  have hf1 : s1.files = s.files := h2.2
  have hn1 : AllNone s1.sessions := by rw [h3]; exact hn
  cases o with
  | hang => exact ⟨fun _ _ _ _ => by simp, hq1, hf1, hn1⟩
  | pkt a b c d => exact absurd rfl (h1 a b c d)
  | fdt a b c => exact ⟨fun _ _ _ _ => by simp, hq1, hf1, hn1⟩
  | none =>
    simp only []
    unfold readMid
    have h4 := readQueues_idle s1.sessions { s1 with quiet := true } now ticks hq1 hn1
    generalize readQueues { s1 with quiet := true } s1.sessions now ticks = r2 at h4
    obtain ⟨s2, qs, o2⟩ := r2
    simp only [] at h4 ⊢
    obtain ⟨h5, h6, h7⟩ := h4
    subst h5 h7
    simp only []
    unfold readTail
    have g1 := runFdt_out runFuel ({ s1 with sessions := qs, quiet := false } : State) now
    have g2 := runFdt_queue runFuel ({ s1 with sessions := qs, quiet := false } : State) now
    have g3 := runFdt_sessions runFuel ({ s1 with sessions := qs, quiet := false } : State) now
    generalize runFdt runFuel ({ s1 with sessions := qs, quiet := false } : State) now = r3 at g1 g2 g3
    obtain ⟨s3, o3⟩ := r3
    simp only [] at g1 g2 g3
    have hq3 : s3.queue = [] := by rw [g2.1]; exact hq1
    have hf3 : s3.files = s.files := by rw [g2.2]; exact hf1
    have hn3 : AllNone s3.sessions := by rw [g3]; exact h6
    cases o3 with
    | hang => exact ⟨fun _ _ _ _ => by simp, hq3, hf3, hn3⟩
    | pkt a b c d => exact absurd rfl (g1 a b c d)
    | fdt a b c => exact ⟨fun _ _ _ _ => by simp, hq3, hf3, hn3⟩
    | none => exact ⟨fun _ _ _ _ => by simp, hq3, hf3, hn3⟩

theorem allNone_of_held_nil : ∀ qs : List QSess, held qs = [] → AllNone qs := by
  intro qs
  induction qs with
  | nil => intro _ q hq; cases hq
  | cons q rest ih =>
    intro h
    simp only [held, List.flatMap_cons, List.append_eq_nil_iff] at h
    intro q0 hq0
    rcases List.mem_cons.mp hq0 with rfl | hq0
    · intro cur hcur
      cases cur with
      | none => rfl
      | some c =>
        exfalso
        have : (q0.prio, c) ∈ heldQ q0 := by
          unfold heldQ heldSlots
          exact List.mem_flatMap.mpr ⟨some c, hcur, by simp [optHeld]⟩
        rw [h.1] at this; cases this
    · exact ih h.2 q0 hq0

theorem held_nil_of_allNone : ∀ qs : List QSess, AllNone qs → held qs = [] := by
  intro qs
  induction qs with
  | nil => intro _; rfl
  | cons q rest ih =>
    intro h
    simp only [held, List.flatMap_cons, List.append_eq_nil_iff]
    refine ⟨?_, ih (fun q0 hq0 => h q0 (List.mem_cons_of_mem _ hq0))⟩
    have hq := h q List.mem_cons_self
    unfold heldQ heldSlots
    rw [List.flatMap_eq_nil_iff]
    intro cur hcur
    rw [hq cur hcur]; rfl

end Flute.Sched
