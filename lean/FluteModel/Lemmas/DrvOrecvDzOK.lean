import FluteModel.Drv.Orecv
import FluteModel.Lemmas.DrainObjInst
/-
  The parameters the `orecv` driver EXECUTES satisfy `DzOK` literally: its decompressor is the table decompressor `idealDz`, which meets
  the contract (agent path: `idealContract`), and its inner fuel function `idealFuel` is that contract's measure + 1.
-/
namespace Flute.Drv.Orecv
open Flute Flute.ObjRecv Flute.ObjSess Flute.Lemmas.DrainObj

/-- **the driver's own parameters meet `DzOK`**, for every table, every object (TOI, builder-call base) -/
def drv_params_dzOK (d : DState) (toi base : Nat) : DzOK (d.params.forObj toi base) where
  C := idealContract (d.params.forObj toi base) d.ztab rfl
  fuel := by
    intro w
    show bwMu _ w < idealFuel d.ztab w
    unfold bwMu idealFuel
    cases w.dz with
    | none => exact Nat.zero_lt_one
    | some dz => exact Nat.lt_succ_self _

end Flute.Drv.Orecv
