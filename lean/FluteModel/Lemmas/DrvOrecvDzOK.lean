import FluteModel.Drv.Orecv
import FluteModel.Lemmas.DrainObj
import FluteModel.Lemmas.ObjRecvTotal
/-
  The parameters the `orecv` driver EXECUTES satisfy `DzOK` literally: its decompressor is the table decompressor `tableDz` (buffered
  reader, nothing consumed after the end of the stream - ObjRecvIdeal.lean), which meets agent path's contract `DzContract` with the
  measure "longest content of the table minus the output handed out", and its inner fuel function `tableFuel` is that measure + 1.
  (The always-draining variant `idealDz` of earlier rounds meets the contract too: agent path, Lemmas/DrainObjInst.lean `idealContract`.)
-/
namespace Flute.Drv.Orecv
open Flute Flute.FecDec Flute.ObjRecv Flute.ObjSess Flute.Lemmas.DrainObj

theorem find_le_maxContent (ztab : List (Bytes × Bytes × Bool)) (p : Bytes × Bytes × Bool → Bool) (e : Bytes × Bytes × Bool)
    (h : ztab.find? p = some e) : e.2.1.length ≤ maxContent ztab := by
  induction ztab with
  | nil => simp at h
  | cons a r ih =>
    simp only [List.find?] at h
    unfold maxContent
    split at h
    · cases h; exact Nat.le_max_left _ _
    · exact Nat.le_trans (ih h) (Nat.le_max_right _ _)

theorem tableSt_snoc (ztab : List (Bytes × Bytes × Bool)) (cenc : Cenc) (hist : List DzCall) (c : DzCall) :
    tableSt ztab cenc (hist ++ [c]) = (tableCall ztab cenc (tableSt ztab cenc hist) c).1 := by
  simp [tableSt, List.foldl_append]

/-- the table decompressor meets the contract, for every table -/
def tableContract (P : Params) (ztab : List (Bytes × Bytes × Bool)) (h : P.dzRead = tableDz ztab) : DzContract P where
  mu := fun cenc hist _ => maxContent ztab - (tableSt ztab cenc hist).2.1
  read_decreases := by
    intro c hist call out hres hne
    rw [h] at hres
    show maxContent ztab - (tableSt ztab c (hist ++ [call])).2.1 < maxContent ztab - (tableSt ztab c hist).2.1
    rw [tableSt_snoc]
    unfold tableDz at hres
    unfold tableCall at hres ⊢
    by_cases hctor : (call.buflen == 0) = true ∧ (c != .gzip) = true
    · simp [hctor] at hres
    · simp only [hctor, if_false] at hres ⊢
      generalize tableSt ztab c hist = stt at hres ⊢
      obtain ⟨consumed, produced, left⟩ := stt
      unfold tableStep at hres ⊢
      simp only [] at hres ⊢
      generalize (if left.isEmpty = true then call.avail else []) = fetch at hres ⊢
      cases hf : ztab.find? (fun e => isPrefix e.1 (consumed ++ (left ++ fetch))) with
      | none =>
        simp only [hf] at hres
        split at hres <;> cases hres
      | some e =>
        obtain ⟨cmp, content, bad⟩ := e
        have hle := find_le_maxContent ztab _ _ hf
        simp only [hf] at hres ⊢
        split at hres
        · cases hres
        · simp only [DzRes.data.injEq] at hres
          rename_i hnb
          simp only [hnb, if_false]
          subst hres
          have hlen : 0 < ((content.drop produced).take call.buflen).length := by
            cases hx : (content.drop produced).take call.buflen with
            | nil => simp [hx] at hne
            | cons a b => simp
          have hl2 := hlen
          rw [List.length_take, List.length_drop] at hl2
          show maxContent ztab - (produced + ((content.drop produced).take call.buflen).length) < maxContent ztab - produced
          have : content.length ≤ maxContent ztab := hle
          omega

/-- **the driver's own parameters meet `DzOK`**, for every table, every object (TOI, builder-call base) -/
def drv_params_dzOK (d : DState) (toi base : Nat) : DzOK (d.params.forObj toi base) where
  C := tableContract (d.params.forObj toi base) d.ztab rfl
  fuel := by
    intro w
    show bwMu _ w < tableFuel d.ztab w
    unfold bwMu tableFuel
    cases w.dz with
    | none => exact Nat.zero_lt_one
    | some dz => exact Nat.lt_succ_self _

end Flute.Drv.Orecv
