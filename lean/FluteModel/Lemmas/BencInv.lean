import FluteModel.Lemmas.BencBlocks
/-
  Invariants of the block encoder reading an object from a buffer (repaired code, `legacy = false`).
  `Inv s`        shape of a reachable state: cutter position, open blocks are genuine blocks of the
                 object, in increasing SBN, at most `window` of them
  `TInv tr s`    what has been emitted so far (`tr`), per block: an open block has emitted exactly its
                 first `read_index` shards, a closed block all of them, an unopened block nothing
-/
namespace Flute.BencInv
open Flute Flute.Fec Flute.BlockEnc Flute.BencArith Flute.BencBlocks

/-- (ESI, payload) of a shard / of a packet -/
def sview (s : Shard) : Nat × Bytes := (s.esi, s.data)
def pview (p : Pkt) : Nat × Bytes := (p.esi, p.payload)

/-- the packets of block `k` in emission order, as (ESI, payload) -/
def proj (tr : List Pkt) (k : Nat) : List (Nat × Bytes) := (tr.filter (fun p => p.sbn == k)).map pview

theorem proj_append (tr tr' : List Pkt) (k : Nat) : proj (tr ++ tr') k = proj tr k ++ proj tr' k := by
  simp [proj]

theorem proj_single_eq (p : Pkt) : proj [p] p.sbn = [pview p] := by simp [proj]

theorem proj_single_ne (p : Pkt) (k : Nat) (h : p.sbn ≠ k) : proj [p] k = [] := by
  simp [proj, h]

section
variable (P : Params) (c : Bytes) (aL aS nL n : Nat)

/-- an open block is the genuine block of its SBN with some read position -/
def BlockOK (b : Block) : Prop :=
  blockAt P c aL aS nL b.sbn = some { b with readIndex := 0 } ∧ b.readIndex ≤ b.shards.length

structure Inv (s : Enc) : Prop where
  src : s.src = .buffer c
  qaL : s.aL = aL
  qaS : s.aS = aS
  qnL : s.nL = nL
  sbn_le : s.sbn ≤ n
  off_eq : s.off = off P aL aS nL s.sbn
  readEnd_iff : s.readEnd = true ↔ s.sbn = n
  blocks_ok : ∀ b, b ∈ s.blocks → b.sbn < s.sbn ∧ BlockOK P c aL aS nL b
  sorted : (s.blocks.map (·.sbn)).Pairwise (· < ·)
  win : s.blocks.length ≤ P.window

structure TInv (tr : List Pkt) (s : Enc) : Prop where
  opened : ∀ b, b ∈ s.blocks → proj tr b.sbn = (b.shards.take b.readIndex).map sview
  closed : ∀ k, k < s.sbn → (∀ b, b ∈ s.blocks → b.sbn ≠ k) →
    ∃ b0, blockAt P c aL aS nL k = some b0 ∧ proj tr k = b0.shards.map sview
  future : ∀ k, s.sbn ≤ k → proj tr k = []

end

variable {P : Params} {c : Bytes} {aL aS nL n : Nat}

theorem blockAt_fields {k : Nat} {b0 : Block} (h : blockAt P c aL aS nL k = some b0) :
    b0.sbn = k ∧ b0.readIndex = 0 := by
  unfold blockAt Block.new at h
  split at h
  · cases h
  · split at h
    · cases h
    · simp only [Option.some.injEq] at h; subst h; exact ⟨rfl, rfl⟩

/-- one `read_block` on a state that still has something to cut -/
theorem readBlock_eq (hS : Setup P c aL aS nL n) (hA : Accepts P c aL aS nL n) {s : Enc}
    (hI : Inv P c aL aS nL n s) (hre : s.readEnd = false) :
    ∃ b0, blockAt P c aL aS nL s.sbn = some b0 ∧
      readBlock P s = { s with blocks := s.blocks ++ [b0], sbn := s.sbn + 1,
                               readEnd := decide (s.sbn + 1 = n), off := off P aL aS nL (s.sbn + 1) } := by
  have hlt : s.sbn < n := by
    have := hI.sbn_le
    have h2 : ¬ s.sbn = n := fun h => by have := hI.readEnd_iff.mpr h; simp [hre] at this
    omega
  have hsome := hA s.sbn hlt
  obtain ⟨b0, hb0⟩ := Option.isSome_iff_exists.mp hsome
  refine ⟨b0, hb0, ?_⟩
  have hoff := off_succ hS hlt
  have hbl : s.blockLength = A aL aS nL s.sbn := by
    unfold Enc.blockLength A; rw [hI.qaL, hI.qaS, hI.qnL]
  have hend : (if s.off + s.blockLength * P.e > c.length then c.length else s.off + s.blockLength * P.e)
      = off P aL aS nL (s.sbn + 1) := by
    rw [hoff, hbl, hI.off_eq, ← hS.len_eq]
    split <;> omega
  have hbuf : (c.drop s.off).take (off P aL aS nL (s.sbn + 1) - s.off) = bufAt P c aL aS nL s.sbn := by
    unfold bufAt; rw [hI.off_eq]
  unfold readBlock
  rw [hI.src]
  simp only [readBlockBuffer]
  rw [hend, hbuf]
  have : Block.new P s.sbn (bufAt P c aL aS nL s.sbn) = some b0 := hb0
  rw [this]
  simp only
  have hre' : (off P aL aS nL (s.sbn + 1) == c.length) = decide (s.sbn + 1 = n) := by
    rw [← hS.len_eq]
    have := off_succ_eq_len_iff hS hlt
    by_cases h : s.sbn + 1 = n
    · rw [this.mpr h]; simp [h]
    · have h2 : ¬ off P aL aS nL (s.sbn + 1) = P.len := fun h3 => h (this.mp h3)
      simp [h, h2]
  rw [hre', hI.src]

/-- cutting a block preserves the invariants -/
theorem inv_cut (hS : Setup P c aL aS nL n) {s : Enc} {tr : List Pkt} {b0 : Block}
    (hI : Inv P c aL aS nL n s) (hT : TInv P c aL aS nL tr s) (hre : s.readEnd = false)
    (hw : s.blocks.length < P.window)
    (hb0 : blockAt P c aL aS nL s.sbn = some b0) :
    let s' : Enc := { s with blocks := s.blocks ++ [b0], sbn := s.sbn + 1,
                             readEnd := decide (s.sbn + 1 = n), off := off P aL aS nL (s.sbn + 1) }
    Inv P c aL aS nL n s' ∧ TInv P c aL aS nL tr s' := by
  intro s'
  have hlt : s.sbn < n := by
    have := hI.sbn_le
    have h2 : ¬ s.sbn = n := fun h => by have := hI.readEnd_iff.mpr h; simp [hre] at this
    omega
  obtain ⟨hb0s, hb0r⟩ := blockAt_fields hb0
  have hb0ok : BlockOK P c aL aS nL b0 := by
    refine ⟨?_, by omega⟩
    rw [hb0s, hb0]
    congr 1
    cases b0; simp_all
  constructor
  · refine ⟨hI.src, hI.qaL, hI.qaS, hI.qnL, by show s.sbn + 1 ≤ n; omega, rfl, ?_, ?_, ?_, ?_⟩
    · show decide (s.sbn + 1 = n) = true ↔ s.sbn + 1 = n
      simp
    · intro b hb
      show b.sbn < s.sbn + 1 ∧ _
      rcases List.mem_append.mp hb with h | h
      · have := hI.blocks_ok b h; exact ⟨by omega, this.2⟩
      · simp only [List.mem_singleton] at h; subst h; exact ⟨by omega, hb0ok⟩
    · show ((s.blocks ++ [b0]).map (·.sbn)).Pairwise (· < ·)
      rw [List.map_append, List.pairwise_append]
      refine ⟨hI.sorted, by simp, ?_⟩
      intro a ha b hb
      simp only [List.map_cons, List.map_nil, List.mem_singleton] at hb
      obtain ⟨x, hx, rfl⟩ := List.mem_map.mp ha
      have := (hI.blocks_ok x hx).1
      omega
    · show (s.blocks ++ [b0]).length ≤ P.window
      simp; omega
  · refine ⟨?_, ?_, ?_⟩
    · intro b hb
      rcases List.mem_append.mp hb with h | h
      · exact hT.opened b h
      · simp only [List.mem_singleton] at h; subst h
        rw [hb0s, hb0r, hT.future s.sbn (Nat.le_refl _)]; simp
    · intro k hk hno
      have hk' : k < s.sbn + 1 := hk
      have hne : k ≠ s.sbn := by
        intro h
        exact hno b0 (List.mem_append.mpr (Or.inr (by simp))) (by rw [hb0s, h])
      exact hT.closed k (by omega) (fun b hb => hno b (List.mem_append.mpr (Or.inl hb)))
    · intro k hk
      have hk' : s.sbn + 1 ≤ k := hk
      exact hT.future k (by omega)

theorem rwa_zero {s : Enc} : readWindowAux P 0 s = s := rfl
theorem rwa_succ_end {s : Enc} {m : Nat} (h : s.readEnd = true) : readWindowAux P (m + 1) s = s := by
  simp [readWindowAux, h]
theorem rwa_succ_full {s : Enc} {m : Nat} (h : s.readEnd = false) (hw : ¬ s.blocks.length < P.window) :
    readWindowAux P (m + 1) s = s := by
  simp [readWindowAux, h, hw]
theorem rwa_succ_cut {s : Enc} {m : Nat} (h : s.readEnd = false) (hw : s.blocks.length < P.window) :
    readWindowAux P (m + 1) s = readWindowAux P m (readBlock P s) := by
  simp [readWindowAux, h, hw]

/-- `read_window` preserves the invariants; afterwards nothing is left to cut or the window is full -/
theorem inv_readWindowAux (hS : Setup P c aL aS nL n) (hA : Accepts P c aL aS nL n) (tr : List Pkt) :
    ∀ (m : Nat) (s : Enc), Inv P c aL aS nL n s → TInv P c aL aS nL tr s →
      Inv P c aL aS nL n (readWindowAux P m s) ∧ TInv P c aL aS nL tr (readWindowAux P m s) ∧
      (P.window ≤ s.blocks.length + m →
        (readWindowAux P m s).readEnd = true ∨ P.window ≤ (readWindowAux P m s).blocks.length) ∧
      (readWindowAux P m s).idx = s.idx ∧ (readWindowAux P m s).srcSent = s.srcSent ∧
      (readWindowAux P m s).nbPkt = s.nbPkt ∧ (readWindowAux P m s).closable = s.closable ∧
      (readWindowAux P m s).stopped = s.stopped ∧
      (∃ l, (readWindowAux P m s).blocks = s.blocks ++ l ∧ ∀ b, b ∈ l → b.readIndex = 0 ∧ 0 < b.shards.length) := by
  intro m
  induction m with
  | zero =>
    intro s hI hT
    rw [rwa_zero]
    exact ⟨hI, hT, fun h => Or.inr (by omega), rfl, rfl, rfl, rfl, rfl, ⟨[], by simp, by simp⟩⟩
  | succ m ih =>
    intro s hI hT
    by_cases hre : s.readEnd = true
    · rw [rwa_succ_end hre]
      exact ⟨hI, hT, fun _ => Or.inl hre, rfl, rfl, rfl, rfl, rfl, ⟨[], by simp, by simp⟩⟩
    · have hre' : s.readEnd = false := by simpa using hre
      by_cases hw : s.blocks.length < P.window
      · rw [rwa_succ_cut hre' hw]
        obtain ⟨b0, hb0, heq⟩ := readBlock_eq hS hA hI hre'
        rw [heq]
        obtain ⟨hI', hT'⟩ := inv_cut hS hI hT hre' hw hb0
        obtain ⟨h1, h2, h3, h4, h5, h6, h7, h8, l, hl, hl2⟩ := ih _ hI' hT'
        refine ⟨h1, h2, ?_, h4, h5, h6, h7, h8, ⟨b0 :: l, ?_, ?_⟩⟩
        · intro h; apply h3; simp; omega
        · rw [hl]; simp
        · intro b hb
          rcases List.mem_cons.mp hb with h | h
          · subst h
            refine ⟨(blockAt_fields hb0).2, ?_⟩
            -- a genuine block holds at least one shard
            have hlt : s.sbn < n := by
              have := hI.sbn_le
              have h2 : ¬ s.sbn = n := fun h => by have := hI.readEnd_iff.mpr h; simp [hre'] at this
              omega
            have hpos := bufAt_length_pos hS hlt (c := c)
            unfold blockAt Block.new at hb0
            have he : ¬ P.e = 0 := by have := hS.e_pos; omega
            simp only [he, if_false] at hb0
            split at hb0
            · cases hb0
            · rename_i sh hsh
              simp only [Option.some.injEq] at hb0
              subst hb0
              obtain ⟨r, _, hlen, _, _⟩ := encode_shape _ _ _ _ _ hS.e_pos hsh
              have := divCeil_pos _ _ hpos hS.e_pos
              simp only; omega
          · exact hl2 b h
      · rw [rwa_succ_full hre' hw]
        exact ⟨hI, hT, fun _ => Or.inr (by omega), rfl, rfl, rfl, rfl, rfl, ⟨[], by simp, by simp⟩⟩

end Flute.BencInv
