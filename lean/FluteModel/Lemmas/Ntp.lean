import FluteModel.Ntp
import FluteModel.Spec.Ext
/- arithmetic of the NTP <-> microsecond conversion (core Lean only) -/
namespace Flute.Ntp
open Flute

/-- `floor(ceil(m * 2^32 / 10^6) * 10^6 / 2^32) = m`: rounding the fraction up in the encoder makes the
    truncating decoder exact -/
theorem frac_ceil_floor (m : Nat) (hm : m < 1000000) :
    (m * 4294967296 + 999999) / 1000000 < 4294967296 ∧
    (m * 4294967296 + 999999) / 1000000 * 1000000 / 4294967296 = m ∧
    ((m * 4294967296 + 999999) / 1000000 * 1000000 + 2147483648) / 4294967296 = m ∧
    m * 4294967296 ≤ (m * 4294967296 + 999999) / 1000000 * 1000000 ∧
    (m * 4294967296 + 999999) / 1000000 * 1000000 < (m + 1) * 4294967296 := by
  omega

theorem ntp_split (s f : Nat) (hs : s + 2208988800 < 4294967296) (hf : f < 4294967296) :
    ((s + 2208988800) * 4294967296 % 18446744073709551616 + f) / 4294967296 = s + 2208988800 ∧
    ((s + 2208988800) * 4294967296 % 18446744073709551616 + f) % 4294967296 = f ∧
    ((s + 2208988800) * 4294967296 % 18446744073709551616 + f) < 18446744073709551616 := by
  omega

/-- the value `system_time_to_ntp` returns inside NTP era 0 -/
theorem systemTimeToNtp_eq (us : Nat) (h : us / 1000000 + 2208988800 < 4294967296) :
    systemTimeToNtp us =
      .ok ((us / 1000000 + 2208988800) * 4294967296 % 18446744073709551616 +
            (us % 1000000 * 4294967296 + 999999) / 1000000) := by
  have hm : us % 1000000 < 1000000 := Nat.mod_lt _ (by decide)
  obtain ⟨hf1, _⟩ := frac_ceil_floor _ hm
  unfold systemTimeToNtp
  simp only [Nat.reducePow]
  rw [if_pos (by omega), Nat.mod_eq_of_lt hf1]

theorem ntpToSystemTime_eq (s f : Nat) (hs : s + 2208988800 < 4294967296) (hf : f < 4294967296) :
    ntpToSystemTime ((s + 2208988800) * 4294967296 % 18446744073709551616 + f) =
      .ok (s * 1000000 + f * 1000000 / 4294967296) := by
  obtain ⟨e1, e2, _⟩ := ntp_split s f hs hf
  unfold ntpToSystemTime
  simp only [Nat.reducePow]
  rw [e1, e2, if_neg (by omega)]
  simp only [Nat.add_sub_cancel]
  rw [if_pos (by omega)]

end Flute.Ntp
