import FluteModel.Lemmas.ObjRecvWritten
/-
  cenc != null: the decompressor contract threaded through `decoder_read`, the `loop` of `decode_write_pkt`, `init_decoder` and
  `finish`.  BlockWriter level: for a BlockWriter fed with chunks whose concatenation is the compressed stream `T`, once `finish` +
  the final `decoder_read` return Ok (and no decoded byte was discarded because of Content-Length), the bytes accepted by the
  writer are exactly `X` - for every decompressor meeting `DzFun` ("told that the input is finished, having been offered all of `T`,
  it only answers 'no more output' when it has handed out exactly `X`").
-/
namespace Flute.ObjRecv
open Flute Flute.FecDec

/-- bytes the decompressor took out of the ring over a call history (`done` = the calls before) -/
def consAux (P : Params) (c : Cenc) : List DzCall → List DzCall → Bytes
  | _, [] => []
  | done, call :: r => call.avail.take (P.dzRead c done call).take ++ consAux P c (done ++ [call]) r

def consOf (P : Params) (c : Cenc) (hist : List DzCall) : Bytes := consAux P c [] hist

/-- what one `read(buf)` call hands to the caller -/
def outOf (o : DzOut) (buflen : Nat) : Bytes :=
  match o.res with
  | .data out => out.take buflen
  | _ => []

/-- bytes the decompressor handed out over a call history -/
def prodAux (P : Params) (c : Cenc) : List DzCall → List DzCall → Bytes
  | _, [] => []
  | done, call :: r => outOf (P.dzRead c done call) call.buflen ++ prodAux P c (done ++ [call]) r

def prodOf (P : Params) (c : Cenc) (hist : List DzCall) : Bytes := prodAux P c [] hist

theorem consAux_snoc (P : Params) (c : Cenc) (todo : List DzCall) (call : DzCall) :
    ∀ done, consAux P c done (todo ++ [call]) =
      consAux P c done todo ++ call.avail.take (P.dzRead c (done ++ todo) call).take := by
  induction todo with
  | nil => intro done; simp [consAux]
  | cons x r ih => intro done; simp [consAux, ih, List.append_assoc]

theorem prodAux_snoc (P : Params) (c : Cenc) (todo : List DzCall) (call : DzCall) :
    ∀ done, prodAux P c done (todo ++ [call]) =
      prodAux P c done todo ++ outOf (P.dzRead c (done ++ todo) call) call.buflen := by
  induction todo with
  | nil => intro done; simp [prodAux]
  | cons x r ih => intro done; simp [prodAux, ih, List.append_assoc]

theorem consOf_snoc (P : Params) (c : Cenc) (hist : List DzCall) (call : DzCall) :
    consOf P c (hist ++ [call]) = consOf P c hist ++ call.avail.take (P.dzRead c hist call).take := by
  unfold consOf; rw [consAux_snoc]; simp

theorem prodOf_snoc (P : Params) (c : Cenc) (hist : List DzCall) (call : DzCall) :
    prodOf P c (hist ++ [call]) = prodOf P c hist ++ outOf (P.dzRead c hist call) call.buflen := by
  unfold prodOf; rw [prodAux_snoc]; simp

/-- **the decompressor contract for exactness** (`T` = the compressed stream of content `X` under encoding `c`): whatever the
    chunking of the calls, if all of `T` has been offered (taken so far ++ still available = `T`), the input was declared finished, the
    output buffer is not empty, and the call answers "nothing more" (`WouldBlock`, or `Ok(0)`), then the bytes handed out so far are
    exactly `X`.  For flate2: decompress (compress x) = x, and no `Ok(0)` before the end of the stream. -/
def DzFun (P : Params) (c : Cenc) (T X : Bytes) : Prop :=
  ∀ (hist : List DzCall) (call : DzCall), consOf P c hist ++ call.avail = T → call.fin = true → call.buflen ≠ 0 →
    ((P.dzRead c hist call).res = .wouldBlock ∨ ∃ out, (P.dzRead c hist call).res = .data out ∧ (out.take call.buflen).isEmpty = true) →
    prodOf P c hist = X

/-- bookkeeping invariant of a BlockWriter that has a decompressor -/
structure DzI (P : Params) (c : Cenc) (st : St) (w : BW) (dz : DzSt) : Prop where
  wr : w.discarded = false → st.written = prodOf P c dz.hist
  buf : w.bufLen ≠ 0

/-- `decoder_read`: the fed bytes (taken ++ ring) are unchanged, the written bytes follow the decompressor's output, and when the input
    was finished and all of `T` offered, an Ok result means everything was written -/
theorem dr_exact (P : Params) (c : Cenc) (T X : Bytes) (F : DzFun P c T X) :
    ∀ (fuel : Nat) (st : St) (w : BW) (dz : DzSt) (st' : St) (w' : BW) (b : Bool), w.dz = some dz → w.cenc = c →
      decoderRead P fuel st w = .ok (st', w', b) → DzI P c st w dz →
      ∃ dz', w'.dz = some dz' ∧ w'.cenc = c ∧ dz'.fin = dz.fin ∧ w'.bufLen = w.bufLen ∧
        consOf P c dz'.hist ++ dz'.ring = consOf P c dz.hist ++ dz.ring ∧
        (b = true → DzI P c st' w' dz' ∧
          (dz.fin = true → consOf P c dz.hist ++ dz.ring = T → w'.discarded = false → st'.written = X)) := by
  intro fuel
  induction fuel with
  | zero => intro st w dz st' w' b _ _ h; simp [decoderRead] at h
  | succ n ih =>
    intro st w dz st' w' b hdz hc h hI
    unfold decoderRead at h
    rw [hdz] at h
    dsimp only at h
    rw [hc] at h
    -- the state after the call, whatever the answer
    have hcons : consOf P c (dz.hist ++ [{ avail := dz.ring, fin := dz.fin, buflen := w.bufLen }]) ++
        dz.ring.drop (P.dzRead c dz.hist { avail := dz.ring, fin := dz.fin, buflen := w.bufLen }).take =
        consOf P c dz.hist ++ dz.ring := by
      rw [consOf_snoc, List.append_assoc, List.take_append_drop]
    have hprod := prodOf_snoc P c dz.hist { avail := dz.ring, fin := dz.fin, buflen := w.bufLen }
    split at h
    · -- WouldBlock
      rename_i hres
      simp at h; obtain ⟨rfl, rfl, rfl⟩ := h
      refine ⟨_, rfl, rfl, rfl, rfl, hcons, fun _ => ⟨⟨?_, hI.buf⟩, ?_⟩⟩
      · intro hd; rw [hprod]; simp [outOf, hres]; exact hI.wr hd
      · intro hfin hT hd
        rw [hI.wr hd]
        exact F dz.hist _ hT hfin hI.buf (.inl hres)
    · -- Err
      simp at h; obtain ⟨rfl, rfl, rfl⟩ := h
      exact ⟨_, rfl, rfl, rfl, rfl, hcons, fun hb => by cases hb⟩
    · -- data
      rename_i out hres
      split at h
      · rename_i hemp
        simp at h; obtain ⟨rfl, rfl, rfl⟩ := h
        refine ⟨_, rfl, rfl, rfl, rfl, hcons, fun _ => ⟨⟨?_, hI.buf⟩, ?_⟩⟩
        · intro hd
          rw [hprod]
          have : outOf (P.dzRead c dz.hist { avail := dz.ring, fin := dz.fin, buflen := w.bufLen }) w.bufLen = [] := by
            simp only [outOf, hres]; simpa using hemp
          rw [this, List.append_nil]; exact hI.wr hd
        · intro hfin hT hd
          rw [hI.wr hd]
          exact F dz.hist _ hT hfin hI.buf (.inr ⟨out, hres, hemp⟩)
      · split at h
        · -- content length reached: drain and discard
          obtain ⟨dz', h1, h2, h3, h4, h5, h6⟩ := ih _ _ _ _ _ _ rfl rfl h ⟨fun hd => by simp at hd, hI.buf⟩
          refine ⟨dz', h1, h2, h3, h4, h5.trans hcons, fun hb => ⟨(h6 hb).1, ?_⟩⟩
          intro hfin hT hd
          exact (h6 hb).2 hfin (hcons.trans hT) hd
        · -- write
          have hout : outOf (P.dzRead c dz.hist { avail := dz.ring, fin := dz.fin, buflen := w.bufLen }) w.bufLen = out.take w.bufLen := by
            simp only [outOf, hres]
          have hws := wWrite_spec P st w.sbn (out.take w.bufLen)
          split at h
          · -- write refused
            simp at h; obtain ⟨rfl, rfl, rfl⟩ := h
            exact ⟨_, rfl, rfl, rfl, rfl, hcons, fun hb => by cases hb⟩
          · rename_i hok
            have hok' : (wWrite P st w.sbn (out.take w.bufLen)).2 = true := by simpa using hok
            obtain ⟨dz', h1, h2, h3, h4, h5, h6⟩ := ih _ _ _ _ _ _ rfl rfl h
              ⟨fun hd => by rw [hws.2.1 hok', hprod, hout, hI.wr hd], hI.buf⟩
            refine ⟨dz', h1, h2, h3, h4, h5.trans hcons, fun hb => ⟨(h6 hb).1, ?_⟩⟩
            intro hfin hT hd
            exact (h6 hb).2 hfin (hcons.trans hT) hd

theorem take_drop_glue (l : Bytes) (a n : Nat) : (l.drop a).take n ++ l.drop (a + n) = l.drop a := by
  have : l.drop (a + n) = (l.drop a).drop n := by rw [List.drop_drop]
  rw [this, List.take_append_drop]

/-- the `loop` of `decode_write_pkt`: an Ok result means the rest of the packet went through the ring into the decompressor -/
theorem dw_exact (P : Params) (c : Cenc) (T X : Bytes) (F : DzFun P c T X) (pkt : Bytes) :
    ∀ (fuel : Nat) (st : St) (w : BW) (dz : DzSt) (off : Nat) (stalled : Bool) (st' : St) (w' : BW),
      w.dz = some dz → w.cenc = c → dz.fin = false →
      dwLoop P fuel st w pkt off stalled = .ok (st', w', true) → off ≤ pkt.length → DzI P c st w dz →
      ∃ dz', w'.dz = some dz' ∧ w'.cenc = c ∧ dz'.fin = false ∧ w'.bufLen = w.bufLen ∧
        consOf P c dz'.hist ++ dz'.ring = consOf P c dz.hist ++ dz.ring ++ pkt.drop off ∧ DzI P c st' w' dz' := by
  intro fuel
  induction fuel with
  | zero => intro st w dz off stalled st' w' _ _ _ h; simp [dwLoop] at h
  | succ n ih =>
    intro st w dz off stalled st' w' hdz hc hfin h hoff hI
    unfold dwLoop at h
    rw [hdz] at h
    dsimp only at h
    generalize hsz : min (dz.cap - 1 - dz.ring.length) (pkt.length - off) = size at h
    have hle : size ≤ pkt.length - off := by rw [← hsz]; exact Nat.min_le_right _ _
    split at h
    · cases h
    · simp at h
    · rename_i st2 w2 heq
      have key := fun a b d => dr_exact P c T X F _ _ _ { dz with ring := dz.ring ++ (pkt.drop off).take size } _ _ _ a b heq d
      obtain ⟨dz2, h1, h2, h3, h4, h5, h6⟩ := key rfl hc ⟨hI.wr, hI.buf⟩
      have hI2 := (h6 rfl).1
      have h5' : consOf P c dz2.hist ++ dz2.ring = consOf P c dz.hist ++ dz.ring ++ (pkt.drop off).take size := by
        rw [h5]; simp [List.append_assoc]
      split at h
      · rename_i hend
        simp at h; obtain ⟨rfl, rfl⟩ := h
        have : (pkt.drop off).take size = pkt.drop off := by
          apply List.take_of_length_le; simp; omega
        exact ⟨dz2, h1, h2, by rw [h3]; exact hfin, h4, by rw [h5', this], hI2⟩
      · split at h
        · simp at h
        · obtain ⟨dz3, g1, g2, g3, g4, g5, g6⟩ := ih _ _ _ _ _ _ _ h1 h2 (by rw [h3]; exact hfin) h (by omega) hI2
          refine ⟨dz3, g1, g2, g3, g4.trans h4, ?_, g6⟩
          rw [g5, h5', List.append_assoc, take_drop_glue]

/-- the bytes fed to the decompressor of a BlockWriter so far (taken by it, or waiting in the ring) -/
def fedOf (P : Params) (w : BW) : Bytes :=
  match w.dz with
  | none => []
  | some dz => consOf P w.cenc dz.hist ++ dz.ring

/-- bookkeeping invariant of a BlockWriter with content encoding -/
def BI (P : Params) (st : St) (w : BW) : Prop :=
  match w.dz with
  | none => w.discarded = false → st.written = []
  | some dz => DzI P w.cenc st w dz ∧ dz.fin = false

theorem outOf_zero (o : DzOut) : outOf o 0 = [] := by
  unfold outOf; split <;> simp

/-- `decode_write_pkt` (incl. `init_decoder` on the first chunk): an Ok result means the whole chunk was fed -/
theorem dwp_exact (P : Params) (T X : Bytes) (st : St) (w : BW) (pkt : Bytes) (st' : St) (w' : BW)
    (F : DzFun P w.cenc T X) (hne : pkt ≠ [] ∨ w.dz.isSome = true) (hB : BI P st w)
    (h : decodeWritePkt P st w pkt = .ok (st', w', true)) :
    BI P st' w' ∧ w'.dz.isSome = true ∧ w'.cenc = w.cenc ∧ fedOf P w' = fedOf P w ++ pkt := by
  unfold decodeWritePkt at h
  cases hdz : w.dz with
  | none =>
    rw [hdz] at h
    dsimp only at h
    have hlen : pkt.length ≠ 0 := by
      cases hne with
      | inl h1 => intro h0; exact h1 (List.eq_nil_of_length_eq_zero h0)
      | inr h1 => simp [hdz] at h1
    have hB' : w.discarded = false → st.written = [] := by unfold BI at hB; rw [hdz] at hB; exact hB
    have key := fun a b d => dr_exact P w.cenc T X F _ _ _
      { cap := 2 * pkt.length, ring := pkt.drop (P.dzRead w.cenc [] { avail := pkt, fin := false, buflen := 0 }).take,
        fin := false, hist := [{ avail := pkt, fin := false, buflen := 0 }] } _ _ _ a b h d
    obtain ⟨dz', h1, h2, h3, h4, h5, h6⟩ := key rfl rfl
      ⟨fun hd => by
        have := prodOf_snoc P w.cenc [] { avail := pkt, fin := false, buflen := 0 }
        simp only [List.nil_append] at this
        dsimp only
        rw [this, outOf_zero]; simp [prodOf, prodAux]; exact hB' hd, hlen⟩
    refine ⟨?_, by simp [h1], h2, ?_⟩
    · unfold BI; rw [h1]; dsimp only; rw [h2]; exact ⟨(h6 rfl).1, h3⟩
    · unfold fedOf; rw [h1, hdz]; dsimp only; rw [h2, h5]
      have := consOf_snoc P w.cenc [] { avail := pkt, fin := false, buflen := 0 }
      simp only [List.nil_append] at this
      rw [this]; simp [consOf, consAux]
  | some dz =>
    rw [hdz] at h
    dsimp only at h
    have hB' : DzI P w.cenc st w dz ∧ dz.fin = false := by unfold BI at hB; rw [hdz] at hB; exact hB
    obtain ⟨dz', h1, h2, h3, h4, h5, h6⟩ := dw_exact P w.cenc T X F pkt _ _ _ _ _ _ _ _ hdz rfl hB'.2 h (Nat.zero_le _) hB'.1
    refine ⟨?_, by simp [h1], h2, ?_⟩
    · unfold BI; rw [h1]; dsimp only; rw [h2]; exact ⟨h6, h3⟩
    · unfold fedOf; rw [h1, hdz]; dsimp only; rw [h2, h5]; simp

/-- `finish()` + the final `decoder_read`: with all of `T` fed, Ok and nothing discarded means exactly `X` was written -/
theorem finish_exact (P : Params) (T X : Bytes) (st : St) (w : BW) (st' : St) (w' : BW)
    (F : DzFun P w.cenc T X) (hdz : w.dz.isSome = true) (hB : BI P st w) (hfed : fedOf P w = T)
    (h : bwFinish P st w = .ok (st', w', true)) (hd : w'.discarded = false) : st'.written = X := by
  unfold bwFinish at h
  cases hz : w.dz with
  | none => simp [hz] at hdz
  | some dz =>
    rw [hz] at h
    dsimp only at h
    have hB' : DzI P w.cenc st w dz ∧ dz.fin = false := by unfold BI at hB; rw [hz] at hB; exact hB
    have hfed' : consOf P w.cenc dz.hist ++ dz.ring = T := by unfold fedOf at hfed; rw [hz] at hfed; exact hfed
    have key := fun a b d => dr_exact P w.cenc T X F _ _ _ { dz with fin := true } _ _ _ a b h d
    obtain ⟨dz', h1, h2, h3, h4, h5, h6⟩ := key rfl rfl ⟨hB'.1.wr, hB'.1.buf⟩
    exact (h6 rfl).2 rfl hfed' hd

/-- a BlockWriter fed chunk after chunk through the data part of `BlockWriter::write`, every call returning Ok -/
inductive FeedRun (P : Params) : St → BW → List Bytes → St → BW → Prop
  | nil (st : St) (w : BW) : FeedRun P st w [] st w
  | cons {st st1 st2 : St} {w w1 w2 : BW} {d : Bytes} {ds : List Bytes} :
      bwData P st w d = .ok (st1, w1, true) → FeedRun P st1 w1 ds st2 w2 → FeedRun P st w (d :: ds) st2 w2

theorem feedRun_exact (P : Params) (T X : Bytes) {st st' : St} {w w' : BW} {ds : List Bytes}
    (hrun : FeedRun P st w ds st' w') :
    w.cenc ≠ .null → DzFun P w.cenc T X → BI P st w → (∀ d ∈ ds, d ≠ []) →
    BI P st' w' ∧ w'.cenc = w.cenc ∧ fedOf P w' = fedOf P w ++ ds.flatten ∧ (ds ≠ [] → w'.dz.isSome = true) := by
  induction hrun with
  | nil st w => intro _ _ hB _; exact ⟨hB, rfl, by simp, fun h => absurd rfl h⟩
  | @cons st0 st1 st2 w0 w1 w2 d ds h1 hr ih =>
    intro hc F hB hne
    unfold bwData at h1
    rw [if_neg hc] at h1
    obtain ⟨b1, b2, b3, b4⟩ := dwp_exact P T X _ _ _ _ _ F (.inl (hne d (List.mem_cons_self ..))) hB h1
    obtain ⟨c1, c2, c3, c4⟩ := ih (by rw [b3]; exact hc) (by rw [b3]; exact F) b1
      (fun x hx => hne x (List.mem_cons_of_mem _ hx))
    refine ⟨c1, c2.trans b3, ?_, fun _ => ?_⟩
    · rw [c3, b4]; simp [List.append_assoc]
    · cases ds with
      | nil => cases hr; exact b2
      | cons x r => exact c4 (by simp)

/-- **BlockWriter level, cenc != null: Ok to the end means exactly the content.**  A fresh BlockWriter of encoding `c != Null` on a
    writer that has accepted nothing yet; the non-empty chunks `ds` (the trimmed source blocks, in order) concatenate to the compressed
    stream `T`; every data call and the final `finish` + `decoder_read` returned Ok; no decoded byte was discarded because of an
    announced Content-Length.  Then the writer has accepted exactly `X` - for EVERY decompressor meeting `DzFun`, every ring
    size / chunking / writer behaviour. -/
theorem bw_stream_exact (P : Params) (T X : Bytes) (st st1 st2 : St) (w w1 w2 : BW) (ds : List Bytes)
    (hc : w.cenc ≠ .null) (F : DzFun P w.cenc T X) (hdz : w.dz = none) (hw : st.written = [])
    (hne : ∀ d ∈ ds, d ≠ []) (hds : ds ≠ []) (hT : ds.flatten = T)
    (hrun : FeedRun P st w ds st1 w1) (hfin : bwFinish P st1 w1 = .ok (st2, w2, true)) (hd : w2.discarded = false) :
    st2.written = X := by
  have hB : BI P st w := by unfold BI; rw [hdz]; exact fun _ => hw
  obtain ⟨b1, b2, b3, b4⟩ := feedRun_exact P T X hrun hc F hB hne
  have hfed : fedOf P w1 = T := by rw [b3]; unfold fedOf; rw [hdz]; simpa using hT
  exact finish_exact P T X st1 w1 st2 w2 (by rw [b2]; exact F) (b4 hds) b1 hfed hfin hd

end Flute.ObjRecv
