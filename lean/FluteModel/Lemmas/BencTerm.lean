import FluteModel.Lemmas.BencShape
/-
  `BlockEncoder::read` never spins: every `continue` of its loop removes a drained block, and the blocks
  `read_window` opens in between are never drained.
-/
namespace Flute.BencTerm
open Flute Flute.Fec Flute.BlockEnc Flute.BencArith Flute.BencBlocks Flute.BencInv Flute.BencLoop Flute.BencTrace

theorem countP_eraseIdx {p : Block → Bool} : ∀ (l : List Block) (i : Nat) (x : Block),
    l[i]? = some x → p x = true → (l.eraseIdx i).countP p + 1 = l.countP p := by
  intro l
  induction l with
  | nil => intro i x h; simp at h
  | cons a t ih =>
    intro i x h hp
    cases i with
    | zero =>
      simp only [List.getElem?_cons_zero, Option.some.injEq] at h
      subst h
      simp [List.countP_cons, hp]
    | succ i =>
      simp only [List.getElem?_cons_succ] at h
      have := ih i x h hp
      simp only [List.eraseIdx_cons_succ, List.countP_cons]
      omega

variable {P : Params} {c : Bytes} {aL aS nL n : Nat}

/-- number of drained open blocks -/
def drained (s : Enc) : Nat := s.blocks.countP Block.isEmpty

theorem readLoop_no_hang (hS : Setup P c aL aS nL n) (hA : Accepts P c aL aS nL n) (force : Bool) (tr : List Pkt) :
    ∀ (fuel : Nat) (s : Enc), Inv P c aL aS nL n s → TInv P c aL aS nL tr s → drained s < fuel →
      (readLoop P force fuel s).1 ≠ .hang := by
  intro fuel
  induction fuel with
  | zero => intro s _ _ h; omega
  | succ fuel ih =>
    intro s hI hT hd
    obtain ⟨hI1, hT1, _, _, _, _, _, _, l, hl, hl2⟩ := inv_readWindowAux hS hA tr P.window s hI hT
    unfold readLoop
    simp only
    generalize hs1 : readWindow P s = s1
    have hs1' : readWindowAux P P.window s = s1 := hs1
    rw [hs1'] at hI1 hT1 hl
    have hd1 : drained s1 = drained s := by
      unfold drained
      rw [hl, List.countP_append]
      have : l.countP Block.isEmpty = 0 := by
        rw [List.countP_eq_zero]
        intro b hb
        obtain ⟨h1, h2⟩ := hl2 b hb
        simp [Block.isEmpty, h1]; omega
      omega
    by_cases hemp : s1.blocks.isEmpty = true
    · simp only [hemp, if_true]
      split
      · split <;> simp
      · simp
    · simp only [hemp, Bool.false_eq_true, if_false]
      have hne : s1.blocks ≠ [] := fun h => hemp (List.isEmpty_iff.mpr h)
      have hlen : 0 < s1.blocks.length := List.length_pos_iff.mpr hne
      generalize hidx' : (if s1.idx ≥ s1.blocks.length then 0 else s1.idx) = idx
      have hidxlt : idx < s1.blocks.length := by rw [← hidx']; split <;> omega
      have hget : s1.blocks[idx]? = some s1.blocks[idx] := List.getElem?_eq_getElem hidxlt
      generalize s1.blocks[idx] = blk at hget
      rw [hget]
      simp only
      unfold Block.read
      cases hsh : blk.shards[blk.readIndex]? with
      | none =>
        simp only
        have hdr : blk.readIndex = blk.shards.length := by
          have h1 := (hI1.blocks_ok blk (List.mem_iff_getElem?.mpr ⟨idx, hget⟩)).2.2
          have h2 := List.getElem?_eq_none_iff.mp hsh
          omega
        obtain ⟨hI2, hT2⟩ := inv_erase hI1 hT1 hget hdr
        apply ih _ hI2 hT2
        have := countP_eraseIdx (p := Block.isEmpty) s1.blocks idx blk hget (by simp [Block.isEmpty, hdr])
        unfold drained at hd1 hd ⊢
        simp only
        omega
      | some sh => simp

/-- `read` never runs out of fuel -/
theorem read_no_hang (hS : Setup P c aL aS nL n) (hA : Accepts P c aL aS nL n) {s : Enc} {tr : List Pkt} (f : Bool)
    (hI : Inv P c aL aS nL n s) (hT : TInv P c aL aS nL tr s) : (BlockEnc.read P s f).1 ≠ .hang := by
  unfold BlockEnc.read
  split
  · simp
  · have hc : ∀ s' : Enc, drained s' < readFuel P s' := by
      intro s'
      unfold drained readFuel
      have := List.countP_le_length (p := Block.isEmpty) (l := s'.blocks)
      omega
    cases f with
    | true => exact readLoop_no_hang hS hA true tr _ _ (inv_stopped true hI) (tinv_stopped true hT) (hc _)
    | false => exact readLoop_no_hang hS hA false tr _ _ hI hT (hc _)

end Flute.BencTerm
