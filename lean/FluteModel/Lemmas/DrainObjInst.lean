import FluteModel.Lemmas.DrainObj
import FluteModel.ObjRecvIdeal
import FluteModel.Lemmas.ObjRecvTotal
/-
  The decompressor contract `DzContract` (Lemmas/DrainObj.lean) is SATISFIABLE by decompressors that do hand out data
  (review batch 3: the earlier `DzOK` with one fuel constant was not):
    * `idContract`     - the one-byte-at-a-time identity transducer (what any inflater does at least, on stored blocks);
    * `idealContract`  - the always-draining table decompressor `Drv.Orecv.idealDz ztab` (any table), an earlier variant of the
                         one the `orecv` driver executes now (`tableDz`, contract `Drv.Orecv.tableContract` in
                         Lemmas/DrvOrecvDzOK.lean).
  Neither mentions the inner fuel of the model; with the state-dependent fuel `dzFuel c hist avail := mu c hist avail + 1`
  they give `DzOK` (see `DzOK.ofContract` once `Params.dzFuel` is a function).
-/
namespace Flute.Lemmas.DrainObj
open Flute Flute.FecDec Flute.ObjRecv

/-- hands out the first available byte, consumes it -/
def idRead : Cenc → List DzCall → DzCall → DzOut := fun _ _ call =>
  match call.avail with
  | [] => ⟨0, .wouldBlock⟩
  | b :: _ => if call.buflen = 0 then ⟨0, .wouldBlock⟩ else ⟨1, .data [b]⟩

/-- the identity transducer meets the contract: measure = bytes in the ring -/
def idContract (P : Params) (h : P.dzRead = idRead) : DzContract P where
  mu := fun _ _ avail => avail.length
  read_decreases := by
    intro c hist call out hres hne
    rw [h] at hres ⊢
    unfold idRead at hres ⊢
    cases ha : call.avail with
    | nil => simp [ha] at hres
    | cons b r =>
      simp only [ha] at hres ⊢
      by_cases hb : call.buflen = 0
      · simp [hb] at hres
      · simp [hb]

/-! ### the driver's ideal table decompressor -/

open Flute.Drv.Orecv

/-- the decoder state after a call history, as `idealDz` computes it -/
def idealState (ztab : List (Bytes × Bytes × Bool)) (cenc : Cenc) (hist : List DzCall) : Bytes × Nat :=
  hist.foldl (fun s h =>
    ((if (h.buflen == 0) = true ∧ (cenc != .gzip) = true then (s, ({ take := 0, res := .wouldBlock } : DzOut))
      else idealStep ztab s h)).1) ([], 0)

theorem idealDz_eq (ztab : List (Bytes × Bytes × Bool)) (cenc : Cenc) (hist : List DzCall) (c : DzCall) :
    idealDz ztab cenc hist c =
      ((if (c.buflen == 0) = true ∧ (cenc != .gzip) = true then
          (idealState ztab cenc hist, ({ take := 0, res := .wouldBlock } : DzOut))
        else idealStep ztab (idealState ztab cenc hist) c)).2 := rfl

theorem idealState_snoc (ztab : List (Bytes × Bytes × Bool)) (cenc : Cenc) (hist : List DzCall) (c : DzCall) :
    idealState ztab cenc (hist ++ [c]) =
      ((if (c.buflen == 0) = true ∧ (cenc != .gzip) = true then
          (idealState ztab cenc hist, ({ take := 0, res := .wouldBlock } : DzOut))
        else idealStep ztab (idealState ztab cenc hist) c)).1 := by
  simp [idealState, List.foldl_append]

/-- output still obtainable: the content of the table entry matching (consumed ++ ring), minus what was handed out -/
def idealMu (ztab : List (Bytes × Bytes × Bool)) (cenc : Cenc) (hist : List DzCall) (avail : Bytes) : Nat :=
  match ztab.find? (·.1 == (idealState ztab cenc hist).1 ++ avail) with
  | some (_, content, _) => content.length - (idealState ztab cenc hist).2
  | none => 0

/-- the driver's decompressor meets the contract, for every table -/
def idealContract (P : Params) (ztab : List (Bytes × Bytes × Bool)) (h : P.dzRead = idealDz ztab) : DzContract P where
  mu := idealMu ztab
  read_decreases := by
    intro c hist call out hres hne
    rw [h] at hres ⊢
    rw [idealDz_eq] at hres ⊢
    unfold idealMu
    rw [idealState_snoc]
    by_cases hctor : (call.buflen == 0) = true ∧ (c != .gzip) = true
    · simp [hctor] at hres
    · simp only [hctor, if_false] at hres ⊢
      generalize idealState ztab c hist = stt at hres ⊢
      obtain ⟨consumed, produced⟩ := stt
      unfold idealStep at hres ⊢
      simp only [] at hres ⊢
      cases hf : ztab.find? (·.1 == consumed ++ call.avail) with
      | none =>
        simp only [hf] at hres
        split at hres <;> cases hres
      | some e =>
        obtain ⟨cmp, content, bad⟩ := e
        simp only [hf] at hres ⊢
        split at hres
        · cases hres
        · simp only [DzRes.data.injEq] at hres
          rename_i hnb
          simp only [hnb, if_false, List.drop_length, List.append_nil, hf]
          -- out = (content.drop produced).take buflen is non-empty
          subst hres
          have hlen : 0 < ((content.drop produced).take call.buflen).length := by
            cases hx : (content.drop produced).take call.buflen with
            | nil => simp [hx] at hne
            | cons a b => simp
          rw [List.length_take, List.length_drop] at hlen ⊢
          omega


/-! ### from a contract to `DzOK` (state-dependent inner fuel) -/

/-- the contract does not mention the inner fuel -/
def DzContract.withFuel {P : Params} (C : DzContract P) (f : BW → Nat) : DzContract { P with dzFuel := f } :=
  ⟨C.mu, C.read_decreases⟩

/-- EVERY contract yields `DzOK` for the parameters whose inner fuel is "measure + 1" -/
def dzOK_of_contract {P : Params} (C : DzContract P) :
    DzOK { P with dzFuel := fun w => bwMu (C.withFuel (fun _ => 0)) w + 1 } :=
  DzOK.ofContract _ (C.withFuel _) (fun _ => rfl)

/-- `DzOK` is satisfiable by a decompressor that hands out every byte it is given (the counterexample of review batch 3 to
    the old, constant-fuel `DzOK`) -/
theorem dzOK_identity_satisfiable (P0 : Params) (h : P0.dzRead = idRead) :
    ∃ P : Params, P.dzRead = idRead ∧ P.codec = P0.codec ∧ P.env = P0.env ∧ Nonempty (DzOK P) :=
  ⟨{ P0 with dzFuel := fun w => bwMu ((idContract P0 h).withFuel (fun _ => 0)) w + 1 }, h, rfl, rfl,
    ⟨dzOK_of_contract (idContract P0 h)⟩⟩

/-- ... and by the `orecv` driver's table decompressor, for every table -/
theorem dzOK_ideal_satisfiable (P0 : Params) (ztab : List (Bytes × Bytes × Bool)) (h : P0.dzRead = idealDz ztab) :
    ∃ P : Params, P.dzRead = idealDz ztab ∧ P.codec = P0.codec ∧ P.env = P0.env ∧ Nonempty (DzOK P) :=
  ⟨{ P0 with dzFuel := fun w => bwMu ((idealContract P0 ztab h).withFuel (fun _ => 0)) w + 1 }, h, rfl, rfl,
    ⟨dzOK_of_contract (idealContract P0 ztab h)⟩⟩

end Flute.Lemmas.DrainObj
