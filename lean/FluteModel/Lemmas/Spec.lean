import FluteModel.Lemmas.Bytes
import FluteModel.Spec.Bits
/- bridge between the spec's bit-field layer and the model's byte layer (core Lean only) -/
namespace Flute.Spec
open Flute.Bytes

theorem octets_eq_beBytes (n v : Nat) : octets n v = beBytes n v := by
  apply List.ext_getElem
  · simp [octets]
  · intro i h1 h2
    simp only [octets, List.length_map, List.length_range] at h1
    simp only [octets, List.getElem_map, List.getElem_range, octet]
    -- element i of beBytes n v
    have key : ∀ n i (h : i < (beBytes n v).length), (beBytes n v)[i] = v / 256 ^ (n - 1 - i) % 256 := by
      intro n
      induction n with
      | zero => intro i h; simp [beBytes] at h
      | succ n ih =>
        intro i h
        cases i with
        | zero => simp [beBytes]
        | succ i =>
          simp only [beBytes, List.getElem_cons_succ]
          rw [ih i (by simpa [beBytes] using h)]
          congr 3
          simp only [length_beBytes] at h
          omega
    rw [key n i h2]
    have : (2:Nat) ^ (8 * (n - 1 - i)) = 256 ^ (n - 1 - i) := by
      rw [Nat.pow_mul]
    rw [this]

theorem toNat_eq_beVal (d : List Nat) : toNat d = beVal d := by
  unfold toNat
  have h28 : (2:Nat) ^ 8 = 256 := by decide
  simp only [h28]
  suffices h : ∀ acc, d.foldl (fun acc b => acc * 256 + b) acc = acc * 256 ^ d.length + beVal d by
    simpa using h 0
  induction d with
  | nil => intro acc; simp [beVal]
  | cons b r ih =>
    intro acc
    simp only [List.foldl_cons, ih, beVal, List.length_cons, Nat.pow_succ]
    rw [Nat.add_mul, Nat.mul_assoc, Nat.mul_comm 256]
    omega

theorem width_append (fs gs : List Field) : width (fs ++ gs) = width fs + width gs := by
  induction fs with
  | nil => simp [width]
  | cons f r ih => obtain ⟨w, v⟩ := f; simp [width, ih]; omega

theorem pack_append (fs gs : List Field) : pack (fs ++ gs) = pack fs * 2 ^ width gs + pack gs := by
  induction fs with
  | nil => simp [pack]
  | cons f r ih =>
    obtain ⟨w, v⟩ := f
    simp only [List.cons_append, pack, ih, width_append, Nat.pow_add, Nat.add_mul]
    rw [Nat.mul_assoc]; omega

theorem pack_lt (fs : List Field) (h : FieldsOk fs) : pack fs < 2 ^ width fs := by
  induction fs with
  | nil => simp [pack, width]
  | cons f r ih =>
    obtain ⟨w, v⟩ := f
    obtain ⟨hv, hr⟩ := h
    have := ih hr
    simp only [pack, width, Nat.pow_add]
    have h1 : v * 2 ^ width r ≤ (2 ^ w - 1) * 2 ^ width r := Nat.mul_le_mul_right _ (by omega)
    have h2 : (2 ^ w - 1) * 2 ^ width r = 2 ^ w * 2 ^ width r - 2 ^ width r := by
      rw [Nat.sub_mul, Nat.one_mul]
    have h3 : 2 ^ width r ≤ 2 ^ w * 2 ^ width r := Nat.le_mul_of_pos_left _ (Nat.pow_pos (by decide))
    omega

theorem fieldsOk_append {fs gs : List Field} (hf : FieldsOk fs) (hg : FieldsOk gs) : FieldsOk (fs ++ gs) := by
  induction fs with
  | nil => simpa using hg
  | cons f r ih => obtain ⟨w, v⟩ := f; exact ⟨hf.1, ih hf.2⟩

/-- beBytes only looks at the low `n` bytes -/
theorem beBytes_congr {n x y : Nat} (h : x % 256 ^ n = y % 256 ^ n) : beBytes n x = beBytes n y := by
  rw [← beBytes_mod n x, ← beBytes_mod n y, h]

/-- byte-aligned diagrams concatenate -/
theorem encode_append (fs gs : List Field) (hf : width fs % 8 = 0) (hg : width gs % 8 = 0) (hok : FieldsOk gs) :
    encode (fs ++ gs) = encode fs ++ encode gs := by
  unfold encode
  rw [octets_eq_beBytes, octets_eq_beBytes, octets_eq_beBytes, width_append, pack_append]
  have e : (width fs + width gs) / 8 = width fs / 8 + width gs / 8 := by omega
  rw [e, beBytes_add]
  have hp : (2:Nat) ^ width gs = 256 ^ (width gs / 8) := by
    have : width gs = 8 * (width gs / 8) := by omega
    conv => lhs; rw [this, Nat.pow_mul]
  have hlt := pack_lt gs hok
  rw [hp] at hlt ⊢
  congr 1
  · rw [Nat.add_comm, Nat.add_mul_div_right _ _ (Nat.pow_pos (by decide)), Nat.div_eq_of_lt hlt, Nat.zero_add]
  · apply beBytes_congr
    rw [Nat.add_comm, Nat.add_mul_mod_self_right]

theorem encode_single (k v : Nat) : encode [(8 * k, v)] = beBytes k v := by
  unfold encode
  rw [octets_eq_beBytes]
  simp [width, pack]

theorem bitsAt_eq (d : List Nat) (pos w : Nat) :
    bitsAt d pos w = beVal d / 2 ^ (8 * d.length - pos - w) % 2 ^ w := by
  unfold bitsAt; rw [toNat_eq_beVal]

end Flute.Spec
