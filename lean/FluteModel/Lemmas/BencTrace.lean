import FluteModel.Lemmas.BencLoop
/-
  Runs of `BlockEncoder::read` (buffer source, repaired code): reachable states satisfy the invariants,
  a transfer that ran to its end has emitted, per block, exactly the block's shards in order.
-/
namespace Flute.BencTrace
open Flute Flute.Fec Flute.BlockEnc Flute.BencArith Flute.BencBlocks Flute.BencInv Flute.BencLoop

/-- consecutive successful `read(force)` calls: the packets returned, each with the `force` flag of its call -/
inductive Reads (P : Params) : Enc → List (Bool × Pkt) → Enc → Prop
  | nil (s : Enc) : Reads P s [] s
  | snoc {s0 s s' : Enc} {tr : List (Bool × Pkt)} {f : Bool} {p : Pkt} :
      Reads P s0 tr s → BlockEnc.read P s f = (.pkt p, s') → Reads P s0 (tr ++ [(f, p)]) s'

/-- the packets of a run -/
def pkts (tr : List (Bool × Pkt)) : List Pkt := tr.map (·.2)

theorem pkts_append (a b : List (Bool × Pkt)) : pkts (a ++ b) = pkts a ++ pkts b := by simp [pkts]

variable {P : Params} {c : Bytes} {aL aS nL n : Nat}

theorem inv_stopped {s : Enc} (b : Bool) (hI : Inv P c aL aS nL n s) : Inv P c aL aS nL n { s with stopped := b } :=
  ⟨hI.src, hI.qaL, hI.qaS, hI.qnL, hI.sbn_le, hI.off_eq, hI.readEnd_iff, hI.blocks_ok, hI.sorted, hI.win⟩

theorem tinv_stopped {s : Enc} {tr : List Pkt} (b : Bool) (hT : TInv P c aL aS nL tr s) :
    TInv P c aL aS nL tr { s with stopped := b } := ⟨hT.opened, hT.closed, hT.future⟩

/-- the state a fresh encoder starts in -/
theorem new_state {closable : Bool} {s0 : Enc}
    (hq : Partition.blockPartitioning P.b P.len P.e = .ok (aL, aS, nL, n))
    (h : Enc.new P (.buffer c) closable = .ok s0) :
    s0 = { src := .buffer c, off := 0, sbn := 0, aL := aL, aS := aS, nL := nL, nB := n, blocks := [], idx := 0, readEnd := false, srcSent := 0, nbPkt := 0, stopped := false, closable := closable } := by
  unfold Enc.new at h
  simp only [hq] at h
  cases h; rfl

theorem inv_init (hS : Setup P c aL aS nL n) (closable : Bool) :
    let s0 : Enc := { src := .buffer c, off := 0, sbn := 0, aL := aL, aS := aS, nL := nL, nB := n, blocks := [], idx := 0, readEnd := false, srcSent := 0, nbPkt := 0, stopped := false, closable := closable }
    Inv P c aL aS nL n s0 ∧ TInv P c aL aS nL [] s0 := by
  intro s0
  have hnil : ∀ b : Block, b ∈ s0.blocks → False := by intro b hb; cases hb
  constructor
  · refine ⟨rfl, rfl, rfl, rfl, Nat.zero_le _, off_zero.symm, ?_, ?_, ?_, Nat.zero_le _⟩
    · have := hS.good.n_pos
      show false = true ↔ 0 = n
      constructor
      · intro h; cases h
      · intro h; omega
    · intro b hb; exact (hnil b hb).elim
    · show ([] : List Block).map (·.sbn) |>.Pairwise (· < ·)
      simp
  · refine ⟨?_, ?_, ?_⟩
    · intro b hb; exact (hnil b hb).elim
    · intro k hk; exact absurd hk (Nat.not_lt_zero _)
    · intro k _; rfl

/-- one `read` -/
theorem read_spec (hS : Setup P c aL aS nL n) (hA : Accepts P c aL aS nL n) {s : Enc} {tr : List Pkt} (f : Bool)
    (hI : Inv P c aL aS nL n s) (hT : TInv P c aL aS nL tr s) :
    (s.stopped = true → BlockEnc.read P s f = (.none, s)) ∧
    (s.stopped = false →
      LoopPost P c aL aS nL n f tr (if f then { s with stopped := true } else s) (BlockEnc.read P s f)) := by
  constructor
  · intro h; simp [BlockEnc.read, h]
  · intro h
    unfold BlockEnc.read
    simp only [h, Bool.false_eq_true, if_false]
    cases f with
    | true => exact readLoop_spec hS hA true tr _ _ (inv_stopped true hI) (tinv_stopped true hT)
    | false => exact readLoop_spec hS hA false tr _ _ hI hT

/-- every state reached by reads satisfies the invariants; `stopped` is set exactly by a forced read -/
theorem reach (hS : Setup P c aL aS nL n) (hA : Accepts P c aL aS nL n) {s0 s : Enc} {tr : List (Bool × Pkt)}
    (hI0 : Inv P c aL aS nL n s0) (hT0 : TInv P c aL aS nL [] s0) (hst0 : s0.stopped = false)
    (hr : Reads P s0 tr s) :
    Inv P c aL aS nL n s ∧ TInv P c aL aS nL (pkts tr) s ∧ s.closable = s0.closable ∧
    (s.stopped = true ↔ ∃ x, x ∈ tr ∧ x.1 = true) := by
  induction hr with
  | nil => exact ⟨hI0, hT0, rfl, by simp [hst0]⟩
  | @snoc s s' tr f p _ hstep ih =>
    obtain ⟨hI, hT, hcl, hstp⟩ := ih
    obtain ⟨h1, h2⟩ := read_spec hS hA (tr := pkts tr) f hI hT
    by_cases hs : s.stopped = true
    · rw [h1 hs] at hstep; cases hstep
    · have hs' : s.stopped = false := by simpa using hs
      have := h2 hs'
      rw [hstep] at this
      obtain ⟨a, b, e⟩ := this
      refine ⟨a, by rw [pkts_append]; exact b, ?_, ?_⟩
      · rw [e.closable]; cases f <;> exact hcl
      · rw [e.stopped]
        constructor
        · intro h
          cases f with
          | true => exact ⟨(true, p), by simp, rfl⟩
          | false => simp [hs'] at h
        · intro ⟨x, hx, hx1⟩
          rcases List.mem_append.mp hx with h | h
          · exact absurd (hstp.mpr ⟨x, h, hx1⟩) hs
          · simp only [List.mem_singleton] at h; subst h
            simp only at hx1; subst hx1; rfl

/-- a transfer that was never forced and has run to its end (`read` returns `None`):
    per block, the packets emitted are exactly the block's shards, in order; nothing else was emitted -/
theorem complete_blocks (hS : Setup P c aL aS nL n) (hA : Accepts P c aL aS nL n) (hw : 1 ≤ P.window)
    {s0 s : Enc} {tr : List (Bool × Pkt)}
    (hI0 : Inv P c aL aS nL n s0) (hT0 : TInv P c aL aS nL [] s0) (hst0 : s0.stopped = false)
    (hr : Reads P s0 tr s) (hnf : ∀ x, x ∈ tr → x.1 = false) (hend : (BlockEnc.read P s false).1 = .none) :
    (∀ k, k < n → ∃ b0, blockAt P c aL aS nL k = some b0 ∧ proj (pkts tr) k = b0.shards.map sview) ∧
    (∀ k, n ≤ k → proj (pkts tr) k = []) := by
  obtain ⟨hI, hT, _, hstp⟩ := reach hS hA hI0 hT0 hst0 hr
  have hs : s.stopped = false := by
    cases h : s.stopped with
    | false => rfl
    | true =>
      obtain ⟨x, hx, hx1⟩ := hstp.mp h
      rw [hnf x hx] at hx1; cases hx1
  have := (read_spec hS hA (tr := pkts tr) false hI hT).2 hs
  revert this hend
  generalize BlockEnc.read P s false = res
  intro hend this
  match res, hend, this with
  | (.none, s'), _, ⟨hI', hT', hnil, hre, _⟩ =>
    have hsbn : s'.sbn = n := hI'.readEnd_iff.mp (hre hw)
    constructor
    · intro k hk
      exact hT'.closed k (by omega) (by intro b hb; rw [hnil] at hb; cases hb)
    · intro k hk
      exact hT'.future k (by omega)

end Flute.BencTrace
