import FluteModel.RecvMini
import FluteModel.Lemmas.RecvSilent
import FluteModel.Lemmas.RecvTotal
/-
  The concrete object `Mini` of the executable driver satisfies the two contracts the receiver
  theorems ask of an object implementation: `ObjIface.CompleteSound` (C04) and `ObjIface.Law` (C19).
-/
namespace Flute.Recv.Mini
open Flute Flute.Recv

/-- facts about one transition `o ⟶ o'` with writer calls `e` -/
structure Tr (o o' : Obj) (e : List WEv) : Prop where
  toi : o'.toi = o.toi
  fdt : o'.fdtId = o.fdtId
  ws : o.wsess ≠ .none → o'.wsess ≠ .none
  un : o.fdtId = none → o.wsess = .none → o'.wsess = .none ∧ e = []
  cs : o.st = .receiving → (WEv.complete ∈ e → o'.st = .completed) ∧ (o'.st ≠ .receiving → o'.cache = [])

theorem Tr.refl (o : Obj) : Tr o o [] :=
  ⟨rfl, rfl, id, fun _ h => ⟨h, rfl⟩, fun h => ⟨fun hm => by simp at hm, fun hn => absurd h hn⟩⟩

/-- the two objects agree on everything `Tr` looks at -/
def Same (o o1 : Obj) : Prop :=
  o1.toi = o.toi ∧ o1.fdtId = o.fdtId ∧ o1.wsess = o.wsess ∧ o1.st = o.st ∧ o1.cache = o.cache

theorem Tr.of_same (o o1 o' : Obj) (e : List WEv) (h : Same o o1) (t : Tr o1 o' e) : Tr o o' e := by
  obtain ⟨h1, h2, h3, h4, h5⟩ := h
  exact ⟨by rw [t.toi, h1], by rw [t.fdt, h2], fun hw => t.ws (by rw [h3]; exact hw),
    fun hf hw => t.un (by rw [h2]; exact hf) (by rw [h3]; exact hw),
    fun hs => t.cs (by rw [h4]; exact hs)⟩

/-- a transition followed by one that starts in state `Receiving` -/
theorem Tr.trans (o o1 o2 : Obj) (e1 e2 : List WEv) (t1 : Tr o o1 e1) (t2 : Tr o1 o2 e2)
    (hst : o.st = .receiving → WEv.complete ∉ e1 ∧ o1.st = .receiving) : Tr o o2 (e1 ++ e2) := by
  refine ⟨by rw [t2.toi, t1.toi], by rw [t2.fdt, t1.fdt], fun hw => t2.ws (t1.ws hw), ?_, ?_⟩
  · intro hf hw
    obtain ⟨h1, h2⟩ := t1.un hf hw
    obtain ⟨h3, h4⟩ := t2.un (by rw [t1.fdt]; exact hf) h1
    exact ⟨h3, by rw [h2, h4]; rfl⟩
  · intro hs
    obtain ⟨hn, hr⟩ := hst hs
    obtain ⟨c2, k2⟩ := t2.cs hr
    refine ⟨fun hm => ?_, k2⟩
    rcases List.mem_append.mp hm with hm | hm
    · exact absurd hm hn
    · exact c2 hm

theorem tr_complete' (o : Obj) : Tr o (complete o).1 (complete o).2 := by
  unfold complete
  simp only []
  split
  · rename_i h
    exact ⟨rfl, rfl, fun _ => by simp, fun _ hws => absurd hws h, fun _ => ⟨fun _ => rfl, fun _ => rfl⟩⟩
  · rename_i h
    exact ⟨rfl, rfl, fun hw' => absurd hw' h, fun _ hws => ⟨hws, rfl⟩, fun _ => ⟨fun _ => rfl, fun _ => rfl⟩⟩

theorem tr_error (o : Obj) (i : Bool) : Tr o (error o i).1 (error o i).2 := by
  unfold error
  simp only []
  split
  · rename_i h
    refine ⟨rfl, rfl, fun _ => by simp, fun _ hws => absurd hws h, fun _ => ⟨fun hm => ?_, fun _ => rfl⟩⟩
    cases i <;> simp at hm
  · rename_i h
    exact ⟨rfl, rfl, fun hw' => absurd hw' h, fun _ hws => ⟨hws, rfl⟩, fun _ => ⟨fun hm => by simp at hm, fun _ => rfl⟩⟩

theorem tr_finish (o : Obj) : Tr o (finish o).1 (finish o).2 := by
  unfold finish
  split
  · exact tr_complete' o
  · exact tr_error o false

theorem error_not_receiving (o : Obj) (i : Bool) : (error o i).1.st ≠ .receiving ∧ WEv.complete ∉ (error o i).2 := by
  unfold error
  simp only []
  split <;> cases i <;> simp

theorem same_initBlocks (o : Obj) : Same o (initBlocksPartitioning o) := by
  unfold initBlocksPartitioning Same
  split
  · exact ⟨rfl, rfl, rfl, rfl, rfl⟩
  · split
    · split <;> exact ⟨rfl, rfl, rfl, rfl, rfl⟩
    · exact ⟨rfl, rfl, rfl, rfl, rfl⟩

theorem tr_initObjectWriter (o : Obj) :
    Tr o (initObjectWriter o).1 (initObjectWriter o).2 ∧ (initObjectWriter o).1.st = o.st ∧
    WEv.complete ∉ (initObjectWriter o).2 ∧ (initObjectWriter o).1.cache = o.cache := by
  unfold initObjectWriter
  by_cases hws : o.wsess ≠ .none
  · rw [if_pos hws]; exact ⟨Tr.refl o, rfl, by simp, rfl⟩
  · rw [if_neg hws]
    cases hf : o.fdtId with
    | none => exact ⟨Tr.refl o, rfl, by simp, rfl⟩
    | some i =>
      cases ht : o.tlen with
      | none => exact ⟨Tr.refl o, rfl, by simp, rfl⟩
      | some l =>
        cases ho : o.oti with
        | none => exact ⟨Tr.refl o, rfl, by simp, rfl⟩
        | some x =>
          refine ⟨Tr.mk ?_ ?_ ?_ ?_ ?_, ?_, ?_, ?_⟩ <;> simp_all

/-- prefixing a non-`complete` writer call made with an open writer -/
theorem Tr.cons (o o' : Obj) (x : WEv) (e : List WEv) (t : Tr o o' e) (hw : o.wsess ≠ .none)
    (hx : x ≠ WEv.complete) : Tr o o' (x :: e) :=
  ⟨t.toi, t.fdt, t.ws, fun _ hws => absurd hws hw,
   fun hs => ⟨fun hm => by
      rcases List.mem_cons.mp hm with hm | hm
      · exact absurd hm.symm hx
      · exact (t.cs hs).1 hm, (t.cs hs).2⟩⟩

theorem same_wbAdvance (o : Obj) (off : Nat) (b : Blk) : Same o (wbAdvance o off b).1 := by
  unfold wbAdvance Same
  simp only []
  split <;> exact ⟨rfl, rfl, rfl, rfl, rfl⟩

theorem tr_writeBlocks : ∀ (fuel : Nat) (o : Obj) (sbn : Nat),
    Tr o (writeBlocks fuel o sbn).1 (writeBlocks fuel o sbn).2 := by
  intro fuel
  induction fuel with
  | zero => intro o sbn; exact Tr.refl o
  | succ n ih =>
    intro o sbn
    unfold writeBlocks
    by_cases hopen : o.wsess ≠ .opened ∨ ¬ o.hasBw = true
    · rw [if_pos hopen]; exact Tr.refl o
    · rw [if_neg hopen]
      have hw : o.wsess ≠ .none := by
        intro h
        apply hopen
        left; rw [h]; simp
      by_cases hr : sbn < o.blocksOffset ∨ sbn - o.blocksOffset ≥ o.blocks.length
      · rw [if_pos hr]; exact Tr.refl o
      · rw [if_neg hr]
        cases o.blocks[sbn - o.blocksOffset]? with
        | none => exact Tr.refl o
        | some b =>
          simp only []
          by_cases hc : ¬ b.completed = true
          · rw [if_pos hc]; exact Tr.refl o
          · rw [if_neg hc]
            by_cases hs : o.bwSbn ≠ sbn
            · rw [if_pos hs]; exact Tr.refl o
            · rw [if_neg hs]
              by_cases hz : (wbAdvance o (sbn - o.blocksOffset) b).1.bytesLeft = 0
              · rw [if_pos hz]
                exact Tr.cons _ _ _ _ (Tr.of_same o _ _ _ (same_wbAdvance o _ b) (tr_finish _)) hw (by simp)
              · rw [if_neg hz]
                exact Tr.cons _ _ _ _ (Tr.of_same o _ _ _ (same_wbAdvance o _ b) (ih _ _)) hw (by simp)

theorem same_growBlocks (o : Obj) (off : Nat) : Same o (growBlocks o off) := by
  unfold growBlocks Same
  split <;> exact ⟨rfl, rfl, rfl, rfl, rfl⟩

/-- `push_to_block2`: `Tr` on success -/
theorem tr_pushToBlock2 (o : Obj) (p : Pkt) (r : Obj × List WEv) (h : pushToBlock2 o p = .ok r) :
    Tr o r.1 r.2 := by
  unfold pushToBlock2 at h
  cases hp : p.pid with
  | none => rw [hp] at h; cases h
  | some x =>
    obtain ⟨sbn, esi⟩ := x
    rw [hp] at h
    cases ho : o.oti with
    | none => rw [ho] at h; cases h
    | some ot =>
      rw [ho] at h
      cases ht : o.tlen with
      | none => rw [ht] at h; cases h
      | some l =>
        rw [ht] at h
        simp only [] at h
        by_cases h0 : l = 0
        · rw [if_pos h0] at h; injection h with h; subst h
          split
          · exact tr_complete' o
          · exact Tr.refl o
        · rw [if_neg h0] at h
          by_cases h1 : sbn ≥ o.nbBlocks
          · rw [if_pos h1] at h; injection h with h; subst h; exact Tr.refl o
          · rw [if_neg h1] at h
            by_cases h2 : sbn < o.blocksOffset
            · rw [if_pos h2] at h; injection h with h; subst h; exact Tr.refl o
            · rw [if_neg h2] at h
              by_cases h3 : sbn - o.blocksOffset ≥ o.blocks.length ∧ sbn - o.blocksOffset > 2 * 2048
              · rw [if_pos h3] at h; cases h
              · rw [if_neg h3] at h
                have hsg := same_growBlocks o (sbn - o.blocksOffset)
                cases hb : (growBlocks o (sbn - o.blocksOffset)).blocks[sbn - o.blocksOffset]? with
                | none =>
                  rw [hb] at h; injection h with h; subst h
                  exact Tr.of_same o _ _ _ hsg (Tr.refl _)
                | some b =>
                  rw [hb] at h
                  simp only [] at h
                  by_cases h4 : b.completed = true
                  · rw [if_pos h4] at h; injection h with h; subst h
                    exact Tr.of_same o _ _ _ hsg (Tr.refl _)
                  · rw [if_neg h4] at h
                    have hs2 : Same o ({ growBlocks o (sbn - o.blocksOffset) with
                        blocks := setBlk (growBlocks o (sbn - o.blocksOffset)).blocks (sbn - o.blocksOffset)
                          (blkPush o b sbn esi p.plen) } : Obj) := by
                      obtain ⟨a1, a2, a3, a4, a5⟩ := hsg
                      exact ⟨a1, a2, a3, a4, a5⟩
                    by_cases h5 : (blkPush o b sbn esi p.plen).completed = true
                    · rw [if_pos h5] at h; injection h with h; subst h
                      exact Tr.of_same o _ _ _ hs2 (tr_writeBlocks _ _ _)
                    · rw [if_neg h5] at h; injection h with h; subst h
                      exact Tr.of_same o _ _ _ hs2 (Tr.refl _)

/-- `push_to_block2` failing: nothing was written, identity fields untouched -/
theorem err_pushToBlock2 (o : Obj) (p : Pkt) (o' : Obj) (h : pushToBlock2 o p = .error o') :
    o'.toi = o.toi ∧ o'.fdtId = o.fdtId ∧ o'.wsess = o.wsess := by
  unfold pushToBlock2 at h
  cases hp : p.pid with
  | none => rw [hp] at h; injection h with h; subst h; exact ⟨rfl, rfl, rfl⟩
  | some x =>
    obtain ⟨sbn, esi⟩ := x
    rw [hp] at h
    cases ho : o.oti with
    | none => rw [ho] at h; injection h with h; subst h; exact ⟨rfl, rfl, rfl⟩
    | some ot =>
      rw [ho] at h
      cases ht : o.tlen with
      | none => rw [ht] at h; injection h with h; subst h; exact ⟨rfl, rfl, rfl⟩
      | some l =>
        rw [ht] at h
        simp only [] at h
        by_cases h0 : l = 0
        · rw [if_pos h0] at h; cases h
        · rw [if_neg h0] at h
          by_cases h1 : sbn ≥ o.nbBlocks
          · rw [if_pos h1] at h; cases h
          · rw [if_neg h1] at h
            by_cases h2 : sbn < o.blocksOffset
            · rw [if_pos h2] at h; cases h
            · rw [if_neg h2] at h
              by_cases h3 : sbn - o.blocksOffset ≥ o.blocks.length ∧ sbn - o.blocksOffset > 2 * 2048
              · rw [if_pos h3] at h; injection h with h; subst h; exact ⟨rfl, rfl, rfl⟩
              · rw [if_neg h3] at h
                cases hb : (growBlocks o (sbn - o.blocksOffset)).blocks[sbn - o.blocksOffset]? with
                | none => rw [hb] at h; cases h
                | some b =>
                  rw [hb] at h
                  simp only [] at h
                  by_cases h4 : b.completed = true
                  · rw [if_pos h4] at h; cases h
                  · rw [if_neg h4] at h
                    by_cases h5 : (blkPush o b sbn esi p.plen).completed = true
                    · rw [if_pos h5] at h; cases h
                    · rw [if_neg h5] at h; cases h


/-! ### the unconditional part of `Tr` composes freely -/

structure Tu (o o' : Obj) (e : List WEv) : Prop where
  toi : o'.toi = o.toi
  fdt : o'.fdtId = o.fdtId
  ws : o.wsess ≠ .none → o'.wsess ≠ .none
  un : o.fdtId = none → o.wsess = .none → o'.wsess = .none ∧ e = []

theorem Tr.tu {o o' : Obj} {e : List WEv} (t : Tr o o' e) : Tu o o' e := ⟨t.toi, t.fdt, t.ws, t.un⟩

theorem Tu.refl (o : Obj) : Tu o o [] := (Tr.refl o).tu

theorem Tu.trans {o o1 o2 : Obj} {e1 e2 : List WEv} (t1 : Tu o o1 e1) (t2 : Tu o1 o2 e2) :
    Tu o o2 (e1 ++ e2) := by
  refine ⟨by rw [t2.toi, t1.toi], by rw [t2.fdt, t1.fdt], fun hw => t2.ws (t1.ws hw), ?_⟩
  intro hf hw
  obtain ⟨h1, h2⟩ := t1.un hf hw
  obtain ⟨h3, h4⟩ := t2.un (by rw [t1.fdt]; exact hf) h1
  exact ⟨h3, by rw [h2, h4]; rfl⟩

/-- agreement on the identity fields only -/
theorem Tu.of_ids {o o1 o' : Obj} {e : List WEv} (h1 : o1.toi = o.toi) (h2 : o1.fdtId = o.fdtId)
    (h3 : o1.wsess = o.wsess) (t : Tu o1 o' e) : Tu o o' e :=
  ⟨by rw [t.toi, h1], by rw [t.fdt, h2], fun hw => t.ws (by rw [h3]; exact hw),
   fun hf hw => t.un (by rw [h2]; exact hf) (by rw [h3]; exact hw)⟩

theorem tu_pushToBlock (o : Obj) (p : Pkt) :
    (∀ r, pushToBlock o p = .ok r → Tu o r.1 r.2) ∧
    (∀ o', pushToBlock o p = .error o' → o'.toi = o.toi ∧ o'.fdtId = o.fdtId ∧ o'.wsess = o.wsess) := by
  unfold pushToBlock
  cases h2 : pushToBlock2 o p with
  | error o1 =>
    refine And.intro (fun r h => by cases h) (fun o' h => ?_)
    injection h with h; subst h
    exact err_pushToBlock2 o p o1 h2
  | ok x =>
    obtain ⟨o1, e⟩ := x
    have t1 := (tr_pushToBlock2 o p (o1, e) h2).tu
    simp only []
    refine ⟨fun r h => ?_, fun o' h => ?_⟩
    · by_cases hc : p.closeObject = true ∧ o1.st = .receiving
      · rw [if_pos hc] at h
        injection h with h; subst h
        exact Tu.trans t1 (tr_error o1 true).tu
      · rw [if_neg hc] at h
        injection h with h; subst h
        exact t1
    · by_cases hc : p.closeObject = true ∧ o1.st = .receiving
      · rw [if_pos hc] at h; cases h
      · rw [if_neg hc] at h; cases h

/-- the `CompleteSound` facts of `push_to_block` -/
theorem cs_pushToBlock (o : Obj) (p : Pkt) (hs : o.st = .receiving) (r : Obj × List WEv)
    (h : pushToBlock o p = .ok r) :
    (WEv.complete ∈ r.2 → r.1.st = .completed) ∧ (r.1.st ≠ .receiving → r.1.cache = []) := by
  unfold pushToBlock at h
  cases h2 : pushToBlock2 o p with
  | error o1 => rw [h2] at h; cases h
  | ok x =>
    obtain ⟨o1, e⟩ := x
    rw [h2] at h
    have t1 := (tr_pushToBlock2 o p (o1, e) h2).cs hs
    simp only [] at h t1
    by_cases hc : p.closeObject = true ∧ o1.st = .receiving
    · rw [if_pos hc] at h
      injection h with h; subst h
      have he := error_not_receiving o1 true
      have te := (tr_error o1 true).cs hc.2
      refine ⟨fun hm => ?_, te.2⟩
      rcases List.mem_append.mp hm with hm | hm
      · have := t1.1 hm
        rw [hc.2] at this; cases this
      · exact absurd hm he.2
    · rw [if_neg hc] at h
      injection h with h; subst h
      exact t1

theorem tu_replayCache : ∀ (l : List Pkt) (o : Obj), Tu o (replayCache l o).1 (replayCache l o).2 := by
  intro l
  induction l with
  | nil => intro o; exact Tu.refl o
  | cons p rest ih =>
    intro o
    unfold replayCache
    have hp := tu_pushToBlock { o with cache := rest } p
    cases hpb : pushToBlock { o with cache := rest } p with
    | error o' =>
      simp only []
      obtain ⟨a1, a2, a3⟩ := hp.2 o' hpb
      exact Tu.of_ids (o := o) a1 a2 a3 (tr_error o' false).tu
    | ok x =>
      obtain ⟨o', e⟩ := x
      simp only []
      have t1 : Tu o o' e := Tu.of_ids (o1 := { o with cache := rest }) rfl rfl rfl (hp.1 (o', e) hpb)
      by_cases hc : o'.cache.isEmpty = true
      · rw [if_pos hc]; exact t1
      · rw [if_neg hc]; exact Tu.trans t1 (ih o')

theorem cs_replayCache : ∀ (l : List Pkt) (o : Obj), o.st = .receiving →
    (WEv.complete ∈ (replayCache l o).2 → (replayCache l o).1.st = .completed) := by
  intro l
  induction l with
  | nil => intro o _ hm; simp [replayCache] at hm
  | cons p rest ih =>
    intro o hs
    unfold replayCache
    cases hpb : pushToBlock { o with cache := rest } p with
    | error o' =>
      simp only []
      intro hm
      exact absurd hm (error_not_receiving o' false).2
    | ok x =>
      obtain ⟨o', e⟩ := x
      simp only []
      have c1 := cs_pushToBlock { o with cache := rest } p hs (o', e) hpb
      simp only [] at c1
      by_cases hc : o'.cache.isEmpty = true
      · rw [if_pos hc]; exact c1.1
      · rw [if_neg hc]
        simp only []
        have hr : o'.st = .receiving := by
          cases hst : o'.st with
          | receiving => rfl
          | _ =>
            exfalso
            apply hc
            rw [c1.2 (by rw [hst]; simp)]
            rfl
        intro hm
        rcases List.mem_append.mp hm with hm | hm
        · have := c1.1 hm
          rw [hr] at this; cases this
        · exact ih o' hr hm

theorem tu_pushFromCache (o : Obj) : Tu o (pushFromCache o).1 (pushFromCache o).2 := by
  unfold pushFromCache
  split
  · exact Tu.refl o
  · have := tu_replayCache o.cache o
    exact ⟨this.toi, this.fdt, this.ws, this.un⟩

theorem cs_pushFromCache (o : Obj) (hs : o.st = .receiving) :
    WEv.complete ∈ (pushFromCache o).2 → (pushFromCache o).1.st = .completed := by
  unfold pushFromCache
  split
  · intro hm; simp at hm
  · exact cs_replayCache o.cache o hs


/-! ### `push` -/

theorem tu_pushTail (o : Obj) (p : Pkt) : Tu o (pushTail o p).1 (pushTail o p).2 := by
  unfold pushTail
  by_cases hs : o.st ≠ .receiving
  · rw [if_pos hs]; exact Tu.refl o
  · rw [if_neg hs]
    by_cases ho : o.oti.isNone = true
    · rw [if_pos ho]
      by_cases hc : o.cacheSize ≥ o.maxCache
      · rw [if_pos hc]; exact (tr_error o false).tu
      · rw [if_neg hc]; exact ⟨rfl, rfl, id, fun _ h => ⟨h, rfl⟩⟩
    · rw [if_neg ho]
      have hp := tu_pushToBlock o p
      cases hpb : pushToBlock o p with
      | error o' =>
        simp only []
        obtain ⟨a1, a2, a3⟩ := hp.2 o' hpb
        exact Tu.of_ids (o := o) a1 a2 a3 (tr_error o' false).tu
      | ok r => exact hp.1 r hpb

theorem cs_pushTail (o : Obj) (p : Pkt) (hs : o.st = .receiving) :
    WEv.complete ∈ (pushTail o p).2 → (pushTail o p).1.st = .completed := by
  unfold pushTail
  rw [if_neg (by rw [hs]; simp)]
  by_cases ho : o.oti.isNone = true
  · rw [if_pos ho]
    by_cases hc : o.cacheSize ≥ o.maxCache
    · rw [if_pos hc]; intro hm; exact absurd hm (error_not_receiving o false).2
    · rw [if_neg hc]; intro hm; simp at hm
  · rw [if_neg ho]
    cases hpb : pushToBlock o p with
    | error o' =>
      simp only []
      intro hm; exact absurd hm (error_not_receiving o' false).2
    | ok r => exact (cs_pushToBlock o p hs r hpb).1

theorem setOti_ids (o : Obj) (p : Pkt) :
    (setOti o p).toi = o.toi ∧ (setOti o p).fdtId = o.fdtId ∧ (setOti o p).wsess = o.wsess ∧
    (setOti o p).st = o.st := by
  unfold setOti
  split <;> exact ⟨rfl, rfl, rfl, rfl⟩

theorem setFdtId_ids (o : Obj) (p : Pkt) :
    (setFdtId o p).toi = o.toi ∧ (setFdtId o p).wsess = o.wsess ∧ (setFdtId o p).st = o.st ∧
    (p.toi ≠ 0 → (setFdtId o p).fdtId = o.fdtId) := by
  unfold setFdtId
  split
  · rename_i h; exact ⟨rfl, rfl, rfl, fun hp => absurd h.2 hp⟩
  · exact ⟨rfl, rfl, rfl, fun _ => rfl⟩

/-- **`CompleteSound` for `Mini`**: when `push` makes the writer's `complete` call the object is
    `Completed` when `push` returns -/
theorem completeSound : iface.CompleteSound := by
  intro o p hm
  show (push o p).1.st = .completed
  have hm' : WEv.complete ∈ (push o p).2 := hm
  unfold push at hm' ⊢
  by_cases hs : o.st ≠ .receiving
  · rw [if_pos hs] at hm'; simp at hm'
  · rw [if_neg hs] at hm' ⊢
    have hs' : o.st = .receiving := by
      cases h : o.st <;> simp_all
    simp only [] at hm' ⊢
    -- the object handed to init_object_writer is still Receiving
    have h3 : (initBlocksPartitioning (setOti (setFdtId o p) p)).st = .receiving := by
      rw [(same_initBlocks _).2.2.2.1, (setOti_ids _ p).2.2.2, (setFdtId_ids o p).2.2.1]; exact hs'
    have ha := tr_initObjectWriter (initBlocksPartitioning (setOti (setFdtId o p) p))
    have h4 : (initObjectWriter (initBlocksPartitioning (setOti (setFdtId o p) p))).1.st = .receiving := by
      rw [ha.2.1]; exact h3
    have hb := cs_pushFromCache _ h4
    rcases List.mem_append.mp hm' with hm1 | hm1
    · rcases List.mem_append.mp hm1 with hm2 | hm2
      · exact absurd hm2 ha.2.2.1
      · -- completed while the cache was replayed: `push` returns right away
        have hc := hb hm2
        unfold pushTail
        rw [if_pos (by rw [hc]; simp)]
        exact hc
    · -- completed by the packet itself: the object was still Receiving after the cache replay
      by_cases h5 : (pushFromCache (initObjectWriter (initBlocksPartitioning (setOti (setFdtId o p) p))).1).1.st = .receiving
      · exact cs_pushTail _ p h5 hm1
      · exfalso
        unfold pushTail at hm1
        rw [if_pos h5] at hm1
        simp at hm1


theorem tu_push (o : Obj) (p : Pkt) (hp : p.toi ≠ 0) : Tu o (push o p).1 (push o p).2 := by
  unfold push
  by_cases hs : o.st ≠ .receiving
  · rw [if_pos hs]; exact Tu.refl o
  · rw [if_neg hs]
    simp only []
    have h1 := setFdtId_ids o p
    have h2 := setOti_ids (setFdtId o p) p
    have h3 := same_initBlocks (setOti (setFdtId o p) p)
    have ta := (tr_initObjectWriter (initBlocksPartitioning (setOti (setFdtId o p) p))).1.tu
    have ta' : Tu o (initObjectWriter (initBlocksPartitioning (setOti (setFdtId o p) p))).1
        (initObjectWriter (initBlocksPartitioning (setOti (setFdtId o p) p))).2 :=
      Tu.of_ids (by rw [h3.1, h2.1, h1.1]) (by rw [h3.2.1, h2.2.1, h1.2.2.2 hp]) (by rw [h3.2.2.1, h2.2.2.1, h1.2.1]) ta
    exact Tu.trans (Tu.trans ta' (tu_pushFromCache _)) (tu_pushTail _ p)

theorem push_toi' (o : Obj) (p : Pkt) : (push o p).1.toi = o.toi := by
  unfold push
  by_cases hs : o.st ≠ .receiving
  · rw [if_pos hs]
  · rw [if_neg hs]
    simp only []
    rw [(tu_pushTail _ p).toi, (tu_pushFromCache _).toi,
      (tr_initObjectWriter _).1.toi, (same_initBlocks _).1, (setOti_ids _ p).1, (setFdtId_ids o p).1]

/-- ghost "attached" of the `Mini` object -/
def attached (o : Obj) : Bool := o.fdtId.isSome || decide (o.wsess ≠ .none)

theorem attached_false (o : Obj) : attached o = false ↔ o.fdtId = none ∧ o.wsess = .none := by
  unfold attached
  cases o.fdtId <;> cases o.wsess <;> simp

theorem same_fdtConflictReset (o : Obj) (file : FileAbs) : Same o (fdtConflictReset o file) := by
  unfold fdtConflictReset Same
  split
  · exact ⟨rfl, rfl, rfl, rfl, rfl⟩
  · split
    · simp only []
      split <;> (split <;> exact ⟨rfl, rfl, rfl, rfl, rfl⟩)
    · exact ⟨rfl, rfl, rfl, rfl, rfl⟩

theorem attachFdt_toi (o : Obj) (id : Nat) (fdt : FdtAbs) : (attachFdt o id fdt).1.toi = o.toi := by
  unfold attachFdt
  by_cases h : o.fdtId.isSome = true
  · rw [if_pos h]
  · rw [if_neg h]
    cases fdt.getFile o.toi with
    | none => rfl
    | some file =>
      simp only []
      rw [(tu_pushFromCache _).toi, (tr_writeBlocks _ _ _).toi, (tu_pushFromCache _).toi,
        (tr_initObjectWriter _).1.toi, (same_initBlocks _).1]
      simp only []
      split <;> (split <;> (try split) <;> exact (same_fdtConflictReset o file).1)

/-- **`ObjIface.Law` for `Mini`**: writer calls only after a successful attach; attach only to an
    instance that lists the object's TOI -/
def law : iface.Law :=
  { attached := attached
    toi := fun o => o.toi
    new_attached := fun _ _ => rfl
    new_toi := fun _ _ => rfl
    push_toi := fun o p => push_toi' o p
    push_attached := fun o p hp => by
      show attached (push o p).1 = attached o
      have t := tu_push o p hp
      cases ha : attached o with
      | false =>
        obtain ⟨h1, h2⟩ := (attached_false o).mp ha
        exact (attached_false _).mpr ⟨by rw [t.fdt]; exact h1, (t.un h1 h2).1⟩
      | true =>
        unfold attached at ha ⊢
        rw [t.fdt]
        cases hf : o.fdtId with
        | some i => simp
        | none =>
          rw [hf] at ha
          simp only [Option.isSome_none, Bool.false_or, decide_eq_true_eq] at ha ⊢
          exact t.ws ha
    push_silent := fun o p hp ha => by
      obtain ⟨h1, h2⟩ := (attached_false o).mp ha
      exact ((tu_push o p hp).un h1 h2).2
    attach_toi := fun o id fdt => attachFdt_toi o id fdt
    attach_fail := fun o id fdt hf ha => by
      show attached (attachFdt o id fdt).1 = false ∧ (attachFdt o id fdt).2.2 = []
      have hf' : (attachFdt o id fdt).2.1 = false := hf
      unfold attachFdt at hf' ⊢
      by_cases h : o.fdtId.isSome = true
      · rw [if_pos h]; exact ⟨ha, rfl⟩
      · rw [if_neg h] at hf' ⊢
        cases hg : fdt.getFile o.toi with
        | none => exact ⟨ha, rfl⟩
        | some file => rw [hg] at hf'; simp at hf'
    attach_lists := fun o id fdt hs => by
      show (fdt.getFile o.toi).isSome = true
      have hs' : (attachFdt o id fdt).2.1 = true := hs
      unfold attachFdt at hs'
      by_cases h : o.fdtId.isSome = true
      · rw [if_pos h] at hs'; simp at hs'
      · rw [if_neg h] at hs'
        cases hg : fdt.getFile o.toi with
        | none => rw [hg] at hs'; simp at hs'
        | some file => rfl
    drop_silent := fun o ha => by
      show drop o = []
      obtain ⟨_, h2⟩ := (attached_false o).mp ha
      unfold drop
      rw [h2]; simp }

end Flute.Recv.Mini
