import FluteModel.Ring
import FluteModel.Spec.Fifo
/-
  Helper lemmas for the ring buffer: one-step refinement of the bounded FIFO.
-/
namespace Flute.Lemmas.Ring
open Flute Flute.Ring Flute.Spec

/-- abstraction function -/
def abs (r : Ring) : Fifo := ⟨content r, r.buffer.length - 1, r.finish⟩

def toSpec : ReadRes → FifoRead
  | .ok b => .ok b
  | .wouldBlock => .wouldBlock

theorem content_length (r : Ring) (h : Inv r) :
    (content r).length = if r.consumer ≤ r.producer then r.producer - r.consumer
      else r.buffer.length - r.consumer + r.producer := by
  unfold content
  obtain ⟨_, h | ⟨hp, hc⟩⟩ := h
  · obtain ⟨h0, hp, hc⟩ := h
    simp [hp, hc]
  · split
    · simp [List.length_take, List.length_drop]; omega
    · simp [List.length_take, List.length_drop]; omega

theorem read_refines (r : Ring) (n : Nat) (h : Inv r) :
    ∃ r' res, read r n = .ok (r', res) ∧ Inv r' ∧ r'.buffer = r.buffer ∧ r'.producer = r.producer ∧
      r'.finish = r.finish ∧ (abs r).read n = (abs r', toSpec res) := by
  have hlen := content_length r h
  obtain ⟨hN, hcases⟩ := h
  rcases hcases with ⟨h0, hp, hc⟩ | ⟨hp, hc⟩
  · -- zero-sized ring
    refine ⟨r, if r.finish then .ok [] else .wouldBlock, ?_, ⟨hN, Or.inl ⟨h0, hp, hc⟩⟩, rfl, rfl, rfl, ?_⟩
    · simp [Flute.Ring.read, readSize, usub, hp, hc]
    · have : content r = [] := by
        have := List.eq_nil_of_length_eq_zero h0
        simp [content, this]
      simp only [abs, Fifo.read, this]
      by_cases hf : r.finish = true <;> simp [hf, toSpec]
  · by_cases hcp : r.consumer ≤ r.producer
    · -- the content is contiguous
      have hrs : readSize r = .ok (r.producer - r.consumer) := by simp [readSize, hcp, usub]
      have hq : content r = (r.buffer.drop r.consumer).take (r.producer - r.consumer) := by simp [content, hcp]
      simp only [hcp, if_true] at hlen
      generalize hm : (if r.producer - r.consumer > n then n else r.producer - r.consumer) = m
      have hmle : m ≤ n ∧ m ≤ r.producer - r.consumer := by
        rw [← hm]; split <;> omega
      have hmin : min n (content r).length = m := by
        rw [hlen, ← hm]; split <;> omega
      by_cases hm0 : m = 0
      · refine ⟨r, if r.finish then .ok [] else .wouldBlock, ?_, ⟨hN, Or.inr ⟨hp, hc⟩⟩, rfl, rfl, rfl, ?_⟩
        · simp [Flute.Ring.read, hrs, hm, hm0]
        · simp only [abs, Fifo.read, hmin, hm0, if_true]
          by_cases hf : r.finish = true <;> simp [hf, toSpec]
      · have hlt : r.consumer < r.producer := by omega
        refine ⟨{ r with consumer := r.consumer + m }, .ok ((r.buffer.drop r.consumer).take m), ?_,
          ⟨hN, Or.inr ⟨hp, by simp; omega⟩⟩, rfl, rfl, rfl, ?_⟩
        · have h1 : ¬ n < m := by omega
          have h2 : r.consumer ≤ r.consumer + m ∧ r.consumer + m ≤ r.buffer.length := by omega
          simp [Flute.Ring.read, hrs, hm, hm0, h1, hlt, slice, h2]
        · simp only [abs, Fifo.read, hmin, hm0, if_false, toSpec]
          have hc' : r.consumer + m ≤ r.producer := by omega
          simp only [content, hcp, hc', if_true]
          congr 1
          · congr 1
            rw [List.drop_take, List.drop_drop]
            congr 1 <;> omega
          · rw [List.take_take]; congr 1; congr 1; omega
    · -- the content wraps around the end of the buffer
      have hpc : r.producer < r.consumer := by omega
      have hes : usub r.buffer.length r.consumer = .ok (r.buffer.length - r.consumer) := by
        unfold usub; rw [if_pos (by omega)]
      have hrs : readSize r = .ok (r.buffer.length - r.consumer + r.producer) := by
        unfold readSize
        rw [if_neg hcp, hes]
        simp only [uadd]
        rw [if_pos (by omega)]
      simp only [hcp, if_false] at hlen
      have hq : content r = r.buffer.drop r.consumer ++ r.buffer.take r.producer := by simp [content, hcp]
      generalize hm : (if r.buffer.length - r.consumer + r.producer > n then n
          else r.buffer.length - r.consumer + r.producer) = m
      have hmle : m ≤ n ∧ m ≤ r.buffer.length - r.consumer + r.producer := by
        rw [← hm]; split <;> omega
      have hmin : min n (content r).length = m := by
        rw [hlen, ← hm]; split <;> omega
      have hnlt : ¬ r.consumer < r.producer := by omega
      by_cases hm0 : m = 0
      · refine ⟨r, if r.finish then .ok [] else .wouldBlock, ?_, ⟨hN, Or.inr ⟨hp, hc⟩⟩, rfl, rfl, rfl, ?_⟩
        · simp [Flute.Ring.read, hrs, hm, hm0]
        · simp only [abs, Fifo.read, hmin, hm0, if_true]
          by_cases hf : r.finish = true <;> simp [hf, toSpec]
      · have h1 : ¬ n < m := by omega
        by_cases hend : r.buffer.length - r.consumer ≥ m
        · -- no wrap during this read
          have h2 : r.consumer ≤ r.consumer + m ∧ r.consumer + m ≤ r.buffer.length := by omega
          refine ⟨{ r with consumer := if r.consumer + m = r.buffer.length then 0 else r.consumer + m },
            .ok ((r.buffer.drop r.consumer).take m), ?_, ⟨hN, Or.inr ⟨hp, ?_⟩⟩, rfl, rfl, rfl, ?_⟩
          · simp [Flute.Ring.read, hrs, hm, hm0, h1, hnlt, hes, hend, slice, h2]
          · simp only; split <;> omega
          · simp only [abs, Fifo.read, hmin, hm0, if_false, toSpec]
            have hmd : m ≤ (r.buffer.drop r.consumer).length := by simp [List.length_drop]; omega
            by_cases heq : r.consumer + m = r.buffer.length
            · have hm' : m = r.buffer.length - r.consumer := by omega
              simp only [heq, if_true, content, Nat.zero_le, Nat.sub_zero, List.drop_zero, hcp, if_false]
              congr 1
              · congr 1
                rw [hm', List.drop_append, List.length_drop, Nat.sub_self, List.drop_zero,
                  List.drop_of_length_le (by simp)]
                simp
              · rw [hm', List.take_append, List.length_drop, Nat.sub_self, List.take_zero,
                  List.take_of_length_le (by simp)]
                simp
            · have hc' : ¬ (r.consumer + m ≤ r.producer) := by omega
              simp only [heq, if_false, content, hc', hcp]
              congr 1
              · congr 1
                rw [List.drop_append_of_le_length hmd, List.drop_drop]
              · rw [List.take_append_of_le_length hmd]
        · -- the read wraps
          have hleft : m - (r.buffer.length - r.consumer) ≤ r.producer := by omega
          refine ⟨{ r with consumer := m - (r.buffer.length - r.consumer) },
            .ok (r.buffer.drop r.consumer ++ r.buffer.take (m - (r.buffer.length - r.consumer))), ?_,
            ⟨hN, Or.inr ⟨hp, by simp only; omega⟩⟩, rfl, rfl, rfl, ?_⟩
          · have h2 : r.consumer ≤ r.consumer + (r.buffer.length - r.consumer) ∧
                r.consumer + (r.buffer.length - r.consumer) ≤ r.buffer.length := by omega
            have h3 : usub m (r.buffer.length - r.consumer) = .ok (m - (r.buffer.length - r.consumer)) := by
              simp [usub]; omega
            have h4 : m - (r.buffer.length - r.consumer) ≤ r.buffer.length := by omega
            have h5 : ¬ (m - (r.buffer.length - r.consumer) = r.buffer.length) := by omega
            have h6 : r.consumer + (r.buffer.length - r.consumer) - r.consumer = r.buffer.length - r.consumer := by omega
            simp [Flute.Ring.read, hrs, hm, hm0, h1, hnlt, hes, hend, slice, h2, h3, h4, h5, hleft, h6,
              List.take_of_length_le]
          · simp only [abs, Fifo.read, hmin, hm0, if_false, toSpec]
            have hc' : m - (r.buffer.length - r.consumer) ≤ r.producer := hleft
            simp only [content, hc', if_true, hcp, if_false]
            have hdl : (r.buffer.drop r.consumer).length = r.buffer.length - r.consumer := by simp
            have hge : (r.buffer.drop r.consumer).length ≤ m := by rw [List.length_drop]; omega
            congr 1
            · congr 1
              rw [List.drop_append, hdl, List.drop_of_length_le hge, List.nil_append, List.drop_take]
            · rw [List.take_append, hdl, List.take_of_length_le hge, List.take_take]
              rw [Nat.min_eq_left hleft]


/-! ### writing a range of the buffer -/

theorem ins_length (L s : List Nat) (a m : Nat) (hs : s.length = m) (h : a + m ≤ L.length) :
    (L.take a ++ s ++ L.drop (a + m)).length = L.length := by
  simp [List.length_take, List.length_drop, hs]; omega

theorem ins_drop_ge (L s : List Nat) (a m k : Nat) (hs : s.length = m) (h : a + m ≤ L.length) (hk : a + m ≤ k) :
    (L.take a ++ s ++ L.drop (a + m)).drop k = L.drop k := by
  have h1 : (L.take a ++ s).length = a + m := by simp [List.length_take, hs]; omega
  rw [List.drop_append, h1, List.drop_of_length_le (by omega), List.nil_append, List.drop_drop]
  congr 1; omega

theorem ins_take (L s : List Nat) (a m : Nat) (hs : s.length = m) (h : a + m ≤ L.length) :
    (L.take a ++ s ++ L.drop (a + m)).take (a + m) = L.take a ++ s := by
  have h1 : (L.take a ++ s).length = a + m := by simp [List.length_take, hs]; omega
  rw [List.take_append, h1, Nat.sub_self, List.take_zero, List.append_nil, List.take_of_length_le (by omega)]

theorem ins_drop_le (L s : List Nat) (a m k : Nat) (h : a + m ≤ L.length) (hk : k ≤ a) :
    (L.take a ++ s ++ L.drop (a + m)).drop k = (L.take a).drop k ++ s ++ L.drop (a + m) := by
  have h1 : (L.take a).length = a := by simp [List.length_take]; omega
  rw [List.append_assoc, List.drop_append, h1, Nat.sub_eq_zero_of_le hk, List.drop_zero, List.append_assoc]


theorem abs_write_eq (r r' : Ring) (data : List Nat) (k : Nat) (h : Inv r)
    (hl : r'.buffer.length = r.buffer.length) (hf : r'.finish = r.finish)
    (hk : k = min data.length (r.buffer.length - 1 - (content r).length))
    (hc : content r' = content r ++ data.take k) :
    (abs r).write data = (abs r', k) := by
  simp only [abs, Fifo.write, ← hk, hc, hl, hf]

theorem write_refines (r : Ring) (data : List Nat) (h : Inv r) :
    ∃ r' k, write r data = .ok (r', k) ∧ Inv r' ∧ r'.buffer.length = r.buffer.length ∧
      r'.consumer = r.consumer ∧ r'.finish = r.finish ∧ (abs r).write data = (abs r', k) := by
  have hlen := content_length r h
  have hinv := h
  obtain ⟨hN, hcases⟩ := h
  rcases hcases with ⟨h0, hp, hc⟩ | ⟨hp, hc⟩
  · -- zero-sized ring: no room at all
    refine ⟨r, 0, ?_, hinv, rfl, rfl, rfl, ?_⟩
    · simp [write, writeSize, usub, uadd, hp, hc, h0]
    · apply abs_write_eq r r data 0 hinv rfl rfl
      · simp [h0]
      · simp
  · by_cases hpc : r.producer < r.consumer
    · -- free space is the gap producer .. consumer-1
      simp only [show ¬ r.consumer ≤ r.producer by omega, if_false] at hlen
      have hws : writeSize r = .ok (r.consumer - r.producer - 1) := by
        unfold writeSize
        rw [if_pos hpc]
        simp only [usub]
        rw [if_pos (by omega)]
        simp only []
        rw [if_pos (by omega)]
      by_cases hw0 : r.consumer - r.producer - 1 = 0
      · refine ⟨r, 0, ?_, hinv, rfl, rfl, rfl, ?_⟩
        · simp [write, hws, hw0]
        · apply abs_write_eq r r data 0 hinv rfl rfl
          · rw [hlen]; omega
          · simp
      · generalize hm : (if r.consumer - r.producer - 1 > data.length then data.length
            else r.consumer - r.producer - 1) = m
        have hmle : m ≤ data.length ∧ m ≤ r.consumer - r.producer - 1 := by rw [← hm]; split <;> omega
        have hmk : m = min data.length (r.buffer.length - 1 - (content r).length) := by
          rw [hlen, ← hm]; split <;> omega
        have hsl : (data.take m).length = m := by simp [List.length_take]; omega
        have hfit : r.producer + m ≤ r.buffer.length := by omega
        refine ⟨{ r with buffer := r.buffer.take r.producer ++ data.take m ++ r.buffer.drop (r.producer + m),
                         producer := r.producer + m }, m, ?_, ?_, ?_, rfl, rfl, ?_⟩
        · have h1 : r.consumer > r.producer := hpc
          have h2 : r.producer ≤ r.producer + m ∧ r.producer + m ≤ r.buffer.length := by omega
          have h3 : r.consumer > r.producer + m := by omega
          have h4 : ¬ (r.producer + m = r.buffer.length) := by omega
          have h5 : r.producer + m - r.producer = m := by omega
          simp [write, hws, hw0, hm, h1, copyInto, h2, h3, h4, h5, hsl]
        · refine ⟨?_, Or.inr ⟨?_, ?_⟩⟩
          · simp only; rw [ins_length _ _ _ _ hsl hfit]; exact hN
          · simp only; rw [ins_length _ _ _ _ hsl hfit]; omega
          · simp only; rw [ins_length _ _ _ _ hsl hfit]; exact hc
        · simp only; exact ins_length _ _ _ _ hsl hfit
        · refine abs_write_eq r _ data m hinv ?_ rfl hmk ?_
          · exact ins_length _ _ _ _ hsl hfit
          have hc1 : ¬ (r.consumer ≤ r.producer + m) := by omega
          have hc2 : ¬ (r.consumer ≤ r.producer) := by omega
          simp only [content, hc1, hc2, if_false]
          rw [ins_drop_ge _ _ _ _ _ hsl hfit (by omega), ins_take _ _ _ _ hsl hfit, List.append_assoc]
    · -- consumer ≤ producer: free space is producer..len plus 0..consumer-1
      have hcp : r.consumer ≤ r.producer := by omega
      simp only [hcp, if_true] at hlen
      have hq : content r = (r.buffer.drop r.consumer).take (r.producer - r.consumer) := by simp [content, hcp]
      have hes : usub r.buffer.length r.producer = .ok (r.buffer.length - r.producer) := by
        unfold usub; rw [if_pos (by omega)]
      have hws : writeSize r = .ok (r.buffer.length - r.producer + r.consumer - 1) := by
        unfold writeSize
        rw [if_neg hpc, hes]
        simp only [uadd]
        rw [if_pos (by omega)]
      have hnc : ¬ r.consumer > r.producer := by omega
      by_cases hw0 : r.buffer.length - r.producer + r.consumer - 1 = 0
      · refine ⟨r, 0, ?_, hinv, rfl, rfl, rfl, ?_⟩
        · simp [write, hws, hw0]
        · apply abs_write_eq r r data 0 hinv rfl rfl
          · rw [hlen]; omega
          · simp
      · generalize hm : (if r.buffer.length - r.producer + r.consumer - 1 > data.length then data.length
            else r.buffer.length - r.producer + r.consumer - 1) = m
        have hmle : m ≤ data.length ∧ m ≤ r.buffer.length - r.producer + r.consumer - 1 := by
          rw [← hm]; split <;> omega
        have hmk : m = min data.length (r.buffer.length - 1 - (content r).length) := by
          rw [hlen, ← hm]; split <;> omega
        have hdc : (r.buffer.take r.producer).drop r.consumer = content r := by
          rw [hq, List.drop_take]
        by_cases hend : r.buffer.length - r.producer ≥ m
        · -- the data fits before the end of the buffer
          have hsl : (data.take m).length = m := by simp [List.length_take]; omega
          have hfit : r.producer + m ≤ r.buffer.length := by omega
          refine ⟨{ r with buffer := r.buffer.take r.producer ++ data.take m ++ r.buffer.drop (r.producer + m),
                           producer := if r.producer + m = r.buffer.length then 0 else r.producer + m },
                  m, ?_, ?_, ?_, rfl, rfl, ?_⟩
          · have h2 : r.producer ≤ r.producer + m ∧ r.producer + m ≤ r.buffer.length := by omega
            have h5 : r.producer + m - r.producer = m := by omega
            simp [write, hws, hw0, hm, hnc, hes, hend, copyInto, h2, h5, hsl]
          · refine ⟨?_, Or.inr ⟨?_, ?_⟩⟩
            · simp only; rw [ins_length _ _ _ _ hsl hfit]; exact hN
            · simp only; rw [ins_length _ _ _ _ hsl hfit]; split <;> omega
            · simp only; rw [ins_length _ _ _ _ hsl hfit]; exact hc
          · simp only; exact ins_length _ _ _ _ hsl hfit
          · refine abs_write_eq r _ data m hinv ?_ rfl hmk ?_
            · exact ins_length _ _ _ _ hsl hfit
            by_cases heq : r.producer + m = r.buffer.length
            · have hc1 : ¬ (r.consumer ≤ 0) := by omega
              simp only [content, heq, if_true, hc1, if_false, List.take_zero, List.append_nil]
              rw [← heq, ins_drop_le _ _ _ _ _ hfit hcp, hdc, heq, List.drop_of_length_le (Nat.le_refl _),
                List.append_nil]
              simp only [content, hcp, if_true]
            · have hc1 : r.consumer ≤ r.producer + m := by omega
              simp only [content, heq, if_false, hc1, if_true]
              rw [ins_drop_le _ _ _ _ _ hfit hcp, hdc, List.append_assoc]
              have hl : (content r ++ data.take m).length = r.producer + m - r.consumer := by
                rw [List.length_append, hlen, hsl]; omega
              rw [← List.append_assoc, List.take_left' hl]
              simp only [content, hcp, if_true]
        · -- the write wraps around the end of the buffer
          have he : r.buffer.length - r.producer < m := by omega
          have hs1 : (data.take (r.buffer.length - r.producer)).length = r.buffer.length - r.producer := by
            simp [List.length_take]; omega
          have hfit1 : r.producer + (r.buffer.length - r.producer) ≤ r.buffer.length := by omega
          have hs2 : ((data.drop (r.buffer.length - r.producer)).take (m - (r.buffer.length - r.producer))).length
              = m - (r.buffer.length - r.producer) := by
            simp [List.length_take, List.length_drop]; omega
          generalize hb1 : r.buffer.take r.producer ++ data.take (r.buffer.length - r.producer) ++
              r.buffer.drop (r.producer + (r.buffer.length - r.producer)) = b1 at *
          have hb1l : b1.length = r.buffer.length := by rw [← hb1]; exact ins_length _ _ _ _ hs1 hfit1
          have hfit2 : 0 + (m - (r.buffer.length - r.producer)) ≤ b1.length := by omega
          obtain ⟨b2, hb2⟩ : ∃ b2 : List Nat, b2 = b1.take 0 ++
              (data.drop (r.buffer.length - r.producer)).take (m - (r.buffer.length - r.producer)) ++
              b1.drop (0 + (m - (r.buffer.length - r.producer))) := ⟨_, rfl⟩
          have hb2l : b2.length = r.buffer.length := by rw [hb2, ins_length _ _ _ _ hs2 hfit2, hb1l]
          refine ⟨{ r with buffer := b2, producer := m - (r.buffer.length - r.producer) },
            m, ?_, ?_, ?_, rfl, rfl, ?_⟩
          · have h2 : r.producer ≤ r.producer + (r.buffer.length - r.producer) ∧
                r.producer + (r.buffer.length - r.producer) ≤ r.buffer.length := by omega
            have h3 : usub m (r.buffer.length - r.producer) = .ok (m - (r.buffer.length - r.producer)) := by
              unfold usub; rw [if_pos (by omega)]
            have h4 : ¬ (data.length < r.buffer.length - r.producer + (m - (r.buffer.length - r.producer))) := by omega
            have h5 : r.producer + (r.buffer.length - r.producer) - r.producer = r.buffer.length - r.producer := by omega
            have h6 : m - (r.buffer.length - r.producer) ≤ b1.length := by omega
            have h7 : m - (r.buffer.length - r.producer) < r.consumer := by omega
            simp only [write, hws, hw0, if_false, hm, hnc, hes, hend, copyInto, h2, and_self, if_true, h5, hs1, hb1,
              h3, h4, Nat.zero_le, true_and, h6, Nat.sub_zero, hs2, h7, not_true_eq_false, Nat.zero_add]
            simp only [Nat.zero_add] at hb2
            rw [← hb2]
          · refine ⟨?_, Or.inr ⟨?_, ?_⟩⟩
            · simp only; rw [hb2l]; exact hN
            · simp only; rw [hb2l]; omega
            · simp only; rw [hb2l]; exact hc
          · simp only; exact hb2l
          · refine abs_write_eq r _ data m hinv ?_ rfl hmk ?_
            · simp only; exact hb2l
            have hc1 : ¬ (r.consumer ≤ m - (r.buffer.length - r.producer)) := by omega
            simp only [content, hc1, if_false, hb2]
            rw [ins_drop_ge _ _ _ _ _ hs2 hfit2 (by omega)]
            have := ins_take b1 _ 0 _ hs2 hfit2
            simp only [Nat.zero_add, List.take_zero, List.nil_append] at this ⊢
            rw [this, ← hb1, ins_drop_le _ _ _ _ _ hfit1 hcp, hdc,
              List.drop_of_length_le (by omega), List.append_nil, List.append_assoc, ← List.take_add]
            have : r.buffer.length - r.producer + (m - (r.buffer.length - r.producer)) = m := by omega
            rw [this]
            simp only [content, hcp, if_true]


/-! ### traces -/

def opSpec : Op → FifoOp
  | .write d => .write d
  | .read n => .read n
  | .finish => .finish

def obsSpec : Obs → FifoObs
  | .wrote k => .wrote k
  | .readOk b => .readOk b
  | .wouldBlock => .wouldBlock
  | .done => .done

theorem inv_new (size : Nat) (hs : size < 2^63) : Inv (new size) := by
  refine ⟨by simpa [new] using hs, ?_⟩
  by_cases h0 : size = 0
  · exact Or.inl ⟨by simp [new, h0], rfl, rfl⟩
  · exact Or.inr ⟨by simp [new]; omega, by simp [new]; omega⟩

theorem abs_new (size : Nat) : abs (new size) = Fifo.empty (size - 1) := by
  simp [abs, new, content, Fifo.empty]

theorem step_refines (r : Ring) (op : Op) (h : Inv r) :
    ∃ r' o, step r op = .ok (r', o) ∧ Inv r' ∧ r'.buffer.length = r.buffer.length ∧
      (abs r).step (opSpec op) = (abs r', obsSpec o) := by
  cases op with
  | write d =>
    obtain ⟨r', k, hw, hi, hl, _, _, ha⟩ := write_refines r d h
    refine ⟨r', .wrote k, by simp [step, hw], hi, hl, ?_⟩
    simp [Fifo.step, opSpec, obsSpec, ha]
  | read n =>
    obtain ⟨r', res, hr, hi, hb, _, _, ha⟩ := read_refines r n h
    cases res with
    | ok b => exact ⟨r', .readOk b, by simp [step, hr], hi, by rw [hb], by simp [Fifo.step, opSpec, obsSpec, ha, toSpec]⟩
    | wouldBlock =>
      exact ⟨r', .wouldBlock, by simp [step, hr], hi, by rw [hb], by simp [Fifo.step, opSpec, obsSpec, ha, toSpec]⟩
  | finish =>
    refine ⟨finishOp r, .done, rfl, ?_, rfl, ?_⟩
    · exact h
    · rfl

theorem run_refines : ∀ (ops : List Op) (r : Ring), Inv r →
    ∃ r' obs, run r ops = .ok (r', obs) ∧ Inv r' ∧ r'.buffer.length = r.buffer.length ∧
      (abs r).run (ops.map opSpec) = (abs r', obs.map obsSpec)
  | [], r, h => ⟨r, [], rfl, h, rfl, rfl⟩
  | op :: rest, r, h => by
    obtain ⟨r1, o, hs, hi, hl, ha⟩ := step_refines r op h
    obtain ⟨r2, os, hr, hi2, hl2, ha2⟩ := run_refines rest r1 hi
    refine ⟨r2, o :: os, by simp [run, hs, hr], hi2, by rw [hl2, hl], ?_⟩
    simp only [List.map_cons, Fifo.run, ha, ha2]

/-- FIFO order on the specification: what was delivered, followed by what is still queued, is what was queued
    at the start followed by what the writes accepted -/
theorem fifo_stream : ∀ (ops : List FifoOp) (f : Fifo),
    delivered (f.run ops).2 ++ (f.run ops).1.q = f.q ++ accepted ops (f.run ops).2
  | [], f => by simp [Fifo.run, delivered, accepted]
  | op :: rest, f => by
    have ih := fifo_stream rest (f.step op).1
    simp only [Fifo.run]
    cases op with
    | write d =>
      simp only [Fifo.step, accepted, delivered] at ih ⊢
      rw [ih]; simp [Fifo.write]
    | finish =>
      simp only [Fifo.step, accepted, delivered] at ih ⊢
      rw [ih]; simp [Fifo.finish]
    | read n =>
      simp only [Fifo.step] at ih ⊢
      unfold Fifo.read at ih ⊢
      by_cases hm : min n f.q.length = 0
      · simp only [hm, if_true] at ih ⊢
        by_cases hf : f.finished = true
        · simp only [hf, if_true, accepted, delivered] at ih ⊢
          rw [List.nil_append, ih]
        · simp only [hf, accepted, delivered] at ih ⊢
          exact ih
      · simp only [hm, if_false, accepted, delivered] at ih ⊢
        rw [List.append_assoc, ih, ← List.append_assoc, List.take_append_drop]

end Flute.Lemmas.Ring
