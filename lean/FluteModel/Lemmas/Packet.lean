import FluteModel.Lemmas.Codec
/- whole-packet composition: the `inc_hdr_len` chain of `new_alc_pkt` as a spec header with extensions -/
namespace Flute.Spec
open Flute Flute.Bytes Flute.Lct

/-- `w` is the octet string of one header extension of type `het`, `k` words long -/
structure ExtBytes (w : List Nat) (het k : Nat) : Prop where
  wf : Wf w
  len : w.length = 4 * k
  kpos : 1 ≤ k
  kle : k ≤ 255
  het0 : w[0]? = some het
  form : if het < 128 then w[1]? = some k else (het < 256 ∧ k = 1)

/-- the extension an octet string denotes -/
def extOfBytes (w : List Nat) : Ext :=
  if w[0]?.getD 0 < 128 then { het := w[0]?.getD 0, hel := w[1]?.getD 0, body := w.drop 2 }
  else { het := w[0]?.getD 0, hel := 0, body := w.drop 1 }

theorem extOfBytes_spec {w : List Nat} {het k : Nat} (h : ExtBytes w het k) :
    (extOfBytes w).Valid ∧ (extOfBytes w).encode = w ∧ (extOfBytes w).het = het ∧ (extOfBytes w).words = k := by
  obtain ⟨hwf, hlen, hk1, hk2, h0, hform⟩ := h
  match w, hlen, h0, hform, hwf with
  | a :: b :: r, hlen, h0, hform, hwf =>
    simp only [List.getElem?_cons_zero, Option.some.injEq] at h0
    subst h0
    have ha : a < 256 := hwf a (by simp)
    by_cases hlt : a < 128
    · rw [if_pos hlt] at hform
      simp only [List.getElem?_cons_succ, List.getElem?_cons_zero, Option.some.injEq] at hform
      subst hform
      have hv : (extOfBytes (a :: b :: r)).Valid := by
        unfold extOfBytes Ext.Valid
        simp only [List.getElem?_cons_zero, Option.getD_some, hlt, if_true, List.getElem?_cons_succ, List.drop_succ_cons,
          List.drop_zero]
        refine ⟨fun x hx => hwf x (by simp [hx]), hk1, hk2, ?_⟩
        simp only [List.length_cons] at hlen; omega
      refine ⟨hv, ?_, ?_, ?_⟩
      · rw [Ext.encode_eq _ hv]
        simp [extOfBytes, hlt]
      · simp [extOfBytes, hlt]
      · simp [extOfBytes, Ext.words, hlt]
    · rw [if_neg hlt] at hform
      obtain ⟨h256, hk⟩ := hform
      subst hk
      have hv : (extOfBytes (a :: b :: r)).Valid := by
        unfold extOfBytes Ext.Valid
        simp only [List.getElem?_cons_zero, Option.getD_some, hlt, if_false, List.drop_succ_cons, List.drop_zero]
        refine ⟨fun x hx => hwf x (by simp [hx]), h256, ?_⟩
        simp only [List.length_cons] at hlen ⊢; omega
      refine ⟨hv, ?_, ?_, ?_⟩
      · rw [Ext.encode_eq _ hv]
        simp [extOfBytes, hlt]
      · simp [extOfBytes, hlt]
      · simp [extOfBytes, Ext.words, hlt]
  | [], hlen, _, _, _ => simp at hlen; omega
  | [_], hlen, _, _, _ => simp at hlen; omega

theorem encodeExts_append (a b : List Ext) : encodeExts (a ++ b) = encodeExts a ++ encodeExts b := by
  induction a with
  | nil => rfl
  | cons e r ih => simp [encodeExts, ih]

theorem extsWords_append (a b : List Ext) : extsWords (a ++ b) = extsWords a + extsWords b := by
  induction a with
  | nil => simp [extsWords]
  | cons e r ih => simp [extsWords, ih]; omega

/-- `f` with one more extension at the end -/
def LctFields.addExt (f : LctFields) (e : Ext) : LctFields := { f with exts := f.exts ++ [e] }

theorem LctFields.addExt_valid (f : LctFields) (hv : f.Valid) (e : Ext) (he : e.Valid)
    (hl : f.hdrLen + e.words ≤ 255) : (f.addExt e).Valid ∧ (f.addExt e).hdrLen = f.hdrLen + e.words := by
  obtain ⟨h1, hc, hpsi, hs, ho, hh, ha, hb, hcp, hcci, htsi, htoi, hhl, hexts⟩ := hv
  have hlen : (f.addExt e).hdrLen = f.hdrLen + e.words := by
    simp only [LctFields.addExt, LctFields.hdrLen, extsWords_append, extsWords]; omega
  refine ⟨⟨h1, hc, hpsi, hs, ho, hh, ha, hb, hcp, hcci, htsi, htoi, by rw [hlen]; exact hl, ?_⟩, hlen⟩
  intro x hx
  simp only [LctFields.addExt, List.mem_append, List.mem_singleton] at hx
  rcases hx with hx | rfl
  · exact hexts x hx
  · exact he

/-- **one link of the `inc_hdr_len` chain**: `data.extend(ext); inc_hdr_len(data, k)` on a spec-laid-out header
    gives the spec layout of the header with that extension appended -/
theorem extendInc_encode (f : LctFields) (hv : f.Valid) (w : List Nat) (het k : Nat) (hw : ExtBytes w het k)
    (hl : f.hdrLen + k ≤ 255) :
    Flute.Alc.extendInc f.encode w k = .ok (f.addExt (extOfBytes w)).encode ∧ (f.addExt (extOfBytes w)).Valid := by
  obtain ⟨hev, hee, _, hewords⟩ := extOfBytes_spec hw
  obtain ⟨hv', hlen'⟩ := f.addExt_valid hv _ hev (by rw [hewords]; exact hl)
  refine ⟨?_, hv'⟩
  unfold Flute.Alc.extendInc LctFields.encode
  rw [LctFields.encode_diagram f hv, LctFields.encode_diagram _ hv', hlen', hewords]
  simp only [LctFields.addExt, encodeExts_append, encodeExts, List.append_nil, hee]
  unfold incHdrLen
  simp only [List.cons_append, List.getElem?_cons_succ, List.getElem?_cons_zero]
  rw [if_pos (by omega)]
  simp only [setAt, List.append_assoc]

end Flute.Spec

namespace Flute.Alc
open Flute Flute.Bytes Flute.Lct Flute.Fti Flute.Spec Flute.Ntp

/-- an optional extension -/
def optExt (c : Prop) [Decidable c] (w : List Nat) : List Ext := if c then [extOfBytes w] else []

/-- one optional link of the chain -/
theorem stepOpt (c : Prop) [Decidable c] (f : LctFields) (hv : f.Valid) (w : List Nat) (het k : Nat)
    (hw : c → ExtBytes w het k) (hl : f.hdrLen + k ≤ 255) :
    (if c then extendInc f.encode w k else .ok f.encode) =
      .ok ({ f with exts := f.exts ++ optExt c w } : LctFields).encode ∧
    ({ f with exts := f.exts ++ optExt c w } : LctFields).Valid ∧
    ({ f with exts := f.exts ++ optExt c w } : LctFields).hdrLen ≤ f.hdrLen + k := by
  by_cases hc : c
  · obtain ⟨h1, h2⟩ := extendInc_encode f hv w het k (hw hc) hl
    obtain ⟨_, _, _, hwords⟩ := extOfBytes_spec (hw hc)
    have := (f.addExt_valid hv _ (extOfBytes_spec (hw hc)).1 (by rw [hwords]; exact hl)).2
    simp only [optExt, if_pos hc]
    refine ⟨h1, h2, ?_⟩
    show (f.addExt (extOfBytes w)).hdrLen ≤ _
    rw [this, hwords]; exact Nat.le_refl _
  · have e : ({ f with exts := f.exts ++ optExt c w } : LctFields) = f := by
      simp only [optExt, if_neg hc, List.append_nil]
    rw [if_neg hc, e]; exact ⟨rfl, hv, by omega⟩

theorem beBytes_get0 (n X : Nat) : (beBytes (n + 1) X)[0]? = some (X / 256 ^ n % 256) := rfl
theorem beBytes_get1 (n X : Nat) : (beBytes (n + 2) X)[1]? = some (X / 256 ^ n % 256) := rfl

/-- the EXT_FDT octets `push_fdt` appends -/
def fdtBytes (version id : Nat) : List Nat := beBytes 4 ((192 <<< 24) ||| (version <<< 20) ||| (id % 2^20))
/-- the EXT_CENC octets `push_cenc` appends -/
def cencBytes (cenc : Nat) : List Nat := beBytes 4 (193 * 2^24 + cenc * 2^16)
/-- the EXT_TIME octets `push_sct` appends for NTP timestamp `ntp` -/
def sctBytes (ntp : Nat) : List Nat := beBytes 4 (2 * 2^24 + 3 * 2^16 + 2^15 + 2^14) ++ beBytes 8 ntp

theorem fdtBytes_ext (version id : Nat) (hv : version < 16) : ExtBytes (fdtBytes version id) 192 1 := by
  have hid : id % 2^20 < 2^20 := Nat.mod_lt _ (by decide)
  unfold fdtBytes
  rw [fdt_word version _ hv hid]
  generalize id % 2^20 = id at hid
  refine ⟨wf_beBytes _ _, by rw [length_beBytes], by omega, by omega, ?_, ?_⟩
  · rw [beBytes_get0]; simp only [Nat.reducePow] at hid ⊢; congr 1; omega
  · rw [if_neg (by omega)]; omega

theorem cencBytes_ext (cenc : Nat) (h : cenc < 256) : ExtBytes (cencBytes cenc) 193 1 := by
  unfold cencBytes
  refine ⟨wf_beBytes _ _, by rw [length_beBytes], by omega, by omega, ?_, ?_⟩
  · rw [beBytes_get0]; simp only [Nat.reducePow]; congr 1; omega
  · rw [if_neg (by omega)]; omega

theorem sctBytes_ext (ntp : Nat) : ExtBytes (sctBytes ntp) 2 3 := by
  unfold sctBytes
  refine ⟨wf_append (wf_beBytes _ _) (wf_beBytes _ _), by simp only [List.length_append, length_beBytes], by omega,
    by omega, ?_, ?_⟩
  · simp only [beBytes, List.cons_append, List.getElem?_cons_zero, Nat.reducePow]
  · rw [if_pos (by omega)]
    simp only [beBytes, List.cons_append, List.getElem?_cons_succ, List.getElem?_cons_zero, Nat.reducePow]

end Flute.Alc

namespace Flute.Alc
open Flute Flute.Bytes Flute.Lct Flute.Fti Flute.Spec Flute.Ntp

/-- flute's EXT_FTI for `(oti, tl)`: the octets `w` (`n` words) `add_fti` appends form a well-formed extension of
    type 64, and `get_fti` reads them back as `(o', tl)` -/
structure FtiOk (oti : Oti) (tl : Nat) (w : List Nat) (n : Nat) (o' : Oti) : Prop where
  build : addFti oti tl = .ok (w, n)
  ext : ExtBytes w 64 n
  nle : n ≤ 4
  parse : getFtiBytes oti.fecId w = .ok (o', tl)

/-- the RFC header of the packet `new_alc_pkt` builds: the LCT values at the widths flute chooses, and the
    extensions in the order FDT, CENC, TIME, FTI (each present under flute's condition) -/
def pktHeader (oti : Oti) (cci tsi : Nat) (pkt : Pkt) (rfc3926 : Bool) (ntp id : Nat) (wfti : List Nat) : LctFields :=
  { specOfBuild 0 cci tsi pkt.toi oti.fecId pkt.closeObject false with
    exts := [] ++ optExt (pkt.toi = 0) (fdtBytes (if rfc3926 then 1 else 2) id)
      ++ optExt ((pkt.toi = 0 ∧ pkt.cenc ≠ 0) ∨ pkt.inbandCenc = true) (cencBytes pkt.cenc)
      ++ optExt (pkt.senderCurrentTime = true) (sctBytes ntp)
      ++ optExt (pkt.toi = 0 ∨ oti.inbandFti = true) wfti }

theorem specOfBuild_hdrLen_le (psi cci tsi toi cp : Nat) (co cs : Bool) (hcci : cci < 2^128) (htsi : tsi < 2^48)
    (htoi : toi < 2^112) : (specOfBuild psi cci tsi toi cp co cs).hdrLen ≤ 10 := by
  obtain ⟨hc, _⟩ := cOf_spec cci hcci
  obtain ⟨hs, ho, hh, _, _⟩ := soh_spec tsi toi htsi htoi
  simp only [specOfBuild, widthFlags_eq, LctFields.hdrLen, extsWords]
  omega

/-- **the packet `new_alc_pkt` builds, as bytes**: the RFC layout of `pktHeader`, then the payload id, then
    the payload - i.e. the whole `inc_hdr_len` chain -/
theorem newAlcPkt_layout (oti : Oti) (cci tsi : Nat) (pkt : Pkt) (rfc3926 : Bool) (nowUs ntp id : Nat)
    (wfti : List Nat) (nfti : Nat) (o' : Oti) (wpid : List Nat)
    (hcp : oti.fecId < 256) (hcci : cci < 2^128) (htsi : tsi < 2^48) (htoi : pkt.toi < 2^112)
    (hfdt : pkt.toi = 0 → pkt.fdtId = some id)
    (hcenc : pkt.cenc < 256)
    (hntp : pkt.senderCurrentTime = true → systemTimeToNtp nowUs = .ok ntp)
    (hfti : (pkt.toi = 0 ∨ oti.inbandFti = true) → FtiOk oti pkt.transferLength wfti nfti o') (hn : nfti ≤ 4)
    (hpid : addPayloadId oti pkt.sbn pkt.esi pkt.sourceBlockLength = .ok wpid) :
    (pktHeader oti cci tsi pkt rfc3926 ntp id wfti).Valid ∧
    newAlcPkt oti cci tsi pkt rfc3926 nowUs =
      .ok ((pktHeader oti cci tsi pkt rfc3926 ntp id wfti).encode ++ (wpid ++ pkt.payload)) := by
  obtain ⟨hv0, hb0⟩ := pushLctHeader_eq_spec 0 cci tsi pkt.toi oti.fecId pkt.closeObject false (by omega) hcp hcci htsi htoi
  have hl0 := specOfBuild_hdrLen_le 0 cci tsi pkt.toi oti.fecId pkt.closeObject false hcci htsi htoi
  generalize hf0 : specOfBuild 0 cci tsi pkt.toi oti.fecId pkt.closeObject false = f0 at hv0 hb0 hl0
  have hex0 : f0.exts = [] := by rw [← hf0]; rfl
  -- step 1: EXT_FDT
  obtain ⟨s1, v1, l1⟩ := stepOpt (pkt.toi = 0) f0 hv0 (fdtBytes (if rfc3926 then 1 else 2) id) 192 1
    (fun _ => fdtBytes_ext _ _ (by split <;> omega)) (by omega)
  generalize hf1 : ({ f0 with exts := f0.exts ++ optExt (pkt.toi = 0) (fdtBytes (if rfc3926 then 1 else 2) id) } : LctFields) = f1 at s1 v1 l1
  -- step 2: EXT_CENC
  obtain ⟨s2, v2, l2⟩ := stepOpt ((pkt.toi = 0 ∧ pkt.cenc ≠ 0) ∨ pkt.inbandCenc = true) f1 v1 (cencBytes pkt.cenc) 193 1
    (fun _ => cencBytes_ext _ hcenc) (by omega)
  generalize hf2 : ({ f1 with exts := f1.exts ++ optExt ((pkt.toi = 0 ∧ pkt.cenc ≠ 0) ∨ pkt.inbandCenc = true) (cencBytes pkt.cenc) } : LctFields) = f2 at s2 v2 l2
  -- step 3: EXT_TIME
  obtain ⟨s3, v3, l3⟩ := stepOpt (pkt.senderCurrentTime = true) f2 v2 (sctBytes ntp) 2 3
    (fun _ => sctBytes_ext _) (by omega)
  generalize hf3 : ({ f2 with exts := f2.exts ++ optExt (pkt.senderCurrentTime = true) (sctBytes ntp) } : LctFields) = f3 at s3 v3 l3
  -- step 4: EXT_FTI
  obtain ⟨s4, v4, l4⟩ := stepOpt (pkt.toi = 0 ∨ oti.inbandFti = true) f3 v3 wfti 64 nfti
    (fun h => (hfti h).ext) (by omega)
  generalize hf4 : ({ f3 with exts := f3.exts ++ optExt (pkt.toi = 0 ∨ oti.inbandFti = true) wfti } : LctFields) = f4 at s4 v4 l4
  have hph : pktHeader oti cci tsi pkt rfc3926 ntp id wfti = f4 := by
    unfold pktHeader
    rw [hf0, ← hf4, ← hf3, ← hf2, ← hf1, hex0]
  rw [hph]
  refine ⟨v4, ?_⟩
  -- the four steps of the model are the four optional links
  have e1 : stepFdt f0.encode pkt rfc3926 = .ok f1.encode := by
    rw [← s1]; unfold stepFdt
    by_cases h : pkt.toi = 0
    · rw [if_pos h, if_pos h, hfdt h]; rfl
    · rw [if_neg h, if_neg h]
  have e2 : stepCenc f1.encode pkt = .ok f2.encode := by
    rw [← s2]; rfl
  have e3 : stepSct f2.encode pkt nowUs = .ok f3.encode := by
    rw [← s3]; unfold stepSct
    by_cases h : pkt.senderCurrentTime = true
    · rw [if_pos h, if_pos h]; unfold pushSct; rw [hntp h, rsBind_ok]; rfl
    · rw [if_neg h, if_neg h]
  have e4 : stepFti f3.encode oti pkt = .ok f4.encode := by
    rw [← s4]; unfold stepFti
    by_cases h : pkt.toi = 0 ∨ oti.inbandFti = true
    · rw [if_pos h, if_pos h, (hfti h).build]
    · rw [if_neg h, if_neg h]
  unfold newAlcPkt
  simp only []
  rw [hb0, e1, rsBind_ok, e2, rsBind_ok, e3, rsBind_ok, e4, rsBind_ok, hpid, rsBind_ok, List.append_assoc]

end Flute.Alc

namespace Flute.Alc
open Flute Flute.Bytes Flute.Lct Flute.Fti Flute.Spec Flute.Ntp

theorem findExt_append (a b : List Ext) (t : Nat) : findExt (a ++ b) t = (findExt a t).or (findExt b t) := by
  unfold findExt; rw [List.find?_append]

theorem findExt_optExt_ne (c : Prop) [Decidable c] (w : List Nat) (t het k : Nat) (hw : c → ExtBytes w het k)
    (hne : het ≠ t) : findExt (optExt c w) t = none := by
  unfold optExt findExt
  by_cases hc : c
  · have := (extOfBytes_spec (hw hc)).2.2.1
    simp [hc, this, hne]
  · simp [hc]

theorem findExt_optExt_eq (c : Prop) [Decidable c] (w : List Nat) (het k : Nat) (hw : c → ExtBytes w het k) :
    (findExt (optExt c w) het).map Ext.encode = if c then some w else none := by
  unfold optExt findExt
  by_cases hc : c
  · obtain ⟨_, he, hh, _⟩ := extOfBytes_spec (hw hc)
    simp [hc, hh, he]
  · simp [hc]

/-- what a receiver finds in the extension area of `pktHeader`, per extension type -/
theorem findExt_pkt (c1 c2 c3 c4 : Prop) [Decidable c1] [Decidable c2] [Decidable c3] [Decidable c4]
    (w1 w2 w3 w4 : List Nat) (k1 k2 k3 k4 : Nat)
    (h1 : c1 → ExtBytes w1 192 k1) (h2 : c2 → ExtBytes w2 193 k2) (h3 : c3 → ExtBytes w3 2 k3)
    (h4 : c4 → ExtBytes w4 64 k4) :
    let E := [] ++ optExt c1 w1 ++ optExt c2 w2 ++ optExt c3 w3 ++ optExt c4 w4
    (findExt E 192).map Ext.encode = (if c1 then some w1 else none) ∧
    (findExt E 193).map Ext.encode = (if c2 then some w2 else none) ∧
    (findExt E 2).map Ext.encode = (if c3 then some w3 else none) ∧
    (findExt E 64).map Ext.encode = (if c4 then some w4 else none) := by
  intro E
  have n12 := findExt_optExt_ne c1 w1 193 192 k1 h1 (by decide)
  have n13 := findExt_optExt_ne c1 w1 2 192 k1 h1 (by decide)
  have n14 := findExt_optExt_ne c1 w1 64 192 k1 h1 (by decide)
  have n21 := findExt_optExt_ne c2 w2 192 193 k2 h2 (by decide)
  have n23 := findExt_optExt_ne c2 w2 2 193 k2 h2 (by decide)
  have n24 := findExt_optExt_ne c2 w2 64 193 k2 h2 (by decide)
  have n31 := findExt_optExt_ne c3 w3 192 2 k3 h3 (by decide)
  have n32 := findExt_optExt_ne c3 w3 193 2 k3 h3 (by decide)
  have n34 := findExt_optExt_ne c3 w3 64 2 k3 h3 (by decide)
  have n41 := findExt_optExt_ne c4 w4 192 64 k4 h4 (by decide)
  have n42 := findExt_optExt_ne c4 w4 193 64 k4 h4 (by decide)
  have n43 := findExt_optExt_ne c4 w4 2 64 k4 h4 (by decide)
  have e1 := findExt_optExt_eq c1 w1 192 k1 h1
  have e2 := findExt_optExt_eq c2 w2 193 k2 h2
  have e3 := findExt_optExt_eq c3 w3 2 k3 h3
  have e4 := findExt_optExt_eq c4 w4 64 k4 h4
  have hnil : ∀ t, findExt [] t = none := fun _ => rfl
  refine ⟨?_, ?_, ?_, ?_⟩
  · show (findExt ([] ++ optExt c1 w1 ++ optExt c2 w2 ++ optExt c3 w3 ++ optExt c4 w4) 192).map _ = _
    rw [findExt_append, findExt_append, findExt_append, findExt_append, hnil, n21, n31, n41]
    simpa using e1
  · show (findExt ([] ++ optExt c1 w1 ++ optExt c2 w2 ++ optExt c3 w3 ++ optExt c4 w4) 193).map _ = _
    rw [findExt_append, findExt_append, findExt_append, findExt_append, hnil, n12, n32, n42]
    simpa using e2
  · show (findExt ([] ++ optExt c1 w1 ++ optExt c2 w2 ++ optExt c3 w3 ++ optExt c4 w4) 2).map _ = _
    rw [findExt_append, findExt_append, findExt_append, findExt_append, hnil, n13, n23, n43]
    simpa using e3
  · show (findExt ([] ++ optExt c1 w1 ++ optExt c2 w2 ++ optExt c3 w3 ++ optExt c4 w4) 64).map _ = _
    rw [findExt_append, findExt_append, findExt_append, findExt_append, hnil, n14, n24, n34]
    simpa using e4

end Flute.Alc

namespace Flute.Alc
open Flute Flute.Bytes Flute.Lct Flute.Fti Flute.Spec Flute.Ntp

theorem parseExtFdt_fdtBytes (version id : Nat) (hv : version < 16) :
    parseExtFdt (fdtBytes version id) = .ok (some (version, id % 2^20)) := by
  have hid : id % 2^20 < 2^20 := Nat.mod_lt _ (by decide)
  unfold fdtBytes parseExtFdt
  rewrite [fdt_word version _ hv hid, length_beBytes, if_neg (by omega), beVal_beBytes]
  generalize id % 2^20 = id at hid
  simp only [Nat.reducePow] at hid ⊢
  simp only [Out.ok.injEq, Option.some.injEq, Prod.mk.injEq]
  constructor <;> omega

theorem parseCenc_cencBytes (cenc : Nat) (h : cenc ≤ 3) : parseCenc (cencBytes cenc) = .ok cenc := by
  unfold cencBytes parseCenc
  rewrite [length_beBytes, if_neg (by omega), idx_beBytes _ _ _ (by omega), Out.bind_ok]
  simp only [Nat.reduceSub, Nat.reducePow]
  have : (193 * 16777216 + cenc * 65536) / 65536 % 256 = cenc := by omega
  rewrite [this, if_pos h]
  rfl

theorem sctBytes_eq (ntp : Nat) (h : ntp < 2^64) :
    sctBytes ntp = beBytes 12 ((2 * 2^24 + 3 * 2^16 + 2^15 + 2^14) * 2^64 + ntp) := by
  unfold sctBytes
  rewrite [beBytes_add 4 8]
  simp only [Nat.reducePow] at h ⊢
  apply append_congr
  · apply beBytes_congr; simp only [Nat.reducePow]; omega
  · apply beBytes_congr; simp only [Nat.reducePow]; omega

theorem parseSct_sctBytes (ntp : Nat) (h : ntp < 2^64) :
    parseSct (sctBytes ntp) = (ntpToSystemTime ntp).bind fun t => .ok (some t) := by
  rewrite [sctBytes_eq ntp h]
  simp only [Nat.reducePow] at h
  have := parseSct_core ((2 * 2^24 + 3 * 2^16 + 2^15 + 2^14) * 2^64 + ntp) (ntp / 2^32) (ntp % 2^32)
    (by simp only [Nat.reducePow]; omega) (by simp only [Nat.reducePow]; omega) (by simp only [Nat.reducePow]; omega)
  rewrite [this]
  simp only [Nat.reducePow]
  rewrite [Nat.div_add_mod' ntp 4294967296]
  rfl

/-- the packet `parse_alc_pkt` must return for the datagram built from `pktHeader` -/
def expectedPkt (oti : Oti) (cci tsi : Nat) (pkt : Pkt) (rfc3926 : Bool) (ntp id : Nat) (wfti : List Nat) (o' : Oti) :
    AlcPkt :=
  let f := pktHeader oti cci tsi pkt rfc3926 ntp id wfti
  { lct := { len := 4 * f.hdrLen, cci := cci, tsi := tsi, toi := pkt.toi, cp := oti.fecId,
             closeObject := pkt.closeObject, closeSession := false,
             headerExtOffset := 4 * (1 + (f.c + 1) + (f.s + f.o + f.h)) },
    oti := if pkt.toi = 0 ∨ oti.inbandFti = true then some o' else none,
    transferLength := if pkt.toi = 0 ∨ oti.inbandFti = true then some pkt.transferLength else none,
    cenc := if (pkt.toi = 0 ∧ pkt.cenc ≠ 0) ∨ pkt.inbandCenc = true then some pkt.cenc else none,
    fdtInfo := if pkt.toi = 0 then some (if rfc3926 then 1 else 2, id % 2^20) else none,
    alcHeaderOffset := 4 * f.hdrLen,
    payloadOffset := payloadIdLen oti.fecId + 4 * f.hdrLen }

theorem parsedOf_pktHeader (oti : Oti) (cci tsi : Nat) (pkt : Pkt) (rfc3926 : Bool) (ntp id : Nat) (wfti : List Nat)
    (o' : Oti) :
    parsedOf (pktHeader oti cci tsi pkt rfc3926 ntp id wfti) = (expectedPkt oti cci tsi pkt rfc3926 ntp id wfti o').lct := by
  unfold parsedOf expectedPkt
  simp only [pktHeader, specOfBuild, b2n]
  refine (LctHeader.mk.injEq ..).mpr ⟨rfl, rfl, rfl, rfl, rfl, ?_, ?_, rfl⟩
  · by_cases h : pkt.closeObject = true <;> simp [h]
  · simp

end Flute.Alc

namespace Flute.Alc
open Flute Flute.Bytes Flute.Lct Flute.Fti Flute.Spec Flute.Ntp

theorem length_encode (f : LctFields) (hv : f.Valid) : f.encode.length = 4 * f.hdrLen := by
  unfold LctFields.encode
  rw [List.length_append, length_encodeExts f.exts hv.2.2.2.2.2.2.2.2.2.2.2.2.2, LctFields.encode_diagram f hv]
  simp only [List.length_append, List.length_cons, List.length_nil, length_beBytes, LctFields.hdrLen]
  omega

/-- **parse side of the composition**: `parse_alc_pkt` on the datagram laid out as `pktHeader`, payload id, payload -/
theorem parseAlcPkt_pktHeader (oti : Oti) (cci tsi : Nat) (pkt : Pkt) (rfc3926 : Bool) (ntp id : Nat)
    (wfti : List Nat) (nfti : Nat) (o' : Oti) (wpid : List Nat)
    (hv : (pktHeader oti cci tsi pkt rfc3926 ntp id wfti).Valid)
    (hk : knownFec oti.fecId = true)
    (hcenc : pkt.cenc ≤ 3)
    (hfti : (pkt.toi = 0 ∨ oti.inbandFti = true) → FtiOk oti pkt.transferLength wfti nfti o')
    (hwpid : wpid.length = payloadIdLen oti.fecId) :
    parseAlcPkt ((pktHeader oti cci tsi pkt rfc3926 ntp id wfti).encode ++ (wpid ++ pkt.payload)) =
      .ok (expectedPkt oti cci tsi pkt rfc3926 ntp id wfti o') := by
  generalize hf : pktHeader oti cci tsi pkt rfc3926 ntp id wfti = f at hv
  generalize hd : f.encode ++ (wpid ++ pkt.payload) = d
  have hver : (if rfc3926 = true then 1 else 2 : Nat) < 16 := by split <;> omega
  have hE : f.exts = [] ++ optExt (pkt.toi = 0) (fdtBytes (if rfc3926 then 1 else 2) id)
      ++ optExt ((pkt.toi = 0 ∧ pkt.cenc ≠ 0) ∨ pkt.inbandCenc = true) (cencBytes pkt.cenc)
      ++ optExt (pkt.senderCurrentTime = true) (sctBytes ntp)
      ++ optExt (pkt.toi = 0 ∨ oti.inbandFti = true) wfti := by rw [← hf]; rfl
  obtain ⟨x192, x193, _, x64⟩ := findExt_pkt (pkt.toi = 0) ((pkt.toi = 0 ∧ pkt.cenc ≠ 0) ∨ pkt.inbandCenc = true)
    (pkt.senderCurrentTime = true) (pkt.toi = 0 ∨ oti.inbandFti = true)
    (fdtBytes (if rfc3926 then 1 else 2) id) (cencBytes pkt.cenc) (sctBytes ntp) wfti 1 1 3 nfti
    (fun _ => fdtBytes_ext _ _ hver) (fun _ => cencBytes_ext _ (by omega)) (fun _ => sctBytes_ext _)
    (fun h => (hfti h).ext)
  rw [← hE] at x192 x193 x64
  have g192 := getExt_encode f hv (wpid ++ pkt.payload) 192
  have g193 := getExt_encode f hv (wpid ++ pkt.payload) 193
  have g64 := getExt_encode f hv (wpid ++ pkt.payload) 64
  rw [hd] at g192 g193 g64
  rw [x192] at g192; rw [x193] at g193; rw [x64] at g64
  have hcp : (parsedOf f).cp = oti.fecId := by rw [← hf]; rfl
  have htoi : (parsedOf f).toi = pkt.toi := by rw [← hf]; rfl
  have hlen : (parsedOf f).len = 4 * f.hdrLen := rfl
  have hdl : d.length = 4 * f.hdrLen + (wpid.length + pkt.payload.length) := by
    rw [← hd, List.length_append, length_encode f hv, List.length_append]
  -- EXT_FTI
  have F1 : getFti oti.fecId d (parsedOf f) =
      .ok (if pkt.toi = 0 ∨ oti.inbandFti = true then some (o', pkt.transferLength) else none) := by
    unfold getFti
    rw [show EXT_FTI = 64 from rfl, g64, Out.bind_ok]
    by_cases h : pkt.toi = 0 ∨ oti.inbandFti = true
    · simp only [if_pos h]; rw [(hfti h).parse]; rfl
    · simp only [if_neg h]
  -- EXT_CENC
  have F2 : cencOf (if (pkt.toi = 0 ∧ pkt.cenc ≠ 0) ∨ pkt.inbandCenc = true then some (cencBytes pkt.cenc) else none) =
      .ok (if (pkt.toi = 0 ∧ pkt.cenc ≠ 0) ∨ pkt.inbandCenc = true then some pkt.cenc else none) := by
    by_cases h : (pkt.toi = 0 ∧ pkt.cenc ≠ 0) ∨ pkt.inbandCenc = true
    · simp only [if_pos h, cencOf]; rw [parseCenc_cencBytes _ hcenc]
    · simp only [if_neg h, cencOf]
  -- EXT_FDT
  have F3 : fdtInfoOf d (parsedOf f) = .ok (if pkt.toi = 0 then some (if rfc3926 = true then 1 else 2, id % 2^20) else none) := by
    unfold fdtInfoOf
    rw [htoi]
    by_cases h : pkt.toi = 0
    · rw [if_pos h, show EXT_FDT = 192 from rfl, g192, Out.bind_ok, if_pos h, if_pos h]
      exact parseExtFdt_fdtBytes _ _ hver
    · rw [if_neg h, if_neg h]
  unfold parseAlcPkt
  rw [← hd, parseLctHeader_encode f hv (wpid ++ pkt.payload), Out.bind_ok, hd, hcp]
  rw [if_neg (by simp [hk])]
  simp only []
  rw [if_neg (by rw [hlen, hdl, hwpid]; omega), F1, Out.bind_ok, show EXT_CENC = 193 from rfl, g193, Out.bind_ok, F2,
    Out.bind_ok, F3, Out.bind_ok]
  have hp := parsedOf_pktHeader oti cci tsi pkt rfc3926 ntp id wfti o'
  rw [hf] at hp
  rw [hp]
  unfold expectedPkt
  rw [hf]
  by_cases h : pkt.toi = 0 ∨ oti.inbandFti = true <;> simp [h]

end Flute.Alc

namespace Flute.Alc
open Flute Flute.Bytes Flute.Lct Flute.Fti Flute.Spec Flute.Ntp

/-- `get_sender_current_time` on the datagram laid out as `pktHeader` -/
theorem getSenderCurrentTime_pktHeader (oti : Oti) (cci tsi : Nat) (pkt : Pkt) (rfc3926 : Bool) (ntp id : Nat)
    (wfti : List Nat) (nfti : Nat) (o' : Oti) (rest : List Nat)
    (hv : (pktHeader oti cci tsi pkt rfc3926 ntp id wfti).Valid)
    (hcenc : pkt.cenc ≤ 3)
    (hfti : (pkt.toi = 0 ∨ oti.inbandFti = true) → FtiOk oti pkt.transferLength wfti nfti o')
    (hntp : ntp < 2^64) :
    getSenderCurrentTime ((pktHeader oti cci tsi pkt rfc3926 ntp id wfti).encode ++ rest)
        (expectedPkt oti cci tsi pkt rfc3926 ntp id wfti o') =
      if pkt.senderCurrentTime = true then (ntpToSystemTime ntp).bind fun t => .ok (some t) else .ok none := by
  have hp := parsedOf_pktHeader oti cci tsi pkt rfc3926 ntp id wfti o'
  generalize hf : pktHeader oti cci tsi pkt rfc3926 ntp id wfti = f at hv hp
  have hver : (if rfc3926 = true then 1 else 2 : Nat) < 16 := by split <;> omega
  have hE : f.exts = [] ++ optExt (pkt.toi = 0) (fdtBytes (if rfc3926 then 1 else 2) id)
      ++ optExt ((pkt.toi = 0 ∧ pkt.cenc ≠ 0) ∨ pkt.inbandCenc = true) (cencBytes pkt.cenc)
      ++ optExt (pkt.senderCurrentTime = true) (sctBytes ntp)
      ++ optExt (pkt.toi = 0 ∨ oti.inbandFti = true) wfti := by rw [← hf]; rfl
  obtain ⟨_, _, x2, _⟩ := findExt_pkt (pkt.toi = 0) ((pkt.toi = 0 ∧ pkt.cenc ≠ 0) ∨ pkt.inbandCenc = true)
    (pkt.senderCurrentTime = true) (pkt.toi = 0 ∨ oti.inbandFti = true)
    (fdtBytes (if rfc3926 then 1 else 2) id) (cencBytes pkt.cenc) (sctBytes ntp) wfti 1 1 3 nfti
    (fun _ => fdtBytes_ext _ _ hver) (fun _ => cencBytes_ext _ (by omega)) (fun _ => sctBytes_ext _)
    (fun h => (hfti h).ext)
  rw [← hE] at x2
  have g2 := getExt_encode f hv rest 2
  rw [x2] at g2
  unfold getSenderCurrentTime
  rw [← hp, show EXT_TIME = 2 from rfl, g2, Out.bind_ok]
  by_cases h : pkt.senderCurrentTime = true
  · simp only [if_pos h]; exact parseSct_sctBytes ntp hntp
  · simp only [if_neg h]

/-- `parse_payload_id` on that datagram looks at exactly the payload-id bytes, and the payload is the tail -/
theorem parsePayloadId_pktHeader (oti : Oti) (cci tsi : Nat) (pkt : Pkt) (rfc3926 : Bool) (ntp id : Nat)
    (wfti : List Nat) (o' oti2 : Oti) (wpid payload : List Nat)
    (hv : (pktHeader oti cci tsi pkt rfc3926 ntp id wfti).Valid) (hwpid : wpid.length = payloadIdLen oti.fecId) :
    let d := (pktHeader oti cci tsi pkt rfc3926 ntp id wfti).encode ++ (wpid ++ payload)
    let p := expectedPkt oti cci tsi pkt rfc3926 ntp id wfti o'
    parsePayloadId d p oti2 = pidOfBytes oti2 wpid ∧ d.drop p.payloadOffset = payload ∧
      p.payloadOffset + payload.length = d.length := by
  intro d p
  have hl := length_encode _ hv
  have e1 : p.alcHeaderOffset = (pktHeader oti cci tsi pkt rfc3926 ntp id wfti).encode.length := by rw [hl]; rfl
  have e2 : p.payloadOffset = (pktHeader oti cci tsi pkt rfc3926 ntp id wfti).encode.length + wpid.length := by
    rw [hl, hwpid]; show payloadIdLen oti.fecId + _ = _; omega
  refine ⟨?_, ?_, ?_⟩
  · unfold parsePayloadId
    rw [e1, e2]
    exact getPayloadId_window oti2 _ wpid payload
  · rw [e2]
    show List.drop _ (_ ++ (wpid ++ payload)) = payload
    rw [← List.append_assoc, List.drop_append_of_le_length (by simp), ← List.length_append, List.drop_length,
      List.nil_append]
  · rw [e2]; show _ = (_ ++ (wpid ++ payload)).length
    simp only [List.length_append]; omega

end Flute.Alc

namespace Flute.Alc
open Flute Flute.Bytes Flute.Lct Flute.Fti Flute.Spec Flute.Ntp

theorem getElem?_beBytes (n X i : Nat) (h : i < n) : (beBytes n X)[i]? = some (X / 256 ^ (n - 1 - i) % 256) := by
  have := idx_beBytes n X i h
  unfold idx at this
  split at this
  · rename_i b hb; rw [hb]; cases this; rfl
  · cases this

/-- a variable-length extension given as a number -/
theorem extBytes_beBytes (k X het : Nat) (hk1 : 1 ≤ k) (hk2 : k ≤ 255) (hhet : het < 128)
    (h0 : X / 256 ^ (4 * k - 1) % 256 = het) (h1 : X / 256 ^ (4 * k - 2) % 256 = k) :
    ExtBytes (beBytes (4 * k) X) het k := by
  refine ⟨wf_beBytes _ _, length_beBytes _ _, hk1, hk2, ?_, ?_⟩
  · rw [getElem?_beBytes _ _ 0 (by omega)]
    have : 4 * k - 1 - 0 = 4 * k - 1 := by omega
    rw [this, h0]
  · rw [if_pos hhet, getElem?_beBytes _ _ 1 (by omega)]
    have : 4 * k - 1 - 1 = 4 * k - 2 := by omega
    rw [this, h1]

/-- flute's payload id for `(sbn, esi, sbl)`: `add_fec_payload_id` emits `w` (of the scheme's length) and
    `get_fec_payload_id` reads `pid` back from it -/
structure PidOk (oti : Oti) (sbn esi sbl : Nat) (w : List Nat) (pid : PayloadId) : Prop where
  build : addPayloadId oti sbn esi sbl = .ok w
  len : w.length = payloadIdLen oti.fecId
  parse : pidOfBytes oti w = .ok pid

theorem pidOk_of (oti : Oti) (sbn esi sbl : Nat) (w : List Nat) (pid : PayloadId)
    (h1 : addPayloadId oti sbn esi sbl = .ok w) (h2 : w.length = payloadIdLen oti.fecId)
    (h3 : getPayloadId oti ([] ++ (w ++ [])) ([] : List Nat).length (([] : List Nat).length + w.length) = .ok pid) :
    PidOk oti sbn esi sbl w pid :=
  ⟨h1, h2, by rw [getPayloadId_window] at h3; exact h3⟩

end Flute.Alc
