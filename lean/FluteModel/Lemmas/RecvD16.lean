import FluteModel.Lemmas.RecvBounds
import FluteModel.Lemmas.RecvToy
/-
  D16 (unrepaired tree): `n` FDT instance ids that never complete occupy `n` entries of
  `fdt_receivers`, for every `n`.
-/
namespace Flute.Recv
open Flute.Recv.Toy

/-- first packet of FDT instance `i` (two symbols announced, only this one ever sent) -/
def d16Pkt (i : Nat) : Pkt :=
  { toi := 0, closeObject := false, closeSession := false, fdtId := some i, sct := none,
    fti := some ⟨{ fec := 0, esl := 64, msbl := 64 }, 128⟩, pid := some (0, 0), plen := 64, dlen := 100 }

/-- the history: one packet for each of the instance ids `0 .. n-1` -/
def d16Ops : Nat → List Op
  | 0 => []
  | n + 1 => d16Ops n ++ [Op.data (.pkt (d16Pkt n)) 0 .err]

theorem alookup_none_of_lt {α} (n : Nat) (l : List (Nat × α)) (h : ∀ kf ∈ l, kf.1 < n) : alookup n l = none := by
  induction l with
  | nil => rfl
  | cons a r ih =>
    obtain ⟨k, v⟩ := a
    have hk : k < n := h (k, v) (by simp)
    have : ¬ k = n := by omega
    simp only [alookup, this, ↓reduceIte]
    exact ih (fun x hx => h x (List.mem_cons_of_mem _ hx))

theorem ainsert_append_of_lt {α} (n : Nat) (v : α) (l : List (Nat × α)) (h : ∀ kf ∈ l, kf.1 < n) :
    ainsert n v l = l ++ [(n, v)] := by
  induction l with
  | nil => rfl
  | cons a r ih =>
    obtain ⟨k, w⟩ := a
    have hk : k < n := h (k, w) (by simp)
    have : ¬ k = n := by omega
    simp only [ainsert, this, ↓reduceIte, List.cons_append]
    rw [ih (fun x hx => h x (List.mem_cons_of_mem _ hx))]

theorem ainsert_replace_last {α} (n : Nat) (v w : α) (l : List (Nat × α)) (h : ∀ kf ∈ l, kf.1 < n) :
    ainsert n v (l ++ [(n, w)]) = l ++ [(n, v)] := by
  induction l with
  | nil => simp [ainsert]
  | cons a r ih =>
    obtain ⟨k, u⟩ := a
    have hk : k < n := h (k, u) (by simp)
    have : ¬ k = n := by omega
    simp only [List.cons_append, ainsert, this, ↓reduceIte]
    rw [ih (fun x hx => h x (List.mem_cons_of_mem _ hx))]

/-- state after the first `n` packets -/
def D16Inv (n : Nat) (s : State Toy.Obj) : Prop :=
  s.fdtCurrent = [] ∧ s.fdtReceivers.length = n ∧
  ∀ kf ∈ s.fdtReceivers, kf.1 < n ∧ kf.2.st = .receiving

/-- a packet that leaves its instance in state `Receiving` -/
theorem pushFdtObjP_receiving {σ : Type} (I : ObjIface σ) (s : State σ) (p : Pkt) (now : Int) (ans : FdtAns)
    (id : Nat) (hid : p.fdtId = some id)
    (hgate : ¬ (s.cfg.receiveOnce = true ∧ s.fdtCurrent.any (fun f => decide (f.fdtId = id)) = true))
    (hst0 : (fdtEntry I s id p).2.st = .receiving)
    (hst1 : ((fdtEntry I s id p).2.push I p now ans).st = .receiving) :
    pushFdtObj' I s p now ans =
      .ok ({ (fdtEntry I s id p).1 with
              fdtReceivers := ainsert id ((fdtEntry I s id p).2.push I p now ans) (fdtEntry I s id p).1.fdtReceivers },
           .ok, []) := by
  unfold pushFdtObj'
  rw [hid]
  simp only []
  rw [if_neg hgate, if_neg (by rw [hst0]; simp), if_neg (by rw [hst1]; simp)]
  simp only [fdtDispatch, hst1]

theorem d16_step (n : Nat) (s : State Toy.Obj) (h : D16Inv n s) :
    ∃ s', step Toy.iface s (Op.data (.pkt (d16Pkt n)) 0 .err) = .ok (s', .ok, []) ∧ D16Inv (n + 1) s' := by
  obtain ⟨hcur, hlen, hall⟩ := h
  have hlt : ∀ kf ∈ s.fdtReceivers, kf.1 < n := fun kf hkf => (hall kf hkf).1
  have hnone := alookup_none_of_lt n s.fdtReceivers hlt
  have hentry : fdtEntry Toy.iface s n (d16Pkt n) =
      ({ s with fdtReceivers := s.fdtReceivers ++ [(n, FdtRecv.new Toy.iface n s.cfg.expCheck)] },
       (FdtRecv.new Toy.iface n s.cfg.expCheck).noteFti (d16Pkt n).fti) := by
    unfold fdtEntry
    rw [hnone]
    simp only []
    rw [ainsert_append_of_lt n _ _ hlt]
  have hdrop : dropConflict s (d16Pkt n) = s := by
    unfold dropConflict
    simp only [d16Pkt]
    rw [hnone]
  have hpush := pushFdtObjP_receiving Toy.iface s (d16Pkt n) 0 .err n rfl
    (by rw [hcur]; simp) (by rw [hentry]; rfl) (by rw [hentry]; rfl)
  rw [hentry] at hpush
  simp only [] at hpush
  rw [ainsert_replace_last n _ _ _ hlt] at hpush
  refine ⟨{ s with fdtReceivers := s.fdtReceivers ++
    [(n, ((FdtRecv.new Toy.iface n s.cfg.expCheck).noteFti (d16Pkt n).fti).push Toy.iface (d16Pkt n) 0 .err)] }, ?_, ?_⟩
  · simp only [step, pushData, push]
    unfold pushFdtObj
    rw [show (if (d16Pkt n).closeSession = true then ({ s with closedImminent := true } : State Toy.Obj) else s) = s from rfl,
      hdrop]
    exact hpush
  · refine ⟨hcur, by simp [hlen], ?_⟩
    intro kf hkf
    simp only [] at hkf
    rcases List.mem_append.mp hkf with hkf | hkf
    · exact ⟨Nat.lt_succ_of_lt (hall kf hkf).1, (hall kf hkf).2⟩
    · simp only [List.mem_singleton] at hkf
      subst hkf
      exact ⟨Nat.lt_succ_self n, rfl⟩

theorem run_append {σ : Type} (I : ObjIface σ) (s : State σ) (a b : List Op) :
    run I s (a ++ b) =
      (match run I s a with
       | none => none
       | some (s1, o1) =>
         match run I s1 b with
         | none => none
         | some (s2, o2) => some (s2, o1 ++ o2)) := by
  induction a generalizing s with
  | nil =>
    simp only [List.nil_append, run]
    cases run I s b with
    | none => rfl
    | some x => obtain ⟨x1, x2⟩ := x; rfl
  | cons op r ih =>
    simp only [List.cons_append, run]
    cases step I s op with
    | error w => rfl
    | ok x =>
      obtain ⟨s1, rr, ev⟩ := x
      simp only []
      rw [ih s1]
      cases run I s1 r with
      | none => rfl
      | some y =>
        obtain ⟨y1, y2⟩ := y
        simp only []
        cases run I y1 b with
        | none => rfl
        | some z => obtain ⟨z1, z2⟩ := z; rfl

/-- after the packets of `n` distinct instance ids, `n` unfinished instances are held -/
theorem d16_run (cfg : Config) (n : Nat) :
    ∃ s out, run Toy.iface (State.init cfg) (d16Ops n) = some (s, out) ∧ D16Inv n s := by
  induction n with
  | zero => exact ⟨State.init cfg, [], rfl, rfl, rfl, by intro kf h; simp [State.init] at h⟩
  | succ n ih =>
    obtain ⟨s, out, hr, hinv⟩ := ih
    obtain ⟨s', hs', hinv'⟩ := d16_step n s hinv
    refine ⟨s', out ++ [(Res.ok, [])], ?_, hinv'⟩
    simp only [d16Ops]
    rw [run_append, hr]
    simp only [run, hs']

end Flute.Recv
