import FluteModel.Lemmas.SchedFifo
/-
  Round robin on `Sender::read`: the queue-level progress statement `readQueue_rr`, lifted through the loop over the
  priority queues and the two polls of the FDT session.
-/
namespace Flute.Sched

/-- outcome of a `read` for a due slot `j` of the queue at position `pos`: the due packet itself, or a packet of a
    peer polled before it, and then the queue's index moved strictly closer while the due transfer is untouched -/
def RRStep (k : Nat) (f : FileDesc) (c : Cur) (j n d0 pos : Nat) (prio : Nat) (post : List QSess)
    (s' : State) (qs : List QSess) (t : Nat) : Prop :=
  t = k ∨
  (t ≠ k ∧ ∃ pre' q', qs = pre' ++ q' :: post ∧ pre'.length = pos ∧ q'.prio = prio ∧ q'.slots.length = n ∧
    rrDist q'.index j n < d0 ∧ q'.slots[j]? = some (some c) ∧
    ∃ f', getF s'.objs k = some f' ∧ f'.info = f.info ∧ f'.nSym = f.nSym)

theorem readQueues_rr {k : Nat} {f : FileDesc} {P : Prop} (ht : f.info.transferring = true) (c : Cur) (j : Nat)
    (hk : c.key = k) (now : Nat) (hg : gateBlocked f now = false) (hs : c.enc.stopped = false)
    (hlt : c.enc.sent < f.nPk) (q : QSess) (post : List QSess) (ticks : List (Nat × Nat))
    (hidx : q.index < q.slots.length) (hjs : q.slots[j]? = some (some c))
    (hoth : ∀ i c0, i ≠ j → q.slots[i]? = some (some c0) → c0.key ≠ k) :
    ∀ (pre : List QSess) (s : State), Kept k f P s →
    (∀ q0 ∈ pre, ∀ cur0 ∈ q0.slots, ∀ c0, cur0 = some c0 → c0.key ≠ k) →
    ∀ p t i b, (readQueues s (pre ++ q :: post) now ticks).2.2 = Out.pkt p t i b →
      p ∈ pre.map (fun x => x.prio) ∨
      (p = q.prio ∧ RRStep k f c j q.slots.length (rrDist q.index j q.slots.length) pre.length q.prio post
        (readQueues s (pre ++ q :: post) now ticks).1 (readQueues s (pre ++ q :: post) now ticks).2.1 t) := by
  have hj : j < q.slots.length := by
    rcases Nat.lt_or_ge j q.slots.length with h | h
    · exact h
    · rw [List.getElem?_eq_none h] at hjs; cases hjs
  intro pre
  induction pre with
  | nil =>
    intro s h _ p t i b
    simp only [List.nil_append]
    unfold readQueues
    have hr := readQueue_rr ht c j q.slots.length hk now hg hs hlt hj q.slots.length s q ticks h rfl hidx hjs hoth
      (rrDist_lt _ _ _ hidx hj)
    have hd := readQueue_due ht c j q.slots.length hk now hg hs hlt hj q.slots.length s q ticks h rfl hidx hjs hoth
      (rrDist_lt _ _ _ hidx hj)
    have hsh := readQueue_shape q.slots.length s q now ticks
    generalize readQueue q.slots.length s q now ticks = r at hr hd hsh
    obtain ⟨s', q', out⟩ := r
    simp only [] at hr hd hsh ⊢
    cases out with
    | none =>
      simp only []
      have hp := readQueues_pending post s' now ticks (hd.2 rfl)
      generalize readQueues s' post now ticks = r2 at hp
      obtain ⟨s2, rest2, out2⟩ := r2
      simp only [] at hp ⊢
      intro e; rw [hp.1] at e; cases e
    | hang => intro e; cases e
    | fdt a b' c' => intro e; cases e
    | pkt a b' c' d =>
      intro e
      simp only [Out.pkt.injEq] at e
      obtain ⟨e1, e2, e3, e4⟩ := e
      subst e1; subst e2; subst e3; subst e4
      right
      refine ⟨hd.1 a b' c' d rfl, ?_⟩
      rcases hr a b' c' d rfl with h1 | ⟨h1, h2, h3, h4⟩
      · exact Or.inl h1
      · refine Or.inr ⟨h1, [], q', rfl, rfl, ?_, ?_, h2, h3, ?_⟩
        · exact (Prod.mk.inj hsh).1
        · exact (Prod.mk.inj hsh).2
        · obtain ⟨f', e1, e2, e3, _⟩ := h4.obj
          exact ⟨f', e1, e2, e3⟩
  | cons q0 pre' ih =>
    intro s h hpre p t i b
    simp only [List.cons_append]
    unfold readQueues
    have hr := readQueue_other ht q0.slots.length s q0 now ticks h (hpre q0 List.mem_cons_self)
    generalize readQueue q0.slots.length s q0 now ticks = r at hr
    obtain ⟨s', q0', out⟩ := r
    simp only [] at hr ⊢
    cases out with
    | none =>
      simp only []
      have h2 := ih s' (hr.2 rfl) (fun q1 hq1 => hpre q1 (List.mem_cons_of_mem _ hq1)) p t i b
      generalize readQueues s' (pre' ++ q :: post) now ticks = r2 at h2
      obtain ⟨s2, rest2, out2⟩ := r2
      simp only [] at h2 ⊢
      intro e
      rcases h2 e with h3 | ⟨h3, h4⟩
      · exact Or.inl (List.mem_cons_of_mem _ h3)
      · refine Or.inr ⟨h3, ?_⟩
        rcases h4 with h5 | ⟨h5, pre'', q', e1, e2, e3⟩
        · exact Or.inl h5
        · exact Or.inr ⟨h5, q0' :: pre'', q', by rw [e1]; rfl, by simp [e2], e3⟩
    | hang => intro e; cases e
    | pkt a b' c' d =>
      intro e
      have := hr.1 a b' c' d rfl
      simp only [Out.pkt.injEq] at e
      left
      rw [← e.1, this]; simp
    | fdt a b' c' => intro e; cases e

/-- Round robin on `Sender::read`, for every reachable state: slot `j` of queue `q` holds a transfer whose packet is
    due.  If `read` returns an object packet, it is a packet of a queue polled before `q`, or `q`'s due packet, or the
    packet of a peer slot of `q` - and then, in the state after the call, `q`'s round-robin index is strictly closer
    to `j` and the due transfer is untouched. -/
theorem read_rr (cfg : Cfg) (tbl : List Nat) (ops : List Op) (pre post : List QSess) (q : QSess) (j : Nat) (c : Cur)
    (f : FileDesc) (now : Nat) (ticks : List (Nat × Nat))
    (hsess : (run (init cfg tbl) ops).sessions = pre ++ q :: post)
    (hjs : q.slots[j]? = some (some c)) (hf : getF (run (init cfg tbl) ops).objs c.key = some f)
    (hg : gateBlocked f now = false) (hs : c.enc.stopped = false) (hlt : c.enc.sent < f.nPk) :
    ∀ p t i b, (read (run (init cfg tbl) ops) now ticks).2 = Out.pkt p t i b →
      p ∈ pre.map (fun x => x.prio) ∨
      (p = q.prio ∧ RRStep c.key f c j q.slots.length (rrDist q.index j q.slots.length) pre.length q.prio post
        (read (run (init cfg tbl) ops) now ticks).1 (read (run (init cfg tbl) ops) now ticks).1.sessions t) := by
  have hwq := run_inv Wf.closed Wf.closedOps ops (init cfg tbl) (by rw [heldOf_init]; exact Wf.init cfg tbl) rfl
  have hidx := run_idx cfg tbl ops
  generalize run (init cfg tbl) ops = s at *
  obtain ⟨hw, hquiet⟩ := hwq
  have hheld : heldOf s = held pre ++ (heldQ q ++ held post) := by
    unfold heldOf; rw [hsess]; simp [held]
  have hcq : (q.prio, c) ∈ heldQ q := by
    unfold heldQ heldSlots
    exact List.mem_flatMap.mpr ⟨some c, List.mem_of_getElem? hjs, by simp [optHeld]⟩
  have hcin : (q.prio, c) ∈ heldOf s := by rw [hheld]; exact List.mem_append_right _ (List.mem_append_left _ hcq)
  obtain ⟨f0, hf0, htr, _⟩ := hw.heldObj _ hcin
  rw [hf] at hf0; cases hf0
  have hnd := hw.heldNodup
  rw [hheld, List.map_append, List.nodup_append] at hnd
  obtain ⟨_, hnd2, hnd3⟩ := hnd
  have hpre : ∀ q0 ∈ pre, ∀ cur0 ∈ q0.slots, ∀ c0, cur0 = some c0 → c0.key ≠ c.key := by
    intro q0 hq0 cur0 hcur0 c0 e
    subst e
    have h1 : c0.key ∈ (held pre).map (fun pc => pc.2.key) :=
      List.mem_map.mpr ⟨_, mem_held_of_slot hq0 hcur0, rfl⟩
    have h2 : c.key ∈ (heldQ q ++ held post).map (fun pc => pc.2.key) :=
      List.mem_map.mpr ⟨_, List.mem_append_left _ hcq, rfl⟩
    exact hnd3 _ h1 _ h2
  have hoth : ∀ i c0, i ≠ j → q.slots[i]? = some (some c0) → c0.key ≠ c.key := by
    intro i c0 hij hi
    rw [List.map_append, List.nodup_append] at hnd2
    exact heldSlots_distinct q.prio q.slots i j c0 c hnd2.1 hi hjs hij
  have hqidx : q.index < q.slots.length := hidx q (by rw [hsess]; simp)
  have hkept : Kept c.key f (c.key ∈ s.files) s := ⟨⟨f, hf, rfl, rfl, rfl⟩, Iff.rfl⟩
  unfold read
  have hw0 : Wf (emit s (.opRead now)) (heldOf s) := Wf.emit _ hw
  have hk0 : Kept c.key f (c.key ∈ s.files) (emit s (.opRead now)) := hkept.same rfl rfl
  have hk1 := Kept.runFdt runFuel (emit s (.opRead now)) now hk0
  have hw1 := runFdt_inv Wf.closed runFuel (emit s (.opRead now)) now _ hw0 hquiet
  have hs1 := runFdt_sessions runFuel (emit s (.opRead now)) now
  have ho1 := runFdt_out runFuel (emit s (.opRead now)) now
  generalize hr1 : runFdt runFuel (emit s (.opRead now)) now = r1 at hk1 hw1 hs1 ho1
  obtain ⟨s1, o1⟩ := r1
  simp only [emit_sessions] at hk1 hw1 hs1 ho1
  cases o1 with
  | hang => intro _ _ _ _ e; cases e
  | fdt a b c' => intro _ _ _ _ e; cases e
  | pkt a b c' d => exact absurd rfl (ho1 a b c' d)
  | none =>
    simp only []
    have hq1 := runFdt_none runFuel (emit s (.opRead now)) now s1 hr1
    have hw1q : Wf { s1 with quiet := true } (heldOf s) := Wf.enterFiles now hw1.1 hq1
    have hk1q : Kept c.key f (c.key ∈ s.files) { s1 with quiet := true } := hk1.same rfl rfl
    have hSsess : ({ s1 with quiet := true } : State).sessions = pre ++ q :: post := by
      show s1.sessions = _; rw [hs1, hsess]
    have hSq : ({ s1 with quiet := true } : State).quiet = true := rfl
    generalize ({ s1 with quiet := true } : State) = S at hw1q hk1q hSsess hSq ⊢
    unfold readMid
    simp only []
    rw [hSsess]
    have hrr := readQueues_rr htr c j rfl now hg hs hlt q post ticks hqidx hjs hoth pre S hk1q hpre
    have hdue := readQueues_due htr c j rfl now hg hs hlt q post ticks hqidx hjs hoth pre S hk1q hpre
    have hwq2 := readQueues_inv Wf.closed (pre ++ q :: post) S now ticks []
      (by simpa [heldOf, hsess] using hw1q) hSq
    generalize readQueues S (pre ++ q :: post) now ticks = r2 at hrr hdue hwq2
    obtain ⟨s2, qs, o2⟩ := r2
    simp only [List.append_nil] at hrr hdue hwq2 ⊢
    cases o2 with
    | hang => intro _ _ _ _ e; cases e
    | fdt a b c' => intro _ _ _ _ e; cases e
    | pkt a b c' d =>
      intro p t i b' e
      simp only [Out.pkt.injEq] at e
      obtain ⟨e1, e2, e3, e4⟩ := e
      subst e1; subst e2; subst e3; subst e4
      exact hrr a b c' d rfl
    | none =>
      simp only []
      have hfq := hdue.2 rfl
      have hw2 : Wf { s2 with sessions := qs, quiet := false } (held qs) := Wf.leaveFiles qs hwq2.1
      have hsess2 : ({ s2 with sessions := qs, quiet := false } : State).fdtSess = none := hwq2.1.quiet hwq2.2
      unfold readTail
      have e : runFuel = 3 + 1 := rfl
      obtain ⟨k', id, i', he⟩ := runFdt_emits_pending 3 now hw2 hsess2 hfq
      rw [e]
      generalize runFdt (3 + 1) ({ s2 with sessions := qs, quiet := false } : State) now = r3 at he
      obtain ⟨s3, o3⟩ := r3
      simp only [] at he
      subst he
      intro _ _ _ _ e; cases e

end Flute.Sched
