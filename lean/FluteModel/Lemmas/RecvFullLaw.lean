import FluteModel.RecvFull
import FluteModel.Lemmas.RecvMiniLaw
/-
  The full object model `ObjRecv` (through the adapter `RecvFull.lean`) satisfies the two contracts
  of the session-level theorems, `ObjIface.Law` and `ObjIface.CompleteSound` - from the lemmas of
  agent orecv (`Lemmas/ObjRecvAttach.lean`).  (TOI 0 objects inside an `FdtReceiver` are `Mini`.)
-/
namespace Flute.Recv.Full
open Flute Flute.Recv

theorem newCalls_same (cc : Option CacheControl) (a b : ObjRecv.St) (h : b.out = a.out) : newCalls cc a b = [] := by
  unfold newCalls
  rw [h]
  simp

theorem newCalls_grow (cc : Option CacheControl) (a b : ObjRecv.St) (l : List ObjRecv.WCall)
    (h : b.out = l ++ a.out) : newCalls cc a b = l.reverse.map (wev cc) := by
  unfold newCalls
  rw [h]
  have : (l ++ a.out).length - a.out.length = l.length := by simp
  rw [this, List.take_left']
  rfl

theorem wev_complete (cc : Option CacheControl) (c : ObjRecv.WCall) (h : wev cc c = WEv.complete) : c = .complete := by
  cases c <;> simp [wev] at h ⊢

theorem not_noComplete_of_mem (l r : List ObjRecv.WCall) (h : ObjRecv.WCall.complete ∈ l) :
    ¬ ObjRecv.noComplete (l ++ r) := by
  induction l with
  | nil => simp at h
  | cons a t ih =>
    cases a with
    | complete => simp [ObjRecv.noComplete]
    | _ =>
      simp only [List.mem_cons] at h
      rcases h with h | h
      · cases h
      · simpa [ObjRecv.noComplete] using ih h

variable (P : ObjRecv.Params)

/-- ghost "attached" -/
def attachedAny : Any P → Bool
  | .inl m => Mini.attached m
  | .inr f => f.st.fdtId.isSome

def toiAny : Any P → Nat
  | .inl m => m.toi
  | .inr f => f.st.toi

/-- facts about one `push` of the ObjRecv-backed object -/
theorem pushN_facts (o : Obj P) (p : Recv.Pkt) :
    (pushN P o p).1.st.toi = o.st.toi ∧ (pushN P o p).1.st.fdtId = o.st.fdtId ∧
    (o.st.fdtId = none → (pushN P o p).2 = []) ∧
    (WEv.complete ∈ (pushN P o p).2 → (pushN P o p).1.st.state = .completed) := by
  unfold pushN
  by_cases hf : o.fault = true
  · rw [if_pos hf]; exact ⟨rfl, rfl, fun _ => rfl, fun h => by simp at h⟩
  · rw [if_neg hf]
    split
    · exact ⟨rfl, rfl, fun _ => rfl, fun h => by simp at h⟩
    · rename_i st' h
      have hg := ObjRecv.push_grows P o.st (toPkt p) h
      have hfd := ObjRecv.push_fdtId P o.st (toPkt p) o.reach.inv h
      refine ⟨hg.1, hfd.1, fun hn => newCalls_same _ _ _ (hfd.2 hn).1, ?_⟩
      intro hm
      obtain ⟨l, hl⟩ := hg.2
      simp only [] at hm ⊢
      rw [newCalls_grow _ _ _ l hl] at hm
      obtain ⟨c, hc, hw⟩ := List.mem_map.mp hm
      have hcl : ObjRecv.WCall.complete ∈ l := by
        rw [← wev_complete _ c hw]; exact List.mem_reverse.mp hc
      exact ObjRecv.push_complete_state P o.st (toPkt p) o.reach.inv o.reach.jinv o.reach.kr h
        (by rw [hl]; exact not_noComplete_of_mem l _ hcl)

/-- facts about one push of a TOI-0 packet (`attachFdt` with the packet's own entry, then `push`) -/
theorem push0_facts (o : Obj P) (p : Recv.Pkt) :
    (push0 P o p).1.st.toi = o.st.toi ∧
    (WEv.complete ∈ (push0 P o p).2 → (push0 P o p).1.st.state = .completed) := by
  unfold push0
  by_cases hf : o.fault = true
  · rw [if_pos hf]; exact ⟨rfl, fun h => by simp at h⟩
  · rw [if_neg hf]
    split
    · exact ⟨rfl, fun h => by simp at h⟩
    · rename_i st1 b h
      split
      · exact ⟨rfl, fun h => by simp at h⟩
      · rename_i st' h2
        have hg1 := ObjRecv.attach_grows P o.st _ _ h
        have hg2 := ObjRecv.push_grows P st1 (toPkt p) h2
        refine ⟨by simp only []; rw [hg2.1, hg1.1], ?_⟩
        intro hm
        obtain ⟨l1, hl1⟩ := hg1.2
        obtain ⟨l2, hl2⟩ := hg2.2
        have hl : st'.out = (l2 ++ l1) ++ o.st.out := by rw [hl2, hl1, List.append_assoc]
        simp only [] at hm ⊢
        rw [newCalls_grow _ _ _ (l2 ++ l1) hl] at hm
        obtain ⟨c, hc, hw⟩ := List.mem_map.mp hm
        have hcl : ObjRecv.WCall.complete ∈ l2 ++ l1 := by
          rw [← wev_complete _ c hw]; exact List.mem_reverse.mp hc
        have hr := ObjRecv.reach_push P st1 (toPkt p) (ObjRecv.reach_attach P o.st _ _ o.reach h) h2
        rcases hr.kr with hk | hk
        · exact absurd hk (by rw [hl]; exact not_noComplete_of_mem (l2 ++ l1) _ hcl)
        · exact hk

theorem push_toi_full (o : Obj P) (p : Recv.Pkt) : (push P o p).1.st.toi = o.st.toi := by
  unfold push
  split
  · exact (push0_facts P o p).1
  · exact (pushN_facts P o p).1

theorem push_eq_pushN (o : Obj P) (p : Recv.Pkt) (hp : p.toi ≠ 0) : push P o p = pushN P o p := by
  unfold push; rw [if_neg hp]

theorem attach_facts (o : Obj P) (id : Nat) (fdt : FdtAbs) :
    (attachFdt P o id fdt).1.st.toi = o.st.toi ∧
    ((attachFdt P o id fdt).2.1 = false → (attachFdt P o id fdt).1.st.fdtId = o.st.fdtId ∧ (attachFdt P o id fdt).2.2 = []) ∧
    ((attachFdt P o id fdt).2.1 = true → (fdt.getFile o.st.toi).isSome = true) := by
  unfold attachFdt
  by_cases hf : o.fault = true
  · rw [if_pos hf]; exact ⟨rfl, fun _ => ⟨rfl, rfl⟩, fun h => by simp at h⟩
  · rw [if_neg hf]
    simp only []
    split
    · exact ⟨rfl, fun _ => ⟨rfl, rfl⟩, fun h => by simp at h⟩
    · rename_i st' ok h
      have hg := ObjRecv.attach_grows P o.st id _ h
      refine ⟨hg.1, ?_, ?_⟩
      · intro hfalse
        simp only [] at hfalse
        subst hfalse
        have := ObjRecv.attach_false_silent P o.st id _ h
        subst this
        exact ⟨rfl, newCalls_same _ _ _ rfl⟩
      · intro htrue
        simp only [] at htrue
        subst htrue
        have := (ObjRecv.attach_true_listed P o.st id _ h).1
        simpa using this

theorem drop_facts (o : Obj P) (hn : o.st.fdtId = none) : drop P o = [] := by
  unfold drop
  exact newCalls_same _ _ _ (ObjRecv.drop_silent o.st o.reach.inv hn)

/-- **`ObjIface.Law` for the full object model** -/
def law : (iface P).Law :=
  { attached := attachedAny P
    toi := toiAny P
    new_attached := fun t mc => by
      rfl
    new_toi := fun t mc => by
      rfl
    push_toi := fun o p => by
      cases o with
      | inl m => exact Mini.law.push_toi m p
      | inr f => exact push_toi_full P f p
    push_attached := fun o p hp => by
      cases o with
      | inl m => exact Mini.law.push_attached m p hp
      | inr f =>
        show (push P f p).1.st.fdtId.isSome = f.st.fdtId.isSome
        rw [push_eq_pushN P f p hp, (pushN_facts P f p).2.1]
    push_silent := fun o p hp ha => by
      cases o with
      | inl m => exact Mini.law.push_silent m p hp ha
      | inr f =>
        show (push P f p).2 = []
        have hn : f.st.fdtId = none := by
          have : f.st.fdtId.isSome = false := ha
          cases hfd : f.st.fdtId with
          | none => rfl
          | some i => rw [hfd] at this; simp at this
        rw [push_eq_pushN P f p hp]
        exact (pushN_facts P f p).2.2.1 hn
    attach_toi := fun o id fdt => by
      cases o with
      | inl m => exact Mini.law.attach_toi m id fdt
      | inr f => exact (attach_facts P f id fdt).1
    attach_fail := fun o id fdt hf ha => by
      cases o with
      | inl m => exact Mini.law.attach_fail m id fdt hf ha
      | inr f =>
        have h := (attach_facts P f id fdt).2.1 hf
        refine ⟨?_, h.2⟩
        show (attachFdt P f id fdt).1.st.fdtId.isSome = false
        rw [h.1]; exact ha
    attach_lists := fun o id fdt hs => by
      cases o with
      | inl m => exact Mini.law.attach_lists m id fdt hs
      | inr f => exact (attach_facts P f id fdt).2.2 hs
    drop_silent := fun o ha => by
      cases o with
      | inl m => exact Mini.law.drop_silent m ha
      | inr f =>
        show drop P f = []
        have hn : f.st.fdtId = none := by
          have : f.st.fdtId.isSome = false := ha
          cases hfd : f.st.fdtId with
          | none => rfl
          | some i => rw [hfd] at this; simp at this
        exact drop_facts P f hn }

/-- **`ObjIface.CompleteSound` for the full object model** -/
theorem completeSound : (iface P).CompleteSound := by
  intro o p hm
  cases o with
  | inl m => exact Mini.completeSound m p hm
  | inr f =>
    show stateOf (push P f p).1.st.state = .completed
    have hm' : WEv.complete ∈ (push P f p).2 := hm
    unfold push at hm' ⊢
    split at hm'
    · rename_i h0
      rw [if_pos h0, (push0_facts P f p).2 hm']
      rfl
    · rename_i h0
      rw [if_neg h0, (pushN_facts P f p).2.2.2 hm']
      rfl

end Flute.Recv.Full
