import FluteModel.ObjRecv
/-
  `Drain.Contract` / `drain_terminates` (FluteModel/Drain.lean, Props/Ring.lean) restated for the decompressor parameter of
  the ObjectReceiver model (`Params.dzRead`, a function of the call history): the missing item (d) of Props/C04Obj.lean,
  "`decoder_read` terminates".  Written by the owner of engine `ring` for agent orecv; imports ObjRecv only.

  NOTE for Props/C04Obj.lean: the hypothesis `∀ f s x, decoderRead P f s x ≠ .error .hang` of `dw_loop_no_hang` cannot be met
  (`decoderRead P 0 _ _ = .error .hang` by definition); it should read `∀ s x, <measure of x below P.dzFuel> →
  decoderRead P P.dzFuel s x ≠ .error .hang`, which is what `decoderRead_no_hang` below provides.
-/
namespace Flute.Lemmas.DrainObj
open Flute Flute.FecDec Flute.ObjRecv

/-- the contract: a measure of the output the decompressor can still hand out without new input, used up by every
    non-empty read (for a prefix-monotone transducer: output determined by the bytes it holds plus the ring content,
    minus what it already handed out - measured on the real flate2 decoders by engine `ring`, op `dc`) -/
structure DzContract (P : Params) where
  mu : Cenc → List DzCall → Bytes → Nat
  read_decreases : ∀ (c : Cenc) (hist : List DzCall) (call : DzCall) (out : Bytes),
    (P.dzRead c hist call).res = .data out → (out.take call.buflen).isEmpty = false →
    mu c (hist ++ [call]) (call.avail.drop (P.dzRead c hist call).take) < mu c hist call.avail

/-- the measure of a BlockWriter state -/
def bwMu {P : Params} (C : DzContract P) (w : BW) : Nat :=
  match w.dz with
  | none => 0
  | some dz => C.mu w.cenc dz.hist dz.ring

/-- **`decoder_read` terminates**: with more fuel than the measure it never runs out of fuel, for every decompressor
    meeting the contract, every ring content, every `content_length_left`, every writer behaviour. -/
theorem decoderRead_no_hang (P : Params) (C : DzContract P) :
    ∀ (fuel : Nat) (st : St) (w : BW), bwMu C w < fuel → decoderRead P fuel st w ≠ .error .hang := by
  intro fuel
  induction fuel with
  | zero => intro st w h; omega
  | succ fuel ih =>
    intro st w hmu
    unfold decoderRead
    cases hdz : w.dz with
    | none => simp
    | some dz =>
      simp only []
      cases hres : (P.dzRead w.cenc dz.hist { avail := dz.ring, fin := dz.fin, buflen := w.bufLen }).res with
      | wouldBlock => simp
      | err => simp
      | data out =>
        simp only []
        by_cases he : (out.take w.bufLen).isEmpty = true
        · simp [he]
        · have he' : (out.take w.bufLen).isEmpty = false := by simpa using he
          have hdec := C.read_decreases w.cenc dz.hist { avail := dz.ring, fin := dz.fin, buflen := w.bufLen } out hres he'
          simp only [] at hdec
          have hmu' : C.mu w.cenc dz.hist dz.ring < fuel + 1 := by simpa [bwMu, hdz] using hmu
          simp only [he', Bool.false_eq_true, if_false]
          by_cases hc : w.clLeft = some 0
          · simp only [hc, if_true]
            apply ih
            simp only [bwMu]
            omega
          · simp only [hc, if_false]
            split
            · simp
            · apply ih
              simp only [bwMu]
              omega

end Flute.Lemmas.DrainObj
