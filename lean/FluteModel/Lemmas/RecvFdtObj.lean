import FluteModel.Lemmas.RecvInv
import FluteModel.Lemmas.RecvExpiry
import FluteModel.Lemmas.RecvRun
/-
  The object INSIDE an `FdtReceiver` (TOI 0): any predicate that holds for a new object and is
  preserved by `push` of TOI-0 packets holds for the object of every FDT-instance receiver in every
  reachable state (`step_fobj`, an instance of the generic `step_all`).
-/
namespace Flute.Recv
variable {σ : Type}

/-- the inner object of the instance receiver, while there is one, satisfies `Q` -/
def FObj (Q : σ → Prop) (f : FdtRecv σ) : Prop := ∀ o, f.obj = some o → Q o

theorem applyWEv_obj (ans : FdtAns) (f : FdtRecv σ) (e : WEv) : (f.applyWEv ans e).obj = f.obj := by
  exact (applyWEv_fields ans f e).2.2.2.2.1

theorem applyWEvs_obj (ans : FdtAns) (f : FdtRecv σ) (evs : List WEv) : (f.applyWEvs ans evs).obj = f.obj := by
  unfold FdtRecv.applyWEvs
  induction evs generalizing f with
  | nil => rfl
  | cons e r ih => simp only [List.foldl_cons]; rw [ih, applyWEv_obj]

theorem observeSct_obj (f : FdtRecv σ) (sct : Option Int) (now : Int) : (f.observeSct sct now).obj = f.obj := by
  unfold FdtRecv.observeSct
  cases sct with
  | none => rfl
  | some r => simp only []; split <;> rfl

/-- the object an instance receiver holds after a push is the pushed object -/
theorem push_obj (I : ObjIface σ) (f : FdtRecv σ) (p : Pkt) (now : Int) (ans : FdtAns) (o' : σ)
    (h : (f.push I p now ans).obj = some o') : ∃ o, f.obj = some o ∧ o' = (I.push o p).1 := by
  unfold FdtRecv.push at h
  simp only [] at h
  rw [observeSct_obj] at h
  cases ho : f.obj with
  | none =>
    rw [ho] at h
    simp only [] at h
    rw [observeSct_obj, ho] at h; cases h
  | some o =>
    refine ⟨o, rfl, ?_⟩
    rw [ho] at h
    simp only [] at h
    split at h
    · simp only [Option.some.injEq] at h; exact h.symm
    · rw [applyWEvs_obj] at h; cases h
    · simp only [Option.some.injEq] at h; exact h.symm
    · simp only [Option.some.injEq] at h; exact h.symm

theorem step_fobj (I : ObjIface σ) (Q : σ → Prop) (s s' : State σ) (op : Op) (r : Res) (evs : List Ev)
    (hnew : Q (I.new 0 (1024 * 1024)))
    (hpush : ∀ p now ans, op = .data (.pkt p) now ans → p.toi = 0 → ∀ o, Q o → Q (I.push o p).1)
    (h : step I s op = .ok (s', r, evs)) (hall : AllFdt (FObj Q) s) : AllFdt (FObj Q) s' := by
  refine (step_all I (FObj Q) s s' op r evs ?_ ?_ ?_ ?_ h hall).1
  · intro f v hf o ho
    rw [(noteFti_fields f v).2.1] at ho; exact hf o ho
  · intro p now ans id _ _ o ho
    simp only [FdtRecv.new, Option.some.injEq] at ho
    rw [← ho]; exact hnew
  · intro p now ans hop htoi id _ f hf o' ho'
    obtain ⟨o, ho, rfl⟩ := push_obj I f p now ans o' ho'
    exact hpush p now ans hop htoi o (hf o ho)
  · intro f f' hf hu o ho
    rw [(updateExpired_fields hu).2.2.2.2.2.2.1] at ho; exact hf o ho

end Flute.Recv
