import FluteModel.Lemmas.ObjRecvWritten
import FluteModel.Lemmas.DecExact
/-
  Third invariant (R invariant (1)-(3) of DESIGN §9), for histories of GENUINE packets of one object:
  known OTI / transfer length / cenc are the sender's, every decoder only ever saw genuine symbols, the bytes handed to the
  writer are the first `w.sbn` blocks of the object.
-/
namespace Flute.ObjRecv
open Flute Flute.FecDec Flute.Spec

/-- one object as the sender transmits it -/
structure GSess where
  /-- the transfer-encoded object -/
  T : Bytes
  o : Oti
  aL : Nat
  aS : Nat
  nL : Nat
  /-- number of source blocks -/
  n : Nat
  /-- source symbols of block sbn -/
  K : Nat → Nat
  /-- the encoding symbol (sbn, esi) the sender emits -/
  sym : Nat → Nat → Bytes
  /-- what a correct decoder returns for block sbn -/
  D : Nat → Bytes
  /-- the first sbn blocks of `T` -/
  pre : Nat → Bytes

structure GSess.Laws (c : Codec) (S : GSess) : Prop where
  quad : Partition.blockPartitioning S.o.b S.T.length S.o.e = .ok (S.aL, S.aS, S.nL, S.n)
  kRecv : ∀ sbn, sbn < S.n → (if sbn < S.nL % U32 then S.aL % U32 else S.aS % U32) = S.K sbn
  dSrc : (S.o.scheme = .noCode ∨ S.o.scheme = .rs28 ∨ S.o.scheme = .rs28us) →
          ∀ sbn, sbn < S.n → S.D sbn = genuineConcat (S.sym sbn) 0 (S.K sbn)
  codec : ∀ sbn, sbn < S.n → CodecOK c S.o.scheme (S.sym sbn) (S.K sbn) S.o.e sbn (S.D sbn)
  pre0 : S.pre 0 = []
  preS : ∀ sbn, sbn < S.n → S.pre (sbn + 1) = S.pre sbn ++ trimTo (S.T.length - (S.pre sbn).length) (S.D sbn)
  preN : S.pre S.n = S.T

theorem GSess.Laws.pre_prefix {c : Codec} {S : GSess} (L : S.Laws c) (i : Nat) (hi : i ≤ S.n) : S.pre i <+: S.T := by
  have key : ∀ d, i + d = S.n → S.pre i <+: S.pre S.n := by
    intro d
    induction d generalizing i with
    | zero => intro h; simp at h; rw [h]; exact List.prefix_refl _
    | succ m ih =>
      intro h
      have h1 : S.pre i <+: S.pre (i + 1) := by rw [L.preS i (by omega)]; exact List.prefix_append _ _
      exact h1.trans (ih (i + 1) (by omega) (by omega))
  rw [← L.preN]
  exact key (S.n - i) (by omega)

abbrev BOK (S : GSess) (sbn : Nat) (b : Block) : Prop := BlockOK S.o.scheme (S.sym sbn) (S.K sbn) S.o.e sbn (S.D sbn) b

def Part (S : GSess) (st : St) : Prop :=
  st.aLarge = S.aL ∧ st.aSmall = S.aS ∧ st.nbALarge = S.nL ∧ st.nbBlocks = S.n

/-- a genuine packet of the object: FTI / cenc (when present) are the sender's, the payload is the sender's symbol for the
    (SBN, ESI) the payload ID announces, RS under-specified: the announced source block length is the block's -/
def GenPkt (S : GSess) (p : Pkt) : Prop :=
  (p.fti = none ∨ p.fti = some (S.o, S.T.length)) ∧ (p.cenc = none ∨ p.cenc = some .null) ∧
  ∃ pid, parsePayloadId S.o p = .ok (some pid) ∧
    (S.T.length ≠ 0 → pid.sbn < S.n ∧ p.payload = S.sym pid.sbn pid.esi ∧ (pid.sbl = none ∨ pid.sbl = some (S.K pid.sbn)))

/-- a genuine FDT entry for the object -/
def GenFile (S : GSess) (f : FileEntry) : Prop :=
  (f.oti = none ∨ f.oti = some S.o) ∧ f.tl = S.T.length ∧ f.cenc = .null

def GenOp (S : GSess) : Op → Prop
  | .push p => GenPkt S p
  | .attach _ none => True
  | .attach _ (some f) => GenFile S f

/-- what is known of the object is the sender's; blocks stay within the partition -/
structure GStat (S : GSess) (st : St) : Prop where
  oti : st.oti = none ∨ st.oti = some S.o
  tl : st.tl = none ∨ st.tl = some S.T.length
  cenc : st.cenc = none ∨ st.cenc = some .null
  part : st.nbBlocks ≠ 0 → Part S st
  room : st.blocksOffset + st.blocks.length ≤ S.n
  cacheGen : ∀ p, p ∈ st.cache → GenPkt S p

structure GInv (S : GSess) (st : St) : Prop extends GStat S st where
  blocks : ∀ i blk, st.blocks[i]? = some blk → BOK S (st.blocksOffset + i) blk
  opened : st.writer = some .opened → ∀ w, st.bw = some w → st.written = S.pre w.sbn ∧ w.sbn ≤ S.n
  closed : st.writer = some .closed → st.written = S.T

theorem ginv_new (S : GSess) (toi m : Nat) : GInv S (St.new toi m) := by
  refine ⟨⟨.inl rfl, .inl rfl, .inl rfl, fun h => absurd rfl h, by simp [St.new], by simp [St.new]⟩, ?_, ?_, ?_⟩ <;> simp [St.new]

/-- fields the G-invariant reads -/
structure SameG (st st' : St) : Prop where
  oti : st'.oti = st.oti
  tl : st'.tl = st.tl
  cenc : st'.cenc = st.cenc
  blocks : st'.blocks = st.blocks
  off : st'.blocksOffset = st.blocksOffset
  aLarge : st'.aLarge = st.aLarge
  aSmall : st'.aSmall = st.aSmall
  nbALarge : st'.nbALarge = st.nbALarge
  nbBlocks : st'.nbBlocks = st.nbBlocks
  writer : st'.writer = st.writer
  out : st'.out = st.out
  bw : st'.bw = st.bw
  cache : st'.cache = st.cache

theorem SameG.refl (st : St) : SameG st st := ⟨rfl, rfl, rfl, rfl, rfl, rfl, rfl, rfl, rfl, rfl, rfl, rfl, rfl⟩

theorem GStat.sameG {S : GSess} {st st' : St} (h : GStat S st) (s : SameG st st') : GStat S st' := by
  refine ⟨by rw [s.oti]; exact h.oti, by rw [s.tl]; exact h.tl, by rw [s.cenc]; exact h.cenc, ?_, ?_, by rw [s.cache]; exact h.cacheGen⟩
  · rw [s.nbBlocks]
    intro a
    simpa [Part, s.aLarge, s.aSmall, s.nbALarge, s.nbBlocks] using h.part a
  · rw [s.off, s.blocks]; exact h.room

theorem GInv.sameG {S : GSess} {st st' : St} (h : GInv S st) (s : SameG st st') : GInv S st' := by
  refine ⟨h.toGStat.sameG s, ?_, ?_, ?_⟩
  · rw [s.blocks, s.off]; exact h.blocks
  · rw [s.writer, s.bw, St.written, s.out]; exact h.opened
  · rw [s.writer, St.written, s.out]; exact h.closed

/-- `error()` on a live writer -/
theorem ginv_error {S : GSess} {st : St} (i : Bool) (h : GStat S st) (hl : Live st) : GInv S (error st i) := by
  have hw : (error st i).writer ≠ some .opened ∧ (error st i).writer ≠ some .closed := by
    cases hl with
    | inl hn => simp [hn]
    | inr ho => simp [ho]
  have e1 : (error st i).oti = st.oti := by unfold error; cases st.writer <;> simp
  have e2 : (error st i).tl = st.tl := by unfold error; cases st.writer <;> simp
  have e3 : (error st i).cenc = st.cenc := by unfold error; cases st.writer <;> simp
  have e4 : (error st i).blocks = [] := by unfold error; cases st.writer <;> simp
  have e5 : (error st i).aLarge = st.aLarge ∧ (error st i).aSmall = st.aSmall ∧ (error st i).nbALarge = st.nbALarge ∧
      (error st i).nbBlocks = st.nbBlocks := by unfold error; cases st.writer <;> simp
  refine ⟨⟨by rw [e1]; exact h.oti, by rw [e2]; exact h.tl, by rw [e3]; exact h.cenc, ?_, ?_, by simp⟩, ?_, ?_, ?_⟩
  · rw [e5.2.2.2]
    intro a
    simpa [Part, e5.1, e5.2.1, e5.2.2.1, e5.2.2.2] using h.part a
  · have := h.room; simp only [error_off, e4]; simp; omega
  · rw [e4]; intro i blk hb; simp at hb
  · intro ho; exact absurd ho hw.1
  · intro hc; exact absurd hc hw.2

/-- `complete()`: with no writer, or with the object known to be written entirely -/
theorem ginv_complete {S : GSess} {st : St} (h : GStat S st) (hl : Live st)
    (hx : st.writer = some .opened → st.written = S.T) : GInv S (complete st) := by
  have e1 : (complete st).oti = st.oti := by unfold complete; cases st.writer <;> simp
  have e2 : (complete st).tl = st.tl := by unfold complete; cases st.writer <;> simp
  have e4 : (complete st).blocks = [] := by unfold complete; cases st.writer <;> simp
  have e5 : (complete st).aLarge = st.aLarge ∧ (complete st).aSmall = st.aSmall ∧ (complete st).nbALarge = st.nbALarge ∧
      (complete st).nbBlocks = st.nbBlocks := by unfold complete; cases st.writer <;> simp
  refine ⟨⟨by rw [e1]; exact h.oti, by rw [e2]; exact h.tl, by rw [complete_cenc]; exact h.cenc, ?_, ?_, by simp⟩, ?_, ?_, ?_⟩
  · rw [e5.2.2.2]
    intro a
    simpa [Part, e5.1, e5.2.1, e5.2.2.1, e5.2.2.2] using h.part a
  · have := h.room; simp only [complete_off, e4]; simp; omega
  · rw [e4]; intro i blk hb; simp at hb
  · intro ho
    cases hl with
    | inl hn => simp [hn] at ho
    | inr hop => simp [hop] at ho
  · intro hc
    cases hl with
    | inl hn => simp [hn] at hc
    | inr hop => rw [complete_written]; exact hx hop

theorem GStat.wr {S : GSess} {st st' : St} (h : GStat S st) (w : Wr st st') : GStat S st' := by
  refine ⟨by rw [w.same.oti]; exact h.oti, by rw [w.same.tl]; exact h.tl, by rw [w.same.cenc]; exact h.cenc, ?_, ?_, by rw [w.cache]; exact h.cacheGen⟩
  · rw [w.same.nbBlocks]
    intro a
    simpa [Part, w.same.aLarge, w.same.aSmall, w.same.nbALarge, w.same.nbBlocks] using h.part a
  · rw [w.off, w.same.blocks]; exact h.room

theorem ginv_popBlock {S : GSess} {st : St} (hg : GInv S st) (off : Nat) (blk : Block) (hoff : off < st.blocks.length) :
    GInv S (popBlock st off blk) := by
  unfold popBlock
  dsimp only
  split
  · -- pop_front
    cases hb : st.blocks with
    | nil => simp [hb] at hoff
    | cons b0 rest =>
      refine ⟨⟨hg.oti, hg.tl, hg.cenc, ?_, ?_, hg.cacheGen⟩, ?_, hg.opened, hg.closed⟩
      · exact hg.part
      · have := hg.room; simp [hb] at this ⊢; omega
      · intro i b hi
        simp only [hb, List.tail_cons] at hi
        have := hg.blocks (i + 1) b (by simp [hb, hi])
        have e : st.blocksOffset + 1 + i = st.blocksOffset + (i + 1) := by omega
        simp only []
        rw [e]; exact this
  · -- deallocate
    refine ⟨⟨hg.oti, hg.tl, hg.cenc, ?_, ?_, hg.cacheGen⟩, ?_, hg.opened, hg.closed⟩
    · exact hg.part
    · simpa using hg.room
    · intro i b hi
      simp only [List.getElem?_set] at hi
      split at hi
      · simp at hi; rw [← hi]; exact blockOK_deallocate blk
      · exact hg.blocks i b hi

theorem ginv_writeLoop (P : Params) (S : GSess) (L : S.Laws P.codec) (fuel : Nat) (st : St) (sbn : Nat)
    {st' : St} {b : Bool}
    (hi : Inv st) (ho : st.writer = some .opened) (hj : JInv P st) (hg : GInv S st)
    (h : writeLoop P fuel st sbn = .ok (st', b)) : (b = true → GInv S st') ∧ GStat S st' := by
  induction fuel generalizing st sbn with
  | zero => simp [writeLoop] at h
  | succ n ih =>
    unfold writeLoop at h
    split at h
    · simp at h; obtain ⟨rfl, rfl⟩ := h; exact ⟨fun _ => hg, hg.toGStat⟩
    · rename_i hge
      split at h
      · simp at h; obtain ⟨rfl, rfl⟩ := h; exact ⟨fun _ => hg, hg.toGStat⟩
      · rename_i blk hblk
        split at h
        · simp at h; obtain ⟨rfl, rfl⟩ := h; exact ⟨fun _ => hg, hg.toGStat⟩
        · have jo := hj.opened ho
          obtain ⟨T, C, h1, h2, h3, h4⟩ := jo.ex
          have hTl : T = S.T.length := by
            cases hg.tl with
            | inl x => rw [x] at h1; simp at h1
            | inr x => rw [x] at h1; simpa using h1.symm
          have hC : C = .null := by
            cases hg.cenc with
            | inl x => rw [x] at h2; simp at h2
            | inr x => rw [x] at h2; simpa using h2.symm
          have hT : T ≠ 0 := by
            intro hT
            have hn := (h3 hT).1
            simp [bwWrite, hn] at h
          obtain ⟨w, hbw, b0, c, d, e, ecl⟩ := h4 hT
          have e' := e hC
          have hidx : sbn - st.blocksOffset < st.blocks.length := by
            have := List.getElem?_eq_some_iff.mp hblk
            exact this.1
          have hsbn : sbn < S.n := by have := hg.room; omega
          have hbok : BOK S sbn blk := by
            have := hg.blocks _ _ hblk
            have e0 : st.blocksOffset + (sbn - st.blocksOffset) = sbn := by omega
            rw [e0] at this; exact this
          have hpre := hg.opened ho w hbw
          split at h
          · simp at h
          · rename_i st1 heq
            simp at h; obtain ⟨rfl, rfl⟩ := h
            exact ⟨fun hf => (by cases hf), hg.toGStat.wr (wr_bwWrite _ _ _ _ heq)⟩
          · rename_i st1 heq
            simp at h; obtain ⟨rfl, rfl⟩ := h
            have := (jw_bwWrite _ _ _ _ _ hbw d heq).1 rfl
            rw [this]; exact ⟨fun _ => hg, hg.toGStat⟩
          · rename_i st1 heq
            have hwr := wr_bwWrite _ _ _ _ heq
            have h1' := hi.wr ho hwr
            obtain ⟨hws, data, hsrc, hp⟩ := (jw_bwWrite _ _ _ _ _ hbw d heq).2.2 rfl
            obtain ⟨w', p1, p2, p3, p4, pcl, pnbw, p5, p6, p7⟩ := hp.ex
            have hdata : data = S.D sbn := blockOK_sourceBlock hbok data hsrc
            have hw1 := p7 (b0.trans hC) e'.1
            -- the bytes written so far are the first sbn+1 blocks
            have hwritten : st1.written = S.pre (sbn + 1) := by
              rw [hw1.1, hpre.1, hws, L.preS sbn hsbn, hdata]
              congr 2
              have := e'.2
              rw [hpre.1, hws] at this
              omega
            have hg1 : GInv S st1 := by
              refine ⟨hg.toGStat.wr hwr, ?_, ?_, ?_⟩
              · rw [hwr.same.blocks, hwr.off]; exact hg.blocks
              · intro _ w2 hw2
                have : w2 = w' := by rw [p1] at hw2; simpa using hw2.symm
                subst this
                rw [p3, hws]; exact ⟨hwritten, hsbn⟩
              · intro hc; rw [h1'.2] at hc; simp at hc
            split at h
            · simp at h
            · split at h
              · simp at h
              · split at h
                · simp at h
                · rename_i w2 hw2
                  have : w2 = w' := by rw [p1] at hw2; simpa using hw2.symm
                  subst this
                  have hpb := inv_popBlock h1'.1 (by simp [p1]) (sbn - st.blocksOffset) blk
                  have sj := sameJ_popBlock st1 (sbn - st.blocksOffset) blk
                  have hg2 := ginv_popBlock hg1 (sbn - st.blocksOffset) blk (by rw [hwr.same.blocks]; exact hidx)
                  have ho2 := hpb.2.trans h1'.2
                  split at h
                  · rename_i hz
                    simp at h; obtain ⟨rfl, rfl⟩ := h
                    -- everything is written
                    have hall : (popBlock st1 (sbn - st.blocksOffset) blk).written = S.T := by
                      rw [St.written, sj.out, ← St.written, hwritten]
                      apply (L.pre_prefix (sbn + 1) hsbn).eq_of_length
                      have hl : st1.written.length + w2.bytesLeft = T := by
                        rw [hw1.1, List.length_append, p4]
                        have := trimTo_length_le w.bytesLeft data
                        have := e'.2
                        omega
                      rw [hwritten, hz, hTl] at hl
                      omega
                    have : GInv S (finishObject (popBlock st1 (sbn - st.blocksOffset) blk) w2) := by
                      unfold finishObject
                      split
                      · exact ginv_error _ hg2.toGStat (Or.inr ho2)
                      · split
                        · exact ginv_complete hg2.toGStat (Or.inr ho2) (fun _ => hall)
                        · exact ginv_error _ hg2.toGStat (Or.inr ho2)
                    exact ⟨fun _ => this, this.toGStat⟩
                  · rename_i hnz
                    have jo1 : JOpen st1 := by
                      refine ⟨hp.nc, T, C, hp.same.tl.trans h1, hp.same.cenc.trans h2, fun hT0 => absurd hT0 hT, fun _ => ?_⟩
                      refine ⟨w2, p1, p2.trans b0, hnz, p5 hnz, fun _ => ?_, by rw [pcl, ecl, hp.same.cl]⟩
                      refine ⟨hw1.2, ?_⟩
                      rw [hw1.1, List.length_append, p4]
                      have := trimTo_length_le w.bytesLeft data
                      have := e'.2
                      omega
                    have jinv1 : JInv P st1 := by
                      refine ⟨?_, fun _ => jo1, ?_, ?_⟩ <;> simp [h1'.2]
                    exact ih _ _ hpb.1 ho2 (jinv1.sameJ sj) hg2 h

theorem ginv_writeBlocks (P : Params) (S : GSess) (L : S.Laws P.codec) (st : St) (sbn : Nat) {st' : St} {b : Bool}
    (hi : Inv st) (hj : JInv P st) (hg : GInv S st) (h : writeBlocks P st sbn = .ok (st', b)) :
    (b = true → GInv S st') ∧ GStat S st' := by
  unfold writeBlocks at h
  split at h
  · simp at h; obtain ⟨rfl, rfl⟩ := h; exact ⟨fun _ => hg, hg.toGStat⟩
  · rename_i ws hws
    split at h
    · simp at h; obtain ⟨rfl, rfl⟩ := h; exact ⟨fun _ => hg, hg.toGStat⟩
    · rename_i hne
      have ho : st.writer = some .opened := by
        rw [hws]; cases ws <;> simp_all
      split at h
      · simp at h; obtain ⟨rfl, rfl⟩ := h; exact ⟨fun _ => hg, hg.toGStat⟩
      · exact ginv_writeLoop _ _ L _ _ _ hi ho hj hg h

theorem sameG_setError (st : St) : SameG st { st with state := .error } := ⟨rfl, rfl, rfl, rfl, rfl, rfl, rfl, rfl, rfl, rfl, rfl, rfl, rfl⟩

theorem sameG_allocBlock (P : Params) (st : St) (o : Oti) (tl : Nat) (pid : PayloadId) (blk : Block)
    {st' : St} {r : Option Block} (h : allocBlock P st o tl pid blk = .ok (st', r)) : SameG st st' := by
  unfold allocBlock at h
  split at h
  · simp at h; rw [← h.1]; exact SameG.refl _
  · dsimp only at h
    split at h
    · simp at h
    · split at h
      · simp at h
      · split at h
        · simp at h; rw [← h.1]; exact ⟨rfl, rfl, rfl, rfl, rfl, rfl, rfl, rfl, rfl, rfl, rfl, rfl, rfl⟩
        · split at h
          · simp at h; rw [← h.1]; exact ⟨rfl, rfl, rfl, rfl, rfl, rfl, rfl, rfl, rfl, rfl, rfl, rfl, rfl⟩
          · split at h
            · simp at h
            · simp at h; rw [← h.1]; exact ⟨rfl, rfl, rfl, rfl, rfl, rfl, rfl, rfl, rfl, rfl, rfl, rfl, rfl⟩

/-- the block returned by the allocation step only ever saw genuine symbols -/
theorem bok_allocBlock (P : Params) (S : GSess) (L : S.Laws P.codec) (st : St) (tl : Nat) (pid : PayloadId) (blk : Block)
    {st' : St} {b : Block} (hpart : Part S st) (hsbn : pid.sbn < S.n)
    (hsbl : pid.sbl = none ∨ pid.sbl = some (S.K pid.sbn)) (hb : BOK S pid.sbn blk)
    (h : allocBlock P st S.o tl pid blk = .ok (st', some b)) : BOK S pid.sbn b := by
  have hk : sblOf st pid = S.K pid.sbn := by
    unfold sblOf
    cases hsbl with
    | inl hn => rw [hn]; simp only; rw [hpart.1, hpart.2.1, hpart.2.2.1]; exact L.kRecv _ hsbn
    | inr hs => rw [hs]
  unfold allocBlock at h
  split at h
  · simp at h; rw [← h.2]; exact hb
  · dsimp only at h
    rw [hk] at h
    split at h
    · simp at h
    · split at h
      · simp at h
      · split at h
        · simp at h
        · split at h
          · simp at h
          · rename_i b1 hinit
            split at h
            · simp at h
            · simp at h; rw [← h.2]
              exact blockOK_init P.codec S.o _ blk b1 (fun hs => L.dSrc hs _ hsbn) hb hinit

theorem sameG_growBlocks_fields (st : St) (off : Nat) :
    (growBlocks st off).oti = st.oti ∧ (growBlocks st off).tl = st.tl ∧ (growBlocks st off).cenc = st.cenc ∧
    (growBlocks st off).blocksOffset = st.blocksOffset ∧ (growBlocks st off).aLarge = st.aLarge ∧
    (growBlocks st off).aSmall = st.aSmall ∧ (growBlocks st off).nbALarge = st.nbALarge ∧
    (growBlocks st off).nbBlocks = st.nbBlocks ∧ (growBlocks st off).writer = st.writer ∧
    (growBlocks st off).out = st.out ∧ (growBlocks st off).bw = st.bw ∧ (growBlocks st off).cache = st.cache := by
  unfold growBlocks; split <;> simp

theorem ginv_growBlocks {S : GSess} {st : St} (hg : GInv S st) (off : Nat) (hroom : st.blocksOffset + off < S.n) :
    GInv S (growBlocks st off) ∧ off < (growBlocks st off).blocks.length := by
  have f := sameG_growBlocks_fields st off
  unfold growBlocks at f ⊢
  split
  · rename_i hle
    refine ⟨⟨⟨hg.oti, hg.tl, hg.cenc, hg.part, ?_, hg.cacheGen⟩, ?_, hg.opened, hg.closed⟩, ?_⟩
    · simp; omega
    · intro i blk hi
      simp only [List.getElem?_append] at hi
      split at hi
      · exact hg.blocks i blk hi
      · rw [List.getElem?_replicate] at hi
        split at hi
        · simp at hi; rw [← hi]; exact blockOK_fresh _ _ _ _ _ _
        · simp at hi
    · simp; omega
  · rename_i hle
    exact ⟨hg, by omega⟩

theorem ginv_setBlock {S : GSess} {st : St} (hg : GInv S st) (off : Nat) (b : Block)
    (hb : BOK S (st.blocksOffset + off) b) : GInv S { st with blocks := st.blocks.set off b } := by
  refine ⟨⟨hg.oti, hg.tl, hg.cenc, hg.part, by simpa using hg.room, hg.cacheGen⟩, ?_, hg.opened, hg.closed⟩
  intro i blk hi
  simp only [List.getElem?_set] at hi
  split at hi
  · rename_i he
    split at hi
    · simp at hi; rw [← hi, ← he]; exact hb
    · simp at hi
  · exact hg.blocks i blk hi

theorem ginv_pushToBlock2 (P : Params) (S : GSess) (L : S.Laws P.codec) (st : St) (p : Pkt) {st' : St} {b : Bool}
    (hi : Inv st) (hl : Live st) (hj : JInv P st) (hg : GInv S st) (hp : GenPkt S p)
    (h : pushToBlock2 P st p = .ok (st', b)) : (b = true → GInv S st') ∧ GStat S st' := by
  obtain ⟨_, _, pid, hparse, hgen⟩ := hp
  have ho : st.oti = some S.o := by
    cases hg.oti with
    | inl hn => simp [pushToBlock2, hn] at h
    | inr hs => exact hs
  have htl : st.tl = some S.T.length := by
    cases hg.tl with
    | inl hn => simp [pushToBlock2, ho, hn] at h
    | inr hs => exact hs
  unfold pushToBlock2 at h
  split at h
  rotate_left
  · simp at h
  rename_i o tl ho' htl'
  have eo : o = S.o := by rw [ho] at ho'; simpa using ho'.symm
  have et : tl = S.T.length := by rw [htl] at htl'; simpa using htl'.symm
  subst eo; subst et
  rw [hparse] at h
  dsimp only at h
  split at h
  · rename_i hz
    split at h
    · simp at h
    · simp at h; obtain ⟨rfl, rfl⟩ := h
      have : GInv S (if st.writer.isSome = true then (if emptyMd5Valid P st = true then complete st else error st false) else st) := by
        split
        · split
          · apply ginv_complete hg.toGStat hl
            intro hop
            obtain ⟨T, C, h1, h2, h3, _⟩ := (hj.opened hop).ex
            have hT : T = 0 := by rw [htl] at h1; simp at h1; omega
            rw [(h3 hT).2]
            exact (List.eq_nil_of_length_eq_zero hz).symm
          · exact ginv_error _ hg.toGStat hl
        · exact hg
      exact ⟨fun _ => this, this.toGStat⟩
  · rename_i hnz
    obtain ⟨hsbn, hpay, hsbl⟩ := hgen hnz
    split at h
    · simp at h; obtain ⟨rfl, rfl⟩ := h; exact ⟨fun _ => hg, hg.toGStat⟩
    · rename_i hnb
      have hpart : Part S st := hg.part (by omega)
      split at h
      · simp at h; obtain ⟨rfl, rfl⟩ := h; exact ⟨fun _ => hg, hg.toGStat⟩
      · rename_i hge
        split at h
        · simp at h; obtain ⟨rfl, rfl⟩ := h
          exact ⟨fun hf => (by cases hf), hg.toGStat.sameG (sameG_setError _)⟩
        · have e0 : st.blocksOffset + (pid.sbn - st.blocksOffset) = pid.sbn := by omega
          have hgr := ginv_growBlocks hg (pid.sbn - st.blocksOffset) (by omega)
          have fgr := sameG_growBlocks_fields st (pid.sbn - st.blocksOffset)
          have q0 := quietJ_growBlocks st (pid.sbn - st.blocksOffset)
          split at h
          · simp at h
          · rename_i blk hblk
            have hbok : BOK S pid.sbn blk := by
              have := hgr.1.blocks _ _ hblk
              rw [fgr.2.2.2.1, e0] at this; exact this
            split at h
            · simp at h; obtain ⟨rfl, rfl⟩ := h; exact ⟨fun _ => hgr.1, hgr.1.toGStat⟩
            · have hpartg : Part S (growBlocks st (pid.sbn - st.blocksOffset)) := by
                unfold Part
                rw [fgr.2.2.2.2.1, fgr.2.2.2.2.2.1, fgr.2.2.2.2.2.2.1, fgr.2.2.2.2.2.2.2.1]
                exact hpart
              split at h
              · simp at h
              · rename_i st1 heq
                simp at h; obtain ⟨rfl, rfl⟩ := h
                exact ⟨fun hf => (by cases hf), hgr.1.toGStat.sameG (sameG_allocBlock _ _ _ _ _ _ heq)⟩
              · rename_i st1 b1 heq
                have sg1 := sameG_allocBlock _ _ _ _ _ _ heq
                have hg1 : GInv S st1 := hgr.1.sameG sg1
                have hb1 : BOK S pid.sbn b1 := bok_allocBlock P S L _ _ pid blk hpartg hsbn hsbl hbok heq
                have q1 := q0.trans (quietJ_allocBlock _ _ _ _ _ _ heq)
                split at h
                · simp at h
                · rename_i b2 hpush
                  rw [hpay] at hpush
                  have hb2 : BOK S pid.sbn b2 := blockOK_push P.codec (L.codec _ hsbn) b1 b2 pid.esi hb1 hpush
                  have hoff1 : st1.blocksOffset = st.blocksOffset := sg1.off.trans fgr.2.2.2.1
                  have hg2 : GInv S { st1 with blocks := st1.blocks.set (pid.sbn - st.blocksOffset) b2 } :=
                    ginv_setBlock hg1 _ b2 (by rw [hoff1, e0]; exact hb2)
                  have q2 : QuietJ st { st1 with blocks := st1.blocks.set (pid.sbn - st.blocksOffset) b2 } :=
                    q1.trans ⟨⟨rfl, rfl, rfl, rfl, rfl, rfl, .inl rfl, rfl, rfl, rfl⟩, ⟨rfl, rfl, rfl, rfl, rfl, rfl, rfl, rfl⟩⟩
                  split at h
                  · exact ginv_writeBlocks _ _ L _ _ (hi.quiet q2.q) (hj.sameJ q2.j) hg2 h
                  · simp at h; obtain ⟨rfl, rfl⟩ := h
                    exact ⟨fun _ => hg2, hg2.toGStat⟩

theorem ginv_pushToBlock (P : Params) (S : GSess) (L : S.Laws P.codec) (st : St) (p : Pkt) {st' : St} {b : Bool}
    (hi : Inv st) (hl : Live st) (hj : JInv P st) (hg : GInv S st) (hp : GenPkt S p)
    (h : pushToBlock P st p = .ok (st', b)) : (b = true → GInv S st') ∧ GStat S st' := by
  unfold pushToBlock at h
  split at h
  · simp at h
  · rename_i heq
    simp at h; obtain ⟨rfl, rfl⟩ := h
    exact ginv_pushToBlock2 _ _ L _ _ hi hl hj hg hp heq
  · rename_i heq
    have h1 := inv_pushToBlock2 _ _ _ hi hl heq
    have g1 := (ginv_pushToBlock2 _ _ L _ _ hi hl hj hg hp heq).1 rfl
    split at h
    · rename_i hc
      simp at h; obtain ⟨rfl, rfl⟩ := h
      have := ginv_error (S := S) true g1.toGStat (h1.1.live_of_receiving hc.2)
      exact ⟨fun _ => this, this.toGStat⟩
    · simp at h; obtain ⟨rfl, rfl⟩ := h
      exact ⟨fun _ => g1, g1.toGStat⟩

theorem ginv_cacheLoop (P : Params) (S : GSess) (L : S.Laws P.codec) (fuel : Nat) (st : St) {st' : St}
    (hi : Inv st) (hj : JInv P st) (hg : GInv S st) (h : cacheLoop P fuel st = .ok st') : GInv S st' := by
  induction fuel generalizing st with
  | zero => simp [cacheLoop] at h; rw [← h]; exact hg
  | succ n ih =>
    unfold cacheLoop at h
    split at h
    · simp at h; rw [← h]; exact hg
    · rename_i pk rest hc
      have hl : Live st := hi.live_of_cache (by simp [hc])
      have hi2 : Inv { st with cache := rest } := by
        refine ⟨hi.noIdle, hi.ps, ?_, hi.bwOff, hi.fdt⟩
        intro t
        have := hi.term t
        simp [hc] at this
      have hl2 : Live { st with cache := rest } := hl
      have hj2 : JInv P { st with cache := rest } := hj.sameJ ⟨rfl, rfl, rfl, rfl, rfl, rfl, rfl, rfl⟩
      have hg2 : GInv S { st with cache := rest } := by
        refine ⟨⟨hg.oti, hg.tl, hg.cenc, hg.part, hg.room, ?_⟩, hg.blocks, hg.opened, hg.closed⟩
        intro q hq; exact hg.cacheGen q (by rw [hc]; simp [hq])
      have hpk : GenPkt S pk := hg.cacheGen pk (by rw [hc]; simp)
      split at h
      · simp at h
      · rename_i heq
        simp at h; rw [← h]
        have i1 := inv_pushToBlock _ _ _ hi2 hl2 heq
        exact ginv_error _ (ginv_pushToBlock _ _ L _ _ hi2 hl2 hj2 hg2 hpk heq).2 (i1.2 rfl)
      · rename_i heq
        have i1 := inv_pushToBlock _ _ _ hi2 hl2 heq
        have j1 := (jinv_pushToBlock _ _ _ hi2 hl2 hj2 heq).1 rfl
        exact ih _ i1.1 j1 ((ginv_pushToBlock _ _ L _ _ hi2 hl2 hj2 hg2 hpk heq).1 rfl) h

theorem ginv_pushFromCache (P : Params) (S : GSess) (L : S.Laws P.codec) (st : St) {st' : St}
    (hi : Inv st) (hj : JInv P st) (hg : GInv S st) (h : pushFromCache P st = .ok st') : GInv S st' := by
  unfold pushFromCache at h
  split at h
  · simp at h; rw [← h]; exact hg
  · split at h
    · simp at h
    · rename_i heq
      simp at h; rw [← h]
      exact (ginv_cacheLoop _ _ L _ _ hi hj hg heq).sameG ⟨rfl, rfl, rfl, rfl, rfl, rfl, rfl, rfl, rfl, rfl, rfl, rfl, rfl⟩

/-- `init_blocks_partitioning` with the sender's OTI and transfer length computes the sender's partition -/
theorem ginv_initBlocksPartitioning {c : Codec} (S : GSess) (L : S.Laws c) (st : St) {st' : St}
    (hg : GInv S st) (h : initBlocksPartitioning st = .ok st') : GInv S st' := by
  unfold initBlocksPartitioning at h
  split at h
  · simp at h; rw [← h]; exact hg
  · rename_i hnb
    have hz : st.blocksOffset = 0 ∧ st.blocks = [] := by
      simp [St.nbBlock] at hnb
      exact ⟨hnb.1, hnb.2⟩
    split at h
    · rename_i o tl ho htl
      have eo : o = S.o := by
        cases hg.oti with
        | inl x => rw [x] at ho; simp at ho
        | inr x => rw [x] at ho; simpa using ho.symm
      have et : tl = S.T.length := by
        cases hg.tl with
        | inl x => rw [x] at htl; simp at htl
        | inr x => rw [x] at htl; simpa using htl.symm
      subst eo; subst et
      rw [L.quad] at h
      simp [liftRs] at h
      subst h
      refine ⟨⟨hg.oti, hg.tl, hg.cenc, fun _ => ⟨rfl, rfl, rfl, rfl⟩, ?_, hg.cacheGen⟩, ?_, ?_, hg.closed⟩
      · simp [hz.1]; omega
      · intro i blk hi
        simp only [List.getElem?_replicate] at hi
        split at hi
        · simp at hi; rw [← hi]; exact blockOK_fresh _ _ _ _ _ _
        · simp at hi
      · exact hg.opened
    · simp at h; rw [← h]; exact hg

theorem ginv_error0 {S : GSess} {st : St} (i : Bool) (h : GStat S st) : GInv S (error st i) := by
  cases hx : st.writer with
  | none => exact ginv_error i h (Or.inl hx)
  | some ws =>
    -- the writer field is overwritten with `error` whatever it was
    have key : GInv S (error { st with writer := some .opened } i) :=
      ginv_error (st := { st with writer := some .opened }) i
        ⟨h.oti, h.tl, h.cenc, h.part, h.room, h.cacheGen⟩ (Or.inr rfl)
    have e : error st i = { error { st with writer := some .opened } i with out := (error st i).out } := by
      unfold error; simp [hx]
    rw [e]
    refine ⟨⟨key.oti, key.tl, key.cenc, key.part, key.room, key.cacheGen⟩, key.blocks, ?_, ?_⟩
    · intro ho; simp at ho
    · intro hc; simp at hc

theorem ginv_setFromPkt {S : GSess} (st : St) (p : Pkt) (hg : GInv S st) (hp : GenPkt S p) :
    GInv S (setOtiFromPkt (setCencFromPkt st p) p) := by
  obtain ⟨hfti, hcenc, _⟩ := hp
  have g1 : GInv S (setCencFromPkt st p) := by
    unfold setCencFromPkt
    split
    · exact hg
    · refine ⟨⟨hg.oti, hg.tl, ?_, hg.part, hg.room, hg.cacheGen⟩, hg.blocks, hg.opened, hg.closed⟩
      exact hcenc
  unfold setOtiFromPkt
  split
  · exact g1
  · split
    · exact g1
    · rename_i o tl hf
      have : o = S.o ∧ tl = S.T.length := by
        cases hfti with
        | inl x => rw [x] at hf; simp at hf
        | inr x => rw [x] at hf; simp at hf; exact ⟨hf.1.symm, hf.2.symm⟩
      obtain ⟨rfl, rfl⟩ := this
      refine ⟨⟨.inr rfl, ?_, g1.cenc, g1.part, g1.room, g1.cacheGen⟩, g1.blocks, g1.opened, g1.closed⟩
      simp only
      split
      · exact .inr rfl
      · exact g1.tl

theorem ginv_cachePkt {S : GSess} (st : St) (p : Pkt) (hg : GInv S st) (hp : GenPkt S p) : GInv S (cachePkt st p).1 := by
  unfold cachePkt
  split
  · exact hg
  · split
    · exact hg
    · refine ⟨⟨hg.oti, hg.tl, hg.cenc, hg.part, hg.room, ?_⟩, hg.blocks, hg.opened, hg.closed⟩
      intro q hq
      simp at hq
      cases hq with
      | inl x => rw [x]; exact hp
      | inr x => exact hg.cacheGen q x

theorem ginv_openWriter {P : Params} {S : GSess} (L : S.Laws P.codec) (pl : Plan) (st : St) (tl : Nat) (cenc : Cenc) {st' : St}
    (hw : st.writer = none) (hj : JInv P st) (hg : GInv S st)
    (h : openWriter pl st tl cenc = .ok st') : GInv S st' := by
  have h0 := hj.none_ hw
  unfold openWriter at h
  dsimp only at h
  split at h
  · simp at h
  · rename_i hbw
    have hbw0 : st.bw = none := by
      cases hb : st.bw with
      | none => rfl
      | some x => simp [hb] at hbw
    split at h
    · simp at h; subst h
      exact ginv_error0 false ⟨hg.oti, hg.tl, hg.cenc, hg.part, hg.room, hg.cacheGen⟩
    · simp at h; subst h
      refine ⟨⟨hg.oti, hg.tl, hg.cenc, hg.part, hg.room, hg.cacheGen⟩, hg.blocks, ?_, ?_⟩
      · intro _ w hwb
        have hwr : writtenOf st.out = [] := h0.1
        simp only at hwb
        split at hwb
        · rw [hbw0] at hwb; simp at hwb
        · simp at hwb; rw [← hwb]
          simp [BW.new, St.written, writtenOf, hwr, L.pre0]
      · intro hc; simp at hc

theorem ginv_initObjectWriter (P : Params) (S : GSess) (L : S.Laws P.codec) (st : St) {st' : St}
    (hj : JInv P st) (hg : GInv S st) (h : initObjectWriter P st = .ok st') : GInv S st' := by
  unfold initObjectWriter at h
  split at h
  · simp at h; rw [← h]; exact hg
  · rename_i hws
    have hw : st.writer = none := by
      cases hx : st.writer <;> simp_all
    have h0 := hj.none_ hw
    split at h
    · rename_i fid cenc tl o hfid hcenc htl ho
      dsimp only at h
      have hj2 : JInv P ({ st with wIdx := st.nBuilder, nBuilder := st.nBuilder + 1, out := WCall.new st.meta (P.env.plan st.nBuilder).ans :: st.out } : St) := by
        refine ⟨fun _ => ⟨?_, ?_⟩, ?_, ?_, ?_⟩ <;> simp [hw]
        · simpa [St.written, writtenOf] using h0.1
        · simpa [noComplete] using h0.2
      have hg2 : GInv S ({ st with wIdx := st.nBuilder, nBuilder := st.nBuilder + 1, out := WCall.new st.meta (P.env.plan st.nBuilder).ans :: st.out } : St) := by
        refine ⟨⟨hg.oti, hg.tl, hg.cenc, hg.part, hg.room, hg.cacheGen⟩, hg.blocks, ?_, ?_⟩
        · intro ho; simp [hw] at ho
        · intro hc; simp [hw] at hc
      split at h
      · simp at h; subst h
        exact hg2.sameG ⟨rfl, rfl, rfl, rfl, rfl, rfl, rfl, rfl, rfl, rfl, rfl, rfl, rfl⟩
      · simp at h; subst h
        exact hg2.sameG ⟨rfl, rfl, rfl, rfl, rfl, rfl, rfl, rfl, rfl, rfl, rfl, rfl, rfl⟩
      · exact ginv_openWriter L _ _ _ _ (by exact hw) hj2 hg2 h
    · simp at h; rw [← h]; exact hg

theorem ginv_push (P : Params) (S : GSess) (L : S.Laws P.codec) (st : St) (p : Pkt) {st' : St}
    (hi : Inv st) (hj : JInv P st) (hg : GInv S st) (hp : GenPkt S p)
    (h : push P st p = .ok st') : GInv S st' := by
  unfold push at h
  split at h
  · simp at h; rw [← h]; exact hg
  · rename_i hrec
    have hl0 : Live st := hi.live_of_receiving (by simpa using hrec)
    split at h
    · simp at h
    · rename_i st1 h1
      have q01 := (quiet_setCencFromPkt st p).trans (quiet_setOtiFromPkt _ p)
      have i1 := (inv_initBlocksPartitioning _ (hi.quiet q01) h1).1
      have j1 : JInv P st1 := (jinv_setFromPkt st p hl0 hj).sameJ (sameJ_initBlocksPartitioning _ h1)
      have g1 : GInv S st1 := ginv_initBlocksPartitioning S L _ (ginv_setFromPkt st p hg hp) h1
      split at h
      · simp at h
      · rename_i st2 h2
        have i2 := inv_initObjectWriter _ _ i1 h2
        have j2 := jinv_initObjectWriter _ _ j1 h2
        have g2 := ginv_initObjectWriter _ _ L _ j1 g1 h2
        split at h
        · simp at h
        · rename_i st3 h3
          have i3 := inv_pushFromCache _ _ i2 h3
          have j3 := jinv_pushFromCache _ _ i2 j2 h3
          have g3 := ginv_pushFromCache _ _ L _ i2 j2 g2 h3
          split at h
          · simp at h; rw [← h]; exact g3
          · rename_i hr
            have hl : Live st3 := i3.live_of_receiving (by simpa using hr)
            split at h
            · have hc := inv_cachePkt st3 p i3 hl
              have gc := ginv_cachePkt st3 p g3 hp
              split at h
              · rename_i heq
                simp at h; rw [← h]
                rw [heq] at gc; exact gc
              · rename_i heq
                simp at h; rw [← h]
                rw [heq] at gc hc
                exact ginv_error _ gc.toGStat hc.2
            · split at h
              · simp at h
              · rename_i heq
                simp at h; rw [← h]
                exact (ginv_pushToBlock _ _ L _ _ i3 hl j3 g3 hp heq).1 rfl
              · rename_i heq
                simp at h; rw [← h]
                have := inv_pushToBlock _ _ _ i3 hl heq
                exact ginv_error _ (ginv_pushToBlock _ _ L _ _ i3 hl j3 g3 hp heq).2 (this.2 rfl)

theorem ginv_attachMeta {S : GSess} (st : St) (fdtId : Nat) (f : FileEntry) {st' : St}
    (hw : st.writer = none) (hg : GInv S st) (hf : GenFile S f) (h : attachMeta st fdtId f = .ok st') : GInv S st' := by
  obtain ⟨f1, f2, f3⟩ := hf
  unfold attachMeta at h
  dsimp only at h
  split at h
  · simp at h
  · simp at h; subst h
    refine ⟨⟨?_, ?_, ?_, hg.part, hg.room, hg.cacheGen⟩, hg.blocks, ?_, ?_⟩
    · simp only; split
      · exact f1
      · exact hg.oti
    · simp only; split
      · rw [f2]; exact .inr rfl
      · exact hg.tl
    · simp only; split
      · rw [f3]; exact .inr rfl
      · exact hg.cenc
    · intro ho; simp [hw] at ho
    · intro hc; simp [hw] at hc

theorem ginv_attachFdtOld (P : Params) (S : GSess) (L : S.Laws P.codec) (st : St) (fdtId : Nat) (file : Option FileEntry)
    {st' : St} {b : Bool}
    (hi : Inv st) (hj : JInv P st) (hg : GInv S st) (hf : GenOp S (.attach fdtId file))
    (h : attachFdtOld P st fdtId file = .ok (st', b)) : GInv S st' := by
  unfold attachFdtOld attachCore at h
  split at h
  · simp at h; rw [← h.1]; exact hg
  · rename_i hfd
    have hw : st.writer = none := by
      cases hx : st.writer with
      | none => rfl
      | some ws =>
        have := hi.fdt (by simp [hx])
        cases hy : st.fdtId <;> simp_all
    split at h
    · simp at h; rw [← h.1]; exact hg
    · rename_i f
      have hgf : GenFile S f := hf
      split at h
      · simp at h
      · rename_i st1 h1
        have i1 := inv_attachMeta _ _ _ hi h1
        have j1 := (jinv_attachMeta _ _ _ hw hj h1).1
        have g1 := ginv_attachMeta _ _ _ hw hg hgf h1
        split at h
        · simp at h
        · rename_i st2 h2
          have i2 := (inv_initBlocksPartitioning _ i1 h2).1
          have j2 : JInv P st2 := j1.sameJ (sameJ_initBlocksPartitioning _ h2)
          have g2 := ginv_initBlocksPartitioning S L _ g1 h2
          split at h
          · simp at h
          · rename_i st3 h3
            have i3 := inv_initObjectWriter _ _ i2 h3
            have j3 := jinv_initObjectWriter _ _ j2 h3
            have g3 := ginv_initObjectWriter _ _ L _ j2 g2 h3
            split at h
            · simp at h
            · rename_i st4 h4
              have i4 := inv_pushFromCache _ _ i3 h4
              have j4 := jinv_pushFromCache _ _ i3 j3 h4
              have g4 := ginv_pushFromCache _ _ L _ i3 j3 g3 h4
              split at h
              · simp at h
              · rename_i st5 ok h5
                have i5 := inv_writeBlocks _ _ _ i4 h5
                have j5 := jinv_writeBlocks _ _ _ i4 j4 h5
                have g5 := ginv_writeBlocks _ _ L _ _ i4 j4 g4 h5
                have i6 : Inv (if ok = true then st5 else error st5 false) := by
                  cases ok
                  · simpa using inv_error false i5.1 (Or.inr (i5.2.1 rfl))
                  · simpa using i5.1
                have j6 : JInv P (if ok = true then st5 else error st5 false) := by
                  cases ok
                  · simpa using jinv_error' (P := P) false (j5.2 rfl) (Or.inr (i5.2.1 rfl))
                  · simpa using j5.1 rfl
                have g6 : GInv S (if ok = true then st5 else error st5 false) := by
                  cases ok
                  · simpa using ginv_error (S := S) false g5.2 (Or.inr (i5.2.1 rfl))
                  · simpa using g5.1 rfl
                split at h
                · simp at h
                · rename_i st6 h6
                  simp at h; rw [← h.1]
                  exact ginv_pushFromCache _ _ L _ i6 j6 g6 h6


theorem ginv_reset {S : GSess} {st : St} (hg : GInv S st) (hw : st.writer = none) : GInv S (resetOti st) := by
  refine ⟨⟨.inl rfl, .inl rfl, hg.cenc, fun h => absurd rfl h, by simp [resetOti], hg.cacheGen⟩, ?_, ?_, ?_⟩
  · intro i blk h; simp [resetOti] at h
  · intro h; simp [resetOti, hw] at h
  · intro h; simp [resetOti, hw] at h

theorem ginv_attachFdt (P : Params) (S : GSess) (L : S.Laws P.codec) (st : St) (fdtId : Nat) (file : Option FileEntry)
    {st' : St} {b : Bool}
    (hi : Inv st) (hj : JInv P st) (hg : GInv S st) (hf : GenOp S (.attach fdtId file))
    (h : attachFdt P st fdtId file = .ok (st', b)) : GInv S st' := by
  rcases attachFdt_cases h with h0 | ⟨f, rfl, hw, _, h1⟩
  · exact ginv_attachFdtOld P S L st fdtId file hi hj hg hf h0
  · exact ginv_attachFdtOld P S L (resetOti st) fdtId _ (inv_reset hi) (jinv_reset hj hw) (ginv_reset hg hw) hf h1

theorem ginv_run (P : Params) (S : GSess) (L : S.Laws P.codec) (st : St) (ops : List Op) {st' : St}
    (hi : Inv st) (hj : JInv P st) (hg : GInv S st) (hops : ∀ op ∈ ops, GenOp S op)
    (h : run P st ops = .ok st') : GInv S st' := by
  induction ops generalizing st with
  | nil => simp [run] at h; rw [← h]; exact hg
  | cons op r ih =>
    simp only [run] at h
    split at h
    · simp at h
    · rename_i st1 heq
      have hop : GenOp S op := hops op (by simp)
      have i1 := inv_step _ _ _ hi heq
      have j1 : JInv P st1 := jinv_run P st [op] hi hj (by simp [run, heq])
      refine ih _ i1 j1 ?_ (fun o ho => hops o (by simp [ho])) h
      cases op with
      | push p => exact ginv_push _ _ L _ _ hi hj hg hop heq
      | attach id f =>
        simp only [step] at heq
        split at heq
        · simp at heq
        · rename_i heq2
          simp at heq; rw [← heq]
          exact ginv_attachFdt _ _ L _ _ _ hi hj hg hop heq2

/-- after Drop the genuine-history invariant still holds -/
theorem ginv_drop {S : GSess} (st : St) (hi : Inv st) (hg : GInv S st) : GInv S (drop st) := by
  unfold drop
  split
  · rename_i hw; exact ginv_error _ hg.toGStat (Or.inr hw)
  · rename_i hw; exact absurd hw hi.noIdle
  · exact hg

end Flute.ObjRecv
