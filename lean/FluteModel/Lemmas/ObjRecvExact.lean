import FluteModel.Lemmas.ObjRecvWritten
import FluteModel.Lemmas.DecExact
/-
  Third invariant (R invariant (1)-(3) of DESIGN §9), for histories of GENUINE packets of one object:
  known OTI / transfer length / cenc are the sender's, every decoder only ever saw genuine symbols, the bytes handed to the
  writer are the first `w.sbn` blocks of the object.
-/
namespace Flute.ObjRecv
open Flute Flute.FecDec Flute.Spec

/-- one object as the sender transmits it -/
structure GSess where
  /-- the transfer-encoded object -/
  T : Bytes
  o : Oti
  aL : Nat
  aS : Nat
  nL : Nat
  /-- number of source blocks -/
  n : Nat
  /-- source symbols of block sbn -/
  K : Nat → Nat
  /-- the encoding symbol (sbn, esi) the sender emits -/
  sym : Nat → Nat → Bytes
  /-- what a correct decoder returns for block sbn -/
  D : Nat → Bytes
  /-- the first sbn blocks of `T` -/
  pre : Nat → Bytes

structure GSess.Laws (c : Codec) (S : GSess) : Prop where
  quad : Partition.blockPartitioning S.o.b S.T.length S.o.e = .ok (S.aL, S.aS, S.nL, S.n)
  kRecv : ∀ sbn, sbn < S.n → (if sbn < S.nL % U32 then S.aL % U32 else S.aS % U32) = S.K sbn
  dSrc : (S.o.scheme = .noCode ∨ S.o.scheme = .rs28 ∨ S.o.scheme = .rs28us) →
          ∀ sbn, sbn < S.n → S.D sbn = genuineConcat (S.sym sbn) 0 (S.K sbn)
  codec : ∀ sbn, sbn < S.n → CodecOK c (S.sym sbn) (S.K sbn) S.o.e sbn (S.D sbn)
  pre0 : S.pre 0 = []
  preS : ∀ sbn, sbn < S.n → S.pre (sbn + 1) = S.pre sbn ++ trimTo (S.T.length - (S.pre sbn).length) (S.D sbn)
  preN : S.pre S.n = S.T
  zero : S.T.length = 0 → S.n = 0

theorem GSess.Laws.pre_prefix {c : Codec} {S : GSess} (L : S.Laws c) (i : Nat) (hi : i ≤ S.n) : S.pre i <+: S.T := by
  have key : ∀ d, i + d = S.n → S.pre i <+: S.pre S.n := by
    intro d
    induction d generalizing i with
    | zero => intro h; simp at h; rw [h]; exact List.prefix_refl _
    | succ m ih =>
      intro h
      have h1 : S.pre i <+: S.pre (i + 1) := by rw [L.preS i (by omega)]; exact List.prefix_append _ _
      exact h1.trans (ih (i + 1) (by omega) (by omega))
  rw [← L.preN]
  exact key (S.n - i) (by omega)

abbrev BOK (S : GSess) (sbn : Nat) (b : Block) : Prop := BlockOK (S.sym sbn) (S.K sbn) S.o.e sbn (S.D sbn) b

def Part (S : GSess) (st : St) : Prop :=
  st.aLarge = S.aL ∧ st.aSmall = S.aS ∧ st.nbALarge = S.nL ∧ st.nbBlocks = S.n

/-- what is known of the object is the sender's; blocks stay within the partition -/
structure GStat (S : GSess) (st : St) : Prop where
  oti : st.oti = none ∨ st.oti = some S.o
  tl : st.tl = none ∨ st.tl = some S.T.length
  cenc : st.cenc = none ∨ st.cenc = some .null
  part : st.oti ≠ none → st.tl ≠ none → st.nbBlock = 0 ∨ Part S st
  room : st.blocksOffset + st.blocks.length ≤ S.n

structure GInv (S : GSess) (st : St) : Prop extends GStat S st where
  blocks : ∀ i blk, st.blocks[i]? = some blk → BOK S (st.blocksOffset + i) blk
  opened : st.writer = some .opened → ∀ w, st.bw = some w → st.written = S.pre w.sbn ∧ w.sbn ≤ S.n
  closed : st.writer = some .closed → st.written = S.T

theorem ginv_new (S : GSess) (toi m : Nat) : GInv S (St.new toi m) := by
  refine ⟨⟨.inl rfl, .inl rfl, .inl rfl, fun h => absurd rfl h, by simp [St.new]⟩, ?_, ?_, ?_⟩ <;> simp [St.new]

/-- fields the G-invariant reads -/
structure SameG (st st' : St) : Prop where
  oti : st'.oti = st.oti
  tl : st'.tl = st.tl
  cenc : st'.cenc = st.cenc
  blocks : st'.blocks = st.blocks
  off : st'.blocksOffset = st.blocksOffset
  aLarge : st'.aLarge = st.aLarge
  aSmall : st'.aSmall = st.aSmall
  nbALarge : st'.nbALarge = st.nbALarge
  nbBlocks : st'.nbBlocks = st.nbBlocks
  writer : st'.writer = st.writer
  out : st'.out = st.out
  bw : st'.bw = st.bw

theorem SameG.refl (st : St) : SameG st st := ⟨rfl, rfl, rfl, rfl, rfl, rfl, rfl, rfl, rfl, rfl, rfl, rfl⟩

theorem GStat.sameG {S : GSess} {st st' : St} (h : GStat S st) (s : SameG st st') : GStat S st' := by
  refine ⟨by rw [s.oti]; exact h.oti, by rw [s.tl]; exact h.tl, by rw [s.cenc]; exact h.cenc, ?_, ?_⟩
  · rw [s.oti, s.tl]
    intro a b
    cases h.part a b with
    | inl x => left; simpa [St.nbBlock, s.off, s.blocks] using x
    | inr x => right; simpa [Part, s.aLarge, s.aSmall, s.nbALarge, s.nbBlocks] using x
  · rw [s.off, s.blocks]; exact h.room

theorem GInv.sameG {S : GSess} {st st' : St} (h : GInv S st) (s : SameG st st') : GInv S st' := by
  refine ⟨h.toGStat.sameG s, ?_, ?_, ?_⟩
  · rw [s.blocks, s.off]; exact h.blocks
  · rw [s.writer, s.bw, St.written, s.out]; exact h.opened
  · rw [s.writer, St.written, s.out]; exact h.closed

/-- `error()` on a live writer -/
theorem ginv_error {S : GSess} {st : St} (i : Bool) (h : GStat S st) (hl : Live st) : GInv S (error st i) := by
  have hw : (error st i).writer ≠ some .opened ∧ (error st i).writer ≠ some .closed := by
    cases hl with
    | inl hn => simp [hn]
    | inr ho => simp [ho]
  have e1 : (error st i).oti = st.oti := by unfold error; cases st.writer <;> simp
  have e2 : (error st i).tl = st.tl := by unfold error; cases st.writer <;> simp
  have e3 : (error st i).cenc = st.cenc := by unfold error; cases st.writer <;> simp
  have e4 : (error st i).blocks = [] := by unfold error; cases st.writer <;> simp
  have e5 : (error st i).aLarge = st.aLarge ∧ (error st i).aSmall = st.aSmall ∧ (error st i).nbALarge = st.nbALarge ∧
      (error st i).nbBlocks = st.nbBlocks := by unfold error; cases st.writer <;> simp
  refine ⟨⟨by rw [e1]; exact h.oti, by rw [e2]; exact h.tl, by rw [e3]; exact h.cenc, ?_, ?_⟩, ?_, ?_, ?_⟩
  · rw [e1, e2]
    intro a b
    cases h.part a b with
    | inl x => left; simp only [St.nbBlock, error_off, e4] at x ⊢; simp at x ⊢; omega
    | inr x => right; simpa [Part, e5.1, e5.2.1, e5.2.2.1, e5.2.2.2] using x
  · have := h.room; simp only [error_off, e4]; simp; omega
  · rw [e4]; intro i blk hb; simp at hb
  · intro ho; exact absurd ho hw.1
  · intro hc; exact absurd hc hw.2

/-- `complete()`: with no writer, or with the object known to be written entirely -/
theorem ginv_complete {S : GSess} {st : St} (h : GStat S st) (hl : Live st)
    (hx : st.writer = some .opened → st.written = S.T) : GInv S (complete st) := by
  have e1 : (complete st).oti = st.oti := by unfold complete; cases st.writer <;> simp
  have e2 : (complete st).tl = st.tl := by unfold complete; cases st.writer <;> simp
  have e4 : (complete st).blocks = [] := by unfold complete; cases st.writer <;> simp
  have e5 : (complete st).aLarge = st.aLarge ∧ (complete st).aSmall = st.aSmall ∧ (complete st).nbALarge = st.nbALarge ∧
      (complete st).nbBlocks = st.nbBlocks := by unfold complete; cases st.writer <;> simp
  refine ⟨⟨by rw [e1]; exact h.oti, by rw [e2]; exact h.tl, by rw [complete_cenc]; exact h.cenc, ?_, ?_⟩, ?_, ?_, ?_⟩
  · rw [e1, e2]
    intro a b
    cases h.part a b with
    | inl x => left; simp only [St.nbBlock, complete_off, e4] at x ⊢; simp at x ⊢; omega
    | inr x => right; simpa [Part, e5.1, e5.2.1, e5.2.2.1, e5.2.2.2] using x
  · have := h.room; simp only [complete_off, e4]; simp; omega
  · rw [e4]; intro i blk hb; simp at hb
  · intro ho
    cases hl with
    | inl hn => simp [hn] at ho
    | inr hop => simp [hop] at ho
  · intro hc
    cases hl with
    | inl hn => simp [hn] at hc
    | inr hop => rw [complete_written]; exact hx hop

theorem GStat.wr {S : GSess} {st st' : St} (h : GStat S st) (w : Wr st st') : GStat S st' := by
  refine ⟨by rw [w.same.oti]; exact h.oti, by rw [w.same.tl]; exact h.tl, by rw [w.same.cenc]; exact h.cenc, ?_, ?_⟩
  · rw [w.same.oti, w.same.tl]
    intro a b
    cases h.part a b with
    | inl x => left; simpa [St.nbBlock, w.off, w.same.blocks] using x
    | inr x => right; simpa [Part, w.same.aLarge, w.same.aSmall, w.same.nbALarge, w.same.nbBlocks] using x
  · rw [w.off, w.same.blocks]; exact h.room

theorem ginv_popBlock {S : GSess} {st : St} (hg : GInv S st) (off : Nat) (blk : Block) (hoff : off < st.blocks.length) :
    GInv S (popBlock st off blk) := by
  unfold popBlock
  dsimp only
  split
  · -- pop_front
    cases hb : st.blocks with
    | nil => simp [hb] at hoff
    | cons b0 rest =>
      refine ⟨⟨hg.oti, hg.tl, hg.cenc, ?_, ?_⟩, ?_, hg.opened, hg.closed⟩
      · intro a b
        cases hg.part a b with
        | inl x => simp [St.nbBlock, hb] at x
        | inr x => right; exact x
      · have := hg.room; simp [hb] at this ⊢; omega
      · intro i b hi
        simp only [hb, List.tail_cons] at hi
        have := hg.blocks (i + 1) b (by simp [hb, hi])
        have e : st.blocksOffset + 1 + i = st.blocksOffset + (i + 1) := by omega
        simp only []
        rw [e]; exact this
  · -- deallocate
    refine ⟨⟨hg.oti, hg.tl, hg.cenc, ?_, ?_⟩, ?_, hg.opened, hg.closed⟩
    · intro a b
      cases hg.part a b with
      | inl x => left; simpa [St.nbBlock] using x
      | inr x => right; exact x
    · simpa using hg.room
    · intro i b hi
      simp only [List.getElem?_set] at hi
      split at hi
      · simp at hi; rw [← hi]; exact blockOK_deallocate blk
      · exact hg.blocks i b hi

theorem ginv_writeLoop (P : Params) (S : GSess) (L : S.Laws P.codec) (fuel : Nat) (st : St) (sbn : Nat)
    {st' : St} {b : Bool}
    (hi : Inv st) (ho : st.writer = some .opened) (hj : JInv P st) (hg : GInv S st)
    (h : writeLoop P fuel st sbn = .ok (st', b)) : (b = true → GInv S st') ∧ GStat S st' := by
  induction fuel generalizing st sbn with
  | zero => simp [writeLoop] at h
  | succ n ih =>
    unfold writeLoop at h
    split at h
    · simp at h; obtain ⟨rfl, rfl⟩ := h; exact ⟨fun _ => hg, hg.toGStat⟩
    · rename_i hge
      split at h
      · simp at h; obtain ⟨rfl, rfl⟩ := h; exact ⟨fun _ => hg, hg.toGStat⟩
      · rename_i blk hblk
        split at h
        · simp at h; obtain ⟨rfl, rfl⟩ := h; exact ⟨fun _ => hg, hg.toGStat⟩
        · have jo := hj.opened ho
          obtain ⟨T, C, h1, h2, h3, h4⟩ := jo.ex
          have hTl : T = S.T.length := by
            cases hg.tl with
            | inl x => rw [x] at h1; simp at h1
            | inr x => rw [x] at h1; simpa using h1.symm
          have hC : C = .null := by
            cases hg.cenc with
            | inl x => rw [x] at h2; simp at h2
            | inr x => rw [x] at h2; simpa using h2.symm
          have hT : T ≠ 0 := by
            intro hT
            have hn := (h3 hT).1
            simp [bwWrite, hn] at h
          obtain ⟨w, hbw, b0, c, d, e⟩ := h4 hT
          have e' := e hC
          have hidx : sbn - st.blocksOffset < st.blocks.length := by
            have := List.getElem?_eq_some_iff.mp hblk
            exact this.1
          have hsbn : sbn < S.n := by have := hg.room; omega
          have hbok : BOK S sbn blk := by
            have := hg.blocks _ _ hblk
            have e0 : st.blocksOffset + (sbn - st.blocksOffset) = sbn := by omega
            rw [e0] at this; exact this
          have hpre := hg.opened ho w hbw
          split at h
          · simp at h
          · rename_i st1 heq
            simp at h; obtain ⟨rfl, rfl⟩ := h
            exact ⟨fun hf => (by cases hf), hg.toGStat.wr (wr_bwWrite _ _ _ _ heq)⟩
          · rename_i st1 heq
            simp at h; obtain ⟨rfl, rfl⟩ := h
            have := (jw_bwWrite _ _ _ _ _ hbw d heq).1 rfl
            rw [this]; exact ⟨fun _ => hg, hg.toGStat⟩
          · rename_i st1 heq
            have hwr := wr_bwWrite _ _ _ _ heq
            have h1' := hi.wr ho hwr
            obtain ⟨hws, data, hsrc, hp⟩ := (jw_bwWrite _ _ _ _ _ hbw d heq).2.2 rfl
            obtain ⟨w', p1, p2, p3, p4, p5, p6, p7⟩ := hp.ex
            have hdata : data = S.D sbn := blockOK_sourceBlock hbok data hsrc
            have hw1 := p7 (b0.trans hC) e'.1
            -- the bytes written so far are the first sbn+1 blocks
            have hwritten : st1.written = S.pre (sbn + 1) := by
              rw [hw1.1, hpre.1, hws, L.preS sbn hsbn, hdata]
              congr 2
              have := e'.2
              rw [hpre.1, hws] at this
              omega
            have hg1 : GInv S st1 := by
              refine ⟨hg.toGStat.wr hwr, ?_, ?_, ?_⟩
              · rw [hwr.same.blocks, hwr.off]; exact hg.blocks
              · intro _ w2 hw2
                have : w2 = w' := by rw [p1] at hw2; simpa using hw2.symm
                subst this
                rw [p3, hws]; exact ⟨hwritten, hsbn⟩
              · intro hc; rw [h1'.2] at hc; simp at hc
            split at h
            · simp at h
            · split at h
              · simp at h
              · split at h
                · simp at h
                · rename_i w2 hw2
                  have : w2 = w' := by rw [p1] at hw2; simpa using hw2.symm
                  subst this
                  have hpb := inv_popBlock h1'.1 (by simp [p1]) (sbn - st.blocksOffset) blk
                  have sj := sameJ_popBlock st1 (sbn - st.blocksOffset) blk
                  have hg2 := ginv_popBlock hg1 (sbn - st.blocksOffset) blk (by rw [hwr.same.blocks]; exact hidx)
                  have ho2 := hpb.2.trans h1'.2
                  split at h
                  · rename_i hz
                    simp at h; obtain ⟨rfl, rfl⟩ := h
                    -- everything is written
                    have hall : (popBlock st1 (sbn - st.blocksOffset) blk).written = S.T := by
                      rw [St.written, sj.out, ← St.written, hwritten]
                      apply (L.pre_prefix (sbn + 1) hsbn).eq_of_length
                      have hl : st1.written.length + w2.bytesLeft = T := by
                        rw [hw1.1, List.length_append, p4]
                        have := trimTo_length_le w.bytesLeft data
                        have := e'.2
                        omega
                      rw [hwritten, hz, hTl] at hl
                      omega
                    have : GInv S (finishObject (popBlock st1 (sbn - st.blocksOffset) blk) w2) := by
                      unfold finishObject
                      split
                      · exact ginv_complete hg2.toGStat (Or.inr ho2) (fun _ => hall)
                      · exact ginv_error _ hg2.toGStat (Or.inr ho2)
                    exact ⟨fun _ => this, this.toGStat⟩
                  · rename_i hnz
                    have jo1 : JOpen st1 := by
                      refine ⟨hp.nc, T, C, hp.same.tl.trans h1, hp.same.cenc.trans h2, fun hT0 => absurd hT0 hT, fun _ => ?_⟩
                      refine ⟨w2, p1, p2.trans b0, hnz, p5 hnz, fun _ => ?_⟩
                      refine ⟨hw1.2, ?_⟩
                      rw [hw1.1, List.length_append, p4]
                      have := trimTo_length_le w.bytesLeft data
                      have := e'.2
                      omega
                    have jinv1 : JInv P st1 := by
                      refine ⟨?_, fun _ => jo1, ?_, ?_⟩ <;> simp [h1'.2]
                    exact ih _ _ hpb.1 ho2 (jinv1.sameJ sj) hg2 h

end Flute.ObjRecv
