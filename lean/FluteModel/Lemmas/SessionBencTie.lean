import FluteModel.Props.C08
import FluteModel.Lemmas.SessionEmit
import FluteModel.Lemmas.SessionPart
import FluteModel.Lemmas.Session
/-
  Phase-2 tie to C08 (engine `benc`, byte-level model of blockencoder.rs): the packet trace of a
  complete, unforced transfer of benc's `BlockEnc` model, projected to (SBN, ESI, B), has the facts the
  session-level receiver theorems ask of an object's packets - derived from benc's THEOREMS
  (`transfer_per_block`, `esis_per_block`, `close_object_only_last`), not from my own emission model.
-/
namespace Flute.Lemmas.Session
open Flute Flute.Fec Flute.BlockEnc Flute.BencArith Flute.BencBlocks Flute.BencInv Flute.BencTrace Flute.BencShape Flute.BencPsi

/-- (SBN, ESI, B) of a packet of benc's model -/
def symOfB (p : BlockEnc.Pkt) : Session.Sym := { sbn := p.sbn, esi := p.esi, close := p.closeObject }

theorem reads_split {P : Params} {s0 s : Enc} {tr : List (Bool × BlockEnc.Pkt)} (h : Reads P s0 tr s) :
    ∀ (a b : List (Bool × BlockEnc.Pkt)), tr = a ++ b → ∃ s1, Reads P s0 a s1 ∧ Reads P s1 b s := by
  induction h with
  | nil =>
    intro a b hab
    have := List.append_eq_nil_iff.mp hab.symm
    rw [this.1, this.2]
    exact ⟨_, Reads.nil _, Reads.nil _⟩
  | snoc hr hstep ih =>
    intro a b hab
    by_cases hb : b = []
    · subst hb
      rw [List.append_nil] at hab
      rw [← hab]
      exact ⟨_, Reads.snoc hr hstep, Reads.nil _⟩
    · have hb' : b = b.dropLast ++ [b.getLast hb] := (List.dropLast_concat_getLast hb).symm
      rw [hb', ← List.append_assoc] at hab
      have hh := List.append_inj' hab (by simp)
      obtain ⟨h1, h2⟩ := hh
      simp only [List.cons.injEq, and_true] at h2
      obtain ⟨s1, g1, g2⟩ := ih a b.dropLast h1
      refine ⟨s1, g1, ?_⟩
      rw [hb', ← h2]
      exact Reads.snoc g2 hstep

theorem reads_nil_inv {P : Params} {s0 s : Enc} {tr : List (Bool × BlockEnc.Pkt)} (h : Reads P s0 tr s) :
    tr = [] → s = s0 := by
  induction h with
  | nil => intro _; rfl
  | snoc _ _ _ => intro h; simp at h

theorem reads_single_aux {P : Params} {s1 s2 : Enc} {tr : List (Bool × BlockEnc.Pkt)} (h : Reads P s1 tr s2) :
    ∀ x, tr = [x] → BlockEnc.read P s1 x.1 = (.pkt x.2, s2) := by
  induction h with
  | nil => intro x h; simp at h
  | @snoc s' s'' tr' f p hr hstep _ =>
    intro x hx
    have hlen := congrArg List.length hx
    simp only [List.length_append, List.length_cons, List.length_nil] at hlen
    have htr : tr' = [] := List.eq_nil_of_length_eq_zero (by omega)
    subst htr
    simp only [List.nil_append, List.cons.injEq, and_true] at hx
    subst hx
    have := reads_nil_inv hr rfl
    subst this
    exact hstep

theorem reads_single {P : Params} {s1 s2 : Enc} {x : Bool × BlockEnc.Pkt} (h : Reads P s1 [x] s2) :
    BlockEnc.read P s1 x.1 = (.pkt x.2, s2) := reads_single_aux h x rfl

theorem mem_proj_of_mem {tr : List BlockEnc.Pkt} {p : BlockEnc.Pkt} (h : p ∈ tr) : pview p ∈ proj tr p.sbn := by
  unfold proj
  exact List.mem_map_of_mem (List.mem_filter.mpr ⟨h, by simp⟩)

theorem onlyLast_of_split : ∀ (T : List Session.Sym),
    (∀ a q b, T = a ++ q :: b → q.close = true → b = []) → OnlyLast T := by
  intro T
  induction T with
  | nil => intro _; trivial
  | cons x t ih =>
    intro h
    refine ⟨fun hx => h [] x t rfl hx, ih ?_⟩
    intro a q b hab hq
    exact h (x :: a) q b (by rw [hab]; rfl) hq

variable {P : Params} {c : Bytes} {aL aS nL n : Nat} {closable : Bool} {tr : List (Bool × BlockEnc.Pkt)} {s : Enc}

/-- **C08 ⇒ what the receiver theorems need of one transfer.**  For a complete, unforced transfer of
    benc's block-encoder model (ANY object bytes, E, B, parity, window, codec accepting the blocks), the
    (SBN, ESI, B) projection of the packet trace satisfies: every SBN is below the number of blocks and
    every ESI below `A_sbn + parity`; every source symbol of every block occurs; the close-object flag is
    on the last packet only. -/
theorem benc_trace_facts (h : Run P c aL aS nL n closable tr s) (hle : SymLe P.codec)
    (hnf : ∀ x, x ∈ tr → x.1 = false) (hend : (BlockEnc.read P s false).1 = .none) :
    (∀ q, q ∈ (pkts tr).map symOfB → q.sbn < n ∧ q.esi < A aL aS nL q.sbn + P.p) ∧
    (∀ k i, k < n → i < A aL aS nL k → ∃ q, q ∈ (pkts tr).map symOfB ∧ q.sbn = k ∧ q.esi = i) ∧
    OnlyLast ((pkts tr).map symOfB) := by
  have htp := Props.C08.transfer_per_block h hnf hend
  refine ⟨?_, ?_, ?_⟩
  · intro q hq
    obtain ⟨p, hp, rfl⟩ := List.mem_map.mp hq
    have hmem := mem_proj_of_mem hp
    have hk : p.sbn < n := by
      by_cases hlt : p.sbn < n
      · exact hlt
      · have := htp.2 p.sbn (by omega)
        rw [this] at hmem; simp at hmem
    obtain ⟨r, hr, he⟩ := Props.C08.esis_per_block h hnf hend p.sbn hk
    have : (pview p).1 ∈ (proj (pkts tr) p.sbn).map (·.1) := List.mem_map_of_mem hmem
    rw [he, List.mem_range] at this
    simp only [symOfB]
    exact ⟨hk, by simp only [pview] at this; omega⟩
  · intro k i hk hi
    obtain ⟨r, _, he⟩ := Props.C08.esis_per_block h hnf hend k hk
    have : i ∈ (proj (pkts tr) k).map (·.1) := by rw [he, List.mem_range]; omega
    obtain ⟨x, hx, hx1⟩ := List.mem_map.mp this
    unfold proj at hx
    obtain ⟨p, hp, rfl⟩ := List.mem_map.mp hx
    obtain ⟨hp1, hp2⟩ := List.mem_filter.mp hp
    refine ⟨symOfB p, List.mem_map_of_mem hp1, ?_, ?_⟩
    · simpa [symOfB] using hp2
    · simpa [symOfB, pview] using hx1
  · apply onlyLast_of_split
    intro a q b hab hq
    -- locate the packet in the run
    unfold pkts at hab
    rw [List.map_map] at hab
    obtain ⟨tr1, rest, htr, ha, hrest⟩ := List.map_eq_append_iff.mp hab
    obtain ⟨x, tr2, hrest', hx, hb⟩ := List.map_eq_cons_iff.mp hrest
    subst hrest'
    obtain ⟨s0, hnew, hreads⟩ := h.reads
    obtain ⟨s1, g1, g23⟩ := reads_split hreads tr1 (x :: tr2) htr
    obtain ⟨s2, g2, g3⟩ := reads_split g23 [x] tr2 rfl
    have hstep := reads_single g2
    have hxf : x.1 = false := hnf x (by rw [htr]; simp)
    rw [hxf] at hstep
    have h1 : Run P c aL aS nL n closable tr1 s1 := { h with reads := ⟨s0, hnew, g1⟩ }
    have hB : x.2.closeObject = true := by
      have : symOfB x.2 = q := by simpa using hx
      rw [← this] at hq; exact hq
    rcases Props.C08.close_object_only_last h1 hle hstep hB with hf | ⟨_, _, _, _, hall⟩
    · exact absurd hf (by simp)
    · -- every block is already complete: nothing can follow
      have hnil : ∀ k, proj (pkts tr2) k = [] := by
        intro k
        have hsplit : proj (pkts tr) k = proj (pkts (tr1 ++ [(false, x.2)])) k ++ proj (pkts tr2) k := by
          rw [htr]
          have : tr1 ++ x :: tr2 = (tr1 ++ [(false, x.2)]) ++ tr2 := by
            have : x = (false, x.2) := by rw [← hxf]
            rw [List.append_assoc, List.singleton_append, ← this]
          rw [this, pkts_append, proj_append]
        by_cases hk : k < n
        · obtain ⟨b0, hb0, hp0⟩ := hall k hk
          obtain ⟨b1, hb1, hp1⟩ := htp.1 k hk
          rw [hb0] at hb1; cases hb1
          rw [hp1, hp0] at hsplit
          exact List.append_right_eq_self.mp hsplit.symm
        · have := htp.2 k (by omega)
          rw [this] at hsplit
          exact (List.append_eq_nil_iff.mp hsplit.symm).2
      have htr2 : tr2 = [] := by
        cases htr2 : tr2 with
        | nil => rfl
        | cons y t =>
          exfalso
          have : y.2 ∈ pkts tr2 := by rw [htr2]; simp [pkts]
          have := mem_proj_of_mem this
          rw [hnil] at this; simp at this
      rw [← hb, htr2]; rfl

/-- the packets of benc's transfer are genuine packets of the session-level object whose block
    structure is the same partition -/
theorem genuine_of_benc (h : Run P c aL aS nL n closable tr s) (hle : SymLe P.codec)
    (hnf : ∀ x, x ∈ tr → x.1 = false) (hend : (BlockEnc.read P s false).1 = .none)
    (o : Session.ObjCfg) (hks : o.ks = ksOf aL aS nL n) (hp : o.p = P.p) (hsch : o.scheme = .nocode → P.p = 0) :
    ∀ q, q ∈ (pkts tr).map symOfB → Genuine o q := by
  intro q hq
  obtain ⟨h1, h2⟩ := (benc_trace_facts h hle hnf hend).1 q hq
  refine ⟨if q.sbn < nL then aL else aS, by rw [hks]; exact ksOf_get' aL aS nL n q.sbn h1, ?_⟩
  unfold A at h2
  unfold Session.shardsOf
  split
  · rename_i hs
    have := hsch hs
    omega
  · rw [hp]; exact h2

end Flute.Lemmas.Session
