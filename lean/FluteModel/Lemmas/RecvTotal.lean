import FluteModel.Lemmas.RecvSkew
import FluteModel.Lemmas.RecvBounds
/-
  C04 helper lemmas: no call of the session-level receiver panics.
  The possible panics of the model are: `SystemTime ± Duration` in `get_server_time`, the chrono
  conversions for the "already expired" log line, the checked `u32` addition `fdt_id + 1`, and
  `fdt_meta().unwrap()`.  Each is excluded by an invariant on the FDT-instance receivers (`Good`).
-/
namespace Flute.Recv
variable {σ : Type}

/-- contract on the object implementation needed for `fdt_meta().unwrap()`: when `push` makes the
    writer's `complete` call, the object is in state `Completed` when `push` returns -/
def ObjIface.CompleteSound (I : ObjIface σ) : Prop :=
  ∀ o p, WEv.complete ∈ (I.push o p).2 → I.state (I.push o p).1 = .completed

/-- invariant of every FDT-instance receiver in a reachable state -/
structure Good (f : FdtRecv σ) : Prop where
  id : f.fdtId < 2 ^ 20
  late : ∀ off, f.offset = some off → f.late = true → (off : Int) < 4611686018427387904
  early : ∀ off, f.offset = some off → f.late = false → (off : Int) < 4294967296000000
  hasMeta : f.st = .complete → f.hasMeta = true
  exp : ∀ e, f.expires = some e → 0 ≤ e ∧ e < 4294967296000000

theorem good_noteFti (f : FdtRecv σ) (v : Option Fti) (hg : Good f) : Good (f.noteFti v) := by
  unfold FdtRecv.noteFti
  split
  · exact ⟨hg.id, hg.late, hg.early, hg.hasMeta, hg.exp⟩
  · exact hg

theorem serverTime_total (f : FdtRecv σ) (now : Int) (hg : Good f) (hn : TimeSane now) :
    ∃ t, f.serverTime now = .ok t ∧ -4611686018427387904 ≤ t ∧ t < 4611686018427387904 + 4294967296000000 := by
  unfold TimeSane at hn
  unfold FdtRecv.serverTime
  cases hoff : f.offset with
  | none => exact ⟨now, rfl, by omega, by omega⟩
  | some off =>
    simp only []
    cases hl : f.late with
    | true =>
      have := hg.late off hoff hl
      simp only [↓reduceIte]
      unfold sysSub sysLimit
      rw [if_pos (by omega)]
      exact ⟨now - off, rfl, by omega, by omega⟩
    | false =>
      have := hg.early off hoff hl
      simp only [Bool.false_eq_true, ↓reduceIte]
      unfold sysAdd sysLimit
      rw [if_pos (by omega)]
      exact ⟨now + off, rfl, by omega, by omega⟩

theorem updateExpired_total (f : FdtRecv σ) (now : Int) (hg : Good f) (hn : TimeSane now) :
    ∃ f', f.updateExpired now = .ok f' := by
  unfold FdtRecv.updateExpired
  split
  · exact ⟨f, rfl⟩
  · split
    · unfold FdtRecv.isExpired
      cases f.expires with
      | none => exact ⟨_, rfl⟩
      | some e =>
        obtain ⟨t, ht, _⟩ := serverTime_total f now hg hn
        simp only [ht]
        cases decide (t > e) <;> exact ⟨_, rfl⟩
    · exact ⟨f, rfl⟩

theorem good_updateExpired (f f' : FdtRecv σ) (now : Int) (hg : Good f) (hu : f.updateExpired now = .ok f') :
    Good f' := by
  have hf := updateExpired_fields hu
  refine ⟨by rw [hf.1]; exact hg.id, ?_, ?_, ?_, ?_⟩
  · intro off ho hl; rw [hf.2.2.2.2.1] at ho; rw [hf.2.2.2.2.2.1] at hl; exact hg.late off ho hl
  · intro off ho hl; rw [hf.2.2.2.2.1] at ho; rw [hf.2.2.2.2.2.1] at hl; exact hg.early off ho hl
  · intro hst
    have := (updateExpired_complete hu hst).1
    rw [this] at hst ⊢
    exact hg.hasMeta hst
  · intro e he; rw [hf.2.2.2.1] at he; exact hg.exp e he

theorem good_new (I : ObjIface σ) (id : Nat) (chk : Bool) (h : id < 2 ^ 20) : Good (FdtRecv.new I id chk) :=
  ⟨h, fun _ ho _ => by simp [FdtRecv.new] at ho, fun _ ho _ => by simp [FdtRecv.new] at ho,
   fun hst => by simp [FdtRecv.new] at hst, fun _ he => by simp [FdtRecv.new] at he⟩

theorem ntpSecsToTime_range (n : Nat) (e : Int) (hn : n < 2 ^ 32) (h : ntpSecsToTime n = some e) :
    0 ≤ e ∧ e < 4294967296000000 := by
  unfold ntpSecsToTime ntpEpoch at h
  split at h
  · cases h
  · injection h with h; subst h
    omega

theorem parseDigits_lt (bits : Nat) (ds : List Char) (n : Nat) (h : parseDigits bits ds = some n) :
    n < 2 ^ bits := by
  unfold parseDigits at h
  split at h
  · cases h
  · split at h
    · simp only [] at h
      split at h
      · injection h with h; subst h; assumption
      · cases h
    · cases h

theorem parseUInt_lt (bits : Nat) (s : String) (n : Nat) (h : parseUInt bits s = some n) : n < 2 ^ bits := by
  unfold parseUInt at h
  split at h <;> exact parseDigits_lt bits _ n h

theorem writerExpires_range (fdt : FdtAbs) (e : Int) (h : fdt.writerExpires = some e) :
    0 ≤ e ∧ e < 4294967296000000 := by
  unfold FdtAbs.writerExpires at h
  split at h
  · cases h
  · rename_i n hn
    exact ntpSecsToTime_range n e (parseUInt_lt 32 _ n hn) h

/-- fields touched by the writer events: `expires` stays in range, nothing else of `Good` moves -/
theorem applyWEv_exp (ans : FdtAns) (f : FdtRecv σ) (e : WEv)
    (h : ∀ x, f.expires = some x → 0 ≤ x ∧ x < 4294967296000000) :
    ∀ x, (f.applyWEv ans e).expires = some x → 0 ≤ x ∧ x < 4294967296000000 := by
  cases e with
  | complete =>
    simp only [FdtRecv.applyWEv]
    split
    · exact h
    · cases ans with
      | err => exact h
      | ok fdt u =>
        intro x hx
        exact writerExpires_range fdt x hx
  | write sbn len =>
    simp only [FdtRecv.applyWEv]
    split <;> exact h
  | _ => exact h

theorem applyWEvs_exp (ans : FdtAns) (f : FdtRecv σ) (evs : List WEv)
    (h : ∀ x, f.expires = some x → 0 ≤ x ∧ x < 4294967296000000) :
    ∀ x, (f.applyWEvs ans evs).expires = some x → 0 ≤ x ∧ x < 4294967296000000 := by
  induction evs generalizing f with
  | nil => exact h
  | cons e r ih =>
    simp only [FdtRecv.applyWEvs, List.foldl_cons] at ih ⊢
    exact ih _ (applyWEv_exp ans f e h)

/-- `st` after the writer events: `Complete` only if it was, or a `complete` call was made -/
theorem applyWEvs_complete (ans : FdtAns) (f : FdtRecv σ) (evs : List WEv)
    (h : (f.applyWEvs ans evs).st = .complete) : f.st = .complete ∨ WEv.complete ∈ evs := by
  induction evs generalizing f with
  | nil => exact Or.inl h
  | cons e r ih =>
    simp only [FdtRecv.applyWEvs, List.foldl_cons] at ih h
    rcases ih _ h with h1 | h1
    · cases e with
      | complete => exact Or.inr (by simp)
      | error => simp [FdtRecv.applyWEv] at h1
      | interrupted => simp [FdtRecv.applyWEv] at h1
      | new cc => exact Or.inl h1
      | opened => exact Or.inl h1
      | write a b =>
        simp only [FdtRecv.applyWEv] at h1
        split at h1
        · cases h1
        · exact Or.inl h1
    · exact Or.inr (List.mem_cons_of_mem _ h1)

theorem observeSct_good (f : FdtRecv σ) (sct : Option Int) (now : Int) (hg : Good f)
    (hs : ∀ t, sct = some t → 0 ≤ t ∧ t < 4294967296000000) (hn : TimeSane now) :
    Good (f.observeSct sct now) := by
  have ho := observeSct_fields f sct now
  unfold TimeSane at hn
  refine ⟨by rw [ho.2.1]; exact hg.id, ?_, ?_, by rw [ho.2.2.1, ho.2.2.2.2.2.2.1]; exact hg.hasMeta,
    by rw [ho.2.2.2.2.1]; exact hg.exp⟩
  · intro off hoff hl
    unfold FdtRecv.observeSct at hoff hl
    cases sct with
    | none => exact hg.late off hoff hl
    | some res =>
      have := hs res rfl
      simp only [] at hoff hl
      split at hoff
      · simp only [Option.some.injEq] at hoff; omega
      · rename_i hlt; rw [if_neg hlt] at hl; simp at hl
  · intro off hoff hl
    unfold FdtRecv.observeSct at hoff hl
    cases sct with
    | none => exact hg.early off hoff hl
    | some res =>
      have := hs res rfl
      simp only [] at hoff hl
      split at hoff
      · rename_i hlt; rw [if_pos hlt] at hl; simp at hl
      · simp only [Option.some.injEq] at hoff; omega


theorem good_pushRest (I : ObjIface σ) (hI : I.CompleteSound) (g : FdtRecv σ) (p : Pkt) (ans : FdtAns)
    (hg : Good g) : Good (pushRest I g p ans) := by
  unfold pushRest
  cases hobj : g.obj with
  | none => exact hg
  | some o =>
    simp only []
    have ha := applyWEvs_fields ans g (I.push o p).2
    have hexp := applyWEvs_exp ans g (I.push o p).2 hg.exp
    cases hst : I.state (I.push o p).1 with
    | receiving =>
      simp only []
      refine ⟨by simp only []; rw [ha.2.2.2.1]; exact hg.id,
        fun off ho hl => hg.late off (by simp only [] at ho; rw [ha.1] at ho; exact ho) (by simp only [] at hl; rw [ha.2.1] at hl; exact hl),
        fun off ho hl => hg.early off (by simp only [] at ho; rw [ha.1] at ho; exact ho) (by simp only [] at hl; rw [ha.2.1] at hl; exact hl),
        ?_, hexp⟩
      intro hc
      simp only [] at hc ⊢
      rw [ha.2.2.2.2.2.1]
      rcases applyWEvs_complete ans g _ hc with h1 | h1
      · exact hg.hasMeta h1
      · have := hI o p h1
        rw [hst] at this; cases this
    | completed =>
      simp only []
      have hb := applyWEvs_fields ans
        ({ g.applyWEvs ans (I.push o p).2 with hasMeta := true, obj := none } : FdtRecv σ) (I.drop (I.push o p).1)
      have hexp2 := applyWEvs_exp ans
        ({ g.applyWEvs ans (I.push o p).2 with hasMeta := true, obj := none } : FdtRecv σ) (I.drop (I.push o p).1) hexp
      simp only [] at hb
      refine ⟨by rw [hb.2.2.2.1, ha.2.2.2.1]; exact hg.id,
        fun off ho hl => hg.late off (by rw [hb.1, ha.1] at ho; exact ho) (by rw [hb.2.1, ha.2.1] at hl; exact hl),
        fun off ho hl => hg.early off (by rw [hb.1, ha.1] at ho; exact ho) (by rw [hb.2.1, ha.2.1] at hl; exact hl),
        fun _ => by rw [hb.2.2.2.2.2.1], hexp2⟩
    | interrupted =>
      simp only []
      exact ⟨by simp only []; rw [ha.2.2.2.1]; exact hg.id,
        fun off ho hl => hg.late off (by simp only [] at ho; rw [ha.1] at ho; exact ho) (by simp only [] at hl; rw [ha.2.1] at hl; exact hl),
        fun off ho hl => hg.early off (by simp only [] at ho; rw [ha.1] at ho; exact ho) (by simp only [] at hl; rw [ha.2.1] at hl; exact hl),
        fun hc => by simp at hc, hexp⟩
    | error =>
      simp only []
      exact ⟨by simp only []; rw [ha.2.2.2.1]; exact hg.id,
        fun off ho hl => hg.late off (by simp only [] at ho; rw [ha.1] at ho; exact ho) (by simp only [] at hl; rw [ha.2.1] at hl; exact hl),
        fun off ho hl => hg.early off (by simp only [] at ho; rw [ha.1] at ho; exact ho) (by simp only [] at hl; rw [ha.2.1] at hl; exact hl),
        fun hc => by simp at hc, hexp⟩

theorem good_push (I : ObjIface σ) (hI : I.CompleteSound) (f : FdtRecv σ) (p : Pkt) (now : Int)
    (ans : FdtAns) (hg : Good f) (hp : p.WF) (hn : TimeSane now) : Good (f.push I p now ans) := by
  rw [push_eq_pushRest]
  exact good_pushRest I hI _ p ans (observeSct_good f p.sct now hg hp.2 hn)

/-! ### no function of the model panics on `Good` states at a sane time -/

theorem chronoConv_sane' (t : Int) (h1 : -4611686018427387904 ≤ t)
    (h2 : t < 4611686018427387904 + 4294967296000000) : chronoConv t = .ok () := by
  unfold chronoConv chronoLimit
  rw [if_pos (by omega)]

theorem createScan_total (I : ObjIface σ) (toi : Nat) (now : Int) (hn : TimeSane now) :
    ∀ (l : List (FdtRecv σ)) (o : σ), (∀ f ∈ l, Good f) → ∃ x, createScan I toi now o l = .ok x := by
  intro l
  induction l with
  | nil => intro o _; exact ⟨_, rfl⟩
  | cons f r ih =>
    intro o hall
    obtain ⟨f', hf'⟩ := updateExpired_total f now (hall f (by simp)) hn
    have hr : ∀ g ∈ r, Good g := fun g hg => hall g (List.mem_cons_of_mem _ hg)
    unfold createScan
    rw [hf']
    simp only []
    split
    · exact ⟨_, rfl⟩
    · rename_i o1 evs1 _
      obtain ⟨x, hx⟩ := ih o1 hr
      rw [hx]; obtain ⟨a, b, c⟩ := x; exact ⟨_, rfl⟩
    · obtain ⟨x, hx⟩ := ih o hr
      rw [hx]; obtain ⟨a, b, c⟩ := x; exact ⟨_, rfl⟩

theorem pushObjCore_total (I : ObjIface σ) (s : State σ) (p : Pkt) (now : Int) (hn : TimeSane now)
    (hall : ∀ f ∈ s.fdtCurrent, Good f) : ∃ x, pushObjCore I s p now = .ok x := by
  unfold pushObjCore
  simp only []
  have hc : ∃ y, (if (alookup p.toi s.objects).isNone = true then createObj I s p.toi now else Except.ok (s, [])) = .ok y := by
    split
    · unfold createObj
      obtain ⟨x, hx⟩ := createScan_total I p.toi now hn s.fdtCurrent (I.new p.toi s.cfg.maxCache) hall
      rw [hx]; obtain ⟨a, b, c⟩ := x; exact ⟨_, rfl⟩
    · exact ⟨_, rfl⟩
  obtain ⟨y, hy⟩ := hc
  rw [hy]
  obtain ⟨s1, e0⟩ := y
  simp only []
  split <;> exact ⟨_, rfl⟩

theorem pushObj_total (I : ObjIface σ) (s : State σ) (p : Pkt) (now : Int) (hn : TimeSane now)
    (hall : ∀ f ∈ s.fdtCurrent, Good f) : ∃ x, pushObj I s p now = .ok x := by
  unfold pushObj
  cases hg1 : gateCompleted s p with
  | inr r => exact ⟨_, rfl⟩
  | inl s1 =>
    simp only []
    cases hg2 : gateError s1 p with
    | inr r => exact ⟨_, rfl⟩
    | inl s2 =>
      simp only []
      have hc : s2.fdtCurrent = s.fdtCurrent := by rw [(gateError_fdt hg2).1, (gateCompleted_fdt hg1).1]
      exact pushObjCore_total I s2 p now hn (by rw [hc]; exact hall)

theorem prevIdCheck_total (l : List (FdtRecv σ)) (h : ∀ f ∈ l, Good f) : prevIdCheck l = .ok () := by
  cases l with
  | nil => rfl
  | cons a r =>
    have := (h a (by simp)).id
    simp only [prevIdCheck, u32add]
    rw [if_pos (by omega)]

theorem fdtCompleted_total (I : ObjIface σ) (s : State σ) (id : Nat) (hall : AllFdt Good s)
    (hst : ∀ f, alookup id s.fdtReceivers = some f → f.st = .complete) :
    ∃ x, fdtCompleted I s id = .ok x := by
  unfold fdtCompleted
  rw [prevIdCheck_total s.fdtCurrent hall.1]
  simp only []
  cases hf : alookup id s.fdtReceivers with
  | none => exact ⟨_, rfl⟩
  | some f =>
    simp only []
    have hg : Good f := hall.2 (id, f) (alookup_mem hf)
    have hm := hg.hasMeta (hst f hf)
    have : ∃ e0, fdtCb f id = .ok e0 := by
      unfold fdtCb
      rw [hm]
      split <;> exact ⟨_, rfl⟩
    obtain ⟨e0, he0⟩ := this
    rw [he0]
    exact ⟨_, rfl⟩

theorem fdtDispatch_total (I : ObjIface σ) (s : State σ) (id : Nat) (f : FdtRecv σ) (now : Int)
    (hn : TimeSane now) (hg : Good f) (hall : AllFdt Good s)
    (hlook : alookup id s.fdtReceivers = some f) :
    ∃ x, fdtDispatch I s id f now = .ok x := by
  unfold fdtDispatch
  cases hst : f.st with
  | receiving => exact ⟨_, rfl⟩
  | error => exact ⟨_, rfl⟩
  | complete =>
    simp only []
    exact fdtCompleted_total I s id hall (fun g hg' => by rw [hlook] at hg'; injection hg' with hg'; subst hg'; exact hst)
  | expired =>
    simp only []
    obtain ⟨t, ht, h1, h2⟩ := serverTime_total f now hg hn
    rw [ht]
    simp only []
    have e1 : chronoConv (f.expires.getD now) = .ok () := by
      unfold TimeSane at hn
      cases hexp : f.expires with
      | some e =>
        have := hg.exp e hexp
        simp only [Option.getD_some]
        exact chronoConv_sane' _ (by omega) (by omega)
      | none =>
        simp only [Option.getD_none]
        exact chronoConv_sane' _ (by omega) (by omega)
    rw [e1]
    simp only []
    rw [chronoConv_sane' t (by omega) (by omega)]
    exact ⟨_, rfl⟩


theorem pushFdtObjP_total (I : ObjIface σ) (hI : I.CompleteSound) (s : State σ) (p : Pkt) (now : Int)
    (ans : FdtAns) (hn : TimeSane now) (hp : p.WF) (hall : AllFdt Good s) :
    ∃ x, pushFdtObj' I s p now ans = .ok x := by
  unfold pushFdtObj'
  cases hid : p.fdtId with
  | none =>
    simp only []
    split
    · exact ⟨_, rfl⟩
    · split <;> exact ⟨_, rfl⟩
  | some id =>
    simp only []
    split
    · exact ⟨_, rfl⟩
    · have he := fdtEntry_all I Good s id p good_noteFti (good_new I id _ (hp.1 id hid)) hall
      split
      · exact ⟨_, rfl⟩
      · have hgp : Good ((fdtEntry I s id p).2.push I p now ans) := good_push I hI _ p now ans he.2.1 hp hn
        have hupd : ∃ f', (if ((fdtEntry I s id p).2.push I p now ans).st = FdtState.complete then
              ((fdtEntry I s id p).2.push I p now ans).updateExpired now
            else Except.ok ((fdtEntry I s id p).2.push I p now ans)) = .ok f' ∧ Good f' := by
          split
          · obtain ⟨f', hf'⟩ := updateExpired_total _ now hgp hn
            exact ⟨f', hf', good_updateExpired _ f' now hgp hf'⟩
          · exact ⟨_, rfl, hgp⟩
        obtain ⟨f', hf', hgf'⟩ := hupd
        rw [hf']
        simp only []
        apply fdtDispatch_total I _ id f' now hn hgf'
        · refine ⟨he.1.1, ?_⟩
          intro kf hkf
          simp only [] at hkf
          rcases mem_ainsert hkf with hkf | hkf
          · subst hkf; exact hgf'
          · exact he.1.2 kf hkf
        · exact alookup_ainsert_self _ _ _

theorem pushFdtObj_total (I : ObjIface σ) (hI : I.CompleteSound) (s : State σ) (p : Pkt) (now : Int)
    (ans : FdtAns) (hn : TimeSane now) (hp : p.WF) (hall : AllFdt Good s) :
    ∃ x, pushFdtObj I s p now ans = .ok x :=
  pushFdtObjP_total I hI (dropConflict s p) p now ans hn hp (dropConflict_all Good s p hall).1

theorem updateExpiredAll_total (now : Int) (hn : TimeSane now) :
    ∀ (l : List (Nat × FdtRecv σ)), (∀ kf ∈ l, Good kf.2) → ∃ l', updateExpiredAll now l = .ok l' := by
  intro l
  induction l with
  | nil => intro _; exact ⟨_, rfl⟩
  | cons a r ih =>
    intro hall
    obtain ⟨k, f⟩ := a
    obtain ⟨f', hf'⟩ := updateExpired_total f now (hall (k, f) (by simp)) hn
    obtain ⟨r', hr'⟩ := ih (fun x hx => hall x (List.mem_cons_of_mem _ hx))
    unfold updateExpiredAll
    rw [hf']; simp only []; rw [hr']
    exact ⟨_, rfl⟩

theorem cleanup_total (I : ObjIface σ) (s : State σ) (now : Int) (stale : Stale) (hn : TimeSane now)
    (hall : AllFdt Good s) : ∃ x, cleanup I s now stale = .ok x := by
  unfold cleanup
  simp only []
  unfold cleanupFdt
  obtain ⟨l, hl⟩ := updateExpiredAll_total now hn (cleanupObjects I s stale.obj).1.fdtReceivers
    (by rw [(cleanupObjects_fdt I s stale.obj).2.1]; exact hall.2)
  rw [hl]
  exact ⟨_, rfl⟩

/-- what C04 asks of one call: a sane receiver clock, field ranges of a parsed packet -/
def OpOK : Op → Prop
  | .data d now _ => TimeSane now ∧ (∀ p, d = .pkt p → p.WF)
  | .cleanup now _ => TimeSane now

/-- No call panics on a state whose FDT-instance receivers are `Good`. -/
theorem step_total (I : ObjIface σ) (hI : I.CompleteSound) (s : State σ) (op : Op) (hop : OpOK op)
    (hall : AllFdt Good s) : ∃ x, step I s op = .ok x := by
  cases op with
  | data d now ans =>
    obtain ⟨hn, hp⟩ := hop
    simp only [step, pushData]
    cases d with
    | reject => exact ⟨_, rfl⟩
    | otherTsi => exact ⟨_, rfl⟩
    | pkt p =>
      simp only []
      unfold push
      simp only []
      have hall' : AllFdt Good (if p.closeSession = true then { s with closedImminent := true } else s) := by
        split <;> exact hall
      split
      · exact pushFdtObj_total I hI _ p now ans hn (hp p rfl) hall'
      · exact pushObj_total I _ p now hn hall'.1
  | cleanup now stale =>
    simp only [step]
    obtain ⟨x, hx⟩ := cleanup_total I s now stale hop hall
    rw [hx]; obtain ⟨a, b⟩ := x; exact ⟨_, rfl⟩

/-- `Good` is an invariant -/
theorem step_good (I : ObjIface σ) (hI : I.CompleteSound) (s s' : State σ) (op : Op) (r : Res)
    (evs : List Ev) (hop : OpOK op) (h : step I s op = .ok (s', r, evs)) (hall : AllFdt Good s) :
    AllFdt Good s' := by
  refine (step_all I Good s s' op r evs good_noteFti ?_ ?_ ?_ h hall).1
  · intro p now ans id hop' hid
    subst hop'
    exact good_new I id _ ((hop.2 p rfl).1 id hid)
  · intro p now ans hop' _ id hid f hf
    subst hop'
    exact good_push I hI f p now ans hf (hop.2 p rfl) hop.1
  · intro f f' hf hu
    exact good_updateExpired f f' _ hf hu

/-- Histories: from a fresh receiver no call of any history ever panics. -/
theorem run_total (I : ObjIface σ) (hI : I.CompleteSound) :
    ∀ (ops : List Op) (s : State σ), (∀ op ∈ ops, OpOK op) → AllFdt Good s →
      ∃ x, run I s ops = some x := by
  intro ops
  induction ops with
  | nil => intro s _ _; exact ⟨_, rfl⟩
  | cons op ops ih =>
    intro s hops hall
    have hop := hops op (by simp)
    obtain ⟨x, hx⟩ := step_total I hI s op hop hall
    obtain ⟨s', r, ev⟩ := x
    have hall' := step_good I hI s s' op r ev hop hx hall
    obtain ⟨y, hy⟩ := ih s' (fun o ho => hops o (List.mem_cons_of_mem _ ho)) hall'
    simp only [run, hx, hy]
    obtain ⟨a, b⟩ := y
    exact ⟨_, rfl⟩


/-- a datagram that changes nothing: rejected by the parser or of a foreign TSI -/
def Ignored : Op → Prop
  | .data .reject _ _ => True
  | .data .otherTsi _ _ => True
  | _ => False

end Flute.Recv
