import FluteModel.Lemmas.SchedShape
import FluteModel.Spec.Lifecycle
/-
  C12 part of the scheduler invariant: per object, the relation between `FileDesc`/`TransferInfo`, the
  slot holding it and the specification monitor `Spec.Lifecycle.LM` run over the log (DESIGN §9 (v)).
-/
namespace Flute.Sched
open Flute.Spec.Lifecycle

def burstF (f : FileDesc) : Nat := if f.maxCount = 0 then 1 else f.maxCount

/-- the fields of a descriptor the lifecycle relation reads -/
structure Core (f' f : FileDesc) : Prop where
  transferring : f'.info.transferring = f.info.transferring
  total : f'.info.total = f.info.total
  count : f'.info.count = f.info.count
  nSym : f'.nSym = f.nSym
  maxCount : f'.maxCount = f.maxCount
  carousel : f'.carousel = f.carousel
  allowStop : f'.allowStop = f.allowStop
  faults : f'.faults = f.faults
  attempt : f'.info.attempt = f.info.attempt

theorem Core.refl (f : FileDesc) : Core f f := ⟨rfl, rfl, rfl, rfl, rfl, rfl, rfl, rfl, rfl⟩

theorem Core.nPk {f' f : FileDesc} (h : Core f' f) : f'.nPk = f.nPk := by unfold FileDesc.nPk; rw [h.nSym]
theorem Core.canStop {f' f : FileDesc} (h : Core f' f) : canStop f' = canStop f := by
  unfold Sched.canStop; rw [h.allowStop, h.total]
theorem Core.burstF {f' f : FileDesc} (h : Core f' f) : burstF f' = burstF f := by
  unfold Sched.burstF; rw [h.maxCount]

structure ObjRel (s : State) (L : Held) (toi : Nat) (f : FileDesc) (m : LM) : Prop where
  args : ∃ a, m.args = some a ∧ a.nSym = f.nSym ∧ a.maxCount = f.maxCount ∧ a.carousel = f.carousel ∧
    a.allowStop = f.allowStop
  active : m.active = f.info.transferring
  stops : m.stops = f.info.total
  sent : ∀ pc ∈ L, pc.2.key = toi → m.sent = pc.2.enc.sent ∧ pc.2.enc.sent ≤ f.nPk
  inFiles : toi ∈ s.files → m.removed = none ∧ (toi ∈ s.queue ∨ f.info.transferring = true)
  count : f.carousel = none → f.info.count = f.info.total ∧ f.info.total ≤ burstF f ∧
    ((toi ∈ s.files ∨ f.info.transferring = true) → f.info.total < burstF f)
  /-- a transfer of an object in the sender is not stopped - unless the attempt failed to start (faulty source) -/
  notStopped : ∀ pc ∈ L, pc.2.key = toi → toi ∈ s.files →
    pc.2.enc.stopped = false ∨ (f.info.attempt.isSome = true ∧ pc.2.enc.sent = 0)
  removed : ∀ wa st, m.removed = some (wa, st) → toi ∉ s.files ∧ (wa = false → f.info.transferring = false) ∧
    (f.info.transferring = true → wa = true ∧ st = canStop f ∧ ∀ pc ∈ L, pc.2.key = toi →
      (st = false → pc.2.enc.stopped = false ∨ (f.info.attempt.isSome = true ∧ pc.2.enc.sent = 0)) ∧
      (st = true → (pc.2.enc.stopped = false ∧ m.after = 0) ∨ pc.2.enc.stopped = true))
  /-- (for objects whose source never fails) -/
  full : (m.removed = none ∨ ∃ wa, m.removed = some (wa, false)) → f.faults = [] →
    m.full = m.stops + (if f.info.transferring = true ∧ m.sent = f.nPk then 1 else 0)
  faults : ∀ a, m.args = some a → a.faults = f.faults
  attempt : f.info.transferring = true → f.info.attempt = f.faults[f.info.total]?
  carousel : f.carousel.isSome = true → toi ∈ s.files ∨ m.removed.isSome = true
  after0 : m.removed = none → m.after = 0
  transFiles : f.info.transferring = true → m.removed = none → toi ∈ s.files

theorem ObjRel.of_same {s s' : State} {L L' : Held} {toi : Nat} {f f' : FileDesc} {m : LM}
    (h : ObjRel s L toi f m) (hc : Core f' f)
    (hfiles : toi ∈ s'.files ↔ toi ∈ s.files) (hqueue : toi ∈ s.queue → toi ∈ s'.queue)
    (hL : ∀ pc' ∈ L', pc'.2.key = toi → pc' ∈ L) : ObjRel s' L' toi f' m where
  args := by
    obtain ⟨a, h1, h2, h3, h4, h5⟩ := h.args
    exact ⟨a, h1, by rw [hc.nSym]; exact h2, by rw [hc.maxCount]; exact h3, by rw [hc.carousel]; exact h4,
      by rw [hc.allowStop]; exact h5⟩
  active := by rw [hc.transferring]; exact h.active
  stops := by rw [hc.total]; exact h.stops
  sent := fun pc hpc hk => by rw [hc.nPk]; exact h.sent pc (hL pc hpc hk) hk
  inFiles := fun hf => by
    obtain ⟨h1, h2⟩ := h.inFiles (hfiles.mp hf)
    refine ⟨h1, ?_⟩
    rcases h2 with h2 | h2
    · exact Or.inl (hqueue h2)
    · exact Or.inr (by rw [hc.transferring]; exact h2)
  count := fun hcar => by
    rw [hc.carousel] at hcar
    obtain ⟨h1, h2, h3⟩ := h.count hcar
    rw [hc.count, hc.total, hc.burstF, hc.transferring, hfiles]
    exact ⟨h1, h2, h3⟩
  notStopped := fun pc hpc hk hf => by rw [hc.attempt]; exact h.notStopped pc (hL pc hpc hk) hk (hfiles.mp hf)
  removed := fun wa st hr => by
    obtain ⟨h1, h2, h3⟩ := h.removed wa st hr
    rw [hc.transferring, hc.canStop, hc.attempt]
    refine ⟨fun hf => h1 (hfiles.mp hf), h2, fun ht => ?_⟩
    obtain ⟨h4, h5, h6⟩ := h3 ht
    exact ⟨h4, h5, fun pc hpc hk => h6 pc (hL pc hpc hk) hk⟩
  full := fun hr hfl => by rw [hc.transferring, hc.nPk]; exact h.full hr (by rw [← hc.faults]; exact hfl)
  faults := fun a ha => by rw [hc.faults]; exact h.faults a ha
  attempt := fun ht => by rw [hc.attempt, hc.faults, hc.total]; exact h.attempt (by rw [← hc.transferring]; exact ht)
  carousel := fun hcar => by
    rw [hc.carousel] at hcar
    rcases h.carousel hcar with h1 | h1
    · exact Or.inl (hfiles.mpr h1)
    · exact Or.inr h1
  after0 := h.after0
  transFiles := fun ht hr => by rw [hc.transferring] at ht; exact hfiles.mpr (h.transFiles ht hr)

structure LifeInv (s : State) (L : Held) : Prop where
  rel : ∀ toi f, getF s.objs toi = some f → ObjRel s L toi f (LM.run toi s.log)
  unknown : ∀ toi, getF s.objs toi = none → LM.run toi s.log = {}
  checked : ∀ toi, Checked toi s.log
  filesObj : ∀ t ∈ s.files, ∃ f, getF s.objs t = some f
  filesNodup : s.files.Nodup

/-- events that neither the monitor nor the checks of any object look at -/
def LNeutral : Ev → Prop
  | .opAdd .. => False
  | .start .. => False
  | .pkt .. => False
  | .stop .. => False
  | .opRemove .. => False
  | .pub .. => False
  | _ => True

theorem lrun_neutral {e : Ev} (h : LNeutral e) (toi : Nat) (l : List Ev) : LM.run toi (e :: l) = LM.run toi l := by
  cases e <;> first | rfl | exact absurd h (by simp [LNeutral])

theorem checked_neutral {e : Ev} (h : LNeutral e) (toi : Nat) {l : List Ev} (hl : Checked toi l) :
    Checked toi (e :: l) := by
  cases e <;> first | exact ⟨hl, trivial⟩ | exact absurd h (by simp [LNeutral])

/-- descriptors of `s'` are those of `s` up to `Core` -/
def CoreRel (s' s : State) : Prop :=
  ∀ toi, (getF s.objs toi = none → getF s'.objs toi = none) ∧
    (∀ f, getF s.objs toi = some f → ∃ f', getF s'.objs toi = some f' ∧ Core f' f)

theorem CoreRel.refl {s' s : State} (h : s'.objs = s.objs) : CoreRel s' s := by
  intro toi; rw [h]; exact ⟨id, fun f hf => ⟨f, hf, Core.refl f⟩⟩

theorem CoreRel.updF {s' s : State} (k : Nat) (g : FileDesc → FileDesc) (h : s'.objs = Sched.updF s.objs k g)
    (hk : ∀ f, (g f).key = f.key) (hg : ∀ f, Core (g f) f) : CoreRel s' s := by
  intro toi
  rw [h, getF_updF _ _ _ _ hk]
  constructor
  · intro hn; split <;> simp [hn]
  · intro f hf
    split
    · exact ⟨g f, by rw [hf]; rfl, hg f⟩
    · exact ⟨f, hf, Core.refl f⟩

theorem CoreRel.inv {s' s : State} (h : CoreRel s' s) {toi : Nat} {f' : FileDesc}
    (hf' : getF s'.objs toi = some f') : ∃ f, getF s.objs toi = some f ∧ Core f' f := by
  cases hf : getF s.objs toi with
  | none => rw [(h toi).1 hf] at hf'; cases hf'
  | some f =>
    obtain ⟨f'', h1, h2⟩ := (h toi).2 f hf
    rw [hf'] at h1; cases h1
    exact ⟨f, rfl, h2⟩

/-- a primitive that does not concern any object's lifecycle -/
theorem LifeInv.of_same {s s' : State} {L L' : Held} (h : LifeInv s L)
    (hlog : ∀ toi, LM.run toi s'.log = LM.run toi s.log) (hchk : ∀ toi, Checked toi s'.log)
    (hobjs : CoreRel s' s) (hfiles : s'.files = s.files) (hqueue : s'.queue = s.queue)
    (hL : ∀ pc' ∈ L', pc' ∈ L) : LifeInv s' L' where
  rel := fun toi f' hf' => by
    obtain ⟨f, hf, hc⟩ := hobjs.inv hf'
    rw [hlog]
    exact (h.rel toi f hf).of_same hc (by rw [hfiles]) (by rw [hqueue]; exact id) (fun pc hpc _ => hL pc hpc)
  unknown := fun toi hn => by
    rw [hlog]
    cases hf : getF s.objs toi with
    | none => exact h.unknown toi hf
    | some f =>
      obtain ⟨f', h1, _⟩ := (hobjs toi).2 f hf
      rw [hn] at h1; cases h1
  checked := hchk
  filesObj := fun t ht => by
    rw [hfiles] at ht
    obtain ⟨f, hf⟩ := h.filesObj t ht
    obtain ⟨f', h1, _⟩ := (hobjs t).2 f hf
    exact ⟨f', h1⟩
  filesNodup := by rw [hfiles]; exact h.filesNodup

theorem LifeInv.neutral {s s' : State} {L L' : Held} {e : Ev} (h : LifeInv s L) (hn : LNeutral e)
    (hlog : s'.log = e :: s.log) (hobjs : CoreRel s' s) (hfiles : s'.files = s.files)
    (hqueue : s'.queue = s.queue) (hL : ∀ pc' ∈ L', pc' ∈ L) : LifeInv s' L' :=
  h.of_same (fun toi => by rw [hlog]; exact lrun_neutral hn toi _)
    (fun toi => by rw [hlog]; exact checked_neutral hn toi (h.checked toi)) hobjs hfiles hqueue hL

theorem pubDesc_content_sub (s : State) : ∀ t ∈ (pubDesc s).content, t ∈ s.files := by
  intro t ht
  have : t ∈ (match s.cfg.mode with | .full => s.files | .being => s.files.filter (isTransferring s)) := ht
  cases hm : s.cfg.mode with
  | full => rw [hm] at this; exact this
  | being => rw [hm] at this; exact (List.mem_filter.mp this).1

theorem pubMark_core (fs : List Nat) (f : FileDesc) : Core (pubMark fs f) f := by
  unfold pubMark; split
  · exact ⟨rfl, rfl, rfl, rfl, rfl, rfl, rfl, rfl, rfl⟩
  · exact Core.refl f

theorem burst_eq {a : AddArgs} {f : FileDesc} (h : a.maxCount = f.maxCount) : burst a = burstF f := by
  unfold burst burstF; rw [h]

theorem npk_eq {a : AddArgs} {f : FileDesc} (h : a.nSym = f.nSym) : npk a = f.nPk := by
  unfold npk FileDesc.nPk; rw [h]

theorem LifeInv.ofPublish {s : State} {L : Held} (now : Nat) (h : LifeInv s L) : LifeInv (publish s now) L := by
  have hcr : CoreRel (publish s now) s := by
    intro toi
    rw [publish_getF_objs]
    constructor
    · intro hn; rw [hn]; rfl
    · intro f hf; exact ⟨pubMark s.files f, by rw [hf]; rfl, pubMark_core _ f⟩
  refine h.of_same (fun toi => rfl) ?_ hcr rfl rfl (fun pc hpc => hpc)
  intro toi
  refine ⟨h.checked toi, ?_⟩
  show toi ∈ (pubDesc s).content → _
  intro hin
  have hf := pubDesc_content_sub s toi hin
  obtain ⟨f, hgf⟩ := h.filesObj toi hf
  have r := h.rel toi f hgf
  obtain ⟨a, h1, _, h3, h4, _⟩ := r.args
  refine ⟨(r.inFiles hf).1, a, h1, ?_⟩
  intro hcar
  rw [h4] at hcar
  rw [r.stops, burst_eq h3]
  exact (r.count hcar).2.2 (Or.inl hf)

theorem LifeInv.ofEmit {s : State} {L : Held} {e : Ev} (hn : LNeutral e) (h : LifeInv s L) : LifeInv (emit s e) L :=
  h.neutral hn rfl (CoreRel.refl rfl) rfl rfl (fun pc hpc => hpc)

theorem fdtPop_files (s : State) : (fdtPop s).files = s.files := by unfold fdtPop; split <;> rfl
theorem fdtPop_queue (s : State) : (fdtPop s).queue = s.queue := by unfold fdtPop; split <;> rfl
theorem transferDoneFdt_files (s : State) (k now : Nat) : (transferDoneFdt s k now).files = s.files := by
  unfold transferDoneFdt; simp only []; split
  · split <;> rfl
  · rfl
theorem transferDoneFdt_queue (s : State) (k now : Nat) : (transferDoneFdt s k now).queue = s.queue := by
  unfold transferDoneFdt; simp only []; split
  · split <;> rfl
  · rfl
theorem transferDoneFdt_log (s : State) (k now : Nat) : (transferDoneFdt s k now).log = Ev.fdtStop now k :: s.log := by
  unfold transferDoneFdt; simp only []; split
  · split <;> rfl
  · rfl

theorem LifeInv.ofFdtAdvance {s : State} {L : Held} (now : Nat) (h : LifeInv s L) : LifeInv (fdtAdvance s now) L := by
  have h1 : LifeInv (fdtPop s) L :=
    h.of_same (fun toi => by rw [fdtPop_log]) (fun toi => by rw [fdtPop_log]; exact h.checked toi)
      (CoreRel.refl (fdtPop_objs s)) (fdtPop_files s) (fdtPop_queue s) (fun pc hpc => hpc)
  rcases fdtAdvance_cases s now with ⟨e, _⟩ | ⟨k, f, _, _, _, e⟩
  · rw [e]; exact h1
  · rw [e]
    exact h1.neutral (e := Ev.fdtStart now k) trivial rfl (CoreRel.refl rfl) rfl rfl (fun pc hpc => hpc)

theorem LifeInv.ofFdtDone {s : State} {L : Held} (k now : Nat) (h : LifeInv s L) : LifeInv (fdtRelease s k now) L :=
  h.neutral (e := Ev.fdtStop now k) trivial (by unfold fdtRelease; exact transferDoneFdt_log s k now)
    (CoreRel.refl (by unfold fdtRelease; exact transferDoneFdt_objs s k now))
    (by unfold fdtRelease; exact transferDoneFdt_files s k now)
    (by unfold fdtRelease; exact transferDoneFdt_queue s k now) (fun pc hpc => hpc)

theorem LifeInv.ofFdtPkt {s : State} {L : Held} (c : Cur) (e : Enc) (id now idx : Nat) (h : LifeInv s L) :
    LifeInv (fdtStep s c e id now idx) L :=
  h.neutral (e := Ev.fdt now c.key id idx) trivial rfl (CoreRel.refl rfl) rfl rfl (fun pc hpc => hpc)

/-- the object an event is about (for the lifecycle monitor) -/
def evAbout : Ev → Option Nat
  | .opAdd t _ _ => some t
  | .start _ t _ _ => some t
  | .pkt _ _ t _ _ => some t
  | .stop _ t => some t
  | .opRemove t _ => some t
  | _ => none

theorem lrun_other {e : Ev} {t0 toi : Nat} (he : evAbout e = some t0) (hne : toi ≠ t0) (l : List Ev) :
    LM.run toi (e :: l) = LM.run toi l := by
  have hne' : ¬ t0 = toi := fun h => hne h.symm
  show LM.step toi _ e = _
  cases e with
  | opAdd t a ok => simp only [evAbout, Option.some.injEq] at he; subst he; simp [LM.step, hne']
  | start n t st tk => simp only [evAbout, Option.some.injEq] at he; subst he; simp [LM.step, hne']
  | pkt n p t i b => simp only [evAbout, Option.some.injEq] at he; subst he; simp [LM.step, hne']
  | stop n t => simp only [evAbout, Option.some.injEq] at he; subst he; simp [LM.step, hne']
  | opRemove t ok => simp only [evAbout, Option.some.injEq] at he; subst he; simp [LM.step, hne']
  | _ => simp [evAbout] at he

theorem checked_other {e : Ev} {t0 toi : Nat} (he : evAbout e = some t0) (hne : toi ≠ t0) {l : List Ev}
    (hl : Checked toi l) : Checked toi (e :: l) := by
  have hne' : ¬ t0 = toi := fun h => hne h.symm
  refine ⟨hl, ?_⟩
  cases e with
  | opAdd t a ok => trivial
  | start n t st tk =>
    simp only [evAbout, Option.some.injEq] at he; subst he; intro h; exact absurd h hne'
  | pkt n p t i b =>
    simp only [evAbout, Option.some.injEq] at he; subst he; intro h; exact absurd h hne'
  | stop n t =>
    simp only [evAbout, Option.some.injEq] at he; subst he; intro h; exact absurd h hne'
  | opRemove t ok => trivial
  | _ => simp [evAbout] at he

/-- a primitive whose event is about object `t0`: all other objects are untouched -/
theorem LifeInv.about {s s' : State} {L L' : Held} {e : Ev} {t0 : Nat} (h : LifeInv s L)
    (he : evAbout e = some t0) (hlog : s'.log = e :: s.log)
    (hobjs : ∀ toi, toi ≠ t0 → getF s'.objs toi = getF s.objs toi)
    (hfiles : ∀ toi, toi ≠ t0 → (toi ∈ s'.files ↔ toi ∈ s.files))
    (hqueue : ∀ toi, toi ≠ t0 → toi ∈ s.queue → toi ∈ s'.queue)
    (hL : ∀ pc' ∈ L', pc'.2.key ≠ t0 → pc' ∈ L)
    (hfn : s'.files.Nodup)
    (hself : ∀ f', getF s'.objs t0 = some f' → ObjRel s' L' t0 f' (LM.run t0 s'.log))
    (hselfNone : getF s'.objs t0 = none → LM.run t0 s'.log = {})
    (hselfChk : LM.check t0 (LM.run t0 s.log) e)
    (hfobj : t0 ∈ s'.files → ∃ f, getF s'.objs t0 = some f) : LifeInv s' L' where
  rel := fun toi f' hf' => by
    by_cases hne : toi = t0
    · subst hne; exact hself f' hf'
    · rw [hobjs toi hne] at hf'
      rw [hlog, lrun_other he hne]
      exact (h.rel toi f' hf').of_same (Core.refl f') (hfiles toi hne) (hqueue toi hne)
        (fun pc hpc hk => hL pc hpc (by rw [hk]; exact hne))
  unknown := fun toi hn => by
    by_cases hne : toi = t0
    · subst hne; exact hselfNone hn
    · rw [hobjs toi hne] at hn
      rw [hlog, lrun_other he hne]; exact h.unknown toi hn
  checked := fun toi => by
    rw [hlog]
    by_cases hne : toi = t0
    · subst hne; exact ⟨h.checked toi, hselfChk⟩
    · exact checked_other he hne (h.checked toi)
  filesObj := fun t ht => by
    by_cases hne : t = t0
    · subst hne; exact hfobj ht
    · rw [hobjs t hne]; exact h.filesObj t ((hfiles t hne).mp ht)
  filesNodup := hfn

theorem nPk_pos (f : FileDesc) : 0 < f.nPk := by unfold FileDesc.nPk; split <;> omega

theorem LifeInv.ofFileStartStep {s : State} {L : Held} {prio now t : Nat} (tk : Nat) (c : Cur)
    (hck : c.key = t) (hc0 : c.enc.sent = 0)
    (hcs : ∀ g, getF s.objs t = some g → c.enc.stopped = (g.faults[g.info.total]?).isSome)
    (hw : Wf s L) (h : LifeInv s L) (hfn : findNext s prio now s.queue = some t) :
    LifeInv (fileStartStep s t now tk) ((prio, c) :: L) := by
  obtain ⟨pre, post, hq, _, g, hg, hst⟩ := findNext_spec s prio now s.queue t hfn
  have htq : t ∈ s.queue := by rw [hq]; simp
  have htf : t ∈ s.files := hw.queueFiles t htq
  obtain ⟨_, hgt, _, _⟩ := shouldTransferNow_true hst
  have hkey : ∀ f : FileDesc, (transferInit f now tk).key = f.key := fun _ => rfl
  have hget : ∀ k, getF (fileStartStep s t now tk).objs k =
      if k = t then (getF s.objs k).map (fun g => transferInit g now tk) else getF s.objs k :=
    fun k => getF_updF _ _ _ _ hkey
  have hne : ∀ pc ∈ L, pc.2.key ≠ t := by
    intro pc hpc e
    obtain ⟨g', hg', hgt', _⟩ := hw.heldObj pc hpc
    rw [e, hg] at hg'; cases hg'
    rw [hgt] at hgt'; cases hgt'
  have r := h.rel t g hg
  have hself : getF (fileStartStep s t now tk).objs t = some (transferInit g now tk) := by
    rw [hget, if_pos rfl, hg]; rfl
  have hrun : LM.run t (fileStartStep s t now tk).log =
      { LM.run t s.log with active := true, sent := 0, starts := (LM.run t s.log).starts + 1 } := by
    show LM.step t (LM.run t s.log) (Ev.start now t _ _) = _
    simp [LM.step]
  obtain ⟨a, ha1, ha2, ha3, ha4, ha5⟩ := r.args
  have hrem : (LM.run t s.log).removed = none := (r.inFiles htf).1
  refine h.about (e := Ev.start now t _ _) (t0 := t) rfl rfl
    (fun toi hn => by rw [hget, if_neg hn])
    (fun toi _ => Iff.rfl)
    (fun toi hn hq' => (List.mem_erase_of_ne hn).mpr hq')
    (fun pc' hpc' hk => by
      rcases List.mem_cons.mp hpc' with rfl | hpc'
      · exact absurd hck hk
      · exact hpc')
    h.filesNodup ?_ (fun hn => by rw [hself] at hn; cases hn) ?_ (fun _ => ⟨_, hself⟩)
  · intro f' hf'
    rw [hself] at hf'; cases hf'
    rw [hrun]
    exact
    { args := ⟨a, ha1, ha2, ha3, ha4, ha5⟩
      active := rfl
      stops := r.stops
      sent := fun pc hpc hk => by
        rcases List.mem_cons.mp hpc with rfl | hpc
        · exact ⟨hc0.symm, by rw [hc0]; exact Nat.zero_le _⟩
        · exact absurd hk (hne pc hpc)
      inFiles := fun _ => ⟨hrem, Or.inr rfl⟩
      count := fun hcar => by
        have hcar' : g.carousel = none := hcar
        obtain ⟨h1, h2, h3⟩ := r.count hcar'
        have : (transferInit g now tk).info.count = g.info.count := by
          show (if g.info.count == g.maxCount && g.carousel.isSome then 0 else g.info.count) = _
          rw [hcar']; simp
        exact ⟨by rw [this]; exact h1, h2, fun _ => h3 (Or.inl htf)⟩
      notStopped := fun pc hpc hk _ => by
        rcases List.mem_cons.mp hpc with rfl | hpc
        · have hst := hcs g hg
          cases hfa : (g.faults[g.info.total]?).isSome with
          | false => left; rw [hfa] at hst; exact hst
          | true => right; exact ⟨hfa, hc0⟩
        · exact absurd hk (hne pc hpc)
      removed := fun wa st hr => by
        have : (LM.run t s.log).removed = some (wa, st) := hr
        rw [hrem] at this; cases this
      faults := fun a' ha' => r.faults a' ha'
      attempt := fun _ => rfl
      full := fun _ hfl => by
        have h1 := r.full (Or.inl hrem) hfl
        rw [hgt] at h1
        simp only [Bool.false_eq_true, false_and, if_false, Nat.add_zero] at h1
        show (LM.run t s.log).full = (LM.run t s.log).stops + (if _ ∧ 0 = (transferInit g now tk).nPk then 1 else 0)
        have := nPk_pos (transferInit g now tk)
        rw [if_neg (by omega), h1]; rfl
      carousel := fun _ => Or.inl htf
      after0 := r.after0
      transFiles := fun _ _ => htf }
  · -- the Start event passes the checks
    intro _
    refine ⟨by rw [r.active]; exact hgt, hrem, a, ha1, ?_⟩
    intro hcar
    rw [ha4] at hcar
    rw [r.stops, burst_eq ha3]
    exact (r.count hcar).2.2 (Or.inl htf)

theorem LifeInv.ofFileStart' {s : State} {L : Held} {prio now t : Nat} (tk : Nat) (c : Cur)
    (hck : c.key = t) (hc0 : c.enc.sent = 0)
    (hcs : ∀ g, getF s.objs t = some g → c.enc.stopped = (g.faults[g.info.total]?).isSome)
    (hw : Wf s L) (h : LifeInv s L) (hfn : findNext s prio now s.queue = some t) :
    LifeInv (autoPublish (fileStartStep s t now tk) now) ((prio, c) :: L) := by
  have h1 := LifeInv.ofFileStartStep tk c hck hc0 hcs hw h hfn
  unfold autoPublish
  split
  · exact publishTry_elim (P := fun x => LifeInv x ((prio, c) :: L)) _ now (h1.ofPublish now) h1
  · exact h1

/-- the descriptor of the object that has just been started -/
theorem getF_fileStart (s : State) (t now tk : Nat) (g : FileDesc) (hg : getF s.objs t = some g) :
    ∃ f1, getF (autoPublish (fileStartStep s t now tk) now).objs t = some f1 ∧
      f1.info = (transferInit g now tk).info := by
  have h0 : getF (fileStartStep s t now tk).objs t = some (transferInit g now tk) := by
    show getF (updF s.objs t (fun f => transferInit f now tk)) t = _
    rw [getF_updF s.objs t t (fun f => transferInit f now tk) (fun _ => rfl), if_pos rfl, hg]; rfl
  unfold autoPublish
  split
  · rcases publishTry_cases (fileStartStep s t now tk) now with e | e
    · rw [e, publish_getF_objs, h0]
      exact ⟨_, rfl, pubMark_info _ _⟩
    · rw [e]; exact ⟨_, h0, rfl⟩
  · exact ⟨_, h0, rfl⟩

/-- a fresh encoder is "stopped" exactly when the attempt is faulty -/
theorem startCur_stopped (s : State) (t now tk : Nat) (g : FileDesc) (hg : getF s.objs t = some g) :
    (startCur (autoPublish (fileStartStep s t now tk) now) t).enc.stopped = (g.faults[g.info.total]?).isSome := by
  obtain ⟨f1, hf1, hinfo⟩ := getF_fileStart s t now tk g hg
  unfold startCur
  simp only [hf1, hinfo]
  rfl

theorem LifeInv.ofFileStart {s : State} {L : Held} {prio now t : Nat} (tk : Nat)
    (hw : Wf s L) (h : LifeInv s L) (hfn : findNext s prio now s.queue = some t) :
    LifeInv (autoPublish (fileStartStep s t now tk) now)
      ((prio, startCur (autoPublish (fileStartStep s t now tk) now) t) :: L) :=
  LifeInv.ofFileStart' tk _ rfl rfl (fun g hg => startCur_stopped s t now tk g hg) hw h hfn

theorem encRead_eq (n : Nat) (e : Enc) (force : Bool) :
    encRead n e force =
      if e.stopped = true then (none, e) else
      if e.sent < (if n = 0 then 1 else n) then
        (some (e.sent, if n = 0 then true else (force || (e.closable && e.sent + 1 == n))),
          { sent := e.sent + 1, stopped := force, closable := e.closable })
      else (none, { sent := e.sent, stopped := force, closable := e.closable }) := by
  unfold encRead
  obtain ⟨sent, stopped, closable⟩ := e
  cases stopped with
  | true => simp
  | false =>
    simp only [Bool.false_eq_true, if_false]
    by_cases hn : n = 0
    · subst hn
      by_cases h0 : sent = 0
      · cases force <;> simp [h0]
      · have : ¬ sent < 1 := by omega
        cases force <;> simp [h0, this]
    · by_cases hlt : sent < n
      · cases force <;> simp [hn, hlt]
      · cases force <;> simp [hn, hlt]

theorem encRead_some {n : Nat} {e e' : Enc} {force : Bool} {idx : Nat} {b : Bool}
    (h : encRead n e force = (some (idx, b), e')) :
    e.stopped = false ∧ idx = e.sent ∧ e.sent < (if n = 0 then 1 else n) ∧ e'.sent = e.sent + 1 ∧
    e'.stopped = force ∧ (force = true → b = true) := by
  rw [encRead_eq] at h
  by_cases hs : e.stopped = true
  · rw [if_pos hs] at h; simp at h
  · rw [if_neg hs] at h
    by_cases hlt : e.sent < (if n = 0 then 1 else n)
    · rw [if_pos hlt] at h
      simp only [Prod.mk.injEq, Option.some.injEq] at h
      obtain ⟨⟨h1, h2⟩, h3⟩ := h
      refine ⟨by simpa using hs, h1.symm, hlt, by rw [← h3], by rw [← h3], ?_⟩
      intro hf; subst hf
      rw [← h2]; split <;> simp
    · rw [if_neg hlt] at h; simp at h

theorem encRead_none {n : Nat} {e e' : Enc} {force : Bool} (h : encRead n e force = (none, e')) :
    e.stopped = true ∨ (if n = 0 then 1 else n) ≤ e.sent := by
  rw [encRead_eq] at h
  by_cases hs : e.stopped = true
  · left; exact hs
  · right
    rw [if_neg hs] at h
    by_cases hlt : e.sent < (if n = 0 then 1 else n)
    · rw [if_pos hlt] at h; simp at h
    · omega

theorem tickInfo_core (f : FileDesc) : Core (tickInfo f) f := by
  unfold tickInfo FileDesc.updInfo
  simp only []
  split <;> exact ⟨rfl, rfl, rfl, rfl, rfl, rfl, rfl, rfl, rfl⟩

theorem LifeInv.ofPkt {s : State} {L : Held} {prio : Nat} {c : Cur} {f : FileDesc} {now idx : Nat} {b : Bool} {e : Enc}
    (hw : Wf s ((prio, c) :: L)) (h : LifeInv s ((prio, c) :: L)) (hf : getF s.objs c.key = some f)
    (he : encRead f.nSym c.enc (canStop f && !s.files.contains c.key) = (some (idx, b), e)) :
    LifeInv (pktStep s prio c.key now idx b) ((prio, { c with enc := e }) :: L) := by
  obtain ⟨e1, e2, e3, e4, e5, e6⟩ := encRead_some he
  have e3' : c.enc.sent < f.nPk := e3
  obtain ⟨f0, hf0, htr, _⟩ := hw.heldObj (prio, c) List.mem_cons_self
  rw [hf] at hf0; cases hf0
  have r := h.rel c.key f hf
  obtain ⟨a, ha1, ha2, ha3, ha4, ha5⟩ := r.args
  have hsent := (r.sent (prio, c) List.mem_cons_self rfl).1
  have hnd := hw.heldNodup
  simp only [List.map_cons, List.nodup_cons] at hnd
  have hne : ∀ pc ∈ L, pc.2.key ≠ c.key := fun pc hpc e => hnd.1 (List.mem_map.mpr ⟨pc, hpc, e⟩)
  have hkey : ∀ g : FileDesc, (tickInfo g).key = g.key := fun _ => rfl
  have hget : ∀ k, getF (pktStep s prio c.key now idx b).objs k =
      if k = c.key then (getF s.objs k).map tickInfo else getF s.objs k :=
    fun k => getF_updF _ _ _ _ hkey
  have hself : getF (pktStep s prio c.key now idx b).objs c.key = some (tickInfo f) := by
    rw [hget, if_pos rfl, hf]; rfl
  have hnpk : (LM.run c.key s.log).args.map npk = some f.nPk := by rw [ha1]; simp [npk_eq ha2]
  have hrun : LM.run c.key (pktStep s prio c.key now idx b).log =
      { LM.run c.key s.log with
        sent := (LM.run c.key s.log).sent + 1
        full := if f.nPk = (LM.run c.key s.log).sent + 1 then (LM.run c.key s.log).full + 1 else (LM.run c.key s.log).full
        after := if (LM.run c.key s.log).removed.isSome then (LM.run c.key s.log).after + 1 else (LM.run c.key s.log).after } := by
    show LM.step c.key (LM.run c.key s.log) (Ev.pkt now prio c.key idx b) = _
    simp [LM.step, hnpk]
  have hc := tickInfo_core f
  -- the force flag
  have hforce_in : c.key ∈ s.files → (canStop f && !s.files.contains c.key) = false := by
    intro hin
    have : s.files.contains c.key = true := by simpa using hin
    rw [this]; simp
  have hforce_out : c.key ∉ s.files → (canStop f && !s.files.contains c.key) = canStop f := by
    intro hout
    have : s.files.contains c.key = false := by simpa using hout
    rw [this]; simp
  refine h.about (e := Ev.pkt now prio c.key idx b) (t0 := c.key) rfl rfl
    (fun toi hn => by rw [hget, if_neg hn])
    (fun toi _ => Iff.rfl) (fun toi _ hq => hq)
    (fun pc' hpc' hk => by
      rcases List.mem_cons.mp hpc' with rfl | hpc'
      · exact absurd rfl hk
      · exact List.mem_cons_of_mem _ hpc')
    h.filesNodup ?_ (fun hn => by rw [hself] at hn; cases hn) ?_ (fun _ => ⟨_, hself⟩)
  · intro f' hf'
    rw [hself] at hf'; cases hf'
    rw [hrun]
    exact
    { args := ⟨a, ha1, by rw [hc.nSym]; exact ha2, by rw [hc.maxCount]; exact ha3,
        by rw [hc.carousel]; exact ha4, by rw [hc.allowStop]; exact ha5⟩
      active := by rw [hc.transferring]; exact r.active
      stops := by rw [hc.total]; exact r.stops
      sent := fun pc hpc hk => by
        rcases List.mem_cons.mp hpc with rfl | hpc
        · rw [hc.nPk]
          show (LM.run c.key s.log).sent + 1 = e.sent ∧ e.sent ≤ f.nPk
          rw [e4, hsent]; exact ⟨rfl, e3'⟩
        · exact absurd hk (hne pc hpc)
      inFiles := fun hin => by
        obtain ⟨h1, h2⟩ := r.inFiles hin
        exact ⟨h1, by rw [hc.transferring]; exact h2⟩
      count := fun hcar => by
        rw [hc.carousel] at hcar
        rw [hc.count, hc.total, hc.burstF, hc.transferring]
        exact r.count hcar
      notStopped := fun pc hpc hk hin => by
        rcases List.mem_cons.mp hpc with rfl | hpc
        · left
          show e.stopped = false
          rw [e5]; exact hforce_in hin
        · exact absurd hk (hne pc hpc)
      removed := fun wa st hr => by
        obtain ⟨h1, h2, h3⟩ := r.removed wa st hr
        rw [hc.transferring, hc.canStop]
        refine ⟨h1, h2, fun ht => ?_⟩
        obtain ⟨h4, h5, _⟩ := h3 ht
        refine ⟨h4, h5, fun pc hpc hk => ?_⟩
        rcases List.mem_cons.mp hpc with rfl | hpc
        · have hst : e.stopped = st := by rw [e5, hforce_out h1, h5]
          constructor
          · intro h0; left; show e.stopped = false; rw [hst, h0]
          · intro h0; right; show e.stopped = true; rw [hst, h0]
        · exact absurd hk (hne pc hpc)
      faults := fun a' ha' => by rw [hc.faults]; exact r.faults a' ha'
      attempt := fun ht => by
        rw [hc.attempt, hc.faults, hc.total]; exact r.attempt (by rw [← hc.transferring]; exact ht)
      full := fun hr hfl => by
        have h1 := r.full hr (by rw [← hc.faults]; exact hfl)
        rw [hc.transferring, hc.nPk, htr]
        rw [htr, hsent] at h1
        simp only [true_and] at h1 ⊢
        rw [if_neg (by omega)] at h1
        show (if f.nPk = (LM.run c.key s.log).sent + 1 then _ else _) = _ + (if (LM.run c.key s.log).sent + 1 = f.nPk then 1 else 0)
        rw [hsent, h1]
        by_cases hl : f.nPk = c.enc.sent + 1
        · rw [if_pos hl, if_pos hl.symm]
        · rw [if_neg hl, if_neg (fun e => hl e.symm)]
      carousel := fun hcar => by rw [hc.carousel] at hcar; exact r.carousel hcar
      after0 := fun hr => by
        have hr' : (LM.run c.key s.log).removed = none := hr
        show (if (LM.run c.key s.log).removed.isSome then _ else _) = 0
        rw [hr']; exact r.after0 hr'
      transFiles := fun ht hr => by rw [hc.transferring] at ht; exact r.transFiles ht hr }
  · -- the packet passes the checks
    intro _
    refine ⟨by rw [r.active]; exact htr, by rw [e2, hsent], ⟨a, ha1, by rw [npk_eq ha2, hsent]; exact e3'⟩, ?_⟩
    intro wa st hr
    obtain ⟨h1, _, h3⟩ := r.removed wa st hr
    obtain ⟨h4, h5, h6⟩ := h3 htr
    refine ⟨h4, fun hst => ?_⟩
    obtain ⟨_, h7⟩ := h6 (prio, c) List.mem_cons_self rfl
    rcases h7 hst with ⟨_, h8⟩ | h8
    · refine ⟨h8, e6 ?_⟩
      rw [hforce_out h1, ← h5]; exact hst
    · rw [e1] at h8; cases h8

theorem LifeInv.ofDone' {s s' : State} {L : Held} {prio : Nat} {c : Cur} {f : FileDesc} {now : Nat} {e : Enc} {force : Bool}
    (hw : Wf s ((prio, c) :: L)) (h : LifeInv s ((prio, c) :: L)) (hf : getF s.objs c.key = some f)
    (he : encRead f.nSym c.enc force = (none, e))
    (hobjs : s'.objs = updF s.objs c.key (fun g => transferDoneInfo g now))
    (hlog : s'.log = Ev.stop now c.key :: s.log)
    (hf1 : ∀ t, t ∈ s'.files → t ∈ s.files) (hf2 : ∀ t, t ≠ c.key → t ∈ s.files → t ∈ s'.files)
    (hq1 : ∀ t, t ∈ s.queue → t ∈ s'.queue) (hq2 : c.key ∈ s'.files → c.key ∈ s'.queue)
    (hexp : c.key ∈ s'.files → isExpired (transferDoneInfo f now) = false)
    (hgone : c.key ∈ s.files → c.key ∉ s'.files → isExpired (transferDoneInfo f now) = true)
    (hnd : s'.files.Nodup) : LifeInv s' L := by
  have e3 := encRead_none he
  obtain ⟨f0, hf0, htr, _⟩ := hw.heldObj (prio, c) List.mem_cons_self
  rw [hf] at hf0; cases hf0
  have r := h.rel c.key f hf
  obtain ⟨a, ha1, ha2, ha3, ha4, ha5⟩ := r.args
  obtain ⟨hsent, hsle⟩ := r.sent (prio, c) List.mem_cons_self rfl
  have hnd' := hw.heldNodup
  simp only [List.map_cons, List.nodup_cons] at hnd'
  have hne : ∀ pc ∈ L, pc.2.key ≠ c.key := fun pc hpc e => hnd'.1 (List.mem_map.mpr ⟨pc, hpc, e⟩)
  have hkey : ∀ g : FileDesc, (transferDoneInfo g now).key = g.key := fun _ => rfl
  have hget : ∀ k, getF s'.objs k =
      if k = c.key then (getF s.objs k).map (fun g => transferDoneInfo g now) else getF s.objs k := by
    intro k; rw [hobjs]; exact getF_updF _ _ _ _ hkey
  have hself : getF s'.objs c.key = some (transferDoneInfo f now) := by
    rw [hget, if_pos rfl, hf]; rfl
  have hrun : LM.run c.key s'.log =
      { LM.run c.key s.log with active := false, stops := (LM.run c.key s.log).stops + 1 } := by
    rw [hlog]
    show LM.step c.key (LM.run c.key s.log) (Ev.stop now c.key) = _
    simp [LM.step]
  -- an unforced transfer ends with all packets out
  -- not stopped, or a faulty attempt
  have hnsf : ((LM.run c.key s.log).removed = none ∨ ∃ wa, (LM.run c.key s.log).removed = some (wa, false)) →
      c.enc.stopped = false ∨ (f.info.attempt.isSome = true ∧ c.enc.sent = 0) := by
    intro hr
    rcases hr with hr | ⟨wa, hr⟩
    · exact r.notStopped (prio, c) List.mem_cons_self rfl (r.transFiles htr hr)
    · obtain ⟨_, _, h3⟩ := r.removed wa false hr
      obtain ⟨_, _, h6⟩ := h3 htr
      exact (h6 (prio, c) List.mem_cons_self rfl).1 rfl
  have hfullns : c.enc.stopped = false → c.enc.sent = f.nPk := by
    intro hns
    rcases e3 with e3 | e3
    · rw [hns] at e3; cases e3
    · have h1 : f.nPk ≤ c.enc.sent := e3
      have h2 : c.enc.sent ≤ f.nPk := hsle
      omega
  have hfullsent : ((LM.run c.key s.log).removed = none ∨ ∃ wa, (LM.run c.key s.log).removed = some (wa, false)) →
      f.faults = [] → c.enc.sent = f.nPk := by
    intro hr hfl
    rcases hnsf hr with hns | ⟨hat, _⟩
    · exact hfullns hns
    · rw [r.attempt htr, hfl] at hat; cases hat
  -- the stop of an unforced transfer is legal: all packets out, or a faulty attempt without packet
  have hend : ((LM.run c.key s.log).removed = none ∨ ∃ wa, (LM.run c.key s.log).removed = some (wa, false)) →
      c.enc.sent = f.nPk ∨ (LM.run c.key s.log).removed = some (true, true) ∨
        (c.enc.sent = 0 ∧ (a.faults[(LM.run c.key s.log).stops]?).isSome = true) := by
    intro hr
    rcases hnsf hr with hns | ⟨hat, hs0⟩
    · exact Or.inl (hfullns hns)
    · refine Or.inr (Or.inr ⟨hs0, ?_⟩)
      rw [r.faults a ha1, r.stops, ← r.attempt htr]; exact hat
  refine h.about (e := Ev.stop now c.key) (t0 := c.key) rfl hlog
    (fun toi hn => by rw [hget, if_neg hn])
    (fun toi hn => ⟨hf1 toi, hf2 toi hn⟩) (fun toi _ hq => hq1 toi hq)
    (fun pc' hpc' _ => List.mem_cons_of_mem _ hpc')
    hnd ?_ (fun hn => by rw [hself] at hn; cases hn) ?_ (fun _ => ⟨_, hself⟩)
  · intro f' hf'
    rw [hself] at hf'; cases hf'
    rw [hrun]
    exact
    { args := ⟨a, ha1, ha2, ha3, ha4, ha5⟩
      active := rfl
      stops := by show (LM.run c.key s.log).stops + 1 = f.info.total + 1; rw [r.stops]
      sent := fun pc hpc hk => absurd hk (hne pc hpc)
      inFiles := fun hin => ⟨(r.inFiles (hf1 _ hin)).1, Or.inl (hq2 hin)⟩
      count := fun hcar => by
        have hcar' : f.carousel = none := hcar
        obtain ⟨h1, h2, h3⟩ := r.count hcar'
        have h3' := h3 (Or.inr htr)
        refine ⟨by show f.info.count + 1 = f.info.total + 1; rw [h1], ?_, ?_⟩
        · show f.info.total + 1 ≤ burstF f; omega
        · intro hin
          rcases hin with hin | hin
          · have hx := hexp hin
            unfold isExpired at hx
            have hx' : (if f.maxCount > f.info.count + 1 then false else f.carousel.isNone) = false := hx
            rw [hcar'] at hx'
            by_cases hm : f.maxCount > f.info.count + 1
            · show f.info.total + 1 < burstF f
              unfold burstF; rw [if_neg (by omega)]; omega
            · rw [if_neg hm] at hx'; simp at hx'
          · cases hin
      notStopped := fun pc hpc hk => absurd hk (hne pc hpc)
      removed := fun wa st hr => by
        obtain ⟨h1, h2, _⟩ := r.removed wa st hr
        exact ⟨fun hin => h1 (hf1 _ hin), fun _ => rfl, fun ht => by cases ht⟩
      faults := fun a' ha' => r.faults a' ha'
      attempt := fun ht => by cases ht
      full := fun hr hfl => by
        have h1 := r.full hr hfl
        rw [htr, hsent, hfullsent hr hfl] at h1
        simp only [and_self, if_true] at h1
        show (LM.run c.key s.log).full = (LM.run c.key s.log).stops + 1 + (if false = true ∧ _ then 1 else 0)
        rw [h1]; simp
      carousel := fun hcar => by
        have hcar' : f.carousel.isSome = true := hcar
        rcases r.carousel hcar' with h1 | h1
        · by_cases hin : c.key ∈ s'.files
          · exact Or.inl hin
          · have hx := hgone h1 hin
            unfold isExpired at hx
            have hx' : (if f.maxCount > f.info.count + 1 then false else f.carousel.isNone) = true := hx
            split at hx'
            · cases hx'
            · cases hc : f.carousel with
              | none => rw [hc] at hcar'; cases hcar'
              | some x => rw [hc] at hx'; cases hx'
        · exact Or.inr h1
      after0 := r.after0
      transFiles := fun ht => by cases ht }
  · intro _
    refine ⟨by rw [r.active]; exact htr, a, ha1, ?_⟩
    rw [npk_eq ha2, hsent]
    cases hr : (LM.run c.key s.log).removed with
    | none => rw [hr] at hend; exact hend (Or.inl rfl)
    | some p =>
      obtain ⟨wa, st⟩ := p
      obtain ⟨_, _, h3⟩ := r.removed wa st hr
      obtain ⟨h4, _, _⟩ := h3 htr
      subst h4
      cases st with
      | false => rw [hr] at hend; exact hend (Or.inr ⟨true, rfl⟩)
      | true => exact Or.inr (Or.inl rfl)

theorem LifeInv.ofDone {s : State} {L : Held} {prio : Nat} {c : Cur} {f : FileDesc} {now : Nat} {e : Enc} {force : Bool}
    (hw : Wf s ((prio, c) :: L)) (h : LifeInv s ((prio, c) :: L)) (hf : getF s.objs c.key = some f)
    (he : encRead f.nSym c.enc force = (none, e)) : LifeInv (transferDoneFile s c.key now) L := by
  have hkey : ∀ g : FileDesc, (transferDoneInfo g now).key = g.key := fun _ => rfl
  have hself : getF (doneStep s c.key now).objs c.key = some (transferDoneInfo f now) := by
    show getF (updF s.objs c.key _) c.key = _
    rw [getF_updF _ _ _ _ hkey, if_pos rfl, hf]; rfl
  rw [transferDoneFile_eq]
  split
  · rename_i hcont
    have hout : c.key ∉ s.files := by simpa using hcont
    exact LifeInv.ofDone' hw h hf he rfl rfl (fun t ht => ht) (fun t _ ht => ht) (fun t ht => ht)
      (fun hin => absurd hin hout) (fun hin => absurd hin hout) (fun hin => absurd hin hout) h.filesNodup
  · rename_i hcont
    have hin : c.key ∈ s.files := by simpa using hcont
    rw [hself]
    simp only []
    split
    · rename_i hx
      exact LifeInv.ofDone' hw h hf he rfl rfl (fun t ht => ht) (fun t _ ht => ht)
        (fun t ht => List.mem_append_left _ ht) (fun _ => List.mem_append_right _ (by simp))
        (fun _ => by simpa using hx) (fun _ hout => absurd hin hout) h.filesNodup
    · rename_i hx
      exact LifeInv.ofDone' hw h hf he rfl rfl (fun t ht => List.mem_of_mem_erase ht)
        (fun t hn ht => (List.mem_erase_of_ne hn).mpr ht) (fun t ht => ht)
        (fun hin' => absurd hin' (by
          have : c.key ∉ s.files.erase c.key := fun hm => ((h.filesNodup.mem_erase_iff).mp hm).1 rfl
          exact this))
        (fun hin' => absurd hin' (by
          have : c.key ∉ s.files.erase c.key := fun hm => ((h.filesNodup.mem_erase_iff).mp hm).1 rfl
          exact this))
        (fun _ _ => by simpa using hx) (h.filesNodup.erase _)

theorem lrun_failed_add (t toi : Nat) (a : AddArgs) (l : List Ev) :
    LM.run t (Ev.opAdd toi a false :: l) = LM.run t l := by
  show LM.step t _ _ = _; simp [LM.step]

theorem lrun_failed_remove (t toi : Nat) (l : List Ev) :
    LM.run t (Ev.opRemove toi false :: l) = LM.run t l := by
  show LM.step t _ _ = _; simp [LM.step]

theorem reset_core (f : FileDesc) (ts : Option Nat) : Core (resetLastTransfer f ts) f :=
  ⟨rfl, rfl, rfl, rfl, rfl, rfl, rfl, rfl, rfl⟩

theorem LifeInv.ofAdd {s : State} {L : Held} (a : AddArgs) (hw : Wf s L) (h : LifeInv s L) :
    LifeInv (addObject s a).1 L := by
  have hfail : LifeInv (emit { s with nextToi := s.nextToi + 1 } (Ev.opAdd s.nextToi a false)) L :=
    h.of_same (fun t => lrun_failed_add t _ a _) (fun t => ⟨h.checked t, trivial⟩) (CoreRel.refl rfl) rfl rfl
      (fun pc hpc => hpc)
  unfold addObject
  simp only []
  split
  · exact hfail
  · split
    · exact hfail
    · have hnone : getF s.objs s.nextToi = none :=
        getF_none_of_keys (fun f hf => Nat.ne_of_lt (hw.objKeys f hf).2.2)
      have hnf : s.nextToi ∉ s.files := fun hin => Nat.lt_irrefl _ (hw.filesKeys _ hin)
      have hm := h.unknown s.nextToi hnone
      have hnoheld : ∀ pc ∈ L, pc.2.key ≠ s.nextToi := by
        intro pc hpc e
        obtain ⟨g, hg, _, _⟩ := hw.heldObj pc hpc
        rw [e, hnone] at hg; cases hg
      refine h.about (e := Ev.opAdd s.nextToi a true) (t0 := s.nextToi) rfl rfl ?_ ?_
        (fun toi _ hq => List.mem_append_left _ hq) (fun pc hpc _ => hpc) ?_ ?_ ?_ trivial ?_
      · intro toi hn
        show getF (s.objs ++ [_]) toi = _
        cases hg : getF s.objs toi with
        | some g => exact getF_append_some hg
        | none =>
          rw [getF_append_none hg, getF_single]
          rw [if_neg (fun e => hn e.symm)]
      · intro toi hn
        show toi ∈ s.files ++ [s.nextToi] ↔ _
        simp [hn]
      · show (s.files ++ [s.nextToi]).Nodup
        refine List.nodup_append.mpr ⟨h.filesNodup, by simp, ?_⟩
        intro x hx y hy
        simp only [List.mem_singleton] at hy; subst hy
        intro e; exact hnf (e ▸ hx)
      · intro f' hf'
        have hg : getF (s.objs ++ [_]) s.nextToi = some f' := hf'
        rw [getF_append_none hnone, getF_single] at hg
        simp only [if_true] at hg
        cases hg
        have hrun : LM.run s.nextToi (Ev.opAdd s.nextToi a true :: s.log) = { args := some a } := by
          show LM.step s.nextToi (LM.run s.nextToi s.log) _ = _
          rw [hm]; simp [LM.step]
        show ObjRel _ L s.nextToi _ (LM.run s.nextToi (Ev.opAdd s.nextToi a true :: s.log))
        rw [hrun]
        exact
        { args := ⟨a, rfl, rfl, rfl, rfl, rfl⟩
          active := rfl
          stops := rfl
          sent := fun pc hpc hk => absurd hk (hnoheld pc hpc)
          inFiles := fun _ => ⟨rfl, Or.inl (List.mem_append_right _ (by simp))⟩
          count := fun _ => ⟨rfl, Nat.zero_le _, fun _ => by
            show 0 < burstF _
            unfold burstF; split <;> omega⟩
          notStopped := fun pc hpc hk => absurd hk (hnoheld pc hpc)
          removed := fun wa st hr => by cases hr
          faults := fun a' ha' => by cases ha'; rfl
          attempt := fun ht => by cases ht
          full := fun _ _ => rfl
          carousel := fun _ => Or.inl (List.mem_append_right _ (by simp))
          after0 := fun _ => rfl
          transFiles := fun ht => by cases ht }
      · intro hn
        have hg : getF (s.objs ++ [_]) s.nextToi = none := hn
        rw [getF_append_none hnone, getF_single] at hg
        simp at hg
      · intro _
        have hg : ∀ fd : FileDesc, fd.key = s.nextToi → getF (s.objs ++ [fd]) s.nextToi = some fd := by
          intro fd hk; rw [getF_append_none hnone, getF_single, if_pos hk]
        exact ⟨_, hg _ rfl⟩

theorem LifeInv.ofRemove {s : State} {L : Held} (t : Nat) (h : LifeInv s L) :
    LifeInv (removeObject s t).1 L := by
  unfold removeObject
  split
  · exact h.of_same (fun t' => lrun_failed_remove t' t _) (fun t' => ⟨h.checked t', trivial⟩) (CoreRel.refl rfl)
      rfl rfl (fun pc hpc => hpc)
  · rename_i hcont
    have hin : t ∈ s.files := by
      have : s.files.contains t = true := by simpa using hcont
      simpa using this
    obtain ⟨f, hf⟩ := h.filesObj t hin
    have r := h.rel t f hf
    obtain ⟨a, ha1, ha2, ha3, ha4, ha5⟩ := r.args
    have hrem := (r.inFiles hin).1
    have hnin : t ∉ s.files.erase t := fun hm => ((h.filesNodup.mem_erase_iff).mp hm).1 rfl
    have hstop : stoppable (LM.run t s.log) = canStop f := by
      unfold stoppable canStop; rw [ha1, r.stops]; simp only []; rw [ha5]
    have hrun : LM.run t (Ev.opRemove t true :: s.log) =
        { LM.run t s.log with removed := some ((LM.run t s.log).active, stoppable (LM.run t s.log)) } := by
      show LM.step t (LM.run t s.log) _ = _; simp [LM.step]
    refine h.about (e := Ev.opRemove t true) (t0 := t) rfl rfl (fun _ _ => rfl)
      (fun toi hn => ⟨fun hm => List.mem_of_mem_erase hm, fun hm => (List.mem_erase_of_ne hn).mpr hm⟩)
      (fun toi hn hq => List.mem_filter.mpr ⟨hq, by simpa using hn⟩) (fun pc hpc _ => hpc)
      (h.filesNodup.erase _) ?_ (fun hn => by
        have : getF s.objs t = none := hn
        rw [hf] at this; cases this) trivial (fun hm => absurd hm hnin)
    intro f' hf'
    have : getF s.objs t = some f' := hf'
    rw [hf] at this; cases this
    show ObjRel _ L t f (LM.run t (Ev.opRemove t true :: s.log))
    rw [hrun]
    exact
    { args := ⟨a, ha1, ha2, ha3, ha4, ha5⟩
      active := r.active
      stops := r.stops
      sent := r.sent
      inFiles := fun hm => absurd hm hnin
      count := fun hcar => by
        obtain ⟨h1, h2, h3⟩ := r.count hcar
        refine ⟨h1, h2, fun hx => ?_⟩
        rcases hx with hx | hx
        · exact absurd hx hnin
        · exact h3 (Or.inr hx)
      notStopped := fun pc hpc hk hm => absurd hm hnin
      removed := fun wa st hr => by
        simp only [Option.some.injEq, Prod.mk.injEq] at hr
        obtain ⟨h1, h2⟩ := hr
        refine ⟨hnin, fun h0 => by rw [← r.active, h1, h0], fun ht => ?_⟩
        refine ⟨by rw [← h1, r.active, ht], by rw [← h2, hstop], fun pc hpc hk => ?_⟩
        have hns := r.notStopped pc hpc hk hin
        refine ⟨fun _ => hns, fun _ => ?_⟩
        cases hst : pc.2.enc.stopped with
        | false => exact Or.inl ⟨rfl, r.after0 hrem⟩
        | true => exact Or.inr rfl
      faults := r.faults
      attempt := r.attempt
      full := fun _ hfl => r.full (Or.inl hrem) hfl
      carousel := fun _ => Or.inr rfl
      after0 := fun hr => by cases hr
      transFiles := fun _ hr => by cases hr }

theorem LifeInv.closed : Closed Wf LifeInv where
  perm := fun _ _ _ p h =>
    h.of_same (fun _ => rfl) h.checked (CoreRel.refl rfl) rfl rfl (fun pc hpc => p.mem_iff.mpr hpc)
  leaveFiles := fun _ _ _ h =>
    h.of_same (fun _ => rfl) h.checked (CoreRel.refl rfl) rfl rfl (fun pc hpc => hpc)
  enterFiles := fun _ _ _ _ h _ _ =>
    h.of_same (fun _ => rfl) h.checked (CoreRel.refl rfl) rfl rfl (fun pc hpc => hpc)
  emitRead := fun _ _ _ _ h _ => h.ofEmit trivial
  emitIdle := fun _ _ _ _ h _ => h.ofEmit trivial
  publish := fun _ _ now _ h _ => h.ofPublish now
  fdtAdvance := fun _ _ now _ h _ _ => h.ofFdtAdvance now
  fileStart := fun _ _ _ _ tk _ hw h _ hfn => h.ofFileStart tk hw hfn
  pkt := fun _ _ _ _ _ _ _ _ _ hw h _ hf _ _ he => h.ofPkt hw hf he
  done := fun _ _ _ _ _ _ _ hw h _ hf he => h.ofDone hw hf he
  fdtPkt := fun _ _ c f now idx _ e _ h _ _ _ _ _ => h.ofFdtPkt c e f.fdtId now idx
  fdtDone := fun _ _ c _ now _ _ h _ _ _ _ _ => h.ofFdtDone c.key now

theorem LifeInv.closedOps : ClosedOps Wf LifeInv where
  add := fun _ _ a hw h => h.ofAdd a hw
  remove := fun _ _ t _ h => h.ofRemove t
  trigger := fun s _ t ts _ h => by
    unfold triggerTransferAt
    split
    · exact h.ofEmit trivial
    · split
      · exact h.ofEmit trivial
      · exact h.neutral (e := Ev.opTrigger t ts true) trivial rfl
          (CoreRel.updF t _ rfl (fun _ => rfl) (fun f => reset_core f ts)) rfl rfl (fun pc hpc => hpc)
  publishOp := fun s L now _ h =>
    publishTry_elim (P := fun x => LifeInv x L) _ now ((h.ofEmit (e := Ev.opPublish now) trivial).ofPublish now)
      (h.ofEmit trivial)
  complete := fun _ _ _ h =>
    h.of_same (fun _ => rfl) h.checked (CoreRel.refl rfl) rfl rfl (fun pc hpc => hpc)

theorem LifeInv.init (cfg : Cfg) (tbl : List Nat) : LifeInv (Sched.init cfg tbl) [] where
  rel := fun toi f hf => by simp [Sched.init, getF] at hf
  unknown := fun _ _ => rfl
  checked := fun _ => trivial
  filesObj := fun t ht => by simp [Sched.init] at ht
  filesNodup := by simp [Sched.init]

/-- `Wf ∧ LifeInv` after every operation history -/
theorem life_run (cfg : Cfg) (tbl : List Nat) (ops : List Op) :
    And2 Wf LifeInv (run (Sched.init cfg tbl) ops) (heldOf (run (Sched.init cfg tbl) ops)) :=
  inv_run (Closed.and Wf.closed LifeInv.closed) (ClosedOps.and Wf.closedOps LifeInv.closedOps) cfg tbl
    ⟨Wf.init cfg tbl, LifeInv.init cfg tbl⟩ ops

/-- the check of an event somewhere in a checked trace, w.r.t. the monitor state of its past -/
theorem checked_at {toi : Nat} : ∀ (post : List Ev) (e : Ev) (pre : List Ev),
    Checked toi (post ++ e :: pre) → LM.check toi (LM.run toi pre) e := by
  intro post
  induction post with
  | nil => intro e pre h; exact h.2
  | cons x r ih => intro e pre h; exact ih e pre h.1


end Flute.Sched
