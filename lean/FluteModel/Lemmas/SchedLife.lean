import FluteModel.Lemmas.SchedShape
import FluteModel.Spec.Lifecycle
/-
  C12 part of the scheduler invariant: per object, the relation between `FileDesc`/`TransferInfo`, the
  slot holding it and the specification monitor `Spec.Lifecycle.LM` run over the log (DESIGN §9 (v)).
-/
namespace Flute.Sched
open Flute.Spec.Lifecycle

def burstF (f : FileDesc) : Nat := if f.maxCount = 0 then 1 else f.maxCount

/-- the fields of a descriptor the lifecycle relation reads -/
structure Core (f' f : FileDesc) : Prop where
  transferring : f'.info.transferring = f.info.transferring
  total : f'.info.total = f.info.total
  count : f'.info.count = f.info.count
  nSym : f'.nSym = f.nSym
  maxCount : f'.maxCount = f.maxCount
  carousel : f'.carousel = f.carousel
  allowStop : f'.allowStop = f.allowStop

theorem Core.refl (f : FileDesc) : Core f f := ⟨rfl, rfl, rfl, rfl, rfl, rfl, rfl⟩

theorem Core.nPk {f' f : FileDesc} (h : Core f' f) : f'.nPk = f.nPk := by unfold FileDesc.nPk; rw [h.nSym]
theorem Core.canStop {f' f : FileDesc} (h : Core f' f) : canStop f' = canStop f := by
  unfold Sched.canStop; rw [h.allowStop, h.total]
theorem Core.burstF {f' f : FileDesc} (h : Core f' f) : burstF f' = burstF f := by
  unfold Sched.burstF; rw [h.maxCount]

structure ObjRel (s : State) (L : Held) (toi : Nat) (f : FileDesc) (m : LM) : Prop where
  args : ∃ a, m.args = some a ∧ a.nSym = f.nSym ∧ a.maxCount = f.maxCount ∧ a.carousel = f.carousel ∧
    a.allowStop = f.allowStop
  active : m.active = f.info.transferring
  stops : m.stops = f.info.total
  sent : ∀ pc ∈ L, pc.2.key = toi → m.sent = pc.2.enc.sent ∧ pc.2.enc.sent ≤ f.nPk
  inFiles : toi ∈ s.files → m.removed = none ∧ (toi ∈ s.queue ∨ f.info.transferring = true)
  count : f.carousel = none → f.info.count = f.info.total ∧ f.info.total ≤ burstF f ∧
    ((toi ∈ s.files ∨ f.info.transferring = true) → f.info.total < burstF f)
  notStopped : ∀ pc ∈ L, pc.2.key = toi → toi ∈ s.files → pc.2.enc.stopped = false
  removed : ∀ wa st, m.removed = some (wa, st) → toi ∉ s.files ∧ (wa = false → f.info.transferring = false) ∧
    (f.info.transferring = true → wa = true ∧ st = canStop f ∧ ∀ pc ∈ L, pc.2.key = toi →
      (st = false → pc.2.enc.stopped = false) ∧
      (st = true → (pc.2.enc.stopped = false ∧ m.after = 0) ∨ pc.2.enc.stopped = true))
  full : (m.removed = none ∨ ∃ wa, m.removed = some (wa, false)) →
    m.full = m.stops + (if f.info.transferring = true ∧ m.sent = f.nPk then 1 else 0)
  carousel : f.carousel.isSome = true → toi ∈ s.files ∨ m.removed.isSome = true
  after0 : m.removed = none → m.after = 0
  transFiles : f.info.transferring = true → m.removed = none → toi ∈ s.files

theorem ObjRel.of_same {s s' : State} {L L' : Held} {toi : Nat} {f f' : FileDesc} {m : LM}
    (h : ObjRel s L toi f m) (hc : Core f' f)
    (hfiles : toi ∈ s'.files ↔ toi ∈ s.files) (hqueue : toi ∈ s.queue → toi ∈ s'.queue)
    (hL : ∀ pc' ∈ L', pc'.2.key = toi → pc' ∈ L) : ObjRel s' L' toi f' m where
  args := by
    obtain ⟨a, h1, h2, h3, h4, h5⟩ := h.args
    exact ⟨a, h1, by rw [hc.nSym]; exact h2, by rw [hc.maxCount]; exact h3, by rw [hc.carousel]; exact h4,
      by rw [hc.allowStop]; exact h5⟩
  active := by rw [hc.transferring]; exact h.active
  stops := by rw [hc.total]; exact h.stops
  sent := fun pc hpc hk => by rw [hc.nPk]; exact h.sent pc (hL pc hpc hk) hk
  inFiles := fun hf => by
    obtain ⟨h1, h2⟩ := h.inFiles (hfiles.mp hf)
    refine ⟨h1, ?_⟩
    rcases h2 with h2 | h2
    · exact Or.inl (hqueue h2)
    · exact Or.inr (by rw [hc.transferring]; exact h2)
  count := fun hcar => by
    rw [hc.carousel] at hcar
    obtain ⟨h1, h2, h3⟩ := h.count hcar
    rw [hc.count, hc.total, hc.burstF, hc.transferring, hfiles]
    exact ⟨h1, h2, h3⟩
  notStopped := fun pc hpc hk hf => h.notStopped pc (hL pc hpc hk) hk (hfiles.mp hf)
  removed := fun wa st hr => by
    obtain ⟨h1, h2, h3⟩ := h.removed wa st hr
    rw [hc.transferring, hc.canStop]
    refine ⟨fun hf => h1 (hfiles.mp hf), h2, fun ht => ?_⟩
    obtain ⟨h4, h5, h6⟩ := h3 ht
    exact ⟨h4, h5, fun pc hpc hk => h6 pc (hL pc hpc hk) hk⟩
  full := fun hr => by rw [hc.transferring, hc.nPk]; exact h.full hr
  carousel := fun hcar => by
    rw [hc.carousel] at hcar
    rcases h.carousel hcar with h1 | h1
    · exact Or.inl (hfiles.mpr h1)
    · exact Or.inr h1
  after0 := h.after0
  transFiles := fun ht hr => by rw [hc.transferring] at ht; exact hfiles.mpr (h.transFiles ht hr)

structure LifeInv (s : State) (L : Held) : Prop where
  rel : ∀ toi f, getF s.objs toi = some f → ObjRel s L toi f (LM.run toi s.log)
  unknown : ∀ toi, getF s.objs toi = none → LM.run toi s.log = {}
  checked : ∀ toi, Checked toi s.log
  filesObj : ∀ t ∈ s.files, ∃ f, getF s.objs t = some f
  filesNodup : s.files.Nodup

/-- events that neither the monitor nor the checks of any object look at -/
def LNeutral : Ev → Prop
  | .opAdd .. => False
  | .start .. => False
  | .pkt .. => False
  | .stop .. => False
  | .opRemove .. => False
  | .pub .. => False
  | _ => True

theorem lrun_neutral {e : Ev} (h : LNeutral e) (toi : Nat) (l : List Ev) : LM.run toi (e :: l) = LM.run toi l := by
  cases e <;> first | rfl | exact absurd h (by simp [LNeutral])

theorem checked_neutral {e : Ev} (h : LNeutral e) (toi : Nat) {l : List Ev} (hl : Checked toi l) :
    Checked toi (e :: l) := by
  cases e <;> first | exact ⟨hl, trivial⟩ | exact absurd h (by simp [LNeutral])

/-- descriptors of `s'` are those of `s` up to `Core` -/
def CoreRel (s' s : State) : Prop :=
  ∀ toi, (getF s.objs toi = none → getF s'.objs toi = none) ∧
    (∀ f, getF s.objs toi = some f → ∃ f', getF s'.objs toi = some f' ∧ Core f' f)

theorem CoreRel.refl {s' s : State} (h : s'.objs = s.objs) : CoreRel s' s := by
  intro toi; rw [h]; exact ⟨id, fun f hf => ⟨f, hf, Core.refl f⟩⟩

theorem CoreRel.updF {s' s : State} (k : Nat) (g : FileDesc → FileDesc) (h : s'.objs = Sched.updF s.objs k g)
    (hk : ∀ f, (g f).key = f.key) (hg : ∀ f, Core (g f) f) : CoreRel s' s := by
  intro toi
  rw [h, getF_updF _ _ _ _ hk]
  constructor
  · intro hn; split <;> simp [hn]
  · intro f hf
    split
    · exact ⟨g f, by rw [hf]; rfl, hg f⟩
    · exact ⟨f, hf, Core.refl f⟩

theorem CoreRel.inv {s' s : State} (h : CoreRel s' s) {toi : Nat} {f' : FileDesc}
    (hf' : getF s'.objs toi = some f') : ∃ f, getF s.objs toi = some f ∧ Core f' f := by
  cases hf : getF s.objs toi with
  | none => rw [(h toi).1 hf] at hf'; cases hf'
  | some f =>
    obtain ⟨f'', h1, h2⟩ := (h toi).2 f hf
    rw [hf'] at h1; cases h1
    exact ⟨f, rfl, h2⟩

/-- a primitive that does not concern any object's lifecycle -/
theorem LifeInv.of_same {s s' : State} {L L' : Held} (h : LifeInv s L)
    (hlog : ∀ toi, LM.run toi s'.log = LM.run toi s.log) (hchk : ∀ toi, Checked toi s'.log)
    (hobjs : CoreRel s' s) (hfiles : s'.files = s.files) (hqueue : s'.queue = s.queue)
    (hL : ∀ pc' ∈ L', pc' ∈ L) : LifeInv s' L' where
  rel := fun toi f' hf' => by
    obtain ⟨f, hf, hc⟩ := hobjs.inv hf'
    rw [hlog]
    exact (h.rel toi f hf).of_same hc (by rw [hfiles]) (by rw [hqueue]; exact id) (fun pc hpc _ => hL pc hpc)
  unknown := fun toi hn => by
    rw [hlog]
    cases hf : getF s.objs toi with
    | none => exact h.unknown toi hf
    | some f =>
      obtain ⟨f', h1, _⟩ := (hobjs toi).2 f hf
      rw [hn] at h1; cases h1
  checked := hchk
  filesObj := fun t ht => by
    rw [hfiles] at ht
    obtain ⟨f, hf⟩ := h.filesObj t ht
    obtain ⟨f', h1, _⟩ := (hobjs t).2 f hf
    exact ⟨f', h1⟩
  filesNodup := by rw [hfiles]; exact h.filesNodup

theorem LifeInv.neutral {s s' : State} {L L' : Held} {e : Ev} (h : LifeInv s L) (hn : LNeutral e)
    (hlog : s'.log = e :: s.log) (hobjs : CoreRel s' s) (hfiles : s'.files = s.files)
    (hqueue : s'.queue = s.queue) (hL : ∀ pc' ∈ L', pc' ∈ L) : LifeInv s' L' :=
  h.of_same (fun toi => by rw [hlog]; exact lrun_neutral hn toi _)
    (fun toi => by rw [hlog]; exact checked_neutral hn toi (h.checked toi)) hobjs hfiles hqueue hL

theorem pubDesc_content_sub (s : State) : ∀ t ∈ (pubDesc s).content, t ∈ s.files := by
  intro t ht
  have : t ∈ (match s.cfg.mode with | .full => s.files | .being => s.files.filter (isTransferring s)) := ht
  cases hm : s.cfg.mode with
  | full => rw [hm] at this; exact this
  | being => rw [hm] at this; exact (List.mem_filter.mp this).1

theorem pubMark_core (fs : List Nat) (f : FileDesc) : Core (pubMark fs f) f := by
  unfold pubMark; split
  · exact ⟨rfl, rfl, rfl, rfl, rfl, rfl, rfl⟩
  · exact Core.refl f

theorem burst_eq {a : AddArgs} {f : FileDesc} (h : a.maxCount = f.maxCount) : burst a = burstF f := by
  unfold burst burstF; rw [h]

theorem npk_eq {a : AddArgs} {f : FileDesc} (h : a.nSym = f.nSym) : npk a = f.nPk := by
  unfold npk FileDesc.nPk; rw [h]

theorem LifeInv.ofPublish {s : State} {L : Held} (now : Nat) (h : LifeInv s L) : LifeInv (publish s now) L := by
  have hcr : CoreRel (publish s now) s := by
    intro toi
    rw [publish_getF_objs]
    constructor
    · intro hn; rw [hn]; rfl
    · intro f hf; exact ⟨pubMark s.files f, by rw [hf]; rfl, pubMark_core _ f⟩
  refine h.of_same (fun toi => rfl) ?_ hcr rfl rfl (fun pc hpc => hpc)
  intro toi
  refine ⟨h.checked toi, ?_⟩
  show toi ∈ (pubDesc s).content → _
  intro hin
  have hf := pubDesc_content_sub s toi hin
  obtain ⟨f, hgf⟩ := h.filesObj toi hf
  have r := h.rel toi f hgf
  obtain ⟨a, h1, _, h3, h4, _⟩ := r.args
  refine ⟨(r.inFiles hf).1, a, h1, ?_⟩
  intro hcar
  rw [h4] at hcar
  rw [r.stops, burst_eq h3]
  exact (r.count hcar).2.2 (Or.inl hf)

theorem LifeInv.ofEmit {s : State} {L : Held} {e : Ev} (hn : LNeutral e) (h : LifeInv s L) : LifeInv (emit s e) L :=
  h.neutral hn rfl (CoreRel.refl rfl) rfl rfl (fun pc hpc => hpc)

theorem fdtPop_files (s : State) : (fdtPop s).files = s.files := by unfold fdtPop; split <;> rfl
theorem fdtPop_queue (s : State) : (fdtPop s).queue = s.queue := by unfold fdtPop; split <;> rfl
theorem transferDoneFdt_files (s : State) (k now : Nat) : (transferDoneFdt s k now).files = s.files := by
  unfold transferDoneFdt; simp only []; split
  · split <;> rfl
  · rfl
theorem transferDoneFdt_queue (s : State) (k now : Nat) : (transferDoneFdt s k now).queue = s.queue := by
  unfold transferDoneFdt; simp only []; split
  · split <;> rfl
  · rfl
theorem transferDoneFdt_log (s : State) (k now : Nat) : (transferDoneFdt s k now).log = Ev.fdtStop now k :: s.log := by
  unfold transferDoneFdt; simp only []; split
  · split <;> rfl
  · rfl

theorem LifeInv.ofFdtAdvance {s : State} {L : Held} (now : Nat) (h : LifeInv s L) : LifeInv (fdtAdvance s now) L := by
  have h1 : LifeInv (fdtPop s) L :=
    h.of_same (fun toi => by rw [fdtPop_log]) (fun toi => by rw [fdtPop_log]; exact h.checked toi)
      (CoreRel.refl (fdtPop_objs s)) (fdtPop_files s) (fdtPop_queue s) (fun pc hpc => hpc)
  rcases fdtAdvance_cases s now with ⟨e, _⟩ | ⟨k, f, _, _, _, e⟩
  · rw [e]; exact h1
  · rw [e]
    exact h1.neutral (e := Ev.fdtStart now k) trivial rfl (CoreRel.refl rfl) rfl rfl (fun pc hpc => hpc)

theorem LifeInv.ofFdtDone {s : State} {L : Held} (k now : Nat) (h : LifeInv s L) : LifeInv (fdtRelease s k now) L :=
  h.neutral (e := Ev.fdtStop now k) trivial (by unfold fdtRelease; exact transferDoneFdt_log s k now)
    (CoreRel.refl (by unfold fdtRelease; exact transferDoneFdt_objs s k now))
    (by unfold fdtRelease; exact transferDoneFdt_files s k now)
    (by unfold fdtRelease; exact transferDoneFdt_queue s k now) (fun pc hpc => hpc)

theorem LifeInv.ofFdtPkt {s : State} {L : Held} (c : Cur) (e : Enc) (id now idx : Nat) (h : LifeInv s L) :
    LifeInv (fdtStep s c e id now idx) L :=
  h.neutral (e := Ev.fdt now c.key id idx) trivial rfl (CoreRel.refl rfl) rfl rfl (fun pc hpc => hpc)

/-- the object an event is about (for the lifecycle monitor) -/
def evAbout : Ev → Option Nat
  | .opAdd t _ _ => some t
  | .start _ t _ _ => some t
  | .pkt _ _ t _ _ => some t
  | .stop _ t => some t
  | .opRemove t _ => some t
  | _ => none

theorem lrun_other {e : Ev} {t0 toi : Nat} (he : evAbout e = some t0) (hne : toi ≠ t0) (l : List Ev) :
    LM.run toi (e :: l) = LM.run toi l := by
  have hne' : ¬ t0 = toi := fun h => hne h.symm
  show LM.step toi _ e = _
  cases e with
  | opAdd t a ok => simp only [evAbout, Option.some.injEq] at he; subst he; simp [LM.step, hne']
  | start n t st tk => simp only [evAbout, Option.some.injEq] at he; subst he; simp [LM.step, hne']
  | pkt n p t i b => simp only [evAbout, Option.some.injEq] at he; subst he; simp [LM.step, hne']
  | stop n t => simp only [evAbout, Option.some.injEq] at he; subst he; simp [LM.step, hne']
  | opRemove t ok => simp only [evAbout, Option.some.injEq] at he; subst he; simp [LM.step, hne']
  | _ => simp [evAbout] at he

theorem checked_other {e : Ev} {t0 toi : Nat} (he : evAbout e = some t0) (hne : toi ≠ t0) {l : List Ev}
    (hl : Checked toi l) : Checked toi (e :: l) := by
  have hne' : ¬ t0 = toi := fun h => hne h.symm
  refine ⟨hl, ?_⟩
  cases e with
  | opAdd t a ok => trivial
  | start n t st tk =>
    simp only [evAbout, Option.some.injEq] at he; subst he; intro h; exact absurd h hne'
  | pkt n p t i b =>
    simp only [evAbout, Option.some.injEq] at he; subst he; intro h; exact absurd h hne'
  | stop n t =>
    simp only [evAbout, Option.some.injEq] at he; subst he; intro h; exact absurd h hne'
  | opRemove t ok => trivial
  | _ => simp [evAbout] at he

end Flute.Sched
