import FluteModel.MultiRecvRecv
import FluteModel.RecvWire
/-
  `MultiReceiver::push(endpoint, pkt, now)` as ONE function of the datagram BYTES (the entry point of C04):
  `let alc = alc::parse_alc_pkt(pkt)?;` (agent wire's parser model `Alc.parseAlcPkt`), then the routing of
  `MultiRecv.push` on `alc.lct.tsi` / `alc.lct.close_session`.  `.error` = the call panicked.
-/
namespace Flute.MultiRecv
open Flute

variable {σ π Out : Type}

/-- what the bytes-level call hands to the routing: `none` when the parser answers `Err`, else TSI and
    Close Session flag of the parsed header, and (`env`) whatever the session receiver is given of the packet -/
def parsedOf (env : List Nat → Alc.AlcPkt → π) (d : List Nat) : Rs (Option (Pkt π)) :=
  match Alc.parseAlcPkt d with
  | .panic w => .error w
  | .err => .ok none
  | .ok p => .ok (some ⟨p.lct.tsi, p.lct.closeSession, env d p⟩)

/-- **`MultiReceiver::push` on bytes** -/
def pushBytes (M : Machine σ π Out) (env : List Nat → Alc.AlcPkt → π) (s : State σ Out) (ep : Endpoint)
    (d : List Nat) : Rs (State σ Out × Res) :=
  match parsedOf env d with
  | .error w => .error w
  | .ok p => .ok (push M s ep p)

/-- what `Receiver::push(&alc, now)` is given for the receiver model `Flute.Recv`: the abstraction `Recv.ofAlc` of the
    parsed packet (agent recv's `RecvWire.lean`), the `now` argument, the XML parser's answer -/
def recvEnv (now : Int) (ans : Recv.FdtAns) (d : List Nat) (p : Alc.AlcPkt) : REnv :=
  ⟨Recv.ofAlc d p, now, ans, fun _ => ⟨fun _ => false, fun _ => false⟩⟩

/-- calls of a `MultiReceiver` at the byte level -/
inductive BOp where
  | push (ep : Endpoint) (d : List UInt8) (now : Int) (ans : Recv.FdtAns)
  | cleanup (now : Int) (stale : Key → Recv.Stale)
  | drop (now : Int)
  | tick (dt : Nat)
  | addListen (ep : Endpoint) (tsi : Nat)
  | removeListen (ep : Endpoint) (tsi : Nat)
  | addAll (ep : Endpoint)
  | removeAll (ep : Endpoint)
  | setFiltering (b : Bool)
  | addListener
  | removeListener (id : Nat)

/-- environment of a call that carries no packet -/
def envNoPkt (now : Int) (stale : Key → Recv.Stale) : REnv := ⟨default, now, .err, stale⟩

/-- the byte-level call as the call of the model; a parser panic (excluded by `Props.C04.Wire.parse_total`) is mapped
    to "unparsable" here and kept visible by `pushBytes` -/
def BOp.abs : BOp → Op REnv
  | .push ep d now ans =>
    .push ep (match parsedOf (recvEnv now ans) (d.map UInt8.toNat) with | .ok p => p | .error _ => none)
  | .cleanup now stale => .cleanup (envNoPkt now stale)
  | .drop now => .drop (envNoPkt now (fun _ => ⟨fun _ => false, fun _ => false⟩))
  | .tick dt => .tick dt
  | .addListen ep tsi => .addListen ep tsi
  | .removeListen ep tsi => .removeListen ep tsi
  | .addAll ep => .addAll ep
  | .removeAll ep => .removeAll ep
  | .setFiltering b => .setFiltering b
  | .addListener => .addListener
  | .removeListener id => .removeListener id

end Flute.MultiRecv
