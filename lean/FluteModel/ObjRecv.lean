import FluteModel.Partition
import FluteModel.FecDec
/-
  Model of src/receiver/objectreceiver.rs (ObjectReceiver), src/receiver/blockwriter.rs (BlockWriter),
  src/receiver/uncompress.rs + src/tools/ringbuffer.rs (as a bounded FIFO in front of an abstract streaming
  decompressor), and of the way src/receiver/receiver.rs drives them (`Sess`, bottom of the file).

  Conventions
  * A Rust panic (overflow in the dev profile, failed `debug_assert!`, `unwrap` of `None`) is `.error (.panic why)`,
    a loop that does not terminate is `.error .hang` (loops without a decreasing measure carry fuel);
    `Err(FluteError)` results are ordinary values (`Bool` = `is_ok()`), state changes made before the `Err` are kept
    (the Rust functions take `&mut self`).
  * Every call the code makes on the `ObjectWriterBuilder` / `ObjectWriter` is pushed on `St.out` (most recent first).
    The answers of the writer side come from `Env`, an arbitrary environment.
  * `now`, logging, opentelemetry, content location/type, groups, e-tag are not modelled (they do not influence control flow).
  * An object with TOI 0 (the FDT, owned by `FdtReceiver`) is not covered: `set_fdt_id_from_pkt` and the
    "force cenc Null for the FDT" branch are for TOI 0 only.
  * `AlcPkt.oti` / `AlcPkt.transfer_length` are both `fti.map(..)` of one `Option` in `parse_alc_pkt`; the model's
    packet carries that single option (`fti`), hence the "OTI without transfer length" branch of `set_oti_from_pkt`
    is not reachable and not modelled.
  * `blocks_offset as u32` (push_to_block2) is modelled without truncation: it differs only after 2^32 written blocks.
-/
namespace Flute.ObjRecv
open Flute Flute.FecDec

inductive Fault
  | panic (why : String)
  | hang
deriving Repr

abbrev Rx (α : Type) := Except Fault α

def liftRs {α : Type} : Rs α → Rx α
  | .ok v => .ok v
  | .error w => .error (.panic w)

def MAX_PREALLOCATED_BLOCKS : Nat := 2048

inductive Cenc
  | null | zlib | deflate | gzip
deriving DecidableEq, Repr

/-- parsed ALC packet (`alc::AlcPkt`) for a TOI ≠ 0, as far as `ObjectReceiver` reads it -/
structure Pkt where
  toi : Nat
  /-- codepoint of the LCT header (selects the inline payload-ID layout in `receiver.rs`) -/
  cp : Scheme
  /-- `lct.close_object` (B flag) -/
  close : Bool
  /-- EXT_FTI: `(oti, transfer_length)` -/
  fti : Option (Oti × Nat)
  /-- EXT_CENC -/
  cenc : Option Cenc
  /-- `data[data_alc_header_offset .. data_payload_offset]`: the FEC payload ID bytes -/
  pid : Bytes
  /-- `data[data_payload_offset ..]` -/
  payload : Bytes
  /-- `data.len()` (whole datagram, what the packet cache accounts) -/
  dataLen : Nat
deriving Repr

/-- what `attach_fdt` reads from the FDT instance for this TOI -/
structure FileEntry where
  /-- `fdt.get_oti_for_file(file)` -/
  oti : Option Oti
  /-- `file.get_transfer_length()` -/
  tl : Nat
  /-- `file.content_length` -/
  cl : Option Nat
  /-- `file.content_encoding` mapped to `Cenc` (`Null` when absent or unknown) -/
  cenc : Cenc
  /-- `file.content_md5` -/
  md5 : Option String
  /-- `file.get_object_cache_control(..) == NoCache` -/
  noCache : Bool
deriving Repr

structure PayloadId where
  sbn : Nat
  esi : Nat
  sbl : Option Nat
deriving Repr

def beNat (bs : Bytes) : Nat := bs.foldl (fun a b => a * 256 + b) 0

/-- `AlcCodec::get_fec_inline_payload_id` for the scheme `s`; `none` = `Err` -/
def inlinePayloadId (s : Scheme) (pid : Bytes) : Option PayloadId :=
  let v := beNat pid
  match s with
  | .noCode | .raptor => if pid.length = 4 then some ⟨v / 65536, v % 65536, none⟩ else none
  | .rs28 => if pid.length = 4 then some ⟨v / 256, v % 256, none⟩ else none
  | .raptorQ => if pid.length = 4 then some ⟨v / 16777216, v % 16777216, none⟩ else none
  | .rs28us => if pid.length = 8 then some ⟨v / 4294967296 % 4294967296, v % 65536, some (v / 65536 % 65536)⟩ else none
  | .rs2m => none    -- "not supported"

/-- `alc::parse_payload_id(pkt, oti)`: the layout is chosen by the OBJECT's scheme, the byte range by the packet's
    codepoint.  (The `u32 >> m` of alcrs2m.rs is guarded by `m >= 32 => Err`; the outer `Rx` never is `.error`.) -/
def parsePayloadId (o : Oti) (p : Pkt) : Rx (Option PayloadId) :=
  match o.scheme with
  | .rs2m =>
    if p.pid.length = 4 then
      let v := beNat p.pid
      let m := match o.ss with
        | some (.rs m _) => m
        | _ => 8
      if 32 ≤ m then .ok none else      -- "Invalid finite field parameter m" (repaired by agent wire, ac68faf)
      .ok (some ⟨v / 2 ^ m, v % 2 ^ m, none⟩)
    else .ok none
  | s => .ok (inlinePayloadId s p.pid)

inductive OState
  | receiving | completed | interrupted | error
deriving DecidableEq, Repr

/-- `ObjectWriterSessionState` -/
inductive WS
  | idle | closed | opened | error
deriving DecidableEq, Repr

inductive BuilderAns
  | store | already | abort
deriving DecidableEq, Repr

/-- `ObjectMetadata` fields the model tracks -/
structure Meta where
  tl : Option Nat
  cl : Option Nat
  cenc : Option Cenc
  md5 : Option String
  oti : Option Oti
deriving Repr

/-- one call on the writer builder / the writer -/
inductive WCall
  | new (m : Meta) (ans : BuilderAns)
  | open (ok : Bool)
  | write (sbn : Nat) (data : Bytes) (ok : Bool)
  | complete
  | error
  | interrupted
deriving Repr

/-- answers of one `new_object_writer` call and of the writer it returns -/
structure Plan where
  ans : BuilderAns
  md5Check : Bool
  openOk : Bool
  writeOk : Nat → Bool

/-- the writer side: `plan k` answers the k-th `new_object_writer` call of this object -/
structure Env where
  plan : Nat → Plan

/-- one `Decompress::read(buf)` call as the decompressor sees it -/
structure DzCall where
  avail : Bytes     -- bytes currently in the ring buffer, oldest first
  fin : Bool        -- `finish()` was called
  buflen : Nat
deriving Repr

inductive DzRes
  | data (out : Bytes)   -- `Ok(out.len())`, `[]` = `Ok(0)`
  | wouldBlock
  | err
deriving Repr

structure DzOut where
  take : Nat             -- how many ring bytes the call consumed
  res : DzRes
deriving Repr

/-- `Box<dyn Decompress>` = flate2 decoder over a `RingBuffer` (a FIFO holding at most `cap - 1` bytes) -/
structure DzSt where
  cap : Nat
  ring : Bytes
  fin : Bool
  hist : List DzCall
deriving Repr

/-- `BlockWriter` -/
structure BW where
  sbn : Nat
  bytesLeft : Nat
  clLeft : Option Nat
  cenc : Cenc
  dz : Option DzSt
  bufLen : Nat
  /-- `md5_context`: the bytes consumed so far -/
  md5ctx : Option Bytes
  md5 : Option String
  /-- the announced Content-Length -/
  cl : Option Nat := none
  /-- `nb_bytes_written`: bytes handed to the writer (writes that returned Ok) -/
  nbWritten : Nat := 0
  /-- `content_discarded`: decoder output beyond the announced Content-Length was dropped -/
  discarded : Bool := false
deriving Repr

structure Params where
  codec : Codec
  /-- the streaming decompressor: a deterministic function of its call history -/
  dzRead : Cenc → List DzCall → DzCall → DzOut
  /-- fuel of one `decoder_read` (a modelling device: the Rust loop has no counter) as a function of the BlockWriter at the call -
      it may depend on the ring content, the buffer size, the history -/
  dzFuel : BW → Nat
  /-- base64 of the MD5 digest -/
  md5 : Bytes → String
  env : Env

/-- `ObjectReceiver` -/
structure St where
  state : OState := .receiving
  toi : Nat
  oti : Option Oti := none
  /-- `cache`, most recently pushed first (`Vec::pop` takes the head) -/
  cache : List Pkt := []
  cacheSize : Nat := 0
  maxSize : Nat
  blocks : List Block := []
  blocksOffset : Nat := 0
  tl : Option Nat := none
  cenc : Option Cenc := none
  md5 : Option String := none
  md5Check : Bool := false
  aLarge : Nat := 0
  aSmall : Nat := 0
  nbALarge : Nat := 0
  nbBlocks : Nat := 0
  /-- `object_writer.map(|w| w.state)` -/
  writer : Option WS := none
  bw : Option BW := none
  fdtId : Option Nat := none
  nbAlloc : Nat := 0
  totalAlloc : Nat := 0
  cl : Option Nat := none
  noCache : Option Bool := none
  /-- number of `new_object_writer` calls made by this object -/
  nBuilder : Nat := 0
  /-- index of the call that returned the writer -/
  wIdx : Nat := 0
  /-- number of `write` calls on the writer -/
  nWrites : Nat := 0
  /-- all calls, most recent first -/
  out : List WCall := []

def St.new (toi maxSize : Nat) : St := { toi := toi, maxSize := maxSize }

def St.nbBlock (st : St) : Nat := st.blocksOffset + st.blocks.length

def St.meta (st : St) : Meta := { tl := st.tl, cl := st.cl, cenc := st.cenc, md5 := st.md5, oti := st.oti }

/-- `complete()` -/
def complete (st : St) : St :=
  let st := { st with state := .completed }
  let st := match st.writer with
    | some _ => { st with writer := some .closed, out := .complete :: st.out }
    | none => st
  { st with blocks := [], cache := [], cacheSize := 0 }

/-- `error(_, _, interrupted)` -/
def error (st : St) (interrupted : Bool) : St :=
  let st := { st with state := if interrupted then .interrupted else .error }
  let st := match st.writer with
    | some _ => { st with writer := some .error, out := (if interrupted then WCall.interrupted else WCall.error) :: st.out }
    | none => st
  { st with blocks := [], cache := [], cacheSize := 0 }

/-- `ObjectWriter::write` on the monitored writer -/
def wWrite (P : Params) (st : St) (sbn : Nat) (data : Bytes) : St × Bool :=
  let ok := (P.env.plan st.wIdx).writeOk st.nWrites
  ({ st with nWrites := st.nWrites + 1, out := .write sbn data ok :: st.out }, ok)

/-! ### BlockWriter -/

def BW.new (tl : Nat) (cl : Option Nat) (cenc : Cenc) (md5 : Bool) : BW :=
  { sbn := 0, bytesLeft := tl, clLeft := cl, cenc := cenc, dz := none, bufLen := 0,
    md5ctx := if md5 then some [] else none, md5 := none, cl := cl, nbWritten := 0, discarded := false }

/-- `check_content_length` -/
def BW.checkCl (w : BW) : Bool :=
  match w.cl with
  | some n => n == w.nbWritten && !w.discarded
  | none => true

/-- `check_md5` -/
def BW.checkMd5 (w : BW) (md5 : String) : Bool :=
  match w.md5 with
  | some m => m == md5
  | none => true

/-- `decoder_read`: result flag `false` = `Err` -/
def decoderRead (P : Params) : Nat → St → BW → Rx (St × BW × Bool)
  | 0, _, _ => .error .hang
  | fuel + 1, st, w =>
    match w.dz with
    | none => .error (.panic "decoder_read: unwrap on None")
    | some dz =>
      let call : DzCall := { avail := dz.ring, fin := dz.fin, buflen := w.bufLen }
      let o := P.dzRead w.cenc dz.hist call
      let dz' : DzSt := { dz with ring := dz.ring.drop o.take, hist := dz.hist ++ [call] }
      let w := { w with dz := some dz' }
      match o.res with
      | .wouldBlock => .ok (st, w, true)
      | .err => .ok (st, w, false)
      | .data out =>
        let out := out.take w.bufLen
        if out.isEmpty then .ok (st, w, true) else
        -- the announced content has been written: keep draining the decoder, discard what it returns
        if w.clLeft = some 0 then decoderRead P fuel st { w with discarded := true } else
        let w := { w with md5ctx := w.md5ctx.map (· ++ out) }
        let (st, okw) := wWrite P st w.sbn out
        if !okw then .ok (st, w, false) else
        let w := { w with clLeft := w.clLeft.map (· - out.length), nbWritten := w.nbWritten + out.length }
        decoderRead P fuel st w

/-- the `loop` of `decode_write_pkt` -/
def dwLoop (P : Params) : Nat → St → BW → Bytes → Nat → Bool → Rx (St × BW × Bool)
  | 0, _, _, _, _, _ => .error .hang
  | fuel + 1, st, w, pkt, offset, stalled =>
    match w.dz with
    | none => .error (.panic "decode_write_pkt: unwrap on None")
    | some dz =>
      -- RingBuffer::write: at most `write_size()` = cap - 1 - used bytes
      let free := dz.cap - 1 - dz.ring.length
      let size := min free (pkt.length - offset)
      let dz := { dz with ring := dz.ring ++ (pkt.drop offset).take size }
      let w := { w with dz := some dz }
      match decoderRead P (P.dzFuel w) st w with
      | .error f => .error f
      | .ok (st, w, false) => .ok (st, w, false)
      | .ok (st, w, true) =>
        let offset := offset + size
        if offset = pkt.length then .ok (st, w, true)
        -- two iterations in a row without room in the ring: the decoder does not consume its input any more
        else if size = 0 ∧ stalled then .ok (st, w, false)
        else dwLoop P fuel st w pkt offset (size = 0)

/-- `decode_write_pkt` -/
def decodeWritePkt (P : Params) (st : St) (w : BW) (pkt : Bytes) : Rx (St × BW × Bool) :=
  match w.dz with
  | none =>
    -- init_decoder: RingBuffer::new(2 * len), ring.write(pkt) (a 0-sized ring has write_size() = 0: saturating)
    -- the constructor of the flate2 decoder may already read from the ring (GzDecoder::new parses the header):
    -- it is the first call of the history, with an empty output buffer
    let ctor : DzCall := { avail := pkt, fin := false, buflen := 0 }
    let o := P.dzRead w.cenc [] ctor
    let dz : DzSt := { cap := 2 * pkt.length, ring := pkt.drop o.take, fin := false, hist := [ctor] }
    let w := { w with dz := some dz, bufLen := pkt.length }
    decoderRead P (P.dzFuel w) st w
  | some _ => dwLoop P (2 * pkt.length + 2) st w pkt 0 false

/-- "Detect the size of the last symbol": `match self.bytes_left > data.len() { true => data, false => &data[..self.bytes_left] }` -/
def trimTo (bytesLeft : Nat) (data : Bytes) : Bytes :=
  if bytesLeft > data.length then data else data.take bytesLeft

/-- the data part of `BlockWriter::write`: `write_pkt_cenc_null` or `decode_write_pkt` -/
def bwData (P : Params) (st : St) (w : BW) (data : Bytes) : Rx (St × BW × Bool) :=
  if w.cenc = .null then
    let w := { w with md5ctx := w.md5ctx.map (· ++ data) }
    let (st, ok) := wWrite P st w.sbn data
    .ok (st, { w with nbWritten := if ok then w.nbWritten + data.length else w.nbWritten }, ok)
  else decodeWritePkt P st w data

/-- all blocks written: `decoder.finish()` + `decoder_read` when a decompressor exists -/
def bwFinish (P : Params) (st : St) (w : BW) : Rx (St × BW × Bool) :=
  match w.dz with
  | some dz =>
    let w := { w with dz := some { dz with fin := true } }
    decoderRead P (P.dzFuel w) st w
  | none => .ok (st, w, true)

/-- `BlockWriter::write`: `none` = `Err`, `some success` -/
def bwWrite (P : Params) (st : St) (sbn : Nat) (block : Block) : Rx (St × Option Bool) :=
  match st.bw with
  | none => .error (.panic "block_writer unwrap")
  | some w =>
    if w.sbn ≠ sbn then .ok (st, some false) else
    match block.sourceBlock with
    | none => .ok (st, none)
    | some data =>
      let data := trimTo w.bytesLeft data
      match bwData P st w data with
      | .error f => .error f
      | .ok (st, w, false) => .ok ({ st with bw := some w }, none)
      | .ok (st, w, true) =>
        let w := { w with bytesLeft := w.bytesLeft - data.length, sbn := w.sbn + 1 }
        if w.bytesLeft = 0 then
          match bwFinish P st w with
          | .error f => .error f
          | .ok (st, w, false) => .ok ({ st with bw := some w }, none)
          | .ok (st, w, true) =>
            .ok ({ st with bw := some { w with md5 := w.md5ctx.map P.md5, md5ctx := none } }, some true)
        else .ok ({ st with bw := some w }, some true)

/-! ### ObjectReceiver -/

/-- bookkeeping of `write_blocks` after a block was written: counters, then `pop_front` or `deallocate` -/
def popBlock (st : St) (off : Nat) (block : Block) : St :=
  let st := { st with totalAlloc := st.totalAlloc - block.blockSize, nbAlloc := st.nbAlloc - 1 }
  if off = 0 then { st with blocksOffset := st.blocksOffset + 1, blocks := st.blocks.tail }
  else { st with blocks := st.blocks.set off block.deallocate }

/-- `self.content_md5.as_ref().map(|md5| writer.check_md5(md5)).unwrap_or(true)` -/
def md5Valid (st : St) (w : BW) : Bool :=
  match st.md5 with
  | some m => w.checkMd5 m
  | none => true

/-- `writer.is_completed()`: Content-Length check, MD5 comparison, then `complete` or `error` -/
def finishObject (st : St) (w : BW) : St :=
  if !w.checkCl then error st false else
  if md5Valid st w then complete st else error st false

/-- the `while` loop of `write_blocks` -/
def writeLoop (P : Params) : Nat → St → Nat → Rx (St × Bool)
  | 0, _, _ => .error .hang
  | fuel + 1, st, sbn =>
    if sbn < st.blocksOffset then .ok (st, true) else
    match st.blocks[sbn - st.blocksOffset]? with
    | none => .ok (st, true)
    | some block =>
      if !block.completed then .ok (st, true) else
      match bwWrite P st sbn block with
      | .error f => .error f
      | .ok (st1, none) => .ok (st1, false)
      | .ok (st1, some false) => .ok (st1, true)
      | .ok (st1, some true) =>
        if st1.totalAlloc < block.blockSize then .error (.panic "total_allocated_blocks_size underflow") else
        if st1.nbAlloc = 0 then .error (.panic "nb_allocated_blocks underflow") else
        match st1.bw with
        | none => .error (.panic "block_writer unwrap")
        | some w =>
          if w.bytesLeft = 0 then .ok (finishObject (popBlock st1 (sbn - st.blocksOffset) block) w, true)
          else writeLoop P fuel (popBlock st1 (sbn - st.blocksOffset) block) (sbn + 1)

/-- `write_blocks(sbn_start)` -/
def writeBlocks (P : Params) (st : St) (sbnStart : Nat) : Rx (St × Bool) :=
  match st.writer with
  | none => .ok (st, true)
  | some ws =>
    if ws ≠ .opened then .ok (st, true) else
    match st.bw with
    | none => .ok (st, true)
    | some _ => writeLoop P (st.blocks.length + 1) st sbnStart

/-- `payload_id.source_block_length.unwrap_or(match payload_id.sbn < self.nb_a_large as u32 { true => self.a_large as u32, _ => self.a_small as u32 })` -/
def sblOf (st : St) (pid : PayloadId) : Nat :=
  match pid.sbl with
  | some l => l
  | none => if pid.sbn < st.nbALarge % U32 then st.aLarge % U32 else st.aSmall % U32

/-- `if !block.initialized { .. }` of `push_to_block2`: source block length, block length, allocation limit,
    `block.init`; `none` = `Err` -/
def allocBlock (P : Params) (st : St) (o : Oti) (tl : Nat) (pid : PayloadId) (block : Block) : Rx (St × Option Block) :=
  if block.initialized then .ok (st, some block) else
  let sbl := sblOf st pid
  let bl : Rx Nat := match pid.sbl with
    | some _ => .ok (sbl * o.e)
    | none => liftRs (Partition.blockLength st.aLarge st.aSmall st.nbALarge tl o.e pid.sbn)
  match bl with
  | .error f => .error f
  | .ok blockLength =>
    if 2 ≤ st.nbAlloc ∧ U64 ≤ st.totalAlloc + blockLength then .error (.panic "add overflow") else
    if 2 ≤ st.nbAlloc ∧ st.maxSize < st.totalAlloc + blockLength then
      .ok ({ st with state := .error }, none)
    else
      match block.init P.codec o sbl blockLength pid.sbn with
      | .err => .ok ({ st with state := .error }, none)
      | .ok b =>
        if U64 ≤ st.totalAlloc + blockLength then .error (.panic "add overflow") else
        .ok ({ st with nbAlloc := st.nbAlloc + 1, totalAlloc := st.totalAlloc + blockLength }, some b)

/-- `self.blocks.resize_with(block_offset + 1, BlockDecoder::new)` when the deque is too short -/
def growBlocks (st : St) (off : Nat) : St :=
  if st.blocks.length ≤ off
  then { st with blocks := st.blocks ++ List.replicate (off + 1 - st.blocks.length) {} } else st

/-- the MD5 test of the empty object (no BlockWriter exists for transfer length 0): `!enable_md5_check || content_md5 == md5("")` -/
def emptyMd5Valid (P : Params) (st : St) : Bool :=
  !st.md5Check || (match st.md5 with
    | some m => m == P.md5 []
    | none => true)

/-- `push_to_block2` -/
def pushToBlock2 (P : Params) (st : St) (p : Pkt) : Rx (St × Bool) :=
  match st.oti, st.tl with
  | some o, some tl =>
    match parsePayloadId o p with
    | .error f => .error f
    | .ok none => .ok (st, false)
    | .ok (some pid) =>
      if tl = 0 then
        if st.bw.isSome then .error (.panic "debug_assert block_writer.is_none()") else
        -- D14 repaired (/repo 7ec1ac7): an empty object is completed only once its writer exists;
        -- D33 repaired (/repo 57ee198): with MD5 checking enabled the announced digest must be that of the empty string
        .ok (if st.writer.isSome then (if emptyMd5Valid P st then complete st else error st false) else st, true)
      else if st.nbBlocks ≤ pid.sbn then .ok (st, true)      -- SBN out of range: packet ignored
      else if pid.sbn < st.blocksOffset then .ok (st, true)
      else if st.blocks.length ≤ pid.sbn - st.blocksOffset ∧ 2 * MAX_PREALLOCATED_BLOCKS < pid.sbn - st.blocksOffset then
        .ok ({ st with state := .error }, false)
      else
        match (growBlocks st (pid.sbn - st.blocksOffset)).blocks[pid.sbn - st.blocksOffset]? with
        | none => .error (.panic "blocks index")
        | some block =>
          if block.completed then .ok (growBlocks st (pid.sbn - st.blocksOffset), true) else
          match allocBlock P (growBlocks st (pid.sbn - st.blocksOffset)) o tl pid block with
          | .error f => .error f
          | .ok (st1, none) => .ok (st1, false)
          | .ok (st1, some block) =>
            match block.push P.codec p.payload pid.esi with
            | none => .error (.panic "blockdecoder.rs debug_assert!(self.decoder.is_some())")
            | some block =>
              if block.completed
              then writeBlocks P { st1 with blocks := st1.blocks.set (pid.sbn - st.blocksOffset) block } pid.sbn
              else .ok ({ st1 with blocks := st1.blocks.set (pid.sbn - st.blocksOffset) block }, true)
  | _, _ => .error (.panic "debug_assert oti/transfer_length is_some")

/-- `push_to_block` -/
def pushToBlock (P : Params) (st : St) (p : Pkt) : Rx (St × Bool) :=
  match pushToBlock2 P st p with
  | .error f => .error f
  | .ok (st, false) => .ok (st, false)
  | .ok (st, true) =>
    if p.close ∧ st.state = .receiving then .ok (error st true, true) else .ok (st, true)

/-- the `while let Some(item) = self.cache.pop()` loop of `push_from_cache` -/
def cacheLoop (P : Params) : Nat → St → Rx St
  | 0, st => .ok st
  | fuel + 1, st =>
    match st.cache with
    | [] => .ok st
    | p :: rest =>
      match pushToBlock P { st with cache := rest } p with
      | .error f => .error f
      | .ok (st, false) => .ok (error st false)
      | .ok (st, true) => cacheLoop P fuel st

/-- `push_from_cache` -/
def pushFromCache (P : Params) (st : St) : Rx St :=
  if st.nbBlock = 0 then .ok st else
  match cacheLoop P st.cache.length st with
  | .error f => .error f
  | .ok st => .ok { st with cacheSize := 0 }

/-- `cache(pkt)`; `false` = `Err` -/
def cachePkt (st : St) (p : Pkt) : St × Bool :=
  if st.maxSize ≤ st.cacheSize then (st, false) else
  -- `self.cache_size.checked_add(pkt.data.len())`
  if U64 ≤ st.cacheSize + p.dataLen then (st, false) else
  ({ st with cacheSize := st.cacheSize + p.dataLen, cache := p :: st.cache }, true)

/-- `init_blocks_partitioning` -/
def initBlocksPartitioning (st : St) : Rx St :=
  if 0 < st.nbBlock then .ok st else
  match st.oti, st.tl with
  | some o, some tl =>
    match liftRs (Partition.blockPartitioning o.b tl o.e) with
    | .error f => .error f
    | .ok (aL, aS, nL, n) =>
      .ok { st with aLarge := aL, aSmall := aS, nbALarge := nL, nbBlocks := n,
                    blocks := List.replicate (min n MAX_PREALLOCATED_BLOCKS) {} }
  | _, _ => .ok st

/-- the `StoreObject` branch of `init_object_writer`: `enable_md5_check`, `open`, `BlockWriter::new` -/
def openWriter (pl : Plan) (st : St) (tl : Nat) (cenc : Cenc) : Rx St :=
  let md5Check := if st.md5.isSome then pl.md5Check else st.md5Check
  if st.bw.isSome then .error (.panic "debug_assert block_writer.is_none()") else
  if !pl.openOk then
    .ok (error { st with md5Check := md5Check, writer := some .idle, out := .open false :: st.out } false)
  else
    .ok { st with md5Check := md5Check, writer := some .opened, out := .open true :: st.out,
                  bw := if tl ≠ 0 then some (BW.new tl st.cl cenc md5Check) else st.bw }

/-- `init_object_writer` -/
def initObjectWriter (P : Params) (st : St) : Rx St :=
  if st.writer.isSome then .ok st else
  match st.fdtId, st.cenc, st.tl, st.oti with
  | some _, some cenc, some tl, some _ =>
    let pl := P.env.plan st.nBuilder
    let st := { st with wIdx := st.nBuilder, nBuilder := st.nBuilder + 1, out := .new st.meta pl.ans :: st.out }
    match pl.ans with
    | .already => .ok { st with state := .completed }
    | .abort => .ok { st with state := .error }
    | .store => openWriter pl st tl cenc
  | _, _, _, _ => .ok st

/-- `set_cenc_from_pkt` (TOI ≠ 0) -/
def setCencFromPkt (st : St) (p : Pkt) : St :=
  if st.cenc.isSome then st else { st with cenc := p.cenc }

/-- `set_oti_from_pkt` -/
def setOtiFromPkt (st : St) (p : Pkt) : St :=
  if st.oti.isSome then st else
  match p.fti with
  | none => st
  | some (o, tl) => { st with oti := some o, tl := if st.tl.isNone then some tl else st.tl }

/-- `push(pkt)` -/
def push (P : Params) (st : St) (p : Pkt) : Rx St :=
  if st.state ≠ .receiving then .ok st else
  match initBlocksPartitioning (setOtiFromPkt (setCencFromPkt st p) p) with
  | .error f => .error f
  | .ok st =>
  match initObjectWriter P st with
  | .error f => .error f
  | .ok st =>
  match pushFromCache P st with
  | .error f => .error f
  | .ok st =>
  -- the writer refused the object, could not be opened, or the object ended while the cache was replayed
  if st.state ≠ .receiving then .ok st else
  if st.oti.isNone then
    match cachePkt st p with
    | (st, true) => .ok st
    | (st, false) => .ok (error st false)
  else
    match pushToBlock P st p with
    | .error f => .error f
    | .ok (st, true) => .ok st
    | .ok (st, false) => .ok (error st false)

/-- what `attach_fdt` copies from the FDT `File` entry before it (re)initialises blocks and writer -/
def attachMeta (st : St) (fdtId : Nat) (f : FileEntry) : Rx St :=
  let cenc := if st.cenc.isNone then some f.cenc else st.cenc
  if st.oti.isNone ∧ f.oti.isSome ∧ st.tl.isSome then .error (.panic "debug_assert transfer_length.is_none()") else
  let oti := if st.oti.isNone then f.oti else st.oti
  let tl := if st.tl.isNone then some f.tl else st.tl
  .ok { st with cenc := cenc, oti := oti, tl := tl, md5 := f.md5, fdtId := some fdtId, cl := f.cl, noCache := some f.noCache }

/-- does the FDT File entry contradict the OTI / transfer length learned in band (/repo: the FDT is the authority)?  Only before the
    writer exists; compares scheme, E, L and the partition of `(B_fdt, L_fdt, E_fdt)` with the stored one -/
def fdtConflict (st : St) (f : FileEntry) : Rx Bool :=
  if st.writer.isSome then .ok false else
  match st.oti, f.oti with
  | some o, some fo =>
    if o.scheme ≠ fo.scheme ∨ o.e ≠ fo.e ∨ st.tl ≠ some f.tl then .ok true else
    match liftRs (Partition.blockPartitioning fo.b f.tl fo.e) with
    | .error e => .error e
    | .ok q => .ok (decide (q ≠ (st.aLarge, st.aSmall, st.nbALarge, st.nbBlocks)))
  | _, _ => .ok false

/-- forget the in-band OTI and everything decoded under its partition -/
def resetOti (st : St) : St :=
  { st with oti := none, tl := none, blocks := [], blocksOffset := 0, nbAlloc := 0, totalAlloc := 0,
            aLarge := 0, aSmall := 0, nbALarge := 0, nbBlocks := 0 }

/-- `attach_fdt` once the File entry is known and the in-band OTI has been confronted with it: metadata, block table, writer,
    replay of the cache, `write_blocks(0)` -/
def attachCore (P : Params) (st : St) (fdtId : Nat) (f : FileEntry) : Rx (St × Bool) :=
  match attachMeta st fdtId f with
  | .error e => .error e
  | .ok st =>
  match initBlocksPartitioning st with
  | .error e => .error e
  | .ok st =>
  match initObjectWriter P st with
  | .error e => .error e
  | .ok st =>
  match pushFromCache P st with
  | .error e => .error e
  | .ok st =>
  match writeBlocks P st 0 with
  | .error e => .error e
  | .ok (st, ok) =>
  match pushFromCache P (if ok then st else error st false) with
  | .error e => .error e
  | .ok st => .ok (st, true)


/-- `attach_fdt` WITHOUT the confrontation of the in-band OTI with the FDT (the code before the repair; kept as the function the
    invariant passes are proved for - `attachFdt` is this function on `st` or on `resetOti st`, see `attachFdt_cases`) -/
def attachFdtOld (P : Params) (st : St) (fdtId : Nat) (file : Option FileEntry) : Rx (St × Bool) :=
  if st.fdtId.isSome then .ok (st, false) else
  match file with
  | none => .ok (st, false)
  | some f => attachCore P st fdtId f

/-- `attach_fdt(fdt_instance_id, fdt)`; `file = fdt.get_file(toi)`; the flag is the return value -/
def attachFdt (P : Params) (st : St) (fdtId : Nat) (file : Option FileEntry) : Rx (St × Bool) :=
  if st.fdtId.isSome then .ok (st, false) else
  match file with
  | none => .ok (st, false)
  | some f =>
    match fdtConflict st f with
    | .error e => .error e
    | .ok c => attachCore P (if c then resetOti st else st) fdtId f

/-- `impl Drop for ObjectReceiver` -/
def drop (st : St) : St :=
  match st.writer with
  | some .opened => error st false
  | some .idle => error st false
  | _ => st

/-! ### operations on one object, and runs -/

inductive Op
  | push (p : Pkt)
  | attach (fdtId : Nat) (file : Option FileEntry)

def step (P : Params) (st : St) : Op → Rx St
  | .push p => push P st p
  | .attach id f =>
    match attachFdt P st id f with
    | .error e => .error e
    | .ok (st, _) => .ok st

def run (P : Params) : St → List Op → Rx St
  | st, [] => .ok st
  | st, op :: ops =>
    match step P st op with
    | .error e => .error e
    | .ok st => run P st ops

/-- the calls made on the writer, in call order -/
def St.trace (st : St) : List WCall := st.out.reverse

end Flute.ObjRecv
