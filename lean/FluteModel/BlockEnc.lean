import FluteModel.Prim
import FluteModel.Partition
import FluteModel.Fec
/-
  Model of the sender's block encoder:
    src/sender/block.rs          `Block` (`new_from_buffer`, `read`, `is_empty`)
    src/sender/blockencoder.rs   `BlockEncoder` (`new`, `read`, `read_window`, `read_block_buffer`,
                                 `read_block_stream`)
    src/sender/objectdesc.rs     `ObjectDataSource` (`Buffer` / `Stream`, length by `seek(End)`)
  plus the glue of `SenderSession::run` / `FileDesc` / `Fdt::transfer_done` for ONE object
  (`Session`): which transfer is the last one (`is_last_transfer`), forced stop after
  `remove_object`, requeueing up to `max_transfer_count`.

  `Params.legacy = true` selects the code as it was before the repairs of D3 (B flag decided by "this
  block is drained") and D8 (one `read()` per block for stream sources); it exists only so that the
  negation witnesses of Props/C08.lean, Props/C20.lean are statements about a model that was run
  against the unrepaired code.  All theorems are about `legacy = false`.
-/
namespace Flute.BlockEnc
open Flute Flute.Fec

/-- `Block` -/
structure Block where
  sbn : Nat
  readIndex : Nat
  shards : List Shard
  nbSource : Nat
deriving Repr

/-- `Block::is_empty` -/
def Block.isEmpty (b : Block) : Bool := b.readIndex == b.shards.length

/-- `Block::read`: the next shard, `is_source_symbol`, and "the block is empty now" -/
def Block.read (b : Block) : Option (Shard × Bool × Bool) × Block :=
  match b.shards[b.readIndex]? with
  | none => (none, b)
  | some sh =>
    let b' := { b with readIndex := b.readIndex + 1 }
    (some (sh, decide (sh.esi < b.nbSource), b'.isEmpty), b')

/-- a seekable byte stream whose `read(buf)` returns `min(buf.len, max(1, schedule head), remaining)`
    bytes: any positive short read, 0 only at end of stream (or for an empty `buf`); one schedule
    entry is consumed per call, an exhausted schedule means full reads -/
structure Stream where
  bytes : Bytes
  pos : Nat
  sched : List Nat
deriving Repr

def Stream.read (s : Stream) (n : Nat) : Bytes × Stream :=
  let lim := match s.sched with
    | [] => n
    | h :: _ => min n (max h 1)
  let m := min lim (s.bytes.length - s.pos)
  ((s.bytes.drop s.pos).take m, { s with pos := s.pos + m, sched := s.sched.tail })

/-- `seek(SeekFrom::Start(0))` -/
def Stream.rewind (s : Stream) : Stream := { s with pos := 0 }

/-- `ObjectDataSource` -/
inductive Source where
  | buffer (b : Bytes)
  | stream (s : Stream)
  /-- a stream whose `read` returns `Err` (other than `Interrupted`, which `read_block_stream` retries transparently and
      which therefore does not appear in the model) once `okReads` calls have succeeded: on every later call
      (`once = false`, permanent fault) or on that call only (`once = true`, transient fault: afterwards it is an ordinary
      stream); `seek` keeps working -/
  | faulty (s : Stream) (okReads : Nat) (once : Bool)
deriving Repr

/-- `ObjectDataSource::len`: buffer length / `seek(End(0))` -/
def Source.len : Source → Nat
  | .buffer b => b.length
  | .stream s => s.bytes.length
  | .faulty s _ _ => s.bytes.length

/-- the bytes of the object, however supplied -/
def Source.bytes : Source → Bytes
  | .buffer b => b
  | .stream s => s.bytes
  | .faulty s _ _ => s.bytes

/-- what the application hands to `ObjectDesc::create_from_buffer / create_from_file / create_from_stream` -/
inductive Supplied where
  | buffer (content : Bytes)
  | stream (s : Stream)

/-- `ObjectDesc::create_*`: the source the block encoder will slice and the announced `transfer_length`.
    The content encoding is applied BEFORE slicing, to the whole content (`ObjectDataSource::from_vec`:
    `compress::compress_buffer(buffer, cenc)`); `compress` is flate2's output for (`cenc` as u8, content) - an explicit
    parameter, nothing is assumed about it.  A stream cannot be content-encoded: creation is refused (`none`; D18
    repaired, as `create_from_file(cache_in_ram = false)` always did). -/
def objectSource (compress : Nat → Bytes → Bytes) (cenc : Nat) : Supplied → Option Source
  | .buffer content => some (.buffer (if cenc = 0 then content else compress cenc content))
  | .stream st => if cenc = 0 then some (.stream st) else none

/-- what is fixed during a transfer: the object's OTI, `interleave_blocks`, `transfer_length` -/
structure Params where
  codec : Codec
  e : Nat
  b : Nat
  p : Nat
  window : Nat
  len : Nat
  legacy : Bool := false

/-- `pkt::Pkt`, the fields decided by the block encoder -/
structure Pkt where
  sbn : Nat
  esi : Nat
  payload : Bytes
  closeObject : Bool
  /-- `source_block_length` (carried by the FEC payload ID of FEC ID 129) -/
  sbl : Nat
  /-- ghost: `symbol.is_source_symbol` -/
  isSource : Bool
deriving Repr, DecidableEq

/-- `BlockEncoder` -/
structure Enc where
  src : Source
  off : Nat
  sbn : Nat
  aL : Nat
  aS : Nat
  nL : Nat
  nB : Nat
  blocks : List Block
  idx : Nat
  readEnd : Bool
  srcSent : Nat
  nbPkt : Nat
  stopped : Bool
  closable : Bool
deriving Repr

/-- `Block::new_from_buffer`; `none` = `Err` -/
def Block.new (P : Params) (sbn : Nat) (buf : Bytes) : Option Block :=
  if P.e = 0 then none else
  match P.codec.encode P.e P.p buf with
  | none => none
  | some sh => some { sbn := sbn, readIndex := 0, shards := sh, nbSource := divCeil buf.length P.e }

/-- `BlockEncoder::new` (seek to the start for a stream source, `block_partitioning`); the checked
    u64 arithmetic of `block_partitioning` is kept: `.error` = panic -/
def Enc.new (P : Params) (src : Source) (closable : Bool) : Rs Enc :=
  let src' := match src with
    | .buffer b => Source.buffer b
    | .stream s => Source.stream s.rewind
    | .faulty s k once => Source.faulty s.rewind k once
  match Partition.blockPartitioning P.b P.len P.e with
  | .error w => .error w
  | .ok (aL, aS, nL, nB) =>
    .ok { src := src', off := 0, sbn := 0, aL := aL, aS := aS, nL := nL, nB := nB, blocks := [], idx := 0,
          readEnd := false, srcSent := 0, nbPkt := 0, stopped := false, closable := closable }

/-- number of source symbols of the block being cut (`block_length`) -/
def Enc.blockLength (s : Enc) : Nat := if s.sbn < s.nL then s.aL else s.aS

/-- `read_block_buffer`.  `&content[start..end]` cannot panic: `off ≤ content.len()` is an invariant
    (`end` is clamped to the length).  Block creation failure is `Err` (→ `read_end` in `read_window`). -/
def readBlockBuffer (P : Params) (s : Enc) (content : Bytes) : Option Enc :=
  let start := s.off
  let end0 := start + s.blockLength * P.e
  let end' := if end0 > content.length then content.length else end0
  let buf := (content.drop start).take (end' - start)
  match Block.new P s.sbn buf with
  | none => none
  | some blk =>
    some { s with blocks := s.blocks ++ [blk], sbn := s.sbn + 1, readEnd := (end' == content.length), off := end' }

/-- the repaired fill loop of `read_block_stream`: read until `want` bytes are there or `read` returns 0 -/
def fill : Nat → Stream → Nat → Bytes → Bytes × Stream
  | 0, st, _, acc => (acc, st)
  | fuel + 1, st, want, acc =>
    if want = 0 then (acc, st) else
    let (got, st') := st.read want
    if got.length = 0 then (acc, st') else fill fuel st' (want - got.length) (acc ++ got)

/-- `read_block_stream`.  legacy: ONE `read` per block (D8). -/
def readBlockStream (P : Params) (s : Enc) (st : Stream) : Option Enc :=
  let want := s.blockLength * P.e
  let (buf, st') := if P.legacy then st.read want else fill want st want []
  if buf.length = 0 then
    some { s with src := .stream st', readEnd := true }
  else
    match Block.new P s.sbn buf with
    | none => none
    | some blk =>
      some { s with src := .stream st', blocks := s.blocks ++ [blk], sbn := s.sbn + 1, off := s.off + buf.length }

/-- the fill loop on a faulty stream: `none` = `read` returned `Err` (the bytes already read for this block are dropped) -/
def fillE : Nat → Stream → Nat → Nat → Bytes → Option (Bytes × Stream × Nat)
  | 0, st, k, _, acc => some (acc, st, k)
  | fuel + 1, st, k, want, acc =>
    if want = 0 then some (acc, st, k) else
    match k with
    | 0 => none
    | k + 1 =>
      let (got, st') := st.read want
      if got.length = 0 then some (acc, st', k) else fillE fuel st' k (want - got.length) (acc ++ got)

/-- `read_block_stream` on a faulty stream: `Err(e) => { log::error!(..); self.read_end = true; return Ok(()) }` -/
def readBlockFaulty (P : Params) (s : Enc) (st : Stream) (k : Nat) (once : Bool) : Option Enc :=
  let want := s.blockLength * P.e
  match fillE want st k want [] with
  | none => some { s with src := (if once then .stream st else .faulty st 0 false), readEnd := true }
  | some (buf, st', k') =>
    if buf.length = 0 then
      some { s with src := .faulty st' k' once, readEnd := true }
    else
      match Block.new P s.sbn buf with
      | none => none
      | some blk =>
        some { s with src := .faulty st' k' once, blocks := s.blocks ++ [blk], sbn := s.sbn + 1, off := s.off + buf.length }

/-- `read_block` + the `Err(_) => self.read_end = true` arm of `read_window`.
    (When block creation fails after a stream read, the bytes read stay consumed; nothing observable
    depends on it because `read_end` stops all further reading.) -/
def readBlock (P : Params) (s : Enc) : Enc :=
  let r := match s.src with
    | .buffer c => readBlockBuffer P s c
    | .stream st => readBlockStream P s st
    | .faulty st k once => readBlockFaulty P s st k once
  match r with
  | some s' => s'
  | none => { s with readEnd := true }

/-- `read_window`: `while !read_end && blocks.len() < window { read_block }`.  Every iteration either
    pushes a block or sets `read_end`, so `window` iterations always suffice. -/
def readWindowAux (P : Params) : Nat → Enc → Enc
  | 0, s => s
  | n + 1, s =>
    if s.readEnd then s
    else if s.blocks.length < P.window then readWindowAux P n (readBlock P s)
    else s

def readWindow (P : Params) (s : Enc) : Enc := readWindowAux P P.window s

/-- result of one `BlockEncoder::read` -/
inductive Out where
  | pkt (p : Pkt)
  | none
  /-- an index panic (`self.blocks[i]`; unreachable) - before the repair of sched-7 also `debug_assert!(transfer_length == 0)` -/
  | panic
  /-- the loop ran out of fuel: would spin forever -/
  | hang
deriving Repr, DecidableEq

/-- the packet that represents an empty object -/
def emptyPkt : Pkt := { sbn := 0, esi := 0, payload := [], closeObject := true, sbl := 0, isSource := false }

/-- is this the last packet of the transfer?
    legacy (D3): "all source bytes transferred and THIS block is drained";
    repaired:    "all source bytes transferred and EVERY open block is drained". -/
def isLastPacket (P : Params) (srcSent : Nat) (isLastSymbol : Bool) (blocks : List Block) : Bool :=
  decide (srcSent ≥ P.len) && isLastSymbol && (P.legacy || blocks.all Block.isEmpty)

/-- the `loop` of `BlockEncoder::read` -/
def readLoop (P : Params) (force : Bool) : Nat → Enc → Out × Enc
  | 0, s => (.hang, s)
  | fuel + 1, s =>
    let s := readWindow P s
    if s.blocks.isEmpty then
      if s.nbPkt = 0 then
        -- repaired (sched-7): the empty-object packet only for an EMPTY object; when no block of a non-empty object
        -- could be read (stream read error) or encoded, nothing is sent (before: `debug_assert!(transfer_length == 0)`,
        -- in release the empty packet with B for a non-empty object)
        if P.len ≠ 0 then (.none, s)
        else (.pkt emptyPkt, { s with nbPkt := 1 })
      else (.none, s)
    else
      let idx := if s.idx ≥ s.blocks.length then 0 else s.idx
      match s.blocks[idx]? with
      | none => (.panic, s)
      | some blk =>
        match blk.read with
        | (none, _) => readLoop P force fuel { s with idx := idx, blocks := s.blocks.eraseIdx idx }
        | (some (sh, isSrc, isLast), blk') =>
          let blocks' := s.blocks.set idx blk'
          let srcSent := if isSrc then s.srcSent + sh.data.length else s.srcSent
          let last := isLastPacket P srcSent isLast blocks'
          (.pkt { sbn := blk.sbn, esi := sh.esi, payload := sh.data,
                  closeObject := force || (s.closable && last), sbl := blk.nbSource, isSource := isSrc },
           { s with idx := idx + 1, blocks := blocks', srcSent := srcSent, nbPkt := s.nbPkt + 1 })

/-- fuel for one `read`: every `continue` removes one open block, and every block cut in between
    consumes at least one byte of the object -/
def readFuel (P : Params) (s : Enc) : Nat := s.blocks.length + P.len + P.window + 2

/-- `BlockEncoder::read(force_close_object)` -/
def read (P : Params) (s : Enc) (force : Bool) : Out × Enc :=
  if s.stopped then (.none, s) else
  let s := if force then { s with stopped := true } else s
  readLoop P force (readFuel P s) s

/-- `alc::new_alc_pkt`: `push_lct_header(.., close_object = pkt.close_object, close_session = false)`:
    the (A, B) flags of a packet built from a `Pkt` -/
def alcFlags (p : Pkt) : Bool × Bool := (false, p.closeObject)

/-- `alc::new_alc_pkt_close_session`: `push_lct_header(.., close_object = false, close_session = true)` -/
def closeSessionFlags : Bool × Bool := (true, false)

/-! ### One object in a `Sender`: the glue around the block encoder -/

/-- `FileDesc` + `TransferInfo` + membership in `Fdt::files` / `files_transfer_queue` + the session's encoder -/
structure Session where
  P : Params
  src : Source
  maxtc : Nat
  carousel : Bool
  allowStop : Bool
  /-- `transfer_count` -/
  count : Nat := 0
  /-- `total_nb_transfer` -/
  total : Nat := 0
  /-- still in `Fdt::files` -/
  added : Bool := true
  /-- in `files_transfer_queue` -/
  queued : Bool := true
  /-- seconds -/
  now : Nat := 0
  lastEnd : Option Nat := none
  enc : Option Enc := none

/-- `FileDesc::should_transfer_now` for a published object without start time
    (carousel = `DelayBetweenTransfers(1 s)`) -/
def Session.shouldTransferNow (x : Session) : Bool :=
  if x.maxtc > x.count then true
  else if !x.carousel then true
  else match x.lastEnd with
    | none => true
    | some t => decide (x.now - t > 1)

/-- `FileDesc::is_last_transfer` (before `TransferInfo::init`)… evaluated after `transfer_started` -/
def Session.isLastTransfer (x : Session) : Bool := !x.carousel && (x.maxtc == x.count + 1)

/-- `FileDesc::is_expired` -/
def Session.isExpired (x : Session) : Bool := if x.maxtc > x.count then false else !x.carousel

/-- `get_next_file_transfer`: out of the queue, `transfer_started` (`TransferInfo::init` resets the count of a carousel burst) -/
def Session.start (x : Session) : Session :=
  let x := { x with queued := false }
  if x.count == x.maxtc && x.carousel then { x with count := 0 } else x

/-- `SenderSession::get_next`: if no transfer is running and the object is eligible, start one:
    `BlockEncoder::new(file, interleave_blocks, file.is_last_transfer())` -/
def Session.getNext (x : Session) : Rs Session :=
  match x.enc with
  | some _ => .ok x
  | none =>
    if x.queued && x.shouldTransferNow then
      match Enc.new x.start.P x.start.src x.start.isLastTransfer with
      | .error w => .error w
      | .ok e => .ok { x.start with enc := some e }
    else .ok x

/-- `must_stop_transfer`: removed from the FDT and (sent at least once or immediate stop allowed) -/
def Session.mustStop (x : Session) : Bool := (x.allowStop || decide (x.total > 0)) && !x.added

/-- `release_file` → `Fdt::transfer_done`; the source keeps its position / schedule -/
def Session.release (x : Session) (e' : Enc) : Session :=
  let x := { x with src := e'.src, enc := none, count := x.count + 1, total := x.total + 1, lastEnd := some x.now }
  if !x.added then x
  else if !x.isExpired then { x with queued := true }
  else { x with added := false }

/-- `SenderSession::run` restricted to one object (no FDT pending, no pacing) -/
def Session.runLoop : Nat → Session → Out × Session
  | 0, x => (.hang, x)
  | fuel + 1, x =>
    -- `new_encoder`: the encoder is created by this iteration
    let fresh := x.enc.isNone
    match x.getNext with
    | .error _ => (.panic, x)
    | .ok x =>
    match x.enc with
    | none => (.none, x)
    | some e =>
      match read x.P e x.mustStop with
      | (.pkt p, e') => (.pkt p, { x with enc := some e' })
      | (.panic, e') => (.panic, { x with enc := some e' })
      | (.hang, e') => (.hang, { x with enc := some e' })
      | (.none, e') =>
        -- /repo a00f689: a transfer that ends without any packet (its source fails at the first read) gives the hand
        -- back instead of running through all the remaining transfers in this call
        if fresh then (.none, x.release e') else Session.runLoop fuel (x.release e')

def Session.read (x : Session) : Out × Session := Session.runLoop 4 x

/-- `Sender::remove_object` -/
def Session.remove (x : Session) : Bool × Session :=
  if x.added then (true, { x with added := false, queued := false }) else (false, x)

def Session.tick (x : Session) (secs : Nat) : Session := { x with now := x.now + secs }

end Flute.BlockEnc
