import FluteModel.RecvWire
import FluteModel.RecvFull
import FluteModel.Lemmas.RecvSkew
/-
  `Receiver::push_data` / `cleanup` as ONE composed function from datagram bytes down to the object machines, in which a fault
  anywhere is an error result (`pushDataWhole`), the component facts of the totality proof as a record (`Interfaces`), and the
  reachable states of byte-level histories.  Definitions only; theorems in Props/C04Whole.lean (integrator: agent path/ring).
-/
namespace Flute.Recv.Whole
open Flute Flute.Recv

variable (P : ObjRecv.Params)

/-- the owners' lemmas the composition takes as hypotheses, for the object-model parameters `P` -/
structure Interfaces where
  /-- [orecv] the invariant under which the object machine cannot panic -/
  OInv : ObjRecv.St → Prop
  /-- [wire → orecv] what the object machine needs of a parsed packet -/
  PktOK : ObjRecv.Pkt → Prop
  /-- [orecv] `ObjectReceiver::new(.., max_size_allocated)` (`object_max_cache_size` is a `usize`) -/
  inv_new : ∀ toi m, m < 2 ^ 63 → OInv (ObjRecv.St.new toi m)
  /-- [orecv] `push_total` -/
  push_total : ∀ st p, OInv st → PktOK p → ∃ st', ObjRecv.push P st p = .ok st' ∧ OInv st'
  /-- [orecv] what the object machine needs of an FDT File entry -/
  FileOK : ObjRecv.FileEntry → Prop
  /-- [orecv] `attach_total` -/
  attach_total : ∀ st id f, OInv st → (∀ e, f = some e → FileOK e) →
    ∃ st' b, ObjRecv.attachFdt P st id f = .ok (st', b) ∧ OInv st'
  /-- [orecv] the File entry that stands for the EXT_FTI of an FDT packet (`Full.fdtEntry0`, the TOI-0 adapter) is
      admissible when the packet is -/
  entry0_ok : ∀ q, PktOK q → ∀ e, Full.fdtEntry0 q = some e → FileOK e
  /-- [wire] `parsed_pkt_wf`, object half -/
  parsed_pkt_ok : ∀ (d : List UInt8) (p : Alc.AlcPkt), Alc.parseAlcPkt (d.map UInt8.toNat) = .ok p →
    PktOK (Full.toPkt (ofAlc (d.map UInt8.toNat) p))

variable {P}

/-- an object of the registry is healthy: never faulted, and the object-level invariant holds -/
def ObjOK (X : Interfaces P) : (Full.Any P) → Prop
  | .inl _ => True
  | .inr o => o.fault = false ∧ X.OInv o.st

/-- a parsed FDT instance whose File entries the object machine accepts -/
def FdtQ (X : Interfaces P) (inst : FdtAbs) : Prop :=
  ∀ toi x, inst.getFile toi = some x → ∀ cc, X.FileOK (Full.entryOf x cc)

/-- the XML parser's answer for a completed FDT object is such an instance (or an error) -/
def AnsOK (X : Interfaces P) (ans : FdtAns) : Prop := ∀ fdt u, ans = .ok fdt u → FdtQ X fdt

/-- the byte-level call carries an admissible XML-parser answer -/
def BOpAns (X : Interfaces P) : BOp → Prop
  | .data _ _ ans => AnsOK X ans
  | .cleanup _ _ => True

def anyFault : (Full.Any P) → Bool
  | .inr o => o.fault
  | .inl _ => false

/-- some ObjectReceiver - of the registry, or the FDT object (TOI 0) inside an FDT-instance receiver - panicked or hung
    in this or an earlier call -/
def hasFault (s : State (Full.Any P)) : Bool :=
  (s.objects.any fun x => anyFault x.2) ||
  (s.fdtReceivers.any fun kf => match kf.2.obj with | some o => anyFault o | none => false) ||
  (s.fdtCurrent.any fun f => match f.obj with | some o => anyFault o | none => false)

/-- **`Receiver::push_data(d, now)`, the whole call**: `.error` = a panic or a hang anywhere between the datagram bytes and
    the ring buffer of a decompressor -/
def pushDataWhole (tsi : Nat) (s : State (Full.Any P)) (d : List UInt8) (now : Int) (ans : FdtAns) :
    ObjRecv.Rx (State (Full.Any P) × Res × List Ev) :=
  match pushDataBytes (Full.iface P) tsi s (d.map UInt8.toNat) now ans with
  | .error w => .error (.panic w)
  | .ok (s', r, evs) =>
    if hasFault s' then .error (.panic "ObjectReceiver::push / attach_fdt panicked or hung") else .ok (s', r, evs)

/-- `Receiver::cleanup(now)`, likewise -/
def cleanupWhole (s : State (Full.Any P)) (now : Int) (stale : Stale) : ObjRecv.Rx (State (Full.Any P) × List Ev) :=
  match cleanup (Full.iface P) s now stale with
  | .error w => .error (.panic w)
  | .ok (s', evs) => if hasFault s' then .error (.panic "ObjectReceiver fault") else .ok (s', evs)

/-- states reachable from `Receiver::new(cfg)` by any history of byte-level calls at sane times (with admissible
    XML-parser answers) -/
inductive Reachable (X : Interfaces P) (tsi : Nat) (cfg : Config) : State (Full.Any P) → Prop
  | init : Reachable X tsi cfg (State.init cfg)
  | step (s s' : State (Full.Any P)) (b : BOp) (r : Res) (evs : List Ev) :
      Reachable X tsi cfg s → TimeSane (b.abs tsi).now → BOpAns X b →
      step (Full.iface P) s (b.abs tsi) = .ok (s', r, evs) → Reachable X tsi cfg s'

end Flute.Recv.Whole
