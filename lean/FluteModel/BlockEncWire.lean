import FluteModel.BlockEnc
import FluteModel.Alc
import FluteModel.Admission
/-
  From a block-encoder packet to the datagram: `SenderSession::run` hands the `pkt::Pkt` of `BlockEncoder::read` to
  `alc::new_alc_pkt(&file.oti, &0u128, tsi, pkt, profile, now)` (sendersession.rs:88).  `Alc.newAlcPkt` is agent wire's
  model of that builder (C06), `Admission` agent toi's model of `add_object` (whose result is `file.oti`).
  Linked into `drv_benc`: no imports outside FluteModel.
-/
namespace Flute.BlockEncWire
open Flute Flute.BlockEnc

/-- the `pkt::Pkt` built by `BlockEncoder::read` for an object: the encoder's fields plus the file's (TOI, transfer
    length, cenc); object packets carry no EXT_TIME (`FileDesc::new(.., None, false)`) -/
def toAlc (p : Pkt) (toi tlen cenc : Nat) (inbandCenc : Bool) : Flute.Alc.Pkt :=
  { payload := p.payload, transferLength := tlen, esi := p.esi, sbn := p.sbn, toi := toi, fdtId := none, cenc := cenc,
    inbandCenc := inbandCenc, closeObject := p.closeObject, sourceBlockLength := p.sbl, senderCurrentTime := false }

/-- `oti::Oti` as the admission model has it → as the wire model has it -/
def ftiOti (a : Flute.Admission.Oti) (inbandFti : Bool) : Flute.Fti.Oti :=
  { fecId := a.fec.id, inst := a.inst, maxSbl := a.maxSbl, esl := a.esl, parity := a.parity,
    ss := match a.scheme with
      | none => .none
      | some (.reedSolomon m g) => .rs m g
      | some (.raptorq z n al) => .raptorq z n al
      | some (.raptor z n al) => .raptor z n al,
    inbandFti := inbandFti }

/-- the datagram of a packet (CCI 0; `rfc3926 = false`, the instant is irrelevant without EXT_TIME) -/
def datagram (oti : Flute.Fti.Oti) (tsi toi tlen cenc : Nat) (inbandCenc : Bool) (p : Pkt) : Rs (List Nat) :=
  Flute.Alc.newAlcPkt oti 0 tsi (toAlc p toi tlen cenc inbandCenc) false 0

/-- LCT header + extensions + FEC payload ID of the datagram (what precedes the payload): for repair symbols, whose payload
    bytes are the FEC library's -/
def datagramHead (oti : Flute.Fti.Oti) (tsi toi tlen cenc : Nat) (inbandCenc : Bool) (p : Pkt) : Rs (List Nat) :=
  Flute.Alc.newAlcPkt oti 0 tsi (toAlc { p with payload := [] } toi tlen cenc inbandCenc) false 0

/-- the payload is the tail of the datagram, the rest does not depend on it -/
theorem datagram_eq_head_append (oti : Flute.Fti.Oti) (tsi toi tlen cenc : Nat) (inbandCenc : Bool) (p : Pkt) :
    datagram oti tsi toi tlen cenc inbandCenc p =
      match datagramHead oti tsi toi tlen cenc inbandCenc p with
      | .ok h => .ok (h ++ p.payload)
      | .error w => .error w := by
  have h1 : ∀ d r, Flute.Alc.stepFdt d (toAlc { p with payload := [] } toi tlen cenc inbandCenc) r =
      Flute.Alc.stepFdt d (toAlc p toi tlen cenc inbandCenc) r := fun _ _ => rfl
  have h2 : ∀ d, Flute.Alc.stepCenc d (toAlc { p with payload := [] } toi tlen cenc inbandCenc) =
      Flute.Alc.stepCenc d (toAlc p toi tlen cenc inbandCenc) := fun _ => rfl
  have h3 : ∀ d t, Flute.Alc.stepSct d (toAlc { p with payload := [] } toi tlen cenc inbandCenc) t =
      Flute.Alc.stepSct d (toAlc p toi tlen cenc inbandCenc) t := fun _ _ => rfl
  have h4 : ∀ d, Flute.Alc.stepFti d oti (toAlc { p with payload := [] } toi tlen cenc inbandCenc) =
      Flute.Alc.stepFti d oti (toAlc p toi tlen cenc inbandCenc) := fun _ => rfl
  unfold datagram datagramHead Flute.Alc.newAlcPkt
  simp only [h1, h2, h3, h4]
  have e1 : (toAlc { p with payload := [] } toi tlen cenc inbandCenc).toi = (toAlc p toi tlen cenc inbandCenc).toi := rfl
  have e2 : (toAlc { p with payload := [] } toi tlen cenc inbandCenc).closeObject = (toAlc p toi tlen cenc inbandCenc).closeObject := rfl
  have e3 : (toAlc { p with payload := [] } toi tlen cenc inbandCenc).sbn = (toAlc p toi tlen cenc inbandCenc).sbn := rfl
  have e4 : (toAlc { p with payload := [] } toi tlen cenc inbandCenc).esi = (toAlc p toi tlen cenc inbandCenc).esi := rfl
  have e5 : (toAlc { p with payload := [] } toi tlen cenc inbandCenc).sourceBlockLength = (toAlc p toi tlen cenc inbandCenc).sourceBlockLength := rfl
  have e6 : (toAlc { p with payload := [] } toi tlen cenc inbandCenc).payload = [] := rfl
  have e7 : (toAlc p toi tlen cenc inbandCenc).payload = p.payload := rfl
  rw [e1, e2, e3, e4, e5, e6, e7]
  simp only [Flute.rsBind]
  cases Flute.Alc.stepFdt _ _ _ with
  | error w => rfl
  | ok d1 =>
    simp only
    cases Flute.Alc.stepCenc d1 _ with
    | error w => rfl
    | ok d2 =>
      simp only
      cases Flute.Alc.stepSct d2 _ _ with
      | error w => rfl
      | ok d3 =>
        simp only
        cases Flute.Alc.stepFti d3 _ _ with
        | error w => rfl
        | ok d4 =>
          simp only
          cases Flute.Fti.addPayloadId _ _ _ _ with
          | error w => rfl
          | ok pid => simp

end Flute.BlockEncWire
