import FluteModel.Drv.Util
import FluteModel.MultiRecv
/-
  Line protocol of engine `tsi` (C18).  Endpoint token: `<src|->/<dst>/<port>` (addresses interned as numbers).

    probes <ep>:<tsi> ...            set the probe list used by `fseq` (default: the 8 standard probes) -> ok
    fseq <fop> ...                   fresh MultiReceiver (filtering on), apply the filter ops
                                     (`a:<ep>:<tsi>` `r:<ep>:<tsi>` `A:<ep>` `R:<ep>`), push one data packet per
                                     probe: one bit per probe = session opened                   -> 0110...
    sess <sid> <ep> <tsi> <seed> <nobj>   define a real Sender packet stream (implementation side only)  -> ok
    new <0|1> <-|T>                  MultiReceiver::new, filtering flag, session timeout (ticks)  -> ok
    add|rm <ep> <tsi>  addall|rmall <ep>  filt <0|1>                                             -> ok
    push <ep> <tsi> <d|c|x> ...      data / close-session / unparsable packet                     -> ok [+key|-key]
    tick                             more than the session timeout elapses                        -> ok
    pause                            (after `new <f> 10`) 3/10 of the session timeout elapses       -> ok
    cleanup                                                                                       -> ok [-key ...] (sorted)
    drop                                                                                          -> ok [-key ...] (sorted)
    ladd                             add_listener (the recording listener of `new` is id 0)          -> ok <id>
    lrm <id>                         remove_listener                                               -> ok
    llog <id>                        what listener <id> has been told (also after lrm / drop),
                                     per key in key order: <key>=<+-+...>                          -> ok [k=+-.. ...]
    cbs #<key>=<n> ...               follows a push / cleanup / drop whose real call made writer callbacks: the
                                     implementation side reports HOW MANY per session (the real Receiver is opaque to this
                                     driver); the model re-runs that operation with this environment input and answers
                                     WHICH (endpoint, tsi) each callback carries                   -> ok cb=<key>,<key>,... (sorted)

    race <n>                         n sessions expiring while cleanup runs, then drop            -> opens n closes n
-/
namespace Flute.Drv.Tsi
open Flute Flute.MultiRecv Flute.TsiFilter

abbrev MState := State Act (List Key)
abbrev Env := List (Key × Nat)

/-- the 8 standard probes: 2 endpoints x (no source | source 7) x TSI 1,2 -/
def defaultProbes : List (Endpoint × Nat) :=
  [0, 1].flatMap fun d => [none, some 7].flatMap fun src => [1, 2].map fun tsi => ((⟨src, d, 5000⟩ : Endpoint), tsi)

structure DState where
  probes : List (Endpoint × Nat) := defaultProbes
  timeout : Option Nat := none
  mr : Option MState := none
  dropped : Bool := false
  /-- the last push / cleanup / drop line and the receiver before it (for a following `cbs` line) -/
  lastArgs : List String := []
  lastMr : Option MState := none
  lastDropped : Bool := false

def parseEp (s : String) : Option Endpoint :=
  match s.splitOn "/" with
  | [a, b, c] =>
    match b.toNat?, c.toNat? with
    | some d, some p =>
      if a = "-" then some ⟨none, d, p⟩ else
      match a.toNat? with
      | some x => some ⟨some x, d, p⟩
      | none => none
    | _, _ => none
  | _ => none

def showEp (e : Endpoint) : String :=
  (match e.src with | none => "-" | some x => toString x) ++ "/" ++ toString e.dst ++ "/" ++ toString e.port

def showKey (k : Key) : String := showEp k.ep ++ ":" ++ toString k.tsi

def showEvent : Event → String
  | .opened k => "+" ++ showKey k
  | .closed k => "-" ++ showKey k

def insertSorted (x : String) : List String → List String
  | [] => [x]
  | y :: r => if x < y then x :: y :: r else y :: insertSorted x r

def sortStrings (xs : List String) : List String := xs.foldr insertSorted []

def parseProbe (s : String) : Option (Endpoint × Nat) :=
  match s.splitOn ":" with
  | [e, t] => match parseEp e, t.toNat? with
    | some e, some t => some (e, t)
    | _, _ => none
  | _ => none

def parseFOp (s : String) : Option (Op Env) :=
  match s.splitOn ":" with
  | ["a", e, t] => match parseEp e, t.toNat? with
    | some e, some t => some (.addListen e t)
    | _, _ => none
  | ["r", e, t] => match parseEp e, t.toNat? with
    | some e, some t => some (.removeListen e t)
    | _, _ => none
  | ["A", e] => (parseEp e).map .addAll
  | ["R", e] => (parseEp e).map .removeAll
  | _ => none

def withEvents (pre : String) (evs : List String) : String :=
  if evs.isEmpty then pre else pre ++ " " ++ joinSp evs

/-- apply filter ops; `none` = panic -/
def applyFOps (M : Machine Act Env (List Key)) : MState → List (Op Env) → Option MState
  | s, [] => some s
  | s, op :: ops =>
    match step M s op with
    | (_, .panic) => none
    | (s', _) => applyFOps M s' ops

def probeBits (M : Machine Act Env (List Key)) : MState → List (Endpoint × Nat) → List Char
  | _, [] => []
  | s, (ep, tsi) :: r =>
    let s' := (push M s ep (some ⟨tsi, false, []⟩)).1
    let opened := (newEvents s s').contains (.opened ⟨ep, tsi⟩)
    (if opened then '1' else '0') :: probeBits M s' r

def raceLine (n : Nat) : String :=
  let M := actMachine (some 0)
  let pushes : List (Op Env) := (List.range n).map fun i => .push ⟨none, 0, i + 1⟩ (some ⟨1, false, []⟩)
  let s := run M (State.new false) (pushes ++ [.tick 1, .cleanup [], .drop []])
  let o := (s.events.filter fun e => match e with | .opened _ => true | _ => false).length
  let c := (s.events.filter fun e => match e with | .closed _ => true | _ => false).length
  s!"opens {o} closes {c}"

/-- the live receiver (none before `new` and after `drop`) -/
def DState.live (d : DState) : Option MState := if d.dropped then none else d.mr

/-- per key (sorted by its printed form) the sequence of open/close marks -/
def canonLog (evs : List Event) : List String :=
  let keys := sortStrings ((evs.map (fun e => showKey e.key)).eraseDups)
  keys.map fun k =>
    k ++ "=" ++ String.ofList ((evs.filter (fun e => showKey e.key = k)).map
      (fun e => match e with | .opened _ => '+' | .closed _ => '-'))

def parseKey (s : String) : Option Key :=
  match s.splitOn ":" with
  | [e, t] => match parseEp e, t.toNat? with
    | some e, some t => some ⟨e, t⟩
    | _, _ => none
  | _ => none

/-- `#<key>=<n>` -/
def parseAnnot (s : String) : Option (Key × Nat) :=
  match (s.drop 1).toString.splitOn "=" with
  | [k, n] => match parseKey k, n.toNat? with
    | some k, some n => some (k, n)
    | _, _ => none
  | _ => none

/-- the keys carried by the callbacks of the outputs an operation appended -/
def cbToken (before after : MState) : List String :=
  let ks := sortStrings (((newOuts before after).flatMap (fun o => o.2)).map showKey)
  if ks.isEmpty then [] else ["cb=" ++ ",".intercalate ks]

def unitOp (d : DState) (op : Op Env) : DState × String :=
  match d.live with
  | none => (d, "bad-op")
  | some s =>
    match step (actMachine d.timeout) s op with
    | (_, .panic) => (d, "PANIC")
    | (s', _) => ({ d with mr := some s' }, "ok")

def stepA (d : DState) (args : List String) (env : Env) : DState × String :=
  match args with
  | "probes" :: ps =>
    match ps.mapM parseProbe with
    | some l => ({ d with probes := l }, "ok")
    | none => (d, "bad-op")
  | "fseq" :: fops =>
    match fops.mapM parseFOp with
    | none => (d, "bad-op")
    | some ops =>
      let M := actMachine none
      match applyFOps M (State.new true) ops with
      | none => (d, "PANIC")
      | some s => (d, String.ofList (probeBits M s d.probes))
  | "sess" :: _ => (d, "ok")   -- packet stream definition: only meaningful to the implementation side
  | ["new", f, t] =>
    let to? : Option (Option Nat) := if t = "-" then some none else t.toNat?.map some
    -- the harness registers its recording listener first thing: id 0
    let mk (b : Bool) : MState := (MultiRecv.step (actMachine none) (State.new b) .addListener).1
    match d.live, f, to? with
    | none, "0", some to => ({ d with timeout := to, mr := some (mk false), dropped := false }, "ok")
    | none, "1", some to => ({ d with timeout := to, mr := some (mk true), dropped := false }, "ok")
    | _, _, _ => (d, "bad-op")
  | ["add", e, t] => match parseEp e, t.toNat? with
    | some e, some t => unitOp d (.addListen e t)
    | _, _ => (d, "bad-op")
  | ["rm", e, t] => match parseEp e, t.toNat? with
    | some e, some t => unitOp d (.removeListen e t)
    | _, _ => (d, "bad-op")
  | ["addall", e] => match parseEp e with
    | some e => unitOp d (.addAll e)
    | none => (d, "bad-op")
  | ["rmall", e] => match parseEp e with
    | some e => unitOp d (.removeAll e)
    | none => (d, "bad-op")
  | ["filt", "0"] => unitOp d (.setFiltering false)
  | ["filt", "1"] => unitOp d (.setFiltering true)
  | "push" :: e :: t :: kind :: _ =>
    match d.live, parseEp e, t.toNat? with
    | some s, some ep, some tsi =>
      let pkt? : Option (Option (Pkt Env)) :=
        if kind = "d" then some (some ⟨tsi, false, env⟩)
        else if kind = "c" then some (some ⟨tsi, true, env⟩)
        else if kind = "x" then some none else none
      match pkt? with
      | none => (d, "bad-op")
      | some pkt =>
        let (s', r) := push (actMachine d.timeout) s ep pkt
        -- Ok / Err of a datagram is not part of C18 (dispatched: the opaque Receiver's result; unparsable: C04's)
        let _ := r
        let res := "ok"
        ({ d with mr := some s' }, withEvents res ((newEvents s s').map showEvent))
    | _, _, _ => (d, "bad-op")
  | ["pause"] =>
    -- only in receivers created with `new <f> 10`: session time-out = 10 units (1500 ms on the implementation side),
    -- one pause = 3 units (450 ms): three pauses without data keep a session, `tick` (11 units) does not
    match d.live, d.timeout with
    | some _, some 10 => unitOp d (.tick 3)
    | _, _ => (d, "bad-op")
  | ["tick"] =>
    -- one tick of the harness = strictly more than the session timeout
    match d.live with
    | some _ => unitOp d (.tick ((d.timeout.getD 0) + 1))
    | none => (d, "bad-op")
  | ["cleanup"] =>
    match d.live with
    | some s =>
      let s' := cleanup (actMachine d.timeout) s env
      ({ d with mr := some s' }, withEvents "ok" (sortStrings ((newEvents s s').map showEvent)))
    | none => (d, "bad-op")
  | ["drop"] =>
    match d.live with
    | some s =>
      let s' := drop (actMachine d.timeout) s env
      ({ d with mr := some s', dropped := true }, withEvents "ok" (sortStrings ((newEvents s s').map showEvent)))
    | none => (d, "bad-op")
  | ["ladd"] =>
    match d.live with
    | some s => ({ d with mr := some (MultiRecv.step (actMachine d.timeout) s .addListener).1 }, s!"ok {s.listenersId}")
    | none => (d, "bad-op")
  | ["lrm", i] =>
    match d.live, i.toNat? with
    | some _, some i => unitOp d (.removeListener i)
    | _, _ => (d, "bad-op")
  | ["llog", i] =>
    match d.mr, i.toNat? with
    | some s, some i =>
      match AL.get s.listeners i with
      | some l => (d, withEvents "ok" (canonLog l))
      | none =>
        match (s.retired.filter (fun e => e.1 = i)).getLast? with
        | some e => (d, withEvents "ok" (canonLog e.2))
        | none => (d, "bad-op")
    | _, _ => (d, "bad-op")
  | ["race", n] =>
    match n.toNat? with
    | some n => (d, raceLine n)
    | none => (d, "bad-op")
  | _ => (d, "bad-op")

def step (d : DState) (args : List String) : DState × String :=
  let main := args.filter (fun a => !a.startsWith "#")
  match (args.filter (fun a => a.startsWith "#")).mapM parseAnnot with
  | none => (d, "bad-op")
  | some env =>
    match main with
    | ["cbs"] =>
      -- re-run the previous operation with the reported environment: same table and events, outputs now populated
      match d.lastMr with
      | none => (d, "bad-op")
      | some before =>
        let (d', _) := stepA { d with mr := some before, dropped := d.lastDropped } d.lastArgs env
        match d'.mr with
        | some after => ({ d' with lastArgs := [], lastMr := none }, withEvents "ok" (cbToken before after))
        | none => (d, "bad-op")
    | op :: _ =>
      let (d', out) := stepA d main env
      if op = "push" || op = "cleanup" || op = "drop" then
        ({ d' with lastArgs := main, lastMr := d.mr, lastDropped := d.dropped }, out)
      else ({ d' with lastArgs := [], lastMr := none }, out)
    | [] => (d, "bad-op")

end Flute.Drv.Tsi
