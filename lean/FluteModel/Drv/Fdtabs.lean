import FluteModel.Drv.Util
import FluteModel.FdtAbs
import FluteModel.XmlTok
import FluteModel.Spec.FdtSpec
import FluteModel.Sched
/-
  Line-protocol driver of the abstract FDT model (engine `fdtabs`).  Strings travel as opaque
  hex tokens (`-` = empty string, `~` = absent); the driver never looks inside them.
-/
namespace Flute.Drv.Fdtabs
open Flute Flute.FdtAbs Flute.Drv

structure DState where
  s : Option State := none
  popped : List Pub := []        -- instances taken from the queue so far (latest first)
  /-- cross-model differential: agent sched's scheduler model (`FluteModel.Sched`) run on the same history; the
      transfer starts / stops and the publications it DECIDES must be the ones the hints of the `rd` lines feed to
      the abstract FDT model.  `none` = switched off for the rest of the case (FDT refused: Sched has no admission). -/
  sched : Option Sched.State := none

/-! ### parsing -/

def optNat? (t : String) : Option (Option Nat) :=
  if t = "~" then some none else (nat? t).map some

def isHexTok (t : String) : Bool :=
  t = "-" || (t.length % 2 = 0 && t.length > 0 && t.toList.all (fun c => (hexDigit c).isSome))

def str? (t : String) : Option String := if isHexTok t then some t else none

def optStr? (t : String) : Option (Option String) :=
  if t = "~" then some none else (str? t).map some

def strList? (t : String) : Option (List String) := (t.splitOn ",").mapM str?

def optStrList? (t : String) : Option (Option (List String)) :=
  if t = "~" then some none else (strList? t).map some

def scheme? (t : String) : Option (Option Scheme) :=
  if t = "~" then some none else
  match t.splitOn "." with
  | ["m", m, g] => match nats? [m, g] with
    | some [m, g] => some (some (.rs2m m g))
    | _ => none
  | ["q", z, n, al] => match nats? [z, n, al] with
    | some [z, n, al] => some (some (.raptorq z n al))
    | _ => none
  | ["r", z, n, al] => match nats? [z, n, al] with
    | some [z, n, al] => some (some (.raptor z n al))
    | _ => none
  | _ => none

def oti? (t : String) : Option Oti :=
  match t.splitOn "," with
  | [e, i, b, l, p, sc] =>
    match nats? [e, i, b, l, p], scheme? sc with
    | some [e, i, b, l, p], some sc =>
      if validEnc e then some { enc := e, inst := i, maxSbl := b, esl := l, parity := p, scheme := sc } else none
    | _, _ => none
  | _ => none

def optOti? (t : String) : Option (Option Oti) :=
  if t = "~" then some none else (oti? t).map some

def cc? (t : String) : Option (Option CacheCtl) :=
  if t = "~" then some none
  else if t = "nc" then some (some .noCache)
  else if t = "ms" then some (some .maxStale)
  else if t.startsWith "in" then (nat? (t.drop 2).toString).map (fun n => some (.expiresIn n))
  else if t.startsWith "at" then (nat? (t.drop 2).toString).map (fun n => some (.expiresAt n))
  else none

def car? (t : String) : Option Bool :=
  if t = "~" then some false
  else if t.startsWith "d" || t.startsWith "i" then (nat? (t.drop 1).toString).map (fun _ => true)
  else none

/-- `<len>x<seed>`: only checked for shape, the bytes never reach the FDT -/
def data? (t : String) : Option Unit :=
  match t.splitOn "x" with
  | [a, b] => match nat? a, nat? b with
    | some _, some _ => some ()
    | _, _ => none
  | _ => none

/-! ### printing -/

def showOptNat : Option Nat → String
  | none => "~"
  | some n => toString n

def showOptStr : Option String → String
  | none => "~"
  | some s => s

def showList (xs : List String) : String := if xs.isEmpty then "~" else ",".intercalate xs

def showOptBool : Option Bool → String
  | none => "~"
  | some true => "1"
  | some false => "0"

def showAttrs (a : OtiAttrs) : String :=
  if a = noAttrs then "~" else
  ",".intercalate [showOptNat a.enc, showOptNat a.inst, showOptNat a.maxSbl, showOptNat a.esl, showOptNat a.maxN,
    match a.ssi with | none => "~" | some bs => hex bs]

def showCacheX : Option CacheX → String
  | none => "~"
  | some .noCache => "nc"
  | some .maxStale => "ms"
  | some (.expires n) => s!"ex{n}"

/-- the FEC-OTI attributes of a file as an RFC 6726 reader resolves them (File element's when it carries an encoding id,
    else the FDT-Instance's); scheme-specific info only for the schemes that define one.  WHERE the sender writes the
    attributes, `Complete` and `FullFDT` are not part of the property and are not printed. -/
def resolvedAttrs (inst : OtiAttrs) (f : OtiAttrs) : OtiAttrs :=
  let r := Spec.Fdt.resolveOti inst f
  if r.enc = some 1 ∨ r.enc = some 2 ∨ r.enc = some 6 then r else { r with ssi := none }

/-- every string is printed as the abstract instance holds it (= as announced): where the independent reader's value differs
    only by the XML 1.0 normalisation of literally written TAB / LF / CR (finding fdtabs-1) the harness prints the announced
    value as well and reports the difference through the oracle -/
def showAFile (inst : OtiAttrs) (f : AFile) : String :=
  joinSp ["F", toString f.toi, f.location, showOptNat f.contentLength, showOptNat f.transferLength,
    showOptStr f.contentType, showOptStr f.contentEncoding, showOptStr f.md5, showAttrs (resolvedAttrs inst f.oti),
    showCacheX f.cache, showOptStr f.etag, showList f.groups]

def insertBy {α} (key : α → Nat) (x : α) : List α → List α
  | [] => [x]
  | y :: ys => if key x ≤ key y then x :: y :: ys else y :: insertBy key x ys

def sortBy {α} (key : α → Nat) (xs : List α) : List α := xs.foldr (insertBy key) []

def showInst (i : AbsFdt) : String :=
  let fs := sortBy (fun (f : AFile) => f.toi) i.files
  joinSp (["I", toString i.expires, showList i.groups, toString fs.length] ++ fs.map (showAFile i.oti))

def showScheme : Option Scheme → String
  | none => "~"
  | some (.rs2m m g) => s!"m.{m}.{g}"
  | some (.raptorq z n al) => s!"q.{z}.{n}.{al}"
  | some (.raptor z n al) => s!"r.{z}.{n}.{al}"

def showOti (o : Oti) : String :=
  ",".intercalate [toString o.enc, toString o.inst, toString o.maxSbl, toString o.esl, toString o.parity,
    showScheme o.scheme]

def showRCache : RCache → String
  | .noCache => "nc"
  | .maxStale => "ms"
  | .expiresAt t => s!"at{t}"
  | .expiresAtHint t => s!"hint{t}"

/-- `ftiView`: the object packet reached the receiver before the FDT; its OTI may stem from EXT_FTI, which does not carry
    every field, so only encoding id and symbol length are shown (the content encoding and everything else are the FDT's
    either way) -/
def showRMeta (ftiView : Bool) (toi : Nat) : Option RMeta → String
  | none => s!"M {toi} nooti"
  | some m =>
    joinSp ["M", toString toi, m.location, showOptNat m.contentLength, toString m.transferLength,
      showOptStr m.contentType, toString m.cenc, showOptStr m.md5,
      (if ftiView then s!"{m.oti.enc}:{m.oti.esl}" else showOti m.oti), showRCache m.cache,
      showOptStr m.etag, showList m.groups]

/- quick-xml's end-of-line normalisation of element text: `XmlTok.eol11` (FluteModel/XmlTok.lean) -/
/-- the same on a hex token -/
def textRead (t : String) : String :=
  match unhex t with
  | some bs => hex (XmlTok.eol11 bs)
  | none => t

/-- flute's receiver view of an instance: expiry passed to `fdt_received` + metadata of every listed file -/
def showRecv (i : AbsFdt) (now : Nat) (ftiView : Bool := false) : String :=
  let fs := sortBy (fun (f : AFile) => f.toi) i.files
  let rec go : List AFile → Option (List String)
    | [] => some []
    | f :: r =>
      -- the receiver looks the object's TOI up in the instance (`get_file`)
      match getFile i f.toi with
      | none => match go r with
        | none => none
        | some t => some (s!"M {f.toi} nofile" :: t)
      | some g =>
      match recvMeta textRead i g with
      | .error _ => none
      | .ok m => match go r with
        | none => none
        | some t => some (showRMeta ftiView f.toi m :: t)
  match go fs with
  | none => "PANIC"
  | some ms =>
    let e := match recvExpiration i with | some e => e | none => now
    joinSp (["R", toString e, toString fs.length] ++ ms)

/-! ### abstract instances given literally (op `rxabs`): receiver-side extraction on arbitrary attribute sets -/

def attrs? (t : String) : Option OtiAttrs :=
  if t = "~" then some noAttrs else
  match t.splitOn "," with
  | [e, i, b, l, n, s] =>
    match optNat? e, optNat? i, optNat? b, optNat? l, optNat? n with
    | some e, some i, some b, some l, some n =>
      if s = "~" then some ⟨e, i, b, l, n, none⟩ else
      match unhex s with
      | some bs => some ⟨e, i, b, l, n, some bs⟩
      | none => none
    | _, _, _, _, _ => none
  | _ => none

def cachex? (t : String) : Option (Option CacheX) :=
  if t = "~" then some none
  else if t = "nc" then some (some .noCache)
  else if t = "ms" then some (some .maxStale)
  else if t.startsWith "ex" then (nat? (t.drop 2).toString).map (fun n => some (.expires n))
  else none

def cencName? (t : String) : Option (Option String) :=
  if t = "~" then some none
  else if t = "null" || t = "zlib" || t = "deflate" || t = "gzip" then some (some t) else none

def afile? : List String → Option AFile
  | [toi, loc, cl, tl, ty, ce, md5, oti, cc, etag, gr] =>
    match nat? toi, str? loc, optNat? cl, optNat? tl, optStr? ty, cencName? ce, optStr? md5 with
    | some toi, some loc, some cl, some tl, some ty, some ce, some md5 =>
      match attrs? oti, cachex? cc, optStr? etag, optStrList? gr with
      | some oti, some cc, some etag, some gr =>
        some { toi := toi, location := loc, contentLength := cl, transferLength := tl, contentType := ty,
               contentEncoding := ce, md5 := md5, oti := oti, cache := cc, etag := etag, groups := gr.getD [] }
      | _, _, _, _ => none
    | _, _, _, _, _, _, _ => none
  | _ => none

def afiles? : Nat → List String → Option (List AFile)
  | 0, [] => some []
  | 0, _ => none
  | n + 1, "F" :: r =>
    match afile? (r.take 11), afiles? n (r.drop 11) with
    | some f, some fs => some (f :: fs)
    | _, _ => none
  | _, _ => none

/-- `<exp> <groups> <oti> <n> {F ...}` -/
def absfdt? : List String → Option AbsFdt
  | exp :: gr :: oti :: n :: r =>
    match nat? exp, optStrList? gr, attrs? oti, nat? n with
    | some exp, some gr, some oti, some n =>
      match afiles? n r with
      | some fs => some { expires := exp, complete := none, fullFdt := none, groups := gr.getD [], oti := oti, files := fs }
      | none => none
    | _, _, _, _ => none
  | _ => none

/-! ### hints of a `rd` line: `p` (FDT session polled), `s<toi>` / `e<toi>` (transfer started / ended) -/

inductive Hint where
  | poll
  | start (t : Nat)
  | stop (t : Nat)
  | npk (n : Nat)      -- packets of the FDT transfer that starts in this call (library-determined length): for Sched only

def hint? (t : String) : Option Hint :=
  if t = "p" then some .poll
  else if t.startsWith "s" then (nat? (t.drop 1).toString).map .start
  else if t.startsWith "e" then (nat? (t.drop 1).toString).map .stop
  else if t.startsWith "n" then (nat? (t.drop 1).toString).map .npk
  else none

def applyHints (s : State) (now : Nat) : List Hint → State × List Pub
  | [] => (s, [])
  | h :: r =>
    let (s1, popped) : State × List Pub :=
      match h with
      | .poll =>
        -- the instance that leaves the queue at this poll (after a possible republication)
        let q := if needRepublish s now then (tryPublish s now).1.queue else s.queue
        ((step s (.poll now)).1, q.take 1)
      | .start t => ((step s (.tstart t now)).1, [])
      | .stop t => ((step s (.tdone t now)).1, [])
      | .npk _ => (s, [])
    let (s2, ps) := applyHints s1 now r
    (s2, popped ++ ps)

/- `is_xml_str` on a hex token: `XmlTok.xmlOkTok` (FluteModel/XmlTok.lean; `Lemmas.XmlTok.xmlOkTok_eq`: = every decoded code
   point is an XML 1.0 Char) -/

/-- the observed admission outcome of the FDT object for this call (`X` = `FileDesc::new` refuses it) -/
def withAdmit (s : State) (b : Bool) : State := { s with cfg := { s.cfg with fdtFits := fun _ => b } }

/-! ### the Sched model alongside (times in ns there, µs here) -/

def carKind? (t : String) : Option (Option Sched.Carousel) :=
  if t = "~" then some none
  else if t.startsWith "d" then (nat? (t.drop 1).toString).map (fun n => some (.delay (n * 1000)))
  else if t.startsWith "i" then (nat? (t.drop 1).toString).map (fun n => some (.interval (n * 1000)))
  else none

/-- packets of one transfer under an OTI: source symbols + parity symbols of every block -/
def nPackets (o : Oti) (len : Nat) : Nat :=
  match Partition.blockPartitioning o.maxSbl len o.esl with
  | .ok q => divCeil len o.esl + o.parity * q.2.2.2
  | .error _ => 0

def schedEvents (old new : Sched.State) : List Sched.Ev :=
  (new.log.take (new.log.length - old.log.length)).reverse

def schedSE (evs : List Sched.Ev) : List String :=
  evs.filterMap (fun e => match e with
    | .start _ toi _ _ => some s!"s{toi}"
    | .stop _ toi => some s!"e{toi}"
    | _ => none)

def schedPubs (st : Sched.State) (evs : List Sched.Ev) : List String :=
  evs.filterMap (fun e => match e with
    | .pub _ k files =>
      let fid := match Sched.getF st.fdts k with | some f => f.fdtId | none => 0
      some (s!"{fid}:" ++ ",".intercalate ((sortBy (fun x => x) files).map toString))
    | _ => none)

def showPubs (ps : List Pub) : List String :=
  ps.map (fun p => s!"{p.id}:" ++ ",".intercalate ((sortBy (fun x => x) (p.inst.files.map (·.toi))).map toString))

def hintSE (hs : List Hint) : List String :=
  hs.filterMap (fun h => match h with
    | .start t => some s!"s{t}"
    | .stop t => some s!"e{t}"
    | _ => none)

/-- publications the abstract model makes while applying the hints -/
def hintPubs (s : State) (now : Nat) : List Hint → List Pub
  | [] => []
  | h :: r =>
    let st := match h with
      | .poll => FdtAbs.step s (.poll now)
      | .start t => FdtAbs.step s (.tstart t now)
      | .stop t => FdtAbs.step s (.tdone t now)
      | .npk _ => (s, [], .unit)
    st.2.1 ++ hintPubs st.1 now r

/-- tell Sched how many packets the FDT transfer starting in this call has -/
def schedSetNpk (st : Sched.State) (n : Nat) : Sched.State :=
  let k := st.fdts.length
  let tbl := (List.range (k + 1)).map (fun i => if i = k then n else Sched.tblGet st.fdtPkts i)
  let st := { st with fdtPkts := tbl }
  match st.fdtQueue with
  | h :: _ => { st with fdts := Sched.updF st.fdts h (fun f => { f with nSym := n }) }
  | [] => st

/-! ### step -/

def findPub (id : Nat) : List Pub → Option Pub
  | [] => none
  | p :: r => if p.id = id then some p else findPub id r

def step (d : DState) (args : List String) : DState × String :=
  match args with
  | ["cfg", mode, sid, dur, oti, gr, fcenc, tw, ti] =>
    match nat? sid, nat? dur, oti? oti, optStrList? gr, nats? [fcenc, tw, ti] with
    | some sid, some dur, some oti, some gr, some [_, tw, ti] =>
      if (mode = "f" || mode = "o") && (tw = 16 || tw = 32 || tw = 48 || tw = 64 || tw = 80 || tw = 112) then
        let cfg : Cfg := { mode := if mode = "f" then .fullFdt else .beingTransferred, startId := sid,
                           durationUs := dur, oti := oti, groups := gr, toiBits := tw, toiInit := ti,
                           xmlOk := XmlTok.xmlOkTok }
        let scfg : Sched.Cfg := { mode := if mode = "f" then .full else .being, fdtCarousel := .delay 200000000,
                                  fdtDuration := dur * 1000, fdtStartId := sid, queues := [(0, 3)] }
        ({ s := some (init cfg), popped := [], sched := some (Sched.init scfg []) }, "ok")
      else (d, "bad-op")
    | _, _, _, _, _ => (d, "bad-op")
  | "rxabs" :: now :: rest =>
    match nat? now, absfdt? rest with
    | some now, some i => (d, showRecv i now)
    | _, _ => (d, "bad-op")
  | _ =>
  match d.s with
  | none => (d, "bad-op")
  | some s =>
  match args with
  | ["add", loc, ty, cl, tl, ce, md5, etag, gr, cc, oti, mtc, car, data, _flags, toiHint] =>
    match str? loc, str? ty, nats? [cl, tl, ce, mtc], optStr? md5, optStr? etag with
    | some loc, some ty, some [cl, tl, ce, mtc], some md5, some etag =>
      match optStrList? gr, cc? cc, optOti? oti, car? car, data? data with
      | some gr, some cc, some oti, some car, some _ =>
        if ce > 3 then (d, "bad-op") else
        let a : ObjAttrs := { location := loc, contentType := ty, contentLength := cl, transferLength := tl,
                              cenc := ce, md5 := md5, etag := etag, groups := gr, cache := cc, oti := oti,
                              maxTransferCount := mtc, carousel := car }
        -- WHICH TOI an accepted add gets is an input (`toiHint`, the value flute reported; `~` = flute refused): the
        -- allocator is property C15's.  The model only needs it to be new in the FDT.
        match (if toiHint = "~" then some none else (nat? toiHint).map some) with
        | none => (d, "bad-op")
        | some hint =>
        if (match hint with | some t => s.files.any (fun f => f.toi = t) | none => false) then (d, "TOI-CLASH") else
        let r := add (match hint with | some t => { s with nextToi := t } | none => s) a
        -- Sched: the same object with the scheduler's view of it (packets per transfer, count, carousel)
        let sch := match r.2, d.sched, r.1.files.getLast?, carKind? (args.getD 12 "~") with
          | .ok t, some st, some fd, some ck =>
            -- an EMPTY object sent with RaptorQ / Raptor: the encoder yields the p repair packets of the empty block
            -- (sched's mapping: packets per transfer = p)
            let npk := if (fd.oti.enc = 6 || fd.oti.enc = 1) && tl = 0 then fd.oti.parity else nPackets fd.oti tl
            let aa : Sched.AddArgs := { prio := 0, nSym := npk, maxCount := mtc, carousel := ck,
                                        start := none, target := none, allowStop := false }
            some (Sched.addObject { st with nextToi := t } aa).1
          | .ok _, _, _, _ => none
          | _, st, _, _ => st
        ({ d with s := some r.1, sched := sch },
          match r.2 with
          | .ok _ => "ok"
          | .err => "ERR"
          | .panic => "PANIC")
      | _, _, _, _, _ => (d, "bad-op")
    | _, _, _, _, _ => (d, "bad-op")
  | ["rm", toi] =>
    match nat? toi with
    | some t =>
      let r := remove s t
      ({ d with s := some r.1, sched := d.sched.map (fun st => (Sched.removeObject st t).1) }, if r.2 then "true" else "false")
    | none => (d, "bad-op")
  | ["pub", now] =>
    match nat? now with
    | some now =>
      let r := FdtAbs.step (withAdmit s true) (.publish now)
      let sch := if r.2.2 = .published false then none else d.sched.map (fun st => Sched.publishOp st (now * 1000))
      ({ d with s := some r.1, sched := sch }, if r.2.2 = .published false then "ERR" else "ok")
    | none => (d, "bad-op")
  | ["pub", now, "X"] =>
    match nat? now with
    | some now =>
      let r := FdtAbs.step (withAdmit s false) (.publish now)
      ({ d with s := some r.1, sched := none }, if r.2.2 = .published false then "ERR" else "ok")
    | none => (d, "bad-op")
  | ["complete"] =>
    ({ d with s := some (setComplete s), sched := d.sched.map (fun st => Sched.step st .setComplete) }, "ok")
  | "rd" :: now :: hints0 =>
    let refused := hints0.head? = some "X"
    let hints := if refused then hints0.drop 1 else hints0
    match nat? now, hints.mapM hint? with
    | some now, some hs =>
      let (s1, pops) := applyHints (withAdmit s (!refused)) now hs
      -- the scheduler model decides on its own; its decisions must be the hints
      let (sch, diverge) : Option Sched.State × Option String :=
        match d.sched with
        | none => (none, none)
        | some st =>
          if refused then (none, none) else
          let st := match hs.filterMap (fun h => match h with | .npk n => some n | _ => none) with
            | n :: _ => schedSetNpk st n
            | [] => st
          -- the event log is write-only for the scheduler: start every call with an empty one
          let st := { st with log := [] }
          let st' := (Sched.read st (now * 1000) []).1
          let evs := schedEvents st st'
          let se := schedSE evs
          let sp := schedPubs st' evs
          let hp := showPubs (hintPubs (withAdmit s true) now hs)
          if st'.panic.isSome then (none, some "SCHED-DIVERGE panic")
          else if se ≠ hintSE hs then (none, some ("SCHED-DIVERGE sched=" ++ ",".intercalate se ++ " hints=" ++ ",".intercalate (hintSE hs)))
          else if sp ≠ hp then (none, some ("SCHED-DIVERGE schedpubs=" ++ "|".intercalate sp ++ " model=" ++ "|".intercalate hp))
          else (some st', none)
      -- a divergence of the scheduler model is NOT part of the compared line (C10 does not speak about scheduling): it goes,
      -- after a TAB, to the side channel of `DrvFdtabs.main` (stderr + exit code 3, recorded as a note of the check)
      let side := match diverge with | some msg => "\t" ++ msg | none => ""
      let sch := match diverge with | some _ => none | none => sch
      (fun (r : DState × String) => (r.1, r.2 ++ side))
      ({ s := some s1, popped := pops.reverse ++ d.popped, sched := sch },
        if pops.isEmpty then "ok"
        else "ok pop " ++ ",".intercalate (pops.map (fun p => toString (p.id % 2^20))))
    | _, _ => (d, "bad-op")
  | ["inst", id] =>
    match nat? id with
    | some id => (d, match findPub id d.popped with | some p => showInst p.inst | none => "none")
    | none => (d, "bad-op")
  | ["rx", id, now, v] =>
    -- v: a = FDT then bare object packets, b = FDT then packets with the object's in-band signalling,
    --    c = object packets before the FDT; flute's receiver must hand out the same metadata in all three
    match nat? id, nat? now with
    | some id, some now =>
      if v = "a" || v = "b" || v = "c" then
        (d, match findPub id d.popped with | some p => showRecv p.inst now (v = "c") | none => "none")
      else (d, "bad-op")
    | _, _ => (d, "bad-op")
  | ["cur", now] =>
    match nat? now with
    | some now =>
      -- `to_xml` refuses FDT-level groups that XML 1.0 cannot carry
      (d, if (s.cfg.groups.getD []).all s.cfg.xmlOk then showInst (instanceAt s now) else "ERR")
    | none => (d, "bad-op")
  | ["fl"] => (d, "fl " ++ showList ((sortBy id (s.files.map (·.toi))).map toString))
  | _ => (d, "bad-op")

end Flute.Drv.Fdtabs
