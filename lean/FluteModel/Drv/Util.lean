import FluteModel.Prim
/- helpers shared by the line-protocol drivers (no Mathlib) -/
namespace Flute.Drv

def nat? (s : String) : Option Nat := s.toNat?

def nats? (xs : List String) : Option (List Nat) := xs.mapM nat?

def showRs {α} (f : α → String) : Rs α → String
  | .ok v => "ok " ++ f v
  | .error _ => "PANIC"

def hexDigit (c : Char) : Option Nat :=
  if '0' ≤ c ∧ c ≤ '9' then some (c.toNat - '0'.toNat)
  else if 'a' ≤ c ∧ c ≤ 'f' then some (c.toNat - 'a'.toNat + 10)
  else none

/-- lowercase hex string → bytes (as Nat < 256); "-" is the empty string -/
def unhex (s : String) : Option (List Nat) :=
  if s = "-" then some [] else
  let rec go : List Char → Option (List Nat)
    | [] => some []
    | [_] => none
    | a :: b :: r => do
      let x ← hexDigit a; let y ← hexDigit b; let t ← go r
      pure ((x * 16 + y) :: t)
  go s.toList

def hexNib (n : Nat) : Char := if n < 10 then Char.ofNat (48 + n) else Char.ofNat (87 + n)

def hex (bs : List Nat) : String :=
  if bs.isEmpty then "-" else
  String.ofList (bs.foldr (fun b acc => hexNib (b / 16 % 16) :: hexNib (b % 16) :: acc) [])

def joinSp (xs : List String) : String := " ".intercalate xs

end Flute.Drv

namespace Flute.Drv

/-- Generic line-protocol loop: one output line per input line; `case <id>` lines are echoed and
    reset the engine state; the first token of every other line is the engine name (dropped). -/
partial def driverLoop {σ : Type} (init : σ) (step : σ → List String → σ × String)
    (hin hout : IO.FS.Stream) (st : σ) : IO Unit := do
  let line ← hin.getLine
  if line.isEmpty then return ()
  let l := line.trimAscii.toString
  match l.splitOn " " with
  | "case" :: _ =>
    hout.putStrLn l
    driverLoop init step hin hout init
  | _ :: args =>
    let (st', out) := step st args
    hout.putStrLn out
    driverLoop init step hin hout st'
  | [] =>
    hout.putStrLn "bad-op"
    driverLoop init step hin hout st

def runDriver {σ : Type} (init : σ) (step : σ → List String → σ × String) : IO Unit := do
  let hin ← IO.getStdin
  let hout ← IO.getStdout
  driverLoop init step hin hout init
  hout.flush

end Flute.Drv
