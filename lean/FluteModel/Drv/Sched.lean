import FluteModel.Drv.Util
import FluteModel.Sched
import FluteModel.SchedM
/-
  Line-protocol driver of the scheduler model (engine `sched`).

    fdtpkts n0 n1 ...                      input table: packets of the k-th published FDT instance   -> ok
    new <f|b> <d|i> <carNs> <fdtDurNs> <startId> <il> <efdt> <fits 0|1> <nq> (<prio> <mux>)*         -> ok
        (il = interleave_blocks, efdt = symbol length of the FDT: used by the harness only)
    add <prio> <nSym> <maxCount> <n|d|i> <carNs> <-|startNs> <n|f|d|t> <targetNs> <0|1> <E> <B> <rem> -> ok <toi> | ERR
        (E, B, rem = symbol length, max source block length, bytes in the last symbol: harness only;
         optional tokens: x<ns> = CacheControl::Expires, harness only (the model has no cache control);
         Q<p> / R<p> = EMPTY object sent with RaptorQ / Raptor and p parity symbols from a buffer, harness only:
         one transfer is then the p repair packets of the empty block, and nSym of the op line is that packet count
         (the model's packets-per-transfer is an input; such an object has no target);
         F<c0,c1,..> = fault schedule of a STREAM source (AddArgs.faults): code of the n-th transfer attempt,
         0 = BlockEncoder::new fails (seek), >= 1 = the first read of the attempt fails)
    publish <t>                                                                                       -> ok
    remove <toi>                                                                                      -> true | false
    trigger <toi> <-|ns>                                                                              -> true | false
    complete                                                                                          -> ok
    read <t> (<toi>:<tick>)*       -> [+toi|-toi ]* (pkt <prio> <toi> <idx> <B> | fdt <id> <idx> [L <tois>] | none)
    nb_objects | is_added <toi> | nb_transfers <toi>
    window ...    engine-only scenario: interleave window of a multi-block FEC object -> ok
    pace ...      engine-only scenario: pacing of a FEC (repair packets) / content-encoded object -> ok
    probe ...     engine-only scenario with a fault-injecting STREAM source (the model has buffer sources only) -> ok
-/
namespace Flute.Drv.Sched
open Flute Flute.Sched

structure D where
  tbl : List Nat := []
  st : Option State := none

def optNat? (s : String) : Option (Option Nat) :=
  if s = "-" then some none else (nat? s).map some

def carousel? (k : String) (d : Nat) : Option (Option Carousel) :=
  match k with
  | "n" => some none
  | "d" => some (some (.delay d))
  | "i" => some (some (.interval d))
  | _ => none

def target? (k : String) (d : Nat) : Option (Option Target) :=
  match k with
  | "n" => some none
  | "f" => some (some .fast)
  | "d" => some (some (.dur d))
  | "t" => some (some (.time d))
  | _ => none

def queues? : List Nat → Option (List (Nat × Nat))
  | [] => some []
  | p :: m :: r => (queues? r).map ((p, m) :: ·)
  | _ => none

def tick? (s : String) : Option (Nat × Nat) :=
  match s.splitOn ":" with
  | [a, b] => match nat? a, nat? b with
    | some a, some b => some (a, b)
    | _, _ => none
  | _ => none

def insertSorted (x : Nat) : List Nat → List Nat
  | [] => [x]
  | y :: r => if x ≤ y then x :: y :: r else y :: insertSorted x r

def sortNat (l : List Nat) : List Nat := l.foldr insertSorted []

def showList (l : List Nat) : String :=
  if l.isEmpty then "-" else ",".intercalate ((sortNat l).map toString)

def showEvents (evs : List Ev) : String :=
  String.join (evs.map fun e =>
    match e with
    | .start _ t _ _ => s!"+{t} "
    | .stop _ t => s!"-{t} "
    | _ => "")

def showOut (s : State) : Out → String
  | .none => "none"
  | .hang => "HANG"
  | .pkt p t i b => s!"pkt {p} {t} {i} {if b then 1 else 0}"
  | .fdt k id i =>
    match getF s.fdts k with
    | some f => if i + 1 == f.nPk then s!"fdt {id} {i} L {showList f.content}" else s!"fdt {id} {i}"
    | none => s!"fdt {id} {i}"

def newEvents (old new : State) : List Ev :=
  (new.log.take (new.log.length - old.log.length)).reverse

/-- every object that could start a paced transfer during this read (waiting, or in a slot and
    requeued during the read) has a tick entry -/
def ticksCover (s : State) (ticks : List (Nat × Nat)) : Bool :=
  s.files.all fun t =>
    match getF s.objs t with
    | some f => !wantsTick f || ticks.any (fun p => p.1 == t)
    | none => true

def withState (d : D) (f : State → D × String) : D × String :=
  match d.st with
  | none => (d, "bad-op")
  | some s => if s.panic.isSome then (d, "PANIC") else f s

def fin (d : D) (s : State) (out : String) : D × String :=
  ({ d with st := some s }, if s.panic.isSome then "PANIC" else out)

/-- optional tokens of `add`: `x<ns>` (cache control, harness only) and `F<c0,c1,..>` (fault schedule of a stream
    source: code of the n-th transfer attempt, 0 = the open fails, >= 1 = the first read fails) -/
def faultsOf (opts : List String) : Option (List Nat) :=
  opts.foldl (fun acc o =>
    match acc with
    | none => none
    | some fl =>
      if o.startsWith "F" then
        match nats? (((o.drop 1).toString).splitOn ",") with
        | some l => some l
        | none => none
      else if o.startsWith "x" || o.startsWith "Q" || o.startsWith "R" then some fl else none) (some [])

def addStep (d : D) (prio nSym maxc ck cd st tk td al e b rem : String) (opts : List String := []) : D × String :=
    withState d fun s =>
      match nats? [prio, nSym, maxc, cd, td, al, e, b, rem], optNat? st with
      | some [prio, nSym, maxc, cd, td, al, _, _, _], some st =>
        match carousel? ck cd, target? tk td with
        | some car, some tg =>
          if al > 1 then (d, "bad-op") else
          match faultsOf opts with
          | none => (d, "bad-op")
          | some fl =>
          -- a read failure (code >= 1) is unobservable on an empty source: outside the fault model's input domain
          if nSym = 0 ∧ fl.any (fun c => decide (1 ≤ c)) = true then (d, "bad-op") else
          let (s, r) := addObject s { prio := prio, nSym := nSym, maxCount := maxc, carousel := car,
                                       start := st, target := tg, allowStop := al == 1, faults := fl }
          fin d s (match r with | some t => s!"ok {t}" | none => "ERR")
        | _, _ => (d, "bad-op")
      | _, _ => (d, "bad-op")

def step (d : D) (args : List String) : D × String :=
  match args with
  | "fdtpkts" :: ns =>
    match nats? ns with
    | some t => ({ d with tbl := t }, "ok")
    | none => (d, "bad-op")
  | "window" :: _ => (d, "ok")  -- engine-only scenario (interleave window of a FEC object), see probe.rs
  | "pace" :: _ => (d, "ok")    -- engine-only scenario (paced FEC / content-encoded object), see probe.rs
  | "probe" :: _ => (d, "ok")   -- engine-only scenario (failing stream source): nothing to model, see probe.rs
  | "new" :: m :: ck :: rest =>
    match nats? rest with
    | some (cd :: dur :: sid :: _il :: _efdt :: fits :: nq :: qs) =>
      match carousel? ck cd, queues? qs with
      | some (some car), some ql =>
        if ql.length ≠ nq ∨ fits > 1 then (d, "bad-op") else
        let mode? : Option Mode := if m = "f" then some .full else if m = "b" then some .being else none
        match mode? with
        | some mode =>
          let cfg : Cfg := { mode := mode, fdtCarousel := car, fdtDuration := dur, fdtStartId := sid, queues := ql,
                             fdtFits := fits == 1 }
          ({ d with st := some (init cfg d.tbl) }, "ok")
        | none => (d, "bad-op")
      | _, _ => (d, "bad-op")
    | _ => (d, "bad-op")
  | ["add", prio, nSym, maxc, ck, cd, st, tk, td, al, e, b, rem] => addStep d prio nSym maxc ck cd st tk td al e b rem
  | ["add", prio, nSym, maxc, ck, cd, st, tk, td, al, e, b, rem, o1] => addStep d prio nSym maxc ck cd st tk td al e b rem [o1]
  | ["add", prio, nSym, maxc, ck, cd, st, tk, td, al, e, b, rem, o1, o2] =>
    addStep d prio nSym maxc ck cd st tk td al e b rem [o1, o2]
  | ["publish", t] =>
    withState d fun s =>
      match nat? t with
      | some t => fin d (publishOp s t) (if s.cfg.fdtFits then "ok" else "ERR")
      | none => (d, "bad-op")
  | ["remove", t] =>
    withState d fun s =>
      match nat? t with
      | some t => let (s, r) := removeObject s t; fin d s (toString r)
      | none => (d, "bad-op")
  | ["trigger", t, ts] =>
    withState d fun s =>
      match nat? t, optNat? ts with
      | some t, some ts => let (s, r) := triggerTransferAt s t ts; fin d s (toString r)
      | _, _ => (d, "bad-op")
  | ["complete"] => withState d fun s => fin d { s with complete := true } "ok"
  | "read" :: t :: tks =>
    withState d fun s =>
      match nat? t, tks.mapM tick? with
      | some t, some ticks =>
        -- `Sched.readM` (FluteModel/SchedM.lean): `read` with the tick the model computes ITSELF for every object
        -- (`tickOf`: floor(target / n), /repo filedesc.rs after the repair of sched-4; `Props.C14.pacing_lower_bound_model`
        -- is about exactly this constant); the `toi:tick` tokens of the op line are accepted and ignored
        let _ := ticks
        let (s', out) := readM s t
        fin d s' (showEvents (newEvents s s') ++ showOut s' out)
      | _, _ => (d, "bad-op")
  | ["nb_objects"] => withState d fun s => (d, toString (nbObjects s))
  | ["is_added", t] =>
    withState d fun s =>
      match nat? t with
      | some t => (d, toString (isAdded s t))
      | none => (d, "bad-op")
  | ["nb_transfers", t] =>
    withState d fun s =>
      match nat? t with
      | some t => (d, match nbTransfers s t with | some n => toString n | none => "none")
      | none => (d, "bad-op")
  | _ => (d, "bad-op")

end Flute.Drv.Sched
