/-
  MD5 (RFC 1321), base64 (RFC 4648) and FNV-1a/64 on `List Nat` bytes, used ONLY by the model driver
  (the model itself takes the digest as an abstract function parameter).
-/
namespace Flute.Drv.Md5

def sTab : Array UInt32 := #[
  7,12,17,22,7,12,17,22,7,12,17,22,7,12,17,22,
  5,9,14,20,5,9,14,20,5,9,14,20,5,9,14,20,
  4,11,16,23,4,11,16,23,4,11,16,23,4,11,16,23,
  6,10,15,21,6,10,15,21,6,10,15,21,6,10,15,21]

def kTab : Array UInt32 := #[
  0xd76aa478,0xe8c7b756,0x242070db,0xc1bdceee,0xf57c0faf,0x4787c62a,0xa8304613,0xfd469501,
  0x698098d8,0x8b44f7af,0xffff5bb1,0x895cd7be,0x6b901122,0xfd987193,0xa679438e,0x49b40821,
  0xf61e2562,0xc040b340,0x265e5a51,0xe9b6c7aa,0xd62f105d,0x02441453,0xd8a1e681,0xe7d3fbc8,
  0x21e1cde6,0xc33707d6,0xf4d50d87,0x455a14ed,0xa9e3e905,0xfcefa3f8,0x676f02d9,0x8d2a4c8a,
  0xfffa3942,0x8771f681,0x6d9d6122,0xfde5380c,0xa4beea44,0x4bdecfa9,0xf6bb4b60,0xbebfbc70,
  0x289b7ec6,0xeaa127fa,0xd4ef3085,0x04881d05,0xd9d4d039,0xe6db99e5,0x1fa27cf8,0xc4ac5665,
  0xf4292244,0x432aff97,0xab9423a7,0xfc93a039,0x655b59c3,0x8f0ccc92,0xffeff47d,0x85845dd1,
  0x6fa87e4f,0xfe2ce6e0,0xa3014314,0x4e0811a1,0xf7537e82,0xbd3af235,0x2ad7d2bb,0xeb86d391]

def rotl (x : UInt32) (c : UInt32) : UInt32 := (x <<< c) ||| (x >>> (32 - c))

def word (bs : Array UInt8) (i : Nat) : UInt32 :=
  let b (j : Nat) : UInt32 := (bs.getD (i + j) 0).toUInt32
  b 0 ||| (b 1 <<< 8) ||| (b 2 <<< 16) ||| (b 3 <<< 24)

def processChunk (bs : Array UInt8) (off : Nat) (st : UInt32 × UInt32 × UInt32 × UInt32) :
    UInt32 × UInt32 × UInt32 × UInt32 := Id.run do
  let (a0, b0, c0, d0) := st
  let mut a := a0
  let mut b := b0
  let mut c := c0
  let mut d := d0
  for i in [0:64] do
    let mut f : UInt32 := 0
    let mut g : Nat := 0
    if i < 16 then
      f := (b &&& c) ||| ((~~~ b) &&& d); g := i
    else if i < 32 then
      f := (d &&& b) ||| ((~~~ d) &&& c); g := (5 * i + 1) % 16
    else if i < 48 then
      f := b ^^^ c ^^^ d; g := (3 * i + 5) % 16
    else
      f := c ^^^ (b ||| (~~~ d)); g := (7 * i) % 16
    let f2 := f + a + kTab[i]! + word bs (off + 4 * g)
    a := d
    d := c
    c := b
    b := b + rotl f2 sTab[i]!
  return (a0 + a, b0 + b, c0 + c, d0 + d)

def le32 (x : UInt32) : List Nat :=
  [ (x &&& 0xff).toNat, ((x >>> 8) &&& 0xff).toNat, ((x >>> 16) &&& 0xff).toNat, ((x >>> 24) &&& 0xff).toNat ]

/-- MD5 digest (16 bytes) -/
def md5 (msg : List Nat) : List Nat := Id.run do
  let n := msg.length
  let bitLen := n * 8
  let padZeros := (55 + 64 - n % 64) % 64
  let lenBytes : List Nat := (List.range 8).map fun i => (bitLen / 256 ^ i) % 256
  let all : List Nat := msg ++ [0x80] ++ List.replicate padZeros 0 ++ lenBytes
  let arr : Array UInt8 := (all.map fun b => UInt8.ofNat b).toArray
  let mut st : UInt32 × UInt32 × UInt32 × UInt32 := (0x67452301, 0xefcdab89, 0x98badcfe, 0x10325476)
  for ch in [0:arr.size / 64] do
    st := processChunk arr (ch * 64) st
  let (a, b, c, d) := st
  return le32 a ++ le32 b ++ le32 c ++ le32 d

def b64Char (n : Nat) : Char :=
  if n < 26 then Char.ofNat (65 + n)
  else if n < 52 then Char.ofNat (97 + n - 26)
  else if n < 62 then Char.ofNat (48 + n - 52)
  else if n = 62 then '+' else '/'

def base64Chars : List Nat → List Char
  | [] => []
  | [a] => [b64Char (a / 4), b64Char (a % 4 * 16), '=', '=']
  | [a, b] => [b64Char (a / 4), b64Char (a % 4 * 16 + b / 16), b64Char (b % 16 * 4), '=']
  | a :: b :: c :: r =>
    b64Char (a / 4) :: b64Char (a % 4 * 16 + b / 16) :: b64Char (b % 16 * 4 + c / 64) :: b64Char (c % 64) :: base64Chars r

def base64 (bs : List Nat) : String := String.ofList (base64Chars bs)

/-- `base64(md5(bytes))`, the form of the FDT's Content-MD5 -/
def md5b64 (bs : List Nat) : String := base64 (md5 bs)

def fnv64 (bs : List Nat) : UInt64 :=
  bs.foldl (fun h b => (h ^^^ UInt64.ofNat b) * 0x100000001b3) 0xcbf29ce484222325

def hexDigit (n : Nat) : Char := if n < 10 then Char.ofNat (48 + n) else Char.ofNat (87 + n)

def hex64 (x : UInt64) : String :=
  String.ofList ((List.range 16).map fun i => hexDigit ((x.toNat / 16 ^ (15 - i)) % 16))

/-- `len:fnv64` summary of a byte string -/
def summary (bs : List Nat) : String := s!"{bs.length}:{hex64 (fnv64 bs)}"

end Flute.Drv.Md5
